import CV.Proofs.InvTasksArms
/-
waitingHandlers accounting, part 6: the task loop and the task frames, `step`, guarded sessions.
-/
namespace CV.Core

theorem St.t46_rootOf_modComp_keep (s : St) (c : Nat) (f : Comp → Comp) (x : Nat) (hf : ∀ y : Comp, (f y).root = y.root) :
    (s.modComp c f).rootOf x = s.rootOf x := by
  unfold St.rootOf
  rw [St.t46_comp_modComp]
  split
  · exact hf _
  · rfl

theorem St.t46_rootOf_removeHandler (s : St) (h : Nat) (n : Option Name) (x : Nat) :
    (s.removeHandler h n).2.rootOf x = s.rootOf x := by
  unfold St.removeHandler
  dsimp only
  refine (St.t46_rootOf_modComp_keep _ _ _ _ ?h1).trans ?_
  case h1 => exact fun _ => rfl
  refine (St.t46_rootOf_modComp_keep _ _ _ _ ?h2).trans ?_
  case h2 => exact fun _ => rfl
  split
  · refine (St.t46_rootOf_modComp_keep _ _ _ _ ?h3)
    case h3 => exact fun _ => rfl
  · rfl

theorem St.T46G.weaken {xt : Option Task} {s s' : St} (h : St.T46G none s s') : St.T46G xt s s' :=
  ⟨fun x t _ ht => h.grow x t (by simp) ht, h.nd⟩

theorem St.t46_chooseTask_mem (s : St) (t0 : Task) (rest0 : List Task) : s.chooseTask t0 rest0 ∈ t0 :: rest0 := by
  unfold St.chooseTask
  split
  · cases hf : (t0 :: rest0).find? _ with
    | none => simp
    | some y => simpa using List.mem_of_find?_eq_some hf
  · simp

@[simp] theorem Cfg.t46_contStop_st (c : Cfg) (k : List Frame) (s : St) (r : Nat) (t : Task) :
    (c.contStop k s r t).st = (s.stopIteration r t).2 := by
  unfold Cfg.contStop; split <;> rfl

@[simp] theorem Cfg.t46_contError_st (c : Cfg) (k : List Frame) (s : St) (r : Nat) (t : Task) (b : Bool) :
    (c.contError k s r t b).st = (s.errorBranch r t b).2 := by
  unfold Cfg.contError; split <;> rfl

/-- the task frame on top is consumed: plain frames replace it, its weight is released, its task may leave the set -/
theorem T46Inv.goUnder {c c' : Cfg} (h : T46Inv c) {f : Frame} {k : List Frame} {r : Nat} {t : Task}
    (hs : c.stack = f :: k) (hu : T46Under r t k)
    (hD : ∀ e, c.st.t46_D e - f.t46_wt e ≤ c'.st.t46_D e) (hG : St.T46G (some t) c.st c'.st)
    (hr : ∀ x ts, Frame.taskLoop x ts ∈ k → c'.st.rootOf x = c.st.rootOf x) (hst : T46StackOk k c') : T46Inv c' := by
  obtain ⟨fs, hfs, hp⟩ := hst
  have hsh := h.shape
  rw [hs] at hsh
  refine ⟨fun e => ?_, hG.nd h.nd, ?_⟩
  · have h1 := h.acct e
    rw [hs, t46_WF_cons] at h1
    rw [hfs, t46_WF_append, t46_WF_plain e fs hp]
    have := hD e
    omega
  · rw [hfs]
    exact T46Shape.append_plain hp (T46Shape.under_mono hu hsh.2 hG hr)

/-- the task frame on top is replaced by plain frames on top of another task frame `F` for the same task -/
theorem T46Inv.goTask {c c' : Cfg} (h : T46Inv c) {f : Frame} {k : List Frame} {r : Nat} {t : Task}
    (hs : c.stack = f :: k) (hu : T46Under r t k) (F : Frame) (hF : T46FrameOk c'.st k F)
    (hD : ∀ e, c.st.t46_D e - f.t46_wt e + F.t46_wt e ≤ c'.st.t46_D e) (hG : St.T46G (some t) c.st c'.st)
    (hr : ∀ x ts, Frame.taskLoop x ts ∈ k → c'.st.rootOf x = c.st.rootOf x)
    (fs : List Frame) (hp : ∀ g ∈ fs, g.t46_plain = true) (hfs : c'.stack = fs ++ F :: k) : T46Inv c' := by
  have hsh := h.shape
  rw [hs] at hsh
  refine ⟨fun e => ?_, hG.nd h.nd, ?_⟩
  · have h1 := h.acct e
    rw [hs, t46_WF_cons] at h1
    rw [hfs, t46_WF_append, t46_WF_plain e fs hp, t46_WF_cons]
    have := hD e
    omega
  · rw [hfs]
    exact T46Shape.append_plain hp ⟨hF, T46Shape.under_mono hu hsh.2 hG hr⟩

/-! ## `tick`, the task loop, `processTask` -/

theorem Cfg.t46_tick {c : Cfg} (h : T46Inv c) {x : Nat} {k : List Frame} (hs : c.stack = .tick x :: k)
    (hq : (c.st.comp x).tasks ≠ [] → t46_quiet k = true ∧ c.st.rootOf x = x)
    (hr : ∀ y ts, Frame.taskLoop y ts ∈ k → (c.tick k x).st.rootOf y = c.st.rootOf y) : T46Inv (c.tick k x) := by
  generalize hc' : c.tick k x = c' at hr ⊢
  unfold Cfg.tick at hc'
  dsimp only at hc'
  split at hc'
  · rename_i hne
    subst hc'
    have hne' : (c.st.comp x).tasks ≠ [] := by
      intro h0; rw [h0] at hne; simp at hne
    obtain ⟨hq1, hq2⟩ := hq hne'
    have hsh := h.shape
    rw [hs] at hsh
    have hM : St.T46M c.st (c.st.modComp x fun y => { y with flushing := true }) := by t46m
    have hG : St.T46G none c.st (c.st.modComp x fun y => { y with flushing := true }) := by t46g
    refine ⟨fun e => ?_, hG.nd h.nd, ?_⟩
    · have h1 := h.acct e
      rw [hs, t46_WF_cons] at h1
      show t46_WF e ([Frame.taskLoop x _, .tickFin x _, .tickGen x] ++ k) ≤ _
      rw [t46_WF_append]
      have h2 : t46_WF e [Frame.taskLoop x (c.st.comp x).tasks, .tickFin x (c.st.comp x).flushing, .tickGen x] = 0 := by
        simp [Frame.t46_wt]
      have := hM e
      have := Frame.t46_wt_nonneg e (.tick x)
      simp only [Cfg.goto_st]
      omega
    · show T46Shape _ (Frame.taskLoop x _ :: Frame.tickFin x _ :: Frame.tickGen x :: k)
      refine ⟨⟨?_, ?_, h.nd x, fun t ht => hG.grow x t (by simp) ht⟩, trivial, trivial, T46Shape.mono hG hr hsh.2⟩
      · simpa [t46_quiet, Frame.t46_noisy] using hq1
      · simp only [Cfg.goto_st]
        refine (St.t46_rootOf_modComp_keep _ _ _ _ ?h1).trans hq2
        case h1 => exact fun _ => rfl
  · subst hc'
    exact h.goPlain hs (St.T46M.refl _) (St.T46G.refl _) hr ⟨[.tickGen x], rfl, by simp [Frame.t46_plain]⟩

theorem Cfg.t46_taskLoop {c : Cfg} (h : T46Inv c) {x : Nat} {ts : List Task} {k : List Frame}
    (hs : c.stack = .taskLoop x ts :: k) : T46Inv (c.taskLoop k x ts) := by
  have hsh := h.shape
  rw [hs] at hsh
  unfold Cfg.taskLoop
  split
  · exact h.goPlain hs (St.T46M.refl _) (St.T46G.refl _) (fun _ _ _ => rfl) (Cfg.pop_t46s ..)
  · rename_i t0 rest0
    obtain ⟨⟨hq, hroot, hnd, hmem⟩, hk⟩ := hsh
    have htm := St.t46_chooseTask_mem c.st t0 rest0
    refine ⟨fun e => ?_, h.nd, ?_⟩
    · have h1 := h.acct e
      rw [hs, t46_WF_cons] at h1
      show t46_WF e ([Frame.processTask x _, .taskLoop x _] ++ k) ≤ _
      rw [t46_WF_append]
      have h2 : t46_WF e [Frame.processTask x (c.st.chooseTask t0 rest0),
          .taskLoop x ((t0 :: rest0).erase (c.st.chooseTask t0 rest0))] = 0 := by simp [Frame.t46_wt]
      have := Frame.t46_wt_nonneg e (.taskLoop x (t0 :: rest0))
      simp only [Cfg.goto_st]
      omega
    · show T46Shape _ (Frame.processTask x _ :: Frame.taskLoop x _ :: k)
      refine ⟨⟨⟨rfl, ?_⟩, hmem _ htm⟩, ⟨hq, hroot, hnd.erase _, fun t ht => hmem t (List.mem_of_mem_erase ht)⟩, hk⟩
      intro hm
      exact ((List.Nodup.mem_erase_iff hnd).1 hm).1 rfl

theorem Cfg.t46_processTask {c : Cfg} (h : T46Inv c) {r : Nat} {t : Task} {k : List Frame}
    (hs : c.stack = .processTask r t :: k)
    (hr : ∀ y ts, Frame.taskLoop y ts ∈ k → (c.processTask k r t).st.rootOf y = c.st.rootOf y) :
    T46Inv (c.processTask k r t) := by
  have hsh := h.shape
  rw [hs] at hsh
  obtain ⟨⟨hu, hmem⟩, hk⟩ := hsh
  have hM := Cfg.processTask_t46m c k r t
  have hG : St.T46G none c.st (c.processTask k r t).st := Cfg.processTask_t46g c k r t
  generalize hc' : c.processTask k r t = c' at hr hM hG ⊢
  unfold Cfg.processTask at hc'
  dsimp only at hc'
  subst hc'
  refine ⟨fun e => ?_, hG.nd h.nd, ?_⟩
  · have h1 := h.acct e
    rw [hs, t46_WF_cons] at h1
    show t46_WF e ([Frame.ptBody r t, .ptFin r _] ++ k) ≤ _
    rw [t46_WF_append]
    have h2 : t46_WF e [Frame.ptBody r t, .ptFin r ((c.st.logE (.task t.e t.g)).comp r).currently] = 0 := by
      simp [Frame.t46_wt]
    have := hM e
    have := Frame.t46_wt_nonneg e (.processTask r t)
    omega
  · show T46Shape _ (Frame.ptBody r t :: Frame.ptFin r _ :: k)
    exact ⟨⟨hu.fin _ _, hG.grow r t (by simp) hmem⟩, trivial, T46Shape.mono hG hr hk⟩

/-! ## the exits shared by the task frames -/

theorem T46Inv.contStopMem {c : Cfg} (h : T46Inv c) {f : Frame} {k : List Frame} {r : Nat} {t : Task}
    (hs : c.stack = f :: k) (hu : T46Under r t k) (s' : St) (hM : St.T46M c.st s') (hG : St.T46G (some t) c.st s')
    (hm : t ∈ (s'.comp (s'.rootOf r)).tasks)
    (hr : ∀ x ts, Frame.taskLoop x ts ∈ k → (c.contStop k s' r t).st.rootOf x = c.st.rootOf x) :
    T46Inv (c.contStop k s' r t) := by
  refine h.goUnder hs hu (fun e => ?_) ?_ hr (Cfg.contStop_t46s ..)
  · rw [Cfg.t46_contStop_st]
    have := hM e
    have := St.t46_stopIteration_mem s' r t hm e
    have := Frame.t46_wt_nonneg e f
    omega
  · rw [Cfg.t46_contStop_st]
    exact St.T46G.stopIteration hG r t rfl

theorem T46Inv.contErrorMem {c : Cfg} (h : T46Inv c) {f : Frame} {k : List Frame} {r : Nat} {t : Task}
    (hs : c.stack = f :: k) (hu : T46Under r t k) (s' : St) (hM : St.T46M c.st s') (hG : St.T46G (some t) c.st s')
    (hm : t ∈ (s'.comp (s'.rootOf r)).tasks)
    (hr : ∀ x ts, Frame.taskLoop x ts ∈ k → (c.contError k s' r t false).st.rootOf x = c.st.rootOf x) :
    T46Inv (c.contError k s' r t false) := by
  refine h.goUnder hs hu (fun e => ?_) ?_ hr (Cfg.contError_t46s ..)
  · rw [Cfg.t46_contError_st]
    have := hM e
    have := St.t46_errorBranch_mem s' r t hm e
    have := Frame.t46_wt_nonneg e f
    omega
  · rw [Cfg.t46_contError_st]
    exact St.T46G.errorBranch hG r t false rfl

/-! ## `ptBody` -/

theorem Cfg.t46_ptBody {c : Cfg} (h : T46Inv c) {r : Nat} {t : Task} {k : List Frame}
    (hs : c.stack = .ptBody r t :: k)
    (hr : ∀ y ts, Frame.taskLoop y ts ∈ k → (c.ptBody k r t).st.rootOf y = c.st.rootOf y) :
    T46Inv (c.ptBody k r t) := by
  have hsh := h.shape
  rw [hs] at hsh
  obtain ⟨⟨hu, hmem⟩, hk⟩ := hsh
  have hroot := (T46Shape.under hu hk).1
  have hm : t ∈ (c.st.comp (c.st.rootOf r)).tasks := by rw [hroot]; exact hmem
  have hw0 : ∀ e, (Frame.ptBody r t).t46_wt e = 0 := fun _ => rfl
  generalize hc' : c.ptBody k r t = c' at hr ⊢
  unfold Cfg.ptBody at hc'
  split at hc'
  · -- the task's own user generator
    subst hc'
    have hG : St.T46G none c.st (c.st.resumeGenPre t.g false) := St.T46G.resumeGenPre (St.T46G.refl _) _ _
    refine h.goTask hs hu (.ptOwn r t) ⟨hu, hG.grow r t (by simp) hmem⟩ (fun e => ?_) hG.weaken hr
      [.stepGen t.g] (by simp [Frame.t46_plain]) rfl
    have := St.T46M.resumeGenPre (St.T46M.refl c.st) t.g false e
    simp only [Frame.t46_wt, Cfg.goto_st]
    omega
  · -- waitEvent generator
    rename_i w hgen
    unfold Cfg.ptBodyWait at hc'
    dsimp only at hc'
    have hMrm := St.T46M.removeHandler (St.T46M.refl c.st) (c.st.wait w).hDone (some ((c.st.wait w).evName.child sfxDone))
    have hGrm : St.T46G none c.st _ :=
      St.T46G.removeHandler (St.T46G.refl c.st) (c.st.wait w).hDone (some ((c.st.wait w).evName.child sfxDone))
    have hmrm : t ∈ ((c.st.removeHandler (c.st.wait w).hDone (some ((c.st.wait w).evName.child sfxDone))).2.comp
        ((c.st.removeHandler (c.st.wait w).hDone (some ((c.st.wait w).evName.child sfxDone))).2.rootOf r)).tasks := by
      rw [St.t46_rootOf_removeHandler]
      exact hGrm.grow _ t (by simp) hm
    split at hc'
    · subst hc'
      exact h.contErrorMem hs hu _ hMrm hGrm.weaken hmrm hr
    · split at hc'
      · rename_i src p hev hpar
        split at hc'
        · -- the caller is resumed
          subst hc'
          refine h.goTask hs hu (.ptParent r t p false) hu (fun e => ?_) ?hG1 hr
            [.stepGen p] (by simp [Frame.t46_plain]) rfl
          case hG1 =>
            exact St.T46G.resumeGenPre (St.T46G.logE (St.T46G.unregisterTask hGrm.weaken r t rfl) _) p true
          have h1 := St.t46_D_unregisterTask_mem _ r t e hmrm
          have h2 := hMrm e
          have : t.t46_wt e = if t.e = e then 2 else 0 := by simp [Task.t46_wt, hpar]
          rw [this] at h1
          have h3 : ∀ (u : St) (x : Entry), u.t46_D e ≤ ((u.logE x).resumeGenPre p true).t46_D e :=
            fun u x => St.T46M.resumeGenPre (St.T46M.logE (St.T46M.refl u) x) p true e
          simp only [Frame.t46_wt, Cfg.goto_st]
          refine Int.le_trans ?_ (h3 _ _)
          omega
        · subst hc'
          refine h.goUnder hs hu (fun e => ?_) (St.T46G.unregisterTask hGrm.weaken r t rfl) hr (Cfg.pop_t46s ..)
          have := hMrm e
          have := St.t46_D_unregisterTask_ge
            (c.st.removeHandler (c.st.wait w).hDone (some ((c.st.wait w).evName.child sfxDone))).2 r t e
          simp only [Frame.t46_wt, Cfg.pop_st]
          omega
      · subst hc'
        exact h.contStopMem hs hu _ hMrm hGrm.weaken hmrm hr
  · -- TimeoutError carrier
    rename_i w fired hgen
    unfold Cfg.ptBodyExc at hc'
    split at hc'
    · subst hc'
      exact h.contStopMem hs hu _ (St.T46M.refl _) (St.T46G.refl _) hm hr
    · dsimp only at hc'
      have hG1 : St.T46G (some t) c.st ((c.st.setGen t.g (.exc w true)).unregisterTask r t) :=
        St.T46G.unregisterTask (St.T46G.setGen (St.T46G.refl _) _ _) r t rfl
      have hD1 : ∀ e, ((c.st.setGen t.g (.exc w true)).unregisterTask r t).t46_D e = c.st.t46_D e + t.t46_wt e :=
        fun e => St.t46_D_unregisterTask_mem (c.st.setGen t.g (.exc w true)) r t e hm
      split at hc'
      · rename_i p hpar
        have hwt : ∀ e, t.t46_wt e = if t.e = e then 2 else 0 := fun e => by simp [Task.t46_wt, hpar]
        split at hc'
        · rename_i pe ph o rest st pc sd hgp
          split at hc'
          · subst hc'
            refine h.goTask hs hu (.ptParent r t p true) hu (fun e => ?_)
              (St.T46G.resumeGenPre (St.T46G.logE hG1 _) p true) hr [.stepGen p] (by simp [Frame.t46_plain]) rfl
            have h1 := hD1 e
            rw [hwt] at h1
            have h4 := St.T46M.resumeGenPre (St.T46M.logE (St.T46M.refl
              ((c.st.setGen t.g (.exc w true)).unregisterTask r t)) (.timeout pe ph (pc.getD false))) p true e
            simp only [Frame.t46_wt, Cfg.goto_st]
            omega
          · subst hc'
            refine h.goUnder hs hu (fun e => ?_) ?_ hr (Cfg.contError_t46s ..)
            · rw [Cfg.t46_contError_st]
              have h1 := hD1 e
              rw [hwt] at h1
              have h2 := St.t46_errorBranch_any ((((c.st.setGen t.g (.exc w true)).unregisterTask r t).logE
                (.timeout pe ph (pc.getD false))).setGen p .dead) r t true e
              have h3 : ((((c.st.setGen t.g (.exc w true)).unregisterTask r t).logE
                (.timeout pe ph (pc.getD false))).setGen p .dead).t46_D e
                  = ((c.st.setGen t.g (.exc w true)).unregisterTask r t).t46_D e := rfl
              simp only [Frame.t46_wt]
              omega
            · rw [Cfg.t46_contError_st]
              exact St.T46G.errorBranch (St.T46G.setGen (St.T46G.logE hG1 _) _ _) r t true rfl
        · subst hc'
          refine h.goUnder hs hu (fun e => ?_) hG1 hr (Cfg.pop_t46s ..)
          have h1 := hD1 e
          have := Task.t46_wt_nonneg e t
          simp only [Frame.t46_wt, Cfg.pop_st]
          omega
      · rename_i hpar
        subst hc'
        refine h.goUnder hs hu (fun e => ?_) ?_ hr (Cfg.contError_t46s ..)
        · rw [Cfg.t46_contError_st]
          have h1 := hD1 e
          have : t.t46_wt e = if t.e = e then 1 else 0 := by simp [Task.t46_wt, hpar]
          rw [this] at h1
          have h2 := St.t46_errorBranch_any1 ((c.st.setGen t.g (.exc w true)).unregisterTask r t) r t e
          simp only [Frame.t46_wt]
          omega
        · rw [Cfg.t46_contError_st]
          exact St.T46G.errorBranch hG1 r t false rfl
  · subst hc'
    exact h.contStopMem hs hu _ (St.T46M.refl _) (St.T46G.refl _) hm hr
  · rename_i v consumed hgen
    split at hc'
    · subst hc'
      exact h.contStopMem hs hu _ (St.T46M.refl _) (St.T46G.refl _) hm hr
    · subst hc'
      refine h.goUnder hs hu (fun e => ?_)
        (St.T46G.setValueOpt (St.T46G.setGen (St.T46G.refl _) _ _) _ _) hr (Cfg.pop_t46s ..)
      have := St.T46M.setValueOpt (St.T46M.setGen (St.T46M.refl c.st) t.g (.one v true)) t.e v e
      simp only [Frame.t46_wt, Cfg.pop_st]
      omega

/-! ## `ptOwn`, `ptParent` -/

theorem Cfg.t46_ptOwn {c : Cfg} (h : T46Inv c) {r : Nat} {t : Task} {k : List Frame}
    (hs : c.stack = .ptOwn r t :: k)
    (hown : ∀ w, c.ret.yield = .sub w → t.parent = none ∧ t.e < c.st.evs.length)
    (hr : ∀ y ts, Frame.taskLoop y ts ∈ k → (c.ptOwn k r t).st.rootOf y = c.st.rootOf y) :
    T46Inv (c.ptOwn k r t) := by
  have hsh := h.shape
  rw [hs] at hsh
  obtain ⟨⟨hu, hmem⟩, hk⟩ := hsh
  have hroot := (T46Shape.under hu hk).1
  have hm : t ∈ (c.st.comp (c.st.rootOf r)).tasks := by rw [hroot]; exact hmem
  generalize hc' : c.ptOwn k r t = c' at hr ⊢
  unfold Cfg.ptOwn at hc'
  split at hc'
  · rename_i v hy
    subst hc'
    refine h.goUnder hs hu (fun e => ?_) (St.T46G.setValueOpt (St.T46G.refl _) _ _) hr (Cfg.pop_t46s ..)
    have := St.T46M.setValueOpt (St.T46M.refl c.st) t.e v e
    simp only [Frame.t46_wt, Cfg.pop_st]
    omega
  · rename_i w hy
    subst hc'
    obtain ⟨hp, he⟩ := hown w hy
    have ht : (⟨t.e, t.g, none⟩ : Task) = t := by
      cases t; simp only at hp; subst hp; rfl
    refine h.goUnder hs hu (fun e => ?_) (St.T46G.ownSub (St.T46G.refl _) r t w (by rw [ht])) hr (Cfg.pop_t46s ..)
    have := St.t46_ownSub_M c.st r t w he (by rw [ht]; exact hm) e
    simp only [Frame.t46_wt, Cfg.pop_st]
    omega
  · subst hc'
    exact h.contStopMem hs hu _ (St.T46M.refl _) (St.T46G.refl _) hm hr
  · subst hc'
    exact h.contErrorMem hs hu _ (St.T46M.refl _) (St.T46G.refl _) hm hr
  · subst hc'
    refine h.goUnder hs hu (fun e => ?_) (St.T46G.refl _) hr ⟨[_], rfl, by simp [Frame.t46_plain]⟩
    simp only [Frame.t46_wt, Cfg.goto_st]; omega
  · subst hc'
    refine h.goUnder hs hu (fun e => ?_) (St.T46G.refl _) hr ⟨[_], rfl, by simp [Frame.t46_plain]⟩
    simp only [Frame.t46_wt, Cfg.goto_st]; omega

theorem Cfg.t46_ptParent {c : Cfg} (h : T46Inv c) {r : Nat} {t : Task} {p : Nat} {v : Bool} {k : List Frame}
    (hs : c.stack = .ptParent r t p v :: k)
    (hr : ∀ y ts, Frame.taskLoop y ts ∈ k → (c.ptParent k r t p v).st.rootOf y = c.st.rootOf y) :
    T46Inv (c.ptParent k r t p v) := by
  have hsh := h.shape
  rw [hs] at hsh
  obtain ⟨hu, hk⟩ := hsh
  have hwt : ∀ e, (Frame.ptParent r t p v).t46_wt e = if t.e = e then 2 else 0 := fun _ => rfl
  generalize hc' : c.ptParent k r t p v = c' at hr ⊢
  unfold Cfg.ptParent at hc'
  split at hc'
  · subst hc'
    refine h.goUnder hs hu (fun e => ?_) (St.T46G.parentSub (St.T46G.refl _) _ _ _ _ _) hr (Cfg.pop_t46s ..)
    rw [hwt]; exact St.t46_parentSub_any ..
  · subst hc'
    refine h.goUnder hs hu (fun e => ?_) (St.T46G.parentPlain (St.T46G.refl _) _ _ _ _ _) hr (Cfg.pop_t46s ..)
    rw [hwt]; exact St.t46_parentPlain_any ..
  · subst hc'
    refine h.goUnder hs hu (fun e => ?_) ?_ hr (Cfg.contStop_t46s ..)
    · rw [hwt, Cfg.t46_contStop_st]; exact St.t46_stopIteration_any ..
    · rw [Cfg.t46_contStop_st]; exact St.T46G.stopIteration (St.T46G.refl _) r t rfl
  · subst hc'
    refine h.goUnder hs hu (fun e => ?_) ?_ hr (Cfg.contError_t46s ..)
    · rw [hwt, Cfg.t46_contError_st]; exact St.t46_errorBranch_any ..
    · rw [Cfg.t46_contError_st]; exact St.T46G.errorBranch (St.T46G.refl _) r t true rfl
  · subst hc'
    refine h.goUnder hs hu (fun e => ?_) (St.T46G.refl _) hr ⟨[_], rfl, by simp [Frame.t46_plain]⟩
    have := Frame.t46_wt_nonneg e (.ptParent r t p v)
    simp only [Cfg.goto_st]; omega
  · subst hc'
    refine h.goUnder hs hu (fun e => ?_) (St.T46G.refl _) hr ⟨[_], rfl, by simp [Frame.t46_plain]⟩
    have := Frame.t46_wt_nonneg e (.ptParent r t p v)
    simp only [Cfg.goto_st]; omega

/-! ## the two plain arms whose slack needs the guard: `hApply`, `invoke` -/

theorem Cfg.t46_hApply_M (c : Cfg) (k : List Frame) (r e : Nat) (rest : List Nat) (err : Bool) (v : Outcome)
    (hg : ∀ g, v = .gen g → e < c.st.evs.length) : St.T46M c.st (c.hApply k r e rest err v).st := by
  unfold Cfg.hApply
  dsimp only
  split <;> exact St.T46M.geTasksCheck (St.t46_applyValue_M c.st r e v hg) r e

theorem Cfg.t46_invoke_M (c : Cfg) (k : List Frame) (r h e : Nat)
    (hd : ∀ w, (c.st.handler h).kind = .waitDone w → (c.st.wait w).started = true)
    (ht : ∀ w, (c.st.handler h).kind = .waitTick w → (c.st.wait w).started = true) :
    St.T46M c.st (c.invoke k r h e).st := by
  unfold Cfg.invoke
  dsimp only
  generalize hS : (if ((c.st.handler h).kind.code != 0) = true then
      c.st.logE (Entry.hinv e (c.st.handler h).kind.code (hkey c.st (c.st.handler h))) else c.st) = S
  have hSM : St.T46M c.st S := by subst hS; t46m
  have hSw : ∀ w, S.wait w = c.st.wait w := by subst hS; intro w; split <;> rfl
  have hSc : ∀ x, S.comp x = c.st.comp x := by subst hS; intro x; split <;> rfl
  have hSr : ∀ x, S.rootOf x = c.st.rootOf x := by subst hS; intro x; split <;> rfl
  split
  · exact Cfg.invokeUser_t46m c k S h e _ _ hSM
  · simp only [Cfg.goto_st]; t46m
  · simp only [Cfg.popRet_st]; t46m
  · rename_i w hk
    simp only [Cfg.popRet_st]
    exact hSM.trans (St.t46_onWaitDone_M S w e (by rw [hSw]; exact hd w hk))
  · rename_i w hk
    simp only [Cfg.popRet_st]
    exact hSM.trans (St.t46_onWaitTick_M S w (by rw [hSw]; exact ht w hk))
  · simp only [Cfg.popRet_st]; t46m
  · split <;> simp only [Cfg.popRet_st, Cfg.raise_st] <;> t46m
  · simp only [Cfg.popRet_st]; t46m

end CV.Core

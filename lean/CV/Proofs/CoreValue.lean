import CV.Model.Core.Value
/-
Value layer (C04): folding `Val.set` over the results handlers produce yields exactly the
"collapsed" list the property statement describes.
-/
namespace CV.Core

/-- reachable Value states: unset, single, or a list of at least two -/
def Val.WF (v : Val) : Prop :=
  (v.result = false → v.items = [] ∧ v.isList = false) ∧
  (v.result = true → v.isList = false → v.items.length = 1) ∧
  (v.isList = true → v.result = true ∧ 2 ≤ v.items.length)

theorem Val.wf_init : Val.WF {} := by
  simp [Val.WF]

theorem Val.set_items (v : Val) (x : VItem) (h : v.WF) : (v.set x).items = v.items ++ [x] := by
  unfold Val.set
  obtain ⟨h0, _, _⟩ := h
  by_cases hr : v.result = true
  · by_cases hl : v.isList = true <;> simp [hr, hl]
  · have hr' : v.result = false := by simpa using hr
    simp [hr', (h0 hr').1]

theorem Val.set_result (v : Val) (x : VItem) : (v.set x).result = true := by
  unfold Val.set
  by_cases hr : v.result = true
  · by_cases hl : v.isList = true <;> simp [hr, hl]
  · have hr' : v.result = false := by simpa using hr
    simp [hr']

theorem Val.set_isList (v : Val) (x : VItem) (h : v.WF) : (v.set x).isList = v.result := by
  unfold Val.set
  obtain ⟨h0, _, h2⟩ := h
  by_cases hr : v.result = true
  · by_cases hl : v.isList = true <;> simp [hr, hl]
  · have hr' : v.result = false := by simpa using hr
    simp [hr']

theorem Val.set_errors (v : Val) (x : VItem) : (v.set x).errors = v.errors := by
  unfold Val.set
  by_cases hr : v.result = true
  · by_cases hl : v.isList = true <;> simp [hr, hl]
  · have hr' : v.result = false := by simpa using hr
    simp [hr']

theorem Val.set_wf (v : Val) (x : VItem) (h : v.WF) : (v.set x).WF := by
  have hi := Val.set_items v x h
  have hr := Val.set_result v x
  have hl := Val.set_isList v x h
  obtain ⟨h0, h1, h2⟩ := h
  refine ⟨?_, ?_, ?_⟩
  · intro hf; rw [hr] at hf; cases hf
  · intro _ hnl
    rw [hl] at hnl
    rw [hi, (h0 hnl).1]; rfl
  · intro hlist
    rw [hl] at hlist
    refine ⟨hr, ?_⟩
    rw [hi, List.length_append]
    by_cases hL : v.isList = true
    · have := (h2 hL).2; simp; omega
    · have hL' : v.isList = false := by simpa using hL
      have := h1 hlist hL'; simp; omega

def setAll (v : Val) (xs : List VItem) : Val := xs.foldl Val.set v

theorem setAll_wf (v : Val) (xs : List VItem) (h : v.WF) : (setAll v xs).WF := by
  induction xs generalizing v with
  | nil => simpa [setAll] using h
  | cons x xs ih => simpa [setAll] using ih (v.set x) (Val.set_wf v x h)

theorem setAll_items (v : Val) (xs : List VItem) (h : v.WF) : (setAll v xs).items = v.items ++ xs := by
  induction xs generalizing v with
  | nil => simp [setAll]
  | cons x xs ih =>
    have := ih (v.set x) (Val.set_wf v x h)
    simp only [setAll, List.foldl_cons] at this ⊢
    rw [this, Val.set_items v x h, List.append_assoc]; rfl

theorem view_of_wf (v : Val) (h : v.WF) : v.view = collapse v.items := by
  obtain ⟨h0, h1, h2⟩ := h
  unfold Val.view
  by_cases hr : v.result = true
  · by_cases hl : v.isList = true
    · have := (h2 hl).2
      simp only [hr, hl, Bool.not_true, Bool.false_eq_true, if_false, if_true]
      match hitems : v.items, this with
      | a :: b :: rest, _ => simp [collapse]
    · have hl' : v.isList = false := by simpa using hl
      have := h1 hr hl'
      simp only [hr, hl', Bool.not_true, Bool.false_eq_true, if_false]
      match hitems : v.items, this with
      | [a], _ => simp [collapse]
  · have hr' : v.result = false := by simpa using hr
    simp [hr', (h0 hr').1, collapse]

end CV.Core

import CV.Proofs.InvTasksThm
import CV.Proofs.InvTasksV
import CV.Proofs.InvTasksCtx
/-
waitingHandlers accounting, part 11: the RUN-LEVEL `eventDone_once`.

`T46Trace s0 e c p`: `c` is a configuration of a guarded session from `s0` and along the way the end-of-event step of `e`
(`_eventDone(e)` entered with `waitingHandlers = 0`: `t46_passB`) went through `p` times.
`T46Once e n0 c p`:
    p + (dispatch contexts of e open on the stack) + n0 ≤ number of `.disp e` entries in the log          (k)
    waitingHandlers(e) ≥ 1  →  p + 1 + n0 ≤ number of `.disp e` entries in the log                         (j)
    `.hLoop / .dispFin / .eventDone` frames sit only on top of the stack                                    (top)
(k) says: every pass is paid for by its own dispatch.  (j) is what lets a task of `e` perform the pass after its
dispatcher has returned: while obligations exist, one dispatch is still unpaid.
-/
namespace CV.Core

/-- the event whose `waitingHandlers` the step of a frame may change -/
def Frame.t46_wev : Frame → Option Nat
  | .hApply _ e _ _ _ => some e
  | .ptBody _ t => some t.e
  | .ptOwn _ t => some t.e
  | .ptParent _ t _ _ => some t.e
  | _ => none

theorem Cfg.eventDone_t46c0 (c : Cfg) (k : List Frame) (r e : Nat) (a : Bool) :
    T46CtxOk (fun _ => 0) k (c.eventDone k r e a) := by t46c Cfg.eventDone

theorem t46_stepFrame_pkg (c : Cfg) (k : List Frame) (f : Frame) :
    St.T46V f.t46_wev c.st (stepFrame c k f).st ∧ T46CtxOk (fun e => f.t46_sw e) k (stepFrame c k f) := by
  cases f <;> dsimp only [stepFrame]
  case effectDone r e a => exact ⟨Cfg.effectDone_t46v .., Cfg.effectDone_t46c ..⟩
  case eventDone r e a => exact ⟨Cfg.eventDone_t46v .., Cfg.eventDone_t46c ..⟩
  case updateRoot a b => exact ⟨Cfg.updateRoot_t46v .., Cfg.updateRoot_t46c ..⟩
  case register a b => exact ⟨Cfg.register_t46v .., Cfg.register_t46c ..⟩
  case registerFin a => exact ⟨Cfg.registerFin_t46v .., Cfg.registerFin_t46c ..⟩
  case prepUnregFin a => exact ⟨Cfg.prepUnregFin_t46v .., Cfg.prepUnregFin_t46c ..⟩
  case stopMgr a b => exact ⟨Cfg.stopMgr_t46v .., Cfg.stopMgr_t46c ..⟩
  case ticks a b => exact ⟨Cfg.ticks_t46v .., Cfg.ticks_t46c ..⟩
  case stopFin a => exact ⟨Cfg.stopFin_t46v .., Cfg.stopFin_t46c ..⟩
  case timerNew a => exact ⟨Cfg.timerNew_t46v .., Cfg.timerNew_t46c ..⟩
  case acts a b => exact ⟨Cfg.acts_t46v .., Cfg.acts_t46c ..⟩
  case doFin a => exact ⟨Cfg.doFin_t46v .., Cfg.doFin_t46c ..⟩
  case drainQ a => exact ⟨Cfg.drainQ_t46v .., Cfg.drainQ_t46c ..⟩
  case stepGen a => exact ⟨Cfg.stepGen_t46v .., Cfg.stepGen_t46c ..⟩
  case processTask r t => exact ⟨Cfg.processTask_t46v .., Cfg.processTask_t46c ..⟩
  case ptBody r t => exact ⟨Cfg.ptBody_t46v c k r t rfl, Cfg.ptBody_t46c ..⟩
  case ptOwn r t => exact ⟨Cfg.ptOwn_t46v c k r t rfl, Cfg.ptOwn_t46c ..⟩
  case ptParent r t p v => exact ⟨Cfg.ptParent_t46v c k r t p v rfl, Cfg.ptParent_t46c ..⟩
  case ptFin a b => exact ⟨Cfg.ptFin_t46v .., Cfg.ptFin_t46c ..⟩
  case dispatcher a b d => exact ⟨Cfg.dispatcher_t46v .., Cfg.dispatcher_t46c ..⟩
  case hLoop a b d e g => exact ⟨Cfg.hLoop_t46v .., Cfg.hLoop_t46c ..⟩
  case invoke a b d => exact ⟨Cfg.invoke_t46v .., Cfg.invoke_t46c ..⟩
  case invokeFin a b => exact ⟨Cfg.invokeFin_t46v .., Cfg.invokeFin_t46c ..⟩
  case hAfter a b d e g => exact ⟨Cfg.hAfter_t46v .., Cfg.hAfter_t46c ..⟩
  case hApply r e rest err v => exact ⟨Cfg.hApply_t46v c k r e rest err v rfl, Cfg.hApply_t46c ..⟩
  case dispFin a b d => exact ⟨Cfg.dispFin_t46v .., Cfg.dispFin_t46c ..⟩
  case dispatchLoop a => exact ⟨Cfg.dispatchLoop_t46v .., Cfg.dispatchLoop_t46c ..⟩
  case flush a => exact ⟨Cfg.flush_t46v .., Cfg.flush_t46c ..⟩
  case flushFin a b => exact ⟨Cfg.flushFin_t46v .., Cfg.flushFin_t46c ..⟩
  case tick a => exact ⟨Cfg.tick_t46v .., Cfg.tick_t46c ..⟩
  case taskLoop a b => exact ⟨Cfg.taskLoop_t46v .., Cfg.taskLoop_t46c ..⟩
  case tickFin a b => exact ⟨Cfg.tickFin_t46v .., Cfg.tickFin_t46c ..⟩
  case tickGen a => exact ⟨Cfg.tickGen_t46v .., Cfg.tickGen_t46c ..⟩
  case run a => exact ⟨Cfg.run_t46v .., Cfg.run_t46c ..⟩
  case runLoop a => exact ⟨Cfg.runLoop_t46v .., Cfg.runLoop_t46c ..⟩
  case runCatch a => exact ⟨St.T46V.refl _, Cfg.pop_t46c ..⟩
  case runRethrow a => exact ⟨Cfg.runRethrow_t46v .., Cfg.runRethrow_t46c ..⟩
  case runFin a => exact ⟨Cfg.runFin_t46v .., Cfg.runFin_t46c ..⟩

theorem t46_unwind_pkg (c : Cfg) (k : List Frame) (ex : Exn) (f : Frame) :
    St.T46V none c.st (unwind c k ex f).st ∧ T46CtxOk (fun _ => 0) k (unwind c k ex f) := by
  cases f <;> dsimp only [unwind]
  case ptFin r hd => exact ⟨Cfg.ptFin_t46v .., Cfg.ptFin_t46c ..⟩
  case invokeFin e hh => exact ⟨Cfg.invokeFin_t46v .., Cfg.invokeFin_t46c ..⟩
  case flushFin r old => exact ⟨Cfg.flushFin_t46v .., Cfg.flushFin_t46c ..⟩
  case tickFin x old => exact ⟨Cfg.tickFin_t46v .., Cfg.tickFin_t46c ..⟩
  case runCatch x => exact ⟨Cfg.runCatchExn_t46v .., Cfg.runCatchExn_t46c ..⟩
  case runRethrow ex0 => exact ⟨Cfg.runRethrow_t46v .., Cfg.runRethrow_t46c ..⟩
  all_goals exact ⟨St.T46V.refl _, Cfg.pop_t46c ..⟩

/-- the `_dispatcher(e)` step logs `.disp e` -/
theorem Cfg.t46_dispatcher_log (c : Cfg) (k : List Frame) (r e rem : Nat) :
    ∃ es, (c.dispatcher k r e rem).st.log = es ++ c.st.log ∧ Entry.disp e ∈ es := by
  have hle : St.Le (c.st.logE (.disp e)) (c.dispatcher k r e rem).st := by
    unfold Cfg.dispatcher St.dispatchPre
    (try dsimp only)
    st_le
  obtain ⟨es, h1, _⟩ := hle.hist
  exact ⟨es ++ [.disp e], by rw [h1]; simp [St.logE], by simp⟩

theorem Frame.t46_sw_le_one (e : Nat) (f : Frame) : f.t46_sw e ≤ 1 := by
  cases f <;> simp only [Frame.t46_sw] <;> first | omega | (split <;> omega)

theorem Frame.t46_wev_sw (e : Nat) (f : Frame) (h : f.t46_wev = some e) : f.t46_sw e = 1 := by
  cases f <;> simp only [Frame.t46_wev] at h <;> first | (cases h; simp [Frame.t46_sw]; done) | cases h

theorem Frame.t46_cw_zero (e : Nat) (f : Frame) (h1 : f.t46_noisy = false) (h2 : f.t46_topOnly = false) :
    f.t46_cw e = 0 := by
  cases f <;> simp_all [Frame.t46_cw, Frame.t46_noisy, Frame.t46_topOnly]

theorem t46_ctx_zero (e : Nat) : ∀ (k : List Frame), (∀ f ∈ k, f.t46_cw e = 0) → t46_ctx e k = 0
  | [], _ => rfl
  | f :: k, h => by
    rw [t46_ctx_cons, h f (by simp), t46_ctx_zero e k (fun g hg => h g (by simp [hg]))]

/-- below a task frame there is no dispatch context at all -/
theorem T46Under.ctx_zero {s : St} {r : Nat} {t : Task} {k : List Frame} (hu : T46Under r t k) (hs : T46Shape s k)
    (htop : ∀ g ∈ k, g.t46_topOnly = false) (e : Nat) : t46_ctx e k = 0 := by
  obtain ⟨pre, ts, k', hk, _, _, hpre⟩ := hu.elim
  subst hk
  have hq := (T46Shape.loop_quiet hs).1
  simp only [t46_quiet, List.all_eq_true, Bool.not_eq_true'] at hq
  apply t46_ctx_zero
  intro f hf
  rcases List.mem_append.1 hf with h1 | h1
  · rcases hpre with hp | ⟨a, b, hp⟩
    · subst hp; cases h1
    · subst hp; simp at h1; subst h1; rfl
  · rcases List.mem_cons.1 h1 with h2 | h2
    · subst h2; rfl
    · exact Frame.t46_cw_zero e f (hq f h2) (htop f (by simp [h2]))

structure T46Once (e n0 : Nat) (c : Cfg) (p : Nat) : Prop where
  k : p + t46_ctx e c.stack + n0 ≤ c.st.log.count (Entry.disp e)
  j : 1 ≤ (c.st.ev e).waiting → p + 1 + n0 ≤ c.st.log.count (Entry.disp e)
  top : ∀ g ∈ c.stack.tail, g.t46_topOnly = false

theorem t46_passB_iff (c : Cfg) (e : Nat) : t46_passB c e = true ↔ T46Pass c e := by
  constructor
  · exact t46_passB_spec c e
  · rintro ⟨r, err, k, hs, hx, hw⟩
    unfold t46_passB
    rw [hx, hs]
    simp [hw]

theorem t46_passB_top (c : Cfg) (e : Nat) (f : Frame) (k : List Frame) (hs : c.stack = f :: k)
    (h : t46_passB c e = true) : c.exn = none ∧ (c.st.ev e).waiting = 0 ∧ ∃ r err, f = .eventDone r e err := by
  obtain ⟨r, err, k', hs', hx, hw⟩ := t46_passB_spec c e h
  rw [hs] at hs'
  cases hs'
  exact ⟨hx, hw, r, err, rfl⟩

theorem T46CtxOk.at {B : Nat → Nat} {k : List Frame} {c' : Cfg} (h : T46CtxOk B k c') (e : Nat) :
    ∃ fs, c'.stack = fs ++ k ∧ (∀ g ∈ fs.tail, g.t46_topOnly = false) ∧ t46_ctx e fs ≤ B e := by
  obtain ⟨fs, h1, h2, h3⟩ := h
  exact ⟨fs, h1, h2, h3 e⟩

/-- the common part of all steps: what the new configuration looks like -/
theorem T46Once.go {e n0 : Nat} {c c' : Cfg} {p p' : Nat} {f : Frame} {k : List Frame} (hs : c.stack = f :: k)
    (ho : T46Once e n0 c p) (b : Nat)
    (hc : ∃ fs, c'.stack = fs ++ k ∧ (∀ g ∈ fs.tail, g.t46_topOnly = false) ∧ t46_ctx e fs ≤ b)
    (hK : p' + b + t46_ctx e k + n0 ≤ c'.st.log.count (Entry.disp e))
    (hJ : 1 ≤ (c'.st.ev e).waiting → p' + 1 + n0 ≤ c'.st.log.count (Entry.disp e)) : T46Once e n0 c' p' := by
  obtain ⟨fs, hfs, htl, hb⟩ := hc
  have htop := ho.top
  rw [hs] at htop
  refine ⟨?_, hJ, ?_⟩
  · rw [hfs, t46_ctx_append]
    omega
  · rw [hfs]
    intro g hg
    cases fs with
    | nil => exact htop g (List.mem_of_mem_tail hg)
    | cons a fs' =>
      rcases List.mem_append.1 (by simpa using hg) with h1 | h1
      · exact htl g (by simpa using h1)
      · exact htop g (by simpa using h1)

theorem t46_count_append_ge (e : Nat) (es l : List Entry) :
    l.count (Entry.disp e) ≤ (es ++ l).count (Entry.disp e) := by
  rw [List.count_append]; omega

theorem t46_passB_false (c : Cfg) (e : Nat) (f : Frame) (k : List Frame) (hs : c.stack = f :: k)
    (hf : ∀ r err, f ≠ .eventDone r e err) : t46_passB c e = false := by
  cases hb : t46_passB c e with
  | false => rfl
  | true =>
    obtain ⟨_, _, r, err, h⟩ := t46_passB_top c e f k hs hb
    exact absurd h (hf r err)

/-- **one step** -/
theorem t46_step_once {e n0 : Nat} {c : Cfg} {p : Nat} (hi : T46Inv c) (ho : T46Once e n0 c p) :
    T46Once e n0 (step c) (p + if t46_passB c e then 1 else 0) := by
  cases hs : c.stack with
  | nil =>
    have hp : t46_passB c e = false := by
      unfold t46_passB; rw [hs]; cases c.exn <;> rfl
    rw [step_nil c hs, hp]
    exact ho
  | cons f k =>
    obtain ⟨es, hlog⟩ := step_log c
    have hcnt : c.st.log.count (Entry.disp e) ≤ (step c).st.log.count (Entry.disp e) := by
      rw [hlog]; exact t46_count_append_ge e es _
    have hK := ho.k
    rw [hs, t46_ctx_cons] at hK
    have htop : ∀ g ∈ k, g.t46_topOnly = false := by
      have := ho.top; rw [hs] at this; exact this
    cases hx : c.exn with
    | some ex =>
      have hp : t46_passB c e = false := by
        cases hb : t46_passB c e with
        | false => rfl
        | true => have := (t46_passB_top c e f k hs hb).1; rw [hx] at this; cases this
      rw [hp]
      obtain ⟨hV, hC⟩ := t46_unwind_pkg c k ex f
      rw [step_cons_exn c f k ex hs hx] at hcnt ⊢
      have hw := hV.w e (by simp)
      refine ho.go hs 0 (hC.at e) (by simp only [Bool.false_eq_true, if_false]; omega) (fun h1 => ?_)
      rw [hw] at h1
      have := ho.j h1
      simp only [Bool.false_eq_true, if_false]; omega
    | none =>
      obtain ⟨hV, hC⟩ := t46_stepFrame_pkg c k f
      have hstep := step_cons c f k hs hx
      rw [hstep] at hcnt ⊢
      have hsw1 := Frame.t46_sw_le_one e f
      have hCe := hC.at e
      by_cases hsw : f.t46_sw e = 0
      · -- the frame has nothing to do with e
        have hp : t46_passB c e = false :=
          t46_passB_false c e f k hs (fun r err h => by subst h; simp [Frame.t46_sw] at hsw)
        have hwev : some e ≠ f.t46_wev := fun h => by
          have := Frame.t46_wev_sw e f h.symm; omega
        have hw := hV.w e hwev
        rw [hp]
        (try dsimp only at hCe)
        rw [hsw] at hCe
        refine ho.go hs 0 hCe (by simp only [Bool.false_eq_true, if_false]; omega) (fun h1 => ?_)
        rw [hw] at h1
        have := ho.j h1
        simp only [Bool.false_eq_true, if_false]; omega
      · have hsw' : f.t46_sw e = 1 := by omega
        (try dsimp only at hCe)
        rw [hsw'] at hCe
        -- frames that are sources for e
        have hctx : ∀ (hnp : t46_passB c e = false) (hN : p + 1 + t46_ctx e k + n0 ≤ (stepFrame c k f).st.log.count (Entry.disp e))
            (hJ : 1 ≤ ((stepFrame c k f).st.ev e).waiting → p + 1 + n0 ≤ (stepFrame c k f).st.log.count (Entry.disp e)),
            T46Once e n0 (stepFrame c k f) (p + if t46_passB c e then 1 else 0) := by
          intro hnp hN hJ
          rw [hnp]
          exact ho.go hs 1 hCe (by simp only [Bool.false_eq_true, if_false]; omega)
            (fun h1 => by have := hJ h1; simp only [Bool.false_eq_true, if_false]; omega)
        have hpt : ∀ r t, T46Under r t k → t.e = e → 1 ≤ (c.st.ev e).waiting →
            (∀ r' err, f ≠ .eventDone r' e err) →
            T46Once e n0 (stepFrame c k f) (p + if t46_passB c e then 1 else 0) := by
          intro r t hu hte hw1 hne
          have hsh := hi.shape
          rw [hs] at hsh
          have hz := hu.ctx_zero hsh.2 htop e
          have hj := ho.j hw1
          exact hctx (t46_passB_false c e f k hs hne) (by omega) (fun _ => by omega)
        cases f <;> simp only [Frame.t46_sw] at hsw' <;> try omega
        case eventDone r e' err =>
          have he : e' = e := by
            apply Classical.byContradiction; intro hne; rw [if_neg hne] at hsw'; omega
          subst he
          have hC0 := (Cfg.eventDone_t46c0 c k r e' err).at e'
          have hw := hV.w e' (by simp [Frame.t46_wev])
          simp only [Frame.t46_cw, if_true] at hK
          refine ho.go hs 0 hC0 (by split <;> omega) (fun h1 => ?_)
          dsimp only [stepFrame] at hw h1
          rw [hw] at h1
          cases hb : t46_passB c e' with
          | false => have := ho.j h1; simp only [Bool.false_eq_true, if_false]; omega
          | true => have := (t46_passB_top c e' _ k hs hb).2.1; omega
        case hLoop r e' hh err st =>
          have he : e' = e := by
            apply Classical.byContradiction; intro hne; rw [if_neg hne] at hsw'; omega
          subst he
          simp only [Frame.t46_cw, if_true] at hK
          exact hctx (t46_passB_false c e' _ k hs (fun _ _ h => by cases h)) (by omega) (fun _ => by omega)
        case hAfter r e' hh err st =>
          have he : e' = e := by
            apply Classical.byContradiction; intro hne; rw [if_neg hne] at hsw'; omega
          subst he
          simp only [Frame.t46_cw, if_true] at hK
          exact hctx (t46_passB_false c e' _ k hs (fun _ _ h => by cases h)) (by omega) (fun _ => by omega)
        case hApply r e' hh err st =>
          have he : e' = e := by
            apply Classical.byContradiction; intro hne; rw [if_neg hne] at hsw'; omega
          subst he
          simp only [Frame.t46_cw, if_true] at hK
          exact hctx (t46_passB_false c e' _ k hs (fun _ _ h => by cases h)) (by omega) (fun _ => by omega)
        case dispFin r e' err =>
          have he : e' = e := by
            apply Classical.byContradiction; intro hne; rw [if_neg hne] at hsw'; omega
          subst he
          simp only [Frame.t46_cw, if_true] at hK
          exact hctx (t46_passB_false c e' _ k hs (fun _ _ h => by cases h)) (by omega) (fun _ => by omega)
        case dispatcher r e' rem =>
          have he : e' = e := by
            apply Classical.byContradiction; intro hne; rw [if_neg hne] at hsw'; omega
          subst he
          obtain ⟨es', hl', hm'⟩ := Cfg.t46_dispatcher_log c k r e' rem
          have hN1 : c.st.log.count (Entry.disp e') + 1 ≤ (stepFrame c k (.dispatcher r e' rem)).st.log.count (Entry.disp e') := by
            dsimp only [stepFrame]
            rw [hl', List.count_append]
            have := List.count_pos_iff.2 hm'
            omega
          have hw := hV.w e' (by simp [Frame.t46_wev])
          simp only [Frame.t46_cw] at hK
          refine hctx (t46_passB_false c e' _ k hs (fun _ _ h => by cases h)) (by omega) (fun h1 => ?_)
          rw [hw] at h1
          have := ho.j h1
          omega
        case ptBody r t =>
          have he : t.e = e := by
            apply Classical.byContradiction; intro hne; rw [if_neg hne] at hsw'; omega
          have hsh := hi.shape
          rw [hs] at hsh
          have hw1 := hi.inflight_bound r t k (Or.inl hs)
          rw [he] at hw1
          exact hpt r t hsh.1.1 he hw1 (fun _ _ h => by cases h)
        case ptOwn r t =>
          have he : t.e = e := by
            apply Classical.byContradiction; intro hne; rw [if_neg hne] at hsw'; omega
          have hsh := hi.shape
          rw [hs] at hsh
          have hw1 := hi.inflight_bound r t k (Or.inr (Or.inl hs))
          rw [he] at hw1
          exact hpt r t hsh.1.1 he hw1 (fun _ _ h => by cases h)
        case ptParent r t p' v =>
          have he : t.e = e := by
            apply Classical.byContradiction; intro hne; rw [if_neg hne] at hsw'; omega
          have hsh := hi.shape
          rw [hs] at hsh
          have hw1 := hi.inflight_bound r t k (Or.inr (Or.inr ⟨p', v, hs⟩))
          rw [he] at hw1
          exact hpt r t hsh.1 he hw1 (fun _ _ h => by cases h)

/-! ## guarded sessions with a pass counter -/

/-- `c` is a configuration of a guarded session from `s0`; the end-of-event step of `e` went through `p` times so far -/
inductive T46Trace (s0 : St) (e : Nat) : Cfg → Nat → Prop
  | init (d : Nat) (tape : List Entry) (op : ExtOp) : T46Trace s0 e (startOf (envChange s0 d tape) op) 0
  | step {c : Cfg} {p : Nat} : T46Trace s0 e c p → T46Guard c →
      T46Trace s0 e (CV.Core.step c) (p + if t46_passB c e then 1 else 0)
  | next {c : Cfg} {p : Nat} (d : Nat) (tape : List Entry) (op : ExtOp) :
      T46Trace s0 e c p → done c = true → T46Trace s0 e (startOf (envChange c.st d tape) op) p

theorem T46Trace.reach {s0 : St} {e : Nat} {c : Cfg} {p : Nat} (h : T46Trace s0 e c p) : T46Reach s0 c := by
  induction h with
  | init d tape op => exact T46Reach.init d tape op
  | step _ hg ih => exact T46Reach.step ih hg
  | next d tape op _ hd ih => exact T46Reach.next d tape op ih hd

/-- every guarded session has a trace (the counter exists) -/
theorem T46Reach.trace {s0 : St} (e : Nat) {c : Cfg} (h : T46Reach s0 c) : ∃ p, T46Trace s0 e c p := by
  induction h with
  | init d tape op => exact ⟨0, T46Trace.init d tape op⟩
  | step _ hg ih => obtain ⟨p, hp⟩ := ih; exact ⟨_, T46Trace.step hp hg⟩
  | next d tape op _ hd ih => obtain ⟨p, hp⟩ := ih; exact ⟨p, T46Trace.next d tape op hp hd⟩

theorem t46_start_once (e n0 p : Nat) (s : St) (d : Nat) (tape : List Entry) (op : ExtOp)
    (hk : p + n0 ≤ s.log.count (Entry.disp e))
    (hj : 1 ≤ (s.ev e).waiting → p + 1 + n0 ≤ s.log.count (Entry.disp e)) :
    T46Once e n0 (startOf (envChange s d tape) op) p := by
  have hst : ∀ fs : List Frame, t46_ctx e fs = 0 → (∀ g ∈ fs.tail, g.t46_topOnly = false) →
      T46Once e n0 (Cfg.start (envChange s d tape) fs) p := by
    intro fs h1 h2
    refine ⟨?_, hj, h2⟩
    show p + t46_ctx e fs + n0 ≤ s.log.count (Entry.disp e)
    rw [h1]; omega
  cases op
  · exact hst _ (by simp [Frame.t46_cw]) (by simp [Frame.t46_topOnly])
  · exact hst _ (by simp [Frame.t46_cw]) (by simp)
  · exact hst _ (by simp [Frame.t46_cw]) (by simp)
  · exact hst _ (by simp [Frame.t46_cw]) (by simp)

/-- **eventDone_once, run level**: in every configuration of a guarded session,
    passes of `e` so far + dispatch contexts of `e` open on the stack ≤ `.disp e` entries logged since the start -/
theorem t46_trace_once {s0 : St} (h0 : T46Init s0) (e : Nat) (hw0 : (s0.ev e).waiting = 0) :
    ∀ c p, T46Trace s0 e c p → T46Once e (s0.log.count (Entry.disp e)) c p := by
  intro c p ht
  induction ht with
  | init d tape op =>
    exact t46_start_once e _ 0 s0 d tape op (by omega) (fun h => by omega)
  | step hprev hg ih =>
    exact t46_step_once (t46_reach_inv h0 _ hprev.reach) ih
  | @next c0 p0 d tape op hprev hd ih =>
    have hst : c0.stack = [] := by simpa [done] using hd
    have hk := ih.k
    rw [hst] at hk
    exact t46_start_once e _ p0 c0.st d tape op (by simpa using hk) ih.j

end CV.Core

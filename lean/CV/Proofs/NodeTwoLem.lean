import CV.Proofs.NodeTwo
/-
C19, two-party composition: what one model call does with the packets that occur.
-/
namespace CV
namespace Node

theorem n2_roundtrip (excl : List String) (e : Ev) (id : J) (hw : n2_WellFormed e) :
    loadEvent excl (dumpEvent excl e id) = .ok (n2_decoded excl e, id) := by
  obtain ⟨h1, h2, h3⟩ := hw
  simp [loadEvent, dumpEvent, n2_decoded, J.lookup, J.iter, pyDict, strKeys_map, J.truthy, h2, h3]
  simpa using h1

theorem n2_call_fired (c : Cfg) (s : Proto) (e : Ev) (id : J) (hw : n2_WellFormed e)
    (hr : c.recvOk (n2_decoded c.excl e) = true) :
    processJ c s (dumpEvent c.excl e id) = (s, [.fire (n2_decoded c.excl e) id]) := by
  have hl := n2_roundtrip c.excl e id hw
  have hv : isValuePacket (dumpEvent c.excl e id) = false := by
    simp [isValuePacket, dumpEvent, J.lookup]
  simp [processJ, hv, hl, hr]

theorem n2_answer_routed (c : Cfg) (s : Proto) (n : Nat) (r : String) (z : Bool) (v er : J)
    (attrs : List (String × J)) (hp : s.pending.any (·.id = n) = true) :
    processJ c s (dumpValue c.excl (.num r (some n) z) er v attrs) =
      ({ s with pending := resolvePending s.pending n v er
                  ((attrs.filter (fun kv => !c.excl.contains kv.1 && !kv.1.startsWith "__")).filter
                    (fun kv => metaOk c.excl kv.1)) },
       [.resolve n v er]) := by
  have hv : isValuePacket (dumpValue c.excl (.num r (some n) z) er v attrs) = true := by
    simp [isValuePacket, dumpValue, J.lookup]
  unfold processJ
  rw [if_pos hv]
  simp [loadValue, dumpValue, J.lookup, J.natKey, hp]

/-- `recv` = framing, then packet processing on the state with the new buffer -/
theorem n2_recv_eq (c : Cfg) (parse : Bytes → PRes) (s : Proto) (d : Bytes) :
    recv c parse s d =
      ({ (processAll c parse s (feed (procOf c.excl parse) s.buf d).done).1 with
            buf := (feed (procOf c.excl parse) s.buf d).buf },
       (processAll c parse s (feed (procOf c.excl parse) s.buf d).done).2,
       (feed (procOf c.excl parse) s.buf d).aborted) := by
  simp only [recv]
  rw [processAll_buf]

section
variable (E : n2_Env) (calls : List Ev)

/-- B processes a run of call packets: one dispatch each, in order, state untouched -/
theorem n2_procB (H : n2_Hyp E calls) (b : Proto) :
    ∀ l : List Nat, (∀ i ∈ l, i < calls.length) →
      processAll E.cB E.parse b (l.map (n2_callPkt E calls)) =
        (b, l.map (fun i => Eff.fire (n2_evB E calls i) (n2_idJ i))) := by
  intro l
  induction l with
  | nil => intro _; simp [processAll]
  | cons i l ih =>
    intro h
    have hi := h i (by simp)
    have hc := n2_call_fired E.cB b (n2_callEv calls i) (n2_idJ i) (H.wf i hi) (H.recvOk i hi)
    simp only [List.map_cons, processAll, H.callParse i hi]
    have e : n2_callJ E calls i = dumpEvent E.cB.excl (n2_callEv calls i) (n2_idJ i) := rfl
    rw [e, hc]
    simp only
    rw [ih (fun j hj => h j (by simp [hj]))]
    rfl

/-- the started handlers get consecutive numbers -/
theorem n2_absorbB_fires :
    ∀ (m k : Nat) (w : n2_World), w.fired.length = k →
      n2_absorbB E w ((List.range' k m).map (fun i => Eff.fire (n2_evB E calls i) (n2_idJ i))) =
        { w with running := w.running ++ (List.range' k m).map (n2_expRun E calls),
                 fired := w.fired ++ (List.range' k m).map (n2_expFire E calls) } := by
  intro m
  induction m with
  | zero => intro k w _; simp [n2_absorbB]
  | succ m ih =>
    intro k w hk
    simp only [List.range'_succ, List.map_cons, n2_absorbB]
    rw [ih (k + 1) _ (by simp [hk])]
    simp [n2_expRun, n2_expFire, hk]

theorem n2_absorbA_resolves :
    ∀ (l : List Nat) (w : n2_World),
      n2_absorbA E w (l.map (fun i => Eff.resolve i (n2_val E calls i) (.bool false))) =
        { w with resolved := w.resolved ++ l.map (n2_expRes E calls) } := by
  intro l
  induction l with
  | nil => intro w; simp [n2_absorbA]
  | cons i l ih =>
    intro w
    simp only [List.map_cons, n2_absorbA]
    rw [ih]
    simp [n2_expRes]

/-- the answer to call `n` turns exactly A's entry `n` from waiting into finished -/
theorem n2_resolve_map (L D : List Nat) (n : Nat) (hn : n ∉ D) :
    resolvePending (L.map (n2_expPend E calls D)) n (n2_val E calls n) (.bool false) (n2_meta E calls n) =
      L.map (n2_expPend E calls (D ++ [n])) := by
  unfold resolvePending
  rw [List.map_map]
  apply List.map_congr_left
  intro i _
  by_cases hi : i = n
  · subst hi
    simp [n2_expPend, hn, n2_errs, n2_metas]
  · by_cases hD : i ∈ D
    · simp [n2_expPend, hD, hi]
    · simp [n2_expPend, hD, hi]

/-- A processes a run of answer packets -/
theorem n2_procA (H : n2_Hyp E calls) (L : List Nat) :
    ∀ (l D : List Nat) (a : Proto), l.Nodup → (∀ i ∈ l, i ∈ L ∧ i ∉ D ∧ i < calls.length) →
      a.pending = L.map (n2_expPend E calls D) →
      processAll E.cA E.parse a (l.map (n2_ansPkt E calls)) =
        ({ a with pending := L.map (n2_expPend E calls (D ++ l)) },
         l.map (fun i => Eff.resolve i (n2_val E calls i) (.bool false))) := by
  intro l
  induction l with
  | nil => intro D a _ _ hp; simp [processAll, ← hp]
  | cons i l ih =>
    intro D a hnd h hp
    obtain ⟨hiL, hiD, hiN⟩ := h i (by simp)
    have hnd' := List.nodup_cons.mp hnd
    simp only [List.map_cons, processAll, H.ansParse i hiN]
    have hany : a.pending.any (·.id = i) = true := by
      rw [hp]
      simp only [List.any_map, List.any_eq_true]
      refine ⟨i, hiL, ?_⟩
      by_cases hD : i ∈ D <;> simp [n2_expPend, hD]
    have hroute : processJ E.cA a (n2_ansJ E calls i) =
        ({ a with pending := resolvePending a.pending i (n2_val E calls i) (.bool false) (n2_meta E calls i) },
         [.resolve i (n2_val E calls i) (.bool false)]) :=
      n2_answer_routed E.cA a i _ _ _ _ _ hany
    rw [hroute]
    simp only
    have hp2 : ({ a with pending := resolvePending a.pending i (n2_val E calls i) (.bool false) (n2_meta E calls i) } : Proto).pending =
        L.map (n2_expPend E calls (D ++ [i])) := by
      simp only
      rw [hp]
      exact n2_resolve_map E calls L D i hiD
    rw [ih (D ++ [i]) _ hnd'.2 ?_ hp2]
    · simp [List.append_assoc]
    · intro j hj
      obtain ⟨h1, h2, h3⟩ := h j (by simp [hj])
      refine ⟨h1, ?_, h3⟩
      simp only [List.mem_append, List.mem_singleton, not_or]
      refine ⟨h2, ?_⟩
      intro hji; subst hji; exact hnd'.1 hj

end

end Node
end CV

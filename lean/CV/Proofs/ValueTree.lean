import CV.Model.ValueTree
/-
Helper lemmas for the nested-Value layer (C04): frame properties of `update` (it writes `errors` / `result` / the log only),
monotonicity of the flags, the storing branches, ancestors.
-/
namespace CV.VT

@[simp] theorem upd_cells (s : St) (i : Nat) (f : Cell → Cell) (j : Nat) :
    (s.upd i f).cells j = if j = i then f (s.cells j) else s.cells j := rfl
@[simp] theorem upd_n (s : St) (i : Nat) (f : Cell → Cell) : (s.upd i f).n = s.n := rfl
@[simp] theorem upd_log (s : St) (i : Nat) (f : Cell → Cell) : (s.upd i f).log = s.log := rfl
@[simp] theorem upd_crashed (s : St) (i : Nat) (f : Cell → Cell) : (s.upd i f).crashed = s.crashed := rfl

theorem inform_cells (s : St) (c : Nat) (f : Bool) : (inform s c f).cells = s.cells := by
  simp only [inform]; split <;> (try rfl); split <;> (try rfl); split <;> rfl
theorem inform_crashed (s : St) (c : Nat) (f : Bool) : (inform s c f).crashed = s.crashed := by
  simp only [inform]; split <;> (try rfl); split <;> (try rfl); split <;> rfl
theorem inform_n (s : St) (c : Nat) (f : Bool) : (inform s c f).n = s.n := by
  simp only [inform]; split <;> (try rfl); split <;> (try rfl); split <;> rfl

/-- the notifications of one `inform`: nothing or one note about that cell -/
theorem inform_log (s : St) (c : Nat) (f : Bool) :
    (inform s c f).log = s.log ∨ ∃ x, x.cell = c ∧ (inform s c f).log = x :: s.log := by
  simp only [inform]; split
  · exact .inl rfl
  · split
    · exact .inl rfl
    · split
      · exact .inl rfl
      · exact .inr ⟨.changed c, rfl, rfl⟩
      · rename_i k _; exact .inr ⟨.named k c, rfl, rfl⟩

/-- a relation between cells that every write of `update` respects -/
structure FlagStep (R : Cell → Cell → Prop) : Prop where
  refl : ∀ x, R x x
  trans : ∀ x y z, R x y → R y z → R x z
  flags : ∀ x e r, R x { x with errors := x.errors || e, result := x.result || r }
  res : ∀ x, R x { x with result := true }

theorem touch_rel {R} (h : FlagStep R) (s : St) (o : Nat) (a : Arg) (j : Nat) : R (s.cells j) ((touch s o a).cells j) := by
  cases a with
  | none => exact h.refl _
  | lit n =>
    simp only [touch, inform_cells, upd_cells]
    split
    · exact h.res _
    · exact h.refl _
  | ref d =>
    simp only [touch, upd_cells]
    split
    · exact h.flags _ _ _
    · exact h.refl _

theorem update_rel {R} (h : FlagStep R) (f : Nat) : ∀ (s : St) (o : Nat) (a : Arg) (j : Nat),
    R (s.cells j) ((update f s o a).cells j) := by
  induction f with
  | zero => intro s o a j; exact h.refl _
  | succ f ih =>
    intro s o a j
    simp only [update]
    split
    · exact touch_rel h s o a j
    · refine h.trans _ _ _ (touch_rel h s o a j) (h.trans _ _ _ ?_ (ih _ _ _ _))
      simp only [liftFlags, upd_cells]
      split
      · exact h.flags _ _ _
      · exact h.refl _

def sameRest (x y : Cell) : Prop :=
  x.value = y.value ∧ x.parent = y.parent ∧ x.promise = y.promise ∧ x.notify = y.notify ∧ x.evNotify = y.evNotify ∧ x.hasMgr = y.hasMgr

theorem sameRest_step : FlagStep sameRest where
  refl _ := ⟨rfl, rfl, rfl, rfl, rfl, rfl⟩
  trans _ _ _ a b := ⟨a.1.trans b.1, a.2.1.trans b.2.1, a.2.2.1.trans b.2.2.1, a.2.2.2.1.trans b.2.2.2.1,
    a.2.2.2.2.1.trans b.2.2.2.2.1, a.2.2.2.2.2.trans b.2.2.2.2.2⟩
  flags _ _ _ := ⟨rfl, rfl, rfl, rfl, rfl, rfl⟩
  res _ := ⟨rfl, rfl, rfl, rfl, rfl, rfl⟩

def flagsMono (x y : Cell) : Prop := (x.errors = true → y.errors = true) ∧ (x.result = true → y.result = true)

theorem flagsMono_step : FlagStep flagsMono where
  refl _ := ⟨id, id⟩
  trans _ _ _ a b := ⟨fun h => b.1 (a.1 h), fun h => b.2 (a.2 h)⟩
  flags _ _ _ := ⟨fun h => by simp [h], fun h => by simp [h]⟩
  res _ := ⟨id, fun _ => rfl⟩

theorem update_value (f : Nat) (s : St) (o : Nat) (a : Arg) (j : Nat) :
    ((update f s o a).cells j).value = (s.cells j).value := ((update_rel sameRest_step f s o a j).1).symm
theorem update_parent (f : Nat) (s : St) (o : Nat) (a : Arg) (j : Nat) :
    ((update f s o a).cells j).parent = (s.cells j).parent := ((update_rel sameRest_step f s o a j).2.1).symm

theorem setParent_value (s : St) (c : Nat) (a : Arg) (j : Nat) : ((setParent s c a).cells j).value = (s.cells j).value := by
  cases a <;> simp only [setParent, upd_cells]
  split <;> rfl
theorem setParent_result (s : St) (c : Nat) (a : Arg) (j : Nat) : ((setParent s c a).cells j).result = (s.cells j).result := by
  cases a <;> simp only [setParent, upd_cells]
  split <;> rfl
theorem setParent_errors (s : St) (c : Nat) (a : Arg) (j : Nat) : ((setParent s c a).cells j).errors = (s.cells j).errors := by
  cases a <;> simp only [setParent, upd_cells]
  split <;> rfl
theorem setParent_n (s : St) (c : Nat) (a : Arg) : (setParent s c a).n = s.n := by
  cases a <;> rfl

theorem storeArg_congr (x y : Cell) (a : Arg) (hv : x.value = y.value) (hr : x.result = y.result) : storeArg x a = storeArg y a := by
  simp [storeArg, held, hv, hr]

/-- what `setValue` does to the stored values: the cell set takes the argument in, nothing else changes -/
theorem setValue_value (s : St) (c : Nat) (a : Arg) (j : Nat) :
    ((setValue s c a).cells j).value = if j = c then storeArg (s.cells c) a else (s.cells j).value := by
  simp only [setValue, update_value, upd_cells]
  split
  · rename_i h; subst h
    exact storeArg_congr _ _ _ (setParent_value ..) (setParent_result ..)
  · exact setParent_value ..

/-- the flags never go back to False in a `setValue` -/
theorem setValue_flags_mono (s : St) (c : Nat) (a : Arg) (j : Nat) : flagsMono (s.cells j) ((setValue s c a).cells j) := by
  have h := update_rel flagsMono_step (s.n + 1) ((setParent s c a).upd c (fun x => { x with value := storeArg x a })) c a j
  refine ⟨fun he => h.1 ?_, fun hr => h.2 ?_⟩
  · simp only [upd_cells]; split <;> simp [setParent_errors, he]
  · simp only [upd_cells]; split <;> simp [setParent_result, hr]

/-! the stored sequence -/

def items : Stored → List Arg
  | .one a => [a]
  | .many l => l

/-- the non-None entries -/
def nn (l : List Arg) : List Arg := l.filter (· ≠ .none)

theorem nn_append (a b : List Arg) : nn (a ++ b) = nn a ++ nn b := List.filter_append ..

theorem storeArg_nn (x : Cell) (a : Arg) : nn (items (storeArg x a)) = nn (items x.value) ++ nn [a] := by
  unfold storeArg
  split
  · split
    · rename_i l hl; simp [items, hl, nn_append]
    · rename_i b hb; simp only [items, hb]; exact nn_append [b] [a]
  · rename_i hh
    have : x.value = .one .none := by
      simp only [held, Bool.or_eq_true, not_or] at hh
      simpa using hh.2
    simp [items, this, nn]

/-- the sets addressed to cell `c` in a session -/
def setsOn (c : Nat) : List Op → List Arg
  | [] => []
  | .set c' a :: os => if c' = c then a :: setsOn c os else setsOn c os
  | _ :: os => setsOn c os

theorem apply_value_other (s : St) (o : Op) (j : Nat) (h : ∀ c a, o = .set c a → False) :
    ((o.apply s).cells j).value = (s.cells j).value := by
  cases o with
  | set c a => exact (h c a rfl).elim
  | new a b m => simp only [Op.apply, newCell, upd_cells]; split <;> rfl
  | errors c b => simp only [Op.apply, setErrors, upd_cells]; split <;> rfl
  | promise c b => simp only [Op.apply, setPromise, upd_cells]; split <;> rfl
  | notify c t => simp only [Op.apply, setNotify, upd_cells]; split <;> rfl
  | inform c f => simp only [Op.apply, inform_cells]

theorem runOps_nn (ops : List Op) : ∀ (s : St) (c : Nat),
    nn (items ((runOps s ops).cells c).value) = nn (items (s.cells c).value) ++ nn (setsOn c ops) := by
  induction ops with
  | nil => intro s c; simp [runOps, setsOn, nn]
  | cons o os ih =>
    intro s c
    rw [runOps, ih]
    cases o with
    | set c' a =>
      simp only [Op.apply, setValue_value, setsOn]
      by_cases h : c' = c
      · subst h
        simp only [if_true, storeArg_nn, List.append_assoc]
        rw [← nn_append]; rfl
      · have h' : ¬ c = c' := fun e => h e.symm
        simp [h, h']
    | new a b m => rw [apply_value_other _ _ _ (by intro _ _ h; cases h)]; rfl
    | errors c b => rw [apply_value_other _ _ _ (by intro _ _ h; cases h)]; rfl
    | promise c b => rw [apply_value_other _ _ _ (by intro _ _ h; cases h)]; rfl
    | notify c t => rw [apply_value_other _ _ _ (by intro _ _ h; cases h)]; rfl
    | inform c f => rw [apply_value_other _ _ _ (by intro _ _ h; cases h)]; rfl

/-! the shape of the stored value once something is in it -/

theorem storeArg_held (x : Cell) (a : Arg) (h : x.value ≠ .one .none) : storeArg x a = .many (items x.value ++ [a]) := by
  have hh : held x = true := by simp [held, h]
  unfold storeArg
  rw [if_pos hh]
  split
  · rename_i l hl; simp [items, hl]
  · rename_i b hb; simp [items, hb]

theorem storeArg_fresh (x : Cell) (a : Arg) (h : held x = false) : storeArg x a = .one a := by
  unfold storeArg; simp [h]

theorem runOps_items (ops : List Op) : ∀ (s : St) (c : Nat), (s.cells c).value ≠ .one .none →
    ((runOps s ops).cells c).value =
      if setsOn c ops = [] then (s.cells c).value else .many (items (s.cells c).value ++ setsOn c ops) := by
  induction ops with
  | nil => intro s c _; simp [runOps, setsOn]
  | cons o os ih =>
    intro s c hne
    rw [runOps]
    cases o with
    | set c' a =>
      by_cases h : c' = c
      · subst h
        have hv : (((Op.set c' a).apply s).cells c').value = .many (items (s.cells c').value ++ [a]) := by
          simp only [Op.apply, setValue_value, if_true]; exact storeArg_held _ _ hne
        rw [ih _ _ (by rw [hv]; intro h; cases h), hv]
        simp only [setsOn, if_true, items]
        split
        · rename_i he; simp [he]
        · simp
      · have h' : ¬ c = c' := fun e => h e.symm
        have hv : (((Op.set c' a).apply s).cells c).value = (s.cells c).value := by
          simp only [Op.apply, setValue_value, if_neg h']
        rw [ih _ _ (by rw [hv]; exact hne), hv]; simp [setsOn, h]
    | new a b m =>
      have hv := apply_value_other s (.new a b m) c (by intro _ _ h; cases h)
      rw [ih _ _ (by rw [hv]; exact hne), hv]; rfl
    | errors c1 b =>
      have hv := apply_value_other s (.errors c1 b) c (by intro _ _ h; cases h)
      rw [ih _ _ (by rw [hv]; exact hne), hv]; rfl
    | promise c1 b =>
      have hv := apply_value_other s (.promise c1 b) c (by intro _ _ h; cases h)
      rw [ih _ _ (by rw [hv]; exact hne), hv]; rfl
    | notify c1 t =>
      have hv := apply_value_other s (.notify c1 t) c (by intro _ _ h; cases h)
      rw [ih _ _ (by rw [hv]; exact hne), hv]; rfl
    | inform c1 f =>
      have hv := apply_value_other s (.inform c1 f) c (by intro _ _ h; cases h)
      rw [ih _ _ (by rw [hv]; exact hne), hv]; rfl

/-! `getValue(recursive=True)` -/

theorem getRec_mono (f : Nat) : ∀ (s : St) (v r : Stored), getRec f s v = some r → getRec (f + 1) s v = some r := by
  induction f with
  | zero => intro s v r h; simp [getRec] at h
  | succ f ih =>
    intro s v r h
    cases v with
    | many l => simpa [getRec] using h
    | one a =>
      cases a with
      | none => simpa [getRec] using h
      | lit n => simpa [getRec] using h
      | ref d =>
        simp only [getRec] at h ⊢
        exact ih _ _ _ h

theorem liftFlags_parent (s : St) (o j : Nat) : ((liftFlags s o).cells j).parent = (s.cells j).parent := by
  simp only [liftFlags, upd_cells]; split <;> rfl
theorem liftFlags_log (s : St) (o : Nat) : (liftFlags s o).log = s.log := rfl
theorem liftFlags_crashed (s : St) (o : Nat) : (liftFlags s o).crashed = s.crashed := rfl

/-! errors: nothing invented -/

def NoErr (s : St) : Prop := ∀ j, (s.cells j).errors = false

theorem touch_noErr (s : St) (o : Nat) (a : Arg) (h : NoErr s) : NoErr (touch s o a) := by
  intro j
  cases a with
  | none => exact h j
  | lit n => simp only [touch, inform_cells, upd_cells]; split <;> simp [h j]
  | ref d => simp only [touch, upd_cells]; split <;> simp [h j, h d]

theorem update_noErr (f : Nat) : ∀ (s : St) (o : Nat) (a : Arg), NoErr s → NoErr (update f s o a) := by
  induction f with
  | zero => intro s o a h j; exact h j
  | succ f ih =>
    intro s o a h
    simp only [update]
    split
    · exact touch_noErr s o a h
    · apply ih
      intro j
      have h1 := touch_noErr s o a h
      simp only [liftFlags, upd_cells]; split <;> simp [h1 j, h1 o]

/-! ancestors -/

inductive Anc (s : St) : Nat → Nat → Prop
  | refl (o : Nat) : Anc s o o
  | step {o q : Nat} : (s.cells o).parent ≠ o → Anc s (s.cells o).parent q → Anc s o q

theorem Anc.congr {s s' : St} (h : ∀ j, (s'.cells j).parent = (s.cells j).parent) {o q : Nat} (a : Anc s o q) : Anc s' o q := by
  induction a with
  | refl o => exact .refl o
  | step hne _ ih => exact .step (by rw [h]; exact hne) (by rw [h]; exact ih)

theorem touch_parent (s : St) (o : Nat) (a : Arg) (j : Nat) : ((touch s o a).cells j).parent = (s.cells j).parent :=
  ((touch_rel sameRest_step s o a j).2.1).symm

theorem update_crashed_mono (f : Nat) : ∀ (s : St) (o : Nat) (a : Arg), s.crashed = true → (update f s o a).crashed = true := by
  induction f with
  | zero => intro s o a _; rfl
  | succ f ih =>
    intro s o a h
    have ht : (touch s o a).crashed = true := by
      cases a <;> simp [touch, inform_crashed, h]
    simp only [update]
    split
    · exact ht
    · exact ih _ _ _ (by rw [liftFlags_crashed]; exact ht)

/-- the walk carries an error seen at the cell it starts from to every ancestor it reaches -/
theorem update_anc_errors (f : Nat) : ∀ (s : St) (o : Nat) (a : Arg) (q : Nat), Anc s o q →
    (update f s o a).crashed = false → ((touch s o a).cells o).errors = true → ((update f s o a).cells q).errors = true := by
  induction f with
  | zero => intro s o a q _ hc _; simp [update] at hc
  | succ f ih =>
    intro s o a q hanc hc he
    simp only [update] at hc ⊢
    split
    · rename_i hp
      cases hanc with
      | refl => exact he
      | step hne _ => rw [touch_parent] at hp; exact (hne hp).elim
    · rename_i hp
      rw [if_neg hp] at hc
      cases hanc with
      | refl =>
        refine (update_rel flagsMono_step f _ _ a o).1 ?_
        simp only [liftFlags, upd_cells]; split <;> simp [he]
      | step hne hrest =>
        apply ih _ _ _ _ ?_ hc
        · refine (touch_rel flagsMono_step _ _ a _).1 ?_
          simp [liftFlags, he]
        · rw [touch_parent]
          exact hrest.congr (fun j => by rw [liftFlags_parent, touch_parent])

theorem setValue_parent (s : St) (c : Nat) (a : Arg) (j : Nat) :
    ((setValue s c a).cells j).parent = if a = .ref j then c else (s.cells j).parent := by
  simp only [setValue, update_parent, upd_cells]
  cases a with
  | none => simp [setParent]; split <;> rfl
  | lit n => simp [setParent]; split <;> rfl
  | ref d =>
    simp only [setParent, upd_cells]
    by_cases h : j = d
    · subst h; simp; split <;> rfl
    · have : ¬ (Arg.ref d = Arg.ref j) := by intro e; cases e; exact h rfl
      simp [h, this]; split <;> rfl

theorem touch_ref_errors (s : St) (o d : Nat) (h : (s.cells d).errors = true) :
    ((touch s o (.ref d)).cells o).errors = true := by
  simp [touch, h]

/-! acyclic parent chains -/

def Acyclic (s : St) : Prop := ∃ rank : Nat → Nat, ∀ j, (s.cells j).parent ≠ j → rank (s.cells j).parent < rank j

theorem acyclic_of_parents {s s' : St} (h : ∀ j, (s'.cells j).parent = (s.cells j).parent) (a : Acyclic s) : Acyclic s' := by
  obtain ⟨rank, hr⟩ := a
  exact ⟨rank, fun j hj => by rw [h] at hj ⊢; exact hr j hj⟩

/-! notifications -/

theorem update_log_quiet (f : Nat) : ∀ (s : St) (o : Nat) (a : Arg), (∀ n, a ≠ .lit n) → (update f s o a).log = s.log := by
  induction f with
  | zero => intro s o a _; rfl
  | succ f ih =>
    intro s o a ha
    have ht : (touch s o a).log = s.log := by
      cases a with
      | none => rfl
      | ref d => rfl
      | lit n => exact (ha n rfl).elim
    simp only [update]
    split
    · exact ht
    · rw [ih _ _ _ ha]; exact ht

theorem update_log_lit (rank : Nat → Nat) (n : Nat) (f : Nat) : ∀ (s : St) (o : Nat),
    (∀ j, (s.cells j).parent ≠ j → rank (s.cells j).parent < rank j) →
    ∃ new : List Note, (update f s o (.lit n)).log = new ++ s.log ∧ (∀ x ∈ new, rank x.cell ≤ rank o) ∧
      (new.map Note.cell).Nodup := by
  induction f with
  | zero => intro s o _; exact ⟨[], rfl, by simp, by simp⟩
  | succ f ih =>
    intro s o hr
    have hlog : (touch s o (.lit n)).log = s.log ∨ ∃ x, x.cell = o ∧ (touch s o (.lit n)).log = x :: s.log :=
      inform_log (s.upd o (fun x => { x with result := true })) o false
    have hpar : ((touch s o (.lit n)).cells o).parent = (s.cells o).parent := touch_parent ..
    simp only [update]
    split
    · rcases hlog with h | ⟨x, hx, h⟩
      · exact ⟨[], h, by simp, by simp⟩
      · exact ⟨[x], h, by simp [hx], by simp⟩
    · rename_i hp
      rw [hpar] at hp ⊢
      obtain ⟨new, h1, h2, h3⟩ := ih (liftFlags (touch s o (.lit n)) o) (s.cells o).parent
          (by intro j; rw [liftFlags_parent, touch_parent]; exact hr j)
      rw [liftFlags_log] at h1
      have hlt := hr o hp
      rcases hlog with h | ⟨x, hx, h⟩
      · exact ⟨new, by rw [h1, h], fun x hx => Nat.le_of_lt (Nat.lt_of_le_of_lt (h2 x hx) hlt), h3⟩
      · refine ⟨new ++ [x], by rw [h1, h]; simp, ?_, ?_⟩
        · intro y hy
          rcases List.mem_append.1 hy with hy | hy
          · exact Nat.le_of_lt (Nat.lt_of_le_of_lt (h2 y hy) hlt)
          · simp at hy; subst hy; rw [hx]; exact Nat.le_refl _
        · rw [List.map_append, List.nodup_append]
          refine ⟨h3, by simp, ?_⟩
          intro a ha b hb
          simp at hb; subst hb
          obtain ⟨y, hy, rfl⟩ := List.mem_map.1 ha
          intro e
          have := h2 y hy
          rw [e, hx] at this
          omega

theorem touch_log_suffix (s : St) (o : Nat) (a : Arg) : ∃ new, (touch s o a).log = new ++ s.log := by
  cases a with
  | none => exact ⟨[], rfl⟩
  | ref d => exact ⟨[], rfl⟩
  | lit n =>
    rcases inform_log (s.upd o (fun x => { x with result := true })) o false with h | ⟨x, _, h⟩
    · exact ⟨[], h⟩
    · exact ⟨[x], h⟩

theorem update_log_suffix (f : Nat) : ∀ (s : St) (o : Nat) (a : Arg), ∃ new, (update f s o a).log = new ++ s.log := by
  induction f with
  | zero => intro s o a; exact ⟨[], rfl⟩
  | succ f ih =>
    intro s o a
    obtain ⟨n1, h1⟩ := touch_log_suffix s o a
    simp only [update]
    split
    · exact ⟨n1, h1⟩
    · obtain ⟨n2, h2⟩ := ih (liftFlags (touch s o a) o) ((touch s o a).cells o).parent a
      exact ⟨n2 ++ n1, by rw [h2, liftFlags_log, h1, List.append_assoc]⟩

theorem update_succ_log (f : Nat) (s : St) (o : Nat) (a : Arg) : ∃ new, (update (f + 1) s o a).log = new ++ (touch s o a).log := by
  simp only [update]
  split
  · exact ⟨[], rfl⟩
  · obtain ⟨n2, h2⟩ := update_log_suffix f (liftFlags (touch s o a) o) ((touch s o a).cells o).parent a
    exact ⟨n2, by rw [h2, liftFlags_log]⟩

theorem inform_on (s : St) (c : Nat) (hp : (s.cells c).promise = false) (hm : (s.cells c).hasMgr = true)
    (hn : (s.cells c).evNotify.orElse (s.cells c).notify = .on) : (inform s c false).log = .changed c :: s.log := by
  simp [inform, hp, hm, hn]

end CV.VT

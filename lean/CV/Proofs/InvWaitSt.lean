import CV.Proofs.InvWaitG
/-
C06, global layer, part 5: the state invariant `W6WInv = W6HInv ∧ W6GInv` and its preservation by the
helpers of the machine that change the w6_view.
-/
namespace CV.Core

@[simp] theorem St.w6_view_nh (s : St) : s.w6_view.nh = s.hs.length := rfl
@[simp] theorem St.w6_view_handler (s : St) : s.w6_view.handler = s.handler := rfl
@[simp] theorem St.w6_view_nw (s : St) : s.w6_view.nw = s.waits.length := rfl
@[simp] theorem St.w6_view_wh (s : St) (w : Nat) : s.w6_view.wh w = (s.wait w).w6h := rfl
@[simp] theorem St.w6_view_wg (s : St) (w : Nat) : s.w6_view.wg w = (s.wait w).w6g := rfl
@[simp] theorem St.w6_view_ng (s : St) : s.w6_view.ng = s.gens.length := rfl
@[simp] theorem St.w6_view_gen (s : St) : s.w6_view.gen = s.gen := rfl
@[simp] theorem St.w6_view_htab (s : St) (c : Nat) : s.w6_view.htab c = (s.comp c).htab := rfl
@[simp] theorem St.w6_view_tasks (s : St) (c : Nat) : s.w6_view.tasks c = (s.comp c).tasks := rfl
@[simp] theorem St.w6_view_progs (s : St) : s.w6_view.progs = s.progs := rfl

/-- the wait-protocol invariant of a state -/
def W6WInv (n0 : Nat) (s : St) : Prop := W6HInv n0 s.w6_view ∧ W6GInv n0 s.w6_view

namespace W6WInv
variable {n0 : Nat} {s t : St}

theorem ofV {s' : St} (h : W6WInv n0 s) (hv : St.W6V s s') : W6WInv n0 s' := by
  unfold W6WInv; rw [show s'.w6_view = s.w6_view from hv]; exact h

/-! ### primitives -/

theorem addH (h : W6WInv n0 t) (x : Handler) (hx : x.kind.w6_isWait = false) : W6WInv n0 (t.addH x) := by
  refine ⟨h.1.extendH (v' := (t.addH x).w6_view) (by simp) ?_ ?_ rfl rfl rfl, h.2.congr rfl rfl rfl rfl rfl rfl⟩
  · intro y hy; simp only [St.w6_view_nh] at hy; simp [St.w6_addH_handler, Nat.ne_of_lt hy]
  · intro y h1 h2
    simp only [St.w6_view_nh, St.w6_addH_hs_length] at h1 h2
    have : y = t.hs.length := by omega
    simp [St.w6_addH_handler, this, hx]

theorem setGen (h : W6WInv n0 t) (g : Nat) (x : GenRec) (hold : (t.gen g).w6_isWait = false) (hx : x.w6_isWait = false)
    (hacts : ∀ e hh o rest st pc sd, x = .user e hh o rest st pc sd → ∀ a ∈ rest, Act.w6_hOk n0 a) :
    W6WInv n0 (t.setGen g x) := by
  refine ⟨h.1.congr rfl rfl rfl rfl rfl, h.2.setGen (v' := (t.setGen g x).w6_view) g (by simp) ?_ hold ?_ ?_ rfl rfl rfl rfl⟩
  · intro g' hg'; simp [St.w6_setGen_gen_ne _ _ _ _ hg']
  · simp only [St.w6_view_gen]
    rcases St.w6_setGen_gen_cases t g x g with e | ⟨_, _, e⟩
    · rw [e]; exact hold
    · rw [e]; exact hx
  · intro e hh o rest st pc sd hg
    simp only [St.w6_view_gen] at hg
    rcases St.w6_setGen_gen_cases t g x g with e' | ⟨_, _, e'⟩
    · rw [e'] at hg; exact h.2.gacts g e hh o rest st pc sd hg
    · rw [e'] at hg; exact hacts e hh o rest st pc sd hg

theorem addGen (h : W6WInv n0 t) (x : GenRec) (hx : x.w6_isWait = false)
    (hacts : ∀ e hh o rest st pc sd, x = .user e hh o rest st pc sd → ∀ a ∈ rest, Act.w6_hOk n0 a) :
    W6WInv n0 (t.addGen x) := by
  refine ⟨h.1.congr rfl rfl rfl rfl rfl, h.2.addGen (v' := (t.addGen x).w6_view) (by simp) ?_ ?_ ?_ ?_ rfl rfl rfl rfl⟩
  · intro g hg; simp only [St.w6_view_ng] at hg; simp [St.w6_addGen_gen, hg]
  · simp [St.w6_addGen_gen, hx]
  · intro e hh o rest st pc sd hg
    simp [St.w6_addGen_gen] at hg
    exact hacts e hh o rest st pc sd hg
  · intro w; simp only [St.w6_view_gen, St.w6_view_ng]; rw [St.w6_gen_ge _ _ (Nat.le_refl _)]; intro hh; cases hh

theorem registerTask (h : W6WInv n0 t) (c : Nat) (x : Task) (hx : t.w6_view.TaskOk x) : W6WInv n0 (t.registerTask c x) := by
  refine ⟨h.1.congr rfl rfl rfl rfl ?_, h.2.tasksChange (v' := (t.registerTask c x).w6_view) rfl rfl rfl rfl rfl ?_⟩
  · funext c'; simp only [St.w6_view_htab]; unfold St.registerTask; rw [St.w6_modComp_mk_htab]
  · intro c' y hy
    simp only [St.w6_view_tasks] at hy ⊢
    unfold St.registerTask at hy
    rcases St.w6_modComp_comp_cases t (t.rootOf c) (fun x' => { x' with tasks := addUniq x'.tasks x }) c' with e | ⟨_, e⟩
    · rw [e] at hy; exact Or.inl hy
    · rw [e] at hy
      rcases (w6_mem_addUniq _ _ _).1 hy with hy | hy
      · exact Or.inl hy
      · subst hy; exact Or.inr hx

theorem unregisterTask (h : W6WInv n0 t) (c : Nat) (x : Task) : W6WInv n0 (t.unregisterTask c x) := by
  refine ⟨h.1.congr rfl rfl rfl rfl ?_, h.2.tasksChange (v' := (t.unregisterTask c x).w6_view) rfl rfl rfl rfl rfl ?_⟩
  · funext c'; simp only [St.w6_view_htab]; unfold St.unregisterTask; rw [St.w6_modComp_mk_htab]
  · intro c' y hy
    simp only [St.w6_view_tasks] at hy ⊢
    unfold St.unregisterTask at hy
    rcases St.w6_modComp_comp_cases t (t.rootOf c) (fun x' => { x' with tasks := x'.tasks.erase x }) c' with e | ⟨_, e⟩
    · rw [e] at hy; exact Or.inl hy
    · rw [e] at hy; exact Or.inl (List.mem_of_mem_erase hy)

/-- `addHandler h` of a handler that is not temporary (user code) -/
theorem addHandler (h : W6WInv n0 t) (x : Nat) (hlt : x < t.hs.length) (hk : (t.handler x).kind.w6_isWait = false) :
    W6WInv n0 (t.addHandler x) := by
  refine ⟨h.1.htabChange (v' := (t.addHandler x).w6_view) (by simp) (by funext y; simp) (by simp) (by funext w; simp)
      ?_ x hlt hk ?_ ?_, h.2.congr (by simp) (by funext y; simp) (by simp) (by funext w; simp) ?_ (t.w6_addHandler_compsOnly x).progs⟩
  · intro c; exact (t.w6_addHandler_htab x c).2.1 (h.1.nodup c)
  · intro c k y hy
    rcases (t.w6_addHandler_htab x c).2.2.1 _ hy with hy | ⟨hy, _⟩
    · exact Or.inl hy
    · exact Or.inr hy
  · intro c k y hy _; exact (t.w6_addHandler_htab x c).2.2.2 _ hy
  · funext c; exact (t.w6_addHandler_htab x c).1

/-- `removeHandler h` of a pre-declared handler (user code) -/
theorem removeHandler (h : W6WInv n0 t) (x : Nat) (n : Option Name) (hlt : x < n0) :
    W6WInv n0 (t.removeHandler x n).2 := by
  refine ⟨h.1.htabChange (v' := (t.removeHandler x n).2.w6_view) (by simp) (by funext y; simp) (by simp)
      (by funext w; simp) ?_ x (Nat.lt_of_lt_of_le hlt h.1.hs0) (h.1.old x hlt) ?_ ?_,
    h.2.congr (by simp) (by funext y; simp) (by simp) (by funext w; simp) ?_ (t.w6_removeHandler_compsOnly x n).progs⟩
  · intro c; exact (t.w6_removeHandler_htab_sublist x n c).nodup (h.1.nodup c)
  · intro c k y hy; exact Or.inl ((t.w6_removeHandler_htab_sublist x n c).subset hy)
  · intro c k y hy hne; exact t.w6_removeHandler_htab_keep x n c _ hy hne
  · funext c; simp

/-- a fresh waitEvent generator with its wait state -/
theorem newWait (h : W6WInv n0 t) (x : WaitSt) (h1 : x.task = t.gens.length) (h2 : x.started = false)
    (h3 : x.run = false) (h4 : x.flag = false) (h5 : x.event = none) :
    W6WInv n0 ((t.addGen (.wait t.waits.length)).addWait x) := by
  refine ⟨h.1.newWait (v' := ((t.addGen (.wait t.waits.length)).addWait x).w6_view) rfl rfl (by simp) ?_ rfl ?_ ?_ ?_ ?_,
    h.2.newWait (v' := ((t.addGen (.wait t.waits.length)).addWait x).w6_view) (by simp) ?_ ?_ ?_ (by simp) ?_ ?_ ?_ rfl rfl⟩
  · intro w hw; simp only [St.w6_view_nw] at hw; simp [St.w6_addWait_wait, hw]
  · simp [St.w6_addWait_wait, WaitSt.w6h, h2]
  · simp [St.w6_addWait_wait, WaitSt.w6h, h3]
  · simp [St.w6_addWait_wait, WaitSt.w6h, h4]
  · simp [St.w6_addWait_wait, WaitSt.w6h, h5]
  · intro g hg; simp only [St.w6_view_ng] at hg; simp [St.w6_addGen_gen, hg]
  · simp [St.w6_addGen_gen]
  · intro w; simp only [St.w6_view_gen, St.w6_view_ng]; rw [St.w6_gen_ge _ _ (Nat.le_refl _)]; intro hh; cases hh
  · intro w hw; simp only [St.w6_view_nw] at hw; simp [St.w6_addWait_wait, hw]
  · simp [St.w6_addWait_wait, WaitSt.w6g, h1]
  · simp [St.w6_addWait_wait, WaitSt.w6g, h2]

end W6WInv

/-! ### `startWait` -/

/-- create a handler record and w6_install it: `self.addHandler(handler(name, channel=…)(closure))` -/
def St.w6_install (s : St) (hd : Handler) : St := (s.addH hd).addHandler s.hs.length

theorem St.w6_install_spec (s : St) (hd : Handler) (n : Name) (hn : hd.names = [n]) (o : Nat) (ho : hd.owner = o) :
    (s.w6_install hd).hs.length = s.hs.length + 1 ∧
    (∀ x, (s.w6_install hd).handler x = if x = s.hs.length then hd else s.handler x) ∧
    (∀ c, ((s.w6_install hd).comp c).htab =
      if c = o ∧ c < s.comps.length then addUniq (s.comp c).htab (some n, s.hs.length) else (s.comp c).htab) ∧
    (∀ c, ((s.w6_install hd).comp c).tasks = (s.comp c).tasks) ∧
    (∀ w, (s.w6_install hd).wait w = s.wait w) ∧ (s.w6_install hd).waits.length = s.waits.length ∧
    (∀ g, (s.w6_install hd).gen g = s.gen g) ∧ (s.w6_install hd).gens.length = s.gens.length ∧
    (s.w6_install hd).progs = s.progs ∧ (s.w6_install hd).comps.length = s.comps.length := by
  subst ho
  unfold St.w6_install
  have hh : (s.addH hd).handler s.hs.length = hd := by simp [St.w6_addH_handler]
  refine ⟨by simp, ?_, ?_, ?_, by simp, by simp, by simp, by simp,
    ((s.addH hd).w6_addHandler_compsOnly _).progs, ((s.addH hd).w6_addHandler_compsOnly _).compsLen⟩
  · intro x; simp [St.w6_addH_handler]
  · intro c
    rw [St.w6_addHandler_single_htab _ _ n (by rw [hh]; exact hn), hh]
    by_cases hc : c = hd.owner ∧ c < s.comps.length
    · rw [if_pos (by simpa using hc), if_pos hc]; simp
    · rw [if_neg (by simpa using hc), if_neg hc]; simp
  · intro c; exact ((s.addH hd).w6_addHandler_htab _ c).1

def w6_hdE (ws : WaitSt) (chan : Option Chan) (w : Nat) : Handler :=
  { owner := ws.owner, names := [ws.evName], chan := chan, kind := .waitEvent w }
def w6_hdD (ws : WaitSt) (chan : Option Chan) (w : Nat) : Handler :=
  { owner := ws.owner, names := [ws.evName.child sfxDone], chan := chan, kind := .waitDone w }
def w6_hdT (ws : WaitSt) (chan : Option Chan) (w : Nat) : Handler :=
  { owner := ws.owner, names := [Name.generateEvents], chan := chan, kind := .waitTick w }

@[simp] theorem w6_hdE_owner (ws : WaitSt) (chan : Option Chan) (w : Nat) : (w6_hdE ws chan w).owner = ws.owner := rfl
@[simp] theorem w6_hdD_owner (ws : WaitSt) (chan : Option Chan) (w : Nat) : (w6_hdD ws chan w).owner = ws.owner := rfl
@[simp] theorem w6_hdT_owner (ws : WaitSt) (chan : Option Chan) (w : Nat) : (w6_hdT ws chan w).owner = ws.owner := rfl

/-- the three `addHandler` calls of `waitEvent` -/
def St.w6_install3 (s1 : St) (ws : WaitSt) (chan : Option Chan) (w : Nat) : St :=
  let s2 := s1.w6_install (w6_hdE ws chan w)
  let s3 := s2.w6_install (w6_hdD ws chan w)
  if ws.timeout ≥ 0
    then s3.w6_install (w6_hdT ws chan w)
    else s3

/-- `startWait` after the (optional) `fire` of `callEvent`: w6_install the temporary handlers, fill in the state -/
def St.w6_startTail (s1 : St) (ws : WaitSt) (chan : Option Chan) (evObj : Option Nat) (w : Nat) : St :=
  (s1.w6_install3 ws chan w).modWait w fun x =>
    { x with
      evObj := evObj
      hEvent := s1.hs.length
      hDone := (s1.w6_install (w6_hdE ws chan w)).hs.length
      hTick := (if ws.timeout ≥ 0 then some ((s1.w6_install (w6_hdE ws chan w)).w6_install (w6_hdD ws chan w)).hs.length else none)
      started := true }

theorem St.w6_install3_spec (s1 : St) (ws : WaitSt) (chan : Option Chan) (w : Nat) :
    (s1.w6_install3 ws chan w).hs.length = s1.hs.length + (if ws.timeout ≥ 0 then 3 else 2) ∧
    (∀ x, x < s1.hs.length → (s1.w6_install3 ws chan w).handler x = s1.handler x) ∧
    (s1.w6_install3 ws chan w).handler s1.hs.length =
      (w6_hdE ws chan w) ∧
    (s1.w6_install3 ws chan w).handler (s1.hs.length + 1) =
      (w6_hdD ws chan w) ∧
    (ws.timeout ≥ 0 → (s1.w6_install3 ws chan w).handler (s1.hs.length + 2) =
      (w6_hdT ws chan w)) ∧
    (∀ c, (s1.comp c).htab.Nodup → ((s1.w6_install3 ws chan w).comp c).htab.Nodup) ∧
    (∀ c x, x ∈ ((s1.w6_install3 ws chan w).comp c).htab ↔ x ∈ (s1.comp c).htab ∨
      (decide (ws.owner < s1.comps.length) = true ∧ c = ws.owner ∧
        (x = (some ws.evName, s1.hs.length) ∨ x = (some (ws.evName.child sfxDone), s1.hs.length + 1) ∨
          (ws.timeout ≥ 0 ∧ x = (some Name.generateEvents, s1.hs.length + 2))))) ∧
    (∀ c, ((s1.w6_install3 ws chan w).comp c).tasks = (s1.comp c).tasks) ∧
    (∀ w', (s1.w6_install3 ws chan w).wait w' = s1.wait w') ∧ (s1.w6_install3 ws chan w).waits.length = s1.waits.length ∧
    (∀ g, (s1.w6_install3 ws chan w).gen g = s1.gen g) ∧ (s1.w6_install3 ws chan w).gens.length = s1.gens.length ∧
    (s1.w6_install3 ws chan w).progs = s1.progs := by
  obtain ⟨a1, a2, a3, a4, a5, a6, a7, a8, a9, a10⟩ := s1.w6_install_spec
    (w6_hdE ws chan w) ws.evName rfl ws.owner rfl
  generalize hs2 : s1.w6_install (w6_hdE ws chan w) = s2 at *
  obtain ⟨b1, b2, b3, b4, b5, b6, b7, b8, b9, b10⟩ := s2.w6_install_spec
    (w6_hdD ws chan w) _ rfl ws.owner rfl
  generalize hs3 : s2.w6_install (w6_hdD ws chan w) = s3 at *
  have m3 : ∀ c x, x ∈ (s3.comp c).htab ↔ x ∈ (s1.comp c).htab ∨
      (decide (ws.owner < s1.comps.length) = true ∧ c = ws.owner ∧
        (x = (some ws.evName, s1.hs.length) ∨ x = (some (ws.evName.child sfxDone), s1.hs.length + 1))) := by
    intro c x
    rw [b3 c, a3 c, a10, a1]
    by_cases hc : c = ws.owner ∧ c < s1.comps.length
    · rw [if_pos hc, if_pos hc, w6_mem_addUniq, w6_mem_addUniq]
      obtain ⟨hc1, hc2⟩ := hc; subst hc1
      have hd : decide (ws.owner < s1.comps.length) = true := by simpa using hc2
      simp only [hd, true_and, or_assoc]
    · rw [if_neg hc, if_neg hc]
      constructor
      · exact Or.inl
      · rintro (hm | ⟨hd, hc1, _⟩)
        · exact hm
        · exfalso; apply hc; subst hc1; exact ⟨rfl, by simpa using hd⟩
  have n3 : ∀ c, (s1.comp c).htab.Nodup → (s3.comp c).htab.Nodup := by
    intro c hnd
    rw [b3 c, a3 c]
    split
    · split
      · exact w6_addUniq_nodup _ _ (w6_addUniq_nodup _ _ hnd)
      · exact w6_addUniq_nodup _ _ hnd
    · split
      · exact w6_addUniq_nodup _ _ hnd
      · exact hnd
  unfold St.w6_install3
  dsimp only
  rw [hs2, hs3]
  by_cases ht : ws.timeout ≥ 0
  · rw [if_pos ht, if_pos ht]
    obtain ⟨c1, c2, c3, c4, c5, c6, c7, c8, c9, c10⟩ := s3.w6_install_spec
      (w6_hdT ws chan w) _ rfl ws.owner rfl
    generalize s3.w6_install (w6_hdT ws chan w) = s4 at *
    refine ⟨by omega, ?_, ?_, ?_, ?_, ?_, ?_, ?_, ?_, by omega, ?_, by omega, by rw [c9, b9, a9]⟩
    · intro x hx; rw [c2, b2, a2, if_neg (by omega), if_neg (by omega), if_neg (by omega)]
    · rw [c2, b2, a2, if_neg (by omega), if_neg (by omega), if_pos rfl]
    · rw [c2, b2, if_neg (by omega), if_pos (by omega)]
    · intro _; rw [c2, if_pos (by omega)]
    · intro c hnd
      rw [c3 c]; split
      · exact w6_addUniq_nodup _ _ (n3 c hnd)
      · exact n3 c hnd
    · intro c x
      rw [c3 c, b10, a10, b1, a1]
      by_cases hc : c = ws.owner ∧ c < s1.comps.length
      · rw [if_pos hc, w6_mem_addUniq, m3]
        obtain ⟨hc1, hc2⟩ := hc; subst hc1
        have hd : decide (ws.owner < s1.comps.length) = true := by simpa using hc2
        simp only [hd, true_and, ht, or_assoc]
      · rw [if_neg hc, m3]
        constructor
        · rintro (hm | ⟨hd, hc1, hm⟩)
          · exact Or.inl hm
          · exfalso; apply hc; subst hc1; exact ⟨rfl, by simpa using hd⟩
        · rintro (hm | ⟨hd, hc1, _⟩)
          · exact Or.inl hm
          · exfalso; apply hc; subst hc1; exact ⟨rfl, by simpa using hd⟩
    · intro c; rw [c4, b4, a4]
    · intro w'; rw [c5, b5, a5]
    · intro g; rw [c7, b7, a7]
  · rw [if_neg ht, if_neg ht]
    refine ⟨by omega, ?_, ?_, ?_, ?_, n3, ?_, ?_, ?_, by omega, ?_, by omega, by rw [b9, a9]⟩
    · intro x hx; rw [b2, a2, if_neg (by omega), if_neg (by omega)]
    · rw [b2, a2, if_neg (by omega), if_pos rfl]
    · rw [b2, if_pos (by omega)]
    · intro h; exact absurd h ht
    · intro c x; rw [m3]; simp [ht]
    · intro c; rw [b4, a4]
    · intro w'; rw [b5, a5]
    · intro g; rw [b7, a7]

theorem St.w6_startWait_eq (s : St) (w : Nat) :
    s.startWait w = St.w6_startTail
      (match (s.wait w).isCall with
        | some (t, target) => s.fireTmplEv (s.wait w).owner (mkEvOfTmpl s t) target 0
        | none => s)
      (s.wait w)
      (match (s.wait w).isCall with
        | some _ => ((match (s.wait w).isCall with
            | some (t, target) => s.fireTmplEv (s.wait w).owner (mkEvOfTmpl s t) target 0
            | none => s).ev s.evs.length).chans.head?
        | none => (s.wait w).chanArg)
      (match (s.wait w).isCall with
        | some _ => some s.evs.length
        | none => none) w := rfl

/-- `startWait` followed by `task_state.task_event = …; task_state.parent = …` (the pair is what `processTask`
    does on a freshly yielded waitEvent generator) -/
theorem W6WInv.w6_startTail {n0 : Nat} {s1 : St} (h : W6WInv n0 s1) (ws : WaitSt) (chan : Option Chan) (evObj : Option Nat)
    (w : Nat) (hw : w < s1.waits.length) (hws : (s1.wait w).w6h = ws.w6h) (hns : ws.started = false) (te pg : Nat)
    (hp : s1.w6_view.NonWait pg) :
    W6WInv n0 ((St.w6_startTail s1 ws chan evObj w).modWait w fun x => { x with taskEvent := te, parentGen := pg }) := by
  have hv : s1.w6_view.wh w = ws.w6h := by simp [hws]
  obtain ⟨p1, p2, p3, p4, p5, p6, p7, p8, p9, p10, p11, p12, p13⟩ := s1.w6_install3_spec ws chan w
  obtain ⟨a1, _, _, _, _, _, _, _, _, _⟩ := s1.w6_install_spec (w6_hdE ws chan w) ws.evName rfl ws.owner rfl
  obtain ⟨b1, _, _, _, _, _, _, _, _, _⟩ := (s1.w6_install (w6_hdE ws chan w)).w6_install_spec (w6_hdD ws chan w) _ rfl ws.owner rfl
  have hwS : w < (s1.w6_install3 ws chan w).waits.length := by rw [p10]; exact hw
  -- the final wait table
  have hFne : ∀ w', w' ≠ w →
      ((St.w6_startTail s1 ws chan evObj w).modWait w fun x => { x with taskEvent := te, parentGen := pg }).wait w' = s1.wait w' := by
    intro w' hne
    rw [St.w6_modWait_wait_ne _ _ _ _ hne]; unfold St.w6_startTail; rw [St.w6_modWait_wait_ne _ _ _ _ hne, p9]
  have hFw : ((St.w6_startTail s1 ws chan evObj w).modWait w fun x => { x with taskEvent := te, parentGen := pg }).wait w =
      { s1.wait w with
          evObj := evObj
          hEvent := s1.hs.length
          hDone := s1.hs.length + 1
          hTick := (if ws.timeout ≥ 0 then some (s1.hs.length + 2) else none)
          started := true
          taskEvent := te
          parentGen := pg } := by
    rw [St.w6_modWait_wait_lt _ _ _ (by unfold St.w6_startTail; simpa using hwS)]
    unfold St.w6_startTail
    rw [St.w6_modWait_wait_lt _ _ _ hwS, p9, a1, b1, a1]
  generalize hF : (St.w6_startTail s1 ws chan evObj w).modWait w (fun x => { x with taskEvent := te, parentGen := pg }) = F
    at hFne hFw
  have q1 : F.hs = (s1.w6_install3 ws chan w).hs := by subst hF; rfl
  have q2 : F.handler = (s1.w6_install3 ws chan w).handler := by subst hF; rfl
  have q3 : F.comp = (s1.w6_install3 ws chan w).comp := by subst hF; rfl
  have q4 : F.gen = (s1.w6_install3 ws chan w).gen := by subst hF; rfl
  have q5 : F.gens = (s1.w6_install3 ws chan w).gens := by subst hF; rfl
  have q6 : F.progs = (s1.w6_install3 ws chan w).progs := by subst hF; rfl
  have q7 : F.waits.length = s1.waits.length := by subst hF; unfold St.w6_startTail; simpa using p10
  refine ⟨?_, ?_⟩
  · refine W6HInv.startWait (v := s1.w6_view) (v' := F.w6_view) h.1 w hw (by rw [hv]; exact hns) ?_ ?_ ?_ ?_ ?_ ?_ ?_
      ?_ ?_ ?_ ?_ ?_ ?_ ?_ ?_ ?_ ?_ (decide (ws.owner < s1.comps.length)) ?_ ?_
    · simp only [St.w6_view_nh, hv]; rw [q1, p1]; rfl
    · intro x hx; simp only [St.w6_view_handler, St.w6_view_nh] at hx ⊢; rw [q2]; exact p2 x hx
    · simp only [St.w6_view_handler, St.w6_view_nh, hv]; rw [q2, p3]; exact ⟨rfl, rfl, rfl⟩
    · simp only [St.w6_view_handler, St.w6_view_nh, hv]; rw [q2, p4]; exact ⟨rfl, rfl, rfl⟩
    · intro ht; simp only [St.w6_view_handler, St.w6_view_nh, hv] at ht ⊢; rw [q2, p5 ht]; exact ⟨rfl, rfl, rfl⟩
    · simp only [St.w6_view_nw]; exact q7
    · intro w' hne; simp only [St.w6_view_wh]; rw [hFne w' hne]
    · simp only [St.w6_view_wh]; rw [hFw]; rfl
    · simp only [St.w6_view_wh]; rw [hFw]; rfl
    · simp only [St.w6_view_wh]; rw [hFw]; rfl
    · simp only [St.w6_view_wh]; rw [hFw]; rfl
    · simp only [St.w6_view_wh]; rw [hFw]; rfl
    · simp only [St.w6_view_wh]; rw [hFw]; rfl
    · simp only [St.w6_view_wh, St.w6_view_nh]; rw [hFw]; rfl
    · simp only [St.w6_view_wh, St.w6_view_nh]; rw [hFw]; rfl
    · simp only [St.w6_view_wh, St.w6_view_nh, hws]; rw [hFw]; rfl
    · simp only [St.w6_view_wh]; rw [hFw]; rfl
    · intro c; simp only [St.w6_view_htab]; rw [q3]; exact p6 c (h.1.nodup c)
    · intro c x; simp only [St.w6_view_htab, St.w6_view_nh, hv]; rw [q3]; exact p7 c x
  · refine W6GInv.wgUpdate (v := s1.w6_view) (v' := F.w6_view) h.2 w ?_ ?_ ?_ ?_ ?_ ?_ ?_ ?_ ?_
    · simp only [St.w6_view_ng]; rw [q5, p12]
    · simp only [St.w6_view_gen]; rw [q4]; funext g; exact p11 g
    · simp only [St.w6_view_nw]; exact q7
    · intro w' hne; simp only [St.w6_view_wg]; rw [hFne w' hne]
    · simp only [St.w6_view_wg]; rw [hFw]; rfl
    · simp only [St.w6_view_wg]; rw [hFw]; exact id
    · intro _ _; simp only [St.w6_view_wg]; rw [hFw]; exact hp
    · funext c; simp only [St.w6_view_tasks]; rw [q3]; exact p8 c
    · simp only [St.w6_view_progs]; rw [q6, p13]

end CV.Core

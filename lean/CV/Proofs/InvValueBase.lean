import CV.Proofs.CoreReach
import CV.Proofs.CoreStep
import CV.Proofs.CoreValue
/-
C04, machine level, part 1: the Value of every event is written only by
  * `St.setValue` / the task error branch (`Val.set`: append one item),
  * the `errors := true` / `promise := true` writes,
  * `St.fireRaw` (a fresh Value when the event is fired; logged as `Entry.fire e …`).

`VG e s s'` ("value of `e` grows from `s` to `s'`") is a preorder that every primitive of
`Pure.lean`, every helper and every arm of `step` respects; it carries
  * `wf`   : well-formedness of all Values (`VWF`) is preserved,
  * `hist` : the log grew by `es`, and unless `es` contains a `fire e` entry the Value of `e`
             was only extended (`Val.Ext`: items appended at the end, flags only raised).
Pattern: CV/Proofs/CoreStep.lean (primitive -> helper -> arm -> `cases f`), tactic `vg`.
-/
namespace CV.Core

/-! ## table access -/

theorem St.v4ev_modEv (t : St) (e' : Nat) (f : Ev → Ev) (x : Nat) :
    (t.modEv e' f).ev x = if x = e' ∧ x < t.evs.length then f (t.ev x) else t.ev x := by
  unfold St.modEv St.ev
  simp only [List.getD_eq_getElem?_getD, List.getElem?_modify]
  by_cases h : e' = x
  · subst h
    by_cases hl : e' < t.evs.length
    · simp [hl]
    · simp [hl]
  · have : ¬ x = e' := fun h' => h h'.symm
    simp [h, this]

theorem St.v4ev_modEv_ne (t : St) (e' : Nat) (f : Ev → Ev) (x : Nat) (h : x ≠ e') :
    (t.modEv e' f).ev x = t.ev x := by
  rw [St.v4ev_modEv]; simp [h]

theorem St.v4ev_modEv_same (t : St) (e' : Nat) (f : Ev → Ev) (h : e' < t.evs.length) :
    (t.modEv e' f).ev e' = f (t.ev e') := by
  rw [St.v4ev_modEv]; simp [h]

theorem St.v4ev_addEv (t : St) (a : Ev) (x : Nat) :
    (t.addEv a).ev x = if x = t.evs.length then a else t.ev x := by
  unfold St.addEv St.ev
  simp only [List.getD_eq_getElem?_getD]
  by_cases h : x = t.evs.length
  · subst h; simp
  · simp only [h, if_false]
    by_cases hl : x < t.evs.length
    · rw [List.getElem?_append_left hl]
    · have h1 : t.evs.length ≤ x := Nat.le_of_not_lt hl
      rw [List.getElem?_append_right h1]
      have h2 : x - t.evs.length ≠ 0 := by omega
      have h3 : t.evs[x]? = none := List.getElem?_eq_none h1
      rw [h3]
      cases hd : x - t.evs.length with
      | zero => exact absurd hd h2
      | succ n => simp

theorem St.v4ev_dflt (t : St) (x : Nat) (h : t.evs.length ≤ x) : t.ev x = dfltEv := by
  unfold St.ev
  simp [List.getD_eq_getElem?_getD, List.getElem?_eq_none h]

@[simp] theorem St.v4evs_modEv_length (t : St) (e' : Nat) (f : Ev → Ev) :
    (t.modEv e' f).evs.length = t.evs.length := by simp [St.modEv]
@[simp] theorem St.v4evs_addEv_length (t : St) (a : Ev) :
    (t.addEv a).evs.length = t.evs.length + 1 := by simp [St.addEv]

@[simp] theorem St.v4ev_modComp (t : St) (c : Nat) (f : Comp → Comp) (x : Nat) : (t.modComp c f).ev x = t.ev x := rfl
@[simp] theorem St.v4ev_modWait (t : St) (c : Nat) (f : WaitSt → WaitSt) (x : Nat) : (t.modWait c f).ev x = t.ev x := rfl
@[simp] theorem St.v4ev_modTimer (t : St) (c : Nat) (f : TimerSt → TimerSt) (x : Nat) : (t.modTimer c f).ev x = t.ev x := rfl
@[simp] theorem St.v4ev_setGen (t : St) (g : Nat) (y : GenRec) (x : Nat) : (t.setGen g y).ev x = t.ev x := rfl
@[simp] theorem St.v4ev_logE (t : St) (y : Entry) (x : Nat) : (t.logE y).ev x = t.ev x := rfl
@[simp] theorem St.v4ev_addH (t : St) (y : Handler) (x : Nat) : (t.addH y).ev x = t.ev x := rfl
@[simp] theorem St.v4ev_addGen (t : St) (y : GenRec) (x : Nat) : (t.addGen y).ev x = t.ev x := rfl
@[simp] theorem St.v4ev_addWait (t : St) (y : WaitSt) (x : Nat) : (t.addWait y).ev x = t.ev x := rfl
@[simp] theorem St.v4ev_tick1 (t : St) (d : Int) (x : Nat) : (t.tick1 d).ev x = t.ev x := rfl

@[simp] theorem St.v4log_modComp (t : St) (c : Nat) (f : Comp → Comp) : (t.modComp c f).log = t.log := rfl
@[simp] theorem St.v4log_modEv (t : St) (c : Nat) (f : Ev → Ev) : (t.modEv c f).log = t.log := rfl
@[simp] theorem St.v4log_modWait (t : St) (c : Nat) (f : WaitSt → WaitSt) : (t.modWait c f).log = t.log := rfl
@[simp] theorem St.v4log_modTimer (t : St) (c : Nat) (f : TimerSt → TimerSt) : (t.modTimer c f).log = t.log := rfl
@[simp] theorem St.v4log_setGen (t : St) (g : Nat) (y : GenRec) : (t.setGen g y).log = t.log := rfl
@[simp] theorem St.v4log_logE (t : St) (y : Entry) : (t.logE y).log = y :: t.log := rfl
@[simp] theorem St.v4log_addEv (t : St) (y : Ev) : (t.addEv y).log = t.log := rfl
@[simp] theorem St.v4log_addH (t : St) (y : Handler) : (t.addH y).log = t.log := rfl
@[simp] theorem St.v4log_addGen (t : St) (y : GenRec) : (t.addGen y).log = t.log := rfl
@[simp] theorem St.v4log_addWait (t : St) (y : WaitSt) : (t.addWait y).log = t.log := rfl
@[simp] theorem St.v4log_tick1 (t : St) (d : Int) : (t.tick1 d).log = t.log := rfl

/-! ## Values: well-formedness and extension -/

/-- every event's Value is in one of the three reachable shapes (unset / single / list ≥ 2) -/
def VWF (s : St) : Prop := ∀ e, (s.ev e).val.WF

/-- `v'` extends `v`: items were appended at the end (nothing dropped or reordered), the flags
    `errors`, `result`, `promise` were not lowered -/
structure Val.Ext (v v' : Val) : Prop where
  items : ∃ xs, v'.items = v.items ++ xs
  errors : v.errors = true → v'.errors = true
  result : v.result = true → v'.result = true
  promise : v.promise = true → v'.promise = true

theorem Val.Ext.refl (v : Val) : Val.Ext v v := ⟨⟨[], by simp⟩, id, id, id⟩

theorem Val.Ext.trans {a b c : Val} (h1 : Val.Ext a b) (h2 : Val.Ext b c) : Val.Ext a c := by
  obtain ⟨x1, e1⟩ := h1.items
  obtain ⟨x2, e2⟩ := h2.items
  exact ⟨⟨x1 ++ x2, by rw [e2, e1, List.append_assoc]⟩, fun h => h2.errors (h1.errors h),
    fun h => h2.result (h1.result h), fun h => h2.promise (h1.promise h)⟩

theorem Val.set_promise (v : Val) (x : VItem) : (v.set x).promise = v.promise := by
  unfold Val.set
  by_cases hr : v.result = true
  · by_cases hl : v.isList = true <;> simp [hr, hl]
  · have hr' : v.result = false := by simpa using hr
    simp [hr']

theorem Val.Ext.set (v : Val) (x : VItem) (h : v.WF) : Val.Ext v (v.set x) :=
  ⟨⟨[x], Val.set_items v x h⟩, fun he => by rw [Val.set_errors]; exact he,
   fun _ => Val.set_result v x, fun hp => by rw [Val.set_promise]; exact hp⟩

theorem Val.Ext.setErrors (v : Val) : Val.Ext v { v with errors := true } :=
  ⟨⟨[], by simp⟩, fun _ => rfl, id, id⟩

theorem Val.Ext.setPromise (v : Val) : Val.Ext v { v with promise := true } :=
  ⟨⟨[], by simp⟩, id, id, fun _ => rfl⟩

theorem Val.WF.setErrors {v : Val} (h : v.WF) : Val.WF { v with errors := true } := h
theorem Val.WF.setPromise {v : Val} (h : v.WF) : Val.WF { v with promise := true } := h

theorem dfltEv_val : dfltEv.val = {} := rfl

/-! ## the preorder -/

/-- the log entries `es` do not contain a `fire` of event `e` -/
def nofire (e : Nat) (es : List Entry) : Prop := ∀ n ch p, Entry.fire e n ch p ∉ es

theorem nofire_append {e : Nat} {a b : List Entry} (h : nofire e (a ++ b)) : nofire e a ∧ nofire e b :=
  ⟨fun n ch p hm => h n ch p (List.mem_append_left _ hm), fun n ch p hm => h n ch p (List.mem_append_right _ hm)⟩

/-- as `VG`, but nothing is said about the Value of `e` when `e = x` (used inside `fireRaw`,
    between the reset of the Value and the log entry) -/
structure VGx (x e : Nat) (s s' : St) : Prop where
  wf : VWF s → VWF s'
  hist : ∃ es, s'.log = es ++ s.log ∧ (VWF s → nofire e es → e ≠ x → Val.Ext (s.ev e).val (s'.ev e).val)

/-- from `s` to `s'` the Value of event `e` was only extended, unless `e` was fired again -/
structure VG (e : Nat) (s s' : St) : Prop where
  wf : VWF s → VWF s'
  hist : ∃ es, s'.log = es ++ s.log ∧ (VWF s → nofire e es → Val.Ext (s.ev e).val (s'.ev e).val)

namespace VG
variable {e : Nat} {s t u : St}

theorem refl (s : St) : VG e s s := ⟨id, [], rfl, fun _ _ => Val.Ext.refl _⟩

theorem trans (h1 : VG e s t) (h2 : VG e t u) : VG e s u := by
  obtain ⟨es1, e1, x1⟩ := h1.hist
  obtain ⟨es2, e2, x2⟩ := h2.hist
  refine ⟨fun h => h2.wf (h1.wf h), es2 ++ es1, by rw [e2, e1, List.append_assoc], ?_⟩
  intro hw hn
  obtain ⟨n2, n1⟩ := nofire_append hn
  exact (x1 hw n1).trans (x2 (h1.wf hw) n2)

theorem toX (x : Nat) (h : VG e s t) : VGx x e s t :=
  ⟨h.wf, let ⟨es, e1, x1⟩ := h.hist; ⟨es, e1, fun hw hn _ => x1 hw hn⟩⟩

/-- a primitive that touches neither the event table nor the log -/
theorem of_same (t t' : St) (h1 : t'.evs = t.evs) (h2 : t'.log = t.log) : VG e t t' := by
  have hev : ∀ x, t'.ev x = t.ev x := fun x => by unfold St.ev; rw [h1]
  refine ⟨fun hw x => by rw [hev]; exact hw x, [], by simpa using h2, fun _ _ => by rw [hev]; exact Val.Ext.refl _⟩

/-- `modEv` with a function that extends the Value -/
theorem modEv_self (t : St) (e' : Nat) (f : Ev → Ev)
    (hf : ∀ y : Ev, y.val.WF → (f y).val.WF ∧ Val.Ext y.val (f y).val) : VG e t (t.modEv e' f) := by
  refine ⟨fun hw x => ?_, [], rfl, fun hw _ => ?_⟩
  · rw [St.v4ev_modEv]; split
    · exact (hf _ (hw x)).1
    · exact hw x
  · rw [St.v4ev_modEv]; split
    · exact (hf _ (hw e)).2
    · exact Val.Ext.refl _

theorem logE_self (t : St) (x : Entry) : VG e t (t.logE x) :=
  ⟨fun hw => hw, [x], rfl, fun _ _ => Val.Ext.refl _⟩

/-- a new event with an unset Value -/
theorem addEv_self (t : St) (a : Ev) (ha : a.val = {}) : VG e t (t.addEv a) := by
  have hv : ∀ x, ((t.addEv a).ev x).val = (t.ev x).val := by
    intro x; rw [St.v4ev_addEv]; split
    · rename_i hx; rw [ha, St.v4ev_dflt t x (by omega)]; rfl
    · rfl
  exact ⟨fun hw x => by rw [hv]; exact hw x, [], rfl, fun _ _ => by rw [hv]; exact Val.Ext.refl _⟩

theorem modComp (h : VG e s t) (c : Nat) (f : Comp → Comp) : VG e s (t.modComp c f) := h.trans (of_same _ _ rfl rfl)
theorem modWait (h : VG e s t) (w : Nat) (f : WaitSt → WaitSt) : VG e s (t.modWait w f) := h.trans (of_same _ _ rfl rfl)
theorem modTimer (h : VG e s t) (i : Nat) (f : TimerSt → TimerSt) : VG e s (t.modTimer i f) := h.trans (of_same _ _ rfl rfl)
theorem setGen (h : VG e s t) (g : Nat) (x : GenRec) : VG e s (t.setGen g x) := h.trans (of_same _ _ rfl rfl)
theorem addH (h : VG e s t) (x : Handler) : VG e s (t.addH x) := h.trans (of_same _ _ rfl rfl)
theorem addGen (h : VG e s t) (g : GenRec) : VG e s (t.addGen g) := h.trans (of_same _ _ rfl rfl)
theorem addWait (h : VG e s t) (w : WaitSt) : VG e s (t.addWait w) := h.trans (of_same _ _ rfl rfl)
theorem tick1 (h : VG e s t) (d : Int) : VG e s (t.tick1 d) := h.trans (of_same _ _ rfl rfl)
theorem logE (h : VG e s t) (x : Entry) : VG e s (t.logE x) := h.trans (logE_self ..)
theorem modEv (h : VG e s t) (e' : Nat) (f : Ev → Ev)
    (hf : ∀ y : Ev, y.val.WF → (f y).val.WF ∧ Val.Ext y.val (f y).val) : VG e s (t.modEv e' f) :=
  h.trans (modEv_self _ _ _ hf)
theorem addEv (h : VG e s t) (a : Ev) (ha : a.val = {}) : VG e s (t.addEv a) := h.trans (addEv_self _ _ ha)

end VG

namespace VGx
variable {x e : Nat} {s t u : St}

theorem trans (h1 : VGx x e s t) (h2 : VG e t u) : VGx x e s u := by
  obtain ⟨es1, e1, x1⟩ := h1.hist
  obtain ⟨es2, e2, x2⟩ := h2.hist
  refine ⟨fun h => h2.wf (h1.wf h), es2 ++ es1, by rw [e2, e1, List.append_assoc], ?_⟩
  intro hw hn hx
  obtain ⟨n2, n1⟩ := nofire_append hn
  exact (x1 hw n1 hx).trans (x2 (h1.wf hw) n2)

/-- the reset of the Value of `x` in `fireRaw` -/
theorem reset (h : VGx x e s t) (f : Ev → Ev) (hf : ∀ y : Ev, (f y).val = {}) : VGx x e s (t.modEv x f) := by
  obtain ⟨es1, e1, x1⟩ := h.hist
  refine ⟨fun hw y => ?_, es1, by simpa using e1, fun hw hn hx => ?_⟩
  · rw [St.v4ev_modEv]; split
    · rw [hf]; exact Val.wf_init
    · exact h.wf hw y
  · rw [St.v4ev_modEv_ne _ _ _ _ hx]; exact x1 hw hn hx

/-- the log entry of `fireRaw` closes the bracket -/
theorem close (h : VGx x e s t) (n : Name) (ch : List Chan) (p : Int) : VG e s (t.logE (.fire x n ch p)) := by
  obtain ⟨es1, e1, x1⟩ := h.hist
  refine ⟨h.wf, .fire x n ch p :: es1, by simp [e1], fun hw hn => ?_⟩
  have hx : e ≠ x := by
    intro hex; subst hex
    exact hn n ch p (List.mem_cons_self)
  have hn1 : nofire e es1 := fun n ch p hm => hn n ch p (List.mem_cons_of_mem _ hm)
  exact x1 hw hn1 hx

end VGx

/-! ## the tactic -/

namespace VG
variable {e : Nat} {s t : St}
/-- `modEv` / `addEv` with the side condition first (for `apply`) -/
theorem modEv' {e' : Nat} {f : Ev → Ev}
    (hf : ∀ y : Ev, y.val.WF → (f y).val.WF ∧ Val.Ext y.val (f y).val) (h : VG e s t) : VG e s (t.modEv e' f) :=
  h.modEv e' f hf
theorem addEv' {a : Ev} (ha : a.val = {}) (h : VG e s t) : VG e s (t.addEv a) := h.addEv a ha
end VG

/-- closes the side condition of `VG.modEv'` for the shapes of update that occur in the model -/
syntax "vg_side" : tactic
macro_rules | `(tactic| vg_side) => `(tactic| first
  | exact fun _ hy => ⟨hy, Val.Ext.refl _⟩
  | exact fun _ hy => ⟨Val.set_wf _ _ hy, Val.Ext.set _ _ hy⟩
  | exact fun _ hy => ⟨Val.WF.setErrors hy, Val.Ext.setErrors _⟩
  | exact fun _ hy => ⟨Val.WF.setPromise hy, Val.Ext.setPromise _⟩
  | (intro y hy; (try dsimp only); split <;> exact ⟨hy, Val.Ext.refl _⟩))

/-- one step of `vg`; extended by `macro_rules` (later rules are tried first) -/
syntax "vg1" : tactic
macro_rules | `(tactic| vg1) => `(tactic| split)
macro_rules | `(tactic| vg1) => `(tactic| with_reducible apply VG.tick1)
macro_rules | `(tactic| vg1) => `(tactic| with_reducible apply VG.addWait)
macro_rules | `(tactic| vg1) => `(tactic| with_reducible apply VG.addGen)
macro_rules | `(tactic| vg1) => `(tactic| with_reducible apply VG.addH)
macro_rules | `(tactic| vg1) => `(tactic| ((with_reducible apply VG.addEv'); exact rfl))
macro_rules | `(tactic| vg1) => `(tactic| with_reducible apply VG.logE)
macro_rules | `(tactic| vg1) => `(tactic| with_reducible apply VG.setGen)
macro_rules | `(tactic| vg1) => `(tactic| with_reducible apply VG.modTimer)
macro_rules | `(tactic| vg1) => `(tactic| with_reducible apply VG.modWait)
macro_rules | `(tactic| vg1) => `(tactic| ((with_reducible apply VG.modEv'); vg_side))
macro_rules | `(tactic| vg1) => `(tactic| with_reducible apply VG.modComp)
macro_rules | `(tactic| vg1) => `(tactic| with_reducible assumption)
macro_rules | `(tactic| vg1) => `(tactic| with_reducible exact VG.refl _)

/-- apply `vg1` as long as it applies (committed choice: no backtracking) -/
macro "vg" : tactic => `(tactic| repeat' vg1)

/-- unfold a helper, inline its `let`s, then `vg` -/
macro "vg_unfold" ids:ident+ : tactic => `(tactic| (unfold $[$ids]*; (try dsimp only); vg))

theorem List.modify_length_append_singleton {α} (l : List α) (a : α) (f : α → α) :
    (l ++ [a]).modify l.length f = l ++ [f a] := by
  induction l with
  | nil => rfl
  | cons x l ih => simp [ih]

/-- the Value of the event handed to `fireTmplEv` is irrelevant: `fireRaw` replaces it -/
theorem St.v4_fireRaw_addEv (t : St) (a : Ev) (self : Nat) (chans : List Chan) (prio : Int) :
    (t.addEv a).fireRaw self t.evs.length chans prio
      = (t.addEv { a with val := {} }).fireRaw self t.evs.length chans prio := by
  have hm : ∀ f : Ev → Ev, (∀ y : Ev, f y = f { y with val := {} }) →
      (t.addEv a).modEv t.evs.length f = (t.addEv { a with val := {} }).modEv t.evs.length f := by
    intro f hf
    simp only [St.addEv, St.modEv, List.modify_length_append_singleton]
    rw [hf a]
  unfold St.fireRaw
  dsimp only
  rw [hm _ (fun _ => rfl)]


end CV.Core

import CV.Proofs.NodeTwoFw3
import CV.Proofs.NodeTwoToy
/-
C19: a toy instance of the two-party world with a *rejecting* receive firewall on B (three calls,
a six-packet "JSON") showing that the hypotheses `n2f_Hyp` are satisfiable with some call rejected
and some accepted - and with an accepted call whose handler number (rank 1) differs from its call
number (2).
-/
namespace CV
namespace Node

/-- the rejected call carries a user attribute: the refusal sends it back as `meta` -/
def n2f_toyCalls : List Ev :=
  [Ev.local "ping" [.str "x~~~y"] [],
   { Ev.local "pong" [] [("value", .null)] with attrs := [("tag", .str "t")] },
   Ev.local "ping" [] []]

/-- the attributes of the decoded event of call 1 -/
def n2f_toyAttrs1 : List (String × J) := (n2_decoded n2_toyExcl (n2_callEv n2f_toyCalls 1)).attrs

def n2f_toyCallJ (i : Nat) : J := dumpEvent n2_toyExcl (n2_callEv n2f_toyCalls i) (n2_idJ i)
/-- the handlers answer with their *handler* number: "0" for call 0, "1" for call 2; call 1 is
    refused by the firewall with `null` and the attributes of the event -/
def n2f_toyAnsJ : Nat → J
  | 0 => dumpValue n2_toyExcl (n2_idJ 0) (.bool false) (.str "0") [("seen", .bool true)]
  | 1 => dumpValue n2_toyExcl (n2_idJ 1) (.bool false) .null n2f_toyAttrs1
  | _ => dumpValue n2_toyExcl (n2_idJ 2) (.bool false) (.str "1") [("seen", .bool true)]

def n2f_toyParse (p : Bytes) : PRes :=
  if p.length ≠ 4 then .valueError
  else if p = [123, 99, 48, 125] then .parsed (n2f_toyCallJ 0)
  else if p = [123, 99, 49, 125] then .parsed (n2f_toyCallJ 1)
  else if p = [123, 99, 50, 125] then .parsed (n2f_toyCallJ 2)
  else if p = [123, 118, 48, 125] then .parsed (n2f_toyAnsJ 0)
  else if p = [123, 118, 49, 125] then .parsed (n2f_toyAnsJ 1)
  else if p = [123, 118, 50, 125] then .parsed (n2f_toyAnsJ 2)
  else .valueError

/-- B's receive firewall refuses every `pong` -/
def n2f_toyEnv : n2_Env :=
  ⟨n2_toyExcl, fun _ => true, fun _ => true, fun _ => true, fun e => e.name != "pong",
   n2f_toyParse, n2_toyDumps, n2_toyBeh⟩

example : n2f_acc n2f_toyEnv n2f_toyCalls 0 = true := by decide
example : n2f_acc n2f_toyEnv n2f_toyCalls 1 = false := by decide
example : n2f_acc n2f_toyEnv n2f_toyCalls 2 = true := by decide
example : n2f_rank n2f_toyEnv n2f_toyCalls 2 = 1 := by decide

theorem n2f_toy_acc : n2f_acc n2f_toyEnv n2f_toyCalls 0 = true ∧ n2f_acc n2f_toyEnv n2f_toyCalls 1 = false ∧
    n2f_acc n2f_toyEnv n2f_toyCalls 2 = true := by
  refine ⟨?_, ?_, ?_⟩ <;> decide

theorem n2f_toy_pkts :
    n2_callPkt n2f_toyEnv n2f_toyCalls 0 = [123, 99, 48, 125] ∧
    n2_callPkt n2f_toyEnv n2f_toyCalls 1 = [123, 99, 49, 125] ∧
    n2_callPkt n2f_toyEnv n2f_toyCalls 2 = [123, 99, 50, 125] ∧
    n2f_ansPkt n2f_toyEnv n2f_toyCalls 0 = [123, 118, 48, 125] ∧
    n2f_ansPkt n2f_toyEnv n2f_toyCalls 1 = [123, 118, 49, 125] ∧
    n2f_ansPkt n2f_toyEnv n2f_toyCalls 2 = [123, 118, 50, 125] := by
  refine ⟨?_, ?_, ?_, ?_, ?_, ?_⟩ <;> rfl

theorem n2f_toy_short (q : Bytes) (h : q.length ≠ 4) : procOf n2_toyExcl n2f_toyParse q = .valueError := by
  simp [procOf, n2f_toyParse, h]

theorem n2f_toy_good (p : Bytes) (hl : p.length = 4) (hn : TILDE ∉ p)
    (hd : procOf n2_toyExcl n2f_toyParse p = .done) : Good (procOf n2_toyExcl n2f_toyParse) p := by
  refine ⟨hn, hd, ?_, n2f_toy_short _ (by simp [hl]), n2f_toy_short _ (by simp [hl])⟩
  intro q r h hr
  apply n2f_toy_short
  have h1 := congrArg List.length h
  have h2 : r.length > 0 := List.length_pos_iff.mpr hr
  simp at h1
  omega

theorem n2f_toy_hyp : n2f_Hyp n2f_toyEnv n2f_toyCalls where
  codec := ⟨rfl, rfl, rfl⟩
  wf := by
    intro i hi
    match i, hi with
    | 0, _ => exact ⟨by decide, by decide, by decide⟩
    | 1, _ => exact ⟨by decide, by decide, by decide⟩
    | 2, _ => exact ⟨by decide, by decide, by decide⟩
  sendOk := fun _ _ => rfl
  returns := fun _ _ _ => rfl
  callParse := by
    intro i hi
    match i, hi with
    | 0, _ => rfl
    | 1, _ => rfl
    | 2, _ => rfl
  callGood := by
    intro i hi
    match i, hi with
    | 0, _ => exact n2f_toy_good _ rfl (by decide) rfl
    | 1, _ => exact n2f_toy_good _ rfl (by decide) rfl
    | 2, _ => exact n2f_toy_good _ rfl (by decide) rfl
  ansParse := by
    intro i hi
    match i, hi with
    | 0, _ => rfl
    | 1, _ => rfl
    | 2, _ => rfl
  ansGood := by
    intro i hi
    match i, hi with
    | 0, _ => exact n2f_toy_good _ rfl (by decide) rfl
    | 1, _ => exact n2f_toy_good _ rfl (by decide) rfl
    | 2, _ => exact n2f_toy_good _ rfl (by decide) rfl

/-- the theorems apply to the toy: whatever the schedule, the rejected call 1 is never dispatched -/
theorem n2f_toy_safety (sched : List n2_Step) :
    (n2_run n2f_toyEnv (n2_init n2f_toyCalls) sched).fired <+:
      [n2_expFire n2f_toyEnv n2f_toyCalls 0, n2_expFire n2f_toyEnv n2f_toyCalls 2] := by
  have h := (n2f_safety n2f_toyEnv n2f_toyCalls n2f_toy_hyp sched).1
  have e : ((List.range n2f_toyCalls.length).filter (n2f_acc n2f_toyEnv n2f_toyCalls)) = [0, 2] := by decide
  rw [e] at h
  exact h

end Node
end CV

import CV.Model.AuthTable
import CV.Proofs.Auth
/-
Helper lemmas for C20 (every shape of user table, per call): `checkAuthA` reduces to the
dict-only model `checkAuth` on the one table entry the call looked up; `runCalls` is local.
Core Lean only.
-/
namespace CV.Auth

/-- the dict-only model is the special case of a dict answer -/
theorem checkAuthA_dict (pol : Policy) (L : Leaves) (enc : Enc) (realm method : Str)
    (users : List (Str × Str)) (hdr : Option Str) :
    checkAuthA pol L enc realm method (.dict users) hdr = checkAuth pol L enc realm method users hdr := by
  cases hdr with
  | none => rfl
  | some cred =>
    simp only [checkAuthA, checkAuth, Ans.password]
    rfl

/-- the single-entry table a call's lookup amounts to -/
def entryTable (u : Str) : Option Str → List (Str × Str)
  | none => []
  | some p => [(u, p)]

theorem entryTable_lookup (u : Str) (o : Option Str) : (entryTable u o).lookup u = o := by
  cases o <;> simp [entryTable]

theorem entryTable_sub {u : Str} {o : Option Str} {v p : Str}
    (h : (entryTable u o).lookup v = some p) : v = u ∧ o = some p := by
  cases o with
  | none => simp [entryTable] at h
  | some q =>
    simp only [entryTable, List.lookup] at h
    split at h
    · rename_i hb
      simp at hb
      simp at h
      exact ⟨hb, by rw [h]⟩
    · simp at h

/-- `checkAuthA` either lets the table's exception escape or is `checkAuth` on a table all of whose
    entries the answer holds -/
theorem checkAuthA_reduce (pol : Policy) (L : Leaves) (enc : Enc) (realm method : Str) (ans : Ans)
    (hdr : Option Str) :
    checkAuthA pol L enc realm method ans hdr = .raised ∨
    ∃ t : List (Str × Str), (∀ u p, t.lookup u = some p → ans.password u = .val (some p)) ∧
      checkAuthA pol L enc realm method ans hdr = checkAuth pol L enc realm method t hdr := by
  cases hdr with
  | none => exact .inr ⟨[], by simp, rfl⟩
  | some cred =>
    cases hp : parseAuthorization L cred with
    | raised => exact .inl (by simp [checkAuthA, hp])
    | val o =>
      cases o with
      | none => exact .inr ⟨[], by simp, by simp [checkAuthA, checkAuth, hp]⟩
      | some ah =>
        cases hw : ans.password ah.username with
        | raised => exact .inl (by simp [checkAuthA, hp, hw])
        | val pw =>
          refine .inr ⟨entryTable ah.username pw, ?_, ?_⟩
          · intro u p h
            obtain ⟨rfl, rfl⟩ := entryTable_sub h
            exact hw
          · simp only [checkAuthA, checkAuth, hp, hw, entryTable_lookup]
            rfl

theorem truthyA_ok {L : Leaves} {enc : Enc} {realm method : Str} {ans : Ans} {hdr : Option Str}
    (h : (checkAuthA Policy.current L enc realm method ans hdr).truthy = some true) :
    ∃ u, checkAuthA Policy.current L enc realm method ans hdr = .ok u := by
  rcases checkAuthA_reduce Policy.current L enc realm method ans hdr with hr | ⟨t, _, ht⟩
  · rw [hr] at h; simp [Out.truthy] at h
  · rw [ht] at h ⊢
    exact truthy_ok h

theorem checkAuthA_ok {L : Leaves} {enc : Enc} {realm method : Str} {ans : Ans} {hdr : Option Str}
    {u : Str} (h : checkAuthA Policy.current L enc realm method ans hdr = .ok u) :
    ∃ cred c p, hdr = some cred ∧ credsOf L cred = some c ∧ c.username = u ∧
      ans.password u = .val (some p) ∧ Verifies L.H enc c u p realm method = true := by
  rcases checkAuthA_reduce Policy.current L enc realm method ans hdr with hr | ⟨t, hsub, ht⟩
  · rw [hr] at h; cases h
  · rw [ht] at h
    obtain ⟨cred, c, p, h1, h2, h3, h4, h5⟩ := checkAuth_ok h
    exact ⟨cred, c, p, h1, h2, h3, hsub _ _ h4, h5⟩

theorem mustAcceptA_ok {L : Leaves} {enc : Enc} {realm method : Str} {ans : Ans} {hdr : Option Str}
    {u : Str} (h : mustAcceptA L enc realm method ans hdr = some u) :
    checkAuthA Policy.current L enc realm method ans hdr = .ok u := by
  unfold mustAcceptA at h
  repeat' (split at h)
  all_goals (first | cases h | skip)
  rename_i cred _ c hc _ p hl hcond
  simp only [Bool.and_eq_true] at hcond
  simp [checkAuthA, creds_parse hc hcond.1, hl, Policy.current, verifies_check hcond.1 hcond.2]

/-- a call that ends in an exception or a refusal grants nothing -/
theorem callObs_granted {pol : Policy} {L : Leaves} {method : Str} {hdr : Option Str} {c : Call} {ans : Ans}
    (h : (callObs pol L method hdr c ans).granted = true) :
    (callOut pol L method hdr c ans).truthy = some true := by
  unfold callObs at h
  unfold callOut Call.encUsed
  cases hf : c.front <;> simp only [hf] at h ⊢
  · simpa [CallObs.granted] using h
  · simp only [CallObs.granted, basicAuthA, beq_iff_eq] at h
    split at h
    · cases h
    · assumption
    · split at h <;> cases h
  · simp only [CallObs.granted, digestAuthA, beq_iff_eq] at h
    split at h
    · cases h
    · assumption
    · cases h

theorem callObs_of_ok {pol : Policy} {L : Leaves} {method : Str} {hdr : Option Str} {c : Call} {ans : Ans}
    {u : Str} (h : callOut pol L method hdr c ans = .ok u) :
    (callObs pol L method hdr c ans).granted = true ∧
    (c.front = .check → callObs pol L method hdr c ans = .check (.ok u)) := by
  unfold callOut Call.encUsed at h
  unfold callObs
  cases hf : c.front <;> simp only [hf] at h ⊢
  · simp [h, CallObs.granted, Out.truthy]
  · simp [basicAuthA, h, CallObs.granted, Out.truthy]
  · simp [digestAuthA, h, CallObs.granted, Out.truthy]

/-- locality: the i-th entry of a run is computed from call i and its table's answer at index
    `k + i` alone (and the login before it) -/
theorem runCalls_get (pol : Policy) (L : Leaves) (method : Str) (hdr : Option Str) :
    ∀ (calls : List Call) (lg : Login) (k i : Nat) (c : Call), calls[i]? = some c →
      ∃ lgi, (runCalls pol L method hdr lg k calls)[i]? =
        some (callObs pol L method hdr c (c.table.at (k + i)),
              loginAfter lgi (callOut pol L method hdr c (c.table.at (k + i)))) := by
  intro calls
  induction calls with
  | nil => intro lg k i c h; simp at h
  | cons d ds ih =>
    intro lg k i c h
    cases i with
    | zero =>
      simp at h
      subst h
      exact ⟨lg, by simp [runCalls]⟩
    | succ j =>
      simp at h
      obtain ⟨lgi, hj⟩ := ih (loginAfter lg (callOut pol L method hdr d (d.table.at k))) (k + 1) j c h
      refine ⟨lgi, ?_⟩
      simp only [runCalls, List.getElem?_cons_succ]
      rw [hj]
      simp [Nat.add_assoc, Nat.add_comm 1 j]

theorem runCalls_length (pol : Policy) (L : Leaves) (method : Str) (hdr : Option Str) :
    ∀ (calls : List Call) (lg : Login) (k : Nat), (runCalls pol L method hdr lg k calls).length = calls.length := by
  intro calls
  induction calls with
  | nil => intro lg k; rfl
  | cons d ds ih => intro lg k; simp [runCalls, ih]

end CV.Auth

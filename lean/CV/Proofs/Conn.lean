import CV.Proofs.ConnPoller
import CV.Model.ConnSpec
/-
Helper lemmas for C12: the invariant of the server × poller composition (`CInv`: every table
mentions only connected sockets, connected sockets are open), the simulation between the model
and the observer of ConnSpec (`Rel`), and their preservation by every handler (`Ok`).
-/
namespace CV
namespace Conn
open Poller (Obj upd Good Shrink upd_apply upd_same upd_other)

structure CInv (s : State) : Prop where
  G : Good s.p
  L : ∀ o, (o ∈ s.p.read ∨ o ∈ s.p.write) → o ∈ s.clients
  B : ∀ o, (s.buffers o).isSome = true → o ∈ s.clients
  Q : ∀ o, o ∈ s.closeq → o ∈ s.clients
  O : ∀ o, o ∈ s.clients → (s.p.w.fno o).isSome = true
  C : ∀ o, (s.p.w.fno o).isSome = true → o ∈ s.clients
  ND : s.clients.Nodup
  NQ : s.closeq.Nodup
  J : ∀ o, o ∈ s.objs → (s.p.w.orig o).isSome = true

structure Rel (s : State) (σ : Spec) : Prop where
  conn : ∀ o, σ.ph o = .conn ↔ o ∈ s.clients
  idle : ∀ o, σ.ph o = .idle ↔ s.p.w.orig o = none
  pend : σ.pend = []

theorem CInv.init (k : Poller.Kind) : CInv (State.init k) := by
  constructor <;> simp [State.init, Poller.State.init, Poller.World.init]
  exact Good.init k

theorem Rel.init (k : Poller.Kind) : Rel (State.init k) {} := by
  constructor <;> simp [State.init, Poller.State.init, Poller.World.init]

/-! ### running the observer over a list of observations -/

def specAdv (σ : Spec) (es : List Obs) : Spec := es.foldl Spec.advance σ

theorem specAdv_append (σ : Spec) (a b : List Obs) : specAdv σ (a ++ b) = specAdv (specAdv σ a) b := by
  simp [specAdv, List.foldl_append]

theorem specFail_append (σ : Spec) (a b : List Obs) (h : specFail σ a = none) :
    specFail σ (a ++ b) = specFail (specAdv σ a) b := by
  induction a generalizing σ with
  | nil => rfl
  | cons x a ih =>
    simp only [specFail, List.cons_append] at h ⊢
    cases hx : obsFail σ x with
    | some c => simp [hx] at h
    | none =>
      simp only [hx] at h ⊢
      exact ih _ h

/-- the observer accepts the observations of `r` and ends related to its state -/
structure Ok (σ : Spec) (r : State × List Obs) : Prop where
  spec : specFail σ r.2 = none
  inv : CInv r.1
  rel : Rel r.1 (specAdv σ r.2)

theorem Ok.nil {s : State} {σ : Spec} (c : CInv s) (r : Rel s σ) : Ok σ (s, []) := ⟨rfl, c, r⟩

theorem Ok.bind {σ : Spec} {r1 : State × List Obs} {r2 : State × List Obs}
    (a : Ok σ r1) (b : Ok (specAdv σ r1.2) r2) : Ok σ (r2.1, r1.2 ++ r2.2) := by
  refine ⟨?_, b.inv, ?_⟩
  · show specFail σ (r1.2 ++ r2.2) = none
    rw [specFail_append _ _ _ a.spec]; exact b.spec
  · show Rel r2.1 (specAdv σ (r1.2 ++ r2.2))
    rw [specAdv_append]; exact b.rel

/-- observations that do not concern the observer's automaton (socket calls that deliver nothing) -/
def silent : Obs → Bool
  | .sent _ _ _ => true
  | .sclosed _ => true
  | .recvd _ (.data (_ :: _)) => false
  | .recvd _ _ => true
  | _ => false

theorem silent_step {σ : Spec} {x : Obs} (h : silent x = true) : obsFail σ x = none ∧ σ.advance x = σ := by
  cases x with
  | recvd o r =>
    cases r with
    | data d => cases d <;> simp_all [silent, obsFail, Spec.advance]
    | _ => simp [obsFail, Spec.advance]
  | _ => simp_all [silent, obsFail, Spec.advance]

theorem Ok.cons_silent {σ : Spec} {x : Obs} {r : State × List Obs} (h : silent x = true) (a : Ok σ r) :
    Ok σ (r.1, x :: r.2) := by
  obtain ⟨h1, h2⟩ := silent_step (σ := σ) h
  refine ⟨?_, a.inv, ?_⟩
  · simp only [specFail, h1, h2]; exact a.spec
  · simp only [specAdv, List.foldl_cons, h2]; exact a.rel

/-! ### small frames -/

theorem cinv_buf {s : State} (c : CInv s) {o : Obj} (ho : o ∈ s.clients) (v : Option (List Nat)) :
    CInv { s with buffers := upd s.buffers o v } := by
  obtain ⟨G, L, B, Q, O, C, ND, NQ, J⟩ := c
  constructor <;> try assumption
  intro a ha
  simp only [upd_apply] at ha
  split at ha
  · next e => subst e; exact ho
  · exact B a ha

theorem rel_of_eq {s s' : State} {σ : Spec} (r : Rel s σ) (a : s'.clients = s.clients) (b : s'.p.w = s.p.w) :
    Rel s' σ := by
  obtain ⟨c, i, p⟩ := r
  constructor
  · intro o; rw [a]; exact c o
  · intro o; rw [b]; exact i o
  · exact p

theorem cinv_closeq_append {s : State} (c : CInv s) {o : Obj} (ho : o ∈ s.clients) (hn : o ∉ s.closeq) :
    CInv { s with closeq := s.closeq ++ [o] } := by
  obtain ⟨G, L, B, Q, O, C, ND, NQ, J⟩ := c
  constructor <;> try assumption
  · intro a ha
    simp only [List.mem_append, List.mem_singleton] at ha
    rcases ha with h | h
    · exact Q a h
    · subst h; exact ho
  · show (s.closeq ++ [o]).Nodup
    rw [List.nodup_append]
    refine ⟨NQ, by simp, ?_⟩
    intro a ha b hb
    simp only [List.mem_singleton] at hb
    subst hb; intro e; subst e; exact hn ha

theorem cinv_closeq_erase {s : State} (c : CInv s) (o : Obj) :
    CInv { s with closeq := s.closeq.erase o } := by
  obtain ⟨G, L, B, Q, O, C, ND, NQ, J⟩ := c
  constructor <;> try assumption
  · intro a ha; exact Q a (List.mem_of_mem_erase ha)
  · exact NQ.erase o

/-- replacing the poller by one that lists nothing new and sees the same world -/
theorem cinv_poller {s : State} (c : CInv s) {p' : Poller.State} (g : Good p') (sh : Shrink s.p p' none) :
    CInv { s with p := p' } := by
  obtain ⟨G, L, B, Q, O, C, ND, NQ, J⟩ := c
  constructor <;> try assumption
  · intro a ha
    apply L
    rcases ha with h | h
    · rcases sh.rd a h with x | x
      · exact Or.inl x
      · simp at x
    · rcases sh.wr a h with x | x
      · exact Or.inr x
      · simp at x
  · intro a ha; show (p'.w.fno a).isSome = true; rw [sh.w]; exact O a ha
  · intro a ha; have ha' : (p'.w.fno a).isSome = true := ha; rw [sh.w] at ha'; exact C a ha'
  · intro a ha; show (p'.w.orig a).isSome = true; rw [sh.w]; exact J a ha

theorem cinv_poller_add {s : State} (c : CInv s) {p' : Poller.State} {o : Obj} (ho : o ∈ s.clients)
    (g : Good p') (sh : Shrink s.p p' (some o)) : CInv { s with p := p' } := by
  obtain ⟨G, L, B, Q, O, C, ND, NQ, J⟩ := c
  constructor <;> try assumption
  · intro a ha
    rcases ha with h | h
    · rcases sh.rd a h with x | x
      · exact L a (Or.inl x)
      · simp at x; subst x; exact ho
    · rcases sh.wr a h with x | x
      · exact L a (Or.inr x)
      · simp at x; subst x; exact ho
  · intro a ha; show (p'.w.fno a).isSome = true; rw [sh.w]; exact O a ha
  · intro a ha; have ha' : (p'.w.fno a).isSome = true := ha; rw [sh.w] at ha'; exact C a ha'
  · intro a ha; show (p'.w.orig a).isSome = true; rw [sh.w]; exact J a ha

/-! ### `_close` -/

theorem ok_closeConn {s : State} {σ : Spec} (o : Obj) (c : CInv s) (r : Rel s σ) : Ok σ (closeConn s o) := by
  unfold closeConn
  split
  · next ho =>
    obtain ⟨f, hf⟩ := Option.isSome_iff_exists.mp (c.O o ho)
    obtain ⟨g1, s1, n1, n2⟩ := Poller.good_discard c.G hf
    have hf1 : (Poller.step s.p (.discard o)).1.w.fno o = some f := by rw [s1.w]; exact hf
    obtain ⟨g2, e1, e2, e3⟩ := Poller.good_close g1 hf1
    have hph : σ.ph o = .conn := (r.conn o).mpr ho
    have horig : s.p.w.orig o = some f := c.G.P.W.orig _ _ hf
    obtain ⟨G, L, B, Q, O, C, ND, NQ, J⟩ := c
    refine ⟨?_, ?_, ?_⟩
    · simp [specFail, obsFail, Spec.advance, hph]
    · constructor
      · exact g2
      · intro a ha
        show a ∈ s.clients.erase o
        rw [e1, e2] at ha
        have hne : a ≠ o := by
          intro e; subst e
          rcases ha with h | h
          · exact n1 h
          · exact n2 h
        have : a ∈ s.clients := by
          apply L
          rcases ha with h | h
          · rcases s1.rd a h with x | x
            · exact Or.inl x
            · simp at x
          · rcases s1.wr a h with x | x
            · exact Or.inr x
            · simp at x
        exact (List.mem_erase_of_ne hne).mpr this
      · intro a ha
        show a ∈ s.clients.erase o
        simp only [upd_apply] at ha
        split at ha
        · simp at ha
        · next ne => exact (List.mem_erase_of_ne ne).mpr (B a ha)
      · intro a ha
        show a ∈ s.clients.erase o
        have : a ∈ s.closeq.erase o := ha
        have hne : a ≠ o := fun e => by subst e; exact (List.Nodup.not_mem_erase NQ) this
        exact (List.mem_erase_of_ne hne).mpr (Q a (List.mem_of_mem_erase this))
      · intro a ha
        have ha' : a ∈ s.clients.erase o := ha
        have hne : a ≠ o := fun e => by subst e; exact (List.Nodup.not_mem_erase ND) ha'
        show ((Poller.step (Poller.step s.p (.discard o)).1 (.close o)).1.w.fno a).isSome = true
        rw [e3, s1.w]
        simp only [Poller.World.close, upd_other _ _ _ _ hne]
        exact O a (List.mem_of_mem_erase ha')
      · intro a ha
        have ha' : ((Poller.step (Poller.step s.p (.discard o)).1 (.close o)).1.w.fno a).isSome = true := ha
        rw [e3, s1.w] at ha'
        simp only [Poller.World.close, upd_apply] at ha'
        show a ∈ s.clients.erase o
        split at ha'
        · simp at ha'
        · next ne => exact (List.mem_erase_of_ne ne).mpr (C a ha')
      · exact ND.erase o
      · exact NQ.erase o
      · intro a ha
        show ((Poller.step (Poller.step s.p (.discard o)).1 (.close o)).1.w.orig a).isSome = true
        rw [e3, s1.w]
        exact J a ha
    · have adv : specAdv σ [Obs.sclosed o, Obs.disconnect o] = { σ with ph := upd σ.ph o .gone } := by
        simp [specAdv, Spec.advance]
      rw [adv]
      constructor
      · intro a
        show upd σ.ph o Phase.gone a = .conn ↔ a ∈ s.clients.erase o
        simp only [upd_apply]
        split
        · next e => subst e; simp [List.Nodup.not_mem_erase ND]
        · next ne => rw [List.mem_erase_of_ne ne]; exact r.conn a
      · intro a
        show upd σ.ph o Phase.gone a = .idle ↔ (Poller.step (Poller.step s.p (.discard o)).1 (.close o)).1.w.orig a = none
        rw [e3, s1.w]
        simp only [upd_apply, Poller.World.close]
        split
        · next e => subst e; simp [horig]
        · exact r.idle a
      · exact r.pend
  · exact Ok.nil c r

/-- the `close` handler for one socket -/
theorem ok_closeReq {s : State} {σ : Spec} (o : Obj) (c : CInv s) (r : Rel s σ) : Ok σ (closeReq s o) := by
  unfold closeReq
  split
  · next x y hb =>
    have ho : o ∈ s.clients := c.B o (by simp [hb])
    split
    · exact Ok.nil c r
    · next hn => exact Ok.nil (cinv_closeq_append c ho hn) (rel_of_eq r rfl rfl)
  · exact ok_closeConn o c r

/-! ### `_read` -/

theorem ok_onRead {s : State} {σ : Spec} (o : Obj) (rc : RecvOut) (c : CInv s) (r : Rel s σ) :
    Ok σ (onRead s o rc) := by
  unfold onRead
  split
  · next ho =>
    have hph : σ.ph o = .conn := (r.conn o).mpr ho
    split
    · next b d =>
      refine ⟨?_, c, ?_⟩
      · simp [specFail, obsFail, Spec.advance, hph, r.pend, popPend]
      · have adv : specAdv σ [Obs.recvd o (.data (b :: d)), Obs.read o (b :: d)] = σ := by
          have hp := r.pend
          cases σ
          simp only at hp
          subst hp
          simp [specAdv, Spec.advance, popPend]
        rw [adv]; exact r
    · exact Ok.cons_silent (by simp [silent]) (ok_closeReq o c r)
    · exact Ok.cons_silent (by simp [silent]) (ok_closeReq o c r)
    · exact Ok.cons_silent (x := .recvd o .again) (r := (s, [])) (by simp [silent]) (Ok.nil c r)
    · -- recv error: `error` event, then `_close`
      have h1 : Ok σ (s, [Obs.recvd o .err, Obs.error o]) := by
        refine ⟨?_, c, ?_⟩
        · simp [specFail, obsFail, Spec.advance, hph]
        · have adv : specAdv σ [Obs.recvd o .err, Obs.error o] = σ := by
            simp [specAdv, Spec.advance, hph]
          rw [adv]; exact r
      exact Ok.bind h1 (ok_closeConn o h1.inv h1.rel)
  · exact Ok.nil c r

/-! ### `_write` -/

theorem ok_sendOne {s : State} {σ : Spec} (o : Obj) (n : Nat) (sr : SendOut) (c : CInv s) (r : Rel s σ) :
    Ok σ (sendOne s o n sr) := by
  unfold sendOne
  split
  · next ho =>
    have hph : σ.ph o = .conn := (r.conn o).mpr ho
    split
    · next k =>
      split
      · exact Ok.cons_silent (r := (_, [])) (by simp [silent]) (Ok.nil (cinv_buf c ho _) (rel_of_eq r rfl rfl))
      · exact Ok.cons_silent (r := (_, [])) (by simp [silent]) (Ok.nil c r)
    · exact Ok.cons_silent (r := (_, [])) (by simp [silent]) (Ok.nil (cinv_buf c ho _) (rel_of_eq r rfl rfl))
    · have h1 : Ok σ (s, [Obs.sent o n .fatal, Obs.error o]) := by
        refine ⟨?_, c, ?_⟩
        · simp [specFail, obsFail, Spec.advance, hph]
        · have adv : specAdv σ [Obs.sent o n .fatal, Obs.error o] = σ := by
            simp [specAdv, Spec.advance, hph]
          rw [adv]; exact r
      exact Ok.bind h1 (ok_closeConn o h1.inv h1.rel)
  · exact Ok.nil c r

theorem ok_afterWrite {s : State} {σ : Spec} (o : Obj) (c : CInv s) (r : Rel s σ) : Ok σ (afterWrite s o) := by
  unfold afterWrite
  split
  · exact Ok.nil c r
  · split
    · exact ok_closeConn o (cinv_closeq_erase c o) (rel_of_eq r rfl rfl)
    · split
      · next hw =>
        have ho : o ∈ s.clients := c.L o (Or.inr (by simpa [Poller.State.isWriting] using hw))
        obtain ⟨f, hf⟩ := Option.isSome_iff_exists.mp (c.O o ho)
        obtain ⟨g1, s1⟩ := Poller.good_removeWriter c.G hf
        exact Ok.nil (cinv_poller c g1 s1) (rel_of_eq r rfl s1.w)
      · exact Ok.nil c r

theorem ok_onWrite {s : State} {σ : Spec} (o : Obj) (sr : SendOut) (c : CInv s) (r : Rel s σ) :
    Ok σ (onWrite s o sr) := by
  unfold onWrite
  split
  · next n rest hb =>
    have ho : o ∈ s.clients := c.B o (by simp [hb])
    have h1 := ok_sendOne (σ := σ) o n sr (cinv_buf c ho (some rest)) (rel_of_eq r rfl rfl)
    exact Ok.bind h1 (ok_afterWrite o h1.inv h1.rel)
  · exact ok_afterWrite o c r

/-! ### a round -/

theorem ok_handle {s : State} {σ : Spec} (rcv : Obj → RecvOut) (snd : Obj → SendOut) (e : Poller.Event)
    (c : CInv s) (r : Rel s σ) : Ok σ (handle rcv snd s e) := by
  unfold handle
  split
  · exact ok_onRead _ _ c r
  · exact ok_onWrite _ _ c r
  · exact ok_closeConn _ c r

theorem ok_handleAll {s : State} {σ : Spec} (rcv : Obj → RecvOut) (snd : Obj → SendOut) (es : List Poller.Event)
    (c : CInv s) (r : Rel s σ) : Ok σ (handleAll rcv snd s es) := by
  induction es generalizing s σ with
  | nil => exact Ok.nil c r
  | cons e es ih =>
    simp only [handleAll]
    have h1 := ok_handle (σ := σ) rcv snd e c r
    exact Ok.bind h1 (ih h1.inv h1.rel)

/-! ### the ops -/

theorem canOpen_fresh {s : State} (c : CInv s) {o : Obj} {f : Nat} (h : s.p.w.canOpen o f = true) :
    s.p.w.orig o = none ∧ s.p.w.fno o = none ∧ o ∉ s.clients ∧ o ∉ s.objs := by
  simp only [Poller.World.canOpen, Bool.and_eq_true, Option.isNone_iff_eq_none] at h
  have hf : s.p.w.fno o = none := by
    cases hh : s.p.w.fno o with
    | none => rfl
    | some f' => have := c.G.P.W.orig _ _ hh; simp_all
  refine ⟨h.1, hf, ?_, ?_⟩
  · intro ho; have := c.O o ho; simp [hf] at this
  · intro ho; have := c.J o ho; simp [h.1] at this

theorem ok_stepCore {s : State} {σ : Spec} (op : Op) (c : CInv s) (r : Rel s σ) : Ok σ (stepCore s op) := by
  cases op with
  | accept o f gone =>
    simp only [stepCore]
    split
    · next hc =>
      obtain ⟨horig, hfno, hncl, hnobj⟩ := canOpen_fresh c hc
      obtain ⟨g1, e1, e2, e3⟩ := Poller.good_opn c.G hc
      have hf1 : (Poller.step s.p (.opn o f)).1.w.fno o = some f := by
        rw [e3]; simp [Poller.World.opn]
      have hidle : σ.ph o = .idle := (r.idle o).mpr horig
      have opn_fno : ∀ a, a ≠ o → (s.p.w.opn o f).fno a = s.p.w.fno a := by
        intro a ne; simp [Poller.World.opn, upd_other _ _ _ _ ne]
      have opn_orig : ∀ a, a ≠ o → (s.p.w.opn o f).orig a = s.p.w.orig a := by
        intro a ne; simp [Poller.World.opn, upd_other _ _ _ _ ne]
      have opn_orig_o : (s.p.w.opn o f).orig o = some f := by simp [Poller.World.opn]
      obtain ⟨G, L, B, Q, O, C, ND, NQ, J⟩ := c
      split
      · -- the peer is already gone: error, close; the socket is never in any table
        obtain ⟨g2, c1, c2, c3⟩ := Poller.good_close g1 hf1
        refine ⟨?_, ?_, ?_⟩
        · simp [specFail, obsFail, hidle]
        · constructor
          · exact g2
          · intro a ha; rw [c1, c2, e1, e2] at ha; exact L a ha
          · exact B
          · exact Q
          · intro a ha
            have ne : a ≠ o := fun e => hncl (e ▸ ha)
            show ((Poller.step (Poller.step s.p (.opn o f)).1 (.close o)).1.w.fno a).isSome = true
            rw [c3, e3]; simp only [Poller.World.close, upd_other _ _ _ _ ne, opn_fno a ne]; exact O a ha
          · intro a ha
            have ha' : ((Poller.step (Poller.step s.p (.opn o f)).1 (.close o)).1.w.fno a).isSome = true := ha
            rw [c3, e3] at ha'
            simp only [Poller.World.close, upd_apply] at ha'
            split at ha'
            · simp at ha'
            · next ne => rw [opn_fno a ne] at ha'; exact C a ha'
          · exact ND
          · exact NQ
          · intro a ha
            show ((Poller.step (Poller.step s.p (.opn o f)).1 (.close o)).1.w.orig a).isSome = true
            rw [c3, e3]
            simp only [List.mem_append, List.mem_singleton] at ha
            show ((s.p.w.opn o f).orig a).isSome = true
            rcases ha with h | h
            · have ne : a ≠ o := fun e => hnobj (e ▸ h)
              rw [opn_orig a ne]; exact J a h
            · subst h; simp [opn_orig_o]
        · have adv : specAdv σ [Obs.error o, Obs.sclosed o] = { σ with ph := upd σ.ph o .rej } := by
            simp [specAdv, Spec.advance, hidle]
          rw [adv]
          constructor
          · intro a
            show upd σ.ph o Phase.rej a = .conn ↔ a ∈ s.clients
            simp only [upd_apply]
            split
            · next e => subst e; simp [hncl]
            · exact r.conn a
          · intro a
            show upd σ.ph o Phase.rej a = .idle ↔ (Poller.step (Poller.step s.p (.opn o f)).1 (.close o)).1.w.orig a = none
            rw [c3, e3]
            show _ ↔ (s.p.w.opn o f).orig a = none
            simp only [upd_apply]
            split
            · next e => subst e; simp [opn_orig_o]
            · next ne => rw [opn_orig a ne]; exact r.idle a
          · exact r.pend
      · -- announced: addReader, `_clients.append`, connect
        obtain ⟨g2, sh⟩ := Poller.good_addReader srvChan g1 hf1
        refine ⟨?_, ?_, ?_⟩
        · simp [specFail, obsFail, hidle]
        · constructor
          · exact g2
          · intro a ha
            show a ∈ s.clients ++ [o]
            simp only [List.mem_append, List.mem_singleton]
            rcases ha with h | h
            · rcases sh.rd a h with x | x
              · rw [e1] at x; exact Or.inl (L a (Or.inl x))
              · simp at x; exact Or.inr x
            · rcases sh.wr a h with x | x
              · rw [e2] at x; exact Or.inl (L a (Or.inr x))
              · simp at x; exact Or.inr x
          · intro a ha; show a ∈ s.clients ++ [o]; simp [B a ha]
          · intro a ha; show a ∈ s.clients ++ [o]; simp [Q a ha]
          · intro a ha
            have ha' : a ∈ s.clients ++ [o] := ha
            show ((Poller.step (Poller.step s.p (.opn o f)).1 (.addReader o srvChan)).1.w.fno a).isSome = true
            rw [sh.w, e3]
            simp only [List.mem_append, List.mem_singleton] at ha'
            rcases ha' with h | h
            · have ne : a ≠ o := fun e => hncl (e ▸ h)
              rw [opn_fno a ne]; exact O a h
            · subst h; simp [Poller.World.opn]
          · intro a ha
            have ha' : ((Poller.step (Poller.step s.p (.opn o f)).1 (.addReader o srvChan)).1.w.fno a).isSome = true := ha
            rw [sh.w, e3] at ha'
            show a ∈ s.clients ++ [o]
            by_cases ne : a = o
            · simp [ne]
            · rw [opn_fno a ne] at ha'; simp [C a ha']
          · show (s.clients ++ [o]).Nodup
            rw [List.nodup_append]
            refine ⟨ND, by simp, ?_⟩
            intro a ha b hb
            simp only [List.mem_singleton] at hb
            subst hb; intro e; subst e; exact hncl ha
          · exact NQ
          · intro a ha
            show ((Poller.step (Poller.step s.p (.opn o f)).1 (.addReader o srvChan)).1.w.orig a).isSome = true
            rw [sh.w, e3]
            have ha' : a ∈ s.objs ++ [o] := ha
            simp only [List.mem_append, List.mem_singleton] at ha'
            rcases ha' with h | h
            · have ne : a ≠ o := fun e => hnobj (e ▸ h)
              rw [opn_orig a ne]; exact J a h
            · subst h; simp [opn_orig_o]
        · have adv : specAdv σ [Obs.connect o] = { σ with ph := upd σ.ph o .conn } := by
            simp [specAdv, Spec.advance]
          rw [adv]
          constructor
          · intro a
            show upd σ.ph o Phase.conn a = .conn ↔ a ∈ s.clients ++ [o]
            simp only [upd_apply, List.mem_append, List.mem_singleton]
            split
            · next e => subst e; simp
            · next ne => rw [r.conn a]; simp [ne]
          · intro a
            show upd σ.ph o Phase.conn a = .idle ↔ (Poller.step (Poller.step s.p (.opn o f)).1 (.addReader o srvChan)).1.w.orig a = none
            rw [sh.w, e3]
            simp only [upd_apply]
            split
            · next e => subst e; simp [opn_orig_o]
            · next ne => rw [opn_orig a ne]; exact r.idle a
          · exact r.pend
    · exact Ok.nil c r
  | write o n =>
    simp only [stepCore]
    split
    · next ho =>
      obtain ⟨f, hf⟩ := Option.isSome_iff_exists.mp (c.O o ho)
      split
      · exact Ok.nil (cinv_buf c ho _) (rel_of_eq r rfl rfl)
      · obtain ⟨g1, sh⟩ := Poller.good_addWriter srvChan c.G hf
        have c1 := cinv_poller_add c ho g1 sh
        exact Ok.nil (cinv_buf (s := { s with p := (Poller.step s.p (.addWriter o srvChan)).1 }) c1 ho _)
          (rel_of_eq r rfl sh.w)
    · exact Ok.nil c r
  | close o => exact ok_closeReq o c r
  | hangup o => exact ok_closeConn o c r
  | poll fs rd rcv snd =>
    simp only [stepCore]
    split
    · obtain ⟨g1, sh⟩ := Poller.good_round fs rd c.G
      exact ok_handleAll rcv snd _ (cinv_poller c g1 sh) (rel_of_eq r rfl sh.w)
    · exact Ok.nil c r


/-! ### the tables at the end of an op -/

theorem bits_lt (b1 b2 b3 b4 b5 b6 b7 : Bool) :
    bit b1 1 + bit b2 2 + bit b3 4 + bit b4 8 + bit b5 16 + bit b6 32 + bit b7 64 < 128 := by
  revert b1 b2 b3 b4 b5 b6 b7; decide

theorem tbits_lt (s : State) (o : Obj) : tbits s o < 128 := bits_lt _ _ _ _ _ _ _

theorem inMap_false {s : State} (c : CInv s) {o : Obj} (h : o ∉ s.clients) : inMap s.p o = false := by
  unfold inMap
  split
  · next f hf =>
    cases hm : (s.p.map f == some o) with
    | false => rfl
    | true =>
      have : s.p.map f = some o := by simpa using hm
      exact absurd (c.L o (c.G.M f o this).2) h
  · rfl

/-- a socket that is not connected is in no table -/
theorem no_table {s : State} (c : CInv s) {o : Obj} (h : o ∉ s.clients) :
    s.buffers o = none ∧ o ∉ s.closeq ∧ o ∉ s.p.read ∧ o ∉ s.p.write ∧ s.p.targets o = none ∧
    (∀ f, s.p.map f ≠ some o) := by
  have hr : o ∉ s.p.read := fun x => h (c.L o (Or.inl x))
  have hw : o ∉ s.p.write := fun x => h (c.L o (Or.inr x))
  refine ⟨?_, fun x => h (c.Q o x), hr, hw, c.G.P.T2 o hr hw, ?_⟩
  · cases hb : s.buffers o with
    | none => rfl
    | some v => exact absurd (c.B o (by simp [hb])) h
  · intro f hm
    exact h (c.L o (c.G.M f o hm).2)

theorem tbits_zero {s : State} (c : CInv s) {o : Obj} (h : o ∉ s.clients) : tbits s o = 0 := by
  obtain ⟨a1, a2, a3, a4, a5, _⟩ := no_table c h
  simp [tbits, bit, h, a1, a2, a3, a4, a5, inMap_false c h]

theorem tab_ok {s : State} {σ : Spec} (c : CInv s) (r : Rel s σ) : obsFail σ (.tab (rows s)) = none := by
  simp only [obsFail, r.pend, ne_eq, not_true_eq_false, if_false]
  rw [List.findSome?_eq_none_iff]
  intro row hrow
  simp only [rows, List.mem_map] at hrow
  obtain ⟨o, ho, rfl⟩ := hrow
  have hk : σ.ph o ≠ .idle := by
    intro e
    have := (r.idle o).mp e
    have := c.J o ho
    simp_all
  unfold rowFail
  have lt := tbits_lt s o
  by_cases hc : o ∈ s.clients
  · have hph : σ.ph o = .conn := (r.conn o).mpr hc
    obtain ⟨f, hf⟩ := Option.isSome_iff_exists.mp (c.O o hc)
    have e : flags s o = tbits s o := by simp [flags, bit, hf]
    have ncl : closedBit (flags s o) = false := by
      simp only [closedBit, e, decide_eq_false_iff_not]; omega
    simp [hph, ncl]
  · have hph : σ.ph o ≠ .conn := fun e => hc ((r.conn o).mp e)
    have z := tbits_zero c hc
    have tb : tableBits (flags s o) = 0 := by
      simp only [tableBits, flags, z, bit]; split <;> simp
    simp [tb, hph, hk]

theorem ok_step {s : State} {σ : Spec} (op : Op) (c : CInv s) (r : Rel s σ) : Ok σ (step s op) := by
  have h1 := ok_stepCore (σ := σ) op c r
  have h2 : Ok (specAdv σ (stepCore s op).2) ((stepCore s op).1, [Obs.tab (rows (stepCore s op).1)]) := by
    refine ⟨?_, h1.inv, ?_⟩
    · simp only [specFail, tab_ok h1.inv h1.rel]
    · simp only [specAdv, List.foldl_cons, List.foldl_nil, Spec.advance]; exact h1.rel
  exact Ok.bind h1 h2

theorem ok_runFrom {s : State} {σ : Spec} (ops : List Op) (c : CInv s) (r : Rel s σ) : Ok σ (runFrom s ops) := by
  induction ops generalizing s σ with
  | nil => exact Ok.nil c r
  | cons op ops ih =>
    simp only [runFrom]
    have h1 := ok_step (σ := σ) op c r
    exact Ok.bind h1 (ih h1.inv h1.rel)

theorem ok_run (k : Poller.Kind) (ops : List Op) : Ok {} (run k ops) :=
  ok_runFrom ops (CInv.init k) (Rel.init k)

/-! ### once closed, for ever closed; a disconnect closes -/

theorem runFrom_append (s : State) (a b : List Op) :
    runFrom s (a ++ b) = ((runFrom (runFrom s a).1 b).1, (runFrom s a).2 ++ (runFrom (runFrom s a).1 b).2) := by
  induction a generalizing s with
  | nil => simp [runFrom]
  | cons x a ih => simp only [List.cons_append, runFrom, ih, List.append_assoc]

/-- the observer's phase `gone`/`rej` is final -/
theorem advance_final (σ : Spec) (x : Obs) (o : Obj) (h : σ.ph o = .gone ∨ σ.ph o = .rej)
    (hx : obsFail σ x = none) : (σ.advance x).ph o = σ.ph o := by
  cases x with
  | connect a =>
    by_cases e : o = a
    · subst e; rcases h with h | h <;> simp [obsFail, h] at hx
    · simp [Spec.advance, e]
  | disconnect a =>
    by_cases e : o = a
    · subst e; rcases h with h | h <;> simp [obsFail, h] at hx
    · simp [Spec.advance, e]
  | error a =>
    by_cases e : o = a
    · subst e; rcases h with h | h <;> simp [obsFail, h] at hx
    · simp only [Spec.advance]; split <;> simp [e]
  | read a d => simp only [Spec.advance]; split <;> rfl
  | recvd a rc =>
    cases rc with
    | data d => cases d <;> simp [Spec.advance]
    | _ => simp [Spec.advance]
  | sent a n rs => simp [Spec.advance]
  | sclosed a => simp [Spec.advance]
  | tab rows => simp [Spec.advance]

theorem specAdv_final (σ : Spec) (es : List Obs) (o : Obj) (h : σ.ph o = .gone ∨ σ.ph o = .rej)
    (hs : specFail σ es = none) : (specAdv σ es).ph o = σ.ph o := by
  induction es generalizing σ with
  | nil => rfl
  | cons x es ih =>
    simp only [specFail] at hs
    cases hx : obsFail σ x with
    | some c => simp [hx] at hs
    | none =>
      simp only [hx] at hs
      have a := advance_final σ x o h hx
      simp only [specAdv, List.foldl_cons]
      have := ih (σ.advance x) (by rw [a]; exact h) hs
      simp only [specAdv] at this
      rw [this, a]

/-- after an accepted stream that contains `disconnect o`, the observer has `o` in phase `gone` -/
theorem gone_after_disconnect (σ : Spec) (es : List Obs) (o : Obj) (hs : specFail σ es = none)
    (hm : Obs.disconnect o ∈ es) : (specAdv σ es).ph o = .gone := by
  induction es generalizing σ with
  | nil => simp at hm
  | cons x es ih =>
    simp only [specFail] at hs
    cases hx : obsFail σ x with
    | some c => simp [hx] at hs
    | none =>
      simp only [hx] at hs
      simp only [specAdv, List.foldl_cons]
      rcases List.mem_cons.mp hm with e | e
      · subst e
        have g : (σ.advance (Obs.disconnect o)).ph o = .gone := by simp [Spec.advance]
        have := specAdv_final (σ.advance (Obs.disconnect o)) es o (Or.inl g) hs
        simp only [specAdv] at this
        rw [this, g]
      · exact ih (σ.advance x) hs e


/-! ### what the automaton means for the `connect`/`disconnect` events of one socket -/

/-- the `connect`/`disconnect` events of socket `o`, in order -/
def lifeOf (o : Obj) (t : List Obs) : List Obs :=
  t.filter (fun x => decide (x = .connect o) || decide (x = .disconnect o))

def allowedLife (ph : Phase) (o : Obj) : List (List Obs) :=
  match ph with
  | .idle => [[], [.connect o], [.connect o, .disconnect o]]
  | .conn => [[], [.disconnect o]]
  | _ => [[]]

theorem life_ok (σ : Spec) (es : List Obs) (o : Obj) (hs : specFail σ es = none) :
    lifeOf o es ∈ allowedLife (σ.ph o) o := by
  induction es generalizing σ with
  | nil => cases h : σ.ph o <;> simp [lifeOf, allowedLife]
  | cons x es ih =>
    simp only [specFail] at hs
    cases hx : obsFail σ x with
    | some c => simp [hx] at hs
    | none =>
      simp only [hx] at hs
      have ih' := ih (σ.advance x) hs
      cases x with
      | connect a =>
        by_cases e : a = o
        · subst e
          cases hp : σ.ph a <;> simp [obsFail, hp] at hx
          have : (σ.advance (Obs.connect a)).ph a = .conn := by simp [Spec.advance]
          rw [this] at ih'
          simp only [lifeOf, allowedLife, List.mem_cons, List.mem_singleton, List.not_mem_nil, or_false] at ih' ⊢
          simp only [List.filter_cons, decide_true, Bool.true_or, if_true]
          rcases ih' with h | h <;> simp [h]
        · have : (σ.advance (Obs.connect a)).ph o = σ.ph o := by simp [Spec.advance, upd_apply, Ne.symm e]
          rw [this] at ih'
          have : lifeOf o (Obs.connect a :: es) = lifeOf o es := by simp [lifeOf, List.filter_cons, e]
          rw [this]; exact ih'
      | disconnect a =>
        by_cases e : a = o
        · subst e
          cases hp : σ.ph a <;> simp [obsFail, hp] at hx
          have : (σ.advance (Obs.disconnect a)).ph a = .gone := by simp [Spec.advance]
          rw [this] at ih'
          simp only [lifeOf, allowedLife, List.mem_cons, List.mem_singleton, List.not_mem_nil, or_false] at ih' ⊢
          simp only [List.filter_cons, decide_true, Bool.or_true, if_true]
          simp [ih']
        · have : (σ.advance (Obs.disconnect a)).ph o = σ.ph o := by simp [Spec.advance, upd_apply, Ne.symm e]
          rw [this] at ih'
          have : lifeOf o (Obs.disconnect a :: es) = lifeOf o es := by simp [lifeOf, List.filter_cons, e]
          rw [this]; exact ih'
      | error a =>
        have dropx : lifeOf o (Obs.error a :: es) = lifeOf o es := by simp [lifeOf, List.filter_cons]
        rw [dropx]
        by_cases e : a = o
        · subst e
          cases hp : σ.ph a with
          | idle =>
            have : (σ.advance (Obs.error a)).ph a = .rej := by simp [Spec.advance, hp]
            rw [this] at ih'
            simp only [allowedLife, List.mem_singleton] at ih'
            simp [allowedLife, ih']
          | conn =>
            have : (σ.advance (Obs.error a)).ph a = .conn := by simp [Spec.advance, hp]
            rw [this] at ih'; exact ih'
          | gone => simp [obsFail, hp] at hx
          | rej => simp [obsFail, hp] at hx
        · have : (σ.advance (Obs.error a)).ph o = σ.ph o := by
            simp only [Spec.advance]; split <;> simp [upd_apply, Ne.symm e]
          rw [this] at ih'; exact ih'
      | read a d =>
        have : (σ.advance (Obs.read a d)).ph o = σ.ph o := by simp only [Spec.advance]; split <;> rfl
        rw [this] at ih'
        have dropx : lifeOf o (Obs.read a d :: es) = lifeOf o es := by simp [lifeOf, List.filter_cons]
        rw [dropx]; exact ih'
      | recvd a rc =>
        have : (σ.advance (Obs.recvd a rc)).ph o = σ.ph o := by
          cases rc with
          | data d => cases d <;> simp [Spec.advance]
          | _ => simp [Spec.advance]
        rw [this] at ih'
        have dropx : lifeOf o (Obs.recvd a rc :: es) = lifeOf o es := by simp [lifeOf, List.filter_cons]
        rw [dropx]; exact ih'
      | sent a n rs =>
        have dropx : lifeOf o (Obs.sent a n rs :: es) = lifeOf o es := by simp [lifeOf, List.filter_cons]
        rw [dropx]; exact ih'
      | sclosed a =>
        have dropx : lifeOf o (Obs.sclosed a :: es) = lifeOf o es := by simp [lifeOf, List.filter_cons]
        rw [dropx]; exact ih'
      | tab rows =>
        have dropx : lifeOf o (Obs.tab rows :: es) = lifeOf o es := by simp [lifeOf, List.filter_cons]
        rw [dropx]; exact ih'

/-! ## the client -/
namespace Client

theorem alt_doClose (s : State) (rest : List Ev) :
    alternates s.connected ((doClose s).2 ++ rest) = alternates (doClose s).1.connected rest := by
  unfold doClose; cases h : s.connected <;> simp [alternates, h]

theorem alt_closeReq (s : State) (rest : List Ev) :
    alternates s.connected ((closeReq s).2 ++ rest) = alternates (closeReq s).1.connected rest := by
  unfold closeReq; split
  · exact alt_doClose s rest
  · rfl

theorem alt_afterWrite (s : State) (rest : List Ev) :
    alternates s.connected ((afterWrite s).2 ++ rest) = alternates (afterWrite s).1.connected rest := by
  unfold afterWrite; split
  · split
    · exact alt_doClose s rest
    · rfl
  · rfl

theorem alt_step (s : State) (op : Op) (rest : List Ev)
    (h : op = .connect .ok → s.connected = false) :
    alternates s.connected ((step s op).2 ++ rest) = alternates (step s op).1.connected rest := by
  cases op with
  | connect r =>
    cases r with
    | ok => simp [step, alternates, h rfl]
    | refused =>
      simp only [step, List.cons_append, List.nil_append, alternates]
      exact alt_doClose s rest
    | timeout => simp [step, alternates]
    | failed => simp [step, alternates]
  | unregister => exact alt_doClose s rest
  | stopped => exact alt_closeReq s rest
  | close => exact alt_closeReq s rest
  | write n => simp [step]
  | readable r =>
    cases r with
    | data d =>
      cases d with
      | nil => exact alt_closeReq s rest
      | cons b d => simp [step, alternates]
    | eof => exact alt_closeReq s rest
    | again => simp [step]
    | err =>
      simp only [step, List.cons_append, alternates]
      exact alt_doClose s rest
  | hangup => exact alt_doClose s rest
  | writable r =>
    simp only [step]
    split
    · exact alt_afterWrite s rest
    · next n tl hb =>
      cases r with
      | acc k =>
        simp only [List.nil_append]
        split
        · exact alt_afterWrite { s with buf := (n - min k n) :: tl } rest
        · exact alt_afterWrite { s with buf := tl } rest
      | again => simp only [List.nil_append]; exact alt_afterWrite { s with buf := n :: tl } rest
      | pipe =>
        simp only [List.append_assoc]
        have a := alt_doClose { s with buf := tl } ((afterWrite (doClose { s with buf := tl }).1).2 ++ rest)
        have b := alt_afterWrite (doClose { s with buf := tl }).1 rest
        simp only at a
        rw [a, b]
      | other =>
        simp only [List.cons_append, List.nil_append, alternates]
        exact alt_afterWrite { s with buf := tl } rest

theorem alt_runFrom (s : State) (ops : List Op) (h : noReconnect s ops = true) :
    alternates s.connected (runFrom s ops).2 = true := by
  induction ops generalizing s with
  | nil => rfl
  | cons op ops ih =>
    simp only [noReconnect, Bool.and_eq_true] at h
    simp only [runFrom]
    rw [alt_step s op _ (by intro e; subst e; simpa using h.1)]
    exact ih _ h.2

def b2n (b : Bool) : Nat := if b then 1 else 0

theorem count_append (e : Ev) (a b : List Ev) : count e (a ++ b) = count e a + count e b := by
  simp [count, List.filter_append]

theorem cnt_skip (x : Ev) (l : List Ev) (h1 : x ≠ .disconnected) (h2 : x ≠ .connected) :
    count .disconnected (x :: l) = count .disconnected l ∧ count .connected (x :: l) = count .connected l := by
  simp [count, List.filter_cons, h1, h2]

theorem cnt_doClose (s : State) :
    count .disconnected (doClose s).2 + b2n (doClose s).1.connected = b2n s.connected ∧
    count .connected (doClose s).2 = 0 := by
  unfold doClose; cases h : s.connected <;> simp [count, b2n, h]

theorem cnt_closeReq (s : State) :
    count .disconnected (closeReq s).2 + b2n (closeReq s).1.connected = b2n s.connected ∧
    count .connected (closeReq s).2 = 0 := by
  unfold closeReq; split
  · exact cnt_doClose s
  · simp [count]

theorem cnt_afterWrite (s : State) :
    count .disconnected (afterWrite s).2 + b2n (afterWrite s).1.connected = b2n s.connected ∧
    count .connected (afterWrite s).2 = 0 := by
  unfold afterWrite; split
  · split
    · exact cnt_doClose s
    · simp [count]
  · simp [count]

/-- one step never reports more `disconnected` than the connection count allows -/
theorem cnt_step (s : State) (op : Op) :
    count .disconnected (step s op).2 + b2n (step s op).1.connected
      ≤ count .connected (step s op).2 + b2n s.connected := by
  cases op with
  | connect r =>
    cases r with
    | ok => cases h : s.connected <;> simp [step, count, b2n, h]
    | refused =>
      have := cnt_doClose s
      simp only [step, List.cons_append, List.nil_append]
      rw [(cnt_skip .unreachable _ (by simp) (by simp)).1, (cnt_skip .unreachable _ (by simp) (by simp)).2,
          (cnt_skip .error _ (by simp) (by simp)).1, (cnt_skip .error _ (by simp) (by simp)).2]
      omega
    | timeout => simp [step, count]
    | failed => simp [step, count]
  | unregister => have := cnt_doClose s; simp only [step]; omega
  | stopped => have := cnt_closeReq s; simp only [step]; omega
  | close => have := cnt_closeReq s; simp only [step]; omega
  | write n => simp [step, count]
  | readable r =>
    cases r with
    | data d =>
      cases d with
      | nil => have := cnt_closeReq s; simp only [step]; omega
      | cons b d => simp [step, count]
    | eof => have := cnt_closeReq s; simp only [step]; omega
    | again => simp [step, count]
    | err =>
      have := cnt_doClose s
      simp only [step]
      rw [(cnt_skip .error _ (by simp) (by simp)).1, (cnt_skip .error _ (by simp) (by simp)).2]
      omega
  | hangup => have := cnt_doClose s; simp only [step]; omega
  | writable r =>
    simp only [step]
    split
    · have := cnt_afterWrite s; omega
    · next n tl hb =>
      cases r with
      | acc k =>
        simp only [List.nil_append]
        split
        · have := cnt_afterWrite { s with buf := (n - min k n) :: tl }; simp only at this ⊢; omega
        · have := cnt_afterWrite { s with buf := tl }; simp only at this ⊢; omega
      | again => simp only [List.nil_append]; have := cnt_afterWrite { s with buf := n :: tl }; simp only at this ⊢; omega
      | pipe =>
        have a := cnt_doClose { s with buf := tl }
        have b := cnt_afterWrite (doClose { s with buf := tl }).1
        simp only [count_append]
        simp only at a b ⊢
        omega
      | other =>
        have b := cnt_afterWrite { s with buf := tl }
        simp only [List.cons_append, List.nil_append]
        rw [(cnt_skip .error _ (by simp) (by simp)).1, (cnt_skip .error _ (by simp) (by simp)).2]
        simp only at b ⊢
        omega

theorem cnt_runFrom (s : State) (ops : List Op) :
    count .disconnected (runFrom s ops).2 + b2n (runFrom s ops).1.connected
      ≤ count .connected (runFrom s ops).2 + b2n s.connected := by
  induction ops generalizing s with
  | nil => simp [runFrom, count]
  | cons op ops ih =>
    simp only [runFrom, count_append]
    have a := cnt_step s op
    have b := ih (step s op).1
    omega

end Client

end Conn
end CV

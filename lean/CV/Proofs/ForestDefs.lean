import CV.Proofs.CoreReach
/-
The forest invariant of the component tree (C07), as a definition shared by the C07 proof
(which establishes it for every reachable configuration) and the C01 proof (which uses the
`rootOk` part: the cache flag lands on the component that will dispatch).
-/
namespace CV.Core

/-- parent and child links agree, every component has one parent (itself for a root), there are
    no cycles, and `root` is the top of the tree the component is in -/
structure ForestInv (s : St) : Prop where
  parentLt : ∀ c, c < s.comps.length → (s.comp c).parent < s.comps.length
  rootLt : ∀ c, c < s.comps.length → (s.comp c).root < s.comps.length
  childOf : ∀ c d, c < s.comps.length → d ∈ (s.comp c).children →
      d < s.comps.length ∧ (s.comp d).parent = c ∧ d ≠ c
  parentHas : ∀ c, c < s.comps.length → (s.comp c).parent ≠ c → c ∈ (s.comp (s.comp c).parent).children
  childrenNodup : ∀ c, c < s.comps.length → (s.comp c).children.Nodup
  acyclic : ∃ rk : Nat → Nat, ∀ c, c < s.comps.length → (s.comp c).parent ≠ c → rk (s.comp c).parent < rk c
  rootOk : ∀ c, c < s.comps.length →
      (s.comp c).root = (if (s.comp c).parent = c then c else (s.comp (s.comp c).parent).root)

/-- the state a driver session starts from: every component is a detached root without children -/
def InitForest (s : St) : Prop :=
  ∀ c, c < s.comps.length → (s.comp c).parent = c ∧ (s.comp c).root = c ∧ (s.comp c).children = []

theorem ForestInv.of_init (s : St) (h : InitForest s) : ForestInv s := by
  refine ⟨?_, ?_, ?_, ?_, ?_, ?_, ?_⟩
  · intro c hc; rw [(h c hc).1]; exact hc
  · intro c hc; rw [(h c hc).2.1]; exact hc
  · intro c d hc hd; rw [(h c hc).2.2] at hd; cases hd
  · intro c hc hp; exact absurd (h c hc).1 hp
  · intro c hc; rw [(h c hc).2.2]; exact List.nodup_nil
  · exact ⟨fun _ => 0, fun c hc hp => absurd (h c hc).1 hp⟩
  · intro c hc; simp [(h c hc).1, (h c hc).2.1]

end CV.Core

import CV.Model.Session
/-
Helper lemmas for C20 (session binding).  Core Lean only.
-/
namespace CV.Session

/-- text in front of the first '/' (the uuid part of an id) -/
def pre (s : Str) : Str := s.takeWhile (· ≠ '/')

theorem afterSlash_append {u w : Str} (h : '/' ∉ u) : afterSlash (u ++ '/' :: w) = some w := by
  induction u with
  | nil => simp [afterSlash]
  | cons c cs ih =>
    have hc : c ≠ '/' := by
      intro e; apply h; simp [e]
    have hcs : '/' ∉ cs := by
      intro e; apply h; simp [e]
    simp [afterSlash, hc, ih hcs]

theorem pre_append {u w : Str} (h : '/' ∉ u) : pre (u ++ '/' :: w) = u := by
  induction u with
  | nil => simp [pre]
  | cons c cs ih =>
    have hc : c ≠ '/' := by
      intro e; apply h; simp [e]
    have hcs : '/' ∉ cs := by
      intro e; apply h; simp [e]
    have := ih hcs
    simp [pre, hc] at this ⊢
    exact this

/-- the id a request ends up with always carries the request's own fingerprint -/
theorem chooseSid_sfx (W : Str → Str) {u : Str} (r : Req) (h : '/' ∉ u) :
    afterSlash (chooseSid W u r) = some (who W r) := by
  unfold chooseSid
  cases hc : r.cookie with
  | none => simp [createSession, afterSlash_append h]
  | some sid =>
    simp only [verifySession]
    cases ha : afterSlash sid with
    | none => simp [createSession, afterSlash_append h]
    | some user =>
      by_cases hu : user = who W r
      · simp [hu, ha]
      · simp [hu, createSession, afterSlash_append h]

/-- either the presented cookie is honoured, or a fresh id is made -/
theorem chooseSid_cases (W : Str → Str) (u : Str) (r : Req) :
    (r.cookie = some (chooseSid W u r)) ∨ chooseSid W u r = createSession W u r := by
  unfold chooseSid
  cases hc : r.cookie with
  | none => exact Or.inr rfl
  | some sid =>
    simp only [verifySession]
    cases ha : afterSlash sid with
    | none => exact Or.inr rfl
    | some user =>
      by_cases hu : user = who W r
      · left; simp [hu]
      · right; simp [hu]

/-! ### the store invariant -/

/-- every datum lies under the id it was written with, and that id ends in the writer's
    fingerprint -/
def Inv (st : Store) : Prop :=
  ∀ k d, st.lookup k = some d → ∀ e ∈ d, e.wsid = k ∧ afterSlash k = some e.wfp

theorem lookup_filter (f : Str → Bool) (st : Store) (k : Str) :
    (st.filter (fun p => f p.1)).lookup k = if f k then st.lookup k else none := by
  induction st with
  | nil => cases f k <;> rfl
  | cons x xs ih =>
    obtain ⟨a, b⟩ := x
    cases hfa : f a
    · rw [List.filter_cons_of_neg (by simp [hfa])]
      rw [ih]
      cases hka : k == a
      · simp only [List.lookup, hka]
      · have : k = a := by simpa using hka
        subst this
        simp [hfa]
    · rw [List.filter_cons_of_pos (by simp [hfa])]
      cases hka : k == a
      · simp only [List.lookup, hka, ih]
      · have : k = a := by simpa using hka
        subst this
        simp [List.lookup, hfa]

theorem lookup_filter_ne {st : Store} {sid k : Str} (h : k ≠ sid) :
    (st.filter (fun p => p.1 ≠ sid)).lookup k = st.lookup k := by
  have := lookup_filter (fun a => decide (a ≠ sid)) st k
  simp only [h, ne_eq, not_false_eq_true, decide_true, if_true] at this
  exact this

theorem lookup_filter_eq {st : Store} {sid : Str} :
    (st.filter (fun p => p.1 ≠ sid)).lookup sid = none := by
  have := lookup_filter (fun a => decide (a ≠ sid)) st sid
  simp only [ne_eq, not_true_eq_false, decide_false] at this
  exact this

theorem lookup_setKey {st : Store} {sid k : Str} {d : List Entry} :
    (setKey st sid d).lookup k = if k = sid then some d else st.lookup k := by
  unfold setKey
  by_cases h : k = sid
  · subst h; simp [List.lookup]
  · have : (k == sid) = false := by simpa using h
    simp only [List.lookup, this, h, if_false]
    exact lookup_filter_ne h

theorem lookup_delKey {st : Store} {sid k : Str} :
    (delKey st sid).lookup k = if k = sid then none else st.lookup k := by
  unfold delKey
  by_cases h : k = sid
  · subst h; simp only [if_true]; exact lookup_filter_eq
  · simp only [h, if_false]; exact lookup_filter_ne h

theorem mem_dictSet {d : List Entry} {e x : Entry} (h : x ∈ dictSet d e) : x ∈ d ∨ x = e := by
  unfold dictSet at h
  split at h
  · simp only [List.mem_map] at h
    obtain ⟨y, hy, hxy⟩ := h
    split at hxy
    · exact Or.inr hxy.symm
    · exact Or.inl (hxy ▸ hy)
  · simp only [List.mem_append, List.mem_singleton] at h
    exact h

theorem inv_nil : Inv [] := by
  intro k d h
  simp at h

theorem inv_step (W : Str → Str) {st : Store} (s : Step) (hu : '/' ∉ s.u) (hi : Inv st) :
    Inv (step W st s).1 := by
  intro k d hk e he
  unfold step at hk
  simp only [] at hk
  cases hact : s.act with
  | get =>
    simp only [hact] at hk
    exact hi k d hk e he
  | put key v =>
    simp only [hact, lookup_setKey] at hk
    split at hk
    · rename_i hks
      cases hk
      rcases mem_dictSet he with hcur | rfl
      · cases hl : st.lookup (chooseSid W s.u s.req) with
        | none => simp [hl] at hcur
        | some d0 =>
          simp [hl] at hcur
          rw [hks]
          exact hi _ d0 hl e hcur
      · exact ⟨hks.symm, by rw [hks]; exact chooseSid_sfx W s.req hu⟩
    · exact hi k d hk e he
  | expire =>
    simp only [hact, lookup_delKey] at hk
    split at hk
    · cases hk
    · exact hi k d hk e he

/-- what a request is shown was written under its own id by its own fingerprint -/
theorem obs_step (W : Str → Str) {st : Store} (s : Step) (hu : '/' ∉ s.u) (hi : Inv st) :
    ∀ e ∈ (step W st s).2.contents, e.wsid = (step W st s).2.sid ∧ e.wfp = who W s.req := by
  intro e he
  unfold step at he ⊢
  simp only [] at he ⊢
  cases hl : st.lookup (chooseSid W s.u s.req) with
  | none => simp [hl] at he
  | some d0 =>
    simp [hl] at he
    obtain ⟨h1, h2⟩ := hi _ d0 hl e he
    refine ⟨h1, ?_⟩
    rw [chooseSid_sfx W s.req hu] at h2
    exact (Option.some.inj h2).symm

theorem step_sid (W : Str → Str) (st : Store) (s : Step) :
    (step W st s).2.sid = chooseSid W s.u s.req := rfl

/-- the property of one request, as the theorem states it -/
def Bound (W : Str → Str) (s : Step) (o : Obs) : Prop :=
  ((s.req.cookie = some o.sid ∧ afterSlash o.sid = some (who W s.req)) ∨
    o.sid = createSession W s.u s.req) ∧
  ∀ e ∈ o.contents, e.wsid = o.sid ∧ e.wfp = who W s.req

theorem bound_step (W : Str → Str) {st : Store} (s : Step) (hu : '/' ∉ s.u) (hi : Inv st) :
    Bound W s (step W st s).2 := by
  refine ⟨?_, obs_step W s hu hi⟩
  rw [step_sid]
  rcases chooseSid_cases W s.u s.req with h | h
  · exact Or.inl ⟨h, chooseSid_sfx W s.req hu⟩
  · exact Or.inr h

theorem run_length (W : Str → Str) (steps : List Step) :
    ∀ st, (run W st steps).2.length = steps.length := by
  induction steps with
  | nil => intro st; rfl
  | cons s ss ih => intro st; simp [run, ih]

theorem run_bound (W : Str → Str) (steps : List Step) :
    ∀ st, Inv st → (∀ s ∈ steps, '/' ∉ s.u) →
      ∀ p ∈ steps.zip (run W st steps).2, Bound W p.1 p.2 := by
  induction steps with
  | nil => intro st _ _ p hp; simp [run] at hp
  | cons s ss ih =>
    intro st hi hu p hp
    have hs : '/' ∉ s.u := hu s (by simp)
    simp only [run, List.zip_cons_cons, List.mem_cons] at hp
    rcases hp with rfl | hp
    · exact bound_step W s hs hi
    · exact ih _ (inv_step W s hs hi) (fun t ht => hu t (by simp [ht])) p hp

/-! ### fresh ids are new -/

theorem run_keys (W : Str → Str) (Q : Str → Prop) (steps : List Step) :
    ∀ st, (∀ k d, st.lookup k = some d → Q k) →
      (∀ t ∈ steps, Q (chooseSid W t.u t.req)) →
      (∀ k d, (run W st steps).1.lookup k = some d → Q k) ∧ ∀ o ∈ (run W st steps).2, Q o.sid := by
  induction steps with
  | nil =>
    intro st hst _
    exact ⟨hst, by simp [run]⟩
  | cons s ss ih =>
    intro st hst hq
    have hs : Q (chooseSid W s.u s.req) := hq s (by simp)
    have hst' : ∀ k d, (step W st s).1.lookup k = some d → Q k := by
      intro k d hk
      unfold step at hk
      simp only [] at hk
      cases hact : s.act with
      | get => simp only [hact] at hk; exact hst k d hk
      | put key v =>
        simp only [hact, lookup_setKey] at hk
        split at hk
        · rename_i hks; rw [hks]; exact hs
        · exact hst k d hk
      | expire =>
        simp only [hact, lookup_delKey] at hk
        split at hk
        · cases hk
        · exact hst k d hk
    obtain ⟨h1, h2⟩ := ih _ hst' (fun t ht => hq t (by simp [ht]))
    simp only [run]
    refine ⟨h1, ?_⟩
    intro o ho
    simp only [List.mem_cons] at ho
    rcases ho with rfl | ho
    · exact hs
    · exact h2 o ho

theorem pre_chooseSid_ne (W : Str → Str) {t : Step} {u : Str} (ht : '/' ∉ t.u)
    (h1 : t.u ≠ u) (h2 : t.req.cookie.map pre ≠ some u) :
    pre (chooseSid W t.u t.req) ≠ u := by
  rcases chooseSid_cases W t.u t.req with h | h
  · intro e
    apply h2
    rw [h]
    simp [e]
  · rw [h, createSession, pre_append ht]
    exact h1

end CV.Session

import CV.Proofs.InvTasksM
import CV.Proofs.InvTasksG
/-
waitingHandlers accounting, part 3: the helpers that MOVE obligations - `applyValue` (a generator handler is
registered), the three closures of `waitEvent`, and the exits of `processTask`.  Each lemma says how the slack
`St.t46_D` of every event changes.
-/
namespace CV.Core

/-! ## slack after the primitives that change it -/

theorem St.t46_D_modEv (s : St) (e : Nat) (f : Ev → Ev) (x : Nat) :
    (s.modEv e f).t46_D x =
      s.t46_D x + (if e = x ∧ x < s.evs.length then (f (s.ev x)).waiting - (s.ev x).waiting else 0) := by
  unfold St.t46_D
  have h1 : (s.modEv e f).t46_WT x = s.t46_WT x := rfl
  have h2 : (s.modEv e f).t46_WW x = s.t46_WW x := rfl
  rw [h1, h2, St.t46_ev_modEv]
  split <;> omega

theorem St.t46_D_registerTask_ge (s : St) (c : Nat) (t : Task) (x : Nat) :
    s.t46_D x - t.t46_wt x ≤ (s.registerTask c t).t46_D x := by
  unfold St.t46_D
  have h1 : (s.registerTask c t).t46_WW x = s.t46_WW x := rfl
  have h2 : ∀ y, (s.registerTask c t).ev y = s.ev y := fun _ => rfl
  rw [h1, h2]
  have := St.t46_WT_registerTask_le s c t x
  omega

theorem St.t46_D_unregisterTask_mem (s : St) (c : Nat) (t : Task) (x : Nat)
    (h : t ∈ (s.comp (s.rootOf c)).tasks) :
    (s.unregisterTask c t).t46_D x = s.t46_D x + t.t46_wt x := by
  unfold St.t46_D
  have h1 : (s.unregisterTask c t).t46_WW x = s.t46_WW x := rfl
  have h2 : ∀ y, (s.unregisterTask c t).ev y = s.ev y := fun _ => rfl
  rw [h1, h2, St.t46_WT_unregisterTask_mem s c t x h]
  omega

theorem St.t46_D_unregisterTask_ge (s : St) (c : Nat) (t : Task) (x : Nat) :
    s.t46_D x ≤ (s.unregisterTask c t).t46_D x :=
  St.T46M.unregisterTask (St.T46M.refl s) c t x

theorem St.t46_D_modWait (s : St) (w : Nat) (f : WaitSt → WaitSt) (x : Nat) :
    (s.modWait w f).t46_D x =
      s.t46_D x - (if w < s.waits.length then (f (s.wait w)).t46_wt x - (s.wait w).t46_wt x else 0) := by
  unfold St.t46_D
  have h1 : (s.modWait w f).t46_WT x = s.t46_WT x := rfl
  have h2 : ∀ y, (s.modWait w f).ev y = s.ev y := fun _ => rfl
  rw [h1, h2, St.t46_WW_modWait]
  split <;> omega

theorem St.t46_wait_started_lt (s : St) (w : Nat) (h : (s.wait w).started = true) : w < s.waits.length := by
  apply Classical.byContradiction
  intro hn
  have : s.wait w = dfltWait := by
    unfold St.wait
    rw [List.getD_eq_getElem?_getD, List.getElem?_eq_none (Nat.le_of_not_lt hn)]; rfl
  rw [this] at h
  cases h

theorem WaitSt.t46_wt_of_pending (w : WaitSt) (x : Nat) (h : w.t46_pending = true) :
    w.t46_wt x = if w.taskEvent = x then 2 else 0 := by
  simp [WaitSt.t46_wt, h]

theorem WaitSt.t46_wt_of_not (w : WaitSt) (x : Nat) (h : w.t46_pending = false) : w.t46_wt x = 0 := by
  simp [WaitSt.t46_wt, h]

theorem Task.t46_wt_some (e g p x : Nat) : (⟨e, g, some p⟩ : Task).t46_wt x = if e = x then 2 else 0 := by
  simp [Task.t46_wt]

theorem Task.t46_wt_none (e g x : Nat) : (⟨e, g, none⟩ : Task).t46_wt x = if e = x then 1 else 0 := by
  simp [Task.t46_wt]

/-! ## `applyValue` -/

theorem St.t46_applyValue_M (s : St) (r e : Nat) (v : Outcome) (he : ∀ g, v = .gen g → e < s.evs.length) :
    St.T46M s (s.applyValue r e v) := by
  unfold St.applyValue
  split
  · t46m
  · rename_i g
    intro x
    have hr := he g rfl
    refine Int.le_trans ?_ (St.t46_D_registerTask_ge _ _ _ _)
    rw [St.t46_D_modEv]
    simp only [Task.t46_wt]
    by_cases hx : e = x
    · subst hx
      simp only [hr, and_self, if_true, Option.isSome_none, Bool.false_eq_true, if_false]
      omega
    · simp only [hx, false_and, if_false]
      omega
  · t46m
  · t46m

/-! ## the closures of `waitEvent` -/

theorem St.t46_D_registerTask_mem (s : St) (c : Nat) (t : Task) (x : Nat) (h : t ∈ (s.comp (s.rootOf c)).tasks) :
    (s.registerTask c t).t46_D x = s.t46_D x := by
  unfold St.t46_D
  have h1 : (s.registerTask c t).t46_WW x = s.t46_WW x := rfl
  have h2 : ∀ y, (s.registerTask c t).ev y = s.ev y := fun _ => rfl
  rw [h1, h2]
  unfold St.registerTask
  rw [St.t46_WT_modComp]
  have : addUniq (s.comp (s.rootOf c)).tasks t = (s.comp (s.rootOf c)).tasks := by
    unfold addUniq; rw [if_pos (by simpa using h)]
  dsimp only
  rw [this]
  split <;> omega

/-- `_on_done`: either it sets the flag for the first time (the pending wait becomes the resumption task), or - a second
    `_done` event of the awaited event, a stale invocation, or one after the time-out - it does nothing
    (`if state.flag or state.timed_out: return`) -/
theorem St.t46_onWaitDone_M (s : St) (w e : Nat) (hst : (s.wait w).started = true) :
    St.T46M s (s.onWaitDone w e).2 := by
  have hw := St.t46_wait_started_lt s w hst
  unfold St.onWaitDone
  dsimp only
  split
  · rename_i hc
    have hto : (s.wait w).timedOut = false := by
      simp only [Bool.and_eq_true, Bool.not_eq_true'] at hc; exact hc.1.2
    have hfl0 : (s.wait w).flag = false := by
      simp only [Bool.and_eq_true, Bool.not_eq_true'] at hc; exact hc.1.1
    have hS1 : St.T46M s ((s.modWait w fun x => { x with flag := true }).registerTask (s.wait w).owner
        ⟨(s.wait w).taskEvent, (s.wait w).task, some (s.wait w).parentGen⟩) := by
      intro x
      cases hflag : (s.wait w).flag with
      | false =>
        refine Int.le_trans ?_ (St.t46_D_registerTask_ge _ _ _ _)
        rw [St.t46_D_modWait, if_pos hw, Task.t46_wt_some,
          WaitSt.t46_wt_of_pending (s.wait w) x (by simp [WaitSt.t46_pending, hst, hflag, hto]),
          WaitSt.t46_wt_of_not _ x (by simp [WaitSt.t46_pending])]
        split <;> omega
      | true => rw [hfl0] at hflag; cases hflag
    split
    · split
      · split <;> t46m
      · t46m
    · t46m
  · exact St.T46M.refl s

theorem St.t46_onWaitTick_M (s : St) (w : Nat) (hst : (s.wait w).started = true) :
    St.T46M s (s.onWaitTick w).2 := by
  have hw := St.t46_wait_started_lt s w hst
  unfold St.onWaitTick
  dsimp only
  split
  · exact St.T46M.refl s
  · rename_i hc
    have hfl : (s.wait w).flag = false := by
      simp only [Bool.or_eq_true, not_or, Bool.not_eq_true] at hc; exact hc.1
    have hto : (s.wait w).timedOut = false := by
      simp only [Bool.or_eq_true, not_or, Bool.not_eq_true] at hc; exact hc.2
    split
    · have hS1 : St.T46M s (((s.modWait w fun x => { x with timedOut := true }).addGen (.exc w false)).registerTask
          (s.wait w).owner ⟨(s.wait w).taskEvent, s.gens.length, some (s.wait w).parentGen⟩) := by
        intro x
        refine Int.le_trans ?_ (St.t46_D_registerTask_ge _ _ _ _)
        have h2 : ((s.modWait w fun x => { x with timedOut := true }).addGen (.exc w false)).t46_D x
            = (s.modWait w fun x => { x with timedOut := true }).t46_D x := rfl
        rw [h2, St.t46_D_modWait, if_pos hw, Task.t46_wt_some,
          WaitSt.t46_wt_of_pending (s.wait w) x (by simp [WaitSt.t46_pending, hst, hfl, hto]),
          WaitSt.t46_wt_of_not _ x (by simp [WaitSt.t46_pending])]
        split <;> omega
      t46m
    · split
      · t46m
      · exact St.T46M.refl s

/-! ## the exits of `processTask` -/

theorem WaitSt.t46_wt_le (w : WaitSt) (x : Nat) : w.t46_wt x ≤ if w.taskEvent = x then 2 else 0 := by
  unfold WaitSt.t46_wt
  by_cases h : w.taskEvent = x
  · simp only [h, and_true, if_true]; split <;> omega
  · simp only [h, and_false, if_false]; omega

/-- two `modWait`s on the same wait state, the second of which sets `taskEvent := e`: at most 2 on `e` -/
theorem St.t46_D_modWait2 (u : St) (w : Nat) (F G : WaitSt → WaitSt) (e x : Nat) (hG : ∀ y, (G y).taskEvent = e) :
    u.t46_D x - (if e = x then 2 else 0) ≤ ((u.modWait w F).modWait w G).t46_D x := by
  rw [St.t46_D_modWait, St.t46_D_modWait]
  have hl : (u.modWait w F).waits.length = u.waits.length := by simp [St.modWait]
  rw [hl]
  by_cases hw : w < u.waits.length
  · have hwm : (u.modWait w F).wait w = F (u.wait w) := by
      rw [St.t46_wait_modWait, if_pos ⟨rfl, hw⟩]
    rw [if_pos hw, if_pos hw, hwm]
    have h1 := WaitSt.t46_wt_le (G (F (u.wait w))) x
    rw [hG] at h1
    have h2 := WaitSt.t46_wt_nonneg x (u.wait w)
    omega
  · rw [if_neg hw, if_neg hw]; split <;> omega

/-- `startWait w` followed by the adoption `modWait w (taskEvent := e, …)`: the wait state becomes pending on `e` -/
theorem St.t46_startWait_D2 (s : St) (w : Nat) (G : WaitSt → WaitSt) (e x : Nat) (hG : ∀ y, (G y).taskEvent = e) :
    s.t46_D x - (if e = x then 2 else 0) ≤ ((s.startWait w).modWait w G).t46_D x := by
  unfold St.startWait
  (try dsimp only)
  refine Int.le_trans ?_ (St.t46_D_modWait2 _ w _ _ e x hG)
  refine Int.sub_le_sub_right ((?_ : St.T46M s _) x) _
  t46m

/-- the state `stopIteration` works on after the decrement and the unregistration -/
def St.t46_stop1 (s : St) (r : Nat) (t : Task) : St :=
  (s.modEv t.e fun y => { y with waiting := y.waiting - 1 }).unregisterTask r t

theorem St.t46_stopIteration_cases (s : St) (r : Nat) (t : Task) :
    (∃ p, t.parent = some p ∧ (s.stopIteration r t).2 = (s.t46_stop1 r t).registerTask r ⟨t.e, p, none⟩) ∨
    (t.parent = none ∧ ((s.stopIteration r t).2 = (s.t46_stop1 r t).inform t.e true ∨
      (s.stopIteration r t).2 = s.t46_stop1 r t)) := by
  unfold St.stopIteration St.t46_stop1
  dsimp only
  cases hq : t.parent with
  | some p => exact Or.inl ⟨p, rfl, rfl⟩
  | none =>
    refine Or.inr ⟨rfl, ?_⟩
    dsimp only
    split
    · exact Or.inl rfl
    · exact Or.inr rfl

theorem St.t46_D_modEv_ge1 (s : St) (e x : Nat) :
    s.t46_D x - (if e = x then 1 else 0) ≤ (s.modEv e fun y => { y with waiting := y.waiting - 1 }).t46_D x := by
  rw [St.t46_D_modEv]
  by_cases hx : e = x
  · rw [if_pos hx]
    by_cases hl : x < s.evs.length
    · rw [if_pos ⟨hx, hl⟩]; dsimp only; omega
    · rw [if_neg (fun h => hl h.2)]; omega
  · rw [if_neg hx, if_neg (fun h => hx h.1)]; omega

theorem St.t46_stop1_any (s : St) (r : Nat) (t : Task) (x : Nat) :
    s.t46_D x - (if t.e = x then 1 else 0) ≤ (s.t46_stop1 r t).t46_D x :=
  Int.le_trans (St.t46_D_modEv_ge1 s t.e x) (St.t46_D_unregisterTask_ge _ _ _ _)

theorem St.t46_stop1_mem (s : St) (r : Nat) (t : Task) (x : Nat) (hm : t ∈ (s.comp (s.rootOf r)).tasks) :
    s.t46_D x - (if t.e = x then 1 else 0) + t.t46_wt x ≤ (s.t46_stop1 r t).t46_D x := by
  unfold St.t46_stop1
  rw [St.t46_D_unregisterTask_mem (s.modEv t.e _) r t x hm]
  have := St.t46_D_modEv_ge1 s t.e x
  omega

theorem St.t46_stopIteration_any (s : St) (r : Nat) (t : Task) (x : Nat) :
    s.t46_D x - (if t.e = x then 2 else 0) ≤ (s.stopIteration r t).2.t46_D x := by
  have h1 := St.t46_stop1_any s r t x
  rcases St.t46_stopIteration_cases s r t with ⟨p, _, he⟩ | ⟨_, he | he⟩ <;> rw [he]
  · have h2 := St.t46_D_registerTask_ge (s.t46_stop1 r t) r ⟨t.e, p, none⟩ x
    rw [Task.t46_wt_none] at h2
    by_cases hx : t.e = x
    · rw [if_pos hx] at h1 h2 ⊢; omega
    · rw [if_neg hx] at h1 h2 ⊢; omega
  · have h2 := St.T46M.inform (St.T46M.refl (s.t46_stop1 r t)) t.e true x
    by_cases hx : t.e = x
    · rw [if_pos hx] at h1 ⊢; omega
    · rw [if_neg hx] at h1 ⊢; omega
  · by_cases hx : t.e = x
    · rw [if_pos hx] at h1 ⊢; omega
    · rw [if_neg hx] at h1 ⊢; omega

theorem St.t46_stopIteration_mem (s : St) (r : Nat) (t : Task) (hm : t ∈ (s.comp (s.rootOf r)).tasks) :
    St.T46M s (s.stopIteration r t).2 := by
  intro x
  have h1 := St.t46_stop1_mem s r t x hm
  rcases St.t46_stopIteration_cases s r t with ⟨p, hp, he⟩ | ⟨hp, he | he⟩ <;> rw [he]
  · have h2 := St.t46_D_registerTask_ge (s.t46_stop1 r t) r ⟨t.e, p, none⟩ x
    rw [Task.t46_wt_none] at h2
    have : t.t46_wt x = if t.e = x then 2 else 0 := by simp [Task.t46_wt, hp]
    rw [this] at h1
    by_cases hx : t.e = x
    · rw [if_pos hx] at h1 h2; omega
    · rw [if_neg hx] at h1 h2; omega
  · have h2 := St.T46M.inform (St.T46M.refl (s.t46_stop1 r t)) t.e true x
    have : t.t46_wt x = if t.e = x then 1 else 0 := by simp [Task.t46_wt, hp]
    rw [this] at h1
    by_cases hx : t.e = x
    · rw [if_pos hx] at h1; omega
    · rw [if_neg hx] at h1; omega
  · have : t.t46_wt x = if t.e = x then 1 else 0 := by simp [Task.t46_wt, hp]
    rw [this] at h1
    by_cases hx : t.e = x
    · rw [if_pos hx] at h1; omega
    · rw [if_neg hx] at h1; omega

/-- the part of the error branch between `unregisterTask` and the `waitingHandlers` bookkeeping -/
def St.t46_errMid (u : St) (r e : Nat) : St :=
  let s2 := (u.modEv e fun x => { x with val := x.val.set .err }).inform e false
  let s3 := (s2.modEv e fun x => { x with val := { x.val with errors := true } }).inform e true
  let s4 := if (s3.ev e).failure then s3.fireChild r e sfxFailure (s3.ev e).chans else s3
  s4.fireException r e

theorem St.t46_errMid_M (u : St) (r e : Nat) : St.T46M u (u.t46_errMid r e) := by
  t46m_unfold St.t46_errMid

theorem St.t46_errorBranch_eq (s : St) (r : Nat) (t : Task) (resumed : Bool) :
    (s.errorBranch r t resumed).2 =
      if t.parent.isNone || resumed then
        ((s.unregisterTask r t).t46_errMid r t.e).modEv t.e fun x => { x with waiting := x.waiting - (if resumed then 2 else 1) }
      else (s.unregisterTask r t).t46_errMid r t.e := by
  unfold St.errorBranch St.t46_errMid
  dsimp only
  split <;> rfl

theorem St.t46_D_modEv_gek (s : St) (e x : Nat) (k : Int) (hk : 0 ≤ k) :
    s.t46_D x - (if e = x then k else 0) ≤ (s.modEv e fun y => { y with waiting := y.waiting - k }).t46_D x := by
  rw [St.t46_D_modEv]
  by_cases hx : e = x
  · rw [if_pos hx]
    by_cases hl : x < s.evs.length
    · rw [if_pos ⟨hx, hl⟩]; dsimp only; omega
    · rw [if_neg (fun h => hl h.2)]; omega
  · rw [if_neg hx, if_neg (fun h => hx h.1)]; omega

theorem St.t46_errorBranch_any (s : St) (r : Nat) (t : Task) (resumed : Bool) (x : Nat) :
    s.t46_D x - (if t.e = x then 2 else 0) ≤ (s.errorBranch r t resumed).2.t46_D x := by
  rw [St.t46_errorBranch_eq]
  have h1 := St.t46_D_unregisterTask_ge s r t x
  have h2 := St.t46_errMid_M (s.unregisterTask r t) r t.e x
  by_cases hc : (t.parent.isNone || resumed) = true
  · rw [if_pos hc]
    have h3 := St.t46_D_modEv_gek ((s.unregisterTask r t).t46_errMid r t.e) t.e x (if resumed then 2 else 1)
      (by split <;> omega)
    by_cases hx : t.e = x
    · rw [if_pos hx] at h3 ⊢
      have : (if resumed = true then (2 : Int) else 1) ≤ 2 := by split <;> omega
      omega
    · rw [if_neg hx] at h3 ⊢; omega
  · rw [if_neg hc]
    by_cases hx : t.e = x
    · rw [if_pos hx]; omega
    · rw [if_neg hx]; omega

theorem St.t46_errorBranch_any1 (s : St) (r : Nat) (t : Task) (x : Nat) :
    s.t46_D x - (if t.e = x then 1 else 0) ≤ (s.errorBranch r t false).2.t46_D x := by
  rw [St.t46_errorBranch_eq]
  have h1 := St.t46_D_unregisterTask_ge s r t x
  have h2 := St.t46_errMid_M (s.unregisterTask r t) r t.e x
  by_cases hc : (t.parent.isNone || false) = true
  · rw [if_pos hc]
    have h3 := St.t46_D_modEv_gek ((s.unregisterTask r t).t46_errMid r t.e) t.e x (if false then 2 else 1) (by simp)
    simp only [Bool.false_eq_true, if_false] at h3 ⊢
    by_cases hx : t.e = x
    · rw [if_pos hx] at h3 ⊢; omega
    · rw [if_neg hx] at h3 ⊢; omega
  · rw [if_neg hc]
    by_cases hx : t.e = x
    · rw [if_pos hx]; omega
    · rw [if_neg hx]; omega

theorem St.t46_errorBranch_mem (s : St) (r : Nat) (t : Task) (hm : t ∈ (s.comp (s.rootOf r)).tasks) :
    St.T46M s (s.errorBranch r t false).2 := by
  intro x
  rw [St.t46_errorBranch_eq]
  have h1 := St.t46_D_unregisterTask_mem s r t x hm
  have h2 := St.t46_errMid_M (s.unregisterTask r t) r t.e x
  have h3 := Task.t46_wt_nonneg x t
  by_cases hc : (t.parent.isNone || false) = true
  · have hp' : t.parent = none := by
      cases hq : t.parent with
      | none => rfl
      | some p => rw [hq] at hc; simp at hc
    have : t.t46_wt x = if t.e = x then 1 else 0 := by simp [Task.t46_wt, hp']
    rw [this] at h1
    rw [if_pos hc]
    have h4 := St.t46_D_modEv_gek ((s.unregisterTask r t).t46_errMid r t.e) t.e x (if false then 2 else 1)
      (by simp)
    simp only [Bool.false_eq_true, if_false] at h4 ⊢
    by_cases hx : t.e = x
    · rw [if_pos hx] at h1 h4; omega
    · rw [if_neg hx] at h1 h4; omega
  · rw [if_neg hc]; omega

theorem St.t46_ownSub_M (s : St) (r : Nat) (t : Task) (w : Nat) (he : t.e < s.evs.length)
    (hm : (⟨t.e, t.g, none⟩ : Task) ∈ (s.comp (s.rootOf r)).tasks) : St.T46M s (s.ownSub r t w) := by
  intro x
  unfold St.ownSub
  dsimp only
  refine Int.le_trans ?_ (St.t46_startWait_D2 _ w _ t.e x (fun _ => rfl))
  rw [St.t46_D_unregisterTask_mem (s.modEv t.e _) r _ x hm, St.t46_D_modEv, Task.t46_wt_none]
  by_cases hx : t.e = x
  · have hl : x < s.evs.length := hx ▸ he
    rw [if_pos hx, if_pos ⟨hx, hl⟩, if_pos hx]; dsimp only; omega
  · rw [if_neg hx, if_neg (fun h => hx h.1), if_neg hx]; omega

theorem St.t46_parentSub_any (s : St) (r : Nat) (t : Task) (p w2 : Nat) (v : Bool) (x : Nat) :
    s.t46_D x - (if t.e = x then 2 else 0) ≤ (s.parentSub r t p w2 v).t46_D x := by
  unfold St.parentSub
  by_cases hv : v = true
  · rw [if_pos hv]
    refine Int.le_trans ?_ (St.t46_D_registerTask_ge _ _ _ _)
    rw [Task.t46_wt_some]
    have : (s.addGen (.one none false)).t46_D x = s.t46_D x := rfl
    rw [this]; omega
  · rw [if_neg hv]
    exact St.t46_startWait_D2 s w2 _ t.e x (fun _ => rfl)

theorem St.t46_parentPlain_any (s : St) (r : Nat) (t : Task) (p : Nat) (v : Option Nat) (vt : Bool) (x : Nat) :
    s.t46_D x - (if t.e = x then 2 else 0) ≤ (s.parentPlain r t p v vt).t46_D x := by
  unfold St.parentPlain
  by_cases hv : vt = true
  · rw [if_pos hv]
    refine Int.le_trans ?_ (St.t46_D_registerTask_ge _ _ _ _)
    rw [Task.t46_wt_some]
    have : (s.addGen (.one v false)).t46_D x = s.t46_D x := rfl
    rw [this]; omega
  · rw [if_neg hv]
    refine Int.le_trans ?_ (St.t46_D_registerTask_ge _ _ _ _)
    rw [Task.t46_wt_none]
    refine Int.le_trans ?_ (Int.sub_le_sub_right (St.T46M.setValueOpt (St.T46M.refl _) _ _ x) _)
    have h1 := St.t46_D_modEv_ge1 s t.e x
    by_cases hx : t.e = x
    · rw [if_pos hx] at h1 ⊢; omega
    · rw [if_neg hx] at h1 ⊢; omega

end CV.Core

import CV.Model.WebSocketSpec
/-
Helper lemmas for C17 (core Lean only).
Part A: the decoder is a framing homomorphism (segmentation invariance).
-/
namespace CV
namespace WS

/-! ### A. segmentation -/

theorem parseHdr_stable {x : Bytes} {h : Hdr} (y : Bytes) (hh : parseHdr x = some h) :
    parseHdr (x ++ y) = some h := by
  unfold parseHdr at hh
  split at hh
  · rename_i b0 b1 t
    simp only at hh
    simp only [parseHdr, List.cons_append]
    split at hh
    · rename_i h126
      simp only [h126, if_true]
      split at hh
      · exact absurd hh (by simp)
      · rename_i hlen
        have hlen' : ¬ (b0 :: b1 :: (t ++ y)).length < 2 + (extLen (b1 &&& 0x7F).toNat) := by
          simp only [List.length_cons, List.length_append] at hlen ⊢
          omega
        rw [if_neg hlen']
        rw [← hh]
        have : List.take (extLen (b1 &&& 0x7F).toNat) (List.drop 2 (b0 :: b1 :: (t ++ y)))
             = List.take (extLen (b1 &&& 0x7F).toNat) (List.drop 2 (b0 :: b1 :: t)) := by
          simp only [List.drop_succ_cons, List.drop_zero]
          rw [List.take_append_of_le_length]
          simp only [List.length_cons] at hlen
          omega
        rw [this]
    · rename_i h126
      simp only [h126, if_false]
      exact hh
  · exact absurd hh (by simp)

theorem parseHdr_off_le {x : Bytes} {h : Hdr} (hh : parseHdr x = some h) : h.off ≤ x.length := by
  unfold parseHdr at hh
  split at hh
  · simp only at hh
    repeat' split at hh
    all_goals first
      | (have := Option.some.inj hh; subst this; simp only [List.length_cons] at *; omega)
      | (simp at hh; done)
  · exact absurd hh (by simp)

theorem parseFrame_stable {x : Bytes} {f : Frame} {r : Bytes} (y : Bytes)
    (h : parseFrame x = some (f, r)) : parseFrame (x ++ y) = some (f, r ++ y) := by
  unfold parseFrame at h
  split at h
  · exact absurd h (by simp)
  · rename_i hd hh
    have hoff := parseHdr_off_le hh
    simp only at h
    by_cases hlen : x.length < (if hd.masking then hd.off + 4 else hd.off) + hd.plen
    · rw [if_pos hlen] at h
      exact absurd h (by simp)
    · rw [if_neg hlen] at h
      have h' := Option.some.inj h
      unfold parseFrame
      rw [parseHdr_stable y hh]
      simp only
      have hlen' : ¬ (x ++ y).length < (if hd.masking then hd.off + 4 else hd.off) + hd.plen := by
        simp only [List.length_append]; omega
      rw [if_neg hlen']
      have hf : f = ⟨hd.fin, hd.opcode, if hd.masking then xorKey (if hd.masking then (x.drop hd.off).take 4 else []) 0
          ((x.drop (if hd.masking then hd.off + 4 else hd.off)).take hd.plen)
          else (x.drop (if hd.masking then hd.off + 4 else hd.off)).take hd.plen⟩ := (congrArg Prod.fst h').symm
      have hr : r = x.drop ((if hd.masking then hd.off + 4 else hd.off) + hd.plen) := (congrArg Prod.snd h').symm
      rw [hf, hr]
      cases hm : hd.masking
      · simp only [hm, if_false, Bool.false_eq_true] at hlen ⊢
        have e1 : List.drop hd.off (x ++ y) = List.drop hd.off x ++ y :=
          List.drop_append_of_le_length (by omega)
        have e2 : List.drop (hd.off + hd.plen) (x ++ y) = List.drop (hd.off + hd.plen) x ++ y :=
          List.drop_append_of_le_length (by omega)
        rw [e1, e2, List.take_append_of_le_length (by simp only [List.length_drop]; omega)]
      · simp only [hm, if_true] at hlen ⊢
        have e0 : List.drop hd.off (x ++ y) = List.drop hd.off x ++ y :=
          List.drop_append_of_le_length (by omega)
        have e1 : List.drop (hd.off + 4) (x ++ y) = List.drop (hd.off + 4) x ++ y :=
          List.drop_append_of_le_length (by omega)
        have e2 : List.drop (hd.off + 4 + hd.plen) (x ++ y) = List.drop (hd.off + 4 + hd.plen) x ++ y :=
          List.drop_append_of_le_length (by omega)
        rw [e0, e1, e2, List.take_append_of_le_length (by simp only [List.length_drop]; omega),
          List.take_append_of_le_length (by simp only [List.length_drop]; omega)]

theorem parseLoop_none {s : St} {d : Bytes} (h : parseFrame d = none) :
    parseLoop s d = ({ s with buffer := d }, []) := by
  rw [parseLoop]
  split
  · rfl
  · rename_i h2; rw [h] at h2; exact absurd h2 (by simp)

theorem parseLoop_some {s : St} {d : Bytes} {f : Frame} {rest : Bytes}
    (h : parseFrame d = some (f, rest)) :
    parseLoop s d =
      (if (applyFrame { s with buffer := [] } f).2.2 then
        ((applyFrame { s with buffer := [] } f).1, (applyFrame { s with buffer := [] } f).2.1)
       else
        ((parseLoop (applyFrame { s with buffer := [] } f).1 rest).1,
         (applyFrame { s with buffer := [] } f).2.1 ++
           (parseLoop (applyFrame { s with buffer := [] } f).1 rest).2)) := by
  rw [parseLoop]
  split
  · rename_i h2; rw [h] at h2; exact absurd h2 (by simp)
  · rename_i f' rest' h2
    rw [h] at h2
    have := Option.some.inj h2
    have h3 : f = f' := congrArg Prod.fst this
    have h4 : rest = rest' := congrArg Prod.snd this
    subst h3; subst h4
    rfl

theorem parseLoop_buffer (s : St) (b d : Bytes) :
    parseLoop { s with buffer := b } d = parseLoop s d := by
  cases h : parseFrame d with
  | none => rw [parseLoop_none h, parseLoop_none h]
  | some p =>
    obtain ⟨f, rest⟩ := p
    rw [parseLoop_some h, parseLoop_some h]

theorem applyFrame_stop {s : St} {f : Frame} (h : (applyFrame s f).2.2 = true) :
    (applyFrame s f).1.closeRecv = true := by
  unfold applyFrame at *
  repeat' split at h
  all_goals simp_all

theorem applyFrame_nostop {s : St} {f : Frame} (h : (applyFrame s f).2.2 = false) :
    (applyFrame s f).1.closeRecv = s.closeRecv := by
  unfold applyFrame at *
  by_cases h1 : f.fin = true <;> by_cases h2 : f.opcode < 8 <;> by_cases h3 : (f.opcode == 8) = true <;>
    by_cases h4 : (f.opcode == 9) = true <;> simp_all <;> (try (rw [if_neg (by omega)]))

theorem applyFrame_buffer (s : St) (f : Frame) : (applyFrame s f).1.buffer = s.buffer := by
  unfold applyFrame
  repeat' split
  all_goals rfl

/-- the loop is a homomorphism for `++` on the input (outputs concatenate, the carried
    buffer is exactly what the second half is prefixed with) -/
theorem parseLoop_hom (s : St) (x y : Bytes) (hs : s.closeRecv = false) :
    parseLoop s (x ++ y) =
      (if (parseLoop s x).1.closeRecv then parseLoop s x
       else ((parseLoop (parseLoop s x).1 ((parseLoop s x).1.buffer ++ y)).1,
             (parseLoop s x).2 ++ (parseLoop (parseLoop s x).1 ((parseLoop s x).1.buffer ++ y)).2)) := by
  induction hn : x.length using Nat.strongRecOn generalizing s x with
  | _ n ih =>
    cases h : parseFrame x with
    | none =>
      rw [parseLoop_none h]
      dsimp only
      rw [if_neg (by rw [hs]; simp), parseLoop_buffer s x, List.nil_append]
    | some p =>
      obtain ⟨f, rest⟩ := p
      have hlt := parseFrame_shrink h
      rw [parseLoop_some h, parseLoop_some (parseFrame_stable y h)]
      cases hstop : (applyFrame { s with buffer := [] } f).2.2
      · simp only [Bool.false_eq_true, if_false]
        have hc : (applyFrame { s with buffer := [] } f).1.closeRecv = false := by
          rw [applyFrame_nostop hstop]; exact hs
        rw [ih rest.length (by omega) _ rest hc rfl]
        split
        · rfl
        · simp only [List.append_assoc]
      · simp only [if_true]
        rw [applyFrame_stop hstop]
        simp

/-- the carried buffer never holds a complete frame -/
def St.wf (s : St) : Prop := parseFrame s.buffer = none

theorem parseFrame_nil : parseFrame [] = none := rfl

theorem wf_init : St.wf {} := parseFrame_nil

theorem parseLoop_wf (s : St) (d : Bytes) : (parseLoop s d).1.wf := by
  induction hn : d.length using Nat.strongRecOn generalizing s d with
  | _ n ih =>
    cases h : parseFrame d with
    | none => rw [parseLoop_none h]; exact h
    | some p =>
      obtain ⟨f, rest⟩ := p
      have hlt := parseFrame_shrink h
      rw [parseLoop_some h]
      split
      · show parseFrame (applyFrame { s with buffer := [] } f).1.buffer = none
        rw [applyFrame_buffer]; rfl
      · exact ih rest.length (by omega) _ rest rfl

theorem feed_wf (s : St) (d : Bytes) (h : s.wf) : (feed s d).1.wf := by
  unfold feed
  split
  · exact h
  · exact parseLoop_wf _ _

theorem feedAll_wf (s : St) (ds : List Bytes) (h : s.wf) : (feedAll s ds).1.wf := by
  induction ds generalizing s with
  | nil => exact h
  | cons d ds ih => exact ih _ (feed_wf s d h)

/-- two reads = one read of the concatenation -/
theorem feed_hom (s : St) (a b : Bytes) :
    ((feed (feed s a).1 b).1, (feed s a).2 ++ (feed (feed s a).1 b).2) = feed s (a ++ b) := by
  unfold feed
  cases hs : s.closeRecv
  · simp only [Bool.false_eq_true, if_false]
    rw [← List.append_assoc, parseLoop_hom s (s.buffer ++ a) b hs]
    split
    · simp
    · rfl
  · simp [hs]

/-- any segmentation = one read of the whole stream -/
theorem feedAll_flatten (s : St) (segs : List Bytes) (h : s.wf) :
    feedAll s segs = feed s segs.flatten := by
  induction segs generalizing s with
  | nil =>
    unfold feed feedAll
    split
    · rfl
    · simp only [List.flatten_nil, List.append_nil]
      rw [parseLoop_none h]
  | cons d ds ih =>
    simp only [feedAll, List.flatten_cons]
    rw [ih _ (feed_wf s d h), ← feed_hom]

/-! ### B. numbers, masking -/

theorem beOctets_length (k n : Nat) : (beOctets k n).length = k := by
  induction k with
  | zero => rfl
  | succ k ih => simp [beOctets, ih]

theorem foldl_beOctets (k n a : Nat) :
    (beOctets k n).foldl (fun acc b => acc * 256 + b.toNat) a = a * 256 ^ k + n % 256 ^ k := by
  induction k generalizing a with
  | zero => simp [beOctets, Nat.mod_one]
  | succ k ih =>
    simp only [beOctets, List.foldl_cons, ih, UInt8.toNat_ofNat']
    rw [Nat.mod_pow_succ (x := n) (b := 256) (k := k)]
    have : n / 256 ^ k % 256 % 2 ^ 8 = n / 256 ^ k % 256 := by omega
    rw [this]
    generalize n / 256 ^ k % 256 = q
    generalize n % 256 ^ k = r
    rw [Nat.pow_succ]
    generalize 256 ^ k = P
    grind

theorem beFold_beOctets (k n : Nat) (h : n < 256 ^ k) : beFold (beOctets k n) = n := by
  unfold beFold
  rw [foldl_beOctets, Nat.mod_eq_of_lt h]; simp

theorem beValue_beOctets (k n : Nat) : beValue (beOctets k n) = n % 256 ^ k := by
  induction k with
  | zero => simp [beOctets, beValue, Nat.mod_one]
  | succ k ih =>
    simp only [beOctets, beValue, ih, beOctets_length, UInt8.toNat_ofNat']
    rw [Nat.mod_pow_succ (x := n) (b := 256) (k := k)]
    have : n / 256 ^ k % 256 % 2 ^ 8 = n / 256 ^ k % 256 := by omega
    rw [this]
    generalize n / 256 ^ k % 256 = q
    generalize n % 256 ^ k = r
    generalize 256 ^ k = P
    grind

theorem beBytes_eq (k n : Nat) : beBytes k n = beOctets k n := by
  induction k with
  | zero => rfl
  | succ k ih =>
    simp only [beBytes, beOctets, ih]
    congr 2
    rw [Nat.shiftRight_eq_div_pow, show (0xFF : Nat) = 2 ^ 8 - 1 from rfl, Nat.and_two_pow_sub_one_eq_mod,
      Nat.mul_comm, Nat.pow_mul]

theorem Key.getD_toBytes (k : Key) (i : Nat) : k.toBytes.getD (i % 4) 0 = k.get i := by
  unfold Key.get Key.toBytes
  have h : i % 4 < 4 := Nat.mod_lt _ (by decide)
  generalize i % 4 = j at *
  match j, h with
  | 0, _ => rfl
  | 1, _ => rfl
  | 2, _ => rfl
  | 3, _ => rfl

theorem xorKey_eq_maskFrom (k : Key) (i : Nat) (p : Bytes) : xorKey k.toBytes i p = maskFrom k i p := by
  induction p generalizing i with
  | nil => rfl
  | cons c cs ih =>
    have h := ih (i + 1)
    unfold xorKey at h ⊢
    simp only [Key.getD_toBytes] at h
    simp only [List.zipIdx_cons, List.map_cons, maskFrom, Key.getD_toBytes, h]

theorem maskFrom_invol (k : Key) (i : Nat) (p : Bytes) : maskFrom k i (maskFrom k i p) = p := by
  induction p generalizing i with
  | nil => rfl
  | cons c cs ih => simp only [maskFrom, ih, UInt8.xor_assoc, UInt8.xor_self, UInt8.xor_zero]

theorem maskFrom_length (k : Key) (i : Nat) (p : Bytes) : (maskFrom k i p).length = p.length := by
  induction p generalizing i with
  | nil => rfl
  | cons c cs ih => simp only [maskFrom, List.length_cons, ih]

theorem hdr0_bits : ∀ (fin : Bool) (op : Fin 16),
    (((UInt8.ofNat ((if fin then 128 else 0) + op.val)) &&& 0x80) != 0) = fin ∧
    ((UInt8.ofNat ((if fin then 128 else 0) + op.val)) &&& 0xF).toNat = op.val := by decide

theorem hdr1_bits : ∀ (m : Bool) (l : Fin 128),
    (((UInt8.ofNat ((if m then 128 else 0) + l.val)) &&& 0x80) != 0) = m ∧
    ((UInt8.ofNat ((if m then 128 else 0) + l.val)) &&& 0x7F).toNat = l.val := by decide

theorem lenField_lt (n : Nat) : (lenField n).1 < 128 := by
  unfold lenField
  by_cases c1 : n ≤ 125
  · rw [if_pos c1]; show n < 128; omega
  · rw [if_neg c1]
    by_cases c2 : n < 65536
    · rw [if_pos c2]; show 126 < 128; omega
    · rw [if_neg c2]; show 127 < 128; omega

theorem parseHdr_encode (fin m : Bool) (op n : Nat) (hop : op < 16) (hn : n < 2 ^ 64) (X : Bytes) :
    parseHdr (UInt8.ofNat ((if fin then 128 else 0) + op) ::
        UInt8.ofNat ((if m then 128 else 0) + (lenField n).1) :: ((lenField n).2 ++ X))
      = some ⟨fin, op, m, n, 2 + (lenField n).2.length⟩ := by
  have h0 := hdr0_bits fin ⟨op, hop⟩
  have h1 := hdr1_bits m ⟨(lenField n).1, lenField_lt n⟩
  simp only at h0 h1
  unfold parseHdr
  simp only [h0.1, h0.2, h1.1, h1.2]
  by_cases c1 : n ≤ 125
  · have e : lenField n = (n, []) := by simp [lenField, c1]
    rw [e]
    simp only [List.nil_append, List.length_nil]
    rw [if_neg (by omega)]
  · by_cases c2 : n < 65536
    · have e : lenField n = (126, beOctets 2 n) := by simp [lenField, c1, c2]
      rw [e]
      simp only
      rw [if_pos (by omega)]
      have hl : ¬ (UInt8.ofNat ((if fin then 128 else 0) + op) :: UInt8.ofNat ((if m then 128 else 0) + 126) ::
          (beOctets 2 n ++ X)).length < 2 + extLen 126 := by
        simp [extLen, beOctets_length]
      rw [if_neg hl]
      simp only [List.drop_succ_cons, List.drop_zero, extLen, if_true]
      rw [List.take_left' (beOctets_length 2 n), beFold_beOctets 2 n (by omega), beOctets_length]
    · have e : lenField n = (127, beOctets 8 n) := by simp [lenField, c1, c2]
      rw [e]
      simp only
      rw [if_pos (by omega)]
      have hl : ¬ (UInt8.ofNat ((if fin then 128 else 0) + op) :: UInt8.ofNat ((if m then 128 else 0) + 127) ::
          (beOctets 8 n ++ X)).length < 2 + extLen 127 := by
        simp [extLen, beOctets_length]
      rw [if_neg hl]
      simp only [List.drop_succ_cons, List.drop_zero, extLen]
      rw [if_neg (by decide), List.take_left' (beOctets_length 8 n), beFold_beOctets 8 n (by omega), beOctets_length]

theorem parseFrame_of_hdr {data H K B rest : Bytes} {hd : Hdr} (hh : parseHdr data = some hd)
    (hdata : data = H ++ (K ++ (B ++ rest))) (hH : H.length = hd.off)
    (hK : K.length = if hd.masking then 4 else 0) (hB : B.length = hd.plen) :
    parseFrame data = some (⟨hd.fin, hd.opcode, if hd.masking then xorKey K 0 B else B⟩, rest) := by
  unfold parseFrame
  rw [hh]
  simp only
  have hlen : data.length = hd.off + (if hd.masking then 4 else 0) + hd.plen + rest.length := by
    rw [hdata]; simp only [List.length_append]; omega
  cases hm : hd.masking
  · simp only [hm, Bool.false_eq_true, if_false] at hK hlen ⊢
    have hK0 : K = [] := List.eq_nil_of_length_eq_zero hK
    subst hK0
    rw [if_neg (by omega)]
    have d1 : List.drop hd.off data = B ++ rest := by
      rw [hdata]; exact List.drop_left' hH
    have d2 : List.drop (hd.off + hd.plen) data = rest := by
      rw [hdata, List.nil_append, ← List.append_assoc]
      exact List.drop_left' (by simp only [List.length_append]; omega)
    rw [d1, d2, List.take_left' hB]
  · simp only [hm, if_true] at hK hlen ⊢
    rw [if_neg (by omega)]
    have d0 : List.drop hd.off data = K ++ (B ++ rest) := by
      rw [hdata]; exact List.drop_left' hH
    have d1 : List.drop (hd.off + 4) data = B ++ rest := by
      rw [hdata, ← List.append_assoc]
      exact List.drop_left' (by simp only [List.length_append]; omega)
    have d2 : List.drop (hd.off + 4 + hd.plen) data = rest := by
      rw [hdata, ← List.append_assoc, ← List.append_assoc]
      exact List.drop_left' (by simp only [List.length_append]; omega)
    rw [d0, d1, d2, List.take_left' hB, List.take_left' hK]

theorem Key.toBytes_length (k : Key) : k.toBytes.length = 4 := rfl

/-- the codec's frame analysis inverts the RFC encoder -/
theorem parseFrame_encode (f : RFrame) (hop : f.opcode < 16) (hn : f.payload.length < 2 ^ 64)
    (rest : Bytes) :
    parseFrame (rfcEncodeFrame f ++ rest) = some (⟨f.fin, f.opcode, f.payload⟩, rest) := by
  obtain ⟨fin, op, key, payload⟩ := f
  cases key with
  | none =>
    have hh := parseHdr_encode fin false op payload.length hop hn (payload ++ rest)
    have := parseFrame_of_hdr (K := []) (B := payload) (rest := rest)
      (H := UInt8.ofNat ((if fin then 128 else 0) + op) ::
        UInt8.ofNat ((if false then 128 else 0) + (lenField payload.length).1) :: (lenField payload.length).2)
      hh (by simp) (by simp only [List.length_cons]; omega) (by simp) rfl
    simp only [Bool.false_eq_true, if_false] at this
    rw [← this]
    simp [rfcEncodeFrame]
  | some k =>
    have hh := parseHdr_encode fin true op payload.length hop hn
      (k.toBytes ++ (maskFrom k 0 payload ++ rest))
    have := parseFrame_of_hdr (K := k.toBytes) (B := maskFrom k 0 payload) (rest := rest)
      (H := UInt8.ofNat ((if fin then 128 else 0) + op) ::
        UInt8.ofNat ((if true then 128 else 0) + (lenField payload.length).1) :: (lenField payload.length).2)
      hh (by simp) (by simp only [List.length_cons]; omega) (by simp [Key.toBytes_length]) (maskFrom_length k 0 payload)
    simp only [if_true, xorKey_eq_maskFrom, maskFrom_invol] at this
    rw [← this]
    simp [rfcEncodeFrame]


/-! ### C. frame lists -/

/-- decoder state vs. the message being assembled in the specification -/
def Rel (s : St) : Option (Bool × Bytes) → Prop
  | none => s.pending = []
  | some (t, acc) => s.pending = acc ∧ s.ptype = some (if t then 1 else 2)

def curTag : Option (Bool × Bytes) → Option Unit
  | none => none
  | some _ => some ()

theorem rfcEncodeFrames_cons (f : RFrame) (fs : List RFrame) (tail : Bytes) :
    rfcEncodeFrames (f :: fs) ++ tail = rfcEncodeFrame f ++ (rfcEncodeFrames fs ++ tail) := by
  simp [rfcEncodeFrames, List.flatMap_cons, List.append_assoc]

theorem conforming_cons {cur : Option Unit} {f : RFrame} {fs : List RFrame}
    (h : conforming cur (f :: fs) = true) :
    f.payload.length < 2 ^ 63 ∧
    (if f.opcode = 8 then f.fin = true
     else if f.opcode = 9 ∨ f.opcode = 10 then f.fin = true ∧ conforming cur fs = true
     else match cur with
       | none => (f.opcode = 1 ∨ f.opcode = 2) ∧ conforming (if f.fin then none else some ()) fs = true
       | some _ => f.opcode = 0 ∧ conforming (if f.fin then none else some ()) fs = true) := by
  unfold conforming at h
  simp only [Bool.and_eq_true, decide_eq_true_eq] at h
  refine ⟨h.1, ?_⟩
  have h2 := h.2
  split
  · rename_i h8; rw [if_pos h8] at h2; simp only [Bool.and_eq_true, decide_eq_true_eq] at h2; exact h2.1
  · rename_i h8
    rw [if_neg h8] at h2
    split
    · rename_i h9; rw [if_pos h9] at h2; simp only [Bool.and_eq_true, decide_eq_true_eq] at h2
      exact ⟨h2.1.1, h2.2⟩
    · rename_i h9
      rw [if_neg h9] at h2
      cases cur with
      | none => simpa using h2
      | some u => simpa using h2

theorem parseLoop_frames (cs : Bool) (fs : List RFrame) (tail : Bytes) :
    ∀ (s : St) (cur : Option (Bool × Bytes)),
      conforming (curTag cur) fs = true → Rel s cur → s.closeSent = cs →
      (parseFrame tail = none ∨ fs.any (fun f => f.opcode == 8) = true) →
      (parseLoop s (rfcEncodeFrames fs ++ tail)).2 = expected cs cur fs ∧
      (parseLoop s (rfcEncodeFrames fs ++ tail)).1.closeRecv
        = (s.closeRecv || fs.any (fun f => f.opcode == 8)) := by
  induction fs with
  | nil =>
    intro s cur _ _ _ ht
    have ht' : parseFrame tail = none := by simpa using ht
    simp [rfcEncodeFrames, parseLoop_none ht', expected]
  | cons f fs ih =>
    intro s cur hc hr hcs ht
    subst hcs
    obtain ⟨hlen, hcase⟩ := conforming_cons hc
    rw [rfcEncodeFrames_cons]
    by_cases h8 : f.opcode = 8
    · rw [if_pos h8] at hcase
      rw [parseLoop_some (parseFrame_encode f (by omega) (by omega) _)]
      simp [applyFrame, expected, h8, hcase]
    · rw [if_neg h8] at hcase
      have ht2 : parseFrame tail = none ∨ fs.any (fun f => f.opcode == 8) = true := by
        rcases ht with h | h
        · exact Or.inl h
        · simp only [List.any_cons, Bool.or_eq_true, beq_iff_eq] at h
          rcases h with h | h
          · exact absurd h h8
          · exact Or.inr h
      by_cases h9 : f.opcode = 9 ∨ f.opcode = 10
      · rw [if_pos h9] at hcase
        have hop : f.opcode < 16 := by omega
        rw [parseLoop_some (parseFrame_encode f hop (by omega) _)]
        have hr' : Rel { s with buffer := [] } cur := by cases cur <;> exact hr
        obtain ⟨ih1, ih2⟩ := ih { s with buffer := [] } cur hcase.2 hr' rfl ht2
        rcases h9 with h9 | h9
        · simp [applyFrame, expected, h9, hcase.1, ih1, ih2]
        · simp [applyFrame, expected, h9, hcase.1, ih1, ih2]
      · rw [if_neg h9] at hcase
        cases cur with
        | none =>
          simp only [curTag] at hcase
          obtain ⟨hop, hconf⟩ := hcase
          have hr0 : s.pending = [] := hr
          rw [parseLoop_some (parseFrame_encode f (by omega) (by omega) _)]
          cases hfin : f.fin
          · rw [hfin] at hconf
            have hr' : Rel { s with buffer := [], pending := f.payload, ptype := some f.opcode }
                (some (decide (f.opcode = 1), f.payload)) := by
              refine ⟨rfl, ?_⟩
              rcases hop with h | h <;> simp [h]
            obtain ⟨ih1, ih2⟩ := ih _ (some (decide (f.opcode = 1), f.payload)) (by simpa [curTag] using hconf) hr' rfl ht2
            rcases hop with h | h <;> simp [applyFrame, expected, h, hfin, hr0, ih1, ih2] <;> simp_all
          · rw [hfin] at hconf
            have hr' : Rel { s with buffer := [], pending := [], ptype := none } none := rfl
            obtain ⟨ih1, ih2⟩ := ih _ none (by simpa [curTag] using hconf) hr' rfl ht2
            rcases hop with h | h <;> simp [applyFrame, expected, h, hfin, hr0, ih1, ih2] <;> simp_all
        | some ta =>
          obtain ⟨t, acc⟩ := ta
          simp only [curTag] at hcase
          obtain ⟨hop, hconf⟩ := hcase
          obtain ⟨hp, hpt⟩ := hr
          rw [parseLoop_some (parseFrame_encode f (by omega) (by omega) _)]
          cases hfin : f.fin
          · rw [hfin] at hconf
            have hr' : Rel { s with buffer := [], pending := acc ++ f.payload } (some (t, acc ++ f.payload)) :=
              ⟨rfl, hpt⟩
            obtain ⟨ih1, ih2⟩ := ih _ (some (t, acc ++ f.payload)) (by simpa [curTag] using hconf) hr' rfl ht2
            simp [applyFrame, expected, hop, hfin, hp, ih1, ih2] <;> simp_all
          · rw [hfin] at hconf
            have hr' : Rel { s with buffer := [], pending := [], ptype := none } none := rfl
            obtain ⟨ih1, ih2⟩ := ih _ none (by simpa [curTag] using hconf) hr' rfl ht2
            cases t <;> simp [applyFrame, expected, hop, hfin, hp, hpt, ih1, ih2] <;> simp_all


/-! ### D. the encoder, the strict RFC decoder -/

theorem or128 : ∀ l : Fin 128, (l.val ||| 0x80) = 128 + l.val := by decide

theorem encodeTail_eq (data : Bytes) (mask : Bool) (k : Key) :
    encodeTail data mask k.toBytes =
      UInt8.ofNat ((if mask then 128 else 0) + (lenField data.length).1) ::
        ((lenField data.length).2 ++ (if mask then k.toBytes ++ maskFrom k 0 data else data)) := by
  unfold encodeTail lenField
  simp only [thr7, thr16, beBytes_eq, xorKey_eq_maskFrom]
  by_cases c1 : data.length ≤ 125
  · have := or128 ⟨data.length, by omega⟩
    simp only at this
    cases mask <;> simp [c1, this, beOctets]
  · by_cases c2 : data.length ≤ 65535
    · have c2' : data.length < 65536 := by omega
      have := or128 ⟨126, by omega⟩
      cases mask <;> simp [c1, c2, c2'] <;> rfl
    · have c2' : ¬ data.length < 65536 := by omega
      cases mask <;> simp [c1, c2, c2'] <;> rfl

theorem onWrite_eq (s : St) (client text : Bool) (data : Bytes) (k : Key) (h : s.closeSent = false) :
    onWrite s client text data k.toBytes =
      some (rfcEncodeFrame ⟨true, if text then 1 else 2, if client then some k else none, data⟩) := by
  unfold onWrite rfcEncodeFrame
  rw [if_neg (by simp [h]), encodeTail_eq]
  cases client <;> cases text <;> simp

theorem pongFrame_eq (client : Bool) (payload : Bytes) (k : Key) :
    pongFrame client payload k.toBytes =
      rfcEncodeFrame ⟨true, 10, if client then some k else none, payload⟩ := by
  unfold pongFrame rfcEncodeFrame
  rw [encodeTail_eq]
  cases client <;> simp <;> rfl

theorem rfcExtLen_encode (n : Nat) (hn : n < 2 ^ 63) (R1 : Bytes) :
    rfcExtLen (lenField n).1 ((lenField n).2 ++ R1) = some (n, R1) := by
  unfold rfcExtLen lenField
  by_cases c1 : n ≤ 125
  · simp [c1]
  · by_cases c2 : n < 65536
    · have hv : beValue (beOctets 2 n) = n := by rw [beValue_beOctets, Nat.mod_eq_of_lt (by omega)]
      simp only [c1, c2, if_true, if_false]
      have hlen : ¬ (beOctets 2 n ++ R1).length < 2 := by simp [beOctets_length]
      rw [if_neg hlen,
        List.take_left' (beOctets_length 2 n), List.drop_left' (beOctets_length 2 n), hv, if_neg c1]
      simp
    · have hv : beValue (beOctets 8 n) = n := by rw [beValue_beOctets, Nat.mod_eq_of_lt (by omega)]
      simp only [c1, c2, if_false]
      have hlen : ¬ (beOctets 8 n ++ R1).length < 8 := by simp [beOctets_length]
      have hc : ¬ (n < 65536 ∨ n ≥ 2 ^ 63) := by omega
      rw [if_neg hlen,
        List.take_left' (beOctets_length 8 n), List.drop_left' (beOctets_length 8 n), hv, if_neg hc]
      simp

theorem rfcBody_unmasked (fin : Bool) (op : Nat) (payload rest : Bytes) :
    rfcBody fin op false payload.length (payload ++ rest) = some (⟨fin, op, none, payload⟩, rest) := by
  unfold rfcBody
  simp

theorem rfcBody_masked (fin : Bool) (op : Nat) (k : Key) (payload rest : Bytes) :
    rfcBody fin op true payload.length (k.toBytes ++ (maskFrom k 0 payload ++ rest))
      = some (⟨fin, op, some k, payload⟩, rest) := by
  unfold rfcBody Key.toBytes
  simp only [if_true, List.cons_append, List.nil_append]
  rw [if_neg (by simp [maskFrom_length]),
    List.take_left' (maskFrom_length k 0 payload), List.drop_left' (maskFrom_length k 0 payload),
    maskFrom_invol]

/-- the strict RFC decoder inverts the RFC encoder (spec-internal sanity + used for
    `encode_conforms`) -/
theorem rfcDecodeFrame_encode (f : RFrame) (hop : f.opcode < 16) (hn : f.payload.length < 2 ^ 63)
    (rest : Bytes) : rfcDecodeFrame (rfcEncodeFrame f ++ rest) = some (f, rest) := by
  obtain ⟨fin, op, key, payload⟩ := f
  simp only at hop hn
  have hl := lenField_lt payload.length
  have hb0 : (UInt8.ofNat ((if fin then 128 else 0) + op)).toNat = (if fin then 128 else 0) + op := by
    rw [UInt8.toNat_ofNat']; cases fin <;> simp <;> omega
  have hb1 : ∀ m : Bool, (UInt8.ofNat ((if m then 128 else 0) + (lenField payload.length).1)).toNat
      = (if m then 128 else 0) + (lenField payload.length).1 := by
    intro m; rw [UInt8.toNat_ofNat']; cases m <;> simp <;> omega
  have e1 : ((if fin then 128 else 0) + op) / 16 % 8 = 0 := by cases fin <;> simp <;> omega
  have e2 : ((if fin then 128 else 0) + op) % 16 = op := by cases fin <;> simp <;> omega
  have e3 : decide (((if fin then 128 else 0) + op) ≥ 128) = fin := by cases fin <;> simp <;> omega
  have e4 : ∀ m : Bool, ((if m then 128 else 0) + (lenField payload.length).1) % 128
      = (lenField payload.length).1 := by intro m; cases m <;> simp <;> omega
  have e5 : ∀ m : Bool, decide (((if m then 128 else 0) + (lenField payload.length).1) ≥ 128) = m := by
    intro m; cases m <;> simp <;> omega
  cases key with
  | none =>
    simp only [rfcEncodeFrame, Option.isSome_none, List.cons_append, List.append_assoc, rfcDecodeFrame]
    simp only [hb0, hb1 false, e1, e2, e3, e4 false, e5 false, ne_eq, not_true, if_false]
    rw [rfcExtLen_encode _ hn]
    exact rfcBody_unmasked fin op payload rest
  | some k =>
    have hb1t := hb1 true
    have e4t := e4 true
    have e5t := e5 true
    simp only [if_true] at hb1t e4t e5t
    simp only [rfcEncodeFrame, Option.isSome_some, List.cons_append, List.append_assoc, rfcDecodeFrame, if_true]
    simp only [hb0, hb1t, e1, e2, e3, e4t, e5t, ne_eq, not_true, if_false]
    rw [rfcExtLen_encode _ hn]
    exact rfcBody_masked fin op k payload rest

theorem rfcEncodeFrame_length (f : RFrame) : 2 ≤ (rfcEncodeFrame f).length := by
  unfold rfcEncodeFrame
  cases f.key <;> simp <;> omega

theorem rfcDecodeFuel_single {x : Bytes} {f : RFrame} (m : Nat)
    (hd : rfcDecodeFrame x = some (f, [])) : rfcDecodeFuel (m + 1) x = some [f] := by
  cases x with
  | nil => simp [rfcDecodeFrame] at hd
  | cons b x =>
    simp only [rfcDecodeFuel, hd]

theorem rfcDecodeFrames_single (f : RFrame) (hop : f.opcode < 16) (hn : f.payload.length < 2 ^ 63) :
    rfcDecodeFrames (rfcEncodeFrame f) = some [f] := by
  unfold rfcDecodeFrames
  have h2 := rfcEncodeFrame_length f
  have hd := rfcDecodeFrame_encode f hop hn []
  rw [List.append_nil] at hd
  obtain ⟨m, hm⟩ : ∃ m, (rfcEncodeFrame f).length = m + 1 := ⟨(rfcEncodeFrame f).length - 1, by omega⟩
  rw [hm]
  exact rfcDecodeFuel_single m hd


/-! ### E. closing -/

theorem applyFrame_close_flag {s : St} {f : Frame} (h : Out.closeEvt ∈ (applyFrame s f).2.1) :
    (applyFrame s f).2.2 = true := by
  unfold applyFrame at *
  by_cases h1 : f.fin = true <;> by_cases h2 : f.opcode < 8 <;> by_cases h3 : (f.opcode == 8) = true <;>
    by_cases h4 : (f.opcode == 9) = true <;> by_cases h5 : s.closeSent = true <;> simp_all

theorem parseLoop_close_flag (s : St) (d : Bytes) (h : Out.closeEvt ∈ (parseLoop s d).2) :
    (parseLoop s d).1.closeRecv = true := by
  induction hn : d.length using Nat.strongRecOn generalizing s d with
  | _ n ih =>
    cases hp : parseFrame d with
    | none => rw [parseLoop_none hp] at h; simp at h
    | some p =>
      obtain ⟨f, rest⟩ := p
      have hlt := parseFrame_shrink hp
      rw [parseLoop_some hp] at h ⊢
      cases hstop : (applyFrame { s with buffer := [] } f).2.2
      · rw [hstop] at h
        simp only [Bool.false_eq_true, if_false, List.mem_append] at h ⊢
        rcases h with h | h
        · rw [applyFrame_close_flag h] at hstop; exact absurd hstop (by simp)
        · exact ih rest.length (by omega) _ rest h rfl
      · simp only [if_true]
        exact applyFrame_stop hstop

theorem feedAll_closed (s : St) (ds : List Bytes) (h : s.closeRecv = true) :
    feedAll s ds = (s, []) := by
  induction ds with
  | nil => rfl
  | cons d ds ih => simp [feedAll, feed, h, ih]

/-! ### F. messages, fragments, interleaved control frames -/

theorem expected_ctls (cur : Option (Bool × Bytes)) (cs : List Ctl) (X : List RFrame) :
    expected false cur (cs.map Ctl.frame ++ X) = pongs cs ++ expected false cur X := by
  induction cs with
  | nil => rfl
  | cons c cs ih =>
    cases hp : c.ping <;> simp [expected, Ctl.frame, pongs, hp, ih] <;> rfl

theorem conforming_ctls (cur : Option Unit) (cs : List Ctl) (X : List RFrame)
    (hok : cs.all Ctl.ok = true) (hX : conforming cur X = true) :
    conforming cur (cs.map Ctl.frame ++ X) = true := by
  induction cs with
  | nil => exact hX
  | cons c cs ih =>
    simp only [List.all_cons, Bool.and_eq_true] at hok
    have h1 : c.payload.length ≤ 125 := by simpa [Ctl.ok] using hok.1
    have := ih hok.2
    cases hp : c.ping <;> simp [conforming, Ctl.frame, hp, this] <;> omega

theorem expected_more (t : Bool) (more : List (List Ctl × Frag)) (hne : more ≠ []) :
    ∀ (acc : Bytes) (X : List RFrame),
    expected false (some (t, acc)) (moreFrames more ++ X) =
      more.flatMap (fun p => pongs p.1) ++
        Out.message t (acc ++ (more.map (fun p => p.2.payload)).flatten) :: expected false none X := by
  induction more with
  | nil => exact absurd rfl hne
  | cons p rest ih =>
    intro acc X
    obtain ⟨cs, fr⟩ := p
    simp only [moreFrames, List.append_assoc, List.cons_append, expected_ctls]
    cases rest with
    | nil => simp [expected, moreFrames]
    | cons q rest' =>
      have := ih (by simp) (acc ++ fr.payload) X
      simp [expected, this, List.append_assoc]

theorem conforming_more (more : List (List Ctl × Frag)) (hne : more ≠ []) (hok : moreOk more = true)
    (X : List RFrame) (hX : conforming none X = true) :
    conforming (some ()) (moreFrames more ++ X) = true := by
  induction more with
  | nil => exact absurd rfl hne
  | cons p rest ih =>
    obtain ⟨cs, fr⟩ := p
    simp only [moreOk, List.all_cons, Bool.and_eq_true, decide_eq_true_eq] at hok
    obtain ⟨⟨hcs, hfr⟩, hrest⟩ := hok
    simp only [moreFrames, List.append_assoc, List.cons_append]
    apply conforming_ctls _ _ _ hcs
    cases rest with
    | nil => simp [conforming, moreFrames, hfr, hX]
    | cons q rest' =>
      have := ih (by simp) (by simpa [moreOk] using hrest)
      simp [conforming, hfr, this]

theorem expected_item (it : Item) (X : List RFrame) :
    expected false none (it.frames ++ X) = it.outs ++ expected false none X := by
  cases it with
  | ctl c =>
    have := expected_ctls none [c] X
    simpa [Item.frames, Item.outs] using this
  | msg m =>
    obtain ⟨text, first, more⟩ := m
    cases more with
    | nil => cases text <;> simp [Item.frames, Item.outs, Msg.frames, Msg.payload, moreFrames, expected]
    | cons p rest =>
      have := expected_more text (p :: rest) (by simp) first.payload X
      cases text <;> simp [Item.frames, Item.outs, Msg.frames, Msg.payload, expected, this]

theorem conforming_item (it : Item) (hok : it.ok = true) (X : List RFrame) (hX : conforming none X = true) :
    conforming none (it.frames ++ X) = true := by
  cases it with
  | ctl c =>
    have := conforming_ctls none [c] X (by simpa [Item.ok] using hok) hX
    simpa [Item.frames] using this
  | msg m =>
    obtain ⟨text, first, more⟩ := m
    simp only [Item.ok, Bool.and_eq_true, decide_eq_true_eq] at hok
    cases more with
    | nil => cases text <;> simp [Item.frames, Msg.frames, moreFrames, conforming, hok.1, hX]
    | cons p rest =>
      have := conforming_more (p :: rest) (by simp) hok.2 X hX
      cases text <;> simp [Item.frames, Msg.frames, conforming, hok.1, this]

theorem expected_items (items : List Item) (X : List RFrame) :
    expected false none (items.flatMap Item.frames ++ X) = items.flatMap Item.outs ++ expected false none X := by
  induction items with
  | nil => rfl
  | cons it items ih => simp [List.flatMap_cons, List.append_assoc, expected_item, ih]

theorem conforming_items (items : List Item) (hok : items.all Item.ok = true) (X : List RFrame)
    (hX : conforming none X = true) : conforming none (items.flatMap Item.frames ++ X) = true := by
  induction items with
  | nil => exact hX
  | cons it items ih =>
    simp only [List.all_cons, Bool.and_eq_true] at hok
    simp only [List.flatMap_cons, List.append_assoc]
    exact conforming_item it hok.1 _ (ih hok.2)


end WS
end CV

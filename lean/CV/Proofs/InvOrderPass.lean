import CV.Proofs.InvOrderPassBase
/-
C02, machine level, second round, part 2: `passOrderOk` holds of the machine's own log.

Invariant `O2PI c` of guarded runs (`ReachSR`: every step is taken from a configuration that has
the single root 0 and does not drain a non-empty deque):
  * every queue satisfies the layer invariant `QInv`;
  * the replay state of the log (`o2pass`) corresponds to the queue of component 0
    (`O2Corr`): it is `ok`, `pending` is the deque, `count` the counter, and `expected` is the heap
    in `(prio, seq)` order - preceded by the event just popped while its `_dispatcher` frame is
    still on top of the stack;
  * `_dispatcher` frames occur only on top of the stack, with no exception pending; dispatch loops
    run on component 0.
-/
namespace CV.Core

/-! ## the order of a heap -/

def QItem.toP (x : QItem) : PItem := ⟨x.prio, x.seq, x.ev⟩

/-- the events of a heap in the order `heappop` returns them -/
def o2order (heap : List QItem) : List Nat := (heap.mergeSort (fun a b => a.le b)).map (·.ev)

theorem o2order_nil : o2order [] = [] := by simp [o2order]

/-- the snapshot `passStep` sorts is the deque the machine moves into the heap -/
theorem o2order_begin (queue : List QItem) :
    ((queue.map QItem.toP).mergeSort (fun a b => a.le b)).map (·.ev) = o2order queue := by
  unfold o2order
  rw [← List.map_mergeSort (r := fun a b => QItem.le a b) (f := QItem.toP) (fun a _ b _ => rfl), List.map_map]
  rfl

/-- popping a minimum = taking the head of the sorted heap -/
theorem o2order_pop {heap : List QItem} {it : QItem} (hne : heap.Pairwise (fun a b => a.seq ≠ b.seq))
    (hit : it ∈ minCands heap) : o2order heap = it.ev :: o2order (heap.erase it) := by
  have hmem := (mem_minCands hit).1
  have hle := minCands_le hit
  have hsorted : (heap.erase it).mergeSort (fun a b => a.le b) |>.Pairwise (fun a b => a.le b = true) := by
    have := List.pairwise_mergeSort (le := fun a b : QItem => a.le b)
      (fun a b c h1 h2 => QItem.le_trans h1 h2) (fun a b => by simpa using QItem.le_total a b) (heap.erase it)
    exact this.imp (fun h => by simpa using h)
  have hperm : (it :: (heap.erase it).mergeSort (fun a b => a.le b)).Perm heap :=
    ((List.mergeSort_perm _ _).cons it).trans (List.perm_cons_erase hmem).symm
  have hs : (it :: (heap.erase it).mergeSort (fun a b => a.le b)).Pairwise (fun a b => a.le b = true) := by
    rw [List.pairwise_cons]
    refine ⟨?_, hsorted⟩
    intro x hx
    exact hle x (List.mem_of_mem_erase ((List.mergeSort_perm _ _).subset hx))
  have := sorted_eq_mergeSort hperm hne hs
  unfold o2order
  rw [← this]
  rfl

/-! ## correspondence between the replay state and a queue -/

structure O2Corr (P : PassSt) (q : EQ) (exp : List Nat) : Prop where
  ok : P.ok = true
  pending : P.pending = q.queue.map QItem.toP
  count : P.count = q.counter
  expected : P.expected = exp

theorem O2Corr.fires {exp : List Nat} : ∀ (fires : List (Nat × Int)) (P : PassSt) (q : EQ), O2Corr P q exp →
    O2Corr (fires.foldl pfire P) (runOps q (fires.map fun f => QOp.app f.1 f.2)).1 exp ∧
    (runOps q (fires.map fun f => QOp.app f.1 f.2)).1.heap = q.heap
  | [], _, _, h => ⟨h, rfl⟩
  | f :: fires, P, q, h => by
    have h1 : O2Corr (pfire P f) (q.append f.1 f.2) exp := by
      refine ⟨h.ok, ?_, ?_, h.expected⟩
      · simp only [pfire, EQ.append, List.map_append, List.map_cons, List.map_nil, h.pending, h.count]
        rfl
      · simp only [pfire, EQ.append, h.count]
    have h2 := O2Corr.fires fires (pfire P f) (q.append f.1 f.2) h1
    simp only [List.map_cons, List.foldl_cons, runOps, QOp.apply]
    exact ⟨h2.1, h2.2.trans rfl⟩

theorem o2pass_of_log {s t : St} (h : t.log = s.log) : o2pass t = o2pass s := by
  unfold o2pass; rw [h]

/-! ## the invariant -/

def Frame.o2isDispatcher : Frame → Bool
  | .dispatcher .. => true
  | _ => false

/-- what `expected` must be: the heap order, preceded by the popped event while its
    `_dispatcher` frame is on top -/
def o2exp (c : Cfg) : List Nat :=
  match c.stack with
  | .dispatcher _ e _ :: _ => e :: o2order (c.st.comp 0).eq.heap
  | _ => o2order (c.st.comp 0).eq.heap

theorem o2exp_of_top {c : Cfg} {f : Frame} {k : List Frame} (hst : c.stack = f :: k) (hf : f.o2isDispatcher = false) :
    o2exp c = o2order (c.st.comp 0).eq.heap := by
  unfold o2exp; rw [hst]
  cases f <;> first | rfl | (simp [Frame.o2isDispatcher] at hf)

theorem o2exp_of_nil {c : Cfg} (hst : c.stack = []) : o2exp c = o2order (c.st.comp 0).eq.heap := by
  unfold o2exp; rw [hst]

structure O2PI (c : Cfg) : Prop where
  qinv : Q2InvAll c.st
  corr : O2Corr (o2pass c.st) (c.st.comp 0).eq (o2exp c)
  tail : (c.stack.tail.all fun g => !g.o2isDispatcher) = true
  top : ∀ r e rem k, c.stack = .dispatcher r e rem :: k → c.exn = none ∧ r = 0
  loops : ∀ r, Frame.dispatchLoop r ∈ c.stack → r = 0

theorem o2nodisp_mem {fs : List Frame} (h : o2nodisp fs = true) {g : Frame} (hg : g ∈ fs) : g.o2isDisp = false := by
  unfold o2nodisp at h
  rw [List.all_eq_true] at h
  simpa using h g hg

theorem Frame.o2isDispatcher_of {g : Frame} (h : g.o2isDisp = false) : g.o2isDispatcher = false := by
  cases g <;> first | rfl | (simp [Frame.o2isDisp] at h)

theorem Frame.o2notLoop_of {g : Frame} (h : g.o2isDisp = false) (r : Nat) : g ≠ .dispatchLoop r := by
  intro he; rw [he] at h; simp [Frame.o2isDisp] at h

/-- stack facts after an arm that pushes neither `_dispatcher` nor dispatch-loop frames -/
theorem O2PI.stack_generic {c c' : Cfg} {f : Frame} {k fs : List Frame} (hi : O2PI c) (hst : c.stack = f :: k)
    (hst' : c'.stack = fs ++ k) (hfs : o2nodisp fs = true) :
    (c'.stack.all fun g => !g.o2isDispatcher) = true ∧ (∀ r, Frame.dispatchLoop r ∈ c'.stack → r = 0) := by
  have htail := hi.tail
  rw [hst, List.tail_cons, List.all_eq_true] at htail
  refine ⟨?_, ?_⟩
  · rw [hst', List.all_eq_true]
    intro g hg
    rcases List.mem_append.mp hg with h | h
    · simp [Frame.o2isDispatcher_of (o2nodisp_mem hfs h)]
    · exact htail g h
  · intro r hr
    rw [hst'] at hr
    rcases List.mem_append.mp hr with h | h
    · exact absurd rfl (Frame.o2notLoop_of (o2nodisp_mem hfs h) r)
    · exact hi.loops r (by rw [hst]; exact List.mem_cons_of_mem _ h)

theorem o2_all_nodispatcher {st : List Frame} (h : (st.all fun g => !g.o2isDispatcher) = true) :
    (st.tail.all fun g => !g.o2isDispatcher) = true ∧ (∀ r e rem k, st ≠ .dispatcher r e rem :: k) ∧
    (∀ (st' : St) (c : Cfg), c.stack = st → c.st = st' → o2exp c = o2order (st'.comp 0).eq.heap) := by
  refine ⟨?_, ?_, ?_⟩
  · cases st with
    | nil => rfl
    | cons f k => rw [List.all_cons, Bool.and_eq_true] at h; exact h.2
  · intro r e rem k he
    rw [he, List.all_cons] at h
    simp [Frame.o2isDispatcher] at h
  · intro st' c hc hs
    cases st with
    | nil => rw [o2exp_of_nil hc, hs]
    | cons f k =>
      rw [List.all_cons, Bool.and_eq_true] at h
      rw [o2exp_of_top hc (by simpa using h.1), hs]

/-- a pass-neutral arm -/
theorem O2PI.generic {c c' : Cfg} {f : Frame} {k : List Frame} (hi : O2PI c) (hst : c.stack = f :: k)
    (hf : f.o2isDispatcher = false) (hsr : O2SR c.st) (hq : Q2InvAll c'.st) (hg : O2PG k c.st c') : O2PI c' := by
  obtain ⟨fs, hst', hfs⟩ := hg.push
  obtain ⟨fires, heq, hpass⟩ := hg.rel hsr
  obtain ⟨h1, h2⟩ := hi.stack_generic hst hst' hfs
  obtain ⟨h3, h4, h5⟩ := o2_all_nodispatcher h1
  have hc := hi.corr
  rw [o2exp_of_top hst hf] at hc
  obtain ⟨h6, h7⟩ := O2Corr.fires fires _ _ hc
  refine ⟨hq, ?_, h3, fun r e rem k' he => absurd he (h4 r e rem k'), h2⟩
  rw [h5 c'.st c' rfl rfl, hpass, heq, h7]
  exact h6

/-! ## the special arms -/

theorem o2p_updateRootAll_log : ∀ (fuel : Nat) (todo : List Nat) (root : Nat) (t : St),
    (St.updateRootAll fuel todo root t).log = t.log := by
  intro fuel
  induction fuel with
  | zero => intro todo root t; simp [St.updateRootAll]
  | succ n ih =>
    intro todo root t
    cases todo with
    | nil => simp [St.updateRootAll]
    | cons x rest => simp only [St.updateRootAll]; rw [ih]; rfl

theorem O2PFires.updateRootAll {s t : St} {fires : List (Nat × Int)} (h : O2PFires s t fires)
    (fuel : Nat) (todo : List Nat) (root : Nat) : O2PFires s (St.updateRootAll fuel todo root t) fires :=
  ⟨by rw [St.q2_eq_updateRootAll]; exact h.eq, by rw [o2pass_of_log (o2p_updateRootAll_log fuel todo root t)]; exact h.pass⟩

theorem Cfg.updateRoot_o2p (c : Cfg) (k : List Frame) (todo : List Nat) (root : Nat) :
    O2PG k c.st (c.updateRoot k todo root) := by
  unfold Cfg.updateRoot
  exact ⟨fun _ => ⟨[], O2PFires.updateRootAll ⟨rfl, rfl⟩ _ _ _⟩, [], rfl, rfl⟩

theorem Cfg.invoke_o2p (c : Cfg) (k : List Frame) (r h e : Nat) : O2PG k c.st (c.invoke k r h e) := by
  unfold Cfg.invoke
  dsimp only
  have hs : O2PR c.st (if ((c.st.handler h).kind.code != 0) = true
      then c.st.logE (Entry.hinv e (c.st.handler h).kind.code (hkey c.st (c.st.handler h))) else c.st) := by o2pt
  generalize (if ((c.st.handler h).kind.code != 0) = true
      then c.st.logE (Entry.hinv e (c.st.handler h).kind.code (hkey c.st (c.st.handler h))) else c.st) = s at hs ⊢
  split
  · o2pt
  · -- detach: fires happen in `prepUnregPre`, `_updateRoot` touches neither queue nor log
    have h1 : O2PR c.st (s.prepUnregPre (c.st.handler h).owner) := by o2pt
    refine ⟨fun hsr => ?_, [_], rfl, rfl⟩
    obtain ⟨_, fires, hf⟩ := h1 hsr
    exact ⟨fires, hf.updateRootAll _ _ _⟩
  all_goals o2pt

theorem o2p_dispatchPre_rel (s : St) (r e rem : Nat) : O2PR (s.logE (.disp e)) (s.dispatchPre r e rem).2 := by
  unfold St.dispatchPre
  dsimp only
  o2pt

theorem O2PI.dispatcher {c : Cfg} {k : List Frame} {r e rem : Nat} (hi : O2PI c)
    (hst : c.stack = .dispatcher r e rem :: k) (hsr : O2SR c.st) (hq : Q2InvAll (c.dispatcher k r e rem).st) :
    O2PI (c.dispatcher k r e rem) := by
  have hc := hi.corr
  have hexp : o2exp c = e :: o2order (c.st.comp 0).eq.heap := by unfold o2exp; rw [hst]
  rw [hexp] at hc
  -- the `D` entry consumes the head of `expected`
  have hc1 : O2Corr (o2pass (c.st.logE (.disp e))) ((c.st.logE (.disp e)).comp 0).eq (o2order (c.st.comp 0).eq.heap) := by
    rw [o2pass_logE]
    have : passStep (o2pass c.st) (.disp e) = { o2pass c.st with expected := o2order (c.st.comp 0).eq.heap } := by
      unfold passStep
      rw [hc.expected]
      simp
    rw [this]
    exact ⟨hc.ok, hc.pending, hc.count, rfl⟩
  obtain ⟨_, fires, heq, hpass⟩ := o2p_dispatchPre_rel c.st r e rem ⟨hsr.pos, hsr.root⟩
  obtain ⟨h6, h7⟩ := O2Corr.fires fires _ _ hc1
  have hst' : (c.dispatcher k r e rem).st = (c.st.dispatchPre r e rem).2 := by
    unfold Cfg.dispatcher; split <;> rfl
  have hstack : ∃ g, (c.dispatcher k r e rem).stack = g :: k ∧ g.o2isDisp = false := by
    unfold Cfg.dispatcher; split
    · exact ⟨_, rfl, rfl⟩
    · exact ⟨_, rfl, rfl⟩
  obtain ⟨g, hg1, hg2⟩ := hstack
  obtain ⟨h1, h2⟩ := hi.stack_generic (fs := [g]) hst hg1 (by simp [o2nodisp, hg2])
  obtain ⟨h3, h4, h5⟩ := o2_all_nodispatcher h1
  refine ⟨hq, ?_, h3, fun r e rem k' he => absurd he (h4 r e rem k'), h2⟩
  rw [h5 _ _ rfl rfl, hst', hpass, heq]
  have h8 : ((c.st.logE (.disp e)).comp 0).eq = (c.st.comp 0).eq := rfl
  rw [h8] at h7 h6 ⊢
  rw [h7]
  exact h6

theorem o2p_flushBegin_log (s : St) (r : Nat) :
    (s.flushBegin r).log = if ((s.comp r).eq.batch == 0) = true then .batch (s.comp r).eq.queue.length :: s.log else s.log := by
  unfold St.flushBegin
  dsimp only
  split <;> rfl

theorem O2PI.flush {c : Cfg} {k : List Frame} {x : Nat} (hi : O2PI c)
    (hst : c.stack = .flush x :: k) (hsr : O2SR c.st) (hq : Q2InvAll (c.flush k x).st) : O2PI (c.flush k x) := by
  have hr : c.st.rootOf x = 0 := hsr.root x
  obtain ⟨heq, hstack⟩ := Cfg.q2_flush c k x 0
  rw [hr] at hstack
  rw [hr, if_pos rfl] at heq
  have hc := hi.corr
  rw [o2exp_of_top hst rfl] at hc
  have hqi := hi.qinv 0
  have hlog : (c.flush k x).st.log = if (((c.st.comp 0).eq.batch == 0) = true) then
      .batch (c.st.comp 0).eq.queue.length :: c.st.log else c.st.log := by
    have : (c.flush k x).st = c.st.flushBegin (c.st.rootOf x) := rfl
    rw [this, hr, o2p_flushBegin_log]
  have htail := hi.tail
  rw [hst, List.tail_cons] at htail
  refine ⟨hq, ?_, ?_, ?_, ?_⟩
  · have hexp : o2exp (c.flush k x) = o2order ((c.flush k x).st.comp 0).eq.heap := by
      unfold o2exp; rw [hstack]
    rw [hexp, heq]
    by_cases hb : (c.st.comp 0).eq.batch = 0
    · have hp : o2pass (c.flush k x).st = passStep (o2pass c.st) (.batch (c.st.comp 0).eq.queue.length) := by
        unfold o2pass
        rw [hlog, if_pos (by simpa using hb)]
        simp [List.foldl_append]
      have hheap : (c.st.comp 0).eq.heap = [] := hqi.heap_nil_of_batch hb
      rw [hp, begin_of_batch_zero hqi hb]
      have hexp0 : (o2pass c.st).expected = [] := by rw [hc.expected, hheap, o2order_nil]
      have hlen : (o2pass c.st).pending.length = (c.st.comp 0).eq.queue.length := by rw [hc.pending, List.length_map]
      have hstep : passStep (o2pass c.st) (.batch (c.st.comp 0).eq.queue.length) =
          { o2pass c.st with expected := ((o2pass c.st).pending.mergeSort (fun a b => a.le b)).map (·.ev), pending := [] } := by
        unfold passStep
        simp [hexp0, hlen]
      rw [hstep]
      refine ⟨hc.ok, rfl, hc.count, ?_⟩
      show ((o2pass c.st).pending.mergeSort (fun a b => a.le b)).map (·.ev) = _
      rw [hc.pending, o2order_begin]
    · have hp : o2pass (c.flush k x).st = o2pass c.st := by
        refine o2pass_of_log ?_
        rw [hlog, if_neg (by simpa using hb)]
      rw [hp, begin_of_batch_ne hb]
      exact hc
  · rw [hstack, List.tail_cons, List.all_cons]
    simpa [Frame.o2isDispatcher] using htail
  · intro r e rem k' he
    rw [hstack] at he; cases he
  · intro r hr'
    rw [hstack] at hr'
    rcases List.mem_cons.mp hr' with h | h
    · cases h; rfl
    · rcases List.mem_cons.mp h with h' | h'
      · cases h'
      · exact hi.loops r (by rw [hst]; exact List.mem_cons_of_mem _ h')

theorem O2PI.dispatchLoop {c : Cfg} {k : List Frame} {r : Nat} (hi : O2PI c)
    (hst : c.stack = .dispatchLoop r :: k) (hx : c.exn = none) (hq : Q2InvAll (c.dispatchLoop k r).st) :
    O2PI (c.dispatchLoop k r) := by
  have hr : r = 0 := hi.loops r (by rw [hst]; exact List.mem_cons_self)
  subst hr
  have hc := hi.corr
  rw [o2exp_of_top hst rfl] at hc
  have htail := hi.tail
  rw [hst, List.tail_cons] at htail
  rcases Cfg.q2_dispatchLoop c k 0 with ⟨_, h2⟩ | ⟨it, q', h1, h2, h3, _, h5, h6⟩
  · rw [h2]
    have hall : (k.all fun g => !g.o2isDispatcher) = true := htail
    obtain ⟨h3, h4, h5⟩ := o2_all_nodispatcher hall
    refine ⟨hi.qinv, ?_, h3, fun r e rem k' he => absurd he (h4 r e rem k'), ?_⟩
    · rw [h5 c.st (c.pop k c.st) rfl rfl]; exact hc
    · intro r hr; exact hi.loops r (by rw [hst]; exact List.mem_cons_of_mem _ hr)
  · obtain ⟨_, hit, hq'⟩ := pop_spec h1
    have hcomp : ((c.dispatchLoop k 0).st.comp 0).eq = q' := by rw [h6, if_pos rfl]
    have hlog : (c.dispatchLoop k 0).st.log = c.st.log := by rw [h5]; rfl
    refine ⟨hq, ?_, ?_, ?_, ?_⟩
    · have hexp : o2exp (c.dispatchLoop k 0) = it.ev :: o2order ((c.dispatchLoop k 0).st.comp 0).eq.heap := by
        unfold o2exp; rw [h2]
      rw [hexp, hcomp, o2pass_of_log hlog, hq']
      refine ⟨hc.ok, hc.pending, hc.count, ?_⟩
      rw [hc.expected]
      exact o2order_pop (hi.qinv 0).heap_seq_ne hit
    · rw [h2, List.tail_cons, List.all_cons]
      simpa [Frame.o2isDispatcher] using htail
    · intro r e rem k' he
      rw [h2] at he
      cases he
      exact ⟨by rw [h3]; exact hx, rfl⟩
    · intro r hr
      rw [h2] at hr
      rcases List.mem_cons.mp hr with h | h
      · cases h
      · rcases List.mem_cons.mp h with h' | h'
        · cases h'; rfl
        · exact hi.loops r (by rw [hst]; exact List.mem_cons_of_mem _ h')

theorem o2p_registerPre_log (s : St) (x p : Nat) : (s.registerPre x p).2.log = s.log := by
  unfold St.registerPre
  dsimp only
  split
  · split
    · rfl
    · split <;> (split <;> rfl)
  · rfl

theorem o2p_register_log (c : Cfg) (k : List Frame) (x p : Nat) : (c.register k x p).st.log = c.st.log := by
  unfold Cfg.register
  dsimp only
  split
  · rfl
  · split
    · split
      · simp only [Cfg.goto_st]; rw [o2p_updateRootAll_log, o2p_registerPre_log]
      · simp only [Cfg.pop_st]; rw [o2p_updateRootAll_log, o2p_registerPre_log]
    · simp only [Cfg.raise_st]; rw [o2p_registerPre_log]

theorem o2p_register_stack (c : Cfg) (k : List Frame) (x p : Nat) :
    ∃ fs, (c.register k x p).stack = fs ++ k ∧ o2nodisp fs = true := by
  unfold Cfg.register
  dsimp only
  split
  · exact ⟨[], rfl, rfl⟩
  · split
    · split
      · exact ⟨[_], rfl, rfl⟩
      · exact ⟨[], rfl, rfl⟩
    · exact ⟨[], rfl, rfl⟩

theorem Cfg.register_o2p (c : Cfg) (k : List Frame) (x p : Nat) (hnd : (c.st.comp x).eq.queue = []) :
    O2PG k c.st (c.register k x p) := by
  refine ⟨fun _ => ⟨[], ?_, o2pass_of_log (o2p_register_log c k x p)⟩, o2p_register_stack c k x p⟩
  show ((c.register k x p).st.comp 0).eq = (c.st.comp 0).eq
  rcases Cfg.q2_register c k x p with h | ⟨_, _, h⟩
  · exact h 0
  · rw [h]
    split
    · rename_i h0; subst h0; exact q2_drain_nil_right _ _ hnd
    · split
      · rename_i h1; rw [← h1.1]; exact q2_drain_nil_left _ _ hnd
      · rfl

/-! ## `step` -/

theorem O2PI.stepFrame {c : Cfg} {f : Frame} {k : List Frame} (hi : O2PI c) (hst : c.stack = f :: k)
    (hx : c.exn = none) (hsr : O2SR c.st) (hnd : Q2NoDrain c) (hq : Q2InvAll (CV.Core.stepFrame c k f).st) :
    O2PI (CV.Core.stepFrame c k f) := by
  cases f
  case dispatcher r e rem => exact hi.dispatcher hst hsr hq
  case flush x => exact hi.flush hst hsr hq
  case dispatchLoop r => exact hi.dispatchLoop hst hx hq
  case register x p => exact hi.generic hst rfl hsr hq (Cfg.register_o2p c k x p (hnd x p k hst hx))
  case invoke r h e => exact hi.generic hst rfl hsr hq (Cfg.invoke_o2p c k r h e)
  case updateRoot todo root => exact hi.generic hst rfl hsr hq (Cfg.updateRoot_o2p c k todo root)
  all_goals (refine hi.generic hst rfl hsr hq ?_; (try dsimp only [CV.Core.stepFrame]); o2pt)

theorem O2PI.unwind {c : Cfg} {f : Frame} {k : List Frame} (ex : Exn) (hi : O2PI c) (hst : c.stack = f :: k)
    (hx : c.exn = some ex) (hsr : O2SR c.st) (hq : Q2InvAll (CV.Core.unwind c k ex f).st) :
    O2PI (CV.Core.unwind c k ex f) := by
  have hf : f.o2isDispatcher = false := by
    cases f <;> first | rfl | skip
    case dispatcher r e rem =>
      have := (hi.top r e rem k hst).1
      rw [hx] at this; cases this
  refine hi.generic hst hf hsr hq ?_
  cases f <;> ((try dsimp only [CV.Core.unwind]); o2pt)

/-- **the invariant is preserved by every guarded step** -/
theorem O2PI.step {c : Cfg} (hi : O2PI c) (hnd : Q2NoDrain c) (hsr : O2SR c.st) : O2PI (step c) := by
  have hq := q2_qinv_step c hnd hi.qinv
  cases hst : c.stack with
  | nil => rw [step_nil c hst]; exact hi
  | cons f k =>
    cases hx : c.exn with
    | none => rw [step_cons c f k hst hx] at hq ⊢; exact hi.stepFrame hst hx hsr hnd hq
    | some ex => rw [step_cons_exn c f k ex hst hx] at hq ⊢; exact hi.unwind ex hst hx hsr hq

/-! ## guarded reachability -/

/-- like `Reach`, but a step is only taken from a configuration that has the single root 0 and
    does not drain a non-empty deque -/
inductive ReachSR (s0 : St) : Cfg → Prop
  | init (d : Nat) (tape : List Entry) (op : ExtOp) : ReachSR s0 (startOf (envChange s0 d tape) op)
  | step {c : Cfg} : ReachSR s0 c → Q2NoDrain c → O2SR c.st → ReachSR s0 (CV.Core.step c)
  | next {c : Cfg} (d : Nat) (tape : List Entry) (op : ExtOp) :
      ReachSR s0 c → done c = true → ReachSR s0 (startOf (envChange c.st d tape) op)

theorem ReachSR.reachND {s0 : St} {c : Cfg} (h : ReachSR s0 c) : ReachND s0 c := by
  induction h with
  | init d tape op => exact .init d tape op
  | step _ hg _ ih => exact .step ih hg
  | next d tape op _ hd ih => exact .next d tape op ih hd

/-- hypothesis on the initial state: fresh queues, nothing logged -/
structure O2PInit (s : St) : Prop where
  eq : ∀ x, (s.comp x).eq = {}
  log : s.log = []

theorem o2p_startOf_stack (s : St) (op : ExtOp) : ((startOf s op).stack.all fun g => !g.o2isDispatcher) = true ∧
    ∀ r, Frame.dispatchLoop r ∉ (startOf s op).stack := by
  cases op <;> exact ⟨rfl, fun r h => by simp [startOf, startDo, startTick, startFlush, startRun, Cfg.start] at h⟩

/-- starting an external operation -/
theorem O2PI.start {s : St} (d : Nat) (tape : List Entry) (op : ExtOp) (hq : Q2InvAll s)
    (hc : O2Corr (o2pass s) (s.comp 0).eq (o2order (s.comp 0).eq.heap)) :
    O2PI (startOf (envChange s d tape) op) := by
  obtain ⟨h1, h2⟩ := o2p_startOf_stack (envChange s d tape) op
  have hst := o2_startOf_st (envChange s d tape) op
  obtain ⟨h3, h4, h5⟩ := o2_all_nodispatcher h1
  refine ⟨?_, ?_, h3, fun r e rem k' he => absurd he (h4 r e rem k'), fun r hr => absurd hr (h2 r)⟩
  · rw [hst]; exact hq
  · rw [h5 _ _ rfl hst, hst]; exact hc

theorem O2PI.reach {s0 : St} (h0 : O2PInit s0) : ∀ c, ReachSR s0 c → O2PI c := by
  intro c hr
  induction hr with
  | init d tape op =>
    refine O2PI.start d tape op (fun x => by rw [h0.eq x]; exact qinv_empty) ?_
    rw [h0.eq 0]
    have : o2pass s0 = {} := by unfold o2pass; rw [h0.log]; rfl
    rw [this]
    exact ⟨rfl, rfl, rfl, by rw [o2order_nil]⟩
  | step _ hg hs ih => exact ih.step hg hs
  | @next c1 d tape op _ hd ih =>
    refine O2PI.start d tape op ih.qinv ?_
    have hnil : c1.stack = [] := by
      unfold done at hd
      simpa using hd
    have := ih.corr
    rwa [o2exp_of_nil hnil] at this

/-- **`passOrderOk` holds of the machine's own log** -/
theorem o2_passOrderOk {s0 : St} (h0 : O2PInit s0) (c : Cfg) (hr : ReachSR s0 c) :
    passOrderOk c.st.log.reverse = true :=
  (O2PI.reach h0 c hr).corr.ok

end CV.Core

import CV.Model.Core.Machine
import CV.Proofs.InvTimer
import CV.Proofs.InvLoop
import CV.Proofs.InvCacheMain
import CV.Proofs.InvForest
/-
C09 — Timers never fire early, fire as often as specified, and bound the idle sleep.

Machine-level theorems about the small-step core machine (`CV.Model.Core.Step`), stated over
`Reach s0 c` (every configuration a driver session can produce from `s0`, CoreReach.lean) or,
where no invariant is needed, over EVERY configuration `c`.  Proofs: CV/Proofs/InvTimerQ.lean
(the relation "quiet code" through all arms of `step`) and CV/Proofs/InvTimer.lean.

Vocabulary (all ghost-free: read off the log, the stack and the tables)
  * `FiredIn c t`   the step `c ↦ step c` logs `.fire te …` where `te` is (after the step) the one
                    event object `Timer.event` of timer `t`  — "timer t fires";
  * `IdleIn c d`    the step logs `.idle d`                    — "the loop sleeps d ticks";
  * `TimerCall c t e` / `FallbackCall c e`   the top frame is the call of a generate_events
                    handler of timer `t` / of the fallback generator, for the event `e`;
  * `St.timerDue s t tm`   the guard of `Timer._on_generate_events`: `tm` is record `t`, created,
                    `tm.expiry ≤ clock`, no unregistration of its component pending;
  * `ResetIn c t` / `CreateIn c t`   the top frame executes `timer.reset()` / `Timer(…)`;
  * `TLater c c'`    `c'` is reached from `c` by steps and further external operations
                    (in between the environment may advance the clock);
  * `GEBound s e t` "timer t has been seen by generate_events event e": `e.time_left` is armed
                    (≥ 0) and is 0 or ≤ `expiry t − clock`.

Hypothesis `Init s0 := TimerWF s0`: every `Timer.event` id is an existing event object and
different timers have different ones; a created timer has `expiry ≤ clock + interval`; every timer's
component exists.  It holds in particular when no timer has been created yet (`Init.of_fresh`),
which is how the driver and the harness declare timers.

Section 6 (proofs: CV/Proofs/InvLoop.lean) closes the two links that used to be stated only:
  * `handler_loop_invokes_all` / `handler_loop_calls_only_listed`: a `_dispatcher` call that runs to
    its end has called every handler of the list it was given (unless `event.stop()` cut the
    loop) and nothing else; with C01's exact-set theorem (`dispatcher_step_live`):
    `fires_in_first_iteration_at_or_after_expiry` - a registered timer's handler is called in
    every dispatch of its root and fires when due - and `oneshot_never_again` - once the
    unregistration of a fired one-shot timer has completed, no dispatch of another root calls it.
What the code leaves open (and the theorems say so)
  * a run that does not come back (the fallback generator blocks for ever, `SystemExit`) or an
    `event.stop()` by a handler of higher priority ends a dispatch before the timer is called;
  * a handler list computed BEFORE the detach (dispatch suspended by a nested `flush()`) may still
    contain the timer; a detached one-shot timer that is ticked as its own root, or registered
    again, fires again; a one-shot timer that is itself a root cannot unregister
    (`unregister()` is a no-op for a root) and fires again at every tick: `oneshot_once` says
    "pending or root", which is all the code guarantees (DESIGN §6 C09; same in the real code).
-/
namespace CV.C09
open CV.Core CV.Core.Live

/-- the initial-state hypothesis -/
def Init (s0 : St) : Prop := TimerWF s0

/-- a state in which no timer has been created yet satisfies `Init` -/
theorem Init.of_fresh {s : St}
    (h : ∀ (t : Nat) (tm : TimerSt), s.timers[t]? = some tm →
      tm.created = false ∧ tm.ev = none ∧ tm.comp < s.comps.length) : Init s :=
  TimerWF.of_fresh h

/-- non-vacuity of `Init`: one component, one declared one-shot timer with interval 3 -/
example : Init { comps := [dfltComp],
                 timers := [{ interval := 3, persist := false, tmpl := 0, target := none, comp := 0, parent := 0 }] } := by
  apply Init.of_fresh
  intro t tm h
  match t, h with
  | 0, h => cases h; exact ⟨rfl, rfl, by decide⟩

/-- a concrete configuration: the loop is about to call the handler (handler 0) of the created,
    due timer 0 of component 0 for event 0, at clock 5 -/
def exCfg : Cfg :=
  { st := { comps := [dfltComp], evs := [{ name := Name.generateEvents }],
            hs := [{ owner := 0, names := [Name.generateEvents], chan := none, kind := .timer 0 },
                   { owner := 0, names := [Name.generateEvents], chan := none, prio := -100, kind := .fallbackGE }],
            timers := [{ interval := 3, persist := true, tmpl := 0, target := none, comp := 0, parent := 0,
                         expiry := 4, created := true }],
            clock := 5 },
    stack := [.invoke 0 0 0, .invoke 0 1 0] }

/-- non-vacuity of `TimerCall`, `St.timerDue`, `FiredIn`: in `exCfg` timer 0 fires -/
example : TimerCall exCfg 0 0 ∧ FiredIn exCfg 0 :=
  ⟨⟨0, 0, _, rfl, rfl, rfl⟩, t9_due_fires ⟨0, 0, _, rfl, rfl, rfl⟩ ⟨rfl, rfl, by decide, rfl⟩⟩

/-- non-vacuity of `FallbackCall`, `IdleIn`, `GEBound`, `TLater`: two steps later the fallback
    generator … does not sleep here (the firing set `time_left` to 0); with an armed event it does -/
example : FallbackCall (step exCfg) 0 ∧ TLater exCfg (step exCfg) := ⟨⟨0, 1, _, rfl, rfl, rfl⟩, .step .refl⟩

def exIdle : Cfg :=
  { exCfg with st := { exCfg.st with evs := [{ name := Name.generateEvents, timeLeft := 2 }] },
               stack := [.invoke 0 1 0] }

example : FallbackCall exIdle 0 ∧ IdleIn exIdle 2 :=
  ⟨⟨0, 1, _, rfl, rfl, rfl⟩, ⟨[.idle 2, .hinv 0 6 0], rfl, by simp⟩⟩

/-- non-vacuity of `ResetIn` / `CreateIn` -/
example : ResetIn (startDo exCfg.st 0 (.timerReset 0)) 0 := ⟨_, _, _, rfl, rfl⟩
example : CreateIn { st := { timers := [{ interval := 3, persist := false, tmpl := 0, target := none, comp := 0, parent := 0 }] },
                     stack := [.timerNew 0] } 0 := ⟨_, _, rfl, rfl, rfl, rfl⟩

/-! ### 1. the clock -/

/-- The clock never decreases: not in a machine step, not in an environment change. -/
theorem clock_monotone (c : Cfg) (d : Nat) (tape : List Entry) :
    c.st.clock ≤ (step c).st.clock ∧ c.st.clock ≤ (envChange c.st d tape).clock :=
  ⟨(t9_step_W c).clock, by show c.st.clock ≤ c.st.clock + (d : Int); omega⟩

/-- … hence along every run. -/
theorem clock_monotone_run {c c' : Cfg} (h : TLater c c') : c.st.clock ≤ c'.st.clock := h.clock

/-- A step moves the clock only as a loop tick (`tick()` firing generate_events: + 1) or as an
    idle wait of the fallback generator (+ the logged duration = `time_left` of its event). -/
theorem clock_moves_only (c : Cfg) (h : (step c).st.clock ≠ c.st.clock) :
    (∃ x k, c.stack = .tickGen x :: k ∧ c.exn = none ∧ (step c).st.clock = c.st.clock + 1)
    ∨ (∃ e, FallbackCall c e ∧ IdleIn c (c.st.ev e).timeLeft ∧
         (step c).st.clock = c.st.clock + (c.st.ev e).timeLeft) :=
  t9_clock_moves h

/-! ### 2. never early -/

/-- A step that fires timer `t`'s event is a call of `t`'s generate_events handler in a state where
    `t` is created, `clock ≥ expiry`, and no unregistration of its component is pending. -/
theorem never_early {s0 : St} (h0 : Init s0) {c : Cfg} (hr : Reach s0 c) {t : Nat} (hf : FiredIn c t) :
    ∃ e tm, TimerCall c t e ∧ c.st.timers[t]? = some tm ∧ tm.created = true ∧
      tm.expiry ≤ c.st.clock ∧ (c.st.comp tm.comp).pending = false := by
  obtain ⟨e, tm, _, hc, hd, _⟩ := t9_fired_guard (TimerWF.reach h0 c hr) hf
  exact ⟨e, tm, hc, hd.1, hd.2.1, hd.2.2.1, hd.2.2.2⟩

/-- `expiry` is only ever written as `k + interval` for a clock reading `k` of the writing step
    (`Timer(…)`, `reset()`, re-arming of a persistent timer); the interval never changes; a created
    timer stays created.  (Environment changes do not touch timers: `envChange` only writes `clock`
    and `tape`.) -/
theorem expiry_is_set_plus_interval (c : Cfg) (t : Nat) (tm : TimerSt) (h : c.st.timers[t]? = some tm) :
    ∃ tm', (step c).st.timers[t]? = some tm' ∧ tm'.interval = tm.interval ∧ tm'.persist = tm.persist ∧
      tm'.comp = tm.comp ∧ (tm.created = true → tm'.created = true) ∧
      ((tm'.expiry = tm.expiry ∧ tm'.created = tm.created) ∨
       (tm'.created = true ∧ ∃ k, c.st.clock ≤ k ∧ k ≤ (step c).st.clock ∧ tm'.expiry = k + tm.interval)) := by
  obtain ⟨tm', g, ev⟩ := (t9_step_W c).timers t tm h
  exact ⟨tm', g, ev.interval, ev.persist, ev.comp, ev.created, ev.arm⟩

/-- A timer whose `expiry` is at least `k0 + interval` (with `k0` not in the future) does not fire
    before the clock reads `k0 + interval`, whatever happens in between. -/
theorem no_firing_before_expiry {s0 : St} (h0 : Init s0) {c c' : Cfg} (hr : Reach s0 c) {t : Nat} {tm : TimerSt}
    {k0 : Int} (ht : c.st.timers[t]? = some tm) (hk : k0 ≤ c.st.clock) (he : k0 + tm.interval ≤ tm.expiry)
    (hl : TLater c c') (hf : FiredIn c' t) : k0 + tm.interval ≤ c'.st.clock :=
  t9_spacing h0 hr ht hk he hl hf

/-- After `Timer(interval, …)` at clock `k` the first firing is at clock ≥ `k + interval`. -/
theorem created_then_interval {s0 : St} (h0 : Init s0) {c c' : Cfg} (hr : Reach s0 c) {t : Nat} {tm : TimerSt}
    (hc : CreateIn c t) (ht : c.st.timers[t]? = some tm) (hl : TLater (step c) c') (hf : FiredIn c' t) :
    c.st.clock + tm.interval ≤ c'.st.clock := by
  obtain ⟨tm0, g0, g1, hclk⟩ := t9_create_step hc
  rw [ht] at g0; cases g0
  have h := t9_spacing h0 (Reach.step hr) (k0 := c.st.clock) g1 (by rw [hclk]; exact Int.le_refl _) (Int.le_refl _) hl hf
  exact h

/-- Consecutive firings of a persistent timer are at least one interval apart (and so are any two
    firings: `c'` is any later firing). -/
theorem persistent_spacing {s0 : St} (h0 : Init s0) {c c' : Cfg} (hr : Reach s0 c) {t : Nat} {tm : TimerSt}
    (hf : FiredIn c t) (ht : c.st.timers[t]? = some tm) (hp : tm.persist = true)
    (hl : TLater (step c) c') (hf' : FiredIn c' t) : c.st.clock + tm.interval ≤ c'.st.clock := by
  obtain ⟨e, tm0, x, _, hd, hfire⟩ := t9_fired_guard (TimerWF.reach h0 c hr) hf
  have : tm0 = tm := by have := hd.1; rw [ht] at this; cases this; rfl
  subst this
  have hself := hfire.self
  rw [if_pos hp] at hself
  have hclk : (step c).st.clock = c.st.clock := hfire.clock
  have h := t9_spacing h0 (Reach.step hr) (k0 := c.st.clock) hself (by rw [hclk]; exact Int.le_refl _) (Int.le_refl _) hl hf'
  exact h

/-- `reset()` restarts the countdown: after a reset at clock `k` no firing before `k + interval`. -/
theorem reset_restarts {s0 : St} (h0 : Init s0) {c c' : Cfg} (hr : Reach s0 c) {t : Nat} {tm : TimerSt}
    (hre : ResetIn c t) (ht : c.st.timers[t]? = some tm) (hcr : tm.created = true)
    (hl : TLater (step c) c') (hf : FiredIn c' t) : c.st.clock + tm.interval ≤ c'.st.clock := by
  obtain ⟨g1, hclk⟩ := t9_reset_step hre ht hcr
  have h := t9_spacing h0 (Reach.step hr) (k0 := c.st.clock) g1 (by rw [hclk]; exact Int.le_refl _) (Int.le_refl _) hl hf
  exact h

/-! ### 3. one-shot -/

/-- When a one-shot timer fires, `unregister()` has been called on its component by the end of the
    same step: the component has an unregistration pending, or is a (detached) root.  While the
    unregistration is pending the timer does not fire (`never_early`: `pending = false` at every
    firing).  Exactly-once then needs: a detached timer is not called by the old root (C07/C01). -/
theorem oneshot_once {s0 : St} (h0 : Init s0) {c : Cfg} (hr : Reach s0 c) {t : Nat} {tm : TimerSt}
    (hf : FiredIn c t) (ht : c.st.timers[t]? = some tm) (hp : tm.persist = false) :
    (c.st.comp tm.comp).pending = false ∧
    (((step c).st.comp tm.comp).pending = true ∨ ((step c).st.comp tm.comp).parent = tm.comp) := by
  have wf := TimerWF.reach h0 c hr
  obtain ⟨e, tm0, x, _, hd, hfire⟩ := t9_fired_guard wf hf
  have : tm0 = tm := by have := hd.1; rw [ht] at this; cases this; rfl
  subst this
  exact ⟨hd.2.2.2, hfire.unreg (wf.compIn t tm0 ht) hp⟩

/-! ### 4. the idle wait -/

/-- An idle wait is logged only by the fallback generator; its duration is the `time_left` of the
    generate_events event being dispatched, it is positive, and the clock advances by exactly it. -/
theorem idle_is_time_left (c : Cfg) (d : Int) (hi : IdleIn c d) :
    ∃ e, FallbackCall c e ∧ d = (c.st.ev e).timeLeft ∧ 0 < d ∧ (step c).st.clock = c.st.clock + d :=
  t9_idle_guard hi

/-- `reduce_time_left` only lowers: once `time_left` of an event is armed (≥ 0) it stays armed and
    never grows, in every step. -/
theorem time_left_only_lowers (c : Cfg) (e : Nat) (h : 0 ≤ (c.st.ev e).timeLeft) :
    0 ≤ ((step c).st.ev e).timeLeft ∧ ((step c).st.ev e).timeLeft ≤ (c.st.ev e).timeLeft :=
  (t9_step_W c).tl e h

/-- The handler of a created timer arms `time_left`: afterwards it is 0 (fired) or at most
    `expiry − clock` — unless it returned early because the unregistration is pending. -/
theorem timer_arms_bound (c : Cfg) (t e : Nat) (tm : TimerSt) (hc : TimerCall c t e)
    (ht : c.st.timers[t]? = some tm) (hcr : tm.created = true) (he : e < c.st.evs.length)
    (hp : tm.expiry ≤ c.st.clock → (c.st.comp tm.comp).pending = false) : GEBound (step c).st e t := by
  obtain ⟨r, h, k, hs, hx, hk⟩ := hc
  have heq : (step c).st = (c.st.logE (c.t9hinv h e)).timerTick t e := by
    rw [step_cons c _ k hs hx]; exact Cfg.t9_invoke_timer c k r h e t hk
  rw [heq]
  exact timerTick_bound (s := c.st.logE (c.t9hinv h e)) ht hcr he hp

/-- The idle loop never sleeps past the expiry of a pending-free timer whose handler ran for the
    same generate_events event: if timer `t`'s handler was called for `e` at `c0`, the clock has not
    moved since (`clock_moves_only`: it moves only by loop ticks, which start a NEW event, and by
    idle waits) and the fallback generator now sleeps `d` ticks for `e`, then after the sleep the
    clock is still ≤ `t`'s expiry — even if `t` was reset in between. -/
theorem idle_bound {s0 : St} (h0 : Init s0) {c0 c : Cfg} (hr : Reach s0 c0) {t e : Nat} {tm : TimerSt} {d : Int}
    (hc : TimerCall c0 t e) (ht : c0.st.timers[t]? = some tm) (hcr : tm.created = true)
    (he : e < c0.st.evs.length) (hp : tm.expiry ≤ c0.st.clock → (c0.st.comp tm.comp).pending = false)
    (hl : TLater (step c0) c) (hclk : c.st.clock = (step c0).st.clock)
    (hfb : FallbackCall c e) (hi : IdleIn c d) :
    ∃ tm', c.st.timers[t]? = some tm' ∧ (step c).st.clock ≤ tm'.expiry := by
  have hb := timer_arms_bound c0 t e tm hc ht hcr he hp
  have hb' := GEBound.tlater h0 (Reach.step hr) hb hl hclk
  exact t9_idle_bound_step hi hfb hb'

/-! ### 5. fires when due -/

/-- A call of timer `t`'s handler while `t` is created, due and not pending fires its event. -/
theorem fires_when_due (c : Cfg) (t e : Nat) (tm : TimerSt) (hc : TimerCall c t e)
    (ht : c.st.timers[t]? = some tm) (hcr : tm.created = true) (hdue : tm.expiry ≤ c.st.clock)
    (hp : (c.st.comp tm.comp).pending = false) : FiredIn c t :=
  t9_due_fires hc ⟨ht, hcr, hdue, hp⟩

/-! ### 6. every dispatch of generate_events calls the registered timer; a detached one-shot is not called

The two links that used to be decided by the oracle only.  Vocabulary (CV/Proofs/InvLoop.lean):
  * `RunAbove k c c'`  `c'` is reached from `c` by machine steps and the stack never returns to
                       `k` or below on the way - the run stays inside the `_dispatcher` call whose
                       continuation is `k` (no return, no exception unwinding through it);
  * `CalledAt k r e h c c'`  on that run the call frame `.invoke r h e` of handler `h` was on top,
                       directly on the loop frame `.hAfter r e …` of this `_dispatcher` call;
  * `CutAt k r e c c'`  on that run the loop of this `_dispatcher` call found `event.stopped` set
                       after a handler returned and went to `.dispFin` (C02 `stop_breaks_loop`).
The initial-state hypotheses are those of C01 (`InitForest`, `InitHandlers`, `InitCache`). -/

/-- **The handler loop runs through the whole list it was given.**  From the loop frame
    `.hLoop r e hs …` on continuation `k` to the end `.dispFin r e …` of the same `_dispatcher`
    call: every handler of `hs` was called, unless the loop was cut by `event.stop()`.  (An
    exception that is not caught by the loop - `SystemExit` re-raised by `stop()`, the fallback
    generator blocking for ever - unwinds below `k`: then there is no run to `.dispFin`.)
    Holds from EVERY configuration: `step` only rewrites the top of the stack. -/
theorem handler_loop_invokes_all (c c' : Cfg) (r e : Nat) (hs : List Nat) (err err' : Bool) (stale : Outcome)
    (k : List Frame) (hst : c.stack = .hLoop r e hs err stale :: k) (hrun : RunAbove k c c')
    (hfin : c'.stack = .dispFin r e err' :: k) (h : Nat) (hh : h ∈ hs) :
    CalledAt k r e h c c' ∨ CutAt k r e c c' :=
  loop_invokes_all hst hrun hfin h hh

/-- … and calls nothing else: a call frame directly on the loop frame of this `_dispatcher` call is
    the call of a member of the list. -/
theorem handler_loop_calls_only_listed (c c1 : Cfg) (r e : Nat) (hs : List Nat) (err : Bool) (stale : Outcome)
    (k : List Frame) (hst : c.stack = .hLoop r e hs err stale :: k) (hrun : RunAbove k c c1)
    (r' h' e' : Nat) (rest : List Nat) (err1 : Bool) (stale1 : Outcome)
    (h1 : c1.stack = .invoke r' h' e' :: .hAfter r e rest err1 stale1 :: k) : h' ∈ hs :=
  loop_calls_only_listed hst hrun h1

/-- **A registered timer is called in every dispatch of its root, and fires when due.**
    `_dispatcher(e)` runs on a root `r` (reachable configuration, `e` not cancelled; for the timers
    `e` is the `generate_events` event of one loop iteration, but the statement holds for any
    event); `h` is the `_on_generate_events` handler of timer `t` and is registered: it matches
    the event at a component `d` of `r`'s tree (C01 `dispatch_exact_set`).  If the dispatcher call
    runs to its end (`.dispFin`), then on the way `h` was called - a configuration `c1` with
    `TimerCall c1 t e` - and if at that moment `t` is created, due (`expiry ≤ clock`) and its
    component has no unregistration pending, that very step fires the timer's event; or else a
    handler of higher or equal priority stopped the event (`CutAt`).
    So a timer fires in the FIRST loop iteration whose `generate_events` dispatch calls it at or
    after its expiry: the iteration's dispatch cannot skip it. -/
theorem fires_in_first_iteration_at_or_after_expiry (s0 : St) (h0 : InitForest s0) (hH : InitHandlers s0)
    (hC : InitCache s0) (c : Cfg) (hc : Reach s0 c) (r e remaining : Nat) (k : List Frame)
    (hst : c.stack = .dispatcher r e remaining :: k) (hx : c.exn = none)
    (hr : (c.st.comp r).root = r) (hcan : (c.st.ev e).cancelled = false)
    (t h : Nat) (hk : ((step c).st.handler h).kind = .timer t)
    (hreg : ∃ ch, ch ∈ (c.st.ev e).chans ∧ ∃ d, ReachIn (step c).st (step c).st.comps.length r d ∧
      matchesAt (step c).st d (c.st.ev e).name ch h)
    (c' : Cfg) (err' : Bool) (hrun : RunAbove k (step c) c') (hfin : c'.stack = .dispFin r e err' :: k) :
    (∃ c1, RunAbove k (step c) c1 ∧ RunAbove k c1 c' ∧ TimerCall c1 t e ∧
      ∀ tm, c1.st.timers[t]? = some tm → tm.created = true → tm.expiry ≤ c1.st.clock →
        (c1.st.comp tm.comp).pending = false → FiredIn c1 t) ∨
    CutAt k r e (step c) c' := by
  obtain ⟨hs, h1, h2⟩ := dispatcher_step_live (K.init s0 hH hC)
    (fun c hc => (FInv.reach h0 c hc).forest.cacheFacts) c hc r e remaining k hst hx hr hcan
  have hnf : ((step c).st.handler h).kind.isFallback = false := by rw [hk]; rfl
  have hmem : h ∈ hs := by
    have : h ∈ nonFallback (step c).st hs := by
      rw [h2]; exact (mem_freshHandlers _ _ _ _ _).mpr hreg
    exact (List.mem_filter.mp this).1
  rcases loop_invokes_all h1 hrun hfin h hmem with hcall | hcut
  · obtain ⟨c1, rest, err, stale, r1, r2, hs1, hx1⟩ := hcall
    have hlt : h < (step c).st.hs.length := handler_lt_of_kind (by rw [hk]; intro hh; cases hh)
    have hk1 : (c1.st.handler h).kind = .timer t := by rw [(r1.handler_eq hlt).1]; exact hk
    have htc : TimerCall c1 t e := ⟨r, h, _, hs1, hx1, hk1⟩
    exact .inl ⟨c1, r1, r2, htc, fun tm ht hcr hdue hp => fires_when_due c1 t e tm htc ht hcr hdue hp⟩
  · exact .inr hcut

/-- a component that is its own parent is below no other component -/
theorem detached_not_below {s : St} (hF : ForestInv s) {n r x : Nat} (hx : (s.comp x).parent = x)
    (h : ReachIn s n r x) : x = r := by
  induction h with
  | here n c => rfl
  | step n c d e hd _ ih =>
    have he := ih hx
    subst he
    by_cases hc : c < s.comps.length
    · exact absurd hx (by rw [(hF.childOf c e hc hd).2.1]; exact fun hh => (hF.childOf c e hc hd).2.2 hh.symm)
    · have : s.comps.getD c dfltComp = dfltComp := by
        simp [List.getD_eq_getElem?_getD, List.getElem?_eq_none (Nat.le_of_not_lt hc)]
      rw [this] at hd
      cases hd

/-- **A one-shot timer whose unregistration completed is not called any more.**  When a one-shot
    timer fires, `unregister()` is called on its component in the same step (`oneshot_once`);
    while the unregistration is pending it does not fire (`never_early`); when it completes the
    component `x` is detached: it is its own parent (C07 `detach_moves_subtree`).  From then on,
    as long as `x` stays detached, every `_dispatcher` call on any other root `r ≠ x` - in a
    reachable configuration, for any event - hands the handler loop a list that does not contain
    the timer's handler `h`, and no step of that dispatcher call is a call of `h` at its level:
    the timer cannot fire from it.  Hypothesis `hown`: `h` is installed in the table of `x` only
    (`Timer` registers its own method; it is how the driver declares timers).
    What remains is what the code allows: a handler list computed BEFORE the detach (a dispatch
    suspended by a nested `flush()`) may still call `h`; a detached timer that is ticked as its
    own root or registered again fires again (header comment, DESIGN §6 C09). -/
theorem oneshot_never_again (s0 : St) (h0 : InitForest s0) (hH : InitHandlers s0)
    (hC : InitCache s0) (c : Cfg) (hc : Reach s0 c) (r e remaining : Nat) (k : List Frame)
    (hst : c.stack = .dispatcher r e remaining :: k) (hx : c.exn = none)
    (hr : (c.st.comp r).root = r) (hcan : (c.st.ev e).cancelled = false)
    (t h x : Nat) (hk : ((step c).st.handler h).kind = .timer t)
    (hown : ∀ d name ch, matchesAt (step c).st d name ch h → d = x)
    (hdet : ((step c).st.comp x).parent = x) (hne : x ≠ r) :
    ∃ hs, (step c).stack = .hLoop r e hs false .none :: k ∧ h ∉ hs ∧
      ∀ c1, RunAbove k (step c) c1 → ∀ r' e' rest err stale,
        c1.stack ≠ .invoke r' h e' :: .hAfter r e rest err stale :: k := by
  obtain ⟨hs, h1, h2⟩ := dispatcher_step_live (K.init s0 hH hC)
    (fun c hc => (FInv.reach h0 c hc).forest.cacheFacts) c hc r e remaining k hst hx hr hcan
  have hF : ForestInv (step c).st := (FInv.reach h0 _ (Reach.step hc)).forest
  have hnot : h ∉ hs := by
    intro hm
    have hnf : h ∈ nonFallback (step c).st hs :=
      List.mem_filter.mpr ⟨hm, by rw [hk]; rfl⟩
    rw [h2] at hnf
    obtain ⟨ch, _, d, hd, hmt⟩ := (mem_freshHandlers _ _ _ _ _).mp hnf
    have := hown d _ ch hmt
    subst this
    exact hne (detached_not_below hF hdet hd)
  exact ⟨hs, h1, hnot, fun c1 hrun r' e' rest err stale hs1 => hnot (loop_calls_only_listed h1 hrun hs1)⟩

/-! ### non-vacuity of section 6 -/

/-- a running manager 0 and a declared timer 0 (interval 0) whose component 1 carries the timer's
    `generate_events` handler 0 and its `prepare_unregister_complete` handler 1 -/
def nvSt (persist : Bool) : St :=
  { comps := [{ parent := 0, root := 0, running := true },
              { parent := 1, root := 1, htab := [(some Name.generateEvents, 0),
                                                  (some (Name.prepareUnregister.child sfxComplete), 1)] }],
    hs := [{ owner := 1, names := [Name.generateEvents], chan := none, kind := .timer 0 },
           { owner := 1, names := [Name.prepareUnregister.child sfxComplete], chan := some (.inst 1),
             kind := .prepUnregComplete }],
    tmpls := [{ name := ⟨1, []⟩ }],
    timers := [{ interval := 0, persist := persist, tmpl := 0, target := none, comp := 1, parent := 0 }] }

abbrev nvRun (s : St) (op : ExtOp) (n : Nat) : Cfg := runN n (startOf (envChange s 0 []) op)
/-- `Timer(0, …).register(manager)` -/
def nv1 (p : Bool) : Cfg := nvRun (nvSt p) (.doAct 0 (.timerNew 0)) 20
/-- ten steps into the first `tick()`: `_dispatcher` of the `generate_events` event 1 is on top -/
def nvC : Cfg := nvRun (nv1 true).st (.tick 0) 10
def nvK : List Frame := [.dispatchLoop 0, .flushFin 0 false]

theorem nv_init (p : Bool) : InitForest (nvSt p) ∧ InitHandlers (nvSt p) ∧ InitCache (nvSt p) := by
  cases p <;>
  exact ⟨by unfold InitForest; decide +kernel, plain_tables_of_bounded _ (by decide +kernel),
    caches_empty_of_bounded _ (by decide +kernel)⟩

theorem nvC_reach : Reach (nvSt true) nvC :=
  Reach.runN (.next 0 [] _ (Reach.runN (.init 0 [] _) 20) (by decide +kernel)) 10

/-- all hypotheses of `fires_in_first_iteration_at_or_after_expiry` (and of
    `handler_loop_invokes_all`, `handler_loop_calls_only_listed` with `c := step nvC`) hold in a
    reachable configuration; the timer is due there, so the theorem's first alternative fires it -/
example : Reach (nvSt true) nvC ∧ nvC.stack = .dispatcher 0 1 0 :: nvK ∧ nvC.exn = none ∧
    (nvC.st.comp 0).root = 0 ∧ (nvC.st.ev 1).cancelled = false ∧
    ((step nvC).st.handler 0).kind = .timer 0 ∧
    (∃ ch, ch ∈ (nvC.st.ev 1).chans ∧ ∃ d, ReachIn (step nvC).st (step nvC).st.comps.length 0 d ∧
      matchesAt (step nvC).st d (nvC.st.ev 1).name ch 0) ∧
    RunAbove nvK (step nvC) (runN 8 (step nvC)) ∧ (runN 8 (step nvC)).stack = .dispFin 0 1 false :: nvK := by
  refine ⟨nvC_reach, by decide +kernel, by decide +kernel, by decide +kernel, by decide +kernel,
    by decide +kernel, ⟨.star, by decide +kernel, 1, ?_, ?_⟩, ?_, by decide +kernel⟩
  · have hl : (step nvC).st.comps.length = 1 + 1 := by decide +kernel
    rw [hl]
    exact .step 1 0 1 1 (by decide +kernel) (.here 1 1)
  · unfold matchesAt installedFor; decide +kernel
  · exact RunAbove.ofRunN 8 (.refl (above_of_B (by decide +kernel))) (by decide +kernel)

/-- the one-shot variant: `Timer` created, three `tick()`s; 15 steps into the third one the
    `_dispatcher` of its `generate_events` event 6 is on top, and the unregistration of the
    timer's component 1 has completed (it is its own parent) -/
def nv2 : Cfg := nvRun (nv1 false).st (.tick 0) 40
def nv3 : Cfg := nvRun nv2.st (.tick 0) 40
def nvD : Cfg := nvRun nv3.st (.tick 0) 15

theorem nvD_reach : Reach (nvSt false) nvD := by
  have h1 : Reach (nvSt false) (nv1 false) := Reach.runN (.init 0 [] _) 20
  have h2 : Reach (nvSt false) nv2 := Reach.runN (.next 0 [] _ h1 (by decide +kernel)) 40
  have h3 : Reach (nvSt false) nv3 := Reach.runN (.next 0 [] _ h2 (by decide +kernel)) 40
  exact Reach.runN (.next 0 [] _ h3 (by decide +kernel)) 15

/-- all hypotheses of `oneshot_never_again` hold in a reachable configuration; the list handed to
    the loop there is `[4]` (the fallback generator only) -/
example : Reach (nvSt false) nvD ∧ nvD.stack = .dispatcher 0 6 0 :: nvK ∧ nvD.exn = none ∧
    (nvD.st.comp 0).root = 0 ∧ (nvD.st.ev 6).cancelled = false ∧
    ((step nvD).st.handler 0).kind = .timer 0 ∧
    (∀ d name ch, matchesAt (step nvD).st d name ch 0 → d = 1) ∧
    ((step nvD).st.comp 1).parent = 1 ∧ (1 : Nat) ≠ 0 :=
  ⟨nvD_reach, by decide +kernel, by decide +kernel, by decide +kernel, by decide +kernel, by decide +kernel,
   matches_only_at _ 0 1 (by decide +kernel), by decide +kernel, by decide⟩

/-- the hypotheses of `handler_loop_invokes_all` / `handler_loop_calls_only_listed`: the step of
    `nvC` starts the loop with a list that contains the timer's handler 0, and the run above `nvK`
    reaches `.dispFin` (previous example) -/
example : ∃ hs, (step nvC).stack = .hLoop 0 1 hs false .none :: nvK ∧ 0 ∈ hs := by
  obtain ⟨hs, h1, h2⟩ := dispatcher_step_live (K.init _ (nv_init true).2.1 (nv_init true).2.2)
    (fun c hc => (FInv.reach (nv_init true).1 c hc).forest.cacheFacts) nvC nvC_reach 0 1 0 nvK
    (by decide +kernel) (by decide +kernel) (by decide +kernel) (by decide +kernel)
  refine ⟨hs, h1, ?_⟩
  have : 0 ∈ nonFallback (step nvC).st hs := by
    rw [h2]
    refine (mem_freshHandlers _ _ _ _ _).mpr ⟨.star, by decide +kernel, 1, ?_, ?_⟩
    · have hl : (step nvC).st.comps.length = 1 + 1 := by decide +kernel
      rw [hl]
      exact .step 1 0 1 1 (by decide +kernel) (.here 1 1)
    · unfold matchesAt installedFor; decide +kernel
  exact (List.mem_filter.mp this).1

end CV.C09

import CV.Model.Core.Machine
namespace CV.C09
theorem placeholder : True := trivial
end CV.C09

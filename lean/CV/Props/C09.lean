import CV.Model.Core.Machine
import CV.Proofs.InvTimer
/-
C09 — Timers never fire early, fire as often as specified, and bound the idle sleep.

Machine-level theorems about the small-step core machine (`CV.Model.Core.Step`), stated over
`Reach s0 c` (every configuration a driver session can produce from `s0`, CoreReach.lean) or,
where no invariant is needed, over EVERY configuration `c`.  Proofs: CV/Proofs/InvTimerQ.lean
(the relation "quiet code" through all arms of `step`) and CV/Proofs/InvTimer.lean.

Vocabulary (all ghost-free: read off the log, the stack and the tables)
  * `FiredIn c t`   the step `c ↦ step c` logs `.fire te …` where `te` is (after the step) the one
                    event object `Timer.event` of timer `t`  — "timer t fires";
  * `IdleIn c d`    the step logs `.idle d`                    — "the loop sleeps d ticks";
  * `TimerCall c t e` / `FallbackCall c e`   the top frame is the call of a generate_events
                    handler of timer `t` / of the fallback generator, for the event `e`;
  * `St.timerDue s t tm`   the guard of `Timer._on_generate_events`: `tm` is record `t`, created,
                    `tm.expiry ≤ clock`, no unregistration of its component pending;
  * `ResetIn c t` / `CreateIn c t`   the top frame executes `timer.reset()` / `Timer(…)`;
  * `TLater c c'`    `c'` is reached from `c` by steps and further external operations
                    (in between the environment may advance the clock);
  * `GEBound s e t` "timer t has been seen by generate_events event e": `e.time_left` is armed
                    (≥ 0) and is 0 or ≤ `expiry t − clock`.

Hypothesis `Init s0 := TimerWF s0`: every `Timer.event` id is an existing event object and
different timers have different ones; a created timer has `expiry ≤ clock + interval`; every timer's
component exists.  It holds in particular when no timer has been created yet (`Init.of_fresh`),
which is how the driver and the harness declare timers.

Dependencies stated, not proved here
  * that a registered, non-pending timer's handler IS called in every dispatch of generate_events
    (handler cache C01, dispatch order C02), and that after the detach the old root no longer
    calls it (C07): with those, `fires_when_due` gives "fires in the first loop iteration at or
    after its expiry" and `oneshot_once` gives "exactly once";
  * a one-shot timer that is itself a root cannot unregister (`unregister()` is a no-op for a
    root) and fires again at every tick: `oneshot_once` says "pending or root", which is all the
    code guarantees (noted in DESIGN §6 C09; same in the real code).
-/
namespace CV.C09
open CV.Core

/-- the initial-state hypothesis -/
def Init (s0 : St) : Prop := TimerWF s0

/-- a state in which no timer has been created yet satisfies `Init` -/
theorem Init.of_fresh {s : St}
    (h : ∀ (t : Nat) (tm : TimerSt), s.timers[t]? = some tm →
      tm.created = false ∧ tm.ev = none ∧ tm.comp < s.comps.length) : Init s :=
  TimerWF.of_fresh h

/-- non-vacuity of `Init`: one component, one declared one-shot timer with interval 3 -/
example : Init { comps := [dfltComp],
                 timers := [{ interval := 3, persist := false, tmpl := 0, target := none, comp := 0, parent := 0 }] } := by
  apply Init.of_fresh
  intro t tm h
  match t, h with
  | 0, h => cases h; exact ⟨rfl, rfl, by decide⟩

/-- a concrete configuration: the loop is about to call the handler (handler 0) of the created,
    due timer 0 of component 0 for event 0, at clock 5 -/
def exCfg : Cfg :=
  { st := { comps := [dfltComp], evs := [{ name := Name.generateEvents }],
            hs := [{ owner := 0, names := [Name.generateEvents], chan := none, kind := .timer 0 },
                   { owner := 0, names := [Name.generateEvents], chan := none, prio := -100, kind := .fallbackGE }],
            timers := [{ interval := 3, persist := true, tmpl := 0, target := none, comp := 0, parent := 0,
                         expiry := 4, created := true }],
            clock := 5 },
    stack := [.invoke 0 0 0, .invoke 0 1 0] }

/-- non-vacuity of `TimerCall`, `St.timerDue`, `FiredIn`: in `exCfg` timer 0 fires -/
example : TimerCall exCfg 0 0 ∧ FiredIn exCfg 0 :=
  ⟨⟨0, 0, _, rfl, rfl, rfl⟩, t9_due_fires ⟨0, 0, _, rfl, rfl, rfl⟩ ⟨rfl, rfl, by decide, rfl⟩⟩

/-- non-vacuity of `FallbackCall`, `IdleIn`, `GEBound`, `TLater`: two steps later the fallback
    generator … does not sleep here (the firing set `time_left` to 0); with an armed event it does -/
example : FallbackCall (step exCfg) 0 ∧ TLater exCfg (step exCfg) := ⟨⟨0, 1, _, rfl, rfl, rfl⟩, .step .refl⟩

def exIdle : Cfg :=
  { exCfg with st := { exCfg.st with evs := [{ name := Name.generateEvents, timeLeft := 2 }] },
               stack := [.invoke 0 1 0] }

example : FallbackCall exIdle 0 ∧ IdleIn exIdle 2 :=
  ⟨⟨0, 1, _, rfl, rfl, rfl⟩, ⟨[.idle 2, .hinv 0 6 0], rfl, by simp⟩⟩

/-- non-vacuity of `ResetIn` / `CreateIn` -/
example : ResetIn (startDo exCfg.st 0 (.timerReset 0)) 0 := ⟨_, _, _, rfl, rfl⟩
example : CreateIn { st := { timers := [{ interval := 3, persist := false, tmpl := 0, target := none, comp := 0, parent := 0 }] },
                     stack := [.timerNew 0] } 0 := ⟨_, _, rfl, rfl, rfl, rfl⟩

/-! ### 1. the clock -/

/-- The clock never decreases: not in a machine step, not in an environment change. -/
theorem clock_monotone (c : Cfg) (d : Nat) (tape : List Entry) :
    c.st.clock ≤ (step c).st.clock ∧ c.st.clock ≤ (envChange c.st d tape).clock :=
  ⟨(t9_step_W c).clock, by show c.st.clock ≤ c.st.clock + (d : Int); omega⟩

/-- … hence along every run. -/
theorem clock_monotone_run {c c' : Cfg} (h : TLater c c') : c.st.clock ≤ c'.st.clock := h.clock

/-- A step moves the clock only as a loop tick (`tick()` firing generate_events: + 1) or as an
    idle wait of the fallback generator (+ the logged duration = `time_left` of its event). -/
theorem clock_moves_only (c : Cfg) (h : (step c).st.clock ≠ c.st.clock) :
    (∃ x k, c.stack = .tickGen x :: k ∧ c.exn = none ∧ (step c).st.clock = c.st.clock + 1)
    ∨ (∃ e, FallbackCall c e ∧ IdleIn c (c.st.ev e).timeLeft ∧
         (step c).st.clock = c.st.clock + (c.st.ev e).timeLeft) :=
  t9_clock_moves h

/-! ### 2. never early -/

/-- A step that fires timer `t`'s event is a call of `t`'s generate_events handler in a state where
    `t` is created, `clock ≥ expiry`, and no unregistration of its component is pending. -/
theorem never_early {s0 : St} (h0 : Init s0) {c : Cfg} (hr : Reach s0 c) {t : Nat} (hf : FiredIn c t) :
    ∃ e tm, TimerCall c t e ∧ c.st.timers[t]? = some tm ∧ tm.created = true ∧
      tm.expiry ≤ c.st.clock ∧ (c.st.comp tm.comp).pending = false := by
  obtain ⟨e, tm, _, hc, hd, _⟩ := t9_fired_guard (TimerWF.reach h0 c hr) hf
  exact ⟨e, tm, hc, hd.1, hd.2.1, hd.2.2.1, hd.2.2.2⟩

/-- `expiry` is only ever written as `k + interval` for a clock reading `k` of the writing step
    (`Timer(…)`, `reset()`, re-arming of a persistent timer); the interval never changes; a created
    timer stays created.  (Environment changes do not touch timers: `envChange` only writes `clock`
    and `tape`.) -/
theorem expiry_is_set_plus_interval (c : Cfg) (t : Nat) (tm : TimerSt) (h : c.st.timers[t]? = some tm) :
    ∃ tm', (step c).st.timers[t]? = some tm' ∧ tm'.interval = tm.interval ∧ tm'.persist = tm.persist ∧
      tm'.comp = tm.comp ∧ (tm.created = true → tm'.created = true) ∧
      ((tm'.expiry = tm.expiry ∧ tm'.created = tm.created) ∨
       (tm'.created = true ∧ ∃ k, c.st.clock ≤ k ∧ k ≤ (step c).st.clock ∧ tm'.expiry = k + tm.interval)) := by
  obtain ⟨tm', g, ev⟩ := (t9_step_W c).timers t tm h
  exact ⟨tm', g, ev.interval, ev.persist, ev.comp, ev.created, ev.arm⟩

/-- A timer whose `expiry` is at least `k0 + interval` (with `k0` not in the future) does not fire
    before the clock reads `k0 + interval`, whatever happens in between. -/
theorem no_firing_before_expiry {s0 : St} (h0 : Init s0) {c c' : Cfg} (hr : Reach s0 c) {t : Nat} {tm : TimerSt}
    {k0 : Int} (ht : c.st.timers[t]? = some tm) (hk : k0 ≤ c.st.clock) (he : k0 + tm.interval ≤ tm.expiry)
    (hl : TLater c c') (hf : FiredIn c' t) : k0 + tm.interval ≤ c'.st.clock :=
  t9_spacing h0 hr ht hk he hl hf

/-- After `Timer(interval, …)` at clock `k` the first firing is at clock ≥ `k + interval`. -/
theorem created_then_interval {s0 : St} (h0 : Init s0) {c c' : Cfg} (hr : Reach s0 c) {t : Nat} {tm : TimerSt}
    (hc : CreateIn c t) (ht : c.st.timers[t]? = some tm) (hl : TLater (step c) c') (hf : FiredIn c' t) :
    c.st.clock + tm.interval ≤ c'.st.clock := by
  obtain ⟨tm0, g0, g1, hclk⟩ := t9_create_step hc
  rw [ht] at g0; cases g0
  have h := t9_spacing h0 (Reach.step hr) (k0 := c.st.clock) g1 (by rw [hclk]; exact Int.le_refl _) (Int.le_refl _) hl hf
  exact h

/-- Consecutive firings of a persistent timer are at least one interval apart (and so are any two
    firings: `c'` is any later firing). -/
theorem persistent_spacing {s0 : St} (h0 : Init s0) {c c' : Cfg} (hr : Reach s0 c) {t : Nat} {tm : TimerSt}
    (hf : FiredIn c t) (ht : c.st.timers[t]? = some tm) (hp : tm.persist = true)
    (hl : TLater (step c) c') (hf' : FiredIn c' t) : c.st.clock + tm.interval ≤ c'.st.clock := by
  obtain ⟨e, tm0, x, _, hd, hfire⟩ := t9_fired_guard (TimerWF.reach h0 c hr) hf
  have : tm0 = tm := by have := hd.1; rw [ht] at this; cases this; rfl
  subst this
  have hself := hfire.self
  rw [if_pos hp] at hself
  have hclk : (step c).st.clock = c.st.clock := hfire.clock
  have h := t9_spacing h0 (Reach.step hr) (k0 := c.st.clock) hself (by rw [hclk]; exact Int.le_refl _) (Int.le_refl _) hl hf'
  exact h

/-- `reset()` restarts the countdown: after a reset at clock `k` no firing before `k + interval`. -/
theorem reset_restarts {s0 : St} (h0 : Init s0) {c c' : Cfg} (hr : Reach s0 c) {t : Nat} {tm : TimerSt}
    (hre : ResetIn c t) (ht : c.st.timers[t]? = some tm) (hcr : tm.created = true)
    (hl : TLater (step c) c') (hf : FiredIn c' t) : c.st.clock + tm.interval ≤ c'.st.clock := by
  obtain ⟨g1, hclk⟩ := t9_reset_step hre ht hcr
  have h := t9_spacing h0 (Reach.step hr) (k0 := c.st.clock) g1 (by rw [hclk]; exact Int.le_refl _) (Int.le_refl _) hl hf
  exact h

/-! ### 3. one-shot -/

/-- When a one-shot timer fires, `unregister()` has been called on its component by the end of the
    same step: the component has an unregistration pending, or is a (detached) root.  While the
    unregistration is pending the timer does not fire (`never_early`: `pending = false` at every
    firing).  Exactly-once then needs: a detached timer is not called by the old root (C07/C01). -/
theorem oneshot_once {s0 : St} (h0 : Init s0) {c : Cfg} (hr : Reach s0 c) {t : Nat} {tm : TimerSt}
    (hf : FiredIn c t) (ht : c.st.timers[t]? = some tm) (hp : tm.persist = false) :
    (c.st.comp tm.comp).pending = false ∧
    (((step c).st.comp tm.comp).pending = true ∨ ((step c).st.comp tm.comp).parent = tm.comp) := by
  have wf := TimerWF.reach h0 c hr
  obtain ⟨e, tm0, x, _, hd, hfire⟩ := t9_fired_guard wf hf
  have : tm0 = tm := by have := hd.1; rw [ht] at this; cases this; rfl
  subst this
  exact ⟨hd.2.2.2, hfire.unreg (wf.compIn t tm0 ht) hp⟩

/-! ### 4. the idle wait -/

/-- An idle wait is logged only by the fallback generator; its duration is the `time_left` of the
    generate_events event being dispatched, it is positive, and the clock advances by exactly it. -/
theorem idle_is_time_left (c : Cfg) (d : Int) (hi : IdleIn c d) :
    ∃ e, FallbackCall c e ∧ d = (c.st.ev e).timeLeft ∧ 0 < d ∧ (step c).st.clock = c.st.clock + d :=
  t9_idle_guard hi

/-- `reduce_time_left` only lowers: once `time_left` of an event is armed (≥ 0) it stays armed and
    never grows, in every step. -/
theorem time_left_only_lowers (c : Cfg) (e : Nat) (h : 0 ≤ (c.st.ev e).timeLeft) :
    0 ≤ ((step c).st.ev e).timeLeft ∧ ((step c).st.ev e).timeLeft ≤ (c.st.ev e).timeLeft :=
  (t9_step_W c).tl e h

/-- The handler of a created timer arms `time_left`: afterwards it is 0 (fired) or at most
    `expiry − clock` — unless it returned early because the unregistration is pending. -/
theorem timer_arms_bound (c : Cfg) (t e : Nat) (tm : TimerSt) (hc : TimerCall c t e)
    (ht : c.st.timers[t]? = some tm) (hcr : tm.created = true) (he : e < c.st.evs.length)
    (hp : tm.expiry ≤ c.st.clock → (c.st.comp tm.comp).pending = false) : GEBound (step c).st e t := by
  obtain ⟨r, h, k, hs, hx, hk⟩ := hc
  have heq : (step c).st = (c.st.logE (c.t9hinv h e)).timerTick t e := by
    rw [step_cons c _ k hs hx]; exact Cfg.t9_invoke_timer c k r h e t hk
  rw [heq]
  exact timerTick_bound (s := c.st.logE (c.t9hinv h e)) ht hcr he hp

/-- The idle loop never sleeps past the expiry of a pending-free timer whose handler ran for the
    same generate_events event: if timer `t`'s handler was called for `e` at `c0`, the clock has not
    moved since (`clock_moves_only`: it moves only by loop ticks, which start a NEW event, and by
    idle waits) and the fallback generator now sleeps `d` ticks for `e`, then after the sleep the
    clock is still ≤ `t`'s expiry — even if `t` was reset in between. -/
theorem idle_bound {s0 : St} (h0 : Init s0) {c0 c : Cfg} (hr : Reach s0 c0) {t e : Nat} {tm : TimerSt} {d : Int}
    (hc : TimerCall c0 t e) (ht : c0.st.timers[t]? = some tm) (hcr : tm.created = true)
    (he : e < c0.st.evs.length) (hp : tm.expiry ≤ c0.st.clock → (c0.st.comp tm.comp).pending = false)
    (hl : TLater (step c0) c) (hclk : c.st.clock = (step c0).st.clock)
    (hfb : FallbackCall c e) (hi : IdleIn c d) :
    ∃ tm', c.st.timers[t]? = some tm' ∧ (step c).st.clock ≤ tm'.expiry := by
  have hb := timer_arms_bound c0 t e tm hc ht hcr he hp
  have hb' := GEBound.tlater h0 (Reach.step hr) hb hl hclk
  exact t9_idle_bound_step hi hfb hb'

/-! ### 5. fires when due -/

/-- A call of timer `t`'s handler while `t` is created, due and not pending fires its event. -/
theorem fires_when_due (c : Cfg) (t e : Nat) (tm : TimerSt) (hc : TimerCall c t e)
    (ht : c.st.timers[t]? = some tm) (hcr : tm.created = true) (hdue : tm.expiry ≤ c.st.clock)
    (hp : (c.st.comp tm.comp).pending = false) : FiredIn c t :=
  t9_due_fires hc ⟨ht, hcr, hdue, hp⟩

end CV.C09

import CV.Proofs.ConnClose
import CV.Proofs.ConnAccept
/-
C12 — Every connection: one connect, ordered reads, one disconnect, then no trace.

Model: CV/Model/Conn.lean = the `Server` of circuits/net/sockets.py (after the five `fix:` commits of
C12) composed with the poller model of C10 (Select, Poll, EPoll), plus the `Client` life cycle.
Statement: CV/Model/ConnSpec.lean (`obsFail`, `specTrace`: an observer that sees only the
connect/read/disconnect/error events per socket, what `recv` delivered per socket, and the tables
after every op).  Histories are arbitrary lists of `Op`: accepts of new sockets with any free file
number (also a number a closed socket had) whose peer may already be gone, `write`/`close` events for
any socket at any time (also long after its disconnect, or never connected), and poll rounds with
arbitrary readiness and arbitrary `recv`/`send` outcomes per socket (data, EOF, EWOULDBLOCK, errors,
partial and refused sends) — any number of concurrent connections, no bound on anything.
W11: histories `List XOp` add the server-wide `close()` and the `stopped` event at any point
(`spec_holds_x`, `lifecycle_x`, `no_trace_x`, `tables_x`, `server_close_all`, `stop_releases_all`); the client
model covers TCPClient, UNIXClient (`connect .failed`), `prepare_unregister`, `stopped` and Pipe() ends
(`client_lifecycle`, `client_unregister_releases`, `pipe_lifecycle`).
-/
namespace CV.C12
open CV.Conn

/-- **Every run of the server under every poller satisfies the observer's predicate**: per socket
the events follow `connect (read|error)* disconnect` (or a lone `error` for a connection refused
before it was announced) with nothing afterwards; every `read` is the oldest chunk `recv` delivered
on that socket that was not yet reported, and at the end of every op no delivered chunk is
unreported (order, no loss, no duplication); after every op, every socket that any table of the
server or the poller mentions is a connected one, and every closed socket was disconnected. -/
theorem spec_holds (k : Poller.Kind) (ops : List Op) : specTrace (trace k ops) = true := by
  have h := (ok_run k ops).spec
  simp only [specTrace, trace]
  rw [h]; rfl

/-- **One connect, one disconnect, in this order**: for every socket, the `connect`/`disconnect`
events of a run are a prefix of `[connect o, disconnect o]`. -/
theorem lifecycle (k : Poller.Kind) (ops : List Op) (o : Poller.Obj) :
    lifeOf o (trace k ops) = [] ∨ lifeOf o (trace k ops) = [.connect o] ∨
    lifeOf o (trace k ops) = [.connect o, .disconnect o] := by
  have h := life_ok {} (trace k ops) o (ok_run k ops).spec
  simpa [allowedLife] using h

/-- **After the disconnect, no trace — for every continuation.**  Once `disconnect o` has been
observed, in the state after *any* further history (late `write o`/`close o` events, rounds, other
connections, a new socket taking `o`'s file number) `o` is in none of `_clients`, `_buffers`,
`_closeq`, the poller's `_read`, `_write`, `_targets`, `_map`, and its descriptor is closed. -/
theorem no_trace (k : Poller.Kind) (pre post : List Op) (o : Poller.Obj)
    (h : Obs.disconnect o ∈ trace k pre) :
    let s := (run k (pre ++ post)).1
    o ∉ s.clients ∧ s.buffers o = none ∧ o ∉ s.closeq ∧ o ∉ s.p.read ∧ o ∉ s.p.write ∧
    s.p.targets o = none ∧ (∀ f, s.p.map f ≠ some o) ∧ s.p.w.fno o = none := by
  intro s
  have h1 := ok_run k pre
  have g : (specAdv {} (run k pre).2).ph o = .gone := gone_after_disconnect {} _ o h1.spec h
  have h2 := ok_runFrom (σ := specAdv {} (run k pre).2) post h1.inv h1.rel
  have g2 := specAdv_final _ (runFrom (run k pre).1 post).2 o (Or.inl g) h2.spec
  have es : s = (runFrom (run k pre).1 post).1 := by
    show (runFrom (State.init k) (pre ++ post)).1 = _
    rw [runFrom_append]; rfl
  rw [es]
  have hnc : o ∉ (runFrom (run k pre).1 post).1.clients := by
    intro hc
    have := (h2.rel.conn o).mpr hc
    rw [g2, g] at this; cases this
  obtain ⟨a1, a2, a3, a4, a5, a6⟩ := no_table h2.inv hnc
  refine ⟨hnc, a1, a2, a3, a4, a5, a6, ?_⟩
  cases hf : (runFrom (run k pre).1 post).1.p.w.fno o with
  | none => rfl
  | some f => exact absurd (h2.inv.C o (by simp [hf])) hnc

/-- **No table ever mentions a socket that is not connected** (in particular: nothing is retained
for a connection that was refused, or for a socket addressed by a late event). -/
theorem tables_only_connected (k : Poller.Kind) (ops : List Op) (o : Poller.Obj)
    (h : o ∉ (run k ops).1.clients) :
    let s := (run k ops).1
    s.buffers o = none ∧ o ∉ s.closeq ∧ o ∉ s.p.read ∧ o ∉ s.p.write ∧ s.p.targets o = none ∧
    (∀ f, s.p.map f ≠ some o) :=
  no_table (ok_run k ops).inv h

/-- **Connected means open, and only connected sockets are open**: the server never keeps a closed
socket as a client and never leaves a descriptor open that it has dropped. -/
theorem connected_iff_open (k : Poller.Kind) (ops : List Op) (o : Poller.Obj) :
    o ∈ (run k ops).1.clients ↔ ((run k ops).1.p.w.fno o).isSome = true :=
  ⟨(ok_run k ops).inv.O o, (ok_run k ops).inv.C o⟩

/-! ### clients: one `disconnected` per `connected` -/

/-- **A client never reports more `disconnected` than `connected`** — every history, no hypothesis. -/
theorem client_disconnected_le_connected (ops : List Client.Op) :
    Client.count .disconnected (Client.trace ops) ≤ Client.count .connected (Client.trace ops) := by
  have := Client.cnt_runFrom {} ops
  simp only [Client.trace]
  simp [Client.b2n] at this
  omega

/-- **`connected` and `disconnected` alternate, starting with `connected`** (so
`#disconnected ≤ #connected ≤ #disconnected + 1`), for every history in which `connect` is not issued
while the client is connected.
Full statement (open, false for the code as it is): the same for *every* history.  `TCPClient.connect`
/`UNIXClient.connect` on a connected client fire `connected` again (EISCONN is taken for success):
see `client_reconnect_witness`. -/
theorem client_pairing_partial (ops : List Client.Op) (h : Client.noReconnect {} ops = true) :
    Client.alternates false (Client.trace ops) = true :=
  Client.alt_runFrom {} ops h

/-- the excluded case really fails: two `connect`s without a disconnect in between -/
theorem client_reconnect_witness :
    Client.alternates false (Client.trace [.connect .ok, .connect .ok]) = false := by decide

/-! ### W11: the whole server is closed / stopped; client release; Pipe ends

Histories `List XOp`: everything above, plus the `close()` event without a socket (`.closeAll`) and the
`stopped` event (`.stop`, `_on_stopped` fires `close()`) at any point, any number of times. -/

/-- the extended histories extend the old ones conservatively -/
theorem x_extends (k : Poller.Kind) (ops : List Op) : xtrace k (ops.map .op) = trace k ops := by
  simp only [xtrace, xrun, trace, run, xrunFrom_op]

/-- **`spec_holds` for histories with server-wide close and stop.** -/
theorem spec_holds_x (k : Poller.Kind) (ops : List XOp) : specTrace (xtrace k ops) = true := by
  have h := (ok_xrun k ops).spec
  simp only [specTrace, xtrace]
  rw [h]; rfl

/-- **`lifecycle` for histories with server-wide close and stop**: still at most one `connect`, then at
most one `disconnect`, per socket. -/
theorem lifecycle_x (k : Poller.Kind) (ops : List XOp) (o : Poller.Obj) :
    lifeOf o (xtrace k ops) = [] ∨ lifeOf o (xtrace k ops) = [.connect o] ∨
    lifeOf o (xtrace k ops) = [.connect o, .disconnect o] := by
  have h := life_ok {} (xtrace k ops) o (ok_xrun k ops).spec
  simpa [allowedLife] using h

/-- **`tables_only_connected` / `connected_iff_open` for histories with server-wide close and stop.** -/
theorem tables_x (k : Poller.Kind) (ops : List XOp) (o : Poller.Obj) :
    let s := (xrun k ops).1
    (o ∈ s.clients ↔ (s.p.w.fno o).isSome = true) ∧
    (o ∉ s.clients → s.buffers o = none ∧ o ∉ s.closeq ∧ o ∉ s.p.read ∧ o ∉ s.p.write ∧ s.p.targets o = none ∧
      (∀ f, s.p.map f ≠ some o)) :=
  ⟨⟨(ok_xrun k ops).inv.O o, (ok_xrun k ops).inv.C o⟩, fun h => no_table (ok_xrun k ops).inv h⟩

/-- **`no_trace` for histories with server-wide close and stop**: once `disconnect o` has been observed (also
one caused by a server-wide close or a stop), after *any* continuation (also further closes / stops) `o` is in
no table and its descriptor is closed. -/
theorem no_trace_x (k : Poller.Kind) (pre post : List XOp) (o : Poller.Obj)
    (h : Obs.disconnect o ∈ xtrace k pre) :
    let s := (xrun k (pre ++ post)).1
    o ∉ s.clients ∧ s.buffers o = none ∧ o ∉ s.closeq ∧ o ∉ s.p.read ∧ o ∉ s.p.write ∧
    s.p.targets o = none ∧ (∀ f, s.p.map f ≠ some o) ∧ s.p.w.fno o = none := by
  intro s
  have h1 := ok_xrun k pre
  have g : (specAdv {} (xrun k pre).2).ph o = .gone := gone_after_disconnect {} _ o h1.spec h
  have h2 := ok_xrunFrom (σ := specAdv {} (xrun k pre).2) post h1.inv h1.rel
  have g2 := specAdv_final _ (xrunFrom (xrun k pre).1 post).2 o (Or.inl g) h2.spec
  have es : s = (xrunFrom (xrun k pre).1 post).1 := by
    show (xrunFrom (State.init k) (pre ++ post)).1 = _
    rw [xrunFrom_append]; rfl
  rw [es]
  have hnc : o ∉ (xrunFrom (xrun k pre).1 post).1.clients := by
    intro hc
    have := (h2.rel.conn o).mpr hc
    rw [g2, g] at this; cases this
  obtain ⟨a1, a2, a3, a4, a5, a6⟩ := no_table h2.inv hnc
  refine ⟨hnc, a1, a2, a3, a4, a5, a6, ?_⟩
  cases hf : (xrunFrom (xrun k pre).1 post).1.p.w.fno o with
  | none => rfl
  | some f => exact absurd (h2.inv.C o (by simp [hf])) hnc

/-- **Server-wide close**, in whatever state any history has left the server (`s`), `r` = what `close()` does:
* every open connection without queued output is closed and gets exactly one `disconnect` (and no
  `connect`) in the course of the close;
* every open connection with queued output stays a client, waits in `_closeq` with its queue untouched and
  gets no `disconnect` yet (it gets exactly one when the queue has drained or the peer dies: `lifecycle_x`,
  `spec_holds_x` cover every continuation);
* nothing is reported for a socket that was not connected;
* if no connection has queued output, the close *completes* at once: `_clients` and `_closeq` are empty, no
  table of server or poller mentions any socket, every descriptor is closed. -/
theorem server_close_all (k : Poller.Kind) (ops : List XOp) :
    let s := (xrun k ops).1
    let r := closeAll s
    (∀ o, o ∈ s.clients → bufGet s o = [] → o ∉ r.1.clients ∧ lifeOf o r.2 = [.disconnect o]) ∧
    (∀ o, o ∈ s.clients → bufGet s o ≠ [] →
        o ∈ r.1.clients ∧ o ∈ r.1.closeq ∧ r.1.buffers o = s.buffers o ∧ Obs.disconnect o ∉ r.2) ∧
    (∀ o, o ∉ s.clients → o ∉ r.1.clients ∧ Obs.disconnect o ∉ r.2) ∧
    ((∀ o, o ∈ s.clients → bufGet s o = []) →
        r.1.clients = [] ∧ r.1.closeq = [] ∧ ∀ o, tbits r.1 o = 0 ∧ r.1.p.w.fno o = none) := by
  intro s r
  have ok := ok_xrun k ops
  have c : CInv s := ok.inv
  have rl := ok.rel
  have ok2 : Ok _ r := ok_closeEach s.clients c rl
  have closed : ∀ o, o ∈ s.clients → bufGet s o = [] → o ∉ r.1.clients :=
    fun o hc hb => closeEach_closed s s.clients o c.ND hc hb
  refine ⟨fun o hc hb => ⟨closed o hc hb, closeEach_life c rl s.clients o hc hc hb⟩, ?_, ?_, ?_⟩
  · intro o hc hb
    exact closeEach_pending s s.clients o hc hb (Or.inl hc)
  · intro o hc
    exact ⟨fun h => hc (closeEach_sub s s.clients o h), (closeEach_frame s s.clients o hc).2.2.2⟩
  · intro hall
    have e : r.1.clients = [] := by
      apply List.eq_nil_iff_forall_not_mem.mpr
      intro o h
      have hc := closeEach_sub s s.clients o h
      exact closed o hc (hall o hc) h
    refine ⟨e, ?_, ?_⟩
    · apply List.eq_nil_iff_forall_not_mem.mpr
      intro o h
      have := ok2.inv.Q o h
      rw [e] at this; simp at this
    · intro o
      have hn : o ∉ r.1.clients := by rw [e]; simp
      refine ⟨tbits_zero ok2.inv hn, ?_⟩
      cases hf : r.1.p.w.fno o with
      | none => rfl
      | some f => exact absurd (ok2.inv.C o (by simp [hf])) hn

/-- **Stop releases everything**: when `stopped` reaches the server after any history, every connection that
is still a client afterwards is one whose close waits for queued output (it is in `_closeq`, its queue is not
empty); every other connection that was open has had exactly `connect`, `disconnect` in the whole run, is in
no table, and its descriptor is closed; and if nothing was queued, nothing at all remains. -/
theorem stop_releases_all (k : Poller.Kind) (ops : List XOp) :
    let s := (xrun k ops).1
    let s' := (xrun k (ops ++ [.stop])).1
    (∀ o, o ∈ s'.clients → o ∈ s.clients ∧ o ∈ s'.closeq ∧ bufGet s' o ≠ []) ∧
    (∀ o, o ∈ s.clients → o ∉ s'.clients →
        lifeOf o (xtrace k (ops ++ [.stop])) = [.connect o, .disconnect o] ∧ tbits s' o = 0 ∧
        s'.p.w.fno o = none) ∧
    ((∀ o, o ∈ s.clients → bufGet s o = []) → s'.clients = [] ∧ s'.closeq = [] ∧
        ∀ o, tbits s' o = 0 ∧ s'.p.w.fno o = none) := by
  intro s s'
  have ok := ok_xrun k ops
  have c : CInv s := ok.inv
  have es : s' = (closeAll s).1 := by
    show (xrunFrom (State.init k) (ops ++ [.stop])).1 = _
    rw [xrunFrom_append]; rfl
  have et : xtrace k (ops ++ [.stop]) = (xrun k ops).2 ++ ((closeAll s).2 ++ [.tab (rows (closeAll s).1)]) := by
    show (xrunFrom (State.init k) (ops ++ [.stop])).2 = _
    rw [xrunFrom_append]; simp [xrunFrom, xstep, xstepCore, s, xrun]
  have ok' := ok_xrun k (ops ++ [.stop])
  have sca := server_close_all k ops
  simp only at sca
  obtain ⟨a1, a2, _, a4⟩ := sca
  refine ⟨?_, ?_, ?_⟩
  · intro o h
    rw [es] at h ⊢
    have hc := closeEach_sub s s.clients o h
    by_cases hb : bufGet s o = []
    · exact absurd h (a1 o hc hb).1
    · obtain ⟨_, q, b, _⟩ := a2 o hc hb
      refine ⟨hc, q, ?_⟩
      have hb' : bufGet (closeAll s).1 o = bufGet s o := congrArg (fun v => v.getD []) b
      exact fun h => hb (hb'.symm.trans h)
  · intro o hc hn
    have hb : bufGet s o = [] := by
      apply Classical.byContradiction
      intro hb
      exact hn (by rw [es]; exact (a2 o hc hb).1)
    have hd : Obs.disconnect o ∈ (closeAll s).2 := closeEach_disconnects c ok.rel s.clients o hc hc hb
    have hm : Obs.disconnect o ∈ lifeOf o (xtrace k (ops ++ [.stop])) := by
      simp only [lifeOf, List.mem_filter]
      refine ⟨?_, by simp⟩
      rw [et]; simp [hd]
    refine ⟨?_, tbits_zero ok'.inv hn, ?_⟩
    · rcases lifecycle_x k (ops ++ [.stop]) o with h | h | h
      · rw [h] at hm; simp at hm
      · rw [h] at hm; simp at hm
      · exact h
    · cases hf : s'.p.w.fno o with
      | none => rfl
      | some f => exact absurd (ok'.inv.C o (by simp [s', hf])) hn
  · intro hall
    rw [es]
    exact a4 hall

/-! ### clients (W11): release by unregister / stop, UNIXClient, Pipe ends -/

/-- **Client life cycle** (TCPClient and UNIXClient; events: connect with every outcome, close, write,
readiness with every `recv`/`send` outcome, poller hang-up, `prepare_unregister`, `stopped`): for every history
without connect-while-connected (the known finding keeps its signature, `client_reconnect_witness`),
`connected` and `disconnected` alternate starting with `connected`, and there is exactly one `disconnected`
per `connected`, except for the connection that is still up at the end. -/
theorem client_lifecycle (ops : List Client.Op) (h : Client.noReconnect {} ops = true) :
    Client.alternates false (Client.trace ops) = true ∧
    Client.count .connected (Client.trace ops)
      = Client.count .disconnected (Client.trace ops) + Client.b2n (Client.runFrom {} ops).1.connected := by
  refine ⟨Client.alt_runFrom {} ops h, ?_⟩
  have := Client.cnt_runFrom_eq {} ops h
  simp only [Client.trace]
  simp [Client.b2n] at this ⊢
  omega

/-- **Unregistering the client releases the connection**: after `prepare_unregister` the client is not
connected and every `connected` of the run has its `disconnected`. -/
theorem client_unregister_releases (ops : List Client.Op) (h : Client.noReconnect {} ops = true) :
    (Client.runFrom {} (ops ++ [.unregister])).1.connected = false ∧
    Client.count .connected (Client.trace (ops ++ [.unregister]))
      = Client.count .disconnected (Client.trace (ops ++ [.unregister])) := by
  have hd : (Client.runFrom {} (ops ++ [.unregister])).1.connected = false := by
    rw [Client.runFrom_append]
    simp only [Client.runFrom, Client.step]
    exact Client.doClose_down _
  have h2 : Client.noReconnect {} (ops ++ [.unregister]) = true :=
    Client.noReconnect_append {} ops _ h (by simp [Client.noReconnect])
  refine ⟨hd, ?_⟩
  have := (client_lifecycle _ h2).2
  rw [hd] at this
  simpa [Client.b2n] using this

/-- **A `Pipe()` end** is born connected and never reports `connected` for that; from then on the same
alternation holds (`disconnected` first), so it reports at most one `disconnected` more than `connected`. -/
theorem pipe_lifecycle (ops : List Client.Op) (h : Client.noReconnect Client.pipeInit ops = true) :
    Client.alternates true (Client.pipeTrace ops) = true ∧
    Client.count .disconnected (Client.pipeTrace ops) ≤ Client.count .connected (Client.pipeTrace ops) + 1 := by
  refine ⟨Client.alt_runFrom Client.pipeInit ops h, ?_⟩
  have := Client.cnt_runFrom Client.pipeInit ops
  simp only [Client.pipeTrace]
  simp [Client.b2n, Client.pipeInit] at this ⊢
  omega

/-! ### the statements are not vacuous -/

def rdIn : Nat → Poller.Bits := fun _ => ⟨true, false, false, false⟩
def rdInOut : Nat → Poller.Bits := fun _ => ⟨true, true, false, false⟩

/-- a dialogue: accept, two reads, EOF -> disconnect; then a late write and a late close: nothing happens,
    every row stays 128 (= closed, no table) -/
example : trace .epoll [.accept 1 7 false, .poll [7] rdIn (fun _ => .data [1, 2]) (fun _ => .again),
                        .poll [7] rdIn (fun _ => .eof) (fun _ => .again), .write 1 5, .close 1]
    = [.connect 1, .tab [(1, 105)],
       .recvd 1 (.data [1, 2]), .read 1 [1, 2], .tab [(1, 105)],
       .recvd 1 .eof, .sclosed 1, .disconnect 1, .tab [(1, 128)],
       .tab [(1, 128)], .tab [(1, 128)]] := by decide

/-- hypothesis of `no_trace` met, with a continuation in which the number is reused by a new socket -/
example : Obs.disconnect 1 ∈ trace .poll [.accept 1 7 false, .poll [7] rdIn (fun _ => .err) (fun _ => .again)] := by
  decide
example : (run .poll ([.accept 1 7 false, .poll [7] rdIn (fun _ => .err) (fun _ => .again)]
                      ++ [.write 1 3, .accept 2 7 false, .close 1])).1.clients = [2] := by decide

/-- close deferred behind a partial send, then the peer resets: `_closeq` is emptied -/
example : (trace .select [.accept 1 7 false, .write 1 10, .poll [7] rdInOut (fun _ => .again) (fun _ => .acc 4),
                          .close 1, .poll [7] rdInOut (fun _ => .err) (fun _ => .again)]).getLast?
    = some (.tab [(1, 128)]) := by decide

/-- a connection that is dead on arrival: `error` only, no table -/
example : trace .poll [.accept 1 7 true] = [.error 1, .sclosed 1, .tab [(1, 128)]] := by decide

/-- `client_pairing_partial`: hypothesis met by a history with two full life cycles -/
example : Client.noReconnect {} [.connect .ok, .readable .eof, .connect .refused, .connect .ok, .write 3, .close,
                                 .writable (.acc 3)] = true := by decide
example : Client.trace [.connect .ok, .readable .eof, .connect .refused, .connect .ok, .write 3, .close,
                        .writable (.acc 3)]
    = [.connected, .disconnected, .unreachable, .error, .connected, .disconnected] := by decide

/-- W11: two connections, one with queued output; `close()` of the whole server disconnects the idle one at
    once and parks the other in `_closeq` (row 1|2|4|8|16|32|64 = 127); when its output has drained it is
    disconnected too; a second `close()` and a `stop` find nothing to do -/
example : xtrace .epoll [.op (.accept 1 7 false), .op (.accept 2 8 false), .op (.write 2 10), .closeAll,
                         .op (.poll [8] rdInOut (fun _ => .again) (fun _ => .acc 10)), .closeAll, .stop]
    = [.connect 1, .tab [(1, 105)], .connect 2, .tab [(1, 105), (2, 105)], .tab [(1, 105), (2, 123)],
       .sclosed 1, .disconnect 1, .tab [(1, 128), (2, 127)],
       .recvd 2 .again, .sent 2 10 (.acc 10), .sclosed 2, .disconnect 2, .tab [(1, 128), (2, 128)],
       .tab [(1, 128), (2, 128)], .tab [(1, 128), (2, 128)]] := by decide

/-- hypothesis of `no_trace_x` met by a disconnect that the server-wide close caused -/
example : Obs.disconnect 1 ∈ xtrace .poll [.op (.accept 1 7 false), .closeAll] := by decide

/-- hypotheses of `server_close_all` met: an open connection without and one with queued output -/
example : let s := (xrun .poll [.op (.accept 1 7 false), .op (.accept 2 8 false), .op (.write 2 10)]).1
    (1 ∈ s.clients ∧ bufGet s 1 = []) ∧ (2 ∈ s.clients ∧ bufGet s 2 ≠ []) ∧ 3 ∉ s.clients := by decide
example : let s := (xrun .select [.op (.accept 1 7 false), .op (.accept 2 8 false)]).1
    s.clients = [1, 2] ∧ ∀ o, o ∈ s.clients → bufGet s o = [] := by decide

/-- `stop_releases_all`: connection 1 is released by the stop, connection 2 waits with queued output -/
example : let s' := (xrun .select ([.op (.accept 1 7 false), .op (.accept 2 8 false), .op (.write 2 10)] ++ [.stop])).1
    s'.clients = [2] ∧ s'.closeq = [2] := by decide

/-- `client_lifecycle` / `client_unregister_releases`: hypothesis met by a UNIXClient-shaped history: connect,
    unregister, a connect that fails on the closed socket, and one with stop while output is queued -/
example : Client.noReconnect {} [.connect .ok, .unregister, .connect .failed] = true := by decide
example : Client.trace ([.connect .ok, .write 3, .stopped, .writable (.acc 3), .connect .ok] ++ [.unregister])
    = [.connected, .disconnected, .connected, .disconnected] := by decide

/-- `pipe_lifecycle`: a Pipe end reads, is stopped: one `disconnected`, no `connected` -/
example : Client.noReconnect Client.pipeInit [.readable (.data [1]), .stopped, .connect .failed] = true := by decide
example : Client.pipeTrace [.readable (.data [1]), .stopped, .connect .failed] = [.read [1], .disconnected, .error] := by
  decide

/-! ### the accept path: the listening socket as a model object (`AOp`, CV/Model/ConnAccept.lean)

Histories `List AOp`: everything above (`.x`), plus server start (`.start`: the listening socket is registered as
reader), `_read(listening socket)` with the kernel's answer to `accept()` (`.lready`: a new socket, a new socket whose
peer has already reset, any errno), and `_close(listening socket)` (`.lclose`); a server-wide close / stop now also
closes the listening socket. -/

/-- **The extension is conservative**: a history without listening-socket operations shows exactly what it showed
before, and leaves the same connection state. -/
theorem a_extends (k : Poller.Kind) (ops : List XOp) :
    atrace k (ops.map .x) = xtrace k ops ∧ (arun k (ops.map .x)).1.c = (xrun k ops).1 :=
  ⟨(arunFrom_x (AState.init k) ops).2, (arunFrom_x (AState.init k) ops).1⟩

/-- **`spec_holds` for histories with the accept path**: whatever the kernel answers to `accept()` and whenever the
listening socket is started / closed, per socket the events follow `connect (read|error)* disconnect` (or a lone `error`
for a connection reset before it was announced): in particular no `read`/`disconnect` before the `connect`. -/
theorem spec_holds_a (k : Poller.Kind) (ops : List AOp) : specTrace (atrace k ops) = true := by
  have h := (ok_arun k ops).spec
  simp only [specTrace, atrace]
  rw [h]; rfl

/-- **`lifecycle` for histories with the accept path.** -/
theorem lifecycle_a (k : Poller.Kind) (ops : List AOp) (o : Poller.Obj) :
    lifeOf o (atrace k ops) = [] ∨ lifeOf o (atrace k ops) = [.connect o] ∨
    lifeOf o (atrace k ops) = [.connect o, .disconnect o] := by
  have h := life_ok {} (atrace k ops) o (ok_arun k ops).spec
  simpa [allowedLife] using h

/-- **`tables_only_connected` / `connected_iff_open` for histories with the accept path.** -/
theorem tables_a (k : Poller.Kind) (ops : List AOp) (o : Poller.Obj) :
    let s := (arun k ops).1.c
    (o ∈ s.clients ↔ (s.p.w.fno o).isSome = true) ∧
    (o ∉ s.clients → s.buffers o = none ∧ o ∉ s.closeq ∧ o ∉ s.p.read ∧ o ∉ s.p.write ∧ s.p.targets o = none ∧
      (∀ f, s.p.map f ≠ some o)) :=
  ⟨⟨(ok_arun k ops).inv.O o, (ok_arun k ops).inv.C o⟩, fun h => no_table (ok_arun k ops).inv h⟩

/-- **`no_trace` for histories with the accept path.** -/
theorem no_trace_a (k : Poller.Kind) (pre post : List AOp) (o : Poller.Obj)
    (h : Obs.disconnect o ∈ atrace k pre) :
    let s := (arun k (pre ++ post)).1.c
    o ∉ s.clients ∧ s.buffers o = none ∧ o ∉ s.closeq ∧ o ∉ s.p.read ∧ o ∉ s.p.write ∧
    s.p.targets o = none ∧ (∀ f, s.p.map f ≠ some o) ∧ s.p.w.fno o = none := by
  intro s
  have h1 := ok_arun k pre
  have g : (specAdv {} (arun k pre).2).ph o = .gone := gone_after_disconnect {} _ o h1.spec h
  have h2 := ok_arunFrom (σ := specAdv {} (arun k pre).2) post h1.inv h1.rel
  have g2 := specAdv_final _ (arunFrom (arun k pre).1 post).2 o (Or.inl g) h2.spec
  have es : s = (arunFrom (arun k pre).1 post).1.c := by
    show (arunFrom (AState.init k) (pre ++ post)).1.c = _
    rw [arunFrom_append]; rfl
  rw [es]
  have hnc : o ∉ (arunFrom (arun k pre).1 post).1.c.clients := by
    intro hc
    have := (h2.rel.conn o).mpr hc
    rw [g2, g] at this; cases this
  obtain ⟨a1, a2, a3, a4, a5, a6⟩ := no_table h2.inv hnc
  refine ⟨hnc, a1, a2, a3, a4, a5, a6, ?_⟩
  cases hf : (arunFrom (arun k pre).1 post).1.c.p.w.fno o with
  | none => rfl
  | some f => exact absurd (h2.inv.C o (by simp [hf])) hnc

/-- **Every accepted socket is announced exactly once, first of all, and is registered as reader**: when, after any
history, the listening socket is readable and `accept()` returns a new socket `o` (peer alive), the op shows exactly
`connect o`; `o` is then a client, in the poller's `_read` with the server as target; and in every continuation the
`connect`/`disconnect` events of `o` are `[connect o]` or `[connect o, disconnect o]` - one `connect`, before any
`disconnect` (and before any `read`: `spec_holds_a`). -/
theorem accepted_announced_once (k : Poller.Kind) (pre post : List AOp) (o : Poller.Obj) (f : Nat)
    (hl : (arun k pre).1.l = .listening) (hv : (arun k pre).1.c.p.w.canOpen o f = true) :
    let r := astep (arun k pre).1 (.lready (.sock o f false))
    r.2 = [.connect o, .tab (rows r.1.c)] ∧ o ∈ r.1.c.clients ∧ o ∈ r.1.c.p.read ∧
    r.1.c.p.targets o = some srvChan ∧
    (lifeOf o (atrace k (pre ++ [.lready (.sock o f false)] ++ post)) = [.connect o] ∨
     lifeOf o (atrace k (pre ++ [.lready (.sock o f false)] ++ post)) = [.connect o, .disconnect o]) := by
  intro r
  have hp := accept_poller (arun k pre).1.c.p o f hv
  have e2 : r.2 = [.connect o, .tab (rows r.1.c)] := by
    simp [r, astep, astepCore, hl, stepCore, hv]
  refine ⟨e2, by simp [r, astep, astepCore, hl, stepCore, hv], ?_, ?_, ?_⟩
  · simpa [r, astep, astepCore, hl, stepCore, hv] using hp.1
  · simpa [r, astep, astepCore, hl, stepCore, hv] using hp.2
  · have hm : Obs.connect o ∈ lifeOf o (atrace k (pre ++ [.lready (.sock o f false)] ++ post)) := by
      simp only [lifeOf, List.mem_filter]
      refine ⟨?_, by simp⟩
      show Obs.connect o ∈ (arunFrom (AState.init k) (pre ++ [.lready (.sock o f false)] ++ post)).2
      rw [arunFrom_append, arunFrom_append]
      simp only [arunFrom, List.append_nil]
      have : Obs.connect o ∈ r.2 := by rw [e2]; simp
      simp only [List.mem_append]
      exact Or.inl (Or.inr this)
    rcases lifecycle_a k (pre ++ [.lready (.sock o f false)] ++ post) o with h | h | h
    · rw [h] at hm; simp at hm
    · exact Or.inl h
    · exact Or.inr h

/-- **A failed accept leaves no trace**: whatever errno `accept()` answers (tolerated or re-raised), in whatever state:
no table of the server or the poller changes, the listening socket stays as it was, and the op shows no event at all
(no `connect`, no `disconnect`, no `error`) - only the unchanged tables. -/
theorem failed_accept_no_trace (k : Poller.Kind) (ops : List AOp) (e : Errno) :
    let a := (arun k ops).1
    let r := astep a (.lready (.errno e))
    r.1.c = a.c ∧ r.1.l = a.l ∧ r.1.ldisc = a.ldisc ∧ r.2 = [.tab (rows a.c)] ∧
    (tolerated e = true → r.1.raised = a.raised) := by
  intro a r
  by_cases hl : a.l = .listening <;> by_cases ht : tolerated e = true <;>
    simp [r, astep, astepCore, hl, ht]

/-- **A connection that was reset while it waited in the backlog** (`getpeername()` fails after `accept()`): `error`
and the close of the new socket, never `connect` or `disconnect` - now or in any continuation - and no table mentions
it afterwards. -/
theorem reset_before_accept_no_trace (k : Poller.Kind) (pre post : List AOp) (o : Poller.Obj) (f : Nat)
    (hl : (arun k pre).1.l = .listening) (hv : (arun k pre).1.c.p.w.canOpen o f = true) :
    (astep (arun k pre).1 (.lready (.sock o f true))).2
      = [.error o, .sclosed o, .tab (rows (astep (arun k pre).1 (.lready (.sock o f true))).1.c)] ∧
    tbits (arun k (pre ++ [.lready (.sock o f true)] ++ post)).1.c o = 0 := by
  refine ⟨by simp [astep, astepCore, hl, stepCore, hv], ?_⟩
  have ok1 := ok_arun k (pre ++ [.lready (.sock o f true)])
  have hrej : (specAdv {} (arun k (pre ++ [.lready (.sock o f true)])).2).ph o = .rej := by
    have okp := ok_arun k pre
    have hidle : (specAdv {} (arun k pre).2).ph o = .idle := by
      apply (okp.rel.idle o).mpr
      have := hv
      simp only [Poller.World.canOpen, Bool.and_eq_true, Option.isNone_iff_eq_none] at this
      exact this.1
    have e : (arun k (pre ++ [.lready (.sock o f true)])).2
        = (arun k pre).2 ++ [.error o, .sclosed o,
            .tab (rows (astep (arun k pre).1 (.lready (.sock o f true))).1.c)] := by
      show (arunFrom (AState.init k) (pre ++ [.lready (.sock o f true)])).2 = _
      rw [arunFrom_append]
      simp only [arunFrom, List.append_nil]
      show (arun k pre).2 ++ (astep (arun k pre).1 (.lready (.sock o f true))).2 = _
      congr 1
      simp [astep, astepCore, hl, stepCore, hv]
    rw [e, specAdv_append]
    have hidle' : (List.foldl Spec.advance {} (arun k pre).2).ph o = .idle := hidle
    simp [specAdv, Spec.advance, hidle', Poller.upd_same]
  have h2 := ok_arunFrom (σ := specAdv {} (arun k (pre ++ [.lready (.sock o f true)])).2) post ok1.inv ok1.rel
  have g2 := specAdv_final _ (arunFrom (arun k (pre ++ [.lready (.sock o f true)])).1 post).2 o (Or.inr hrej) h2.spec
  have es : (arun k (pre ++ [.lready (.sock o f true)] ++ post)).1.c
      = (arunFrom (arun k (pre ++ [.lready (.sock o f true)])).1 post).1.c := by
    show (arunFrom (AState.init k) (pre ++ [.lready (.sock o f true)] ++ post)).1.c = _
    rw [arunFrom_append]; rfl
  rw [es]
  apply tbits_zero h2.inv
  intro hc
  have := (h2.rel.conn o).mpr hc
  rw [g2, hrej] at this; cases this

/-- **After a server-wide close, a stop, or a close / hang-up of the listening socket itself, the listening socket is
in no poller table** - under every poller, after every history, and for every continuation: its phase is not
`listening` any more; once `closed` it stays closed; in the poller state that `discard` + `close` leave behind it is
in none of `_read`, `_write`, `_targets`, `_map` and its descriptor is closed; and exactly one `disconnect` was fired
for it. -/
theorem listener_released (k : Poller.Kind) (pre post : List AOp) (op : AOp)
    (hop : op = .x .closeAll ∨ op = .x .stop ∨ op = .lclose) (hl : (arun k pre).1.l = .listening) :
    let a := (arun k (pre ++ [op] ++ post)).1
    a.l = .closed ∧ a.ldisc = 1 ∧
    (Conn.lobj ∉ (lworld k a.l).read ∧ Conn.lobj ∉ (lworld k a.l).write ∧ (lworld k a.l).targets Conn.lobj = none ∧
     inMap (lworld k a.l) Conn.lobj = false ∧ (lworld k a.l).w.fno Conn.lobj = none) ∧ lflags k a.l = 128 := by
  intro a
  have h1 : (astep (arun k pre).1 op).1.l = .closed := by
    rcases hop with e | e | e <;> subst e <;> simp [astep, astepCore, closeListener, hl]
  have e : a = (arunFrom (astep (arun k pre).1 op).1 post).1 := by
    show (arunFrom (AState.init k) (pre ++ [op] ++ post)).1 = _
    rw [arunFrom_append, arunFrom_append]
    simp [arunFrom, arun]
  have hc : a.l = .closed := by rw [e]; exact arunFrom_closed _ post h1
  have hi : LInv a := linv_arunFrom (a := AState.init k) (pre ++ [op] ++ post) (by simp [LInv, AState.init])
  refine ⟨hc, by simpa [LInv, hc] using hi, ?_, ?_⟩
  · rw [hc]; exact lclosed_clean k
  · rw [hc]; exact lflags_closed k

/-- the listening socket gets at most one `disconnect`, in every history -/
theorem listener_disconnect_le_one (k : Poller.Kind) (ops : List AOp) : (arun k ops).1.ldisc ≤ 1 := by
  have hi : LInv (arun k ops).1 := linv_arunFrom (a := AState.init k) ops (by simp [LInv, AState.init])
  unfold LInv at hi
  split at hi <;> omega

/-- non-vacuity: start, two failed accepts (one tolerated, one re-raised), an accept, a dead-on-arrival accept, a read,
    server-wide close; an accept answer after the close is ignored -/
example : (atrace .epoll [.start, .lready (.errno .emfile), .lready (.errno .other), .lready (.sock 1 7 false),
                          .lready (.sock 2 8 true), .x .closeAll, .lready (.sock 3 9 false)])
    = [.tab [], .tab [], .tab [], .connect 1, .tab [(1, 105)], .error 2, .sclosed 2, .tab [(1, 105), (2, 128)],
       .sclosed 1, .disconnect 1, .tab [(1, 128), (2, 128)], .tab [(1, 128), (2, 128)]] := by decide
example : (arun .poll [.start]).1.l = .listening ∧ (arun .poll [.start]).1.c.p.w.canOpen 1 7 = true := by decide
example : lflags .poll .listening = 104 ∧ lflags .select .listening = 40 := by decide
example : Obs.disconnect 1 ∈ atrace .select [.start, .lready (.sock 1 7 false), .x .stop] := by decide
example : (arun .select [.start, .lready (.errno .other), .lclose, .x .stop]).1.raised = 1 ∧
    (arun .select [.start, .lready (.errno .other), .lclose, .x .stop]).1.ldisc = 1 := by decide

end CV.C12

import CV.Proofs.Conn
/-
C12 — Every connection: one connect, ordered reads, one disconnect, then no trace.

Model: CV/Model/Conn.lean = the `Server` of circuits/net/sockets.py (after the five `fix:` commits of
C12) composed with the poller model of C10 (Select, Poll, EPoll), plus the `Client` life cycle.
Statement: CV/Model/ConnSpec.lean (`obsFail`, `specTrace`: an observer that sees only the
connect/read/disconnect/error events per socket, what `recv` delivered per socket, and the tables
after every op).  Histories are arbitrary lists of `Op`: accepts of new sockets with any free file
number (also a number a closed socket had) whose peer may already be gone, `write`/`close` events for
any socket at any time (also long after its disconnect, or never connected), and poll rounds with
arbitrary readiness and arbitrary `recv`/`send` outcomes per socket (data, EOF, EWOULDBLOCK, errors,
partial and refused sends) — any number of concurrent connections, no bound on anything.
-/
namespace CV.C12
open CV.Conn

/-- **Every run of the server under every poller satisfies the observer's predicate**: per socket
the events follow `connect (read|error)* disconnect` (or a lone `error` for a connection refused
before it was announced) with nothing afterwards; every `read` is the oldest chunk `recv` delivered
on that socket that was not yet reported, and at the end of every op no delivered chunk is
unreported (order, no loss, no duplication); after every op, every socket that any table of the
server or the poller mentions is a connected one, and every closed socket was disconnected. -/
theorem spec_holds (k : Poller.Kind) (ops : List Op) : specTrace (trace k ops) = true := by
  have h := (ok_run k ops).spec
  simp only [specTrace, trace]
  rw [h]; rfl

/-- **One connect, one disconnect, in this order**: for every socket, the `connect`/`disconnect`
events of a run are a prefix of `[connect o, disconnect o]`. -/
theorem lifecycle (k : Poller.Kind) (ops : List Op) (o : Poller.Obj) :
    lifeOf o (trace k ops) = [] ∨ lifeOf o (trace k ops) = [.connect o] ∨
    lifeOf o (trace k ops) = [.connect o, .disconnect o] := by
  have h := life_ok {} (trace k ops) o (ok_run k ops).spec
  simpa [allowedLife] using h

/-- **After the disconnect, no trace — for every continuation.**  Once `disconnect o` has been
observed, in the state after *any* further history (late `write o`/`close o` events, rounds, other
connections, a new socket taking `o`'s file number) `o` is in none of `_clients`, `_buffers`,
`_closeq`, the poller's `_read`, `_write`, `_targets`, `_map`, and its descriptor is closed. -/
theorem no_trace (k : Poller.Kind) (pre post : List Op) (o : Poller.Obj)
    (h : Obs.disconnect o ∈ trace k pre) :
    let s := (run k (pre ++ post)).1
    o ∉ s.clients ∧ s.buffers o = none ∧ o ∉ s.closeq ∧ o ∉ s.p.read ∧ o ∉ s.p.write ∧
    s.p.targets o = none ∧ (∀ f, s.p.map f ≠ some o) ∧ s.p.w.fno o = none := by
  intro s
  have h1 := ok_run k pre
  have g : (specAdv {} (run k pre).2).ph o = .gone := gone_after_disconnect {} _ o h1.spec h
  have h2 := ok_runFrom (σ := specAdv {} (run k pre).2) post h1.inv h1.rel
  have g2 := specAdv_final _ (runFrom (run k pre).1 post).2 o (Or.inl g) h2.spec
  have es : s = (runFrom (run k pre).1 post).1 := by
    show (runFrom (State.init k) (pre ++ post)).1 = _
    rw [runFrom_append]; rfl
  rw [es]
  have hnc : o ∉ (runFrom (run k pre).1 post).1.clients := by
    intro hc
    have := (h2.rel.conn o).mpr hc
    rw [g2, g] at this; cases this
  obtain ⟨a1, a2, a3, a4, a5, a6⟩ := no_table h2.inv hnc
  refine ⟨hnc, a1, a2, a3, a4, a5, a6, ?_⟩
  cases hf : (runFrom (run k pre).1 post).1.p.w.fno o with
  | none => rfl
  | some f => exact absurd (h2.inv.C o (by simp [hf])) hnc

/-- **No table ever mentions a socket that is not connected** (in particular: nothing is retained
for a connection that was refused, or for a socket addressed by a late event). -/
theorem tables_only_connected (k : Poller.Kind) (ops : List Op) (o : Poller.Obj)
    (h : o ∉ (run k ops).1.clients) :
    let s := (run k ops).1
    s.buffers o = none ∧ o ∉ s.closeq ∧ o ∉ s.p.read ∧ o ∉ s.p.write ∧ s.p.targets o = none ∧
    (∀ f, s.p.map f ≠ some o) :=
  no_table (ok_run k ops).inv h

/-- **Connected means open, and only connected sockets are open**: the server never keeps a closed
socket as a client and never leaves a descriptor open that it has dropped. -/
theorem connected_iff_open (k : Poller.Kind) (ops : List Op) (o : Poller.Obj) :
    o ∈ (run k ops).1.clients ↔ ((run k ops).1.p.w.fno o).isSome = true :=
  ⟨(ok_run k ops).inv.O o, (ok_run k ops).inv.C o⟩

/-! ### clients: one `disconnected` per `connected` -/

/-- **A client never reports more `disconnected` than `connected`** — every history, no hypothesis. -/
theorem client_disconnected_le_connected (ops : List Client.Op) :
    Client.count .disconnected (Client.trace ops) ≤ Client.count .connected (Client.trace ops) := by
  have := Client.cnt_runFrom {} ops
  simp only [Client.trace]
  simp [Client.b2n] at this
  omega

/-- **`connected` and `disconnected` alternate, starting with `connected`** (so
`#disconnected ≤ #connected ≤ #disconnected + 1`), for every history in which `connect` is not issued
while the client is connected.
Full statement (open, false for the code as it is): the same for *every* history.  `TCPClient.connect`
/`UNIXClient.connect` on a connected client fire `connected` again (EISCONN is taken for success):
see `client_reconnect_witness`. -/
theorem client_pairing_partial (ops : List Client.Op) (h : Client.noReconnect {} ops = true) :
    Client.alternates false (Client.trace ops) = true :=
  Client.alt_runFrom {} ops h

/-- the excluded case really fails: two `connect`s without a disconnect in between -/
theorem client_reconnect_witness :
    Client.alternates false (Client.trace [.connect .ok, .connect .ok]) = false := by decide

/-! ### the statements are not vacuous -/

def rdIn : Nat → Poller.Bits := fun _ => ⟨true, false, false, false⟩
def rdInOut : Nat → Poller.Bits := fun _ => ⟨true, true, false, false⟩

/-- a dialogue: accept, two reads, EOF -> disconnect; then a late write and a late close: nothing happens,
    every row stays 128 (= closed, no table) -/
example : trace .epoll [.accept 1 7 false, .poll [7] rdIn (fun _ => .data [1, 2]) (fun _ => .again),
                        .poll [7] rdIn (fun _ => .eof) (fun _ => .again), .write 1 5, .close 1]
    = [.connect 1, .tab [(1, 105)],
       .recvd 1 (.data [1, 2]), .read 1 [1, 2], .tab [(1, 105)],
       .recvd 1 .eof, .sclosed 1, .disconnect 1, .tab [(1, 128)],
       .tab [(1, 128)], .tab [(1, 128)]] := by decide

/-- hypothesis of `no_trace` met, with a continuation in which the number is reused by a new socket -/
example : Obs.disconnect 1 ∈ trace .poll [.accept 1 7 false, .poll [7] rdIn (fun _ => .err) (fun _ => .again)] := by
  decide
example : (run .poll ([.accept 1 7 false, .poll [7] rdIn (fun _ => .err) (fun _ => .again)]
                      ++ [.write 1 3, .accept 2 7 false, .close 1])).1.clients = [2] := by decide

/-- close deferred behind a partial send, then the peer resets: `_closeq` is emptied -/
example : (trace .select [.accept 1 7 false, .write 1 10, .poll [7] rdInOut (fun _ => .again) (fun _ => .acc 4),
                          .close 1, .poll [7] rdInOut (fun _ => .err) (fun _ => .again)]).getLast?
    = some (.tab [(1, 128)]) := by decide

/-- a connection that is dead on arrival: `error` only, no table -/
example : trace .poll [.accept 1 7 true] = [.error 1, .sclosed 1, .tab [(1, 128)]] := by decide

/-- `client_pairing_partial`: hypothesis met by a history with two full life cycles -/
example : Client.noReconnect {} [.connect .ok, .readable .eof, .connect .refused, .connect .ok, .write 3, .close,
                                 .writable (.acc 3)] = true := by decide
example : Client.trace [.connect .ok, .readable .eof, .connect .refused, .connect .ok, .write 3, .close,
                        .writable (.acc 3)]
    = [.connected, .disconnected, .unreachable, .error, .connected, .disconnected] := by decide

end CV.C12

import CV.Proofs.WebSocket
/-
C17 - WebSocket frames round-trip exactly, whatever the segmentation or fragmentation.

Model: CV.WS (CV/Model/WebSocket.lean) = circuits/protocols/websocket.py after the C17 `fix:`
commits.  Independent statement: CV/Model/WebSocketSpec.lean (RFC 6455 encoder, strict
decoder, `expected`, `conforming`).  Every theorem below is universally quantified: all
payloads and lengths, all masking keys, all frame lists, all cut lists, all decoder states.

The only numeric hypothesis anywhere is `payload.length < 2 ^ 63`, the limit of the wire
format itself (RFC 6455 5.2: 64-bit length, most significant bit 0).  `encode_is_rfc` shows
that the bytes written are the RFC encoding without any bound.
-/
namespace CV.C17
open CV CV.WS

/-! ### writing: what a conforming peer decodes is the message -/

/-- `_on_write` writes exactly the RFC 6455 encoding of one final text/binary frame,
    masked with the drawn key iff the codec is a client - every payload, every key -/
theorem encode_is_rfc (s : St) (client text : Bool) (data : Bytes) (k : Key)
    (hs : s.closeSent = false) :
    onWrite s client text data k.toBytes =
      some (rfcEncodeFrame ⟨true, if text then 1 else 2, if client then some k else none, data⟩) :=
  onWrite_eq s client text data k hs

/-- the independent strict decoder reads the written frame back as the message (type, payload,
    masking) - all three length encodings, masked and unmasked -/
theorem encode_conforms (s : St) (client text : Bool) (data : Bytes) (k : Key)
    (hs : s.closeSent = false) (hn : data.length < 2 ^ 63) :
    ∃ w, onWrite s client text data k.toBytes = some w ∧
      rfcDecodeFrames w = some [⟨true, if text then 1 else 2, if client then some k else none, data⟩] ∧
      specWrite client k text data w = true := by
  refine ⟨_, onWrite_eq s client text data k hs, ?_⟩
  have h := rfcDecodeFrames_single
    ⟨true, if text then 1 else 2, if client then some k else none, data⟩
    (by cases text <;> simp) hn
  exact ⟨h, by simp [specWrite, h]⟩

example : ∃ w, onWrite {} true true [104, 105] (Key.toBytes ⟨1, 2, 3, 4⟩) = some w ∧
    rfcDecodeFrames w = some [⟨true, 1, some ⟨1, 2, 3, 4⟩, [104, 105]⟩] ∧
    specWrite true ⟨1, 2, 3, 4⟩ true [104, 105] w = true :=
  encode_conforms {} true true [104, 105] ⟨1, 2, 3, 4⟩ rfl (by decide)

/-- a pong written by the codec is the RFC encoding of a final pong frame with that payload -/
theorem pong_conforms (client : Bool) (payload : Bytes) (k : Key) (hn : payload.length < 2 ^ 63) :
    rfcDecodeFrames (pongFrame client payload k.toBytes)
      = some [⟨true, 10, if client then some k else none, payload⟩] := by
  rw [pongFrame_eq]
  exact rfcDecodeFrames_single _ (by simp) hn

example : rfcDecodeFrames (pongFrame false [1, 2] (Key.toBytes ⟨0, 0, 0, 0⟩)) = some [⟨true, 10, none, [1, 2]⟩] :=
  pong_conforms false [1, 2] ⟨0, 0, 0, 0⟩ (by decide)

/-! ### reading: segmentation -/

/-- two reads are one read of the concatenation: same final state (carried buffer, pending
    fragments, closing flags), outputs concatenated - for every decoder state, every split,
    also inside the 2-byte header, the extended length, the masking key -/
theorem decode_hom (s : St) (a b : Bytes) :
    ((feed (feed s a).1 b).1, (feed s a).2 ++ (feed (feed s a).1 b).2) = feed s (a ++ b) :=
  feed_hom s a b

/-- any cut list: the reads decode like the whole stream in one read (`s.wf`: the carried
    buffer holds no complete frame - true initially and after every read, `wf_preserved`) -/
theorem decode_any_cuts (s : St) (segs : List Bytes) (h : s.wf) :
    feedAll s segs = feed s segs.flatten :=
  feedAll_flatten s segs h

theorem wf_preserved (s : St) (segs : List Bytes) (h : s.wf) : (feedAll s segs).1.wf :=
  feedAll_wf s segs h

example : St.wf {} := wf_init

/-- two segmentations of the same byte stream are indistinguishable -/
theorem segmentation_invariant (segs segs' : List Bytes) (h : segs.flatten = segs'.flatten) :
    feedAll {} segs = feedAll {} segs' := by
  rw [feedAll_flatten _ _ wf_init, feedAll_flatten _ _ wf_init, h]

example : feedAll {} [[0x81], [0x01], [0x61]] = feedAll {} [[0x81, 0x01, 0x61]] :=
  segmentation_invariant _ _ rfl

/-! ### reading: round trip against the RFC encoder -/

/-- Frames of a conforming peer (any messages, any fragmentation into continuation frames,
    pings/pongs anywhere between the fragments, masked or not with any keys, optionally a
    close frame followed by anything), encoded by the RFC encoder and cut into reads in any
    way: the codec emits exactly what RFC 6455 demands (`expected`): every message with its
    type and payload, in order, one pong per ping with the ping's payload (none once the
    local close was sent), the fragmented message undisturbed, and nothing after the close.
    `tail` is an incomplete frame (or empty), or anything at all once a close frame was sent. -/
theorem decode_roundtrip (cs : Bool) (fs : List RFrame) (tail : Bytes) (segs : List Bytes)
    (hc : conforming none fs = true)
    (ht : parseFrame tail = none ∨ fs.any (fun f => f.opcode == 8) = true)
    (hsegs : segs.flatten = rfcEncodeFrames fs ++ tail) :
    (feedAll { closeSent := cs } segs).2 = expected cs none fs := by
  rw [feedAll_flatten _ _ (show St.wf { closeSent := cs } from parseFrame_nil), hsegs]
  have := (parseLoop_frames cs fs tail { closeSent := cs } none hc rfl rfl ht).1
  simpa [feed] using this

/-- non-vacuity: "ab" in two fragments with a ping between them, byte at a time -/
example : (feedAll {} [[0x01], [0x01, 0x61], [0x89, 0x01], [0x70, 0x80], [0x01, 0x62]]).2
    = [Out.pong [0x70], Out.message true [0x61, 0x62]] := by
  have := decode_roundtrip false
    [⟨false, 1, none, [0x61]⟩, ⟨true, 9, none, [0x70]⟩, ⟨true, 0, none, [0x62]⟩] []
    [[0x01], [0x01, 0x61], [0x89, 0x01], [0x70, 0x80], [0x01, 0x62]]
    (by decide) (Or.inl parseFrame_nil) (by decide)
  simpa [expected] using this

example : conforming none [⟨false, 1, none, [0x61]⟩, ⟨true, 9, none, [0x70]⟩, ⟨true, 0, none, [0x62]⟩] = true := by
  decide

/-! ### reading: messages, fragments and interleaved control frames, spelled out -/

/-- For every list of messages and stand-alone pings/pongs, every split of every message
    into fragments (`Msg.first`, `Msg.more`), every run of pings/pongs in front of every
    continuation fragment, every masking key (or none) per frame, and every cut of the
    RFC encoding of all that into reads (`tail`: an incomplete next frame, or nothing):
    the codec delivers each message once, with its type and with the concatenation of its
    fragments as payload, in order, and answers each ping - also those inside a fragmented
    message - with a pong carrying the ping's payload. -/
theorem fragmentation_roundtrip (items : List Item) (tail : Bytes) (segs : List Bytes)
    (hok : items.all Item.ok = true) (ht : parseFrame tail = none)
    (hsegs : segs.flatten = rfcEncodeFrames (items.flatMap Item.frames) ++ tail) :
    (feedAll {} segs).2 = items.flatMap Item.outs := by
  have hc := conforming_items items hok [] rfl
  have he := expected_items items []
  rw [List.append_nil] at hc he
  have := decode_roundtrip false (items.flatMap Item.frames) tail segs hc (Or.inl ht) hsegs
  rw [this, he]
  simp [expected]

/-- the same followed by a close frame and then anything at all: everything before the close
    is delivered as above, then the close event, and nothing after it -/
theorem fragmentation_roundtrip_close (items : List Item) (ckey : Option Key) (cpayload junk : Bytes)
    (segs : List Bytes) (hok : items.all Item.ok = true) (hcp : cpayload.length ≤ 125)
    (hsegs : segs.flatten =
      rfcEncodeFrames (items.flatMap Item.frames ++ [⟨true, 8, ckey, cpayload⟩]) ++ junk) :
    (feedAll {} segs).2 = items.flatMap Item.outs ++ [Out.closeEvt] := by
  have hcl : conforming none [⟨true, 8, ckey, cpayload⟩] = true := by
    simp [conforming, hcp]; omega
  have hc := conforming_items items hok _ hcl
  have he := expected_items items [⟨true, 8, ckey, cpayload⟩]
  have := decode_roundtrip false _ junk segs hc (Or.inr (by simp)) hsegs
  rw [this, he]
  simp [expected]

/-- non-vacuity: text "ab" sent as "a" + ping("p") + "b", masked, then a stand-alone ping -/
example : (Item.msg ⟨true, ⟨some ⟨1, 2, 3, 4⟩, [0x61]⟩, [([⟨true, none, [0x70]⟩], ⟨none, [0x62]⟩)]⟩).outs
    = [Out.pong [0x70], Out.message true [0x61, 0x62]] := by decide

/-- endpoint to endpoint: what one codec writes, the other delivers - any cuts, any key -/
theorem write_then_read (s : St) (client text : Bool) (data : Bytes) (k : Key) (segs : List Bytes)
    (hs : s.closeSent = false) (hn : data.length < 2 ^ 63)
    (hsegs : some segs.flatten = onWrite s client text data k.toBytes) :
    (feedAll {} segs).2 = [Out.message text data] := by
  rw [onWrite_eq s client text data k hs] at hsegs
  have hseg' : segs.flatten =
      rfcEncodeFrames [⟨true, if text then 1 else 2, if client then some k else none, data⟩] ++ [] := by
    simp [rfcEncodeFrames, Option.some.inj hsegs]
  have hc : conforming none [⟨true, if text then 1 else 2, if client then some k else none, data⟩] = true := by
    cases text <;> simp [conforming, hn]
  have := decode_roundtrip false _ [] segs hc (Or.inl parseFrame_nil) hseg'
  rw [this]
  cases text <;> simp [expected]

/-! ### closing -/

/-- once a close frame has been decoded nothing is delivered or answered any more -/
theorem after_close_received (s : St) (reads : List Bytes) (h : s.closeRecv = true) :
    feedAll s reads = (s, []) :=
  feedAll_closed s reads h

/-- the close event is what sets that flag (so nothing follows it in later reads) -/
theorem close_event_closes (s : St) (d : Bytes) (h : Out.closeEvt ∈ (feed s d).2) :
    (feed s d).1.closeRecv = true := by
  unfold feed at *
  split
  · rename_i hc; exact hc
  · rename_i hc
    rw [if_neg hc] at h
    exact parseLoop_close_flag _ _ h

/-- a conforming stream with a close frame leaves the decoder closed: whatever is read
    afterwards produces no output -/
theorem after_close_frame (cs : Bool) (fs : List RFrame) (tail : Bytes) (segs more : List Bytes)
    (hc : conforming none fs = true) (h8 : fs.any (fun f => f.opcode == 8) = true)
    (hsegs : segs.flatten = rfcEncodeFrames fs ++ tail) :
    (feedAll (feedAll { closeSent := cs } segs).1 more).2 = [] := by
  have hflag : (feedAll { closeSent := cs } segs).1.closeRecv = true := by
    rw [feedAll_flatten _ _ (show St.wf { closeSent := cs } from parseFrame_nil), hsegs]
    have := (parseLoop_frames cs fs tail { closeSent := cs } none hc rfl rfl (Or.inr h8)).2
    simpa [feed, h8] using this
  rw [feedAll_closed _ _ hflag]

/-- after the local close (`_on_close`) no data frame is written, whatever is asked -/
theorem after_close_sent (s : St) (client text : Bool) (data key : Bytes) :
    (onClose s).1.closeSent = true ∧ onWrite (onClose s).1 client text data key = none := by
  simp [onClose, onWrite]

/-- the close frame itself is written once -/
theorem close_frame_once (s : St) :
    (onClose (onClose s).1).2.filter (fun o => o matches CloseOut.frame _) = [] := by
  cases h : s.closeRecv <;> simp [onClose, h]

end CV.C17

import CV.Proofs.WebSocket
import CV.Proofs.WebSocketEndpoint
/-
C17 - WebSocket frames round-trip exactly, whatever the segmentation or fragmentation.

Model: CV.WS (CV/Model/WebSocket.lean) = circuits/protocols/websocket.py after the C17 `fix:`
commits.  Independent statement: CV/Model/WebSocketSpec.lean (RFC 6455 encoder, strict
decoder, `expected`, `conforming`).  Every theorem below is universally quantified: all
payloads and lengths, all masking keys, all frame lists, all cut lists, all decoder states.

The only numeric hypothesis anywhere is `payload.length < 2 ^ 63`, the limit of the wire
format itself (RFC 6455 5.2: 64-bit length, most significant bit 0).  `encode_is_rfc` shows
that the bytes written are the RFC encoding without any bound.
-/
namespace CV.C17
open CV CV.WS

/-! ### writing: what a conforming peer decodes is the message -/

/-- `_on_write` writes exactly the RFC 6455 encoding of one final text/binary frame,
    masked with the drawn key iff the codec is a client - every payload, every key -/
theorem encode_is_rfc (s : St) (client text : Bool) (data : Bytes) (k : Key)
    (hs : s.closeSent = false) :
    onWrite s client text data k.toBytes =
      some (rfcEncodeFrame ⟨true, if text then 1 else 2, if client then some k else none, data⟩) :=
  onWrite_eq s client text data k hs

/-- the independent strict decoder reads the written frame back as the message (type, payload,
    masking) - all three length encodings, masked and unmasked -/
theorem encode_conforms (s : St) (client text : Bool) (data : Bytes) (k : Key)
    (hs : s.closeSent = false) (hn : data.length < 2 ^ 63) :
    ∃ w, onWrite s client text data k.toBytes = some w ∧
      rfcDecodeFrames w = some [⟨true, if text then 1 else 2, if client then some k else none, data⟩] ∧
      specWrite client k text data w = true := by
  refine ⟨_, onWrite_eq s client text data k hs, ?_⟩
  have h := rfcDecodeFrames_single
    ⟨true, if text then 1 else 2, if client then some k else none, data⟩
    (by cases text <;> simp) hn
  exact ⟨h, by simp [specWrite, h]⟩

example : ∃ w, onWrite {} true true [104, 105] (Key.toBytes ⟨1, 2, 3, 4⟩) = some w ∧
    rfcDecodeFrames w = some [⟨true, 1, some ⟨1, 2, 3, 4⟩, [104, 105]⟩] ∧
    specWrite true ⟨1, 2, 3, 4⟩ true [104, 105] w = true :=
  encode_conforms {} true true [104, 105] ⟨1, 2, 3, 4⟩ rfl (by decide)

/-- a pong written by the codec is the RFC encoding of a final pong frame with that payload -/
theorem pong_conforms (client : Bool) (payload : Bytes) (k : Key) (hn : payload.length < 2 ^ 63) :
    rfcDecodeFrames (pongFrame client payload k.toBytes)
      = some [⟨true, 10, if client then some k else none, payload⟩] := by
  rw [pongFrame_eq]
  exact rfcDecodeFrames_single _ (by simp) hn

example : rfcDecodeFrames (pongFrame false [1, 2] (Key.toBytes ⟨0, 0, 0, 0⟩)) = some [⟨true, 10, none, [1, 2]⟩] :=
  pong_conforms false [1, 2] ⟨0, 0, 0, 0⟩ (by decide)

/-! ### reading: segmentation -/

/-- two reads are one read of the concatenation: same final state (carried buffer, pending
    fragments, closing flags), outputs concatenated - for every decoder state, every split,
    also inside the 2-byte header, the extended length, the masking key -/
theorem decode_hom (s : St) (a b : Bytes) :
    ((feed (feed s a).1 b).1, (feed s a).2 ++ (feed (feed s a).1 b).2) = feed s (a ++ b) :=
  feed_hom s a b

/-- any cut list: the reads decode like the whole stream in one read (`s.wf`: the carried
    buffer holds no complete frame - true initially and after every read, `wf_preserved`) -/
theorem decode_any_cuts (s : St) (segs : List Bytes) (h : s.wf) :
    feedAll s segs = feed s segs.flatten :=
  feedAll_flatten s segs h

theorem wf_preserved (s : St) (segs : List Bytes) (h : s.wf) : (feedAll s segs).1.wf :=
  feedAll_wf s segs h

example : St.wf {} := wf_init

/-- two segmentations of the same byte stream are indistinguishable -/
theorem segmentation_invariant (segs segs' : List Bytes) (h : segs.flatten = segs'.flatten) :
    feedAll {} segs = feedAll {} segs' := by
  rw [feedAll_flatten _ _ wf_init, feedAll_flatten _ _ wf_init, h]

example : feedAll {} [[0x81], [0x01], [0x61]] = feedAll {} [[0x81, 0x01, 0x61]] :=
  segmentation_invariant _ _ rfl

/-! ### reading: round trip against the RFC encoder -/

/-- Frames of a conforming peer (any messages, any fragmentation into continuation frames,
    pings/pongs anywhere between the fragments, masked or not with any keys, optionally a
    close frame followed by anything), encoded by the RFC encoder and cut into reads in any
    way: the codec emits exactly what RFC 6455 demands (`expected`): every message with its
    type and payload, in order, one pong per ping with the ping's payload (none once the
    local close was sent), the fragmented message undisturbed, and nothing after the close.
    `tail` is an incomplete frame (or empty), or anything at all once a close frame was sent. -/
theorem decode_roundtrip (cs : Bool) (fs : List RFrame) (tail : Bytes) (segs : List Bytes)
    (hc : conforming none fs = true)
    (ht : parseFrame tail = none ∨ fs.any (fun f => f.opcode == 8) = true)
    (hsegs : segs.flatten = rfcEncodeFrames fs ++ tail) :
    (feedAll { closeSent := cs } segs).2 = expected cs none fs := by
  rw [feedAll_flatten _ _ (show St.wf { closeSent := cs } from parseFrame_nil), hsegs]
  have := (parseLoop_frames cs fs tail { closeSent := cs } none hc rfl rfl ht).1
  simpa [feed] using this

/-- non-vacuity: "ab" in two fragments with a ping between them, byte at a time -/
example : (feedAll {} [[0x01], [0x01, 0x61], [0x89, 0x01], [0x70, 0x80], [0x01, 0x62]]).2
    = [Out.pong [0x70], Out.message true [0x61, 0x62]] := by
  have := decode_roundtrip false
    [⟨false, 1, none, [0x61]⟩, ⟨true, 9, none, [0x70]⟩, ⟨true, 0, none, [0x62]⟩] []
    [[0x01], [0x01, 0x61], [0x89, 0x01], [0x70, 0x80], [0x01, 0x62]]
    (by decide) (Or.inl parseFrame_nil) (by decide)
  simpa [expected] using this

example : conforming none [⟨false, 1, none, [0x61]⟩, ⟨true, 9, none, [0x70]⟩, ⟨true, 0, none, [0x62]⟩] = true := by
  decide

/-! ### reading: messages, fragments and interleaved control frames, spelled out -/

/-- For every list of messages and stand-alone pings/pongs, every split of every message
    into fragments (`Msg.first`, `Msg.more`), every run of pings/pongs in front of every
    continuation fragment, every masking key (or none) per frame, and every cut of the
    RFC encoding of all that into reads (`tail`: an incomplete next frame, or nothing):
    the codec delivers each message once, with its type and with the concatenation of its
    fragments as payload, in order, and answers each ping - also those inside a fragmented
    message - with a pong carrying the ping's payload. -/
theorem fragmentation_roundtrip (items : List Item) (tail : Bytes) (segs : List Bytes)
    (hok : items.all Item.ok = true) (ht : parseFrame tail = none)
    (hsegs : segs.flatten = rfcEncodeFrames (items.flatMap Item.frames) ++ tail) :
    (feedAll {} segs).2 = items.flatMap Item.outs := by
  have hc := conforming_items items hok [] rfl
  have he := expected_items items []
  rw [List.append_nil] at hc he
  have := decode_roundtrip false (items.flatMap Item.frames) tail segs hc (Or.inl ht) hsegs
  rw [this, he]
  simp [expected]

/-- the same followed by a close frame and then anything at all: everything before the close
    is delivered as above, then the close event, and nothing after it -/
theorem fragmentation_roundtrip_close (items : List Item) (ckey : Option Key) (cpayload junk : Bytes)
    (segs : List Bytes) (hok : items.all Item.ok = true) (hcp : cpayload.length ≤ 125)
    (hsegs : segs.flatten =
      rfcEncodeFrames (items.flatMap Item.frames ++ [⟨true, 8, ckey, cpayload⟩]) ++ junk) :
    (feedAll {} segs).2 = items.flatMap Item.outs ++ [Out.closeEvt] := by
  have hcl : conforming none [⟨true, 8, ckey, cpayload⟩] = true := by
    simp [conforming, hcp]; omega
  have hc := conforming_items items hok _ hcl
  have he := expected_items items [⟨true, 8, ckey, cpayload⟩]
  have := decode_roundtrip false _ junk segs hc (Or.inr (by simp)) hsegs
  rw [this, he]
  simp [expected]

/-- non-vacuity: text "ab" sent as "a" + ping("p") + "b", masked, then a stand-alone ping -/
example : (Item.msg ⟨true, ⟨some ⟨1, 2, 3, 4⟩, [0x61]⟩, [([⟨true, none, [0x70]⟩], ⟨none, [0x62]⟩)]⟩).outs
    = [Out.pong [0x70], Out.message true [0x61, 0x62]] := by decide

/-- endpoint to endpoint: what one codec writes, the other delivers - any cuts, any key -/
theorem write_then_read (s : St) (client text : Bool) (data : Bytes) (k : Key) (segs : List Bytes)
    (hs : s.closeSent = false) (hn : data.length < 2 ^ 63)
    (hsegs : some segs.flatten = onWrite s client text data k.toBytes) :
    (feedAll {} segs).2 = [Out.message text data] := by
  rw [onWrite_eq s client text data k hs] at hsegs
  have hseg' : segs.flatten =
      rfcEncodeFrames [⟨true, if text then 1 else 2, if client then some k else none, data⟩] ++ [] := by
    simp [rfcEncodeFrames, Option.some.inj hsegs]
  have hc : conforming none [⟨true, if text then 1 else 2, if client then some k else none, data⟩] = true := by
    cases text <;> simp [conforming, hn]
  have := decode_roundtrip false _ [] segs hc (Or.inl parseFrame_nil) hseg'
  rw [this]
  cases text <;> simp [expected]

/-! ### closing -/

/-- once a close frame has been decoded nothing is delivered or answered any more -/
theorem after_close_received (s : St) (reads : List Bytes) (h : s.closeRecv = true) :
    feedAll s reads = (s, []) :=
  feedAll_closed s reads h

/-- the close event is what sets that flag (so nothing follows it in later reads) -/
theorem close_event_closes (s : St) (d : Bytes) (h : Out.closeEvt ∈ (feed s d).2) :
    (feed s d).1.closeRecv = true := by
  unfold feed at *
  split
  · rename_i hc; exact hc
  · rename_i hc
    rw [if_neg hc] at h
    exact parseLoop_close_flag _ _ h

/-- a conforming stream with a close frame leaves the decoder closed: whatever is read
    afterwards produces no output -/
theorem after_close_frame (cs : Bool) (fs : List RFrame) (tail : Bytes) (segs more : List Bytes)
    (hc : conforming none fs = true) (h8 : fs.any (fun f => f.opcode == 8) = true)
    (hsegs : segs.flatten = rfcEncodeFrames fs ++ tail) :
    (feedAll (feedAll { closeSent := cs } segs).1 more).2 = [] := by
  have hflag : (feedAll { closeSent := cs } segs).1.closeRecv = true := by
    rw [feedAll_flatten _ _ (show St.wf { closeSent := cs } from parseFrame_nil), hsegs]
    have := (parseLoop_frames cs fs tail { closeSent := cs } none hc rfl rfl (Or.inr h8)).2
    simpa [feed, h8] using this
  rw [feedAll_closed _ _ hflag]

/-- after the local close (`_on_close`) no data frame is written, whatever is asked -/
theorem after_close_sent (s : St) (client text : Bool) (data key : Bytes) :
    (onClose s).1.closeSent = true ∧ onWrite (onClose s).1 client text data key = none := by
  simp [onClose, onWrite]

/-- the close frame itself is written once -/
theorem close_frame_once (s : St) :
    (onClose (onClose s).1).2.filter (fun o => o matches CloseOut.frame _) = [] := by
  cases h : s.closeRecv <;> simp [onClose, h]

/-! ### the endpoints: the codec as installed by `WebSocketClient` / `WebSocketsDispatcher` (CV.WSE)

`hs` is the HTTP head of the handshake as the parser finds it: `splitHead hs = some (hs, [])` says that
its first line is followed by header lines and that the first empty line behind the first line is its
end (any request line, any status line, any headers). -/
section endpoints
open CV.WSE

/-- For every cut of the connection's byte stream into reads - inside the first line, inside the
    headers, inside the CRLFCRLF, anywhere in what follows, or not at all - the HTTP parser takes
    exactly the head, and the bytes behind it reach the endpoint split into "rest of the read that
    completed the head" (`left`, the message body the codec is created from) and the later reads:
    nothing lost, nothing duplicated, nothing reordered. -/
theorem handshake_leftover_exact (hs rest : Bytes) (segs : List Bytes)
    (hhs : splitHead hs = some (hs, [])) (hsegs : segs.flatten = hs ++ rest) :
    ∃ left later, hsFeed [] segs = some (hs, left, later) ∧ left ++ later.flatten = rest :=
  hsFeed_exact hhs rest segs [] splitHead_nil (by simpa using hsegs)

/-- "GET /\r\nH:1\r\n\r\n" + 3 bytes, cut inside the CRLFCRLF and inside the rest -/
example : hsFeed [] [[71, 13, 10, 72, 58, 49, 13, 10, 13], [10, 1, 2], [3]]
    = some ([71, 13, 10, 72, 58, 49, 13, 10, 13, 10], [1, 2], [[3]]) := by decide

example : splitHead [71, 13, 10, 72, 58, 49, 13, 10, 13, 10] = some ([71, 13, 10, 72, 58, 49, 13, 10, 13, 10], []) := by
  decide

/-- the client's codec (created with `data=response.body.read()`) is fed exactly the bytes behind the
    101 head, in order, for every cut -/
theorem client_codec_sees_rest (hs rest : Bytes) (segs : List Bytes)
    (hhs : splitHead hs = some (hs, [])) (hsegs : segs.flatten = hs ++ rest) :
    ∃ reads, codecReads Side.client segs = some reads ∧ reads.flatten = rest := by
  obtain ⟨left, later, hf, hr⟩ := handshake_leftover_exact hs rest segs hhs hsegs
  exact ⟨left :: later, by simp [codecReads, hf, initialData], by simpa using hr⟩

example : codecReads Side.client [[71, 13, 10, 72, 58, 49, 13, 10, 13], [10, 1, 2], [3]] = some [[1, 2], [3]] := by
  decide

/-- Client endpoint, end to end: the 101 head followed by the frames of a conforming peer (as in
    `decode_roundtrip`), the whole cut into reads in any way - also frames glued behind the head in
    the same read, also a cut inside the head: the endpoint emits exactly what RFC 6455 demands. -/
theorem e2e_client_roundtrip (hs : Bytes) (fs : List RFrame) (tail : Bytes) (segs : List Bytes)
    (hhs : splitHead hs = some (hs, []))
    (hc : conforming none fs = true)
    (ht : parseFrame tail = none ∨ fs.any (fun f => f.opcode == 8) = true)
    (hsegs : segs.flatten = hs ++ (rfcEncodeFrames fs ++ tail)) :
    endpointOuts Side.client false segs = expected false none fs := by
  obtain ⟨reads, hr, hfl⟩ := client_codec_sees_rest hs _ segs hhs hsegs
  simp only [endpointOuts, hr]
  exact decode_roundtrip false fs tail reads hc ht hfl

/-- non-vacuity: head + text "a" (0x81 0x01 0x61), the frame glued behind the head and cut in its header -/
example : endpointOuts Side.client false [[71, 13, 10, 72, 58, 49, 13, 10, 13], [10, 0x81], [0x01, 0x61]]
    = [Out.message true [0x61]] := by
  have := e2e_client_roundtrip [71, 13, 10, 72, 58, 49, 13, 10, 13, 10] [⟨true, 1, none, [0x61]⟩] []
    [[71, 13, 10, 72, 58, 49, 13, 10, 13], [10, 0x81], [0x01, 0x61]] (by decide) (by decide)
    (Or.inl parseFrame_nil) (by decide)
  simpa [expected] using this

/-- Server endpoint, end to end, for a peer that keeps RFC 6455 4.1 ("the client MUST wait for a
    response from the server before sending any further data"): the upgrade request arrives in reads
    of its own (cut anywhere), the frames in later reads (cut anywhere): the dispatcher's codec emits
    exactly what RFC 6455 demands. -/
theorem e2e_server_roundtrip (hs : Bytes) (fs : List RFrame) (tail : Bytes) (hsegs fsegs : List Bytes)
    (hhs : splitHead hs = some (hs, []))
    (hc : conforming none fs = true)
    (ht : parseFrame tail = none ∨ fs.any (fun f => f.opcode == 8) = true)
    (hh : hsegs.flatten = hs) (hf : fsegs.flatten = rfcEncodeFrames fs ++ tail) :
    endpointOuts Side.server false (hsegs ++ fsegs) = expected false none fs := by
  obtain ⟨left, later, hfd, hr⟩ := handshake_leftover_exact hs [] hsegs hhs (by simpa using hh)
  have hl : later.flatten = [] := (List.append_eq_nil_iff.mp hr).2
  have := hsFeed_append fsegs hfd
  simp only [endpointOuts, codecReads, this, initialData]
  exact decode_roundtrip false fs tail ([] :: (later ++ fsegs)) hc ht (by simp [hl, hf])

example : endpointOuts Side.server false ([[71, 13, 10, 72, 58, 49, 13, 10, 13], [10]] ++ [[0x81], [0x01, 0x61]])
    = [Out.message true [0x61]] := by
  have := e2e_server_roundtrip [71, 13, 10, 72, 58, 49, 13, 10, 13, 10] [⟨true, 1, none, [0x61]⟩] []
    [[71, 13, 10, 72, 58, 49, 13, 10, 13], [10]] [[0x81], [0x01, 0x61]] (by decide) (by decide)
    (Or.inl parseFrame_nil) (by decide) (by decide)
  simpa [expected] using this

/-- Why the hypothesis: the dispatcher creates its codec without `data=` - bytes a (non-conforming)
    client glues behind the upgrade request in the same read stay in `request.body`; the codec's
    reads do not contain them.  (Outside C17's statement: such a peer is not a conforming peer.) -/
theorem e2e_server_glued_witness :
    codecReads Side.server [[71, 13, 10, 72, 58, 49, 13, 10, 13, 10, 0x81, 0x01, 0x61]] = some [[]] ∧
    codecReads Side.client [[71, 13, 10, 72, 58, 49, 13, 10, 13, 10, 0x81, 0x01, 0x61]] = some [[0x81, 0x01, 0x61]] := by
  decide

/-- Several connections at once: what the connection of socket `s` is delivered / answered and the
    state of its codec depend on the events of `s` alone - reads, upgrades and disconnects of other
    sockets, interleaved in any way, change nothing (no message crosses connections). -/
theorem connections_independent (s : Nat) (evs : List Ev) (t : Table) :
    (run t evs).1 s = (run t (evs.filter (fun e => e.sock == s))).1 s ∧
    (run t evs).2.filter (fun p => p.1 == s) = (run t (evs.filter (fun e => e.sock == s))).2 :=
  run_independent s evs t t rfl

/-- with `decode_roundtrip`: on a dispatcher serving any number of other connections, the frames of a
    conforming peer on socket `s`, cut in any way and interleaved with the other sockets' events in
    any way, are delivered for `s` exactly as RFC 6455 demands -/
theorem e2e_interleaved_roundtrip (s : Nat) (evs : List Ev) (t : Table) (fs : List RFrame) (tail : Bytes)
    (segs : List Bytes)
    (hmine : evs.filter (fun e => e.sock == s) = Ev.upgrade s :: segs.map (Ev.read s))
    (hc : conforming none fs = true)
    (ht : parseFrame tail = none ∨ fs.any (fun f => f.opcode == 8) = true)
    (hsegs : segs.flatten = rfcEncodeFrames fs ++ tail) :
    (run t evs).2.filter (fun p => p.1 == s) = (expected false none fs).map (fun o => (s, o)) := by
  rw [(connections_independent s evs t).2, hmine]
  have key : ∀ (segs : List Bytes) (t : Table) (st : St), t s = some st →
      (run t (segs.map (Ev.read s))).2 = (feedAll st segs).2.map (fun o => (s, o)) := by
    intro segs
    induction segs with
    | nil => intro t st _; simp [run, feedAll]
    | cons d ds ih =>
      intro t st hst
      simp only [List.map_cons, run, step, hst, feedAll, List.map_append]
      rw [ih _ (feed st d).1 (by simp [Table.set])]
  simp only [run, step, List.nil_append]
  rw [key segs _ {} (by simp [Table.set])]
  have := decode_roundtrip false fs tail segs hc ht hsegs
  rw [this]

example : (run emptyTable [Ev.upgrade 1, Ev.upgrade 2, Ev.read 1 [0x81], Ev.read 2 [0x82, 0x01, 0x07],
    Ev.disconnect 2, Ev.read 1 [0x01, 0x61]]).2.filter (fun p => p.1 == 1) = [(1, Out.message true [0x61])] := by
  have := e2e_interleaved_roundtrip 1 [Ev.upgrade 1, Ev.upgrade 2, Ev.read 1 [0x81], Ev.read 2 [0x82, 0x01, 0x07],
    Ev.disconnect 2, Ev.read 1 [0x01, 0x61]] emptyTable [⟨true, 1, none, [0x61]⟩] [] [[0x81], [0x01, 0x61]]
    (by decide) (by decide) (Or.inl parseFrame_nil) (by decide)
  simpa [expected] using this

/-- after the disconnect of a socket nothing of it is left in the table, and reads that still name
    it produce nothing -/
theorem disconnect_clears (t : Table) (s : Nat) (reads : List Bytes) :
    (step t (Ev.disconnect s)).1 s = none ∧
    (run (step t (Ev.disconnect s)).1 (reads.map (Ev.read s))).2 = [] := by
  refine ⟨by simp [step, Table.set], ?_⟩
  have key : ∀ (reads : List Bytes) (t : Table), t s = none → (run t (reads.map (Ev.read s))).2 = [] := by
    intro reads
    induction reads with
    | nil => intro t _; simp [run]
    | cons d ds ih =>
      intro t ht
      simp only [List.map_cons, run, step, ht, List.nil_append]
      exact ih t ht
  exact key reads _ (by simp [step, Table.set])

end endpoints

end CV.C17

import CV.Proofs.PollerMain
import CV.Proofs.PollerAgree
/-
C10 — Pollers report exactly the registered-and-ready descriptors; all three agree.

Model: CV/Model/Poller.lean (Select, Poll, EPoll as they are after the three `fix:` commits).
Statement: CV/Model/PollerSpec.lean (`roundFail`, `specTrace`: an observer that knows only the
operations, the open files and their readiness).  Histories are arbitrary lists of `Op`:
add/remove reader/writer, discard, object creation with any free number (so also a number a
closed object had), close, and poll rounds with arbitrary readiness `rd` — no bound on anything.
-/
namespace CV.C10
open CV.Poller

/-- **Every run of every poller satisfies the observer's predicate.**  In every round: each
`_read o`/`_write o` concerns a descriptor currently registered for that role, open, ready by
its *own* file's readiness, and goes to the registrant's channel; `_disconnect o` only for a
registered descriptor that is closed or hung up and has no input pending for a reader; and
(outside the one blind round after a registered descriptor was closed) every registered, ready,
open descriptor gets its event. -/
theorem spec_holds (k : Kind) (ops : List Op) : specTrace (trace k ops) = true :=
  spec_runFrom ops (Rel.init k) (PInv.init k)

/-- **The kernel object and `_map` mirror the interest lists** after every history (Poll, EPoll):
an open listed descriptor is registered under its number with exactly the mask
`(o ∈ _read, o ∈ _write)` and `_map` points back to it; every registered number is mapped to a
listed descriptor (EPoll: an open one — Poll may still hold the number of a descriptor closed
while registered, which the next round turns into `_disconnect`); targets exist exactly for
listed descriptors. -/
theorem mirror_inv (k : Kind) (ops : List Op) :
    let s := (run k ops).1
    (∀ o f, s.kind ≠ .select → s.w.fno o = some f → (o ∈ s.read ∨ o ∈ s.write) →
        s.map f = some o ∧ s.kin f = decide (o ∈ s.read) ∧ s.kout f = decide (o ∈ s.write)) ∧
    (∀ f, (s.kin f = true ∨ s.kout f = true) →
        ∃ o, s.map f = some o ∧ (o ∈ s.read ∨ o ∈ s.write) ∧ (s.kind = .epoll → s.w.fno o = some f)) ∧
    (∀ o, (o ∈ s.read ∨ o ∈ s.write) ↔ (s.targets o).isSome = true) := by
  intro s
  have p : PInv s := pinv_runFrom ops (PInv.init k)
  refine ⟨fun o f => p.K2 o f (by simp), ?_, ?_⟩
  · intro f hk
    obtain ⟨o, a, b, c⟩ := p.K1 f hk
    exact ⟨o, a, by simpa using b, c⟩
  · intro o
    constructor
    · exact p.T o
    · intro h
      apply Classical.byContradiction
      intro hn
      have := p.T2 o (fun x => hn (Or.inl x)) (fun x => hn (Or.inr x))
      rw [this] at h; cases h

/-- **A discarded descriptor is silent**: after `discard o` no event of any kind mentions `o`,
whatever happens next — other descriptors come and go, `o` is closed, its number is given to a new
object, any readiness is reported — until `o` itself is registered again. -/
theorem discarded_silent (k : Kind) (pre post : List Op) (o : Obj)
    (hadd : ∀ op ∈ post, adds o op = false) :
    ∀ x ∈ (runFrom (step (run k pre).1 (.discard o)).1 post).2, ∀ e ∈ eventsOf x.2, e.obj ≠ o := by
  obtain ⟨σ, hσ⟩ := rel_runFrom pre (Rel.init k) (PInv.init k)
  have p := pinv_runFrom pre (PInv.init k)
  have st := (step_sim (.discard o) hσ p).2
  refine silent_from post st (pinv_step _ p) o ?_ hadd
  unfold Spec.advance
  split
  · simp [Spec.discard, Spec.registered]
  · next hv =>
    simp only [Spec.valid, World.known, Bool.not_eq_true, Option.isSome_eq_false_iff, Option.isNone_iff_eq_none] at hv
    have := hσ.unk o (by rw [hσ.w]; exact hv)
    simp [Spec.registered, this.1, this.2.1]

/-- **A closed descriptor never gets a readiness event again**, also when a new object takes its
number and becomes readable/writable; the only event that can still mention it is the one
`_disconnect` by which a poller drops a descriptor closed while registered. -/
theorem closed_silent (k : Kind) (pre post : List Op) (o : Obj)
    (hc : (run k pre).1.w.fno o = none) (hk : (run k pre).1.w.known o = true) :
    ∀ x ∈ (runFrom (run k pre).1 post).2, ∀ e ∈ eventsOf x.2, e.obj = o → e.kind = .disconnect := by
  obtain ⟨σ, hσ⟩ := rel_runFrom pre (Rel.init k) (PInv.init k)
  have p := pinv_runFrom pre (PInv.init k)
  have hk' : ((runFrom (State.init k) pre).1.w.orig o).isSome = true := hk
  exact closed_from post hσ p o ⟨by rw [← hσ.w]; exact hc, by rw [← hσ.w]; exact hk'⟩

/-- **The pollers are interchangeable.**  Any two of Select, Poll, EPoll driven by the same history:
in every round (`agreeObs`) that is not blind, for every open descriptor `o` that is not hung up / in
error and whose number the round asks about, they fire exactly the same events `(kind, o, channel)`.
The claim runs (`agreeFrom`) as long as neither poller had to `_disconnect` a descriptor: how a dead
peer surfaces (`_disconnect` from Poll/EPoll, `_read`/`_write` from Select) is where they are allowed
to differ, and the abstract registrations differ from then on.  (At socket-component level the
connect/read/disconnect stream is compared by C12.) -/
theorem agree (k1 k2 : Kind) (ops : List Op) : agreeFrom Spec.init (trace k1 ops) (trace k2 ops) :=
  agree_runFrom ops (Rel.init k1) (Rel.init k2) (PInv.init k1) (PInv.init k2)

/-! ### the statements are not vacuous -/

def rdIn : Nat → Bits := fun _ => ⟨true, false, false, false⟩
def rdInOut : Nat → Bits := fun _ => ⟨true, true, false, false⟩

/-- a registered readable descriptor does get its event, to the registrant's channel -/
example : (trace .poll [.opn 1 5, .addReader 1 7, .poll [5] rdIn]).map (fun x => eventsOf x.2)
    = [[], [], [⟨.read, 1, some 7⟩]] := by decide
example : (trace .epoll [.opn 1 5, .addReader 1 7, .addWriter 1 7, .removeReader 1, .poll [5] rdInOut]).map (fun x => eventsOf x.2)
    = [[], [], [], [], [⟨.write, 1, some 7⟩]] := by decide
/-- hypothesis of `discarded_silent`/`closed_silent` met by a history in which the number is reused
    by a readable new object: nothing is fired (double add before the discard, close before it) -/
example : (trace .poll [.opn 1 5, .addReader 1 7, .addReader 1 7, .close 1, .discard 1, .opn 2 5, .poll [5] rdIn]).map
    (fun x => eventsOf x.2) = [[], [], [], [], [], [], []] := by decide
/-- closed while registered, number reused: Poll reports one `_disconnect`, never `_read` -/
example : (trace .poll [.opn 1 5, .addReader 1 7, .close 1, .opn 2 5, .poll [5] rdIn, .poll [5] rdIn]).map
    (fun x => eventsOf x.2) = [[], [], [], [], [⟨.disconnect, 1, some 7⟩], []] := by decide
/-- `agree`: a round that is valid, not blind, about an open descriptor without HUP/ERR, in which
    both pollers do fire something — and the same -/
example : (trace .select [.opn 1 5, .addReader 1 7, .addWriter 1 7, .removeReader 1, .addReader 1 7, .poll [5] rdInOut]).map
      (fun x => eventsOf x.2)
    = [[], [], [], [], [], [⟨.write, 1, some 7⟩, ⟨.read, 1, some 7⟩]] := by decide
example : (trace .epoll [.opn 1 5, .addReader 1 7, .addWriter 1 7, .removeReader 1, .addReader 1 7, .poll [5] rdInOut]).map
      (fun x => eventsOf x.2)
    = [[], [], [], [], [], [⟨.read, 1, some 7⟩, ⟨.write, 1, some 7⟩]] := by decide
example : (run .poll [.opn 1 5, .close 1]).1.w.fno 1 = none ∧ (run .poll [.opn 1 5, .close 1]).1.w.known 1 = true := by decide

end CV.C10

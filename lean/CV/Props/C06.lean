import CV.Model.Core.Machine
namespace CV.C06
theorem placeholder : True := trivial
end CV.C06

import CV.Proofs.InvWaitMain
/-
C06 — call()/wait() resume the caller exactly once with the result, leaving no residue.

PART 1: LOCAL facts, true of EVERY configuration `c` of the small-step core machine (hence of every
reachable one, for every initial state, tape and program table): for each action of the wait protocol,
the only step that can perform it and the guard under which it does.  Chained together: the caller of
`yield call(e)` / `yield wait(e)` is resumed only by the task step of its own waitEvent generator, which is
registered only by `_on_done` (flag), which fires only on the `_done` child of the event recorded by
`_on_event`, and `_done` children are fired only by `_eventDone` of that event when `waitingHandlers = 0`.

PART 2: GLOBAL facts about every configuration of an admissible driver session (`W6ReachW`, a sub-relation
of `Reach`: external `do` operations, like user programs, call `removeHandler` only on pre-declared handlers)
from an initial state satisfying `W6InitWait`: the invariant `W6CInv`, the phase function, resumption at most
once, which temporary handlers / tasks can exist in which phase, no residue.

Names: the proof files share namespace `CV.Core` with the other invariants, so their identifiers carry the
prefix `w6_` / `W6` (wait protocol, C06).
-/
namespace CV.C06
open CV.Core

/-! ## Part 1: local facts (all configurations) -/

/-- The step that logs `.resumed pe ph src v er` is the task step (`ptBody`) of a waitEvent generator
    `GenRec.wait w` whose state has `event = some src`; its `_done` handler was still installed (could be
    removed); the parent is the user generator `(pe, ph)`; and the value / error flag handed to the caller are
    those of the awaited event `src` at that moment (`result_is_callees`: the result is looked up through the
    wait state's own `event` field, so concurrent calls cannot swap results). -/
theorem resumed_needs_event (c : Cfg) (es : List Entry) (hes : (step c).st.log = es ++ c.st.log)
    (pe ph src : Nat) (v : Collapsed) (er : Bool) (hx : Entry.resumed pe ph src v er ∈ es) :
    ∃ r t k w p o rest st pc sd, c.stack = .ptBody r t :: k ∧ c.exn = none ∧ c.st.gen t.g = .wait w ∧
      (c.st.wait w).event = some src ∧ t.parent = some p ∧ c.st.gen p = .user pe ph o rest st pc sd ∧
      (c.st.removeHandler (c.st.wait w).hDone (some ((c.st.wait w).evName.child sfxDone))).1 = true ∧
      v = (c.st.ev src).val.view ∧ er = (c.st.ev src).val.errors :=
  w6_resumed_needs_event c hes hx

/-- The step that logs `.timeout …` (TimeoutError thrown into the caller) is the task step of a one-shot
    generator `GenRec.exc w false`. -/
theorem timeout_needs_exc (c : Cfg) (es : List Entry) (hes : (step c).st.log = es ++ c.st.log)
    (pe ph : Nat) (caught : Bool) (hx : Entry.timeout pe ph caught ∈ es) :
    ∃ r t k w, c.stack = .ptBody r t :: k ∧ c.exn = none ∧ c.st.gen t.g = .exc w false :=
  w6_timeout_needs_exc c hes hx

/-- `flag` of wait state `w` (the permission to resume) changes only in the step that invokes `w`'s own
    `_on_done` closure on an event whose parent is the event `w` recorded: results are routed by
    wait-state identity (`state.event == event.parent`), never by name. -/
theorem flag_needs_done (c : Cfg) (w : Nat) (hne : ((step c).st.wait w).flag ≠ (c.st.wait w).flag) :
    ∃ r h e k src, c.stack = .invoke r h e :: k ∧ c.exn = none ∧ (c.st.handler h).kind = .waitDone w ∧
      (c.st.wait w).event = some src ∧ (c.st.ev e).parentEv = some src ∧ ((step c).st.wait w).flag = true :=
  w6_flag_needs_done c w hne

/-- `run` / `event` of wait state `w` change only in the step that invokes `w`'s own `_on_event` closure,
    once (`run` must be false), on the awaited object (or any event of that name for a wait by name). -/
theorem event_needs_on_event (c : Cfg) (w : Nat)
    (hne : ((step c).st.wait w).run ≠ (c.st.wait w).run ∨ ((step c).st.wait w).event ≠ (c.st.wait w).event) :
    ∃ r h e k, c.stack = .invoke r h e :: k ∧ c.exn = none ∧ (c.st.handler h).kind = .waitEvent w ∧
      (c.st.wait w).run = false ∧ ((c.st.wait w).evObj = none ∨ (c.st.wait w).evObj = some e) ∧
      ((step c).st.wait w).run = true ∧ ((step c).st.wait w).event = some e :=
  w6_event_needs_on_event c w hne

/-- A `…_done` child event comes into being only in the step `_eventDone(p)` of its parent, and only when
    `p.waitingHandlers = 0`: every handler of `p`, suspended ones and their nested calls included, has
    finished or failed. -/
theorem done_needs_all_finished (c : Cfg) (e' : Nat) (hge : c.st.evs.length ≤ e')
    (hd : ((step c).st.ev e').w6_isDoneChild = true) :
    ∃ r p err k, c.stack = .eventDone r p err :: k ∧ c.exn = none ∧ (c.st.ev p).waiting = 0 ∧
      (c.st.ev p).alertDone = true ∧ ((step c).st.ev e').parentEv = some p ∧
      ((step c).st.ev e').name = (c.st.ev p).name.child sfxDone :=
  w6_done_needs_all_finished c e' hge hd

/-- … and an event never changes its name or parent afterwards. -/
theorem ev_identity_stable (c : Cfg) (e : Nat) (he : e < c.st.evs.length) :
    ((step c).st.ev e).parentEv = (c.st.ev e).parentEv ∧ ((step c).st.ev e).name = (c.st.ev e).name :=
  w6_step_ev_identity c e he

/-- `timeout_not_early`, part 1: the countdown of `w` is touched only by `w`'s own `_on_tick` closure (one
    invocation per dispatched `generate_events`), only while positive, and by exactly one. -/
theorem timeout_counts_down (c : Cfg) (w : Nat) (hw : w < c.st.waits.length)
    (hne : ((step c).st.wait w).timeout ≠ (c.st.wait w).timeout) :
    ∃ r h e k, c.stack = .invoke r h e :: k ∧ c.exn = none ∧ (c.st.handler h).kind = .waitTick w ∧
      (c.st.wait w).timeout > 0 ∧ ((step c).st.wait w).timeout = (c.st.wait w).timeout - 1 :=
  w6_timeout_counts_down c w hw hne

/-- `timeout_not_early`, part 2: the generator that carries `TimeoutError` for `w` is created only by `w`'s
    own `_on_tick` closure when the countdown is exactly 0 — i.e. not before `n` earlier invocations
    have counted `n` down. -/
theorem exc_needs_timeout0 (c : Cfg) (g w : Nat) (b : Bool) (hg : (step c).st.gen g = .exc w b)
    (hnew : (c.st.gen g).w6_isExc = false) :
    ∃ r h e k, c.stack = .invoke r h e :: k ∧ c.exn = none ∧ (c.st.handler h).kind = .waitTick w ∧
      (c.st.wait w).timeout = 0 ∧ b = false ∧ g = c.st.gens.length :=
  w6_exc_needs_timeout0 c g w b hg hnew

/-- a logged `.resumed` entry is a resumption step (`W6ResumesW`) of the wait state that recorded `src` -/
theorem resumed_is_resumption (c : Cfg) (es : List Entry) (hes : (step c).st.log = es ++ c.st.log)
    (pe ph src : Nat) (v : Collapsed) (er : Bool) (hx : Entry.resumed pe ph src v er ∈ es) :
    ∃ w, W6ResumesW c w ∧ (c.st.wait w).event = some src :=
  w6_resumed_is_resumption c hes hx

/-! ## Part 2: global facts (admissible sessions) -/

/-- `W6ReachW` is a sub-relation of `Reach`: the same driver sessions, with `removeHandler` in external `do`
    operations restricted to pre-declared handlers (ids `< s0.hs.length`). -/
theorem admissible_sessions_are_sessions (s0 : St) (c : Cfg) (h : W6ReachW s0.hs.length s0 c) : Reach s0 c :=
  h.reach

/-- **wait_inv**: the wait-protocol invariant (`W6CInv` = handler-table invariant `W6HInv` + generator/task
    invariant `W6GInv` + facts about the frames on the stack and the return register) holds in every
    configuration of every admissible session from every initial state satisfying `W6InitWait`. -/
theorem wait_inv (s0 : St) (hi : W6InitWait s0) (c : Cfg) (h : W6ReachW s0.hs.length s0 c) :
    W6CInv s0.hs.length c :=
  h.cinv hi

/-- **phase_monotone**: the phase of every wait state (0 not started, 1 started, 2 event seen, 3 done seen,
    4 finished = resumed or timed out) only grows along `step`. -/
theorem phase_monotone (s0 : St) (hi : W6InitWait s0) (c : Cfg) (h : W6ReachW s0.hs.length s0 c) (w : Nat) :
    w6_phase c.st w ≤ w6_phase (step c).st w :=
  w6_phase_mono (h.cinv hi) w

/-- **resume_moves_phase**: the resumption step of `w` happens in phase 3 (its `flag` is set, its `_done`
    handler still installed) and leads to phase 4. -/
theorem resume_moves_phase (s0 : St) (hi : W6InitWait s0) (c : Cfg) (h : W6ReachW s0.hs.length s0 c) (w : Nat)
    (hr : W6ResumesW c w) : w6_phase c.st w = 3 ∧ w6_phase (step c).st w = 4 :=
  w6_resume_phase (h.cinv hi) w hr

/-- **resume_at_most_once**: after a resumption step of `w` no later configuration of the session (any number
    of further steps and external operations) performs a resumption step of `w` again; with
    `resumed_is_resumption`: at most one `.resumed` entry per wait state. -/
theorem resume_at_most_once (s0 : St) (hi : W6InitWait s0) (c : Cfg) (h : W6ReachW s0.hs.length s0 c) (w : Nat)
    (hr : W6ResumesW c w) (c' : Cfg) (hl : W6Later s0.hs.length (step c) c') : ¬ W6ResumesW c' w :=
  w6_resume_at_most_once (h.cinv hi) w hr hl

/-- **no_resume_after_timeout** (`never both`, one direction): once `w`'s `_on_tick` closure has found the
    countdown at 0 (the step that registers the `TimeoutError` task), `w` is in phase 4 and no later
    configuration performs a resumption step of `w`. -/
theorem no_resume_after_timeout (s0 : St) (hi : W6InitWait s0) (c : Cfg) (h : W6ReachW s0.hs.length s0 c)
    (w r hh e : Nat) (k : List Frame) (hs : c.stack = .invoke r hh e :: k) (hx : c.exn = none)
    (hk : (c.st.handler hh).kind = .waitTick w) (h0 : (c.st.wait w).timeout = 0)
    (c' : Cfg) (hl : W6Later s0.hs.length (step c) c') : ¬ W6ResumesW c' w := by
  intro hr'
  have hc := h.cinv hi
  have h1 := w6_timeout_finishes hc w r hh e k hs hx hk h0
  have h2 := (w6_resume_phase (W6Later.cinv (w6_step_cinv c hc) hl) w hr').1
  have := W6Later.w6_phase_mono (w6_step_cinv c hc) hl w
  omega

/-- **installed_by_phase**: for a started wait state the `_on_event` handler is installed only in phase 1, the
    `_on_tick` handler only in phases 1–2, the `_on_done` handler exactly in phases 1–3. -/
theorem installed_by_phase (s0 : St) (hi : W6InitWait s0) (c : Cfg) (h : W6ReachW s0.hs.length s0 c) (w : Nat)
    (hw : w < c.st.waits.length) (hst : (c.st.wait w).started = true) :
    (c.st.w6_view.evKey w ∈ c.st.w6_view.htabOf w → w6_phase c.st w = 1) ∧
    (∀ ht, (c.st.wait w).hTick = some ht → c.st.w6_view.tickKey ht ∈ c.st.w6_view.htabOf w →
      w6_phase c.st w = 1 ∨ w6_phase c.st w = 2) ∧
    (c.st.w6_doneInst w ↔ 1 ≤ w6_phase c.st w ∧ w6_phase c.st w ≤ 3) :=
  w6_installed_by_phase (h.cinv hi) w hw hst

/-- **wait_task_needs_flag**: a task whose generator is `w`'s waitEvent generator is in a task set only when
    `w.flag` is set, i.e. from phase 3 on. -/
theorem wait_task_needs_flag (s0 : St) (hi : W6InitWait s0) (c : Cfg) (h : W6ReachW s0.hs.length s0 c)
    (x : Nat) (t : Task) (ht : t ∈ (c.st.comp x).tasks) (w : Nat) (hg : c.st.gen t.g = .wait w) :
    (c.st.wait w).flag = true ∧ 3 ≤ w6_phase c.st w :=
  w6_wait_task_needs_flag (h.cinv hi) x t ht w hg

/-- **no_residue**: in a reachable configuration in which every started wait state is finished (phase 4: resumed
    or timed out) no handler of kind waitEvent / waitDone / waitTick is left in any handler table. -/
theorem no_residue (s0 : St) (hi : W6InitWait s0) (c : Cfg) (h : W6ReachW s0.hs.length s0 c)
    (hall : ∀ w, w < c.st.waits.length → (c.st.wait w).started = true → w6_phase c.st w = 4) :
    ∀ x k hd, (k, hd) ∈ (c.st.comp x).htab → (c.st.handler hd).kind.w6_isWait = false :=
  w6_no_residue_of_cinv (h.cinv hi) hall

/-! ## non-vacuity -/

/-- a small initial state: one component, one pre-declared user handler, one program that removes it -/
def exampleInit : St :=
  { comps := [{ parent := 0, root := 0 }],
    hs := [{ owner := 0, names := [⟨1, []⟩], chan := none, kind := .user 0 }],
    progs := [[.rmH 0 none, .ret 1]] }

example : W6InitWait exampleInit := by
  refine ⟨rfl, rfl, ?_, ?_, ?_, ?_, ?_⟩
  · intro h hh
    have : h = 0 := by simp [exampleInit] at hh; exact hh
    subst this; rfl
  · intro c k h hm
    rcases c with _ | c <;> simp [exampleInit, St.comp, dfltComp] at hm
  · intro c
    rcases c with _ | c <;> simp [exampleInit, St.comp, dfltComp]
  · intro c
    rcases c with _ | c <;> simp [exampleInit, St.comp, dfltComp]
  · intro p hp a ha
    simp [exampleInit] at hp
    subst hp
    simp at ha
    rcases ha with ha | ha <;> subst ha <;> simp [Act.w6_hOk, exampleInit]

/-- admissible sessions exist: e.g. the one that starts with a `tick` -/
example : W6ReachW exampleInit.hs.length exampleInit (startOf (envChange exampleInit 0 []) (.tick 0)) :=
  W6ReachW.init 0 [] (.tick 0) trivial

/-- … and `do removeHandler(h)` of the pre-declared handler is an admissible external operation -/
example : ExtOp.w6ok exampleInit.hs.length (.doAct 0 (.rmH 0 none)) := by
  simp [ExtOp.w6ok, Act.w6_hOk, exampleInit]

end CV.C06

import CV.Proofs.InvWaitMain
import CV.Proofs.InvWait2Wit
import CV.Proofs.InvWait2Count
import CV.Proofs.InvWait2Tasks
import CV.Proofs.InvTasksOwn2
/-
C06 — call()/wait() resume the caller exactly once with the result, leaving no residue.

PART 1: LOCAL facts, true of EVERY configuration `c` of the small-step core machine (hence of every
reachable one, for every initial state, tape and program table): for each action of the wait protocol,
the only step that can perform it and the guard under which it does.  Chained together: the caller of
`yield call(e)` / `yield wait(e)` is resumed only by the task step of its own waitEvent generator, which is
registered only by `_on_done` (flag), which fires only on the `_done` child of the event recorded by
`_on_event`, and `_done` children are fired only by `_eventDone` of that event when `waitingHandlers = 0`.

PART 2: GLOBAL facts about every configuration of an admissible driver session (`W6ReachW`, a sub-relation
of `Reach`: external `do` operations, like user programs, call `removeHandler` only on pre-declared handlers)
from an initial state satisfying `W6InitWait`: the invariant `W6CInv`, the phase function, resumption at most
once, which temporary handlers / tasks can exist in which phase, no residue.

Names: the proof files share namespace `CV.Core` with the other invariants, so their identifiers carry the
prefix `w6_` / `W6` (wait protocol, C06).
-/
namespace CV.C06
open CV.Core

/-! ## Part 1: local facts (all configurations) -/

/-- The step that logs `.resumed pe ph src v er` is the task step (`ptBody`) of a waitEvent generator
    `GenRec.wait w` whose state has `event = some src`; its `_done` handler was still installed (could be
    removed); the parent is the user generator `(pe, ph)`; and the value / error flag handed to the caller are
    those of the awaited event `src` at that moment (`result_is_callees`: the result is looked up through the
    wait state's own `event` field, so concurrent calls cannot swap results). -/
theorem resumed_needs_event (c : Cfg) (es : List Entry) (hes : (step c).st.log = es ++ c.st.log)
    (pe ph src : Nat) (v : Collapsed) (er : Bool) (hx : Entry.resumed pe ph src v er ∈ es) :
    ∃ r t k w p o rest st pc sd, c.stack = .ptBody r t :: k ∧ c.exn = none ∧ c.st.gen t.g = .wait w ∧
      (c.st.wait w).event = some src ∧ t.parent = some p ∧ c.st.gen p = .user pe ph o rest st pc sd ∧
      (c.st.removeHandler (c.st.wait w).hDone (some ((c.st.wait w).evName.child sfxDone))).1 = true ∧
      v = (c.st.ev src).val.view ∧ er = (c.st.ev src).val.errors :=
  w6_resumed_needs_event c hes hx

/-- The step that logs `.timeout …` (TimeoutError thrown into the caller) is the task step of a one-shot
    generator `GenRec.exc w false`. -/
theorem timeout_needs_exc (c : Cfg) (es : List Entry) (hes : (step c).st.log = es ++ c.st.log)
    (pe ph : Nat) (caught : Bool) (hx : Entry.timeout pe ph caught ∈ es) :
    ∃ r t k w, c.stack = .ptBody r t :: k ∧ c.exn = none ∧ c.st.gen t.g = .exc w false :=
  w6_timeout_needs_exc c hes hx

/-- `flag` of wait state `w` (the permission to resume) changes only in the step that invokes `w`'s own
    `_on_done` closure on an event whose parent is the event `w` recorded: results are routed by
    wait-state identity (`state.event == event.parent`), never by name. -/
theorem flag_needs_done (c : Cfg) (w : Nat) (hne : ((step c).st.wait w).flag ≠ (c.st.wait w).flag) :
    ∃ r h e k src, c.stack = .invoke r h e :: k ∧ c.exn = none ∧ (c.st.handler h).kind = .waitDone w ∧
      (c.st.wait w).event = some src ∧ (c.st.ev e).parentEv = some src ∧ ((step c).st.wait w).flag = true :=
  w6_flag_needs_done c w hne

/-- `run` / `event` of wait state `w` change only in the step that invokes `w`'s own `_on_event` closure,
    once (`run` must be false), on the awaited object (or any event of that name for a wait by name). -/
theorem event_needs_on_event (c : Cfg) (w : Nat)
    (hne : ((step c).st.wait w).run ≠ (c.st.wait w).run ∨ ((step c).st.wait w).event ≠ (c.st.wait w).event) :
    ∃ r h e k, c.stack = .invoke r h e :: k ∧ c.exn = none ∧ (c.st.handler h).kind = .waitEvent w ∧
      (c.st.wait w).run = false ∧ ((c.st.wait w).evObj = none ∨ (c.st.wait w).evObj = some e) ∧
      ((step c).st.wait w).run = true ∧ ((step c).st.wait w).event = some e :=
  w6_event_needs_on_event c w hne

/-- A `…_done` child event comes into being only in the step `_eventDone(p)` of its parent, and only when
    `p.waitingHandlers = 0`: every handler of `p`, suspended ones and their nested calls included, has
    finished or failed. -/
theorem done_needs_all_finished (c : Cfg) (e' : Nat) (hge : c.st.evs.length ≤ e')
    (hd : ((step c).st.ev e').w6_isDoneChild = true) :
    ∃ r p err k, c.stack = .eventDone r p err :: k ∧ c.exn = none ∧ (c.st.ev p).waiting = 0 ∧
      (c.st.ev p).alertDone = true ∧ ((step c).st.ev e').parentEv = some p ∧
      ((step c).st.ev e').name = (c.st.ev p).name.child sfxDone :=
  w6_done_needs_all_finished c e' hge hd

/-- … and an event never changes its name or parent afterwards. -/
theorem ev_identity_stable (c : Cfg) (e : Nat) (he : e < c.st.evs.length) :
    ((step c).st.ev e).parentEv = (c.st.ev e).parentEv ∧ ((step c).st.ev e).name = (c.st.ev e).name :=
  w6_step_ev_identity c e he

/-- `timeout_not_early`, part 1: the countdown of `w` is touched only by `w`'s own `_on_tick` closure (one
    invocation per dispatched `generate_events`), only while positive, and by exactly one. -/
theorem timeout_counts_down (c : Cfg) (w : Nat) (hw : w < c.st.waits.length)
    (hne : ((step c).st.wait w).timeout ≠ (c.st.wait w).timeout) :
    ∃ r h e k, c.stack = .invoke r h e :: k ∧ c.exn = none ∧ (c.st.handler h).kind = .waitTick w ∧
      (c.st.wait w).timeout > 0 ∧ ((step c).st.wait w).timeout = (c.st.wait w).timeout - 1 :=
  w6_timeout_counts_down c w hw hne

/-- `timeout_not_early`, part 2: the generator that carries `TimeoutError` for `w` is created only by `w`'s
    own `_on_tick` closure when the countdown is exactly 0 — i.e. not before `n` earlier invocations
    have counted `n` down. -/
theorem exc_needs_timeout0 (c : Cfg) (g w : Nat) (b : Bool) (hg : (step c).st.gen g = .exc w b)
    (hnew : (c.st.gen g).w6_isExc = false) :
    ∃ r h e k, c.stack = .invoke r h e :: k ∧ c.exn = none ∧ (c.st.handler h).kind = .waitTick w ∧
      (c.st.wait w).timeout = 0 ∧ b = false ∧ g = c.st.gens.length :=
  w6_exc_needs_timeout0 c g w b hg hnew

/-- a logged `.resumed` entry is a resumption step (`W6ResumesW`) of the wait state that recorded `src` -/
theorem resumed_is_resumption (c : Cfg) (es : List Entry) (hes : (step c).st.log = es ++ c.st.log)
    (pe ph src : Nat) (v : Collapsed) (er : Bool) (hx : Entry.resumed pe ph src v er ∈ es) :
    ∃ w, W6ResumesW c w ∧ (c.st.wait w).event = some src :=
  w6_resumed_is_resumption c hes hx

/-! ## Part 2: global facts (admissible sessions) -/

/-- `W6ReachW` is a sub-relation of `Reach`: the same driver sessions, with `removeHandler` in external `do`
    operations restricted to pre-declared handlers (ids `< s0.hs.length`). -/
theorem admissible_sessions_are_sessions (s0 : St) (c : Cfg) (h : W6ReachW s0.hs.length s0 c) : Reach s0 c :=
  h.reach

/-- **wait_inv**: the wait-protocol invariant (`W6CInv` = handler-table invariant `W6HInv` + generator/task
    invariant `W6GInv` + facts about the frames on the stack and the return register) holds in every
    configuration of every admissible session from every initial state satisfying `W6InitWait`. -/
theorem wait_inv (s0 : St) (hi : W6InitWait s0) (c : Cfg) (h : W6ReachW s0.hs.length s0 c) :
    W6CInv s0.hs.length c :=
  h.cinv hi

/-- **phase_monotone**: the phase of every wait state (0 not started, 1 started, 2 event seen, 3 done seen,
    4 finished = resumed or timed out) only grows along `step`. -/
theorem phase_monotone (s0 : St) (hi : W6InitWait s0) (c : Cfg) (h : W6ReachW s0.hs.length s0 c) (w : Nat) :
    w6_phase c.st w ≤ w6_phase (step c).st w :=
  w6_phase_mono (h.cinv hi) w

/-- **resume_moves_phase**: the resumption step of `w` happens in phase 3 (its `flag` is set, its `_done`
    handler still installed) and leads to phase 4. -/
theorem resume_moves_phase (s0 : St) (hi : W6InitWait s0) (c : Cfg) (h : W6ReachW s0.hs.length s0 c) (w : Nat)
    (hr : W6ResumesW c w) : w6_phase c.st w = 3 ∧ w6_phase (step c).st w = 4 :=
  w6_resume_phase (h.cinv hi) w hr

/-- **resume_at_most_once**: after a resumption step of `w` no later configuration of the session (any number
    of further steps and external operations) performs a resumption step of `w` again; with
    `resumed_is_resumption`: at most one `.resumed` entry per wait state. -/
theorem resume_at_most_once (s0 : St) (hi : W6InitWait s0) (c : Cfg) (h : W6ReachW s0.hs.length s0 c) (w : Nat)
    (hr : W6ResumesW c w) (c' : Cfg) (hl : W6Later s0.hs.length (step c) c') : ¬ W6ResumesW c' w :=
  w6_resume_at_most_once (h.cinv hi) w hr hl

/-- **no_resume_after_timeout** (`never both`, one direction): once `w`'s `_on_tick` closure has found the
    countdown at 0 while the outcome was still open (neither `flag` nor `timedOut` set - otherwise the invocation is
    stale and does nothing, see `no_timeout_after_resume`): the step that registers the `TimeoutError` task), `w` is in
    phase 4 and no later configuration performs a resumption step of `w`. -/
theorem no_resume_after_timeout (s0 : St) (hi : W6InitWait s0) (c : Cfg) (h : W6ReachW s0.hs.length s0 c)
    (w r hh e : Nat) (k : List Frame) (hs : c.stack = .invoke r hh e :: k) (hx : c.exn = none)
    (hk : (c.st.handler hh).kind = .waitTick w) (h0 : (c.st.wait w).timeout = 0)
    (hfl : (c.st.wait w).flag = false) (hto : (c.st.wait w).timedOut = false)
    (c' : Cfg) (hl : W6Later s0.hs.length (step c) c') : ¬ W6ResumesW c' w := by
  intro hr'
  have hc := h.cinv hi
  have h1 := w6_timeout_finishes hc w r hh e k hs hx hk h0 hfl hto
  have h2 := (w6_resume_phase (W6Later.cinv (w6_step_cinv c hc) hl) w hr').1
  have := W6Later.w6_phase_mono (w6_step_cinv c hc) hl w
  omega

/-- **installed_by_phase**: for a started wait state the `_on_event` handler is installed only in phase 1, the
    `_on_tick` handler only in phases 1–2, the `_on_done` handler exactly in phases 1–3. -/
theorem installed_by_phase (s0 : St) (hi : W6InitWait s0) (c : Cfg) (h : W6ReachW s0.hs.length s0 c) (w : Nat)
    (hw : w < c.st.waits.length) (hst : (c.st.wait w).started = true) :
    (c.st.w6_view.evKey w ∈ c.st.w6_view.htabOf w → w6_phase c.st w = 1) ∧
    (∀ ht, (c.st.wait w).hTick = some ht → c.st.w6_view.tickKey ht ∈ c.st.w6_view.htabOf w →
      w6_phase c.st w = 1 ∨ w6_phase c.st w = 2) ∧
    (c.st.w6_doneInst w ↔ 1 ≤ w6_phase c.st w ∧ w6_phase c.st w ≤ 3) :=
  w6_installed_by_phase (h.cinv hi) w hw hst

/-- **wait_task_needs_flag**: a task whose generator is `w`'s waitEvent generator is in a task set only when
    `w.flag` is set, i.e. from phase 3 on. -/
theorem wait_task_needs_flag (s0 : St) (hi : W6InitWait s0) (c : Cfg) (h : W6ReachW s0.hs.length s0 c)
    (x : Nat) (t : Task) (ht : t ∈ (c.st.comp x).tasks) (w : Nat) (hg : c.st.gen t.g = .wait w) :
    (c.st.wait w).flag = true ∧ 3 ≤ w6_phase c.st w :=
  w6_wait_task_needs_flag (h.cinv hi) x t ht w hg

/-- **no_residue**: in a reachable configuration in which every started wait state is finished (phase 4: resumed
    or timed out) no handler of kind waitEvent / waitDone / waitTick is left in any handler table. -/
theorem no_residue (s0 : St) (hi : W6InitWait s0) (c : Cfg) (h : W6ReachW s0.hs.length s0 c)
    (hall : ∀ w, w < c.st.waits.length → (c.st.wait w).started = true → w6_phase c.st w = 4) :
    ∀ x k hd, (k, hd) ∈ (c.st.comp x).htab → (c.st.handler hd).kind.w6_isWait = false :=
  w6_no_residue_of_cinv (h.cinv hi) hall

/-! ## non-vacuity -/

/-- a small initial state: one component, one pre-declared user handler, one program that removes it -/
def exampleInit : St :=
  { comps := [{ parent := 0, root := 0 }],
    hs := [{ owner := 0, names := [⟨1, []⟩], chan := none, kind := .user 0 }],
    progs := [[.rmH 0 none, .ret 1]] }

example : W6InitWait exampleInit := by
  refine ⟨rfl, rfl, ?_, ?_, ?_, ?_, ?_⟩
  · intro h hh
    have : h = 0 := by simp [exampleInit] at hh; exact hh
    subst this; rfl
  · intro c k h hm
    rcases c with _ | c <;> simp [exampleInit, St.comp, dfltComp] at hm
  · intro c
    rcases c with _ | c <;> simp [exampleInit, St.comp, dfltComp]
  · intro c
    rcases c with _ | c <;> simp [exampleInit, St.comp, dfltComp]
  · intro p hp a ha
    simp [exampleInit] at hp
    subst hp
    simp at ha
    rcases ha with ha | ha <;> subst ha <;> simp [Act.w6_hOk, exampleInit]

/-- admissible sessions exist: e.g. the one that starts with a `tick` -/
example : W6ReachW exampleInit.hs.length exampleInit (startOf (envChange exampleInit 0 []) (.tick 0)) :=
  W6ReachW.init 0 [] (.tick 0) trivial

/-- … and `do removeHandler(h)` of the pre-declared handler is an admissible external operation -/
example : ExtOp.w6ok exampleInit.hs.length (.doAct 0 (.rmH 0 none)) := by
  simp [ExtOp.w6ok, Act.w6_hOk, exampleInit]


/-! ## Part 3 (second round): never both, the other direction; the time-out is not early, counted -/

/-- **no_timeout_after_resume** (`never both`, the other direction), FULL since the fix "stale waitEvent closures
    do nothing once the outcome is decided".  After the resumption step of `w`, in every later configuration of the
    session: `w.flag` is (still) set; no `TimeoutError` carrier (`GenRec.exc w`) exists; the configuration is not the
    task step of such a carrier (the only step that logs `.timeout`, see `timeout_needs_exc`); and an invocation of
    `w`'s `_on_tick` closure - possible only from a handler list computed before `_on_done` removed the handler - changes
    nothing but the log entry of the invocation itself.

    HISTORY.  Before that fix the statement was false of the model and of the code, and the second round proved it only
    under the hypotheses "no `_dispatcher` in flight holds `w`'s tick handler at the resumption step" and cache
    liveness; the theorem `no_timeout_after_resume_witness` (a session of `w6b_s0` in which wait state 0 is resumed with
    the result 7, a later configuration invokes its `_on_tick` with the countdown at 0, and a still later one logs
    `.timeout 0 0 false` for the same caller) held up to the fix commit; it is false now and was replaced by
    `stale_tick_regression` below, the same run ending with exactly one outcome. -/
theorem no_timeout_after_resume (s0 : St) (hi : W6InitWait s0) (c : Cfg) (h : W6ReachW s0.hs.length s0 c)
    (w : Nat) (hr : W6ResumesW c w) (c' : Cfg) (hl : W6Later s0.hs.length (step c) c') :
    (c'.st.wait w).flag = true ∧
    (∀ g b, c'.st.gen g ≠ .exc w b) ∧
    (∀ r t k b, c'.stack = .ptBody r t :: k → c'.st.gen t.g ≠ .exc w b) ∧
    (∀ r hh e k, c'.stack = .invoke r hh e :: k → c'.exn = none → (c'.st.handler hh).kind = .waitTick w →
      (step c').st = c'.w6_invokeSt hh e) :=
  w6b_no_timeout_after_resume (h.cinv hi) (h.excFin hi) w hr hl

/-- **stale closures are harmless**: an invocation of `w`'s `_on_tick` closure after `flag` or `timedOut` was set
    changes nothing but the log entry of the invocation (all configurations). -/
theorem stale_tick_is_noop (c : Cfg) (w r hh e : Nat) (k : List Frame) (hs : c.stack = .invoke r hh e :: k)
    (hx : c.exn = none) (hk : (c.st.handler hh).kind = .waitTick w)
    (hst : (c.st.wait w).flag = true ∨ (c.st.wait w).timedOut = true) : (step c).st = c.w6_invokeSt hh e :=
  w6b_stale_tick_noop c w r hh e k hs hx hk hst

/-- **stale_done_is_noop**: an invocation of `w`'s `_on_done` closure on a wait state whose `flag` is already set (a second
    `<name>_done` of the awaited event - an event object fired twice, as `Timer` does - or a stale invocation from a handler
    list computed before the resumption removed the handler) or that has timed out changes nothing but the log entry of
    the invocation (all configurations).  Before the fix "waitEvent's _on_done does nothing once the awaited event is
    known to be done" such an invocation re-registered the consumed callEvent generator: the caller was resumed again at
    an unrelated `yield` and its event never completed (`waitingHandlers = -1`). -/
theorem stale_done_is_noop (c : Cfg) (w r hh e : Nat) (k : List Frame) (hs : c.stack = .invoke r hh e :: k)
    (hx : c.exn = none) (hk : (c.st.handler hh).kind = .waitDone w)
    (hst : (c.st.wait w).flag = true ∨ (c.st.wait w).timedOut = true) : (step c).st = c.w6_invokeSt hh e :=
  w6b_stale_done_noop c w r hh e k hs hx hk hst

/-- **stale_event_is_noop**: likewise for `_on_event` once the event was seen (`run`) or the wait timed out. -/
theorem stale_event_is_noop (c : Cfg) (w r hh e : Nat) (k : List Frame) (hs : c.stack = .invoke r hh e :: k)
    (hx : c.exn = none) (hk : (c.st.handler hh).kind = .waitEvent w)
    (hst : (c.st.wait w).run = true ∨ (c.st.wait w).timedOut = true) : (step c).st = c.w6_invokeSt hh e :=
  w6b_stale_event_noop c w r hh e k hs hx hk hst

/-- **the flag is set once, while the outcome is open**: a step that changes `w.flag` starts with `flag = timedOut = false`
    and ends with `flag = true`; as `flag` never goes back (`W6S.bits`), `_on_done` acts at most once per wait state. -/
theorem flag_set_only_when_open (c : Cfg) (w : Nat) (hne : ((step c).st.wait w).flag ≠ (c.st.wait w).flag) :
    (c.st.wait w).flag = false ∧ (c.st.wait w).timedOut = false ∧ ((step c).st.wait w).flag = true :=
  w6b_flag_set_when_open c w hne

/-- **the resumption task is registered at most once**: a task of `w`'s waitEvent generator that is new in a task set
    after a step was registered by `w`'s `_on_done` acting for the first time (`flag = timedOut = false` before the step,
    `flag = true` after it) - so a consumed callEvent / waitEvent generator is never registered again. -/
theorem resumption_task_registered_once (s0 : St) (hi : W6InitWait s0) (c : Cfg) (h : W6ReachW s0.hs.length s0 c)
    (x : Nat) (t' : Task) (hnew : t' ∈ ((step c).st.comp x).tasks) (hold : t' ∉ (c.st.comp x).tasks)
    (w : Nat) (hg : (step c).st.gen t'.g = .wait w) :
    (c.st.wait w).flag = false ∧ (c.st.wait w).timedOut = false ∧ ((step c).st.wait w).flag = true := by
  obtain ⟨r, hh, e, k, hs, hx, hk, _⟩ := (w6b_wait_exc_tasks_only_from_handlers (h.cinv hi) x t' hnew hold).1 w hg
  have hcomp : ∀ y, (c.w6_invokeSt hh e).comp y = c.st.comp y := by
    intro y; unfold Cfg.w6_invokeSt; split <;> rfl
  have open_ : ¬ ((c.st.wait w).flag = true ∨ (c.st.wait w).timedOut = true) := by
    intro hst
    rw [w6b_stale_done_noop c w r hh e k hs hx hk hst, hcomp] at hnew
    exact hold hnew
  have hfl' := (w6_wait_task_needs_flag (w6_step_cinv c (h.cinv hi)) x t' hnew w hg).1
  simp only [not_or, Bool.not_eq_true] at open_
  exact ⟨open_.1, open_.2, hfl'⟩

/-- **a carrier is created only while the outcome is open**: an `.exc w b` record after a step was there before, or is
    the record of the carrier's own task step, or was created by `w`'s own `_on_tick` closure at countdown 0 with
    neither `flag` nor `timedOut` set. -/
theorem exc_created_only_when_open (c : Cfg) (g w : Nat) (b : Bool) (hg : (step c).st.gen g = .exc w b) :
    c.st.gen g = .exc w b ∨
    (∃ r h e k, c.stack = .invoke r h e :: k ∧ c.exn = none ∧ (c.st.handler h).kind = .waitTick w ∧
      (c.st.wait w).timeout = 0 ∧ (c.st.wait w).flag = false ∧ (c.st.wait w).timedOut = false) ∨
    (∃ r t k b0, c.stack = .ptBody r t :: k ∧ c.exn = none ∧ c.st.gen t.g = .exc w b0) :=
  w6b_exc_step c g w b hg

/-- **regression for the repaired defect** (kernel-evaluated run of the model from `w6b_s0`: one hand-driven manager;
    `foo` = `x = yield call(bar(), timeout=0); yield; yield; yield`, `bar` = `return 7`, a `generate_events` handler that
    calls `stop()`, whose inline ticks resume the caller while the enclosing `_dispatcher` still holds the tick handler).
    The session reaches the resumption step of wait state 0 with the tick handler still pending in a handler loop, the
    result 7 is handed to the caller, the stale `_on_tick` IS invoked later with the countdown at 0 - with `flag` set -
    and after the following `tick()` the whole log contains exactly one outcome entry (the `.resumed` one, no
    `.timeout`) and no `TimeoutError` carrier exists. -/
theorem stale_tick_regression :
    W6InitWait w6b_s0 ∧ W6ReachW w6b_s0.hs.length w6b_s0 w6b_cR ∧ W6ResumesW w6b_cR 0 ∧
      w6b_hasStale w6b_cR 0 = true ∧
      Entry.resumed 0 0 1 (.single (.val 7)) false ∈ (step w6b_cR).st.log ∧
      W6Later w6b_s0.hs.length (step w6b_cR) w6b_cT ∧
      (∃ r hh e k, w6b_cT.stack = .invoke r hh e :: k ∧ w6b_cT.exn = none ∧ (w6b_cT.st.handler hh).kind = .waitTick 0 ∧
        (w6b_cT.st.wait 0).timeout = 0) ∧ (w6b_cT.st.wait 0).flag = true ∧
      W6Later w6b_s0.hs.length (step w6b_cR) w6b_cX ∧ done w6b_cX = true ∧ w6b_oneOutcome w6b_cX = true :=
  ⟨w6b_s0_init, w6b_cR_reach, w6b_isResume_spec _ _ w6b_cR_resume, w6b_cR_stale, w6b_cR_logs, w6b_cT_later,
   w6b_isTick0_spec _ _ w6b_cT_tick0, w6b_cT_flag, w6b_cX_later, w6b_cX_done, w6b_cX_one⟩

/-- **exc_only_when_finished**: a `TimeoutError` carrier of `w` exists only when `w` is finished (phase 4) - in
    particular never at or before the resumption step of `w` (which happens in phase 3). -/
theorem exc_only_when_finished (s0 : St) (hi : W6InitWait s0) (c : Cfg) (h : W6ReachW s0.hs.length s0 c)
    (g w : Nat) (b : Bool) (hg : c.st.gen g = .exc w b) : w6_phase c.st w = 4 :=
  h.excFin hi g w b hg

/-- **timeout_not_early**, counted across steps.  Let `c` be the configuration in which a user generator executes
    `yield call(…, timeout=n)` / `yield wait(…, timeout=n)` (`W6BBirth c n`); the wait state it creates is
    `w = c.st.waits.length`.  In every later configuration of the session in which a `TimeoutError` carrier of `w`
    exists, the log contains at least `n + 1` invocations (`.hinv _ 3 (task w)` entries) of `w`'s own `_on_tick`
    closure - one per dispatched `generate_events`, i.e. per loop iteration.  (`W6BInitLog s0`: the ghost log starts
    empty.) -/
theorem timeout_not_early (s0 : St) (hi : W6InitWait s0) (hl0 : W6BInitLog s0) (c : Cfg)
    (hr : W6ReachW s0.hs.length s0 c) (n : Nat) (hb : W6BBirth c n) (c' : Cfg)
    (hl : W6Later s0.hs.length (step c) c') (g' : Nat) (b : Bool)
    (hexc : c'.st.gen g' = .exc c.st.waits.length b) :
    n + 1 ≤ w6b_tickCount c'.st c.st.waits.length :=
  w6b_timeout_not_early hi hl0 hr hb hl hexc

/-- … hence the step that logs `.timeout` (the task step of an unfired carrier `.exc w' false`) comes after at least
    `n + 1` `_on_tick` invocations when `w'` is the wait state born in `c`. -/
theorem timeout_entry_not_early (s0 : St) (hi : W6InitWait s0) (hl0 : W6BInitLog s0) (c : Cfg)
    (hr : W6ReachW s0.hs.length s0 c) (n : Nat) (hb : W6BBirth c n) (c' : Cfg)
    (hl : W6Later s0.hs.length (step c) c') (es : List Entry) (hes : (step c').st.log = es ++ c'.st.log)
    (pe ph : Nat) (caught : Bool) (hx : Entry.timeout pe ph caught ∈ es) :
    ∃ r t k w', c'.stack = .ptBody r t :: k ∧ c'.exn = none ∧ c'.st.gen t.g = .exc w' false ∧
      (w' = c.st.waits.length → n + 1 ≤ w6b_tickCount c'.st w') :=
  w6b_timeout_entry_not_early hi hl0 hr hb hl hes hx

/-- the countdown potential `#(_on_tick invocations of w) + w.timeout − [a carrier of w exists]` never decreases
    along a session (it is constant while the countdown is positive) -/
theorem tick_potential_monotone (s0 : St) (hi : W6InitWait s0) (c : Cfg) (h : W6ReachW s0.hs.length s0 c) (c' : Cfg)
    (hl : W6Later s0.hs.length c c') (w : Nat) (hw : w < c.st.waits.length) :
    w6b_tickCount c.st w ≤ w6b_tickCount c'.st w ∧ w6b_phi c.st w ≤ w6b_phi c'.st w :=
  ⟨(W6Later.w6b_mono (h.cinv hi) hl w hw).1, (W6Later.w6b_mono (h.cinv hi) hl w hw).2.2⟩

/-! ### non-vacuity of the second-round hypotheses -/

example : W6BInitLog exampleInit := rfl
example : W6BInitLog w6b_s0 := rfl

/-- a generator about to execute `yield call(tmpl 0, timeout=2)` -/
example : W6BBirth { st := { gens := [.user 0 0 0 [.call 0 none (some 2) false] 0 none false] }, stack := [.stepGen 0] } 2 :=
  ⟨0, [], 0, 0, 0, _, [], 0, none, false, rfl, rfl, rfl, Or.inl ⟨_, _, _, rfl⟩⟩


/-! ## Part 4 (second round): the caller is not lost; transient tasks -/

/-- **caller_completes**, PARTIAL.  In the resumption step of `w` (top frame `.ptBody r t`, `t.g` is `w`'s waitEvent
    generator, its `_done` handler can be removed) the wait state has recorded an event `src`, and if the task's
    parent is a live user generator `p` then after the step `p` is RUNNING (`.stepGen p` on top of `.ptParent r t p
    false`), its step counter advanced, the resumption task is erased from the task set of `r`'s root, and the log gains
    exactly `.resumed pe ph src value errors`.
    FULL STATEMENT: without the hypotheses `t.parent = some p` and `c.st.gen p = .user …`.  OBSTACLE: before the fix
    "stale waitEvent closures do nothing once the outcome is decided" the second was FALSE of the model and of the code
    (the stale `_on_tick` of an earlier, already resumed wait state `w'` of the same caller registered a TimeoutError
    task whose uncaught task step killed `p` while `p` was suspended in `w`; `Cfg.ptBodyWait` then dropped the
    resumption task).  That counter-example is gone (`no_timeout_after_resume`), but proving "the `parentGen` of a wait
    state in phase 1-3 is a suspended live user generator that no other task or frame refers to" needs an ownership
    invariant over tasks, generators, frames and wait states that `W6CInv` does not contain.  The first hypothesis
    (`t.parent ≠ none` for the task held in a `ptBody` frame) is true but only proved for tasks in task sets
    (`transient_tasks_by_phase`). -/
theorem caller_completes_partial (s0 : St) (hi : W6InitWait s0) (c : Cfg) (h : W6ReachW s0.hs.length s0 c)
    (w r : Nat) (t : Task) (k : List Frame) (hs : c.stack = .ptBody r t :: k) (hx : c.exn = none)
    (hg : c.st.gen t.g = .wait w)
    (hok : (c.st.removeHandler (c.st.wait w).hDone (some ((c.st.wait w).evName.child sfxDone))).1 = true) :
    ∃ src, (c.st.wait w).event = some src ∧
      ∀ p, t.parent = some p → ∀ pe ph o rest st pc sd, c.st.gen p = .user pe ph o rest st pc sd →
        (step c).stack = .stepGen p :: .ptParent r t p false :: k ∧ (step c).exn = none ∧
        (step c).st.gen p = .user pe ph o rest (st + 1) pc true ∧
        (∀ x, ((step c).st.comp x).tasks =
          if x = c.st.rootOf r then (c.st.comp x).tasks.erase t else (c.st.comp x).tasks) ∧
        (step c).st.log = .resumed pe ph src (c.st.ev src).val.view (c.st.ev src).val.errors :: c.st.log :=
  w6b_caller_completes_partial (h.cinv hi) w r t k hs hx hg hok

/-- … and when the resumed caller yields a plain value again, it is back in the task set as an ordinary task
    `(event, caller, None)` (of the root of `r`, whenever that root is a declared component); when it yields another
    `call`/`wait`, it becomes the `parentGen` of that wait state. -/
theorem caller_registered_again (c : Cfg) (r : Nat) (t : Task) (p : Nat) (k : List Frame)
    (hs : c.stack = .ptParent r t p false :: k) (hx : c.exn = none) :
    (∀ v, c.ret.yield = .plain v →
      (step c).stack = k ∧ (step c).exn = none ∧
      ∀ s1, s1 = (c.st.modEv t.e fun x => { x with waiting := x.waiting - 1 }).setValueOpt t.e v →
        s1.rootOf r < s1.comps.length → (⟨t.e, p, none⟩ : Task) ∈ ((step c).st.comp (s1.rootOf r)).tasks) ∧
    (∀ w2, c.ret.yield = .sub w2 → w2 < c.st.waits.length →
      (step c).stack = k ∧ (step c).exn = none ∧
      ((step c).st.wait w2).parentGen = p ∧ ((step c).st.wait w2).taskEvent = t.e) := by
  refine ⟨fun v hy => ?_, fun w2 hy hw2 => ?_⟩
  · obtain ⟨a, b, _, d⟩ := w6b_ptParent_plain c r t p k v hs hx hy
    exact ⟨a, b, d⟩
  · obtain ⟨a, b, _, d⟩ := w6b_ptParent_sub c r t p k w2 hs hx hy hw2
    exact ⟨a, b, d⟩

/-- **task residue, transient form** (the naive "all waits finished ∧ empty stack ⇒ no wait/exc task" is false: after
    a time-out the TimeoutError task stays registered until the next tick).  (1) Task sets are duplicate-free.  (2) The
    task step of a waitEvent generator or of a TimeoutError carrier always consumes its task: afterwards `t` is gone
    from the task set of its root, and the only task the step can add is the caller `(t.e, p, None)`. -/
theorem transient_task_consumed (s0 : St) (hi : W6InitWait s0) (c : Cfg) (h : W6ReachW s0.hs.length s0 c)
    (r : Nat) (t : Task) (k : List Frame) (hs : c.stack = .ptBody r t :: k) (hx : c.exn = none)
    (hgen : (∃ w, c.st.gen t.g = .wait w) ∨ (∃ w b, c.st.gen t.g = .exc w b)) :
    (∀ x, (c.st.comp x).tasks.Nodup) ∧
    t ∉ ((step c).st.comp (c.st.rootOf r)).tasks ∧
    (∀ x t', t' ∈ ((step c).st.comp x).tasks →
      t' ∈ (c.st.comp x).tasks ∨ ∃ p, t.parent = some p ∧ t' = ⟨t.e, p, none⟩) := by
  have hnd := w6b_tasks_nodup hi.tasks h.reach
  obtain ⟨a, b⟩ := w6b_task_consumed c r t k hs hx hgen
  exact ⟨hnd, b (hnd _), a⟩

/-- **wait/exc tasks come only from the temporary handlers**: a task that is new in a task set after a step and whose
    generator is `w`'s waitEvent generator was registered by `w`'s own `_on_done` closure; one whose generator is a
    TimeoutError carrier of `w` (and that has a parent) by `w`'s own `_on_tick` closure at countdown 0.  Between such
    invocations the set of wait/exc tasks only shrinks.  (PARTIAL in the side condition `t'.parent ≠ none` of the
    second clause: excluding that `hApply`/`StopIteration` re-register an existing carrier id as an ordinary task
    needs a "generator references are not carriers" frame invariant that `W6CInv` does not contain.) -/
theorem wait_exc_tasks_only_from_handlers_partial (s0 : St) (hi : W6InitWait s0) (c : Cfg)
    (h : W6ReachW s0.hs.length s0 c) (x : Nat) (t' : Task)
    (hnew : t' ∈ ((step c).st.comp x).tasks) (hold : t' ∉ (c.st.comp x).tasks) :
    (∀ w, (step c).st.gen t'.g = .wait w →
      ∃ r hh e k, c.stack = .invoke r hh e :: k ∧ c.exn = none ∧ (c.st.handler hh).kind = .waitDone w ∧
        t' = ⟨(c.st.wait w).taskEvent, (c.st.wait w).task, some (c.st.wait w).parentGen⟩) ∧
    (∀ w b, (step c).st.gen t'.g = .exc w b → t'.parent ≠ none →
      ∃ r hh e k, c.stack = .invoke r hh e :: k ∧ c.exn = none ∧ (c.st.handler hh).kind = .waitTick w ∧
        (c.st.wait w).timeout = 0 ∧ b = false ∧
        t' = ⟨(c.st.wait w).taskEvent, c.st.gens.length, some (c.st.wait w).parentGen⟩) :=
  w6b_wait_exc_tasks_only_from_handlers (h.cinv hi) x t' hnew hold

/-- **which transient tasks can exist when**: a registered task of `w`'s waitEvent generator has a parent and `w.flag`
    is set; a TimeoutError carrier of `w` exists only when `w` is finished (phase 4) with the countdown at 0. -/
theorem transient_tasks_by_phase (s0 : St) (hi : W6InitWait s0) (c : Cfg) (h : W6ReachW s0.hs.length s0 c) :
    (∀ x t, t ∈ (c.st.comp x).tasks → ∀ w, c.st.gen t.g = .wait w →
      t.parent.isSome = true ∧ (c.st.wait w).flag = true ∧ 3 ≤ w6_phase c.st w) ∧
    (∀ g w b, c.st.gen g = .exc w b → w6_phase c.st w = 4 ∧ (c.st.wait w).timeout = 0) := by
  refine ⟨fun x t ht w hg => ?_, fun g w b hg => ?_⟩
  · obtain ⟨a, b⟩ := w6_wait_task_needs_flag (h.cinv hi) x t ht w hg
    exact ⟨w6b_wait_task_has_parent hi h x t ht w hg, a, b⟩
  · exact ⟨h.excFin hi g w b hg, (h.w6b_excInv hi g w b hg).2⟩


/-! ## Part 5 (with the task accounting of C04, CV/Proofs/InvTasks*.lean): the resumption task has a parent -/

/-- **caller_completes**, PARTIAL, one hypothesis less.  In a session guarded by the two real restrictions of the task
    accounting (`T46ReachM2`: an admissible session on which no handler / task re-enters the task loop and no step changes the
    root of a component whose task loop is active), the task held by a `.ptBody r t` frame is still registered (`T46Inv`: at most
    one task is in flight and it is in the task set of its component), hence - being the task of a waitEvent generator - it HAS a
    parent `p` (`transient_tasks_by_phase`).  So the hypothesis `t.parent ≠ none` of `caller_completes_partial` is gone:
    the wait state has recorded an event `src`, the task has a parent `p`, and if `p` is a live user generator then after the step
    `p` is running, the resumption task is erased and the log gains exactly `.resumed pe ph src value errors`.
    STILL OPEN: "`p` IS a live user generator".  It needs the per-generator ownership count (every user generator is held by at most
    one of: its own task entry, a parent field of a task, a pending wait state, a `.ptParent` frame) on top of `T46Inv`; the
    accounting invariant bounds `waitingHandlers`, it does not yet say who holds a generator. -/
theorem caller_completes_parent_partial (s0 : St) (h0 : T46Init s0) (hi : W6InitWait s0) (hq : T46InitQ s0) (c : Cfg)
    (h : T46ReachM2 s0 c) (w r : Nat) (t : Task) (k : List Frame) (hs : c.stack = .ptBody r t :: k) (hx : c.exn = none)
    (hg : c.st.gen t.g = .wait w)
    (hok : (c.st.removeHandler (c.st.wait w).hDone (some ((c.st.wait w).evName.child sfxDone))).1 = true) :
    t ∈ (c.st.comp r).tasks ∧ c.st.rootOf r = r ∧
    ∃ src p, (c.st.wait w).event = some src ∧ t.parent = some p ∧
      ∀ pe ph o rest st pc sd, c.st.gen p = .user pe ph o rest st pc sd →
        (step c).stack = .stepGen p :: .ptParent r t p false :: k ∧ (step c).exn = none ∧
        (step c).st.gen p = .user pe ph o rest (st + 1) pc true ∧
        (∀ x, ((step c).st.comp x).tasks =
          if x = c.st.rootOf r then (c.st.comp x).tasks.erase t else (c.st.comp x).tasks) ∧
        (step c).st.log = .resumed pe ph src (c.st.ev src).val.view (c.st.ev src).val.errors :: c.st.log := by
  have hinv := (h.all h0 hi hq).2.1
  have hsh := hinv.shape
  rw [hs] at hsh
  have hmem := hsh.1.2
  have hroot := (T46Shape.under hsh.1.1 hsh.2).1
  have hpar := w6b_wait_task_has_parent hi h.admissible r t hmem w hg
  obtain ⟨src, hsrc, hrest⟩ := caller_completes_partial s0 hi c h.admissible w r t k hs hx hg hok
  cases hp : t.parent with
  | none => rw [hp] at hpar; cases hpar
  | some p => exact ⟨hmem, hroot, src, p, hsrc, rfl, hrest p hp⟩

/-- **wait/exc tasks come only from the temporary handlers**, WITHOUT the side condition of
    `wait_exc_tasks_only_from_handlers_partial` (sessions guarded by the two restrictions of the task accounting).  A task that is
    new in a task set after a step and whose generator is a `TimeoutError` carrier of `w` was registered by `w`'s own `_on_tick`
    closure at countdown 0 - whether or not it has a parent: the other registration sites (`_dispatcher` for a generator returned
    by a handler, `StopIteration` / a plain yield re-registering the caller) only ever register generators that are not carriers
    (`tasks_well_formed_partial` of C04: the parent of a task, the caller of a wait state and a handler's generator are user
    generators, and the kind of a generator never changes). -/
theorem wait_exc_tasks_only_from_handlers (s0 : St) (h0 : T46Init s0) (hi : W6InitWait s0) (hq : T46InitQ s0) (c : Cfg)
    (h : T46ReachM2 s0 c) (x : Nat) (t' : Task)
    (hnew : t' ∈ ((step c).st.comp x).tasks) (hold : t' ∉ (c.st.comp x).tasks) :
    (∀ w, (step c).st.gen t'.g = .wait w →
      ∃ r hh e k, c.stack = .invoke r hh e :: k ∧ c.exn = none ∧ (c.st.handler hh).kind = .waitDone w ∧
        t' = ⟨(c.st.wait w).taskEvent, (c.st.wait w).task, some (c.st.wait w).parentGen⟩) ∧
    (∀ w b, (step c).st.gen t'.g = .exc w b →
      ∃ r hh e k, c.stack = .invoke r hh e :: k ∧ c.exn = none ∧ (c.st.handler hh).kind = .waitTick w ∧
        (c.st.wait w).timeout = 0 ∧ b = false ∧
        t' = ⟨(c.st.wait w).taskEvent, c.st.gens.length, some (c.st.wait w).parentGen⟩) := by
  obtain ⟨p1, p2⟩ := wait_exc_tasks_only_from_handlers_partial s0 hi c h.admissible x t' hnew hold
  refine ⟨p1, fun w b hg => ?_⟩
  by_cases hpar : t'.parent = none
  · exfalso
    obtain ⟨_, hinv, htp⟩ := h.all h0 hi hq
    have hK := t46_step_K hinv htp (h.admissible.cinv hi) (t46_reach_rq hq _ h.admissible.reach)
    have hno : ∀ g, c.st.t46_nc g → t'.g = g → False := by
      intro g hnc hgeq
      have := (hnc.mono hK).2
      rw [← hgeq, hg] at this
      cases this
    obtain ⟨_, hc⟩ := w6b_new_task_cases c x t' hnew hold
    unfold W6BNewTask at hc
    rcases hc with ⟨r, e, rest, err, g, k, hs, rfl⟩ | ⟨r, t, k, p, hs, hp, rfl⟩ | ⟨r, t, p, k, hs, rfl⟩ |
      ⟨r, t, p, k, hs, rfl, _⟩ | ⟨r, hh, e, k, w0, hs, hk, rfl⟩ | ⟨r, hh, e, k, w0, hs, hk, h0', rfl⟩
    · exact hno g (htp.frames (.hApply r e rest err (.gen g)) (by rw [hs]; simp) g rfl) rfl
    · have hsh := hinv.shape
      rcases hs with hs | hs | ⟨p', v, hs⟩
      · rw [hs] at hsh
        exact hno p ((htp.tasks r t hsh.1.2).2.2 p hp) rfl
      · rw [hs] at hsh
        exact hno p ((htp.tasks r t hsh.1.2).2.2 p hp) rfl
      · have := htp.frames (.ptParent r t p' v) (by rw [hs]; simp)
        exact hno p (this.2.2 p hp) rfl
    · have := htp.frames (.ptParent r t p false) (by rw [hs]; simp)
      exact hno p this.2.1 rfl
    · cases hpar
    · cases hpar
    · cases hpar
  · exact p2 w b hg hpar

/-- non-vacuity: sessions guarded by the two restrictions exist from `exampleInit` -/
example : T46ReachM2 exampleInit (startOf (envChange exampleInit 0 []) (.tick 0)) := T46ReachM2.init 0 [] (.tick 0) trivial
example : T46Init exampleInit := by
  refine ⟨fun x => ?_, rfl, fun e => ?_⟩
  · rcases x with _ | x <;> simp [exampleInit, St.comp, dfltComp]
  · have : exampleInit.ev e = dfltEv := by unfold St.ev; simp [exampleInit]
    rw [this]; decide
example : T46InitQ exampleInit :=
  T46InitQ.of_empty _ (fun x => by rcases x with _ | x <;> simp [exampleInit, St.comp, dfltComp, EQ])
    (fun i tm h => by simp [exampleInit] at h)

end CV.C06

import CV.Model.Line
import CV.Model.LineSpec
import CV.Model.Irc
import CV.Proofs.Line
import CV.Proofs.Irc
/-
C18 — the line protocol is segmentation-invariant; IRC messages are exactly one line.

Every `theorem` below is a proof obligation of the property (audited with `#print axioms`).
Models: CV/Model/Line.lean (`circuits/protocols/line.py`), CV/Model/Irc.lean
(`circuits/protocols/irc/message.py`, `utils.py: parsemsg`, `commands.py`).
Spec predicates: CV/Model/LineSpec.lean (`isReading`, `untaggedOk`), `Irc.oneLine`,
`Irc.wellFormed`.  Helper lemmas: CV/Proofs/Line.lean, CV/Proofs/Irc.lean.
-/
namespace CV.C18
open CV CV.Line CV.Irc

/-! ## Line protocol -/

/-- The buffer kept after a read never contains LF — whatever buffer it started from.
    (Stronger than preservation of the invariant: the hypothesis `LF ∉ buffer` is not needed.) -/
theorem buffer_no_lf (buffer data : Bytes) : LF ∉ (feed buffer data).1 :=
  feed_buf_noLF buffer data

/-- The invariant along any sequence of reads: a buffer without LF (in particular the
    initial `b''`) stays without LF. -/
theorem buffer_no_lf_all (buffer : Bytes) (reads : List Bytes) (h : LF ∉ buffer) :
    LF ∉ (feedAll buffer reads).1 :=
  feedAll_buf_noLF buffer reads h

example : LF ∉ ([] : Bytes) := by simp
example : LF ∉ ([97, 13] : Bytes) := by decide

/-- Two reads `a`, `b` give the lines and the final buffer of the single read `a ++ b`.
    (Holds for every carried buffer; `LF ∉ buf` is not needed.) -/
theorem split_hom (buf a b : Bytes) :
    feed buf (a ++ b) =
      ((feed (feed buf a).1 b).1, (feed buf a).2 ++ (feed (feed buf a).1 b).2) :=
  feed_append buf a b

/-- Every cut list — including byte-at-a-time and empty segments — gives the result of
    the one read of the concatenation. -/
theorem segmentation_invariant (buf : Bytes) (segs : List Bytes) (h : LF ∉ buf) :
    feedAll buf segs = feed buf segs.flatten :=
  feedAll_eq_feed_flatten buf segs h

example : LF ∉ ([97, 13] : Bytes) ∧
    feedAll [97, 13] [[], [10, 98], [], [13], [10], [99]] = ([99], [[97], [98]]) := by decide

/-- Hence any two segmentations of the same byte stream are indistinguishable. -/
theorem segmentation_irrelevant (buf : Bytes) (segs segs' : List Bytes) (h : LF ∉ buf)
    (hsame : segs.flatten = segs'.flatten) : feedAll buf segs = feedAll buf segs' := by
  rw [segmentation_invariant buf segs h, segmentation_invariant buf segs' h, hsame]

example : ([[97, 13], [10, 98]] : List Bytes).flatten = ([[97], [13, 10], [], [98]] : List Bytes).flatten := by
  decide

/-- The emitted lines are exactly the LF/CRLF-terminated lines of the stream, and the
    unterminated tail (including a trailing CR) is held: the output is a legal reading. -/
theorem lines_exact (x : Bytes) : isReading x (splitT x).1 (splitT x).2 = true := by
  have h := scan_isReading [] x (by simp)
  rw [isReading_iff]
  simpa [splitT] using h

/-- A stream has only one legal reading, so `lines_exact` is a complete specification. -/
theorem reading_unique (x : Bytes) (ls : List (Bytes × Bool)) (t : Bytes)
    (h : isReading x ls t = true) : (ls, t) = splitT x := by
  rw [isReading_iff] at h
  exact (reading_unique_aux ls t x h.1 h.2.1 h.2.2).symm

example : isReading [97, 13, 10, 10, 98, 13] [([97], true), ([], false)] [98, 13] = true := by decide

/-- The predicate the driver evaluates on the implementation's (untagged) output accepts
    only the true answer. -/
theorem untagged_spec_sound (x : Bytes) (ls : List Bytes) (t : Bytes)
    (h : untaggedOk x ls t = true) :
    ls = (splitT x).1.map (·.1) ∧ t = (splitT x).2 := by
  obtain ⟨tl, hm, hr⟩ := untaggedOk_sound x ls t h
  have := reading_unique x tl t hr
  rw [← this]
  exact ⟨hm.symm, rfl⟩

example : untaggedOk [97, 13, 10, 10, 98, 13] [[97], []] [98, 13] = true := by decide

/-- ... and it accepts the true answer. -/
theorem untagged_spec_complete (x : Bytes) (ls : List Bytes) (t : Bytes)
    (h : ls = (splitT x).1.map (·.1) ∧ t = (splitT x).2) : untaggedOk x ls t = true := by
  obtain ⟨rfl, rfl⟩ := h
  exact untaggedOk_complete x _ _ (lines_exact x)

example : ([[97], []] : List Bytes) = (splitT [97, 13, 10, 10, 98, 13]).1.map (·.1) ∧
    ([98, 13] : Bytes) = (splitT [97, 13, 10, 10, 98, 13]).2 := by decide

/-- End to end: from the initial empty buffer, under every segmentation, the `line` events
    and the held buffer satisfy the driver's spec predicate for the whole stream. -/
theorem feedAll_lines_exact (segs : List Bytes) :
    untaggedOk segs.flatten (feedAll [] segs).2 (feedAll [] segs).1 = true := by
  rw [segmentation_invariant [] segs (by simp)]
  apply untagged_spec_complete
  simp [feed, splitLines]

/-- Server mode: the lines emitted for socket `s` and its final buffer are those of the
    client-mode protocol run on the reads addressed to `s` alone (in order) — reads for
    other sockets have no influence.  (Holds for every initial buffer table.) -/
theorem server_isolation (bufs : Bufs) (reads : List (Nat × Bytes)) (s : Nat) :
    (((serverFeedAll bufs reads).2.filter (fun r => r.1 == s)).map (·.2)
        = (feedAll (getBuf bufs s) ((reads.filter (fun r => r.1 == s)).map (·.2))).2) ∧
    getBuf (serverFeedAll bufs reads).1 s
        = (feedAll (getBuf bufs s) ((reads.filter (fun r => r.1 == s)).map (·.2))).1 :=
  server_isolation_aux bufs reads s

/-- Server mode, combined with segmentation invariance: what socket `s` sees depends only
    on the concatenation of the bytes addressed to `s`. -/
theorem server_isolation_stream (bufs : Bufs) (reads : List (Nat × Bytes)) (s : Nat)
    (h : LF ∉ getBuf bufs s) :
    (((serverFeedAll bufs reads).2.filter (fun r => r.1 == s)).map (·.2)
        = (feed (getBuf bufs s) ((reads.filter (fun r => r.1 == s)).map (·.2)).flatten).2) ∧
    getBuf (serverFeedAll bufs reads).1 s
        = (feed (getBuf bufs s) ((reads.filter (fun r => r.1 == s)).map (·.2)).flatten).1 := by
  have := server_isolation bufs reads s
  rw [segmentation_invariant _ _ h] at this
  exact this

example : LF ∉ getBuf [(7, [97, 13]), (8, [98])] 7 ∧
    serverFeedAll [(7, [97, 13]), (8, [98])] [(8, [10]), (7, [10, 99]), (8, [100, 10])]
      = ([(8, []), (7, [99])], [(8, [98]), (7, [97]), (8, [100])]) := by decide

/-- What the line protocol hands to the IRC parser for a rendered message: a stream
    `x ++ CRLF` with no LF in `x` is the single line `x`, nothing held. -/
theorem line_of_render (x : Bytes) (h : LF ∉ x) : splitT (x ++ [CR, LF]) = ([(x, true)], []) := by
  have hok : lineOk (x, true) = true := by rw [lineOk_iff]; exact ⟨h, Or.inl rfl⟩
  have := scan_line (x, true) [] hok
  simpa [splitT, term, scan] using this

example : LF ∉ ([80, 73, 78, 71, 32, 97] : Bytes) := by decide

/-! ## IRC messages -/

/-- `str(message)` is the body followed by CRLF. -/
theorem render_is_body_crlf (p : Policy) (m : Msg) (w : Str) (h : render p m = some w) :
    w = body m ++ ['\r', '\n'] :=
  (render_eq_some h).2

example : render Policy.current ⟨none, some "PING".toList, ["a".toList]⟩ = some "PING a\r\n".toList := by
  decide

/-- Every message that serialises at all serialises to exactly one CRLF-terminated line —
    for every prefix, command and argument list. -/
theorem one_line (m : Msg) (w : Str) (h : render Policy.current m = some w) : oneLine w = true := by
  obtain ⟨hc, rfl⟩ := render_eq_some h
  exact oneLine_crlf _ (body_noBrk m hc)

example : render Policy.current ⟨some "n!u@h".toList, some "PRIVMSG".toList, ["#c".toList, "hi there".toList]⟩
    = some ":n!u@h PRIVMSG #c :hi there\r\n".toList := by decide

/-- The repaired defect: under the old check (`'\n'` in arguments only) a bare CR in an
    argument, or CR LF in the command, went onto the wire. -/
theorem one_line_legacy_witness :
    (render Policy.legacy ⟨none, some "PRIVMSG".toList, ["a".toList, "x\ry".toList]⟩).map oneLine
      = some false ∧
    (render Policy.legacy ⟨none, some "srv\r\nQUIT".toList, ["nick".toList]⟩).map oneLine
      = some false := by decide

/-- The same for every command constructor of `irc/commands.py` and every argument list. -/
theorem constructors_one_line (name : Str) (args : List (Option Str)) (w : Str)
    (h : render Policy.current (construct name args) = some w) : oneLine w = true :=
  one_line _ w h

example : render Policy.current (construct "WHOIS".toList [some "nick".toList, some "srv".toList])
    = some "WHOIS srv nick\r\n".toList := by decide

/-- Round trip: a well-formed message, rendered (without CRLF, which the line protocol
    removes — `line_of_render`) and parsed, gives back its prefix, command and arguments.
    `ws` is the whitespace predicate of `str.split()`; only `ws ' '` is assumed. -/
theorem roundtrip (ws : Char → Bool) (hws : ws ' ' = true) (m : Msg)
    (hwf : wellFormed ws m = true) : parsemsg ws (body m) = some (expectedParse m) := by
  obtain ⟨pfx, command, args⟩ := m
  simp only [wellFormed, Bool.and_eq_true] at hwf
  obtain ⟨⟨⟨hp, hc⟩, hinit⟩, hlast⟩ := hwf
  cases command with
  | none => simp at hc
  | some cmd =>
    have hcmd : Tok ws cmd := (tokOk_iff ws cmd).1 hc
    have hinit' : ∀ a ∈ args.dropLast, Tok ws a := by
      intro a ha
      exact (tokOk_iff ws a).1 (List.all_eq_true.1 hinit a ha)
    have hlast' : ∀ a, args.getLast? = some a → lastOk ws a = true := by
      intro a ha
      simpa [ha] using hlast
    have hrest := parseRest_rendered hws cmd args hcmd hinit' hlast'
    cases pfx with
    | none =>
      have hb : body ⟨none, some cmd, args⟩ = cmd ++ ' ' :: joinSp (markLast args) := by
        simp [body, prefixPart, cmdStr]
      rw [hb, parsemsg_noprefix ws _ (head?_tok_append cmd _ hcmd), hrest]
      rfl
    | some p =>
      have hp' : ' ' ∉ p := by simpa using hp
      have hb : body ⟨some p, some cmd, args⟩
          = ':' :: p ++ ' ' :: (cmd ++ ' ' :: joinSp (markLast args)) := by
        simp [body, prefixPart, cmdStr]
      rw [hb, parsemsg_prefix ws p _ hp', hrest]
      rfl

example : pyIsSpace ' ' = true ∧
    wellFormed pyIsSpace ⟨some "n!u@h".toList, some "PRIVMSG".toList,
      ["#c".toList, "hi\tthere :)".toList]⟩ = true := by decide

/-- The shapes `wellFormed` excludes really do not survive the wire format (they are
    inherent to IRC, not defects): an empty argument, a middle argument with a leading colon,
    a final argument with a leading colon, a final argument with whitespace but no space,
    a prefix containing a space. -/
theorem roundtrip_excluded_witness :
    parsemsg pyIsSpace (body ⟨none, some "X".toList, ["".toList, "a".toList]⟩)
      ≠ some (expectedParse ⟨none, some "X".toList, ["".toList, "a".toList]⟩) ∧
    parsemsg pyIsSpace (body ⟨none, some "X".toList, [":a".toList, "b".toList]⟩)
      ≠ some (expectedParse ⟨none, some "X".toList, [":a".toList, "b".toList]⟩) ∧
    parsemsg pyIsSpace (body ⟨none, some "X".toList, [":a".toList]⟩)
      ≠ some (expectedParse ⟨none, some "X".toList, [":a".toList]⟩) ∧
    parsemsg pyIsSpace (body ⟨none, some "X".toList, ["a\tb".toList]⟩)
      ≠ some (expectedParse ⟨none, some "X".toList, ["a\tb".toList]⟩) ∧
    parsemsg pyIsSpace (body ⟨some "p q".toList, some "X".toList, ["a".toList]⟩)
      ≠ some (expectedParse ⟨some "p q".toList, some "X".toList, ["a".toList]⟩) :=
  ⟨by decide, by decide, by decide, by decide, by decide⟩

end CV.C18

import CV.Model.Line
namespace CV.C18
theorem placeholder : True := trivial
end CV.C18

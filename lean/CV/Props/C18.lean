import CV.Model.Line
import CV.Model.LineSpec
import CV.Model.Irc
import CV.Proofs.Line
import CV.Proofs.Irc
import CV.Model.IrcComp
import CV.Proofs.IrcComp
/-
C18 — the line protocol is segmentation-invariant; IRC messages are exactly one line.

Every `theorem` below is a proof obligation of the property (audited with `#print axioms`).
Models: CV/Model/Line.lean (`circuits/protocols/line.py`), CV/Model/Irc.lean
(`circuits/protocols/irc/message.py`, `utils.py: parsemsg`, `commands.py`).
Spec predicates: CV/Model/LineSpec.lean (`isReading`, `untaggedOk`), `Irc.oneLine`,
`Irc.wellFormed`.  Helper lemmas: CV/Proofs/Line.lean, CV/Proofs/Irc.lean.
Component part (last section): CV/Model/IrcComp.lean (`protocol.py`: `IRC.line`, `request`, `ping`;
`utils.py`: `strip`, `parseprefix`; `Message.from_string`; the UTF-8 codec), CV/Proofs/IrcComp.lean.
-/
namespace CV.C18
open CV CV.Line CV.Irc

/-! ## Line protocol -/

/-- The buffer kept after a read never contains LF — whatever buffer it started from.
    (Stronger than preservation of the invariant: the hypothesis `LF ∉ buffer` is not needed.) -/
theorem buffer_no_lf (buffer data : Bytes) : LF ∉ (feed buffer data).1 :=
  feed_buf_noLF buffer data

/-- The invariant along any sequence of reads: a buffer without LF (in particular the
    initial `b''`) stays without LF. -/
theorem buffer_no_lf_all (buffer : Bytes) (reads : List Bytes) (h : LF ∉ buffer) :
    LF ∉ (feedAll buffer reads).1 :=
  feedAll_buf_noLF buffer reads h

example : LF ∉ ([] : Bytes) := by simp
example : LF ∉ ([97, 13] : Bytes) := by decide

/-- Two reads `a`, `b` give the lines and the final buffer of the single read `a ++ b`.
    (Holds for every carried buffer; `LF ∉ buf` is not needed.) -/
theorem split_hom (buf a b : Bytes) :
    feed buf (a ++ b) =
      ((feed (feed buf a).1 b).1, (feed buf a).2 ++ (feed (feed buf a).1 b).2) :=
  feed_append buf a b

/-- Every cut list — including byte-at-a-time and empty segments — gives the result of
    the one read of the concatenation. -/
theorem segmentation_invariant (buf : Bytes) (segs : List Bytes) (h : LF ∉ buf) :
    feedAll buf segs = feed buf segs.flatten :=
  feedAll_eq_feed_flatten buf segs h

example : LF ∉ ([97, 13] : Bytes) ∧
    feedAll [97, 13] [[], [10, 98], [], [13], [10], [99]] = ([99], [[97], [98]]) := by decide

/-- Hence any two segmentations of the same byte stream are indistinguishable. -/
theorem segmentation_irrelevant (buf : Bytes) (segs segs' : List Bytes) (h : LF ∉ buf)
    (hsame : segs.flatten = segs'.flatten) : feedAll buf segs = feedAll buf segs' := by
  rw [segmentation_invariant buf segs h, segmentation_invariant buf segs' h, hsame]

example : ([[97, 13], [10, 98]] : List Bytes).flatten = ([[97], [13, 10], [], [98]] : List Bytes).flatten := by
  decide

/-- The emitted lines are exactly the LF/CRLF-terminated lines of the stream, and the
    unterminated tail (including a trailing CR) is held: the output is a legal reading. -/
theorem lines_exact (x : Bytes) : isReading x (splitT x).1 (splitT x).2 = true := by
  have h := scan_isReading [] x (by simp)
  rw [isReading_iff]
  simpa [splitT] using h

/-- A stream has only one legal reading, so `lines_exact` is a complete specification. -/
theorem reading_unique (x : Bytes) (ls : List (Bytes × Bool)) (t : Bytes)
    (h : isReading x ls t = true) : (ls, t) = splitT x := by
  rw [isReading_iff] at h
  exact (reading_unique_aux ls t x h.1 h.2.1 h.2.2).symm

example : isReading [97, 13, 10, 10, 98, 13] [([97], true), ([], false)] [98, 13] = true := by decide

/-- The predicate the driver evaluates on the implementation's (untagged) output accepts
    only the true answer. -/
theorem untagged_spec_sound (x : Bytes) (ls : List Bytes) (t : Bytes)
    (h : untaggedOk x ls t = true) :
    ls = (splitT x).1.map (·.1) ∧ t = (splitT x).2 := by
  obtain ⟨tl, hm, hr⟩ := untaggedOk_sound x ls t h
  have := reading_unique x tl t hr
  rw [← this]
  exact ⟨hm.symm, rfl⟩

example : untaggedOk [97, 13, 10, 10, 98, 13] [[97], []] [98, 13] = true := by decide

/-- ... and it accepts the true answer. -/
theorem untagged_spec_complete (x : Bytes) (ls : List Bytes) (t : Bytes)
    (h : ls = (splitT x).1.map (·.1) ∧ t = (splitT x).2) : untaggedOk x ls t = true := by
  obtain ⟨rfl, rfl⟩ := h
  exact untaggedOk_complete x _ _ (lines_exact x)

example : ([[97], []] : List Bytes) = (splitT [97, 13, 10, 10, 98, 13]).1.map (·.1) ∧
    ([98, 13] : Bytes) = (splitT [97, 13, 10, 10, 98, 13]).2 := by decide

/-- End to end: from the initial empty buffer, under every segmentation, the `line` events
    and the held buffer satisfy the driver's spec predicate for the whole stream. -/
theorem feedAll_lines_exact (segs : List Bytes) :
    untaggedOk segs.flatten (feedAll [] segs).2 (feedAll [] segs).1 = true := by
  rw [segmentation_invariant [] segs (by simp)]
  apply untagged_spec_complete
  simp [feed, splitLines]

/-- Server mode: the lines emitted for socket `s` and its final buffer are those of the
    client-mode protocol run on the reads addressed to `s` alone (in order) — reads for
    other sockets have no influence.  (Holds for every initial buffer table.) -/
theorem server_isolation (bufs : Bufs) (reads : List (Nat × Bytes)) (s : Nat) :
    (((serverFeedAll bufs reads).2.filter (fun r => r.1 == s)).map (·.2)
        = (feedAll (getBuf bufs s) ((reads.filter (fun r => r.1 == s)).map (·.2))).2) ∧
    getBuf (serverFeedAll bufs reads).1 s
        = (feedAll (getBuf bufs s) ((reads.filter (fun r => r.1 == s)).map (·.2))).1 :=
  server_isolation_aux bufs reads s

/-- Server mode, combined with segmentation invariance: what socket `s` sees depends only
    on the concatenation of the bytes addressed to `s`. -/
theorem server_isolation_stream (bufs : Bufs) (reads : List (Nat × Bytes)) (s : Nat)
    (h : LF ∉ getBuf bufs s) :
    (((serverFeedAll bufs reads).2.filter (fun r => r.1 == s)).map (·.2)
        = (feed (getBuf bufs s) ((reads.filter (fun r => r.1 == s)).map (·.2)).flatten).2) ∧
    getBuf (serverFeedAll bufs reads).1 s
        = (feed (getBuf bufs s) ((reads.filter (fun r => r.1 == s)).map (·.2)).flatten).1 := by
  have := server_isolation bufs reads s
  rw [segmentation_invariant _ _ h] at this
  exact this

example : LF ∉ getBuf [(7, [97, 13]), (8, [98])] 7 ∧
    serverFeedAll [(7, [97, 13]), (8, [98])] [(8, [10]), (7, [10, 99]), (8, [100, 10])]
      = ([(8, []), (7, [99])], [(8, [98]), (7, [97]), (8, [100])]) := by decide

/-- What the line protocol hands to the IRC parser for a rendered message: a stream
    `x ++ CRLF` with no LF in `x` is the single line `x`, nothing held. -/
theorem line_of_render (x : Bytes) (h : LF ∉ x) : splitT (x ++ [CR, LF]) = ([(x, true)], []) := by
  have hok : lineOk (x, true) = true := by rw [lineOk_iff]; exact ⟨h, Or.inl rfl⟩
  have := scan_line (x, true) [] hok
  simpa [splitT, term, scan] using this

example : LF ∉ ([80, 73, 78, 71, 32, 97] : Bytes) := by decide

/-! ## IRC messages -/

/-- `str(message)` is the body followed by CRLF. -/
theorem render_is_body_crlf (p : Policy) (m : Msg) (w : Str) (h : render p m = some w) :
    w = body m ++ ['\r', '\n'] :=
  (render_eq_some h).2

example : render Policy.current ⟨none, some "PING".toList, ["a".toList]⟩ = some "PING a\r\n".toList := by
  decide

/-- Every message that serialises at all serialises to exactly one CRLF-terminated line —
    for every prefix, command and argument list. -/
theorem one_line (m : Msg) (w : Str) (h : render Policy.current m = some w) : oneLine w = true := by
  obtain ⟨hc, rfl⟩ := render_eq_some h
  exact oneLine_crlf _ (body_noBrk m hc)

example : render Policy.current ⟨some "n!u@h".toList, some "PRIVMSG".toList, ["#c".toList, "hi there".toList]⟩
    = some ":n!u@h PRIVMSG #c :hi there\r\n".toList := by decide

/-- The repaired defect: under the old check (`'\n'` in arguments only) a bare CR in an
    argument, or CR LF in the command, went onto the wire. -/
theorem one_line_legacy_witness :
    (render Policy.legacy ⟨none, some "PRIVMSG".toList, ["a".toList, "x\ry".toList]⟩).map oneLine
      = some false ∧
    (render Policy.legacy ⟨none, some "srv\r\nQUIT".toList, ["nick".toList]⟩).map oneLine
      = some false := by decide

/-- The same for every command constructor of `irc/commands.py` and every argument list. -/
theorem constructors_one_line (name : Str) (args : List (Option Str)) (w : Str)
    (h : render Policy.current (construct name args) = some w) : oneLine w = true :=
  one_line _ w h

example : render Policy.current (construct "WHOIS".toList [some "nick".toList, some "srv".toList])
    = some "WHOIS srv nick\r\n".toList := by decide

/-- Round trip: a well-formed message, rendered (without CRLF, which the line protocol
    removes — `line_of_render`) and parsed, gives back its prefix, command and arguments.
    `ws` is the whitespace predicate of `str.split()`; only `ws ' '` is assumed. -/
theorem roundtrip (ws : Char → Bool) (hws : ws ' ' = true) (m : Msg)
    (hwf : wellFormed ws m = true) : parsemsg ws (body m) = some (expectedParse m) := by
  obtain ⟨pfx, command, args⟩ := m
  simp only [wellFormed, Bool.and_eq_true] at hwf
  obtain ⟨⟨⟨hp, hc⟩, hinit⟩, hlast⟩ := hwf
  cases command with
  | none => simp at hc
  | some cmd =>
    have hcmd : Tok ws cmd := (tokOk_iff ws cmd).1 hc
    have hinit' : ∀ a ∈ args.dropLast, Tok ws a := by
      intro a ha
      exact (tokOk_iff ws a).1 (List.all_eq_true.1 hinit a ha)
    have hlast' : ∀ a, args.getLast? = some a → lastOk ws a = true := by
      intro a ha
      simpa [ha] using hlast
    have hrest := parseRest_rendered hws cmd args hcmd hinit' hlast'
    cases pfx with
    | none =>
      have hb : body ⟨none, some cmd, args⟩ = cmd ++ ' ' :: joinSp (markLast args) := by
        simp [body, prefixPart, cmdStr]
      rw [hb, parsemsg_noprefix ws _ (head?_tok_append cmd _ hcmd), hrest]
      rfl
    | some p =>
      have hp' : ' ' ∉ p := by simpa using hp
      have hb : body ⟨some p, some cmd, args⟩
          = ':' :: p ++ ' ' :: (cmd ++ ' ' :: joinSp (markLast args)) := by
        simp [body, prefixPart, cmdStr]
      rw [hb, parsemsg_prefix ws p _ hp', hrest]
      rfl

example : pyIsSpace ' ' = true ∧
    wellFormed pyIsSpace ⟨some "n!u@h".toList, some "PRIVMSG".toList,
      ["#c".toList, "hi\tthere :)".toList]⟩ = true := by decide

/-- The shapes `wellFormed` excludes really do not survive the wire format (they are
    inherent to IRC, not defects): an empty argument, a middle argument with a leading colon,
    a final argument with a leading colon, a final argument with whitespace but no space,
    a prefix containing a space. -/
theorem roundtrip_excluded_witness :
    parsemsg pyIsSpace (body ⟨none, some "X".toList, ["".toList, "a".toList]⟩)
      ≠ some (expectedParse ⟨none, some "X".toList, ["".toList, "a".toList]⟩) ∧
    parsemsg pyIsSpace (body ⟨none, some "X".toList, [":a".toList, "b".toList]⟩)
      ≠ some (expectedParse ⟨none, some "X".toList, [":a".toList, "b".toList]⟩) ∧
    parsemsg pyIsSpace (body ⟨none, some "X".toList, [":a".toList]⟩)
      ≠ some (expectedParse ⟨none, some "X".toList, [":a".toList]⟩) ∧
    parsemsg pyIsSpace (body ⟨none, some "X".toList, ["a\tb".toList]⟩)
      ≠ some (expectedParse ⟨none, some "X".toList, ["a\tb".toList]⟩) ∧
    parsemsg pyIsSpace (body ⟨some "p q".toList, some "X".toList, ["a".toList]⟩)
      ≠ some (expectedParse ⟨some "p q".toList, some "X".toList, ["a".toList]⟩) :=
  ⟨by decide, by decide, by decide, by decide, by decide⟩

/-! ## The IRC component: bytes -> `Line` -> `IRC.line` -> `response` events, `request` -> `write` -/

/-- `bytes.decode('utf-8', 'replace')` inverts `str.encode('utf-8')`: the text the parser sees
    is the text that was serialised. -/
theorem utf8_roundtrip (s : Str) : decodeUtf8 (encodeUtf8 s) = s :=
  decodeUtf8_encodeUtf8 s

/-- `IRC.request` writes exactly one CRLF-terminated line: the bytes are `x ++ CR LF` with no LF
    in `x` (and `x` is the UTF-8 encoding of a text without CR or LF) — for every message. -/
theorem request_one_line (m : Msg) (w : Bytes) (h : requestBytes m = some w) :
    w = encodeUtf8 (body m) ++ [CR, LF] ∧ LF ∉ encodeUtf8 (body m) ∧ oneLine (body m ++ ['\r', '\n']) = true := by
  obtain ⟨hc, rfl⟩ := requestBytes_eq_some h
  exact ⟨rfl, LF_not_mem_body m hc, oneLine_crlf _ (body_noBrk m hc)⟩

example : requestBytes ⟨none, some "PING".toList, ["é".toList]⟩ = some [80, 73, 78, 71, 32, 0xc3, 0xa9, 13, 10] := by
  decide

/-- `IRC.line` on the rendered line of a well-formed message fires exactly the event
    `expectedResp` describes (or raises exactly when that is `none`). -/
theorem line_of_body (sock : Option Nat) (m : Msg) (hwf : wellFormed pyIsSpace m = true) :
    ircLine sock (body m) = expectedResp sock m := by
  have h := roundtrip pyIsSpace (by decide) m hwf
  obtain ⟨pfx, command, args⟩ := m
  cases command with
  | none => simp [wellFormed] at hwf
  | some c =>
    simp only [ircLine, h, expectedParse, expectedResp]
    cases pyInt (List.map asciiLower c) <;> simp

example : wellFormed pyIsSpace ⟨some "srv".toList, some "433".toList, ["*".toList, "nick".toList, "in use".toList]⟩ = true := by
  decide

/-- Component round trip.  A well-formed message handed to `IRC.request` is written as bytes
    `w`; when `w` arrives at a `Line` + `IRC` stack cut into reads in *any* way, `Line` emits
    exactly one line and holds nothing back, and `IRC.line` fires for it the response event
    carrying the message's prefix (as `parseprefix` shows it), its command (lower-cased as the
    event name; or `numeric` with `int(command)` in front) and its arguments. -/
theorem component_roundtrip (sock : Option Nat) (m : Msg) (hwf : wellFormed pyIsSpace m = true)
    (w : Bytes) (hw : requestBytes m = some w) (segs : List Bytes) (hs : segs.flatten = w) :
    feedAll [] segs = ([], [encodeUtf8 (body m)]) ∧
    compLine sock (encodeUtf8 (body m)) = (expectedResp sock m,
      match expectedResp sock m with | some r => (pingWrite r).toList | none => []) := by
  obtain ⟨hc, rfl⟩ := requestBytes_eq_some hw
  constructor
  · rw [segmentation_invariant [] segs (by simp), hs]
    have := line_of_render (encodeUtf8 (body m)) (LF_not_mem_body m hc)
    simp [feed, splitLines, this]
  · simp only [compLine, utf8_roundtrip, line_of_body sock m hwf]
    cases expectedResp sock m <;> rfl

example : wellFormed pyIsSpace ⟨some "n!u@h".toList, some "PRIVMSG".toList, ["#c".toList, "hi there".toList]⟩ = true ∧
    requestBytes ⟨some "n!u@h".toList, some "PRIVMSG".toList, ["#c".toList, "hi there".toList]⟩
      = some (encodeUtf8 ":n!u@h PRIVMSG #c :hi there\r\n".toList) ∧
    ([encodeUtf8 ":n!u@h PRIV".toList, encodeUtf8 "MSG #c :hi there\r".toList, [10]] : List Bytes).flatten
      = encodeUtf8 ":n!u@h PRIVMSG #c :hi there\r\n".toList := by decide

/-- What that event is: prefix, arguments and socket of the message; the name is the
    lower-cased command, unless the command starts with a digit — then it is `numeric` and
    carries `int(command)`. -/
theorem expected_response_fields (sock : Option Nat) (m : Msg) (r : Resp)
    (h : expectedResp sock m = some r) :
    r.sock = sock ∧ r.pfx = parsePrefix (m.pfx.getD []) ∧ r.args = m.args ∧
    ∃ c, m.command = some c ∧
      ((r.num = none ∧ r.name = c.map asciiLower) ∨
       (r.name = "numeric".toList ∧ r.num = pyInt (c.map asciiLower) ∧ r.num ≠ none)) := by
  obtain ⟨pfx, command, args⟩ := m
  cases command with
  | none => simp [expectedResp] at h
  | some c =>
    simp only [expectedResp] at h
    by_cases hd : startsDigit (List.map asciiLower c) = true
    · rw [if_pos hd] at h
      cases hp : pyInt (List.map asciiLower c) with
      | none => simp [hp] at h
      | some k =>
        simp only [hp, Option.map_some, Option.some.injEq] at h
        subst h
        exact ⟨rfl, rfl, rfl, c, rfl, Or.inr ⟨rfl, by simp [hp], by simp⟩⟩
    · rw [if_neg hd] at h
      split at h
      · simp at h
      · simp only [Option.some.injEq] at h
        subst h
        exact ⟨rfl, rfl, rfl, c, rfl, Or.inl ⟨rfl, rfl⟩⟩

example : expectedResp (some 7) ⟨some "srv".toList, some "001".toList, ["nick".toList, "Welcome to IRC".toList]⟩
    = some ⟨"numeric".toList, some 7, (some "srv".toList, none, none), some 1, ["nick".toList, "Welcome to IRC".toList]⟩ := by
  decide

/-- For a command without NUL that does not start with a digit the event always exists:
    the component gives back prefix, command and arguments. -/
theorem component_roundtrip_event (sock : Option Nat) (m : Msg) (c : Str) (hwf : wellFormed pyIsSpace m = true)
    (hc : m.command = some c) (hd : startsDigit (c.map asciiLower) = false)
    (h0 : (c.map asciiLower).contains (Char.ofNat 0) = false) :
    ircLine sock (decodeUtf8 (encodeUtf8 (body m)))
      = some ⟨c.map asciiLower, sock, parsePrefix (m.pfx.getD []), none, m.args⟩ := by
  rw [utf8_roundtrip, line_of_body sock m hwf]
  obtain ⟨pfx, command, args⟩ := m
  simp only at hc
  subst hc
  simp only [expectedResp, hd, h0, Bool.false_eq_true, if_false]

example : wellFormed pyIsSpace ⟨none, some "PiNG".toList, ["a b".toList]⟩ = true ∧
    startsDigit ("PiNG".toList.map asciiLower) = false ∧
    ("PiNG".toList.map asciiLower).contains (Char.ofNat 0) = false := by decide

/-- The commands for which a well-formed message yields *no* event are exactly the ones on
    which `IRC.line` raises: a digit-initial command that `int()` refuses, or NUL in the command
    (`response.create` cannot make the event type). -/
theorem component_roundtrip_excluded_witness :
    wellFormed pyIsSpace ⟨none, some "12a".toList, ["x".toList]⟩ = true ∧
    ircLine none (body ⟨none, some "12a".toList, ["x".toList]⟩) = none ∧
    wellFormed pyIsSpace ⟨none, some ['A', Char.ofNat 0], ["x".toList]⟩ = true ∧
    ircLine none (body ⟨none, some ['A', Char.ofNat 0], ["x".toList]⟩) = none := by decide

/-- `IRC.ping` (client mode): a PING with one argument `a` is answered with one line, and a
    component reading that line fires `pong` with the same single argument `a`. -/
theorem ping_pong_same_args (p3 : Prefix3) (a : Str) (hl : lastOk pyIsSpace a = true)
    (hb : a.any (fun c => c == '\n' || c == '\r') = false) :
    ∃ x : Str, pingWrite ⟨"ping".toList, none, p3, none, [a]⟩ = some (encodeUtf8 x ++ [CR, LF]) ∧
      LF ∉ encodeUtf8 x ∧
      ircLine none (decodeUtf8 (encodeUtf8 x)) = some ⟨"pong".toList, none, (none, none, none), none, [a]⟩ := by
  have hwf : wellFormed pyIsSpace (pongMsg a) = true := by
    simp only [wellFormed, pongMsg, List.dropLast_singleton, List.all_nil, List.getLast?_singleton, hl,
      Bool.and_true, Bool.true_and]
    decide
  have hchk : checkArgs Policy.current (pongMsg a) = true := by
    rw [checkArgs_current_iff]
    refine ⟨by simp [pongMsg], ?_, by simp [pongMsg], by simp [pongMsg, cmdStr, isBrk]⟩
    intro b hb' c hc
    simp only [pongMsg, List.mem_singleton] at hb'
    subst hb'
    have := List.any_eq_false.1 hb c hc
    simpa [isBrk] using this
  refine ⟨body (pongMsg a), ?_, LF_not_mem_body _ hchk, ?_⟩
  · simp [pingWrite, requestBytes, render, hchk, encodeUtf8_append, encodeUtf8_crlf]
  · rw [utf8_roundtrip, line_of_body none _ hwf]
    rfl

example : lastOk pyIsSpace "irc.example.org 12:00".toList = true ∧
    "irc.example.org 12:00".toList.any (fun c => c == '\n' || c == '\r') = false := by decide

/-- `ping` answers nothing in server mode or for another number of arguments; and the
    arguments excluded above really are not echoed faithfully (inherent to the wire format):
    an empty argument disappears, a leading colon is eaten, a CR is refused. -/
theorem ping_pong_excluded_witness :
    pingWrite ⟨"ping".toList, some 3, (none, none, none), none, ["a".toList]⟩ = none ∧
    pingWrite ⟨"ping".toList, none, (none, none, none), none, []⟩ = none ∧
    pingWrite ⟨"ping".toList, none, (none, none, none), none, ["a".toList, "b".toList]⟩ = none ∧
    (compLine none (encodeUtf8 "PONG ".toList)).1 = some ⟨"pong".toList, none, (none, none, none), none, []⟩ ∧
    pingWrite ⟨"ping".toList, none, (none, none, none), none, [":x".toList]⟩ = some (encodeUtf8 "PONG :x\r\n".toList) ∧
    (compLine none (encodeUtf8 "PONG :x".toList)).1 = some ⟨"pong".toList, none, (none, none, none), none, ["x".toList]⟩ ∧
    pingWrite ⟨"ping".toList, none, (none, none, none), none, ["a\rb".toList]⟩ = none := by decide

/-! ### `strip` -/

/-- Text without colour / format codes that does not start with a colon is left alone by
    `strip` — so `strip` cannot alter a well-formed argument.  (`dig` = the `\d` of `re`.) -/
theorem strip_plain_id (dig : Char → Bool) (color : Bool) (s : Str) (hp : plain s = true)
    (hc : s.head? ≠ some ':') : strip dig color s = s := by
  unfold strip
  simp only [dropColon_id s hc]
  cases color
  · simp
  · simp [stripFmt_plain_id dig s hp]

example : plain "hello, 12 world".toList = true ∧ "hello, 12 world".toList.head? ≠ some ':' := by decide

/-- Removing colours and formats is idempotent, and its result is plain. -/
theorem strip_fmt_idempotent (dig : Char → Bool) (s : Str) :
    plain (stripFmt dig s) = true ∧ stripFmt dig (stripFmt dig s) = stripFmt dig s :=
  ⟨stripFmt_plain dig s, stripFmt_plain_id dig _ (stripFmt_plain dig s)⟩

/-- `strip` as a whole is idempotent as soon as its result does not start with a colon
    (full statement `strip dig color (strip dig color s) = strip dig color s` fails:
    `strip_idempotent_witness`). -/
theorem strip_idempotent_partial (dig : Char → Bool) (color : Bool) (s : Str)
    (hc : (strip dig color s).head? ≠ some ':') :
    strip dig color (strip dig color s) = strip dig color s := by
  cases color
  · have : strip dig false s = dropColon s := by simp [strip]
    rw [this] at hc ⊢
    simp [strip, dropColon_id _ hc]
  · have e : strip dig true s = stripFmt dig (dropColon s) := by simp [strip]
    rw [e] at hc ⊢
    simp only [strip, dropColon_id _ hc, if_true]
    exact (strip_fmt_idempotent dig _).2

example : (strip pyIsDigit true ":\x0304,12red\x0f \x02bold".toList).head? ≠ some ':' := by decide

/-- each call removes one more leading colon; a format code can hide one from the first call -/
theorem strip_idempotent_witness :
    strip pyIsDigit false "::a".toList = ":a".toList ∧
    strip pyIsDigit false (strip pyIsDigit false "::a".toList) = "a".toList ∧
    strip pyIsDigit true ['\x02', ':', 'a'] = ":a".toList ∧
    strip pyIsDigit true (strip pyIsDigit true ['\x02', ':', 'a']) = "a".toList := by decide

/-! ### `Message.from_string` -/

/-- `from_string` on the serialised line gives the message back: prefix, command, arguments
    (an empty prefix cannot be told from none — `from_string_excluded_witness`). -/
theorem from_string_roundtrip (m : Msg) (hwf : wellFormed pyIsSpace m = true)
    (hchk : checkArgs Policy.current m = true) (hlen : (encodeUtf8 (body m)).length ≤ 512)
    (hp : m.pfx ≠ some []) :
    fromString (encodeUtf8 (body m)) = some m := by
  have h := roundtrip pyIsSpace (by decide) m hwf
  have hlf : '\n' ∉ m.pfx.getD [] := by
    intro hm
    have := ((checkArgs_current_iff m).1 hchk).2.2.1 _ hm
    simp [isBrk] at this
  unfold fromString
  rw [if_neg (by omega), utf8_roundtrip, h]
  simp only [expectedParse, rejoin_parsePrefix _ hlf]
  obtain ⟨pfx, command, args⟩ := m
  cases pfx with
  | none => simpa using hchk
  | some p =>
    have : p ≠ [] := fun e => hp (by simp [e])
    simpa [this] using hchk

example : wellFormed pyIsSpace ⟨some "n!u@h".toList, some "PRIVMSG".toList, ["#c".toList, "hi there".toList]⟩ = true ∧
    checkArgs Policy.current ⟨some "n!u@h".toList, some "PRIVMSG".toList, ["#c".toList, "hi there".toList]⟩ = true ∧
    (encodeUtf8 (body ⟨some "n!u@h".toList, some "PRIVMSG".toList, ["#c".toList, "hi there".toList]⟩)).length ≤ 512 ∧
    (some "n!u@h".toList : Option Str) ≠ some [] := by decide

/-- the defect repaired by the `fix:` commit (the parsed prefix tuple was passed on, its `str()`
    became the prefix) is not expressible here; what remains excluded is inherent: an empty
    prefix is read back as no prefix, and a line of more than 512 bytes is refused. -/
theorem from_string_excluded_witness :
    fromString (encodeUtf8 (body ⟨some [], some "X".toList, ["a".toList]⟩)) = some ⟨none, some "X".toList, ["a".toList]⟩ := by
  decide

/-- a line of more than 512 bytes is refused, whatever it contains -/
theorem from_string_too_long (b : Bytes) (h : b.length > 512) : fromString b = none := by
  simp [fromString, h]

example : (List.replicate 513 (65 : UInt8)).length > 512 := by rw [List.length_replicate]; omega

end CV.C18

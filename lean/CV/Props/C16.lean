import CV.Proofs.StaticPath
import CV.Proofs.Ranges
/-
C16 - Static files: only contents from inside the document root, exact byte ranges.

Every theorem is about the executable models `CV.StaticPath.serve` (= `Static._on_request`
after the fix "Static serves only locations inside its document root") and
`CV.Ranges.getRanges` / `serveRange` (= `get_ranges` / the range part of `serve_file` after the
fix "get_ranges validates the Range header and clamps"), for EVERY request path string, every
percent-decoder `unq`, every file system `fs`, every mount prefix, every Range header string,
every file - no bounds.  The spec predicates `specOk`, `inRoot`, `respOk` are the ones the driver
evaluates on the implementation's own behaviour.

Hypotheses, and why they are there:
  * `ProperRoot d`: the document root is absolute, does not end in '/', and its second character
    is not '/' (i.e. it is what `os.path.abspath` returns, other than "/" itself - for which the
    property is vacuous - and other than a "//host"-style root).
  * the default documents (`Static.defaults`) are clean path components; checked against the
    live class on every run (parameter obligation).
-/
namespace CV.C16
open CV.StaticPath CV.Ranges

/-- What the Bool-valued `inRoot` means: `loc` is the root, or the root followed by a relative
    path all of whose components are real names (non-empty, not `.`, not `..`, no `/`):
    a descendant of the root in the directory tree. -/
theorem inRoot_meaning (d loc : Str) (h : inRoot d loc = true) :
    loc = d ∨ ∃ tail, loc = d ++ '/' :: tail ∧
      ∀ s ∈ split '/' tail, s ≠ [] ∧ s ≠ ['.'] ∧ s ≠ ['.', '.'] ∧ '/' ∉ s := by
  simp only [inRoot, Bool.or_eq_true, Bool.and_eq_true, decide_eq_true_eq] at h
  rcases h with h | ⟨hsw, hall⟩
  · exact Or.inl h
  · right
    unfold startsWith at hsw
    rw [List.isPrefixOf_iff_prefix] at hsw
    obtain ⟨tail, ht⟩ := hsw
    have hdrop : loc.drop (d.length + 1) = tail := by
      rw [← ht, List.drop_left' (by simp)]
    refine ⟨tail, by rw [← ht]; simp, ?_⟩
    intro s hs
    rw [hdrop, List.all_eq_true] at hall
    exact (cleanSeg_iff s).1 (hall s hs)

/-- C16.contained: whatever the request path, the dispatcher serves (or lists) only tree nodes
    inside its document root. -/
theorem contained (unq : Str → Str) (fs : FS) (cfg : Cfg) (reqPath loc : Str)
    (hd : ProperRoot cfg.docroot) (hdef : ∀ c ∈ cfg.defaults, cleanSeg c = true)
    (h : serve unq fs cfg reqPath = .file loc ∨ serve unq fs cfg reqPath = .listing loc) :
    inRoot cfg.docroot loc = true := by
  have hs := serve_specOk unq fs cfg reqPath hd hdef
  rcases h with h | h <;> (rw [h] at hs; simp only [specOk, Bool.and_eq_true] at hs; exact hs.1)

/-- C16.content_exact: every answer satisfies the spec: pass / 404, or a node inside the root that
    is the node denoted by the (decoded, prefix-stripped) request path resolved segment by
    segment from the document root - directly or through a default document. -/
theorem content_exact (unq : Str → Str) (fs : FS) (cfg : Cfg) (reqPath : Str)
    (hd : ProperRoot cfg.docroot) (hdef : ∀ c ∈ cfg.defaults, cleanSeg c = true) :
    specOk unq cfg reqPath (serve unq fs cfg reqPath) = true :=
  serve_specOk unq fs cfg reqPath hd hdef

/-- The containment test of the code before the fix let the parent directory through
    (kept so that the reason for the fix stays machine-checked). -/
theorem legacy_parent_reachable_witness :
    allowedLegacy ['/', 'b', '/', 'r'] ['/', 'b', '/', 's'] = true ∧
    inRoot ['/', 'b', '/', 'r'] ['/', 'b', '/', 's'] = false := by decide

/-- ... and a sibling whose name extends the root's name passes a bare prefix test. -/
theorem legacy_sibling_reachable_witness :
    startsWith ['/', 'b', '/', 'r', '-', 'x', '/', 'e'] ['/', 'b', '/', 'r'] = true ∧
    inRoot ['/', 'b', '/', 'r'] ['/', 'b', '/', 'r', '-', 'x', '/', 'e'] = false ∧
    allowed ['/', 'b', '/', 'r'] ['/', 'b', '/', 'r', '-', 'x', '/', 'e'] = false := by decide

/-- C16.ranges_sound: every interval `get_ranges` returns is non-empty and inside the file. -/
theorem ranges_sound (md : Nat) (hv : Option Str) (len : Nat) (rs : List (Nat × Nat))
    (h : getRanges md hv len = .ranges rs) : ∀ r ∈ rs, r.1 < r.2 ∧ r.2 ≤ len := by
  rw [getRanges_eq] at h
  cases hh : parseHeader md hv with
  | none => simp [hh] at h
  | some specs =>
    simp only [hh] at h
    unfold finish at h
    split at h
    · simp at h
    · simp only [RR.ranges.injEq] at h
      subst h
      intro r hr
      have := (addAll_mem (specs.filterMap (satisfy len)) [] r).1 hr
      simp only [List.not_mem_nil, false_or] at this
      exact sat_bounds len specs r this

/-- C16.range_response_exact: the answer to ANY Range header on ANY file satisfies the spec
    `respOk`: whole file for an absent / invalid header, wrong unit or HTTP/1.0; 416 (with
    `*/len` if labelled) when nothing is satisfiable; otherwise 206 whose parts are exactly the
    requested satisfiable intervals, in bounds, with the right bytes, Content-Range and
    Content-Length - or 416 for a request with several distinct intervals.  The model has no
    error outcome: totality of `serveRange` is "never an internal error". -/
theorem range_response_exact (md : Nat) (http11 : Bool) (hv : Option Str) (file : Bytes) :
    respOk md http11 hv file (serveRange md http11 hv file) = true :=
  serveRange_ok md http11 hv file

/-- A single-range answer announces exactly the number of bytes it carries. -/
theorem range_body_length (md : Nat) (http11 : Bool) (hv : Option Str) (file : Bytes)
    (clen : Nat) (p : Part) (h : serveRange md http11 hv file = .single clen p) :
    clen = p.body.length ∧ p.body.length = p.last + 1 - p.first ∧ p.last < file.length := by
  have hok := serveRange_ok md http11 hv file
  rw [h] at hok
  unfold respOk at hok
  cases http11 with
  | false => simp at hok
  | true =>
    simp only [not_true_eq_false, if_false] at hok
    cases hh : parseHeader md hv with
    | none => simp [hh] at hok
    | some specs =>
      simp only [hh, Bool.and_eq_true, decide_eq_true_eq, partOk] at hok
      obtain ⟨⟨⟨⟨⟨⟨h1, h2⟩, _⟩, _⟩, hbody⟩, hclen⟩, _⟩ := hok
      have hl : p.body.length = p.last + 1 - p.first := by
        rw [hbody]; simp [slice]; omega
      exact ⟨by omega, hl, h2⟩

/-- C16 as one statement: whatever the path and the Range header, what the dispatcher serves is
    a file inside the root, the one the path denotes, and exactly the requested bytes of it. -/
theorem static_answer (unq : Str → Str) (fs : FS) (content : Str → Bytes) (md : Nat) (cfg : Cfg)
    (http11 : Bool) (hv : Option Str) (reqPath loc : Str) (r : Resp)
    (hd : ProperRoot cfg.docroot) (hdef : ∀ c ∈ cfg.defaults, cleanSeg c = true)
    (h : respond unq fs content md cfg http11 hv reqPath = .served loc r) :
    inRoot cfg.docroot loc = true ∧ specOk unq cfg reqPath (.file loc) = true ∧
      respOk md http11 hv (content loc) r = true := by
  unfold respond at h
  have hs := serve_specOk unq fs cfg reqPath hd hdef
  cases hsv : serve unq fs cfg reqPath with
  | pass => simp [hsv] at h
  | notfound => simp [hsv] at h
  | listing l => simp [hsv] at h
  | file l =>
    simp only [hsv, Answer.served.injEq] at h
    obtain ⟨rfl, rfl⟩ := h
    rw [hsv] at hs
    refine ⟨?_, hs, serveRange_ok md http11 hv (content l)⟩
    simp only [specOk, Bool.and_eq_true] at hs
    exact hs.1

/-! ### non-vacuity -/

def exRoot : Str := ['/', 'b', '/', 'r']
def exFs : FS := fun p =>
  if p = ['/', 'b', '/', 'r'] then some .dir
  else if p = ['/', 'b', '/', 'r', '/', 'a'] then some .file
  else if p = ['/', 'b', '/', 's'] then some .file
  else none
def exCfg : Cfg := ⟨exRoot, none, [['i']], true⟩

example : ProperRoot exRoot := ⟨'b', ['/', 'r'], rfl, by decide, by decide⟩
example : ∀ c ∈ exCfg.defaults, cleanSeg c = true := by decide
-- a hostile spelling that stays inside is served, one that leaves is refused, the root is listed
example : serve unquote exFs exCfg ['/', 'x', '/', '%', '2', 'e', '%', '2', 'E', '/', 'a'] = .file ['/', 'b', '/', 'r', '/', 'a'] := by decide
example : serve unquote exFs exCfg ['/', '.', '.', '/', 's'] = .pass := by decide
example : serve unquote exFs exCfg ['/'] = .listing exRoot := by decide
example : getRanges 4300 (some ['b', 'y', 't', 'e', 's', '=', '0', '-', '9', ',', '-', '5']) 7 = .ranges [(0, 7), (2, 7)] := by decide
example : getRanges 4300 (some ['b', 'y', 't', 'e', 's', '=', '0', '-', '9', ',', '-', '2']) 7 = .unsat := by decide
example : serveRange 4300 true (some ['b', 'y', 't', 'e', 's', '=', '2', '-', '3']) [10, 11, 12, 13, 14] =
    .single 2 ⟨2, 3, 5, [12, 13]⟩ := by decide
example : serveRange 4300 true (some ['b', 'y', 't', 'e', 's', '=', '9', '-']) [10, 11] = .e416 (some 2) := by decide
example : serveRange 4300 true (some ['b', 'y', 't', 'e', 's', '=', 'a', '-', 'b']) [10, 11] = .full 2 [10, 11] := by decide

end CV.C16

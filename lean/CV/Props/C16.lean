import CV.Proofs.StaticPath
import CV.Proofs.Ranges
import CV.Proofs.RangesMultipart
import CV.Proofs.StaticListing
/-
C16 - Static files: only contents from inside the document root, exact byte ranges.

Every theorem is about the executable models `CV.StaticPath.serve` (= `Static._on_request`
after the fix "Static serves only locations inside its document root") and
`CV.Ranges.getRanges` / `serveRange` (= `get_ranges` / the range part of `serve_file` after the
fix "get_ranges validates the Range header and clamps"), for EVERY request path string, every
percent-decoder `unq`, every file system `fs`, every mount prefix, every Range header string,
every file - no bounds.  The spec predicates `specOk`, `inRoot`, `respOk` are the ones the driver
evaluates on the implementation's own behaviour.

Hypotheses, and why they are there:
  * `ProperRoot d`: the document root is absolute, does not end in '/', and its second character
    is not '/' (i.e. it is what `os.path.abspath` returns, other than "/" itself - for which the
    property is vacuous - and other than a "//host"-style root).
  * the default documents (`Static.defaults`) are clean path components; checked against the
    live class on every run (parameter obligation).
-/
namespace CV.C16
open CV.StaticPath CV.Ranges

/-- What the Bool-valued `inRoot` means: `loc` is the root, or the root followed by a relative
    path all of whose components are real names (non-empty, not `.`, not `..`, no `/`):
    a descendant of the root in the directory tree. -/
theorem inRoot_meaning (d loc : Str) (h : inRoot d loc = true) :
    loc = d ∨ ∃ tail, loc = d ++ '/' :: tail ∧
      ∀ s ∈ split '/' tail, s ≠ [] ∧ s ≠ ['.'] ∧ s ≠ ['.', '.'] ∧ '/' ∉ s := by
  simp only [inRoot, Bool.or_eq_true, Bool.and_eq_true, decide_eq_true_eq] at h
  rcases h with h | ⟨hsw, hall⟩
  · exact Or.inl h
  · right
    unfold startsWith at hsw
    rw [List.isPrefixOf_iff_prefix] at hsw
    obtain ⟨tail, ht⟩ := hsw
    have hdrop : loc.drop (d.length + 1) = tail := by
      rw [← ht, List.drop_left' (by simp)]
    refine ⟨tail, by rw [← ht]; simp, ?_⟩
    intro s hs
    rw [hdrop, List.all_eq_true] at hall
    exact (cleanSeg_iff s).1 (hall s hs)

/-- C16.contained: whatever the request path, the dispatcher serves (or lists) only tree nodes
    inside its document root. -/
theorem contained (unq : Str → Str) (fs : FS) (cfg : Cfg) (reqPath loc : Str)
    (hd : ProperRoot cfg.docroot) (hdef : ∀ c ∈ cfg.defaults, cleanSeg c = true)
    (h : serve unq fs cfg reqPath = .file loc ∨ serve unq fs cfg reqPath = .listing loc) :
    inRoot cfg.docroot loc = true := by
  have hs := serve_specOk unq fs cfg reqPath hd hdef
  rcases h with h | h <;> (rw [h] at hs; simp only [specOk, Bool.and_eq_true] at hs; exact hs.1)

/-- C16.content_exact: every answer satisfies the spec: pass / 404, or a node inside the root that
    is the node denoted by the (decoded, prefix-stripped) request path resolved segment by
    segment from the document root - directly or through a default document. -/
theorem content_exact (unq : Str → Str) (fs : FS) (cfg : Cfg) (reqPath : Str)
    (hd : ProperRoot cfg.docroot) (hdef : ∀ c ∈ cfg.defaults, cleanSeg c = true) :
    specOk unq cfg reqPath (serve unq fs cfg reqPath) = true :=
  serve_specOk unq fs cfg reqPath hd hdef

/-- The containment test of the code before the fix let the parent directory through
    (kept so that the reason for the fix stays machine-checked). -/
theorem legacy_parent_reachable_witness :
    allowedLegacy ['/', 'b', '/', 'r'] ['/', 'b', '/', 's'] = true ∧
    inRoot ['/', 'b', '/', 'r'] ['/', 'b', '/', 's'] = false := by decide

/-- ... and a sibling whose name extends the root's name passes a bare prefix test. -/
theorem legacy_sibling_reachable_witness :
    startsWith ['/', 'b', '/', 'r', '-', 'x', '/', 'e'] ['/', 'b', '/', 'r'] = true ∧
    inRoot ['/', 'b', '/', 'r'] ['/', 'b', '/', 'r', '-', 'x', '/', 'e'] = false ∧
    allowed ['/', 'b', '/', 'r'] ['/', 'b', '/', 'r', '-', 'x', '/', 'e'] = false := by decide

/-- C16.ranges_sound: every interval `get_ranges` returns is non-empty and inside the file. -/
theorem ranges_sound (md : Nat) (hv : Option Str) (len : Nat) (rs : List (Nat × Nat))
    (h : getRanges md hv len = .ranges rs) : ∀ r ∈ rs, r.1 < r.2 ∧ r.2 ≤ len := by
  rw [getRanges_eq] at h
  cases hh : parseHeader md hv with
  | none => simp [hh] at h
  | some specs =>
    simp only [hh] at h
    unfold finish at h
    split at h
    · simp at h
    · simp only [RR.ranges.injEq] at h
      subst h
      intro r hr
      have := (addAll_mem (specs.filterMap (satisfy len)) [] r).1 hr
      simp only [List.not_mem_nil, false_or] at this
      exact sat_bounds len specs r this

/-- C16.range_response_exact: the answer to ANY Range header on ANY file satisfies the spec
    `respOk`: whole file for an absent / invalid header, wrong unit or HTTP/1.0; 416 (with
    `*/len` if labelled) when nothing is satisfiable; otherwise 206 whose parts are exactly the
    requested satisfiable intervals, in bounds, with the right bytes, Content-Range and
    Content-Length - or 416 for a request with several distinct intervals.  The model has no
    error outcome: totality of `serveRange` is "never an internal error". -/
theorem range_response_exact (md : Nat) (http11 : Bool) (hv : Option Str) (file : Bytes) :
    respOk md http11 hv file (serveRange md http11 hv file) = true :=
  serveRange_ok md http11 hv file

/-- A single-range answer announces exactly the number of bytes it carries. -/
theorem range_body_length (md : Nat) (http11 : Bool) (hv : Option Str) (file : Bytes)
    (clen : Nat) (p : Part) (h : serveRange md http11 hv file = .single clen p) :
    clen = p.body.length ∧ p.body.length = p.last + 1 - p.first ∧ p.last < file.length := by
  have hok := serveRange_ok md http11 hv file
  rw [h] at hok
  unfold respOk at hok
  cases http11 with
  | false => simp at hok
  | true =>
    simp only [not_true_eq_false, if_false] at hok
    cases hh : parseHeader md hv with
    | none => simp [hh] at hok
    | some specs =>
      simp only [hh, Bool.and_eq_true, decide_eq_true_eq, partOk] at hok
      obtain ⟨⟨⟨⟨⟨⟨h1, h2⟩, _⟩, _⟩, hbody⟩, hclen⟩, _⟩ := hok
      have hl : p.body.length = p.last + 1 - p.first := by
        rw [hbody]; simp [slice]; omega
      exact ⟨by omega, hl, h2⟩

/-- C16 as one statement: whatever the path and the Range header, what the dispatcher serves is
    a file inside the root, the one the path denotes, and exactly the requested bytes of it. -/
theorem static_answer (unq : Str → Str) (fs : FS) (content : Str → Bytes) (md : Nat) (cfg : Cfg)
    (http11 : Bool) (hv : Option Str) (reqPath loc : Str) (r : Resp)
    (hd : ProperRoot cfg.docroot) (hdef : ∀ c ∈ cfg.defaults, cleanSeg c = true)
    (h : respond unq fs content md cfg http11 hv reqPath = .served loc r) :
    inRoot cfg.docroot loc = true ∧ specOk unq cfg reqPath (.file loc) = true ∧
      respOk md http11 hv (content loc) r = true := by
  unfold respond at h
  have hs := serve_specOk unq fs cfg reqPath hd hdef
  cases hsv : serve unq fs cfg reqPath with
  | pass => simp [hsv] at h
  | notfound => simp [hsv] at h
  | listing l => simp [hsv] at h
  | file l =>
    simp only [hsv, Answer.served.injEq] at h
    obtain ⟨rfl, rfl⟩ := h
    rw [hsv] at hs
    refine ⟨?_, hs, serveRange_ok md http11 hv (content l)⟩
    simp only [specOk, Bool.and_eq_true] at hs
    exact hs.1

/-! ### multipart/byteranges on the wire, conditional requests -/

section Multipart
open CV.Multipart

/-- C16.multipart_roundtrip: an RFC 2046 / 7233 reader (`Multipart.readByteranges`: split at
    CRLF "--" boundary, stop at the close-delimiter, header fields up to the empty line, parse
    `Content-Range: bytes a-b/n`) applied to the byte stream `serve_file`'s generator produces
    (`multipartBody`: boundary lines, part headers, seek + read per part, closing delimiter) yields
    exactly one part per range, in request order, each labelled `bytes start-(stop-1)/len(file)`,
    with the media type of the file and with the bytes `file[start:stop]` as payload - for EVERY
    file, list of ranges (overlapping, out of order, duplicated, beyond EOF: `read` stops there),
    media type and boundary, provided
      * `hfree`: "--" boundary does not occur in a payload.  The code does NOT check this: the
        boundary is `email.generator._make_boundary()` = 15 "=", 19 random decimal digits, "==",
        drawn without looking at the file (see `multipart_collision_witness`);
      * `hb`, `hct`: no CR in the boundary (true for every boundary of that shape, see
        `code_boundary_no_cr`) nor in the media type (a header value). -/
theorem multipart_roundtrip (file ctype bnd : Bytes) (rs : List (Nat × Nat))
    (hb : (13 : UInt8) ∉ bnd) (hct : (13 : UInt8) ∉ ctype)
    (hfree : ∀ r ∈ rs, ¬ dashBoundary bnd <:+: readAt file r.1 r.2) :
    readByteranges bnd (multipartBody file ctype bnd rs) =
      some (rs.map (fun r => (some (ctype.dropWhile isLWSP), partOf file r))) :=
  readByteranges_body file ctype bnd rs hb hct hfree

/-- The hypothesis `hfree` is needed, and the bare "CRLF--boundary does not occur in the payload"
    would not be enough: a payload that merely STARTS with "--boundary" is cut off, because the
    CRLF that ends the part's header block completes a delimiter. (boundary "B", file "--B\x01",
    ranges 0-2 and 1-3: the body cannot be read back.) -/
theorem multipart_collision_witness :
    readByteranges [66] (multipartBody [45, 45, 66, 1] [116] [66] [(0, 3), (1, 4)]) ≠
      some ([(0, 3), (1, 4)].map (fun r => (some [116], partOf [45, 45, 66, 1] r))) ∧
    ¬ delimiter [66] <:+: readAt [45, 45, 66, 1] 0 3 ∧ dashBoundary [66] <:+: readAt [45, 45, 66, 1] 0 3 := by
  decide +kernel

/-- every boundary of the shape `_make_boundary` produces ("=" and decimal digits) is free of CR -/
theorem code_boundary_no_cr (bnd : Bytes) (h : ∀ c ∈ bnd, c = 61 ∨ isDigitB c = true) : (13 : UInt8) ∉ bnd := by
  intro hc
  rcases h 13 hc with h | h
  · exact absurd h (by decide)
  · exact absurd h (by decide)

/-- C16.multipart_length: the multipart answer announces NO Content-Length (the code deletes the
    header; the body is delimited by chunked coding or by closing - C15's subject), status 206, the
    boundary in the Content-Type, no top-level Content-Range; and the body the generator produces
    has exactly this many bytes (what a length would have to be). -/
theorem multipart_length (md : Nat) (http11 : Bool) (hv : Option Str) (file ctype bnd : Bytes) (w : MultiResp)
    (h : serveMultipart md http11 hv file ctype bnd = some w) :
    w.contentLength = none ∧ w.contentRange = none ∧ w.status = 206 ∧ w.contentType = sMultipartCT ++ bnd ∧
    ∃ rs, getRanges md hv file.length = .ranges rs ∧ 2 ≤ rs.length ∧
      w.body.length = 8 + bnd.length +
        (rs.map (fun r => 49 + bnd.length + ctype.length + (natDec r.1).length + (natDec (r.2 - 1)).length +
          (natDec file.length).length + (r.2 - r.1))).sum := by
  unfold serveMultipart at h
  split at h
  · simp at h
  · split at h
    · rename_i r1 r2 rest hg
      simp only [Option.some.injEq] at h
      subst h
      refine ⟨rfl, rfl, rfl, rfl, r1 :: r2 :: rest, hg, by simp, ?_⟩
      have hs := ranges_sound md hv file.length _ hg
      show (multipartBody file ctype bnd (r1 :: r2 :: rest)).length = _
      rw [multipartBody_length]
      congr 1
      apply congrArg
      apply List.map_congr_left
      intro r hr
      have := hs r hr
      simp only [readAt, List.length_take, List.length_drop]
      omega
    · simp at h

/-- C16.multipart_response_exact: whenever `serve_file` answers a Range request with a multipart
    body, a client that reads that body with the boundary of the Content-Type header obtains parts
    which satisfy the spec `respOk` of the property: exactly the requested satisfiable intervals,
    each inside the file, labelled with its own position and the file's length, carrying exactly
    those bytes; they are the parts of `serveRange`'s abstract answer, in the same order. -/
theorem multipart_response_exact (md : Nat) (http11 : Bool) (hv : Option Str) (file ctype bnd : Bytes)
    (w : MultiResp) (hb : (13 : UInt8) ∉ bnd) (hct : (13 : UInt8) ∉ ctype)
    (hfree : ¬ dashBoundary bnd <:+: file)
    (h : serveMultipart md http11 hv file ctype bnd = some w) :
    ∃ ps, readByteranges bnd w.body = some ps ∧
      serveRange md http11 hv file = .multi (ps.map (·.2)) ∧
      respOk md http11 hv file (.multi (ps.map (·.2))) = true ∧
      ∀ p ∈ ps, p.1 = some (ctype.dropWhile isLWSP) ∧ p.2.first ≤ p.2.last ∧ p.2.last < file.length ∧
        p.2.total = file.length ∧ p.2.body = slice file p.2.first (p.2.last + 1) := by
  unfold serveMultipart at h
  split at h
  · simp at h
  · rename_i h11
    split at h
    · rename_i r1 r2 rest hg
      simp only [Option.some.injEq] at h
      subst h
      have hrt := multipart_roundtrip file ctype bnd (r1 :: r2 :: rest) hb hct
        (fun r _ hin => hfree (List.IsInfix.trans hin
          ((List.take_prefix _ _).isInfix.trans (List.drop_suffix _ _).isInfix)))
      have hsr : serveRange md http11 hv file = .multi ((r1 :: r2 :: rest).map (partOf file)) := by
        unfold serveRange
        simp only [h11, if_false, hg]
      have hmap : ((r1 :: r2 :: rest).map (fun r => (some (ctype.dropWhile isLWSP), partOf file r))).map (·.2) =
          (r1 :: r2 :: rest).map (partOf file) := by
        rw [List.map_map]; rfl
      refine ⟨_, hrt, by rw [hmap, hsr], by rw [hmap, ← hsr]; exact serveRange_ok md http11 hv file, ?_⟩
      intro p hp
      rw [List.mem_map] at hp
      obtain ⟨r, hr, rfl⟩ := hp
      have hs := ranges_sound md hv file.length _ hg r hr
      refine ⟨rfl, ?_, ?_, rfl, ?_⟩
      · show r.1 ≤ r.2 - 1; omega
      · show r.2 - 1 < file.length; omega
      · show readAt file r.1 r.2 = slice file r.1 (r.2 - 1 + 1)
        have : r.2 - 1 + 1 = r.2 := by omega
        rw [this]
        simp only [readAt, slice]
        rw [List.drop_take]
    · simp at h

/-- C16.conditional_decision: the decision table of `serve_file` for a request that carries
    validators and (possibly) a Range header.  `Last-Modified` is always set (non-empty) before:
      If-Unmodified-Since present and different from Last-Modified      -> 412, whatever the Range
      else If-Modified-Since equal to Last-Modified                     -> 304 (GET/HEAD) / 412 (other methods)
      else                                                              -> the Range answer (200 / 206 / 416)
    Comparison is string equality with the formatted date; `If-Range` and entity tags are not
    looked at. -/
theorem conditional_decision (md : Nat) (http11 getOrHead : Bool) (lastmod : Str)
    (ius ims hv : Option Str) (file : Bytes) (hl : lastmod ≠ []) :
    serveCond md http11 getOrHead lastmod ius ims hv file =
      if present ius = true ∧ ius ≠ some lastmod then .s412
      else if ims = some lastmod then (if getOrHead = true then .s304 else .s412)
      else .ranged (serveRange md http11 hv file) := by
  have hpl : present (some lastmod) = true := by simp [present, hl]
  unfold serveCond validateSince
  by_cases h1 : present ius = true ∧ ius ≠ some lastmod
  · simp [hpl, h1.1, h1.2]
  · by_cases h2 : ims = some lastmod
    · have h1' : ¬ (present ius = true ∧ ¬ ius = some lastmod) := h1
      cases getOrHead <;> simp [hpl, h1', h2]
    · have h1' : ¬ (present ius = true ∧ ¬ ius = some lastmod) := h1
      simp [hpl, h1', h2]

/-- C16.conditional_range_exact: a conditional request is answered 304 / 412 - no bytes of the
    file at all - or with a Range answer that satisfies the spec of the property; and the Range
    header has no influence on whether the validators end the request. -/
theorem conditional_range_exact (md : Nat) (http11 getOrHead : Bool) (lastmod : Str)
    (ius ims hv : Option Str) (file : Bytes) :
    (∀ r, serveCond md http11 getOrHead lastmod ius ims hv file = .ranged r →
        respOk md http11 hv file r = true) ∧
    (∀ hv', (serveCond md http11 getOrHead lastmod ius ims hv file = .s304 ↔
              serveCond md http11 getOrHead lastmod ius ims hv' file = .s304) ∧
            (serveCond md http11 getOrHead lastmod ius ims hv file = .s412 ↔
              serveCond md http11 getOrHead lastmod ius ims hv' file = .s412)) := by
  constructor
  · intro r h
    unfold serveCond at h
    split at h <;> simp at h
    subst h
    exact serveRange_ok md http11 hv file
  · intro hv'
    unfold serveCond
    constructor <;> split <;> simp

end Multipart

/-! ### non-vacuity -/

def exRoot : Str := ['/', 'b', '/', 'r']
def exFs : FS := fun p =>
  if p = ['/', 'b', '/', 'r'] then some .dir
  else if p = ['/', 'b', '/', 'r', '/', 'a'] then some .file
  else if p = ['/', 'b', '/', 's'] then some .file
  else none
def exCfg : Cfg := ⟨exRoot, none, [['i']], true⟩

example : ProperRoot exRoot := ⟨'b', ['/', 'r'], rfl, by decide, by decide⟩
example : ∀ c ∈ exCfg.defaults, cleanSeg c = true := by decide
-- a hostile spelling that stays inside is served, one that leaves is refused, the root is listed
example : serve unquote exFs exCfg ['/', 'x', '/', '%', '2', 'e', '%', '2', 'E', '/', 'a'] = .file ['/', 'b', '/', 'r', '/', 'a'] := by decide
example : serve unquote exFs exCfg ['/', '.', '.', '/', 's'] = .pass := by decide
example : serve unquote exFs exCfg ['/'] = .listing exRoot := by decide
example : getRanges 4300 (some ['b', 'y', 't', 'e', 's', '=', '0', '-', '9', ',', '-', '5']) 7 = .ranges [(0, 7), (2, 7)] := by decide
example : getRanges 4300 (some ['b', 'y', 't', 'e', 's', '=', '0', '-', '9', ',', '-', '2']) 7 = .unsat := by decide
example : serveRange 4300 true (some ['b', 'y', 't', 'e', 's', '=', '2', '-', '3']) [10, 11, 12, 13, 14] =
    .single 2 ⟨2, 3, 5, [12, 13]⟩ := by decide
example : serveRange 4300 true (some ['b', 'y', 't', 'e', 's', '=', '9', '-']) [10, 11] = .e416 (some 2) := by decide
example : serveRange 4300 true (some ['b', 'y', 't', 'e', 's', '=', 'a', '-', 'b']) [10, 11] = .full 2 [10, 11] := by decide

-- multipart: a boundary of the code's shape, two overlapping out-of-order ranges; the hypotheses hold
def exBnd : Bytes := [61, 61, 49, 50, 61, 61]
def exFile : Bytes := [10, 11, 12, 13, 14, 15, 16]
example : (13 : UInt8) ∉ exBnd ∧ (13 : UInt8) ∉ ([116, 47, 112] : Bytes) ∧
    (∀ r ∈ [(3, 6), (1, 4)], ¬ dashBoundary exBnd <:+: readAt exFile r.1 r.2) ∧
    ¬ dashBoundary exBnd <:+: exFile ∧ (∀ c ∈ exBnd, c = 61 ∨ Multipart.isDigitB c = true) := by decide +kernel
example : Multipart.readByteranges exBnd (multipartBody exFile [116, 47, 112] exBnd [(3, 6), (1, 4)]) =
    some [(some [116, 47, 112], ⟨3, 5, 7, [13, 14, 15]⟩), (some [116, 47, 112], ⟨1, 3, 7, [11, 12, 13]⟩)] := by
  decide +kernel
example : (serveMultipart 4300 true (some ['b', 'y', 't', 'e', 's', '=', '3', '-', '5', ',', '1', '-', '3'])
    exFile [116, 47, 112] exBnd).map (fun w => (w.status, w.contentLength, w.body.length)) = some (206, none, 142) := by
  decide +kernel
-- conditional requests: each row of the table occurs
def exLm : Str := ['M', 'o', 'n']
example : exLm ≠ [] := by decide
example : serveCond 4300 true true exLm (some ['T', 'u', 'e']) none (some ['b', 'y', 't', 'e', 's', '=', '0', '-', '0']) exFile = .s412 := by decide
example : serveCond 4300 true true exLm (some exLm) (some exLm) (some ['b', 'y', 't', 'e', 's', '=', '0', '-', '0']) exFile = .s304 := by decide
example : serveCond 4300 true false exLm none (some exLm) none exFile = .s412 := by decide
example : serveCond 4300 true true exLm (some exLm) (some ['T', 'u', 'e']) (some ['b', 'y', 't', 'e', 's', '=', '1', '-', '2']) exFile =
    .ranged (.single 2 ⟨1, 2, 7, [11, 12]⟩) := by decide

end CV.C16

/-! ## Directory listings (extension V7): which names a listing shows and where its links lead

Model: `CV.StaticListing` (the `dirlisting` branch of `Static._on_request` after the fix
"percent-encode the parent link of a directory listing").  `ls : Str → List Str` answers
`os.listdir`; `LsOk fs dir (ls dir)` says that it reports the children of `dir` in `fs`, each once. -/
namespace CV.C16
open CV.StaticPath CV.StaticListing

/-- C16.listing_exact: when the dispatcher answers with a listing, it is the listing of the
    directory the request path denotes, that directory lies inside the root, and the names shown
    are exactly its children that are not hidden (no leading dot) - each once, in `os.listdir`'s
    order, every one of them a node inside the root; nothing else is shown. -/
theorem listing_exact (unq : Str → Str) (fs : FS) (ls : Str → List Str) (cfg : Cfg) (reqPath : Str) (l : Listing)
    (hd : ProperRoot cfg.docroot) (hdef : ∀ c ∈ cfg.defaults, cleanSeg c = true)
    (h : serveListing unq fs ls cfg reqPath = some l) (hls : LsOk fs l.loc (ls l.loc)) :
    serve unq fs cfg reqPath = .listing l.loc ∧
    specOk unq cfg reqPath (.listing l.loc) = true ∧
    l.items.map (·.name) = (ls l.loc).filter (fun n => !hidden n) ∧
    (l.items.map (·.name)).Nodup ∧
    (∀ n, n ∈ l.items.map (·.name) ↔
      (cleanSeg n = true ∧ (fs (l.loc ++ '/' :: n)).isSome = true ∧ hidden n = false)) ∧
    (∀ n ∈ l.items.map (·.name), inRoot cfg.docroot (l.loc ++ '/' :: n) = true) := by
  obtain ⟨rel, _, _, hserve, _, hitems⟩ := serveListing_some unq fs ls cfg reqPath l h
  have hspec := content_exact unq fs cfg reqPath hd hdef
  rw [hserve] at hspec
  have hin : inRoot cfg.docroot l.loc = true := contained unq fs cfg reqPath l.loc hd hdef (Or.inr hserve)
  have hnames : l.items.map (·.name) = (ls l.loc).filter (fun n => !hidden n) := by
    rw [hitems]; exact entries_names fs cfg rel (ls l.loc)
  have hmem : ∀ n, n ∈ l.items.map (·.name) ↔
      (cleanSeg n = true ∧ (fs (l.loc ++ '/' :: n)).isSome = true ∧ hidden n = false) := by
    intro n
    rw [hnames, List.mem_filter, hls.2 n]
    constructor
    · rintro ⟨⟨a, b⟩, c⟩; exact ⟨a, b, by simpa using c⟩
    · rintro ⟨a, b, c⟩; exact ⟨⟨a, b⟩, by simp [c]⟩
  refine ⟨hserve, hspec, hnames, ?_, hmem, ?_⟩
  · rw [hnames]; exact hls.1.filter _
  · intro n hn
    exact inRoot_extend cfg.docroot l.loc n hin ((hmem n).1 hn).1

/-- C16.listing_links_inside_root (containment half, full strength): whatever the request path and
    whatever the names in the directory, following ANY href of the listing page (an entry's or
    the parent link) through the dispatcher - prefix test, strip, percent-decoding, normalisation,
    containment test - is answered by pass / not-found or by a node inside the root that is the
    node the href denotes; never by anything outside the root. -/
theorem listing_links_inside_root (unq : Str → Str) (fs : FS) (ls : Str → List Str) (cfg : Cfg) (reqPath : Str)
    (l : Listing) (hd : ProperRoot cfg.docroot) (hdef : ∀ c ∈ cfg.defaults, cleanSeg c = true)
    (_h : serveListing unq fs ls cfg reqPath = some l) (href : Str) (_hh : href ∈ l.hrefs) :
    specOk unq cfg href (serve unq fs cfg href) = true ∧
    ∀ loc', (serve unq fs cfg href = .file loc' ∨ serve unq fs cfg href = .listing loc') →
      inRoot cfg.docroot loc' = true :=
  ⟨content_exact unq fs cfg href hd hdef, fun loc' h' => contained unq fs cfg href loc' hd hdef h'⟩

/-- C16.parent_link_inside_root_or_absent: a listing requested at the root of the mount (the part
    of the request path behind the prefix is empty after stripping the slashes and decoding) has
    no parent link; any other listing's parent link, followed through the dispatcher, is answered
    from inside the root or not at all. -/
theorem parent_link_inside_root_or_absent (unq : Str → Str) (fs : FS) (ls : Str → List Str) (cfg : Cfg)
    (reqPath : Str) (l : Listing) (hd : ProperRoot cfg.docroot) (hdef : ∀ c ∈ cfg.defaults, cleanSeg c = true)
    (h : serveListing unq fs ls cfg reqPath = some l) :
    (relOf unq cfg reqPath = some [] → l.up = none) ∧
    ∀ up, l.up = some up → ∀ loc', (serve unq fs cfg up = .file loc' ∨ serve unq fs cfg up = .listing loc') →
      inRoot cfg.docroot loc' = true := by
  obtain ⟨rel, hrel, _, _, hup, _⟩ := serveListing_some unq fs ls cfg reqPath l h
  refine ⟨?_, fun up _ loc' h' => contained unq fs cfg up loc' hd hdef h'⟩
  intro h0
  rw [hrel] at h0
  cases h0
  rw [hup]; simp [parentLink]

/-! ### does a link lead back to its entry?  (decided instances; the general statement is validated
    by the correspondence check on hostile names, see `harness/c16_listing.py`) -/

def exLRoot : Str := "/b/r".toList
def exLFs : FS := fun p =>
  if p = "/b/r".toList ∨ p = "/b/r/p%41".toList ∨ p = "/b/r/p%41/s".toList ∨ p = "/b/r/pA".toList then some .dir
  else if p = "/b/r/p%41/s/f".toList ∨ p = "/b/r/é\"# ?".toList ∨ p = "/b/r/.h".toList ∨ p = "/b/t".toList then some .file
  else none
def exLs : Str → List Str := fun p =>
  if p = "/b/r".toList then [".h".toList, "p%41".toList, "é\"# ?".toList, "pA".toList]
  else if p = "/b/r/p%41".toList then ["s".toList]
  else if p = "/b/r/p%41/s".toList then ["f".toList]
  else []
def exLCfg (pfx : Option Str) : Cfg := ⟨exLRoot, pfx, ["index.html".toList], true⟩

/-- hostile names (percent sequence that decodes to another existing name, quote, `#`, `?`, space,
    non-ASCII, hidden file): the hidden file is not shown, every shown link leads back to its own
    entry, at `/` and under a mount prefix, and the listing at the root has no parent link. -/
theorem listing_hostile_names_lead_back :
    (serveListing unquote exLFs exLs (exLCfg none) "/".toList).map
        (fun l => (l.items.map (·.name), l.up, l.items.all (leadsTo unquote exLFs (exLCfg none) l.loc)))
      = some (["p%41".toList, "é\"# ?".toList, "pA".toList], none, true) ∧
    (serveListing unquote exLFs exLs (exLCfg (some "/m".toList)) "/m/p%2541/".toList).map
        (fun l => (l.items.map (·.href), l.up, l.items.all (leadsTo unquote exLFs (exLCfg (some "/m".toList)) l.loc)))
      = some (["/m/p%2541/s/".toList], some "/m/p%2541/..".toList, true) := by decide

/-- The parent link as the code wrote it before the fix (not percent-encoded): below the
    directory `p%41` it pointed to `/p%41`, which the dispatcher decodes to the OTHER directory
    `pA`; the repaired link leads to the parent. -/
theorem legacy_parent_link_unescaped_witness :
    parentLinkLegacy (exLCfg none) "p%41/s".toList = some "/p%41".toList ∧
    serve unquote exLFs (exLCfg none) "/p%41".toList = .listing "/b/r/pA".toList ∧
    parentLink (exLCfg none) "p%41/s".toList = some "/p%2541".toList ∧
    serve unquote exLFs (exLCfg none) "/p%2541".toList = .listing "/b/r/p%41".toList := by decide

/-- KNOWN FINDING `listing-link-dead(absolute-request-path)`: the full statement "every entry link
    leads back to its entry" fails for a request path that spells the directory as an absolute
    file-system path (`/%2Fb%2Fr%2Fp%2541`): the right directory is listed, but its link
    `/b/r/p%2541/s/` is answered with pass (inside the root nothing is called `b/r/...`). -/
theorem listing_link_dead_witness :
    (serveListing unquote exLFs exLs (exLCfg none) "/%2Fb%2Fr%2Fp%2541".toList).map
        (fun l => (l.loc, l.items.map (·.href), l.items.map (leadsTo unquote exLFs (exLCfg none) l.loc)))
      = some ("/b/r/p%41".toList, ["/b/r/p%2541/s/".toList], [false]) ∧
    serve unquote exLFs (exLCfg none) "/b/r/p%2541/s/".toList = .pass := by decide

/-- A mount prefix containing a character that `quote` encodes can never be linked to: the hrefs
    start with the encoded prefix, which fails the dispatcher's own (undecoded) prefix test. -/
theorem listing_unlinkable_prefix_witness :
    (serveListing unquote exLFs exLs (exLCfg (some "/a b".toList)) "/a b/p%2541".toList).map
        (fun l => (l.items.map (·.href), l.items.map (leadsTo unquote exLFs (exLCfg (some "/a b".toList)) l.loc)))
      = some (["/a%20b/p%2541/s/".toList], [false]) := by decide

/-- C16.listing_links_inside_root, "leads back" half (`_partial`: three hypotheses, see below).
    FULL STATEMENT (fails, see the witnesses): every href of a listing, followed through the
    dispatcher, is answered by the entry it stands for.
    PROVED: for every decoder, file system, mount prefix, request path and directory content - if
      (1) the decoded request path is not absolute (else: KNOWN FINDING, `listing_link_dead_witness`),
      (2) the mount prefix is linkable: absent / empty, or absolute and made of characters `quote`
          leaves alone (else: `listing_unlinkable_prefix_witness`),
      (3) the decoder undoes `quote` on the child path `join rel name` (true for `urllib`'s pair on
          every valid string; validated by the check on hostile names, not proved for `unquote`),
    then the entry `e` of the listing stands for the child `loc/name` inside the root, its directory
    marker says whether that child is a directory, and its href is answered by exactly that child:
    the file itself; for a directory its listing, or one of its default documents (or 404 if that
    default document is itself a directory). Names with `%`, `#`, `?`, quotes, spaces, `..x`,
    non-ASCII are covered: no hypothesis on the name beyond being a directory entry. -/
theorem listing_link_leads_to_entry_partial (unq : Str → Str) (fs : FS) (ls : Str → List Str) (cfg : Cfg)
    (reqPath rel : Str) (l : Listing) (e : Entry)
    (hd : ProperRoot cfg.docroot) (hdef : ∀ c ∈ cfg.defaults, cleanSeg c = true)
    (h : serveListing unq fs ls cfg reqPath = some l) (hrel : relOf unq cfg reqPath = some rel)
    (hls : LsOk fs l.loc (ls l.loc)) (he : e ∈ l.items)
    (hnabs : rel.head? ≠ some '/') (hp : LinkablePrefix cfg.pfx)
    (hrt : unq (quote (join rel e.name)) = join rel e.name) :
    inRoot cfg.docroot (l.loc ++ '/' :: e.name) = true ∧
    e.isDir = (fs (l.loc ++ '/' :: e.name) == some Kind.dir) ∧
    (fs (l.loc ++ '/' :: e.name) = some .file → serve unq fs cfg e.href = .file (l.loc ++ '/' :: e.name)) ∧
    (fs (l.loc ++ '/' :: e.name) = some .dir →
      serve unq fs cfg e.href = .listing (l.loc ++ '/' :: e.name) ∨
      serve unq fs cfg e.href = .notfound ∨
      ∃ c ∈ cfg.defaults, serve unq fs cfg e.href = .file ((l.loc ++ '/' :: e.name) ++ '/' :: c)) := by
  obtain ⟨rel', hrel', hsrv, hserve, _, hitems⟩ := serveListing_some unq fs ls cfg reqPath l h
  rw [hrel] at hrel'
  cases hrel'
  rw [hitems] at he
  unfold entries at he
  rw [List.mem_map] at he
  obtain ⟨n, hn, rfl⟩ := he
  rw [List.mem_filter] at hn
  have hclean : cleanSeg n = true := ((hls.2 n).1 hn.1).1
  have hin : inRoot cfg.docroot l.loc = true := contained unq fs cfg reqPath l.loc hd hdef (Or.inr hserve)
  obtain ⟨_, _, hentry, _, _⟩ := child_lookup fs cfg rel n l.loc hd hsrv hnabs hclean
  have hdec : relOf unq cfg (entryOf fs cfg rel n).href = some (join rel n) := by
    show relOf unq cfg (quote (entryUrl cfg rel n) ++ _) = _
    apply entry_href_decodes unq cfg rel n _ hp hnabs hclean _ hrt
    split
    · exact Or.inr rfl
    · exact Or.inl rfl
  have hs : serve unq fs cfg (entryOf fs cfg rel n).href = serveRel fs cfg (join rel n) := by
    unfold serve; rw [hdec]
  obtain ⟨hf, hdir⟩ := child_served fs cfg rel n l.loc hd hdef hsrv hnabs hclean
  refine ⟨inRoot_extend cfg.docroot l.loc n hin hclean, ?_, ?_, ?_⟩
  · show (fs (entryLoc cfg rel n) == some Kind.dir) = _
    rw [hentry]; rfl
  · intro hk; rw [hs]; exact hf hk
  · intro hk; rw [hs]; exact hdir hk

/-- The same for the model of `urllib.parse.unquote` itself when the decoded request path and the
    name are ASCII (any ASCII: `%41`, `#`, `?`, quotes, spaces, controls): hypothesis (3) is then a
    theorem (`unquote_quote_ascii`). For non-ASCII names (3) is validated by the check only. -/
theorem listing_link_leads_to_entry_ascii_partial (fs : FS) (ls : Str → List Str) (cfg : Cfg)
    (reqPath rel : Str) (l : Listing) (e : Entry)
    (hd : ProperRoot cfg.docroot) (hdef : ∀ c ∈ cfg.defaults, cleanSeg c = true)
    (h : serveListing unquote fs ls cfg reqPath = some l) (hrel : relOf unquote cfg reqPath = some rel)
    (hls : LsOk fs l.loc (ls l.loc)) (he : e ∈ l.items)
    (hnabs : rel.head? ≠ some '/') (hp : LinkablePrefix cfg.pfx)
    (ha1 : ∀ c ∈ rel, c.toNat < 128) (ha2 : ∀ c ∈ e.name, c.toNat < 128) :
    inRoot cfg.docroot (l.loc ++ '/' :: e.name) = true ∧
    e.isDir = (fs (l.loc ++ '/' :: e.name) == some Kind.dir) ∧
    (fs (l.loc ++ '/' :: e.name) = some .file → serve unquote fs cfg e.href = .file (l.loc ++ '/' :: e.name)) ∧
    (fs (l.loc ++ '/' :: e.name) = some .dir →
      serve unquote fs cfg e.href = .listing (l.loc ++ '/' :: e.name) ∨
      serve unquote fs cfg e.href = .notfound ∨
      ∃ c ∈ cfg.defaults, serve unquote fs cfg e.href = .file ((l.loc ++ '/' :: e.name) ++ '/' :: c)) := by
  apply listing_link_leads_to_entry_partial unquote fs ls cfg reqPath rel l e hd hdef h hrel hls he hnabs hp
  apply unquote_quote_ascii
  intro c hc
  rcases join_mem rel e.name c hc with h1 | h1 | h1
  · exact ha1 c h1
  · exact ha2 c h1
  · subst h1; decide

-- non-vacuity of the hypotheses of the three general theorems
example : ProperRoot exLRoot := ⟨'b', ['/', 'r'], by decide, by decide, by decide⟩
example : ∀ c ∈ (exLCfg none).defaults, cleanSeg c = true := by decide
example : (serveListing unquote exLFs exLs (exLCfg none) "/p%2541/".toList).map (·.hrefs)
    = some ["/".toList, "/p%2541/s/".toList] := by decide
example : relOf unquote (exLCfg (some "/m".toList)) "/m/".toList = some [] := by decide
example : LinkablePrefix (exLCfg (some "/m".toList)).pfx := by
  intro p hp _
  have : p = "/m".toList := by simpa [exLCfg] using hp.symm
  subst this; decide
example : (entryOf exLFs (exLCfg none) "p%41".toList "s".toList) ∈ entries exLFs (exLCfg none) "p%41".toList (exLs "/b/r/p%41".toList) ∧
    relOf unquote (exLCfg none) "/p%2541/".toList = some "p%41".toList ∧
    unquote (quote (join "p%41".toList "s".toList)) = join "p%41".toList "s".toList := by decide
example : (∀ c ∈ "p%41".toList, c.toNat < 128) ∧ (∀ c ∈ "s".toList, c.toNat < 128) := by decide
example : LsOk exLFs "/b/r/p%41".toList (exLs "/b/r/p%41".toList) := by
  refine ⟨by decide, fun n => ?_⟩
  constructor
  · intro hn
    have : n = "s".toList := by simpa [exLs] using hn
    subst this; decide
  · rintro ⟨hc, hf⟩
    have hn : n = "s".toList := by
      unfold exLFs at hf
      by_cases h1 : ("/b/r/p%41".toList ++ '/' :: n) = "/b/r/p%41/s".toList
      · simpa using h1
      · exfalso
        have hc' := (cleanSeg_iff n).1 hc
        by_cases h2 : ("/b/r/p%41".toList ++ '/' :: n) = "/b/r/p%41/s/f".toList
        · have : n = "s/f".toList := by simpa using h2
          subst this; exact absurd hc (by decide)
        · simp_all
    subst hn; decide

end CV.C16

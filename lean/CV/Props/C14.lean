import CV.Proofs.HttpServerErr
import CV.Proofs.HttpLexed
/-
C14 - Any bytes on an HTTP connection: wait or one valid error response, never a crash.

Model: CV.Http14 (CV/Model/HttpServerErr.lean) on top of C13's parser / read-path model and C15's
response model; reader: CV.HttpSpec (RFC 7230 client side, shares nothing with the models).

All theorems are for every instantiation `le : LexE` of the leaf functions *and of the inputs on
which they raise Python exceptions*, every `secure` flag, every connection state / table state,
every byte string `data`, every handler behaviour, every history of read / disconnect events on
any number of sockets.  No size bounds.

What "never a crash" means here: the control flow of `_on_read` / `_on_exception` /
`_on_httperror` / `_on_response` / `_on_disconnect` is a total function (Lean accepted the
definitions: every loop of the parser terminates), and every exit - including every place where
a leaf raises - ends in exactly one of the five outcomes of `read_outcome`.  That the Python
below the model (the leaf functions themselves, `Headers`, `urlsplit`) raises nothing but
ordinary exceptions, and that the event loop turns them into `exception` events, is NOT proved;
it rests on the correspondence run (C03-C04 cover the loop).

Environment convention (see the model's header): reads are non-empty and none is delivered after
the component asked for the close (`late`).

Formerly OPEN, now proved (`lexed_consistent`, last theorem of this file; helper invariant
`Http.Lexed` in CV/Proofs/HttpLexed.lean), for every instantiation of the lexers - in particular for
`Http.concreteLex` (CV/Model/HttpLex.lean), the executable model of the code's own leaf functions:
    lexed_consistent : for every parser state reachable by `exec le.base` from `init .request`:
        core.fl = some f → ∃ l, core.firstLine = some l ∧ le.base.first .request l = some f,
        and core.hdrDone → core.hi = (match core.hdrBlock with | some b => le.base.hdrs b | none => some noHdrs)
i.e. the `req.fl` / `req.hi` that `dispatched_was_accepted` speaks about are the lexers' verdicts on
exactly the bytes `fl` / `hb` it names.  (The condition errno ∉ {0, 1} of the OPEN statement turned out
to be unnecessary.)  The correspondence still compares, on every generated case, the request the handler
saw with the leaf decodings of the model's `fl` / `hb`.

Hypothesis that appears in `error_response_valid`: `wf rq r` of C15 - the reason phrase and the
header texts of the error page (Date, Server, Location) contain no CR/LF and are not framing
headers.  Those texts are constants of the implementation (HTTP_STATUS_CODES, formatdate) except
Location (a URL built from the request, `quote`d); checked on every run by the `one` spec op.
-/
namespace CV.C14
open CV.Http CV.Http14 CV.HttpResp CV.HttpSpec

/-- **Every read has exactly one of five outcomes** (the trichotomy of the statement, with
`late` = not delivered and `dispatch` = accepted): nothing on the wire; a bare close; or one
error response - never two - after which the connection is being closed and no request /
response pair is kept; or the request event, after whose answer no state at all is kept for the
socket.  The status of an error response the component produces on its own is 400, 505, 301
or 500. -/
theorem read_outcome (le : LexE) (secure : Bool) (env : Env) (cs : CState) (data : Bytes) (beh : Beh) :
    let r := readStep le secure cs data beh
    (r.2 = .late ∧ r.1 = cs ∧ cs.closing = true ∧ wire env r.2 = some []) ∨
    (r.2 = .wait ∧ r.1.closing = false ∧ wire env r.2 = some []) ∨
    (r.2 = .closeOnly ∧ r.1.closing = true ∧ wire env r.2 = some [.close]) ∨
    (∃ e rq fl hb, r.2 = .reject e rq fl hb ∧ r.1.closing = true ∧ r.1.conn.client = none ∧
        e.code ∈ [400, 505, 301, 500] ∧
        wire env r.2 = some (respond rq (errResp env e.code fl hb))) ∨
    (∃ fl hb body rq a, r.2 = .dispatch fl hb body rq a ∧ r.1.conn = {} ∧ a = answerOf beh ∧
        r.1.closing = (match a with | .app c => c | .error _ => true)) := by
  intro r
  cases hcl : cs.closing with
  | true =>
    left
    have : r = (cs, .late) := by simp [r, readStep, hcl]
    simp [this, wire]
  | false =>
    right
    have hr : r = (⟨(connRead14 le secure cs.conn data beh).1, (connRead14 le secure cs.conn data beh).2.closes⟩,
        (connRead14 le secure cs.conn data beh).2) := by
      simp [r, readStep, hcl]
    have hcr : connRead14 le secure cs.conn data beh =
        ((connRead14 le secure cs.conn data beh).1, (connRead14 le secure cs.conn data beh).2) := rfl
    generalize (connRead14 le secure cs.conn data beh).1 = cn1 at hr hcr
    generalize ho : (connRead14 le secure cs.conn data beh).2 = o at hr hcr
    rw [hr]
    cases o with
    | wait => left; simp [Out.closes, wire]
    | late => exact absurd ho (connRead14_ne_late le secure cs.conn data beh)
    | closeOnly => right; left; simp [Out.closes, wire]
    | reject e rq fl hb =>
      right; right; left
      refine ⟨e, rq, fl, hb, rfl, rfl, ?_, ?_, rfl⟩
      · -- the pair is gone
        unfold connRead14 at hcr
        split at hcr
        · exact afterExec14_reject_client hcr
        · split at hcr
          · simp at hcr
          · exact afterExec14_reject_client hcr
      · cases e <;> simp [Exit.code]
    | dispatch fl hb body rq a =>
      right; right; right
      have hconn : cn1 = {} ∧ a = answerOf beh := by
        unfold connRead14 at hcr
        split at hcr
        · exact ⟨afterExec14_dispatch_conn hcr, (afterExec14_dispatch hcr).2.2.2.2⟩
        · split at hcr
          · simp at hcr
          · exact ⟨afterExec14_dispatch_conn hcr, (afterExec14_dispatch hcr).2.2.2.2⟩
      refine ⟨fl, hb, body, rq, a, rfl, hconn.1, hconn.2, ?_⟩
      cases a <;> rfl

-- all five outcomes occur (toy lexers: every first line is an HTTP/1.1 request line ...)
private def toyE : LexE :=
  { lex := { first := fun _ l => if l = [66] then none else some ⟨if l = [50] then 2 else 1, 1, none⟩,
             hdrs := fun b => if b = [72] then some ⟨.absent, false, true, false⟩ else none,
             chunk := fun _ => none, pathOk := fun _ _ => true },
    firstExn := fun l => l = [88], hdrsExn := fun _ => false, req400Exn := fun _ => false,
    reqExn := fun _ _ => false, isHead := fun _ => false }
example : (readStep toyE false {} [71, 13] (.ok false)).2 = .wait := by decide
example : (readStep toyE false {} [128, 46] (.ok false)).2 = .closeOnly := by decide
example : (readStep toyE false {} [66, 13, 10] (.ok false)).2 = .reject .badFirst defaultRq (some [66]) none := by decide
example : (readStep toyE false {} [88, 13, 10] (.ok false)).2 = .reject .exn defaultRq (some [88]) none := by decide
example : (readStep toyE false {} [50, 13, 10, 72, 13, 10, 13, 10] (.ok false)).2
    = .reject .version ⟨false, true, true⟩ (some [50]) (some [72]) := by decide
example : (readStep toyE false {} [71, 13, 10, 72, 13, 10, 13, 10] (.raise 403)).2
    = .dispatch [71] (some [72]) [] ⟨false, true, true⟩ (.error 403) := by decide
example : (readStep toyE false ⟨{}, true⟩ [71] (.ok false)).2 = .late := by decide

/-- **An error response is one syntactically valid, self-delimiting HTTP response that announces
the close and is followed by it.**  For every error response the model writes (any exit, any
status, HEAD or not, HTTP/1.0 or 1.1, any page): the RFC reader recovers exactly one message
with that status from the bytes written and leaves exactly the bytes that follow (`rest`); the
message says the server will close; the close event is there, last; and the spec predicate
`oneResponse` that the driver evaluates on the implementation's bytes accepts the model's. -/
theorem error_response_valid (env : Env) (rq : HttpResp.Req) (code : Nat) (fl hb : Option Bytes)
    (rest : Bytes) (eof : Bool) (hw : wf rq (errResp env code fl hb) = true) :
    let r := errResp env code fl hb
    rfcDecode rq.isHead (bytesOf (respond rq r) ++ rest) eof = .ok (msgOf rq r, rest) ∧
    (msgOf rq r).head.status = code ∧ (msgOf rq r).willClose = true ∧
    hasClose (respond rq r) = true ∧ (wireOf (respond rq r)).afterClose = false ∧
    oneResponse rq.isHead code (wireOf (respond rq r)).bytes true false = .ok := by
  intro r
  obtain ⟨hclose, _, huc⟩ := errResp_prepare env rq code fl hb
  have hdec := rfcDecode_delimited rq r rest eof hw huc
  have hdec0 := rfcDecode_delimited rq r [] true hw huc
  obtain ⟨ws, hws, hshape⟩ := respond_shape (rq, r)
  have hsh := wireOf_shape ws (closes (rq, r)) hws
  have hst : (msgOf rq r).head.status = code := rfl
  refine ⟨hdec, hst, hclose, by rw [hasClose_respond]; exact hclose, ?_, ?_⟩
  · have : respond rq r = ws ++ closeTail (closes (rq, r)) := hshape
    rw [this]; exact hsh.2
  · have hb' : (wireOf (respond rq r)).bytes = bytesOf (respond rq r) := by
      have : respond rq r = ws ++ closeTail (closes (rq, r)) := hshape
      rw [this]; exact hsh.1
    rw [hb']
    rw [List.append_nil] at hdec0
    unfold oneResponse
    rw [hdec0]
    have hwc : (msgOf rq r).willClose = true := hclose
    simp [hst, hwc]

example : wf defaultRq (errResp ⟨fun _ => [66, 97, 100], fun _ _ _ => [([68, 97, 116, 101], [84, 104, 117])],
    fun _ _ _ => [60, 104, 62]⟩ 400 none none) = true := by decide

/-- **A request event is dispatched only for a message that took none of the rejection exits**:
no leaf raised, the parser reports no error and complete headers, and for the request/response
pair used: HTTP major version 1 (checked when the pair was created), a Content-Length that
`int()` accepts, a complete body if one is announced, a Host header unless HTTP/1.0, a canonical
path.  (Each conjunct is the negation of one exit: 500, 400, 505, 500, wait, 400, 301.) -/
theorem dispatched_was_accepted (le : LexE) (secure : Bool) (cn cn1 : Http.Conn) (data : Bytes) (beh : Beh)
    (fl : Bytes) (hb : Option Bytes) (body : Bytes) (rq : HttpResp.Req) (a : Answer)
    (h : connRead14 le secure cn data beh = (cn1, .dispatch fl hb body rq a)) :
    ∃ p req, p = exec le.base (cn.parser.getD (init .request)) data ∧
      raisedIn le p.core = false ∧ exn400 le p.core = false ∧ exnReq le cn p.core = false ∧
      p.core.exn = false ∧ p.core.hdrDone = true ∧
      reqOf cn.client p = some req ∧ fl = req.firstLine ∧ hb = req.hdrBlock ∧ body = p.core.body ∧
      (cn.client = none → req.fl.vmajor = 1) ∧ req.hi.clen ≠ .bad ∧
      ((req.hi.clenVal ≠ 0 ∨ req.hi.te = true) → p.core.complete = true) ∧
      ((req.fl.vmajor, req.fl.vminor) = (1, 0) ∨ req.hi.host = true) ∧
      le.lex.pathOk fl hb = true := by
  have key : ∀ p, afterExec14 le cn p beh = (cn1, .dispatch fl hb body rq a) →
      raisedIn le p.core = false ∧ exn400 le p.core = false ∧ exnReq le cn p.core = false ∧
      p.core.exn = false ∧ p.core.hdrDone = true ∧
      ∃ req, reqOf cn.client p = some req ∧ fl = req.firstLine ∧ hb = req.hdrBlock ∧ body = p.core.body ∧
      (cn.client = none → req.fl.vmajor = 1) ∧ req.hi.clen ≠ .bad ∧
      ((req.hi.clenVal ≠ 0 ∨ req.hi.te = true) → p.core.complete = true) ∧
      ((req.fl.vmajor, req.fl.vminor) = (1, 0) ∨ req.hi.host = true) ∧
      le.lex.pathOk fl hb = true := by
    intro p hp
    obtain ⟨d1, d2, d3, d4, _⟩ := afterExec14_dispatch hp
    have hpair : afterExec le.base cn p = ((afterExec le.base cn p).1, .request fl hb body) := by rw [← d4]
    obtain ⟨e1, e2, req, e3, e4, _, e5, e6, e7⟩ := afterExec_fire hpair
    obtain ⟨v1, v2, v3, v4, v5⟩ := verdict_fire e4
    refine ⟨d1, d2, d3, e1, e2, req, e3, e5, e6, e7, ?_, v2, v3, v4, ?_⟩
    · intro hc; exact v1 (by simp [hc])
    · rw [e5, e6]; exact v5
  unfold connRead14 at h
  split at h
  · rename_i p hp
    obtain ⟨k1, k2, k3, k4, k5, req, k6⟩ := key _ h
    exact ⟨_, req, by simp [hp], k1, k2, k3, k4, k5, k6⟩
  · rename_i hp
    split at h
    · simp at h
    · obtain ⟨k1, k2, k3, k4, k5, req, k6⟩ := key _ h
      exact ⟨_, req, by simp [hp], k1, k2, k3, k4, k5, k6⟩

/-- successive reads on one connection -/
def runConn (le : LexE) (secure : Bool) : CState → List (Bytes × Beh) → CState × List Http14.Out
  | cs, [] => (cs, [])
  | cs, (d, b) :: rs =>
    let (c1, o) := readStep le secure cs d b
    let (c2, os) := runConn le secure c1 rs
    (c2, o :: os)

/-- **Nothing after the close.**  Once a read made the component ask for the close (bare close,
any error response, an application response that closes), nothing more is dispatched and nothing
more is written on that connection, whatever arrives: so a connection carries at most one error
response, and no request event follows a rejection. -/
theorem nothing_after_close (le : LexE) (secure : Bool) (cs : CState) (d : Bytes) (b : Beh)
    (rs : List (Bytes × Beh)) (h : (readStep le secure cs d b).2.closes = true) :
    runConn le secure (readStep le secure cs d b).1 rs =
      ((readStep le secure cs d b).1, List.replicate rs.length .late) := by
  have hc : (readStep le secure cs d b).1.closing = true := by
    unfold readStep at h ⊢
    cases hcl : cs.closing with
    | true => simp [hcl, Out.closes] at h
    | false => simp only [hcl, Bool.false_eq_true, if_false] at h ⊢; exact h
  generalize (readStep le secure cs d b).1 = c1 at hc
  induction rs with
  | nil => rfl
  | cons r rs ih =>
    obtain ⟨d', b'⟩ := r
    have : readStep le secure c1 d' b' = (c1, .late) := by simp [readStep, hc]
    simp only [runConn, this, ih, List.length_cons, List.replicate_succ]

example : (readStep toyE false {} [66, 13, 10] (.ok false)).2.closes = true := by decide

/-- **Disconnect releases everything**: after `disconnect(sock)` neither table has an entry for
the socket (and it is no longer being closed), whatever state the connection was in. -/
theorem disconnect_releases (le : LexE) (secure : Bool) (w : World) (s : Nat) :
    let w' := (step le secure w (.disconnect s)).1
    w'.t.buffers.lookup s = none ∧ w'.t.clients.lookup s = none ∧ w'.closing.contains s = false := by
  have h := step_disconnect_clean le secure w s
  obtain ⟨h1, h2⟩ := h
  simp only [Tables.get] at h1
  have := Conn.mk.inj h1
  exact ⟨this.1, this.2, h2⟩

/-- **Connections do not interfere**: an event on another socket changes neither the table
entries of `s` nor its closing flag - so everything above holds per connection in any
interleaving. -/
theorem isolation (le : LexE) (secure : Bool) (w : World) (e : Ev) (s : Nat) (h : s ≠ e.sock) :
    (step le secure w e).1.cstate s = w.cstate s := by
  obtain ⟨h1, h2⟩ := step_frame le secure w e s h
  unfold World.cstate
  rw [h1, h2]

/-- **No state is retained for a disconnected connection** - for every history of reads and
disconnects on any sockets from the empty tables: a socket that has not been read from since its
last disconnect (or never) has no parser, no request/response pair, and is not being closed. -/
theorem no_state_for_dead_sockets (le : LexE) (secure : Bool) (evs : List Ev) (s : Nat)
    (h : alive s evs false = false) :
    let w := (run le secure {} evs).1
    w.t.buffers.lookup s = none ∧ w.t.clients.lookup s = none ∧ w.closing.contains s = false := by
  have := run_clean le secure evs {} (fun _ => false)
    (fun x _ => ⟨rfl, rfl⟩) s h
  obtain ⟨h1, h2⟩ := this
  simp only [Tables.get] at h1
  have hh := Conn.mk.inj h1
  exact ⟨hh.1, hh.2, h2⟩

/-- **When every connection has gone the tables are empty** (sizes 0: the observation the
harness makes on `_buffers` / `_clients` at the end of every script). -/
theorem tables_empty_when_all_gone (le : LexE) (secure : Bool) (evs : List Ev)
    (h : ∀ s, alive s evs false = false) :
    let w := (run le secure {} evs).1
    w.t.buffers = [] ∧ w.t.clients = [] ∧ w.closing = [] := by
  apply empty_of_all_clean
  intro s
  exact run_clean le secure evs {} (fun _ => false) (fun x _ => ⟨rfl, rfl⟩) s (h s)

-- a history on two sockets in which both end disconnected (one mid-request, one after a 400)
example : ∀ s, alive s [Ev.read 1 [71, 13] (.ok false), Ev.read 2 [66, 13, 10] (.ok false),
    Ev.disconnect 2, Ev.read 1 [10] (.ok false), Ev.disconnect 1] false = false := by
  intro s
  by_cases h1 : s = 1
  · subst h1; decide
  · by_cases h2 : s = 2
    · subst h2; decide
    · have a1 : ¬ (1 = s) := fun e => h1 e.symm
      have a2 : ¬ (2 = s) := fun e => h2 e.symm
      simp [alive, a1, a2]

/-- **The recorded verdicts are the lexers' verdicts on the recorded bytes** (formerly OPEN).  In every
parser state reachable from a fresh request parser by any sequence of reads - whatever the bytes,
whatever errors occurred - the first-line record `fl` is what the first-line lexer (the model of
`_parse_firstline`, with "raises" = rejected) says about exactly the recorded bytes `firstLine`, and
once the headers are complete the header record `hi` is what the header lexer says about exactly the
recorded header block (`none`: the empty block).  Hence the `req.fl` / `req.hi` of
`dispatched_was_accepted` are verdicts on the bytes `fl` / `hb` it names.  For every `le`, in
particular for the concrete lexers `Http.concreteLex` of CV/Model/HttpLex.lean. -/
theorem lexed_consistent (le : LexE) (segs : List Bytes) :
    let p := execAll le.base (init .request) segs
    (∀ f, p.core.fl = some f → ∃ l, p.core.firstLine = some l ∧ le.base.first .request l = some f) ∧
    (p.core.hdrDone = true →
      p.core.hi = (match p.core.hdrBlock with | some b => le.base.hdrs b | none => some noHdrs)) := by
  intro p
  have h := lexed_execAll le.base segs (init .request) (lexed_init le.base .request)
  have hk : p.core.kind = .request := execAll_kind le.base segs (init .request)
  refine ⟨?_, h.hdrs⟩
  intro f hf
  obtain ⟨l, h1, h2⟩ := h.first f hf
  exact ⟨l, h1, by rw [← hk]; exact h2⟩

end CV.C14

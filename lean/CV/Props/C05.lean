import CV.Model.Core.Machine
namespace CV.C05
theorem placeholder : True := trivial
end CV.C05

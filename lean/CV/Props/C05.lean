import CV.Proofs.InvEffects
/-
C05  "If an event asks for completion notification, <name>_complete is fired exactly once, and only
after the event and every event fired directly or transitively while handling it have been dispatched
to all their handlers.  It is always eventually fired once that closure has drained, also when some
of those events were cancelled, stopped, or had handlers that raised."

Machine-level theorems about the small-step core machine (`CV.Model.Core.Step`), i.e. about
`Manager._fire` (cause linking), `_dispatcher` (`event.effects = 1`, the cancelled branch),
`_eventDone` and `_effectDone` of circuits/core/manager.py.

Vocabulary (CV/Proofs/InvEffects.lean)
  * an event `e` is *tracked* when `(s.ev e).cause ≠ none`; `St.e5_kids s e` is the number of events
    `x ≠ e` with `cause x = some e` (the events linked under `e` by `_fire` that are still tracked:
    an event clears its own `cause` only in the `_effectDone` iteration that takes it to 0);
  * `selfDone e` is the ghost flag "e's own done step has been counted" (set in `_eventDone` when it
    goes through, and in the cancelled branch of `_dispatcher`);
  * `pendOf stack = some e` when an `.effectDone r e announce` frame is on top of the stack: the
    decrement of `e` by that `_effectDone` iteration has not happened yet;
  * `CInv c`: for every tracked e
        effects e = [¬ selfDone e] + kids e + [pendOf c.stack = some e]      and   1 ≤ effects e,
    links point to older events, `.effectDone` frames sit only on top of the stack and are never
    unwound by an exception (no decrement is ever lost), there are no timers.

STATUS.  `unlinked_only_at_zero` and `tracking_restarts_only_at_dispatch` are full (over `Reach`).
The theorems named `_partial` are stated over `ReachG`.  FULL STATEMENT: the same with `Reach s0 c` in
place of `ReachG s0 c`.  OBSTACLE: `ReachG` is `Reach` restricted to runs on which `Guard` holds at
every step taken (`guarded_reach`, `eff_inv_of_guard`), and `Guard` is

   (G1) when `_dispatcher(e)` is entered for a cancelled or complete-requesting event, `e` is fresh
        (`selfDone e = false`, nothing linked under e) - "every event object is fired, hence
        dispatched, once" (false for `Timer`, excluded by `InitEff`; believed true otherwise, but
        proving it needs the queue invariant "an id sits at most once in at most one queue and has not
        been dispatched" plus "`_currently_handling` / task events are dispatched events");
   (G2) when `_eventDone(e)` goes through (`waitingHandlers = 0`) for a tracked event, it has not gone
        through before (`selfDone e = false`).

(G2) is NOT an invariant of the model (`guard_witness`), and not of the code: a handler of `e` that
runs the task loop (`tick()`; in the model `stop()` called while `running ∧ ¬executing`, which runs
three inline ticks) while a generator handler of the same `e` is pending makes `_eventDone(e)` go
through twice - once from `processTask`, once at the end of `_dispatcher` - so `e.effects` is
decremented twice and `e_complete` fires while an event fired by `e`'s handlers is still being handled
(`complete_only_when_drained_witness`; reproduced on the real code with a handler that calls
`self.tick()`, see the report).  So the unrestricted statements are false; stating them over `Reach`
needs `_eventDone` to go through at most once per dispatch (a repair of the code + model), or a
precondition that excludes running the task loop from inside a handler.
-/
namespace CV.C05
open CV.Core CV.Core.C05

/-- guarded runs are runs -/
theorem guarded_reach {s0 : St} {c : Cfg} (h : ReachG s0 c) : Reach s0 c := h.reach

/-- (1) the effects accounting is an invariant of every configuration of a guarded run that starts
    from a state without tracked events and without timers -/
theorem eff_inv_partial {s0 : St} (h0 : InitEff s0) : ∀ c, ReachG s0 c → CInv c := reachG_cinv h0

/-- (1) in words: `effects e = [own done still to come] + #{tracked events linked under e}
    + [a decrement of e is pending on top of the stack]`, and a tracked event is never at 0 -/
theorem effects_count_partial {s0 : St} (h0 : InitEff s0) (c : Cfg) (hr : ReachG s0 c) (e : Nat)
    (htr : (c.st.ev e).cause ≠ none) :
    (c.st.ev e).effects = (if (c.st.ev e).selfDone then 0 else 1) + (c.st.e5_kids e : Int)
        + (if pendOf c.stack = some e then 1 else 0) ∧
      1 ≤ (c.st.ev e).effects := by
  have h := reachG_cinv h0 c hr
  refine ⟨h.acc.count e htr, ?_⟩
  rcases h.acc.pos e htr with h1 | h1
  · exact h1
  · cases h1

/-- (1) over all runs: if the guard holds in every reachable configuration, so does the invariant -/
theorem eff_inv_of_guard {s0 : St} (h0 : InitEff s0) (hG : ∀ c, Reach s0 c → Guard c) :
    ∀ c, Reach s0 c → CInv c :=
  fun c hr => reachG_cinv h0 c (ReachG.of_reach hG hr)

/-- (2) `complete` only when drained: in the `_effectDone` iteration that takes a tracked event `e`
    to 0 - the only place where `e_complete` is fired (`St.effectDone1`: when `e.complete ∧ announce`) -
    `e`'s own handlers are done and no event is linked under `e` any more.  Linked events unlink
    themselves only in their own such iteration, so this holds transitively for everything that was
    ever linked under `e`. -/
theorem complete_only_when_drained_partial {s0 : St} (h0 : InitEff s0) (c : Cfg) (hr : ReachG s0 c)
    (r e : Nat) (a : Bool) (k : List Frame) (hs : c.stack = .effectDone r e a :: k)
    (htr : (c.st.ev e).cause ≠ none) (hz : ¬ ((c.st.ev e).effects - 1 > 0)) :
    (c.st.ev e).selfDone = true ∧ ∀ x, x ≠ e → (c.st.ev x).cause ≠ some e :=
  (reachG_cinv h0 c hr).drained hs htr hz

/-- (3) at most once: after that step `e` is not tracked any more (`cause = none`, `effects = 0`), so
    no later `_effectDone` iteration can fire `e_complete` again (`St.effectDone1` does nothing for an
    untracked event); tracking restarts only in `St.dispComplete`, i.e. at a new dispatch of `e`. -/
theorem complete_at_most_once_partial (c : Cfg) (r e P : Nat) (a : Bool) (k : List Frame)
    (hs : c.stack = .effectDone r e a :: k) (hx : c.exn = none)
    (hc : (c.st.ev e).cause = some P) (hz : ¬ ((c.st.ev e).effects - 1 > 0)) :
    ((step c).st.ev e).cause = none ∧ ((step c).st.ev e).effects = 0 := by
  rw [step_cons c _ k hs hx]
  show ((c.effectDone k r e a).st.ev e).cause = none ∧ ((c.effectDone k r e a).st.ev e).effects = 0
  rw [Cfg.effectDone_st]
  exact St.e5_effectDone1_cleared c.st r e P a hc hz

/-- (4) safety form of "always eventually": between runs (empty stack) a tracked event is never stuck
    at count 0: its count is positive, and under it there is a tracked event (possibly itself) whose
    own handlers are still to finish.  With (1): once the closure has drained, `complete` has fired. -/
theorem complete_when_quiescent_partial {s0 : St} (h0 : InitEff s0) (c : Cfg) (hr : ReachG s0 c)
    (hd : done c = true) (e : Nat) (htr : (c.st.ev e).cause ≠ none) :
    1 ≤ (c.st.ev e).effects ∧
      ∃ x, Under c.st x e ∧ (c.st.ev x).cause ≠ none ∧ (c.st.ev x).selfDone = false := by
  have h := CInv.done_eff0 c (reachG_cinv h0 c hr) hd
  refine ⟨?_, h.exists_undone _ e (Nat.le_refl _) htr⟩
  rcases h.pos e htr with h1 | h1
  · exact h1
  · cases h1

/-- (5) cancelled descendants: the dispatch of a cancelled event linked under `P` runs no handler and
    announces nothing, but performs the same decrement: two steps later its link is cleared, no event
    was created, and the decrement of `P` is pending (or, for a self-caused root, the chain ends). -/
theorem cancelled_child_released_partial {s0 : St} (h0 : InitEff s0) (c : Cfg) (hr : ReachG s0 c)
    (hg : Guard c) (r e rem P : Nat) (k : List Frame)
    (hs : c.stack = .dispatcher r e rem :: k) (hx : c.exn = none)
    (hcan : (c.st.ev e).cancelled = true) (hc : (c.st.ev e).cause = some P) :
    (step c).stack = .effectDone r e false :: k ∧
    ((step (step c)).st.ev e).cause = none ∧
    (step (step c)).st.evs.length = c.st.evs.length ∧
    (step (step c)).stack = (if P = e then k else .effectDone r P true :: k) :=
  (reachG_cinv h0 c hr).cancelled_release hg hs hx hcan hc

/-- (2b) full: an event is unlinked (its `cause` cleared) only by its own `_effectDone` iteration and
    only when its count reaches 0 - so "nothing linked under e" in (2) means that every event that was
    ever linked under `e` has itself been counted down to 0, transitively. -/
theorem unlinked_only_at_zero {s0 : St} (h0 : s0.timers = []) (c : Cfg) (hr : Reach s0 c) (y : Nat)
    (htr : (c.st.ev y).cause ≠ none) (hun : ((step c).st.ev y).cause = none) :
    c.exn = none ∧ ∃ r a k, c.stack = .effectDone r y a :: k ∧ ¬ ((c.st.ev y).effects - 1 > 0) :=
  untracked_only_at_zero c (reach_timers h0 c hr) y htr hun

/-- (3b) full: the tracking of an existing event can only (re)start at a dispatch of that event
    (`St.dispComplete`); every other step leaves an untracked event untracked.  (A new event is linked
    when it is fired: it did not exist before the step.) -/
theorem tracking_restarts_only_at_dispatch {s0 : St} (h0 : s0.timers = []) (c : Cfg) (hr : Reach s0 c)
    (y : Nat) (hy : y < c.st.evs.length) (hun : (c.st.ev y).cause = none)
    (htr : ((step c).st.ev y).cause ≠ none) :
    c.exn = none ∧ ∃ r rem k, c.stack = .dispatcher r y rem :: k :=
  tracked_only_at_dispatch c (reach_timers h0 c hr) y hy hun htr

/-! the excluded case is real (model): on the run `cw2` from `s0w` - a handler of `foo` calls `stop()`
    while the manager is `running` but not `executing`, which runs inline ticks while a generator handler
    of `foo` is pending - the guard fails and `foo_complete` is fired with `bar` still linked under `foo` -/

/-- the guard (G2) is not an invariant of `Reach` -/
theorem guard_witness : InitEff s0w ∧ ∃ c, Reach s0w c ∧ ¬ Guard c :=
  ⟨s0w_init, cw2 86, cw2_reach 86, doubleDone_spec _ cw2_double⟩

/-- `complete_only_when_drained` with `Reach` in place of `ReachG` is false -/
theorem complete_only_when_drained_witness : InitEff s0w ∧ ∃ c, Reach s0w c ∧
    ∃ r e a k x, c.stack = .effectDone r e a :: k ∧ c.exn = none ∧ (c.st.ev e).cause ≠ none ∧
      (c.st.ev e).complete = true ∧ a = true ∧ ¬ ((c.st.ev e).effects - 1 > 0) ∧
      x ≠ e ∧ (c.st.ev x).cause = some e :=
  ⟨s0w_init, cw2 87, cw2_reach 87, earlyComplete_spec _ cw2_early⟩

/-! non-vacuity -/

/-- `InitEff`: a state with a complete-requesting event that is not tracked yet -/
example : InitEff { evs := [{ name := ⟨1, []⟩, complete := true }] } :=
  ⟨rfl, fun e => by cases e <;> rfl⟩

/-- `ReachG`: start configurations are guarded-reachable, and `Guard` holds in them -/
example (s0 : St) : ReachG s0 (startOf (envChange s0 0 []) (.flush 0)) := ReachG.init 0 [] (.flush 0)
example (s0 : St) : Guard (startOf (envChange s0 0 []) (.flush 0)) := fun _ => trivial

end CV.C05

import CV.Model.Wake
import CV.Model.WakeSpec
import CV.Proofs.EvQueue
import CV.Proofs.Wake
import CV.Proofs.WakeTimer
/-
C03 - fire() from other threads: nothing lost or duplicated, loop always wakes.

All theorems are about `CV.Wake.step` (CV/Model/Wake.lean): the interleaving transition system
of the loop thread and any number of firing threads (a firer has no state outside its critical
section, so "any number of firers / events" = a fresh firer may enter whenever the lock is
free).  `Reach s` = `s` is reachable from the state after `run()` fired `started`, by any
sequence of effects, i.e. under every interleaving; nothing bounds the number of ticks, firers
or events.  Time-outs of the idle wait are transitions of the model (`timeout`, `selTimeout`),
so "without needing any time-out" is a statement about the *other* transitions.

The machine includes the Timer's part of the protocol: any number of `generate_events` handlers without
`resume` (circuits.core.timers.Timer._on_generate_events) run in the loop thread before the waiter and call
`event.reduce_time_left(T)`, T > 0 (`hsetWnoResume`, `lAcq`, `tlwOther`, `lRel`; program points `tAcq`, `tChk`,
`tRel`), interleaved with foreign `fire()` calls at every line.  All theorems below are about that machine;
the last section is about these steps in particular.
-/
namespace CV.C03
open CV.Wake

/-- **Mutual exclusion.**  The loop thread holds `_lock` exactly in the arming block and in the
    waiter's locked sections, and then no firer is inside its critical section (at most one
    firer is, by the shape of the state). -/
theorem mutex {s : St} (h : Reach s) :
    s.lockL = s.lpc.locked ∧ (s.lockL = true → s.cs = none) :=
  ⟨(reach_winv h).lock, (reach_winv h).mutex⟩

/-- **No lost wake-up.**  Whenever the loop thread sits in an idle wait (fallback `wait`, poller
    select/poll/epoll, any non-zero time-out) while an undispatched event is queued, the wake
    signal is already set (flag set / ctrl pipe non-empty), or a firer that saw this
    generate_events is still inside its critical section at a point from which its remaining
    actions are exactly "lower time_left, read the handler, call resume()". -/
theorem no_lost_wakeup {s : St} (h : Reach s) (hb : s.blocked = true) (hq : s.q.pending ≠ []) :
    s.sig > 0 ∨ ∃ f, s.cs = some f ∧ f.saw = .cur ∧ (f.pc = .lower ∨ f.pc = .checkH ∨ f.pc = .sig) := by
  have w := reach_winv h
  have hpc := blocked_pc hb
  have hge : s.lpc.geSet = true := by rcases hpc with h | h | h <;> simp [h, LPc.geSet]
  have hck : s.lpc.checked = true := by rcases hpc with h | h | h <;> simp [h, LPc.checked]
  have hsaw : ∀ f, s.cs = some f → f.pc ≠ .read → f.saw = .cur := by
    intro f hf hr
    rcases w.saw hge f hf with h | h
    · exact absurd h hr
    · exact h
  rcases w.k1 hck hq with htl | ⟨f, hf, hpcf⟩
  · rcases w.k2 hb htl with hs | ⟨f, hf, hpcf⟩
    · exact Or.inl hs
    · refine Or.inr ⟨f, hf, hsaw f hf ?_, ?_⟩
      · rcases hpcf with h | h <;> simp [h]
      · rcases hpcf with h | h
        · exact Or.inr (Or.inl h)
        · exact Or.inr (Or.inr h)
  · exact Or.inr ⟨f, hf, hsaw f hf (by simp [hpcf]), Or.inl hpcf⟩

/-- **The loop wakes without a time-out.**  Every firer's `fire()` has returned (no firer in the
    critical section), an event is queued, the loop is in its idle wait: then the wake-up
    transition itself (`Event.wait` returning because the flag is set / select returning the
    ctrl pipe) is enabled - no `timeout` transition is needed. -/
theorem wake_without_timeout {s : St} (h : Reach s) (hb : s.blocked = true) (hq : s.q.pending ≠ [])
    (hc : s.cs = none) :
    s.sig > 0 ∧ ((step s .wake).isSome = true ∨ (step s (.selRet true)).isSome = true) := by
  have hsig : s.sig > 0 := by
    rcases no_lost_wakeup h hb hq with hs | ⟨f, hf, _⟩
    · exact hs
    · rw [hc] at hf; cases hf
  refine ⟨hsig, ?_⟩
  rcases blocked_pc hb with hp | hp | hp
  · left; simp [step, Lab.isFirer, stepLoop, hp, hsig]
  · left; simp [step, Lab.isFirer, stepLoop, hp, hsig]
  · right; simp [step, Lab.isFirer, stepLoop, hp, hsig]

/-- **The firer in the critical section delivers the wake-up.**  In the situation of
    `no_lost_wakeup` with the signal not yet set, the firer's own remaining steps are enabled
    one after the other (they need nobody else: it holds the lock) and end with the signal
    set, the lock released and the loop still in its wait - where `wake_without_timeout`
    applies.  So `fire()` returning implies the wake signal is set. -/
theorem firer_delivers_wake {s : St} (h : Reach s) (hb : s.blocked = true) (hq : s.q.pending ≠ [])
    (hz : s.sig = 0) :
    ∃ ls s', (∀ l ∈ ls, l.isFirer = true) ∧ run s ls = some s' ∧ s'.cs = none ∧ s'.sig > 0 ∧
      s'.blocked = true ∧ s'.q.pending = s.q.pending := by
  have w := reach_winv h
  have hpc := blocked_pc hb
  have hah : s.hset = true := w.hs (by rcases hpc with h | h | h <;> simp [h, LPc.afterH])
  rcases no_lost_wakeup h hb hq with hs | ⟨f, hf, hsaw, hp⟩
  · omega
  · obtain ⟨t, pc, saw⟩ := f
    simp only at hsaw hp
    subst hsaw
    have hblk : ∀ (s1 : St), s1.lpc = s.lpc → s1.tmo = s.tmo → s1.blocked = true := by
      intro s1 h1 h2; simp only [St.blocked, h1, h2] at hb ⊢; exact hb
    rcases hp with rfl | rfl | rfl
    · have htl : s.tl ≠ .zero := by
        intro htl
        rcases w.k2 hb htl with h | ⟨f, hf', hp'⟩
        · omega
        · rw [hf] at hf'; cases hf'; simp at hp'
      refine ⟨[.fTlwZero t, .fHsetR t true, .fSig t, .fRel t], { s with tl := .zero, sig := s.sig + 1, cs := none }, by simp [Lab.isFirer], ?_, ?_⟩
      · simp [run, step, Lab.isFirer, stepFirer, hf, St.tgtTl, St.tgtHset, St.lowerTgt, htl, hah]
      · refine ⟨rfl, by simp, hblk _ rfl rfl, rfl⟩
    · refine ⟨[.fHsetR t true, .fSig t, .fRel t], { s with sig := s.sig + 1, cs := none }, by simp [Lab.isFirer], ?_, ?_⟩
      · simp [run, step, Lab.isFirer, stepFirer, hf, St.tgtHset, hah]
      · refine ⟨rfl, by simp, hblk _ rfl rfl, rfl⟩
    · refine ⟨[.fSig t, .fRel t], { s with sig := s.sig + 1, cs := none }, by simp [Lab.isFirer], ?_, ?_⟩
      · simp [run, step, Lab.isFirer, stepFirer, hf]
      · refine ⟨rfl, by simp, hblk _ rfl rfl, rfl⟩

/-- **The loop never goes to sleep on a queued event.**  If an event is queued and no firer is
    inside its critical section, no step of the loop thread enters an idle wait: the arming
    block has set `time_left` to 0, or the firer that queued the event has. -/
theorem never_blocks_with_queued {s s' : St} {l : Lab} (h : Reach s) (hc : s.cs = none)
    (hq : s.q.pending ≠ []) (hl : l.isFirer = false) (hs : step s l = some s')
    (hnb : s.blocked = false) : s'.blocked = false := by
  obtain ⟨h1, h2, h3, h4, h5, h6, h7, h8, h9⟩ := reach_winv h
  unfold step at hs
  cases l <;> simp only [Lab.isFirer, if_false, Bool.false_eq_true] at hs hl <;>
  simp only [stepLoop] at hs <;>
  (repeat' (split at hs)) <;>
  first
  | (cases hs; done)
  | (cases hl; done)
  | (injection hs with hs; subst hs
     simp_all [LPc.locked, LPc.geSet, LPc.checked, LPc.afterH, St.blocked, St.pendingNonempty] <;> grind)

/-- after the wake-up the fallback waiter leaves its loop: with the event queued and the firer
    gone, `while event.time_left < 0` reads 0 -/
theorem wake_exits {s : St} (h : Reach s) (hp : s.lpc = .wRead2) (hc : s.cs = none)
    (hq : s.q.pending ≠ []) : step s (.tlr .zero) = some { s with lpc := .done } := by
  have w := reach_winv h
  have htl : s.tl = .zero := by
    rcases w.k1 (by simp [hp, LPc.checked]) hq with h | ⟨f, hf, _⟩
    · exact h
    · rw [hc] at hf; cases hf
  simp [step, Lab.isFirer, stepLoop, hp, htl]

/-- **Exactly once, in the firing order of the thread** (every reachable state): per thread,
    the dispatched entries followed by the still queued ones are exactly the entries the
    thread appended, in the order it appended them. -/
theorem exactly_once_fifo {s : St} (h : Reach s) (t : Nat) :
    (s.q.log ++ s.q.pending).filter (fun e => e.tid == t) = s.q.fired.filter (fun e => e.tid == t) :=
  (reach_qinv h).proj t

/-- the decidable spec predicate evaluated on the implementation's observations holds of every
    quiescent model state: dispatched = fired, per thread -/
theorem once_fifo_at_quiescence {s : St} (h : Reach s) (hq : s.q.pending = []) :
    WakeSpec.onceFifo (s.q.fired.map key) (s.q.log.map key) = true := by
  unfold WakeSpec.onceFifo
  rw [List.all_eq_true]
  intro t _
  have := exactly_once_fifo h t
  rw [hq, List.append_nil] at this
  rw [proj_map_key, proj_map_key, this]
  simp

/-- at any time the dispatched sequence of a thread is a prefix of its fired sequence -/
theorem dispatched_prefix_of_fired {s : St} (h : Reach s) (t : Nat) :
    ∃ rest, s.q.fired.filter (fun e => e.tid == t) = s.q.log.filter (fun e => e.tid == t) ++ rest := by
  refine ⟨s.q.pending.filter (fun e => e.tid == t), ?_⟩
  rw [← exactly_once_fifo h t, List.filter_append]

/-! ### the Timer's part of the protocol -/

/-- **No reachable state is stuck.**  The state seed C03-d produces (loop in its idle wait with a non-zero
    time-out, event queued, every `fire()` returned, wake signal unset) is unreachable. -/
theorem no_stuck_state {s : St} (h : Reach s) :
    ¬ (s.blocked = true ∧ s.q.pending ≠ [] ∧ s.cs = none ∧ s.sig = 0) := by
  rintro ⟨hb, hq, hc, hz⟩
  have := (wake_without_timeout h hb hq hc).1
  omega

/-- **Zero stays zero.**  Once the time left of the current generate_events is 0 (a wake-up was delivered
    or is pending), no effect of any thread - in particular no `reduce_time_left(T)`, T > 0, of a Timer -
    changes it, until `tick()` creates the next generate_events. -/
theorem zero_stays_zero {s s' : St} {ls : List Lab} (hr : run s ls = some s')
    (hl : ∀ l ∈ ls, l.isAppGe = false) (hz : s.tl = .zero) : s'.tl = .zero :=
  run_zero_stays hr hl hz

/-- **A Timer lowering the time left to T > 0 never cancels a wake-up already delivered or pending.**
    While the loop thread is inside a Timer's handler (after `event.handler = <Timer handler>`, inside
    `reduce_time_left(T)`), whatever happens next (a step of the loop thread or of a firer):
    a time left of 0 stays 0, the wake signal is not consumed, and if the step is the Timer's write
    `self._time_left = T` then the time left was not 0, no event is queued, no firer is inside its
    critical section, and queue and signal are untouched. -/
theorem timer_lowering_keeps_wake {s s' : St} {l : Lab} (h : Reach s) (hp : s.lpc.inTimer = true)
    (hs : step s l = some s') :
    (s.tl = .zero → s'.tl = .zero) ∧ s.sig ≤ s'.sig ∧
    (l = .tlwOther → s.tl ≠ .zero ∧ s.q.pending = [] ∧ s.cs = none ∧ s'.q = s.q ∧ s'.sig = s.sig ∧
      s'.tl = .pos) := by
  have w := reach_winv h
  refine ⟨?_, step_timer_sig hs hp, ?_⟩
  · intro hz
    refine step_zero_stays hs ?_ hz
    cases l <;> try rfl
    simp only [step, Lab.isFirer, stepLoop, Bool.false_eq_true, if_false] at hs
    split at hs
    · rename_i hc; rw [hc.1] at hp; cases hp
    · cases hs
  · rintro rfl
    simp only [step, Lab.isFirer, stepLoop, Bool.false_eq_true, if_false] at hs
    split at hs
    · rename_i hc
      injection hs with hs; subst hs
      have hlk : s.lockL = true := by rw [w.lock, hc.1]; rfl
      have hcs := w.mutex hlk
      refine ⟨hc.2, ?_, hcs, rfl, rfl, rfl⟩
      apply Classical.byContradiction
      intro hq
      rcases w.k1 (by rw [hc.1]; rfl) hq with h0 | ⟨f, hf, _⟩
      · exact hc.2 h0
      · rw [hcs] at hf; cases hf
    · cases hs

/-- **From a queued event to its dispatch the loop never goes to sleep.**  An event is queued, no firer is
    inside its critical section, the loop thread is not in an idle wait: then whatever the loop thread
    does (Timer handlers lowering the time left included) up to the next dispatch (`pop`), it never enters
    an idle wait, and the event stays queued. -/
theorem never_blocks_until_dispatch {s s' : St} {ls : List Lab} (h : Reach s) (hc : s.cs = none)
    (hq : s.q.pending ≠ []) (hnb : s.blocked = false)
    (hl : ∀ l ∈ ls, l.isFirer = false ∧ l.isPop = false) (hr : run s ls = some s') :
    s'.blocked = false ∧ s'.q.pending ≠ [] ∧ s'.cs = none := by
  induction ls generalizing s with
  | nil => simp [run] at hr; subst hr; exact ⟨hnb, hq, hc⟩
  | cons l ls ih =>
    simp only [run] at hr
    split at hr
    · rename_i s1 hs1
      have hl1 := hl l (List.mem_cons_self ..)
      have hloop : stepLoop s l = some s1 := by
        have := hs1; unfold step at this; rw [hl1.1] at this; simpa using this
      exact ih (Reach.step h hs1) (loop_step_cs hloop hc) (loop_step_pending hloop hl1.2 hq)
        (never_blocks_with_queued h hc hq hl1.1 hs1 hnb)
        (fun l' hl' => hl l' (List.mem_cons_of_mem _ hl')) hr
    · cases hr

/-- **`reduce_time_left(T > 0)` never lets the loop sleep on a queued event.**  The loop thread is anywhere
    inside a Timer's handler, an event is queued and its `fire()` has returned: then the time left is 0
    already, the Timer's write `self._time_left = T` is not enabled (the locked test fails), and the rest
    of the iteration - the remaining Timer handlers, the waiter, the start of the next tick up to the
    dispatch of the event - never enters an idle wait; wherever it stops after a generate_events was
    armed (`checked`: the rest of this iteration, or the next one), the time left it finds is 0, not T. -/
theorem rtl_positive_never_blocks_with_queued {s s' : St} {ls : List Lab} (h : Reach s)
    (hp : s.lpc.inTimer = true) (hc : s.cs = none) (hq : s.q.pending ≠ [])
    (hl : ∀ l ∈ ls, l.isFirer = false ∧ l.isPop = false) (hr : run s ls = some s') :
    s.tl = .zero ∧ step s .tlwOther = none ∧ (s'.lpc.checked = true → s'.tl = .zero) ∧
      s'.blocked = false ∧ s'.q.pending ≠ [] := by
  have w := reach_winv h
  have hnb : s.blocked = false := by
    cases hlp : s.lpc <;> simp_all [LPc.inTimer, St.blocked]
  have hz : s.tl = .zero := by
    rcases w.k1 (by cases hlp : s.lpc <;> simp_all [LPc.inTimer, LPc.checked]) hq with h0 | ⟨f, hf, _⟩
    · exact h0
    · rw [hc] at hf; cases hf
  obtain ⟨h1, h2, h3⟩ := never_blocks_until_dispatch h hc hq hnb hl hr
  refine ⟨hz, by simp [step, Lab.isFirer, stepLoop, hz], ?_, h1, h2⟩
  intro hck
  rcases (reach_winv (reach_of_run h hr)).k1 hck h2 with h0 | ⟨f, hf, _⟩
  · exact h0
  · rw [h3] at hf; cases hf

/-- **Seed C03-d (negative lemma).**  With the test of `reduce_time_left` moved out of the lock the stuck
    state IS reachable: the Timer handler tests (time left < 0: "there is work"), a foreign `fire()` runs
    completely (lowers the time left to 0, finds no `resume`), the Timer handler writes T > 0 under the
    lock, the waiter waits for T with the event queued and no signal. -/
theorem c03d_unlocked_test_witness :
    (runD ⟨init .fallback, false⟩ (mutPrefix ++ mutFire ++ mutRest)).any
      (fun m => m.s.blocked && !m.s.q.pending.isEmpty && m.s.cs.isNone && m.s.sig == 0) = true := by
  decide

/-- ... while the real protocol refuses exactly the Timer's write of that run (the locked test sees 0) and
    continues into a wait with time-out 0 -/
theorem c03d_locked_test_refuses :
    (run (init .fallback) (mutPrefix ++ mutFire ++ [.lAcq])).any
      (fun s => (step s .tlwOther).isNone && (step s .lRel).isSome) = true ∧
    (run (init .fallback) (mutPrefix ++ mutFire ++
      [.lAcq, .lRel, .hsetW, .lAcq, .tlr .zero, .clr, .lRel, .tlr .zero, .tlr .zero])).any
      (fun s => !s.blocked && s.lpc == .done) = true := by
  decide

/-! ### non-vacuity -/

/-- a run of the fallback variant: first tick, loop goes to sleep, firer 1 appends its event -/
def exLabels : List Lab :=
  [.lIncr, .lAppGe 1 .neg, .snap 2, .pop 0 0, .hwOther, .hwNone, .pop 0 1, .lAcq, .hwGe, .lRel,
   .hsetW, .lAcq, .tlr .neg, .clr, .lRel, .tlr .neg, .tlr .neg,
   .fAcq 1, .fHr 1 .ge, .fIncr 1, .fApp 1 0]

def exFinish : List Lab := [.fTlwZero 1, .fHsetR 1 true, .fSig 1, .fRel 1]

/-- the hypotheses of `no_lost_wakeup` are satisfiable with the firer mid-section (flag unset) -/
example : (run (init .fallback) exLabels).any
    (fun s => s.blocked && !s.q.pending.isEmpty && s.cs.isSome && s.sig == 0) = true := by decide

/-- ... and those of `wake_without_timeout` after the firer has left -/
example : (run (init .fallback) (exLabels ++ exFinish)).any
    (fun s => s.blocked && !s.q.pending.isEmpty && s.cs.isNone && s.sig == 1) = true := by decide

/-- the poller variant reaches its blocked select with a byte in the pipe -/
example : (run (init .poller)
    [.lIncr, .lAppGe 1 .neg, .snap 2, .pop 0 0, .hwOther, .hwNone, .pop 0 1, .lAcq, .hwGe, .lRel,
     .hsetW, .tlr .neg, .fAcq 1, .fHr 1 .ge, .fIncr 1, .fApp 1 0, .fTlwZero 1, .fHsetR 1 true,
     .fSig 1, .fRel 1]).any
    (fun s => s.blocked && !s.q.pending.isEmpty && s.cs.isNone && s.sig == 1) = true := by decide

/-- two firers, dispatch in a later tick: the log holds both events exactly once -/
example : (run (init .fallback) (exLabels ++ exFinish ++
    [.fAcq 2, .fHr 2 .ge, .fIncr 2, .fApp 2 0, .fRel 2, .wake, .tlr .zero, .hwNone,
     .lIncr, .lAppGe 2 .neg, .snap 3, .pop 1 0, .hwOther, .hwNone, .pop 2 0, .hwOther, .hwNone,
     .pop 0 2])).any
    (fun s => s.q.pending.isEmpty && (s.q.log.map key == [(0, 0), (0, 1), (1, 0), (2, 0), (0, 2)])) = true := by
  decide

/-! ### non-vacuity of the Timer theorems (`mutPrefix`, `mutFire`: CV/Proofs/WakeTimer.lean) -/

/-- the rest of the iteration and the start of the next tick, as the loop thread runs it after a foreign
    `fire()` completed while it was at the first line of the Timer's `reduce_time_left(T)` -/
def exAfterFire : List Lab :=
  [.lAcq, .lRel, .hsetW, .lAcq, .tlr .zero, .clr, .lRel, .tlr .zero, .tlr .zero, .hwNone,
   .lIncr, .lAppGe 2 .pos, .snap 2]

/-- `timer_lowering_keeps_wake`: the Timer's write is enabled inside the handler (nothing queued) ... -/
example : (run (init .fallback) (mutPrefix ++ [.lAcq])).any
    (fun s => s.lpc.inTimer && (step s .tlwOther).isSome && s.tl == .neg) = true := by decide

/-- ... a second Timer's write is enabled from a positive time left as well (and may also be skipped) ... -/
example : (run (init .poller) (mutPrefix ++ [.lAcq, .tlwOther, .lRel, .hsetWnoResume, .lAcq])).any
    (fun s => s.lpc.inTimer && (step s .tlwOther).isSome && (step s .lRel).isSome && s.tl == .pos) = true := by
  decide

/-- ... and so are the steps of a firer, at every program point of the handler -/
example : (run (init .fallback) mutPrefix).any
    (fun s => s.lpc.inTimer && (run s mutFire).any (fun s' => s'.lpc.inTimer && s'.tl == .zero && s.tl == .neg))
      = true := by decide

/-- `zero_stays_zero`, `never_blocks_until_dispatch`, `rtl_positive_never_blocks_with_queued`: the hypotheses
    hold after that `fire()`, and the loop-only run to the next dispatch exists (with a next generate_events
    whose initial time left is positive: `checked` is false there) -/
example : (run (init .fallback) (mutPrefix ++ mutFire)).any
    (fun s => s.lpc.inTimer && s.cs.isNone && !s.q.pending.isEmpty && !s.blocked && s.tl == .zero &&
      (run s exAfterFire).any (fun s' => s'.lpc == .pops && s'.tl == .pos) &&
      (run s (exAfterFire.take 9)).any (fun s' => s'.lpc == .done && s'.tl == .zero) &&
      exAfterFire.all (fun l => !l.isFirer && !l.isPop) && (exAfterFire.take 9).all (fun l => !l.isAppGe))
      = true := by decide

/-- `no_stuck_state`: each conjunct alone is reachable (blocked with an event queued and the signal unset,
    the firer still inside: first example of this section; here: blocked, firer gone, nothing queued) -/
example : (run (init .fallback) (mutPrefix ++ [.lAcq, .tlwOther, .lRel] ++ mutRest.drop 3)).any
    (fun s => s.blocked && s.q.pending.isEmpty && s.cs.isNone && s.sig == 0 && s.tmo == .pos) = true := by decide

/-- the positive branch end to end: Timer lowers to T, waiter waits for T, a firer wakes it, 0 is read -/
example : (run (init .poller) (mutPrefix ++ [.lAcq, .tlwOther, .lRel, .hsetW, .tlr .pos] ++
    [.fAcq 1, .fHr 1 .ge, .fIncr 1, .fApp 1 0, .fTlwZero 1, .fHsetR 1 true, .fSig 1, .fRel 1,
     .selRet true, .pipeRd])).any
    (fun s => s.lpc == .done && s.sig == 0 && s.tl == .zero) = true := by decide

end CV.C03

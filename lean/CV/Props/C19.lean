import CV.Proofs.Node
import CV.Proofs.NodeEvent
import CV.Proofs.NodeTwoProg
import CV.Proofs.NodeTwoK
import CV.Proofs.NodeTwoToy
import CV.Proofs.NodeTwoFwToy
import CV.Proofs.NodeTwoGate
import CV.Proofs.NodeSym
import CV.Proofs.NodeSymOne
import CV.Proofs.NodeSymOne2
import CV.Proofs.NodeSymBoth
/-
C19 — Node: remote events run once and return their result; peers cannot harm the loop.

Property theorems about CV.Model.Node (the model of circuits/node/protocol.py and utils.py
after the `fix:` commits).  JSON is an oracle: every theorem holds for *every* oracle
`proc` / `parse`; what is assumed about the oracle is an explicit hypothesis
(`CodecOK`, `StreamOK`, `Good`), exercised by the correspondence check on the real `json`.
-/
namespace CV.C19
open CV.Node

/-- **framing**: for a stream in which no piece makes the handler fail and every unterminated
    piece that parses is a whole packet followed by the delimiter, *any* segmentation into
    reads processes exactly the delimiter-terminated pieces that parse, each once, in order,
    and ends with the unterminated tail in the buffer. -/
theorem framing_exact (proc : Bytes → POut) (hC : CodecOK proc) (S : Bytes) (hS : StreamOK proc S)
    (segs : List Bytes) (h : segs.flatten = S) :
    feedAll proc [] segs = ((splitD S).2, okPieces proc (splitD S).1, false) := by
  have hI : Inv proc [] segs.flatten [] [] := .plain (by simp [splitD_nil]) (by simp [splitD_nil, okPieces])
  obtain ⟨h1, h2, h3⟩ := feedAll_inv hC hS segs [] [] [] (by simp [h]) hI
  simp at h2
  ext <;> simp [h1, h2, h3]

/-- two ways of cutting the same stream into reads are indistinguishable -/
theorem segmentation_invariant (proc : Bytes → POut) (hC : CodecOK proc) (S : Bytes) (hS : StreamOK proc S)
    (segs₁ segs₂ : List Bytes) (h₁ : segs₁.flatten = S) (h₂ : segs₂.flatten = S) :
    feedAll proc [] segs₁ = feedAll proc [] segs₂ := by
  rw [framing_exact proc hC S hS segs₁ h₁, framing_exact proc hC S hS segs₂ h₂]

/-- **packets_exact**: packets written by a correct peer (`Good`: `~`-free thanks to the escape,
    parse, no proper prefix parses) are processed exactly once each, in order, whatever the cut
    list - including cuts inside a packet, inside the delimiter, and reads that span many packets. -/
theorem packets_exact (proc : Bytes → POut) (hC : CodecOK proc) (pkts : List Bytes)
    (hG : ∀ p ∈ pkts, Good proc p) (segs : List Bytes) (h : segs.flatten = stream pkts) :
    feedAll proc [] segs = ([], pkts, false) := by
  obtain ⟨hS, hsplit⟩ := stream_good hC pkts hG
  rw [framing_exact proc hC _ hS segs h, hsplit]
  have : okPieces proc pkts = pkts := by
    unfold okPieces
    apply List.filter_eq_self.mpr
    intro p hp; simp [(hG p hp).done]
  simp [this]

/-- **delimiter_free**: what `dump_event` / `dump_value` put on the wire never contains `~`
    before the delimiter, for every JSON text (payloads containing `~~~` included) -/
theorem delimiter_free (body : Bytes) : TILDE ∉ escTilde body ∧ wireOk (wire body) = true := by
  have h := escTilde_noTilde body
  refine ⟨h, ?_⟩
  unfold wireOk wire
  have hl : (escTilde body ++ DELIM).length - 3 = (escTilde body).length := by simp [DELIM]
  rw [hl]
  simp [DELIM, h]

/-- the buffer never holds something that already is a packet: nothing is delayed, nothing
    can be processed a second time by a later read -/
theorem buffer_incomplete (proc : Bytes → POut) (buf data : Bytes) :
    (feed proc buf data).buf = [] ∨ proc (feed proc buf data).buf = .valueError := by
  unfold feed
  simp only
  split
  · exact Or.inl rfl
  · split
    · exact Or.inl rfl
    · rename_i h; exact Or.inr h
    · exact Or.inl rfl

/-- an event the local code can build and JSON can carry -/
def WellFormed (e : Ev) : Prop :=
  e.name.toList.contains (Char.ofNat 0) = false ∧ e.kwargs.any (fun kv => kwClash kv.1) = false ∧
  e.channels.all J.hashable = true

/-- what `load_event` makes of `dump_event(e, id)`: the same event, attributes filtered -/
def decoded (excl : List String) (e : Ev) : Ev :=
  ⟨e.name, e.args, e.kwargs, e.success, e.failure, e.notify, e.channels,
   applyMeta excl [] (e.attrs.filter (fun kv => !excl.contains kv.1))⟩

/-- **codec_roundtrip**: `load_event(dump_event(e, id))` returns `id` and an event with the same
    name, args, kwargs, channels and success / failure / notify flags -/
theorem codec_roundtrip (excl : List String) (e : Ev) (id : J) (hw : WellFormed e) :
    loadEvent excl (dumpEvent excl e id) = .ok (decoded excl e, id) ∧
      (decoded excl e).name = e.name ∧ (decoded excl e).args = e.args ∧ (decoded excl e).kwargs = e.kwargs ∧
      (decoded excl e).channels = e.channels ∧ (decoded excl e).success = e.success ∧
      (decoded excl e).failure = e.failure ∧ (decoded excl e).notify = e.notify := by
  obtain ⟨h1, h2, h3⟩ := hw
  refine ⟨?_, rfl, rfl, rfl, rfl, rfl, rfl, rfl⟩
  simp [loadEvent, dumpEvent, decoded, J.lookup, J.iter, pyDict, strKeys_map, J.truthy, h2, h3]
  simpa using h1

example : WellFormed ⟨"foo", [.str "x~~~y"], [("value", .null)], true, false, false, [.str "app"], []⟩ := by
  refine ⟨by decide, by decide, by decide⟩

/-- **meta_safe**: whatever JSON a peer sends, if `load_event` accepts it then no attribute named
    in the exclusion set was set from `meta`, and the channels are hashable.  With
    `criticalOk excl critical` (evaluated on the live `META_EXCLUDE` at every run) this covers
    every attribute the dispatcher reads. -/
theorem meta_safe (excl critical : List String) (hc : criticalOk excl critical = true) (j : J) (e : Ev) (id : J)
    (h : loadEvent excl j = .ok (e, id)) :
    (∀ k ∈ critical, e.attr k = none) ∧ e.channels.all J.hashable = true := by
  obtain ⟨h1, h2⟩ := loadEvent_ok h
  refine ⟨?_, h2⟩
  intro k hk
  apply h1
  simp only [criticalOk, List.all_eq_true] at hc
  simpa using hc k hk

example : criticalOk ["cause", "effects", "value"] ["cause", "value"] = true := by decide

/-- **firewall (send)**: a rejected event produces no effect at all: nothing is written, no id is
    used, nothing waits -/
theorem firewall_send (c : Cfg) (s : Proto) (e : Ev) (nr : Bool) (h : c.sendOk e = false) :
    send c s e nr = (s, []) := by
  simp [send, h]

/-- **firewall (receive)**: a packet whose event the receive firewall rejects is never fired;
    the only effect is the (empty) answer to the sender -/
theorem firewall_recv (c : Cfg) (s : Proto) (j : J) (e : Ev) (id : J)
    (hv : isValuePacket j = false) (hl : loadEvent c.excl j = .ok (e, id)) (h : c.recvOk e = false) :
    processJ c s j = (s, [.write (dumpValue c.excl id (.bool false) .null e.attrs)]) := by
  simp [processJ, hv, hl, h]

/-- **once (per packet)**: a call packet written by `send` is, on the receiving side, one `fire`
    of the decoded event with the sender's id - not a result packet, whatever its arguments
    contain (a keyword argument named `value` included) -/
theorem call_fired_once (c : Cfg) (s : Proto) (e : Ev) (id : J) (hw : WellFormed e)
    (hr : c.recvOk (decoded c.excl e) = true) :
    processJ c s (dumpEvent c.excl e id) = (s, [.fire (decoded c.excl e) id]) := by
  have hl := (codec_roundtrip c.excl e id hw).1
  have hv : isValuePacket (dumpEvent c.excl e id) = false := by
    simp [isValuePacket, dumpEvent, J.lookup]
  simp [processJ, hv, hl, hr]

/-- **once**: the calls `(e₁,id₁) … (eₙ,idₙ)` written by a peer (packet `i` parses to
    `dump_event(eᵢ, idᵢ)`; `Good`: what the oracle says about dumped, escaped JSON objects), accepted
    by the receive firewall, are fired exactly once each, in order, with their ids and nothing
    else happens - for every cut of the byte stream into reads. -/
theorem calls_exactly_once (c : Cfg) (parse : Bytes → PRes) (s : Proto) (hb : s.buf = [])
    (calls : List (Bytes × Ev × J))
    (hpk : ∀ t ∈ calls, parse t.1 = .parsed (dumpEvent c.excl t.2.1 t.2.2) ∧
              WellFormed t.2.1 ∧ c.recvOk (decoded c.excl t.2.1) = true)
    (hC : CodecOK (procOf c.excl parse)) (hG : ∀ t ∈ calls, Good (procOf c.excl parse) t.1)
    (segs : List Bytes) (h : segs.flatten = stream (calls.map (·.1))) :
    (recvAll c parse s segs).2 = calls.map (fun t => Eff.fire (decoded c.excl t.2.1) t.2.2) := by
  have hG' : ∀ p ∈ calls.map (·.1), Good (procOf c.excl parse) p := by
    intro p hp
    obtain ⟨t, ht, rfl⟩ := List.mem_map.mp hp
    exact hG t ht
  rw [recvAll_eq, hb, packets_exact _ hC _ hG' segs h]
  simp only
  clear hG hG' h hb hC
  induction calls with
  | nil => simp [processAll]
  | cons t ts ih =>
    obtain ⟨hp, hw, hr⟩ := hpk t (by simp)
    simp only [List.map_cons, processAll, hp, call_fired_once c s _ _ hw hr]
    rw [ih (fun t' ht' => hpk t' (by simp [ht']))]
    simp

/-- **and back (per packet)**: the result packet for call `n` resolves exactly the waiting call
    `n` with the value and error flag it carries -/
theorem answer_routed (c : Cfg) (s : Proto) (n : Nat) (r : String) (z : Bool) (v er : J)
    (attrs : List (String × J)) (hp : s.pending.any (·.id = n) = true) :
    processJ c s (dumpValue c.excl (.num r (some n) z) er v attrs) =
      ({ s with pending := resolvePending s.pending n v er
                  ((attrs.filter (fun kv => !c.excl.contains kv.1 && !kv.1.startsWith "__")).filter
                    (fun kv => metaOk c.excl kv.1)) },
       [.resolve n v er]) := by
  have hv : isValuePacket (dumpValue c.excl (.num r (some n) z) er v attrs) = true := by
    simp [isValuePacket, dumpValue, J.lookup]
  unfold processJ
  rw [if_pos hv]
  simp [loadValue, dumpValue, J.lookup, J.natKey, hp]

/-- other waiting calls are not touched by the answer to call `n` -/
theorem answer_isolated (ps : List Pending) (n : Nat) (v er : J) (m : List (String × J)) (p : Pending)
    (hp : p ∈ ps) (hn : p.id ≠ n) : p ∈ resolvePending ps n v er m := by
  unfold resolvePending
  apply List.mem_map.mpr
  exact ⟨p, hp, by simp [hn]⟩

/-- witness for the known finding `no-answer(remote-handler-raised)`: the only thing that ends
    the wait for call `n` is a result packet; a call packet (or anything that is not a result
    for `n`) leaves it waiting.  The real peer sends no result when its handler raises. -/
theorem unanswered_waits_witness (c : Cfg) (s : Proto) (j : J) (n : Nat) (hv : isValuePacket j = false) :
    poll (processJ c s j).1 n = poll s n := by
  unfold processJ
  rw [if_neg (by simp [hv])]
  split
  · split <;> rfl
  · rfl

/-- the hypotheses about the oracle are satisfiable: a toy codec in which `{}` is the only packet -/
def demoProc (p : Bytes) : POut := if p = [123, 125] then .done else .valueError

example : CodecOK demoProc := ⟨by decide, by decide, by decide⟩

example : Good demoProc [123, 125] := by
  refine ⟨by decide, by decide, ?_, by decide, by decide⟩
  intro q r h hr
  have hq : q ≠ [123, 125] := by
    intro hq; subst hq; simp at h; exact hr h
  simp [demoProc, hq]

example : feedAll demoProc [] [[123], [125, 126], [126, 126, 123, 125], [126, 126, 126]] =
    ([], [[123, 125], [123, 125]], false) := by
  apply packets_exact demoProc ⟨by decide, by decide, by decide⟩ [[123, 125], [123, 125]]
  · intro p hp
    have : p = [123, 125] := by simpa using hp
    subst this
    refine ⟨by decide, by decide, ?_, by decide, by decide⟩
    intro q r h hr
    have hq : q ≠ [123, 125] := by
      intro hq; subst hq; simp at h; exact hr h
    simp [demoProc, hq]
  · decide

/-! ## once and back: two protocol instances, two byte streams, arbitrary schedules

The composition (`n2_World`, `n2_step`, `n2_run`, `n2_stepK` in CV/Model/NodeTwo.lean - core Lean, executed
by `cvdriver node2` against real endpoints on every run of the check) wires the model
functions `send`, `recv`, `sendResult`, `poll`, `finish` of a caller A and a callee B back to
back.  A schedule is any list of steps `send | deliverAB n | answer id | deliverBA n | poll id`:
where the reads cut the two streams, how sends, reads, handler returns and generator polls
interleave and in which order B's handlers return is arbitrary; only the order of the bytes
within a stream is fixed.  `n2_Hyp` collects the hypotheses (those of `calls_exactly_once`, for
both directions): what the JSON oracle says about the packets that occur (`CodecOK`, `Good`,
`parse (dumps j) = j`), well-formed events, open firewalls, and `returns`: B's handlers return.
The theorems are `_partial` because of `returns` - without it the statement is false (known
finding `no-answer(remote-handler-raised)`, `once_and_back_witness`). -/

-- the two-party files restate `decoded` / `WellFormed` under their own names
example : @n2_decoded = @decoded := rfl
example : @n2_WellFormed = @WellFormed := rfl

/-- what must hold at *every* moment of a run: (a) B has dispatched an initial part of the calls
    A made - each once, in send order, with A's ids, nothing else; (b) the answers A accepted
    are answers to distinct calls that B has dispatched, each carrying the value B's handler
    returned for the call with *that* id; (c) A's generators yielded only such values, each
    call at most once; no read handler failed -/
def Safe (E : n2_Env) (calls : List Ev) (w : n2_World) : Prop :=
  w.fired <+: (List.range calls.length).map (fun i => (decoded E.excl (n2_callEv calls i), n2_idJ i)) ∧
  (∃ order : List Nat, order.Nodup ∧ (∀ i ∈ order, i < w.fired.length) ∧
      w.resolved = order.map (fun i => (i, n2_val E calls i, J.bool false))) ∧
  (∃ order : List Nat, order.Nodup ∧ (∀ i ∈ order, (i, n2_val E calls i, J.bool false) ∈ w.resolved) ∧
      w.yielded = order.map (fun i => (i, [n2_val E calls i], n2_errs E calls i))) ∧
  w.aborted = false

/-- what must hold once nothing is in flight and every handler has returned: every call was
    dispatched exactly once in send order, every call got exactly its own answer (in whatever
    order), every entry still registered on A is finished with exactly that one value, both
    buffers are empty, B registered nothing -/
def Completed (E : n2_Env) (calls : List Ev) (w : n2_World) : Prop :=
  w.fired = (List.range calls.length).map (fun i => (decoded E.excl (n2_callEv calls i), n2_idJ i)) ∧
  w.resolved.Perm ((List.range calls.length).map (fun i => (i, n2_val E calls i, J.bool false))) ∧
  (∀ p ∈ w.a.pending, p.finished = true ∧ p.id < calls.length ∧
      p.values = [n2_val E calls p.id] ∧ p.errors = n2_errs E calls p.id) ∧
  w.a.buf = [] ∧ w.b.buf = [] ∧ w.b.pending = [] ∧ w.aborted = false

/-- **once and back (safety)**: for every list of calls, every behaviour of B's handlers that
    returns, every schedule - at every moment -/
theorem once_and_back_safety_partial (E : n2_Env) (calls : List Ev) (H : n2_Hyp E calls)
    (sched : List n2_Step) : Safe E calls (n2_run E (n2_init calls) sched) :=
  n2_safety (n2_reach_run H sched ⟨0, 0, 0, [], [], n2_inv_init E calls⟩)

/-- **once and back**: whenever a schedule has brought the world to rest (all calls made, both
    streams delivered, all handlers returned) -/
theorem once_and_back_partial (E : n2_Env) (calls : List Ev) (H : n2_Hyp E calls)
    (sched : List n2_Step) (q : n2_Quiescent (n2_run E (n2_init calls) sched)) :
    Completed E calls (n2_run E (n2_init calls) sched) :=
  n2_complete H (n2_reach_run H sched ⟨0, 0, 0, [], [], n2_inv_init E calls⟩) q

/-- **no residue**: … and after each waiting generator has been resumed once more, every call
    has yielded exactly its own value (and error flag), A has no entry left, and the world is
    still at rest -/
theorem once_and_back_no_residue_partial (E : n2_Env) (calls : List Ev) (H : n2_Hyp E calls)
    (sched : List n2_Step) (q : n2_Quiescent (n2_run E (n2_init calls) sched)) :
    let w := n2_run E (n2_init calls) (sched ++ (List.range calls.length).map n2_Step.poll)
    w.a.pending = [] ∧
      w.yielded.Perm ((List.range calls.length).map (fun i => (i, [n2_val E calls i], n2_errs E calls i))) ∧
      n2_Quiescent w ∧ Completed E calls w := by
  intro w
  have hr := n2_reach_run H sched ⟨0, 0, 0, [], [], n2_inv_init E calls⟩
  obtain ⟨h1, h2, h3, h4⟩ := n2_complete_polled H hr q
  have e : w = n2_run E (n2_run E (n2_init calls) sched) ((List.range calls.length).map n2_Step.poll) :=
    n2_run_append _ _ _ _
  rw [e]
  exact ⟨h1, h2, h3, n2_complete H h4 h3⟩

/-- **no deadlock**: every schedule can be continued to rest, so the hypothesis of the two
    theorems above is satisfiable after every prefix of every run -/
theorem once_and_back_progress_partial (E : n2_Env) (calls : List Ev) (H : n2_Hyp E calls)
    (sched : List n2_Step) : ∃ more, n2_Quiescent (n2_run E (n2_init calls) (sched ++ more)) := by
  obtain ⟨more, h⟩ := n2_progress H (n2_reach_run H sched ⟨0, 0, 0, [], [], n2_inv_init E calls⟩)
  exact ⟨more, by rw [n2_run_append]; exact h⟩

/-- witness for the excluded case (`no-answer(remote-handler-raised)`): when B's handler raises,
    its return puts nothing on the stream and changes nothing on A - and only a result packet
    ends A's wait (`unanswered_waits_witness`) -/
theorem once_and_back_witness (E : n2_Env) (hraise : ∀ k e, E.beh k e = none) (w : n2_World) (n : Nat) :
    (n2_step E w (.answer n)).ba = w.ba ∧ (n2_step E w (.answer n)).a = w.a ∧
      (n2_step E w (.answer n)).ab = w.ab := by
  simp only [n2_step, n2_takeAnswer]
  split
  · exact ⟨rfl, rfl, rfl⟩
  · rename_i w' r h
    split at h
    · cases h
    · cases h; simp [n2_resultHandler, hraise]

/-! ## k connections on the server side -/

/-- **answers stay on the calling connection**: whatever happens on connection `j` - in
    particular a handler return, whose `_success` event the `result_handler` of every Protocol
    of the server sees - leaves every other connection untouched: no byte is appended to
    another connection's stream -/
theorem answer_on_calling_connection_only (Es : Nat → n2_Env) (ws : List n2_World) (j j' : Nat)
    (st : n2_Step) (h : j' ≠ j) : (n2_stepK Es ws (j, st))[j']? = ws[j']? :=
  n2_stepK_other Es ws j j' st h

/-- **once and back, k connections**: in every interleaving of the steps of k connections
    (`callss[j]` are the calls client j makes; ids are per connection, so different connections
    use the same ids) connection j goes through exactly the two-party run of its own steps, hence
    everything above holds for it: its calls are dispatched once each in order, and its
    waiting calls get their own answers - never those of a call with the same id on another
    connection -/
theorem once_and_back_k_partial (Es : Nat → n2_Env) (callss : List (List Ev))
    (sched : List (Nat × n2_Step)) (j : Nat) (calls : List Ev) (hj : callss[j]? = some calls)
    (H : n2_Hyp (Es j) calls) :
    ∃ w, (n2_runK Es (callss.map n2_init) sched)[j]? = some w ∧
      w = n2_run (Es j) (n2_init calls) (n2_proj j sched) ∧
      Safe (Es j) calls w ∧ (n2_Quiescent w → Completed (Es j) calls w) := by
  refine ⟨_, ?_, rfl, once_and_back_safety_partial (Es j) calls H _,
    fun q => once_and_back_partial (Es j) calls H _ q⟩
  rw [n2_runK_proj]
  simp [hj]

/-! ## non-vacuity of the two-party theorems

`n2_toyEnv` (CV/Proofs/NodeTwoToy.lean): two calls `ping("x~~~y")`, `pong(value=None)`, a handler
that returns the call number, and a toy JSON in which `{c0} {c1} {v0} {v1}` are the only packets. -/

example : n2_Hyp n2_toyEnv n2_toyCalls := n2_toy_hyp

/-- reads that cut inside packets and inside delimiters, the second call sent while the first
    is half delivered, answers in reverse order, a poll before the answer arrived -/
def demoSched : List n2_Step :=
  [.send, .deliverAB 2, .send, .deliverAB 5, .poll 0, .deliverAB 100, .answer 1, .deliverBA 3,
   .answer 0, .poll 1, .deliverBA 6, .deliverBA 100, .poll 0, .poll 1]

example : Safe n2_toyEnv n2_toyCalls (n2_run n2_toyEnv (n2_init n2_toyCalls) demoSched) :=
  once_and_back_safety_partial _ _ n2_toy_hyp _

/-- the hypothesis `n2_Quiescent` is reachable (from every prefix of every schedule), and then
    everything has come back -/
example : ∃ more,
    n2_Quiescent (n2_run n2_toyEnv (n2_init n2_toyCalls) (demoSched ++ more)) ∧
    Completed n2_toyEnv n2_toyCalls (n2_run n2_toyEnv (n2_init n2_toyCalls) (demoSched ++ more)) := by
  obtain ⟨more, q⟩ := once_and_back_progress_partial _ _ n2_toy_hyp demoSched
  exact ⟨more, q, once_and_back_partial _ _ n2_toy_hyp _ q⟩

/-- the hypothesis of the witness: a handler that always raises -/
example : ∀ k e, ({ n2_toyEnv with beh := fun _ _ => none } : n2_Env).beh k e = none := fun _ _ => rfl

/-- two connections whose clients make the same calls with the same ids -/
example (sched : List (Nat × n2_Step)) :
    ∃ w, (n2_runK (fun _ => n2_toyEnv) ([n2_toyCalls, n2_toyCalls].map n2_init) sched)[1]? = some w ∧
      w = n2_run n2_toyEnv (n2_init n2_toyCalls) (n2_proj 1 sched) ∧
      Safe n2_toyEnv n2_toyCalls w ∧ (n2_Quiescent w → Completed n2_toyEnv n2_toyCalls w) :=
  once_and_back_k_partial (fun _ => n2_toyEnv) _ sched 1 n2_toyCalls rfl n2_toy_hyp

example : (1 : Nat) ≠ 0 := by decide

/-! ## the receive firewall in the two-party world; answers are not mixed

`n2f_Hyp` (CV/Proofs/NodeTwoFw.lean) is `n2_Hyp` without "B's receive firewall accepts every call":
the verdict `n2f_acc E calls i = E.recvOkB (decoded call i)` is free per call.  A rejected call is
answered by B's protocol itself, at once, with the empty result (`null`); the handler index of an
accepted call is its rank among the accepted ones.  `n2f_val i` = what B's handler returned for call
`i` if it was accepted, `null` otherwise.  Still `_partial`: handlers of *accepted* calls return. -/

/-- **the firewall is a gate** (no hypothesis at all: any bytes, any cuts, any peer, any handlers):
    at every moment of every schedule, every event that was dispatched on B had been accepted by
    B's receive firewall - a rejected event is never executed -/
theorem rejected_never_executed (E : n2_Env) (calls : List Ev) (sched : List n2_Step) :
    ∀ x ∈ (n2_run E (n2_init calls) sched).fired, E.recvOkB x.1 = true :=
  n2_run_gate E sched (n2_init calls) (by simp [n2_init])

/-- at every moment, with a firewall that rejects some calls -/
def SafeFw (E : n2_Env) (calls : List Ev) (w : n2_World) : Prop :=
  w.fired <+: ((List.range calls.length).filter (n2f_acc E calls)).map
      (fun i => (decoded E.excl (n2_callEv calls i), n2_idJ i)) ∧
  (∃ order : List Nat, order.Nodup ∧ (∀ i ∈ order, i < calls.length) ∧
      w.resolved = order.map (fun i => (i, n2f_val E calls i, J.bool false))) ∧
  (∃ order : List Nat, order.Nodup ∧ (∀ i ∈ order, (i, n2f_val E calls i, J.bool false) ∈ w.resolved) ∧
      w.yielded = order.map (fun i => (i, [n2f_val E calls i], n2f_errs E calls i))) ∧
  w.aborted = false

/-- at rest, with a firewall that rejects some calls -/
def CompletedFw (E : n2_Env) (calls : List Ev) (w : n2_World) : Prop :=
  w.fired = ((List.range calls.length).filter (n2f_acc E calls)).map
      (fun i => (decoded E.excl (n2_callEv calls i), n2_idJ i)) ∧
  w.resolved.Perm ((List.range calls.length).map (fun i => (i, n2f_val E calls i, J.bool false))) ∧
  (∀ p ∈ w.a.pending, p.finished = true ∧ p.id < calls.length ∧
      p.values = [n2f_val E calls p.id] ∧ p.errors = n2f_errs E calls p.id) ∧
  w.a.buf = [] ∧ w.b.buf = [] ∧ w.b.pending = [] ∧ w.aborted = false

/-- **once and back behind a firewall (safety)**: for every firewall verdict per call, every schedule
    (every cut list of both byte streams, every interleaving, handlers returning in any order), at
    every moment: exactly the accepted calls are dispatched, at most once, in order; every answer
    A accepts and every value a waiting caller is resumed with is the one of *its own* call -/
theorem once_and_back_firewall_safety_partial (E : n2_Env) (calls : List Ev) (H : n2f_Hyp E calls)
    (sched : List n2_Step) : SafeFw E calls (n2_run E (n2_init calls) sched) :=
  n2f_safety E calls H sched

/-- **once and back behind a firewall**: at rest every accepted call was dispatched exactly once,
    no rejected one, and every call - accepted or rejected - got exactly one answer, its own -/
theorem once_and_back_firewall_partial (E : n2_Env) (calls : List Ev) (H : n2f_Hyp E calls)
    (sched : List n2_Step) (q : n2_Quiescent (n2_run E (n2_init calls) sched)) :
    CompletedFw E calls (n2_run E (n2_init calls) sched) :=
  n2f_complete E calls H sched q

/-- … and after every waiting generator has been resumed once more nothing is left on A -/
theorem once_and_back_firewall_no_residue_partial (E : n2_Env) (calls : List Ev) (H : n2f_Hyp E calls)
    (sched : List n2_Step) (q : n2_Quiescent (n2_run E (n2_init calls) sched)) :
    let w := n2_run E (n2_init calls) (sched ++ (List.range calls.length).map n2_Step.poll)
    w.a.pending = [] ∧
      w.yielded.Perm ((List.range calls.length).map (fun i => (i, [n2f_val E calls i], n2f_errs E calls i))) ∧
      n2_Quiescent w :=
  n2f_complete_polled E calls H sched q

/-- **answers are not mixed**: k calls in flight, answers interleaved in any order, both streams
    cut anywhere: whenever a waiting caller is resumed, it is the caller of a call `i` that was
    made, it is resumed at most once, with exactly one value - the one belonging to call `i` (the
    return value of the handler run for call `i`, or `null` if B's firewall rejected call `i`) -
    and with the error flag of that answer -/
theorem answers_not_mixed_partial (E : n2_Env) (calls : List Ev) (H : n2f_Hyp E calls)
    (sched : List n2_Step) :
    let w := n2_run E (n2_init calls) sched
    (w.yielded.map (·.1)).Nodup ∧
      ∀ y ∈ w.yielded, y.1 < calls.length ∧ y.2.1 = [n2f_val E calls y.1] ∧ y.2.2 = n2f_errs E calls y.1 := by
  intro w
  obtain ⟨_, ⟨ro, _, hro, hres⟩, ⟨yo, hyn, hyr, hy⟩, _⟩ := n2f_safety E calls H sched
  have hy' : w.yielded = yo.map (n2f_expYield E calls) := hy
  refine ⟨?_, ?_⟩
  · rw [hy', List.map_map]
    have : ((fun x : Nat × List J × J => x.1) ∘ n2f_expYield E calls) = id := by
      funext i; rfl
    rw [this, List.map_id]; exact hyn
  · intro y hyy
    rw [hy'] at hyy
    obtain ⟨i, hi, rfl⟩ := List.mem_map.mp hyy
    refine ⟨?_, rfl, rfl⟩
    have hm := hyr i hi
    have hres' : (n2_run E (n2_init calls) sched).resolved = ro.map (n2f_expRes E calls) := hres
    rw [hres'] at hm
    obtain ⟨k, hk, hke⟩ := List.mem_map.mp hm
    have : k = i := congrArg Prod.fst hke
    subst this
    exact hro k hk

/-- **no forged result for a rejected call**: a caller whose call B's firewall rejected is never
    resumed with anything but the empty result - nothing any handler computed (none ran:
    `rejected_never_executed`), nothing belonging to another call -/
theorem rejected_call_gets_empty_answer_partial (E : n2_Env) (calls : List Ev) (H : n2f_Hyp E calls)
    (sched : List n2_Step) :
    ∀ y ∈ (n2_run E (n2_init calls) sched).yielded, n2f_acc E calls y.1 = false → y.2.1 = [J.null] := by
  intro y hy hr
  have h := (answers_not_mixed_partial E calls H sched).2 y hy
  rw [h.2.1, n2f_rejected_value E calls y.1 hr]

/-- the firewall-free theorems above are the special case "everything accepted" -/
theorem firewall_hyp_of_open (E : n2_Env) (calls : List Ev) (H : n2_Hyp E calls) : n2f_Hyp E calls :=
  n2f_hyp_of_hyp H

/-- **k connections, firewalls**: connection j of a server with k connections goes through exactly
    the two-party run of its own steps, so all of the above holds for it -/
theorem once_and_back_k_firewall_partial (Es : Nat → n2_Env) (callss : List (List Ev))
    (sched : List (Nat × n2_Step)) (j : Nat) (calls : List Ev) (hj : callss[j]? = some calls)
    (H : n2f_Hyp (Es j) calls) :
    ∃ w, (n2_runK Es (callss.map n2_init) sched)[j]? = some w ∧
      SafeFw (Es j) calls w ∧ (n2_Quiescent w → CompletedFw (Es j) calls w) ∧
      (∀ x ∈ w.fired, (Es j).recvOkB x.1 = true) := by
  refine ⟨n2_run (Es j) (n2_init calls) (n2_proj j sched), ?_, once_and_back_firewall_safety_partial (Es j) calls H _,
    fun q => once_and_back_firewall_partial (Es j) calls H _ q, rejected_never_executed (Es j) calls _⟩
  rw [n2_runK_proj]
  simp [hj]

/-! non-vacuity: `n2f_toyEnv` rejects `pong` (call 1 of 3) and accepts the two `ping`s -/

example : n2f_Hyp n2f_toyEnv n2f_toyCalls := n2f_toy_hyp
example : n2f_acc n2f_toyEnv n2f_toyCalls 0 = true ∧ n2f_acc n2f_toyEnv n2f_toyCalls 1 = false ∧
    n2f_acc n2f_toyEnv n2f_toyCalls 2 = true := n2f_toy_acc

/-- three calls in flight, the refusal of call 1 overtakes the answers, handlers return in reverse order -/
def demoSchedFw : List n2_Step :=
  [.send, .send, .send, .deliverAB 7, .deliverAB 100, .answer 2, .deliverBA 5, .answer 0, .deliverBA 100,
   .poll 1, .poll 0, .poll 2]

example : SafeFw n2f_toyEnv n2f_toyCalls (n2_run n2f_toyEnv (n2_init n2f_toyCalls) demoSchedFw) :=
  once_and_back_firewall_safety_partial _ _ n2f_toy_hyp _

example : ∀ y ∈ (n2_run n2f_toyEnv (n2_init n2f_toyCalls) demoSchedFw).yielded,
    n2f_acc n2f_toyEnv n2f_toyCalls y.1 = false → y.2.1 = [J.null] :=
  rejected_call_gets_empty_answer_partial _ _ n2f_toy_hyp _

example : n2f_Hyp n2_toyEnv n2_toyCalls := firewall_hyp_of_open _ _ n2_toy_hyp

example (sched : List (Nat × n2_Step)) :
    ∃ w, (n2_runK (fun _ => n2f_toyEnv) ([n2f_toyCalls, n2f_toyCalls].map n2_init) sched)[1]? = some w ∧
      SafeFw n2f_toyEnv n2f_toyCalls w ∧ (n2_Quiescent w → CompletedFw n2f_toyEnv n2f_toyCalls w) ∧
      (∀ x ∈ w.fired, n2f_toyEnv.recvOkB x.1 = true) :=
  once_and_back_k_firewall_partial (fun _ => n2f_toyEnv) _ sched 1 n2f_toyCalls rfl n2f_toy_hyp


/-! ## the symmetric composition: both ends originate calls on one connection; the send firewall

`ns_World`, `ns_step`, `ns_run` (CV/Model/NodeTwo.lean, executed by `cvdriver node2` ops `sstep …` against real endpoints
on every run of the check): end A and end B are the same protocol, each with its own id counter, its own table of
waiting calls, its own firewalls and its own handlers; each direction has ONE byte stream that carries the calls of its
writer and the writer's answers to the peer's calls, read by the peer in arbitrary cuts.  A schedule is any list of
`(end, send | deliver n | answer id | poll id)`.

All theorems of this section are hypothesis-free: no assumption on the JSON oracle, the bytes, the peer, the handlers.

NOT proved as one theorem (validated only: the correspondence runs of harness/c19.py compare `ns_step` with real endpoints
and judge the statement on the implementation's behaviour, signatures `symmetric-…`):

  symmetric_once_and_back_partial :  under the hypotheses of `n2f_Hyp` for both directions (handlers of accepted calls
    return), for every schedule: every call of A accepted by both firewalls is dispatched on B exactly once, in order, and
    A's generator for call k yields exactly the value B's handler returned for A's call k - and the same with A and B
    exchanged, both at once.

Proved towards it (end of this file, CV/Proofs/NodeSymBoth.lean): the packet-level core of the both-ends case -
`symmetric_calls_and_answers_do_not_interfere` (hypothesis-free: a mixed sequence of call and result packets is processed
as the two sequences would be processed separately), `symmetric_merged_read_partial` (one read of a mixed stream of the
concrete packets of two simultaneous conversations does to the reader exactly what the two-party callee and the
two-party caller do), `symmetric_mixed_stream_framing` (the reader's framing state is a prefix-consumer of the
mixed byte stream, for every cut).  What is still missing for the one theorem is the whole-run invariant that glues these
steps (the ghost interleaving of each direction's stream through sends, handler returns and polls).

What is proved here in addition are the parts of it that do not depend on the codec: gates, id separation, at-most-once
resumption, and everything about the send firewall. -/

/-- **a call rejected by the send firewall is never transmitted**: the step in which end A (resp. B) is handed a call its
    send firewall rejects changes nothing in the world except that the call is taken from `todo` and recorded in
    `blocked`: no byte is written on either stream, no id is consumed, nothing is registered in the table of waiting
    calls (so there is no generator left waiting: in the code the generator yields one empty `Value` and ends), nothing
    changes on the peer.  Third part: the same for the caller of the two-party world `n2_step`. -/
theorem send_rejected_never_transmitted (E : ns_Env) (w : ns_World) (e : Ev) (rest : List Ev) :
    (w.a.todo = e :: rest → E.base.sendOkA e = false →
      ns_step E w (false, .send) = { w with a := { w.a with todo := rest, blocked := w.a.blocked ++ [e] } }) ∧
    (w.b.todo = e :: rest → E.base.sendOkB e = false →
      ns_step E w (true, .send) = { w with b := { w.b with todo := rest, blocked := w.b.blocked ++ [e] } }) ∧
    (∀ w2 : n2_World, w2.todo = e :: rest → E.base.sendOkA e = false →
      n2_step E.base w2 .send = { w2 with todo := rest }) := by
  refine ⟨?_, ?_, ?_⟩
  · intro ht hb
    simp only [ns_step]
    rw [ns_act_send_blocked E.base.cA _ _ _ w.a w.b e rest ht hb]
    simp
  · intro ht hb
    simp only [ns_step]
    rw [ns_act_send_blocked E.base.cB _ _ _ w.b w.a e rest ht hb]
    simp
  · intro w2 ht hb
    simp only [n2_step, ht]
    rw [ns_send_blocked_proto E.base.cA w2.a e hb]
    simp [n2_wire]

/-- **blocked calls consume no id** (whole runs): after every schedule, the calls an end has handed to `send` so far split
    into those its send firewall rejected - exactly `blocked`, in order - and the accepted ones, and the id counter of
    that end equals the number of accepted ones: ids are allocated to transmitted calls only, independently per end -/
theorem send_rejected_consumes_no_id (E : ns_Env) (callsA callsB : List Ev) (sched : List (Bool × ns_Op)) :
    let w := ns_run E (ns_init callsA callsB) sched
    (∃ done, callsA = done ++ w.a.todo ∧ w.a.blocked = done.filter (fun e => !E.base.sendOkA e) ∧
        w.a.p.nid = (done.filter E.base.sendOkA).length) ∧
    (∃ done, callsB = done ++ w.b.todo ∧ w.b.blocked = done.filter (fun e => !E.base.sendOkB e) ∧
        w.b.p.nid = (done.filter E.base.sendOkB).length) :=
  ns_run_count E callsA callsB sched (ns_init callsA callsB) (ns_count_init _ _) (ns_count_init _ _)

/-- **ids of the two ends do not collide**: (1) a result packet - whatever its id, whatever state the receiving protocol
    is in - is never taken for a call: it makes the protocol neither dispatch nor write; (2) a call packet never resolves
    a waiting call and leaves the protocol untouched - so A's call k is never taken for the answer to B's call k;
    (3) at every moment of every schedule every answer an end has accepted carries an id that this end's OWN counter
    has issued (`< nid`: the id of a call it made itself - the result of A's call k travels B→A and can only be matched
    against A's table); (4) a step of one end changes nothing on the other end but the bytes in flight -/
theorem symmetric_ids_do_not_collide :
    (∀ (c : Cfg) (s : Proto) (excl : List String) (id er v : J) (attrs : List (String × J)),
        ∀ x ∈ (processJ c s (dumpValue excl id er v attrs)).2, ∃ n v' er', x = Eff.resolve n v' er') ∧
    (∀ (c : Cfg) (s : Proto) (excl : List String) (e : Ev) (id : J),
        (processJ c s (dumpEvent excl e id)).1 = s ∧ ∀ n v er, Eff.resolve n v er ∉ (processJ c s (dumpEvent excl e id)).2) ∧
    (∀ (E : ns_Env) (callsA callsB : List Ev) (sched : List (Bool × ns_Op)),
        let w := ns_run E (ns_init callsA callsB) sched
        (∀ x ∈ w.a.resolved, x.1 < w.a.p.nid) ∧ (∀ x ∈ w.b.resolved, x.1 < w.b.p.nid)) ∧
    (∀ (E : ns_Env) (w : ns_World) (op : ns_Op),
        (∃ o, (ns_step E w (false, op)).b = { w.b with out := o }) ∧
        (∃ o, (ns_step E w (true, op)).a = { w.a with out := o })) := by
  refine ⟨?_, ?_, ?_, ?_⟩
  · intro c s excl id er v attrs
    exact ns_value_packet_effects c s _ (ns_isValue_dumpValue excl id er v attrs)
  · intro c s excl e id
    exact ns_call_packet_effects c s _ (ns_isValue_dumpEvent excl e id)
  · intro E callsA callsB sched
    have h := ns_run_ok E sched _ (ns_ok_init E callsA callsB)
    exact ⟨h.a.res_lt, h.b.res_lt⟩
  · intro E w op
    exact ⟨ns_act_peer E.base.cA E.base.parse E.base.dumps E.behA w.a w.b op,
      ns_act_peer E.base.cB E.base.parse E.base.dumps E.base.beh w.b w.a op⟩

/-- **both receive firewalls are gates**: in the symmetric world, at every moment of every schedule, every event that was
    dispatched on an end had been accepted by that end's receive firewall -/
theorem symmetric_rejected_never_executed (E : ns_Env) (callsA callsB : List Ev) (sched : List (Bool × ns_Op)) :
    let w := ns_run E (ns_init callsA callsB) sched
    (∀ x ∈ w.a.fired, E.base.recvOkA x.1 = true) ∧ (∀ x ∈ w.b.fired, E.base.recvOkB x.1 = true) := by
  have h := ns_run_ok E sched _ (ns_ok_init E callsA callsB)
  exact ⟨h.gateA, h.gateB⟩

/-- **a waiting caller is resumed at most once, and only the caller of a call that was made**: on both ends, at every
    moment of every schedule, the ids with which generators were resumed are pairwise different, each was issued by this
    end's own counter, and none of them is still registered (no second answer can reach it: `answer_isolated`) -/
theorem symmetric_resumed_at_most_once (E : ns_Env) (callsA callsB : List Ev) (sched : List (Bool × ns_Op)) :
    let w := ns_run E (ns_init callsA callsB) sched
    ((w.a.yielded.map (·.1)).Nodup ∧ ∀ y ∈ w.a.yielded, y.1 < w.a.p.nid ∧ y.1 ∉ w.a.p.pending.map (·.id)) ∧
    ((w.b.yielded.map (·.1)).Nodup ∧ ∀ y ∈ w.b.yielded, y.1 < w.b.p.nid ∧ y.1 ∉ w.b.p.pending.map (·.id)) := by
  have h := ns_run_ok E sched _ (ns_ok_init E callsA callsB)
  exact ⟨⟨h.a.yl_nodup, fun y hy => ⟨h.a.yl_lt y hy, h.a.yl_notpend y hy⟩⟩,
    ⟨h.b.yl_nodup, fun y hy => ⟨h.b.yl_lt y hy, h.b.yl_notpend y hy⟩⟩⟩

/-! non-vacuity: the toy world with a send firewall on A that rejects `pong`; both ends make the toy calls -/

def symToyEnv : ns_Env :=
  { base := { n2_toyEnv with sendOkA := fun e => e.name != "pong" }, behA := fun k _ => some (.str (toString k), []) }

/-- the hypotheses of `send_rejected_never_transmitted` occur: after A's first send the next call is `pong`, rejected -/
example : ∃ e rest, (ns_step symToyEnv (ns_init n2_toyCalls n2_toyCalls) (false, .send)).a.todo = e :: rest ∧
    symToyEnv.base.sendOkA e = false := ⟨_, _, rfl, by decide⟩

/-- a run in which both ends have calls in flight with the same id 0, A's `pong` is blocked, answers cross -/
def demoSchedSym : List (Bool × ns_Op) :=
  [(false, .send), (true, .send), (false, .send), (true, .send), (true, .deliver 3), (false, .deliver 100),
   (true, .deliver 100), (false, .answer 0), (true, .answer 0), (false, .answer 1), (true, .deliver 100),
   (false, .deliver 2), (false, .deliver 100), (false, .poll 0), (true, .poll 0), (true, .poll 1)]

example : (ns_run symToyEnv (ns_init n2_toyCalls n2_toyCalls) demoSchedSym).a.blocked.length = 1 ∧
    (ns_run symToyEnv (ns_init n2_toyCalls n2_toyCalls) demoSchedSym).a.p.nid = 1 ∧
    (ns_run symToyEnv (ns_init n2_toyCalls n2_toyCalls) demoSchedSym).b.p.nid = 2 := by
  refine ⟨?_, ?_, ?_⟩ <;> decide +kernel


/-- **the symmetric world extends the two-party world conservatively** (the part of `symmetric_once_and_back` that is
    proved): when end B originates no calls, then for every schedule of the symmetric world - including B's idle sends
    and polls and A's handler-return steps - no event ever reaches A's application (B writes result packets only), and
    the symmetric run projected on (A caller, B callee) IS the two-party run of the corresponding steps; hence all of
    `SafeFw` / `CompletedFw` hold of it: exactly the calls accepted by B's firewall are dispatched on B, once, in order,
    and every caller on A is resumed with its own value.
    `_partial`: (1) one originating end only - the statement with both ends calling at once is not proved (see the
    section header; the mirrored statement, B calling and A idle, is `symmetric_once_and_back_oneway_mirrored_partial`); (2) "handlers of accepted calls return" (`n2f_Hyp.returns`, the known finding, witness
    `once_and_back_witness`); (3) A's send firewall accepts the calls (part of `n2f_Hyp`; rejected ones are covered by
    `send_rejected_never_transmitted`). -/
theorem symmetric_once_and_back_oneway_partial (E : ns_Env) (calls : List Ev) (H : n2f_Hyp E.base calls)
    (sched : List (Bool × ns_Op)) :
    let w := ns_proj2 (ns_run E (ns_init calls []) sched)
    (ns_run E (ns_init calls []) sched).a.fired = [] ∧
      w = n2_run E.base (n2_init calls) (sched.filterMap ns_toN2) ∧
      SafeFw E.base calls w ∧ (n2_Quiescent w → CompletedFw E.base calls w) := by
  intro w
  obtain ⟨hf, e⟩ := ns_oneway_reach E calls H sched _ (ns_one_init calls) rfl (n2f_reach_init E.base calls)
  have e' : w = n2_run E.base (n2_init calls) (sched.filterMap ns_toN2) := e
  refine ⟨hf, e', ?_, ?_⟩
  · rw [e']; exact once_and_back_firewall_safety_partial E.base calls H _
  · rw [e']; exact fun q => once_and_back_firewall_partial E.base calls H _ q

/-- non-vacuity: the firewall toy world (B rejects `pong`); B sends (nothing), polls, A's idle handler step in between -/
def symOneEnv : ns_Env := { base := n2f_toyEnv, behA := fun _ _ => none }

def demoSchedOne : List (Bool × ns_Op) :=
  [(false, .send), (true, .send), (false, .send), (false, .send), (true, .deliver 7), (false, .answer 0),
   (true, .deliver 100), (true, .answer 2), (false, .deliver 5), (true, .poll 0), (true, .answer 0),
   (false, .deliver 100), (false, .poll 1), (false, .poll 0), (false, .poll 2)]

example : n2f_Hyp symOneEnv.base n2f_toyCalls := n2f_toy_hyp

example : SafeFw n2f_toyEnv n2f_toyCalls (ns_proj2 (ns_run symOneEnv (ns_init n2f_toyCalls []) demoSchedOne)) :=
  (symmetric_once_and_back_oneway_partial symOneEnv n2f_toyCalls n2f_toy_hyp demoSchedOne).2.2.1

/-- the demo schedule really gets somewhere: all three calls made, two dispatched on B (`pong` is rejected) -/
example : (ns_run symOneEnv (ns_init n2f_toyCalls []) demoSchedOne).b.fired.length = 2 ∧
    (ns_run symOneEnv (ns_init n2f_toyCalls []) demoSchedOne).a.yielded.length = 3 := by
  refine ⟨?_, ?_⟩ <;> decide +kernel

/-- **the two ends are interchangeable**: exchanging the roles of A and B in the environment, the world and the schedule
    commutes with running - every theorem about end A is a theorem about end B -/
theorem symmetric_ends_interchangeable (E : ns_Env) (w : ns_World) (sched : List (Bool × ns_Op)) :
    ns_run (ns_swapE E) (ns_swapW w) (sched.map ns_swapS) = ns_swapW (ns_run E w sched) :=
  ns_run_swap E sched w

/-- … in particular **B calling, A idle** (B = the server-side protocol originates the calls, A executes them): the run
    seen from the other end is a two-party run with B as caller; same `_partial` clauses as above, the hypotheses being
    those of the two-party theorems for the exchanged environment -/
theorem symmetric_once_and_back_oneway_mirrored_partial (E : ns_Env) (calls : List Ev)
    (H : n2f_Hyp (ns_swapE E).base calls) (sched : List (Bool × ns_Op)) :
    let w := ns_proj2 (ns_swapW (ns_run E (ns_init [] calls) sched))
    (ns_run E (ns_init [] calls) sched).b.fired = [] ∧
      w = n2_run (ns_swapE E).base (n2_init calls) ((sched.map ns_swapS).filterMap ns_toN2) ∧
      SafeFw (ns_swapE E).base calls w ∧ (n2_Quiescent w → CompletedFw (ns_swapE E).base calls w) := by
  intro w
  have hs := ns_run_swap E sched (ns_init [] calls)
  have h := symmetric_once_and_back_oneway_partial (ns_swapE E) calls H (sched.map ns_swapS)
  have hi : ns_swapW (ns_init [] calls) = ns_init calls [] := rfl
  rw [hi] at hs
  simp only [hs] at h
  exact h

example : n2f_Hyp (ns_swapE (ns_swapE symOneEnv)).base n2f_toyCalls := n2f_toy_hyp


/-! ## both ends originating calls at once: the packet-level core (CV/Proofs/NodeSymBoth.lean)

Each direction's byte stream of the symmetric world is an interleaving of the writer's calls and the writer's answers to
the peer's calls.  The theorems below say what the reader does with such a stream; `ns_Interleave xs ys m`: `m` is an
interleaving of `xs` and `ys` that keeps both orders. -/

/-- **calls and answers on one stream do not interfere** (no hypothesis on the JSON oracle, the packet contents, the ids or
    the protocol state; a packet belongs to a class by what it parses to, if it parses at all): for every interleaving `m`
    of call packets `cs` and result packets `vs`, (1) processing `m` leaves the protocol in exactly the state in which
    processing `vs` alone leaves it - the peer's calls are transparent for the table of waiting calls; (2) what the
    protocol does on `m` is an interleaving of what it does on `cs` alone - in ANY state `s0`, so the dispatches and
    refusals do not depend on which answers have arrived - and what it does on `vs` alone; (3) processing `cs` alone
    never changes the state. -/
theorem symmetric_calls_and_answers_do_not_interfere (c : Cfg) (parse : Bytes → PRes) (s s0 : Proto)
    (cs vs m : List Bytes) (h : ns_Interleave cs vs m) (hc : ∀ p ∈ cs, ns_CallClass parse p)
    (hv : ∀ p ∈ vs, ns_ValueClass parse p) :
    (processAll c parse s m).1 = (processAll c parse s vs).1 ∧
      ns_Interleave (processAll c parse s0 cs).2 (processAll c parse s vs).2 (processAll c parse s m).2 ∧
      (processAll c parse s0 cs).1 = s0 := by
  obtain ⟨h1, h2⟩ := ns_processAll_interleave c parse s0 h hc hv s
  refine ⟨h1, h2, ?_⟩
  rw [ns_processAll_calls c parse s0 s0 cs hc]

/-- **one read of a mixed stream, two conversations at once**: the reader is the callee of conversation 1 (environment
    `E1`: the peer's calls `l1`, each accepted or refused by the reader's receive firewall) and at the same time the
    caller of conversation 2 (environment `E2`, same protocol configuration and JSON oracle: the peer's answers to the
    reader's own calls `l2`, waiting and not yet answered), the packets arriving interleaved in any way.  Then the
    reader's table of waiting calls ends up exactly as in the two-party world after the answers `l2`, and what the reader
    does is an interleaving of what the two-party callee does on `l1` (dispatch or refusal per call, in call order) and
    what the two-party caller does on `l2` (one resolution per answer, carrying the value of that very call).
    `_partial`: the hypotheses `n2f_Hyp` of the two-party theorems, for both conversations (witness of the excluded case
    "a handler raises": `once_and_back_witness`). -/
theorem symmetric_merged_read_partial (E1 E2 : n2_Env) (calls1 calls2 : List Ev) (H1 : n2f_Hyp E1 calls1)
    (H2 : n2f_Hyp E2 calls2) (hc : E2.cA = E1.cB) (hp : E2.parse = E1.parse)
    (L l1 l2 D : List Nat) (b : Proto) (m : List Bytes)
    (h1 : ∀ i ∈ l1, i < calls1.length) (hnd : l2.Nodup) (h2 : ∀ i ∈ l2, i ∈ L ∧ i ∉ D ∧ i < calls2.length)
    (hpend : b.pending = L.map (n2f_expPend E2 calls2 D))
    (hm : ns_Interleave (l1.map (n2_callPkt E1 calls1)) (l2.map (n2f_ansPkt E2 calls2)) m) :
    (processAll E1.cB E1.parse b m).1 = { b with pending := L.map (n2f_expPend E2 calls2 (D ++ l2)) } ∧
      ns_Interleave (l1.map (n2f_effB E1 calls1))
        (l2.map (fun i => Eff.resolve i (n2f_val E2 calls2 i) (.bool false))) (processAll E1.cB E1.parse b m).2 :=
  ns_merged_read H1 H2 hc hp L l1 l2 D b m h1 hnd h2 hpend hm

/-! non-vacuity: the toy world; the reader has two calls of its own waiting and gets `call 0, answer 1, call 1, answer 0` -/

def symBothPkts : List Bytes :=
  [n2_callPkt n2_toyEnv n2_toyCalls 0, n2f_ansPkt n2_toyEnv n2_toyCalls 1, n2_callPkt n2_toyEnv n2_toyCalls 1,
   n2f_ansPkt n2_toyEnv n2_toyCalls 0]

theorem symBoth_interleave :
    ns_Interleave ([0, 1].map (n2_callPkt n2_toyEnv n2_toyCalls)) ([1, 0].map (n2f_ansPkt n2_toyEnv n2_toyCalls))
      symBothPkts :=
  .left _ (.right _ (.left _ (.right _ .nil)))

example : ∀ p ∈ [0, 1].map (n2_callPkt n2_toyEnv n2_toyCalls), ns_CallClass n2_toyEnv.parse p := by
  intro p hp
  obtain ⟨i, hi, rfl⟩ := List.mem_map.mp hp
  exact ns_callPkt_class (firewall_hyp_of_open _ _ n2_toy_hyp) i (by simp at hi; rcases hi with rfl | rfl <;> decide)

example :
    (processAll n2_toyEnv.cB n2_toyEnv.parse
        { nid := 2, pending := [0, 1].map (n2f_expPend n2_toyEnv n2_toyCalls []) } symBothPkts).1 =
      { nid := 2, pending := [0, 1].map (n2f_expPend n2_toyEnv n2_toyCalls ([] ++ [1, 0])) } :=
  (symmetric_merged_read_partial n2_toyEnv n2_toyEnv n2_toyCalls n2_toyCalls (firewall_hyp_of_open _ _ n2_toy_hyp)
    (firewall_hyp_of_open _ _ n2_toy_hyp) rfl rfl [0, 1] [0, 1] [1, 0] []
    { nid := 2, pending := [0, 1].map (n2f_expPend n2_toyEnv n2_toyCalls []) } symBothPkts
    (by intro i hi; simp at hi; rcases hi with rfl | rfl <;> decide) (by decide)
    (by intro i hi; simp at hi; rcases hi with rfl | rfl <;> simp [n2_toyCalls]) rfl symBoth_interleave).1

/-- **the reader's framing state is a prefix-consumer of the mixed byte stream** (byte level, both ends; the oracle
    hypotheses of `framing_exact`: `CodecOK`, and `Good` for the packets that were written - calls and answers in any
    mixture): if end A has written the packets `pkts` so far, of which end B has processed `outs`, then for EVERY cut
    `n` of B's next read: no read handler raises, B processes a further run `dn` of whole packets with `outs ++ dn` again
    an initial part of `pkts`, the rest stays in its buffer, B does exactly what `processAll` does on `dn` (to which
    `symmetric_merged_read_partial` applies), and nothing else changes on A.  Second part: the same with A reading. -/
theorem symmetric_mixed_stream_framing (E : ns_Env) (w : ns_World) (n : Nat) (hC : CodecOK E.base.proc)
    (pkts outs : List Bytes) (hG : ∀ p ∈ pkts, Good E.base.proc p) :
    (n2_Rx E.base.proc pkts w.a.out w.b.p.buf outs →
      ∃ dn buf', outs ++ dn <+: pkts ∧ n2_Rx E.base.proc pkts (w.a.out.drop n) buf' (outs ++ dn) ∧
        ns_step E w (true, .deliver n) =
          { a := { w.a with out := w.a.out.drop n },
            b := ns_absorb E.base.dumps { w.b with p := { (processAll E.base.cB E.base.parse w.b.p dn).1 with buf := buf' } }
                  (processAll E.base.cB E.base.parse w.b.p dn).2,
            aborted := w.aborted }) ∧
    (n2_Rx E.base.proc pkts w.b.out w.a.p.buf outs →
      ∃ dn buf', outs ++ dn <+: pkts ∧ n2_Rx E.base.proc pkts (w.b.out.drop n) buf' (outs ++ dn) ∧
        ns_step E w (false, .deliver n) =
          { a := ns_absorb E.base.dumps { w.a with p := { (processAll E.base.cA E.base.parse w.a.p dn).1 with buf := buf' } }
                  (processAll E.base.cA E.base.parse w.a.p dn).2,
            b := { w.b with out := w.b.out.drop n },
            aborted := w.aborted }) := by
  refine ⟨?_, ?_⟩
  · intro h
    obtain ⟨dn, buf', h1, h2, h3⟩ :=
      ns_deliver_framing E.base.cB E.base.parse E.base.dumps E.base.beh w.b w.a n hC pkts outs hG h
    refine ⟨dn, buf', h1, h2, ?_⟩
    simp only [ns_step, h3, Bool.or_false]
  · intro h
    obtain ⟨dn, buf', h1, h2, h3⟩ :=
      ns_deliver_framing E.base.cA E.base.parse E.base.dumps E.behA w.a w.b n hC pkts outs hG h
    refine ⟨dn, buf', h1, h2, ?_⟩
    simp only [ns_step, h3, Bool.or_false]

/-! non-vacuity: the toy codec; at the start nothing is written, nothing processed -/
example : CodecOK symToyEnv.base.proc := n2_toy_hyp.codec
example : n2_Rx symToyEnv.base.proc [] (ns_init n2_toyCalls n2_toyCalls).a.out (ns_init n2_toyCalls n2_toyCalls).b.p.buf [] :=
  n2_rx_init _


end CV.C19

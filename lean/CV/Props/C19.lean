import CV.Proofs.Node
import CV.Proofs.NodeEvent
/-
C19 — Node: remote events run once and return their result; peers cannot harm the loop.

Property theorems about CV.Model.Node (the model of circuits/node/protocol.py and utils.py
after the `fix:` commits).  JSON is an oracle: every theorem holds for *every* oracle
`proc` / `parse`; what is assumed about the oracle is an explicit hypothesis
(`CodecOK`, `StreamOK`, `Good`), exercised by the correspondence check on the real `json`.
-/
namespace CV.C19
open CV.Node

/-- **framing**: for a stream in which no piece makes the handler fail and every unterminated
    piece that parses is a whole packet followed by the delimiter, *any* segmentation into
    reads processes exactly the delimiter-terminated pieces that parse, each once, in order,
    and ends with the unterminated tail in the buffer. -/
theorem framing_exact (proc : Bytes → POut) (hC : CodecOK proc) (S : Bytes) (hS : StreamOK proc S)
    (segs : List Bytes) (h : segs.flatten = S) :
    feedAll proc [] segs = ((splitD S).2, okPieces proc (splitD S).1, false) := by
  have hI : Inv proc [] segs.flatten [] [] := .plain (by simp [splitD_nil]) (by simp [splitD_nil, okPieces])
  obtain ⟨h1, h2, h3⟩ := feedAll_inv hC hS segs [] [] [] (by simp [h]) hI
  simp at h2
  ext <;> simp [h1, h2, h3]

/-- two ways of cutting the same stream into reads are indistinguishable -/
theorem segmentation_invariant (proc : Bytes → POut) (hC : CodecOK proc) (S : Bytes) (hS : StreamOK proc S)
    (segs₁ segs₂ : List Bytes) (h₁ : segs₁.flatten = S) (h₂ : segs₂.flatten = S) :
    feedAll proc [] segs₁ = feedAll proc [] segs₂ := by
  rw [framing_exact proc hC S hS segs₁ h₁, framing_exact proc hC S hS segs₂ h₂]

/-- **packets_exact**: packets written by a correct peer (`Good`: `~`-free thanks to the escape,
    parse, no proper prefix parses) are processed exactly once each, in order, whatever the cut
    list - including cuts inside a packet, inside the delimiter, and reads that span many packets. -/
theorem packets_exact (proc : Bytes → POut) (hC : CodecOK proc) (pkts : List Bytes)
    (hG : ∀ p ∈ pkts, Good proc p) (segs : List Bytes) (h : segs.flatten = stream pkts) :
    feedAll proc [] segs = ([], pkts, false) := by
  obtain ⟨hS, hsplit⟩ := stream_good hC pkts hG
  rw [framing_exact proc hC _ hS segs h, hsplit]
  have : okPieces proc pkts = pkts := by
    unfold okPieces
    apply List.filter_eq_self.mpr
    intro p hp; simp [(hG p hp).done]
  simp [this]

/-- **delimiter_free**: what `dump_event` / `dump_value` put on the wire never contains `~`
    before the delimiter, for every JSON text (payloads containing `~~~` included) -/
theorem delimiter_free (body : Bytes) : TILDE ∉ escTilde body ∧ wireOk (wire body) = true := by
  have h := escTilde_noTilde body
  refine ⟨h, ?_⟩
  unfold wireOk wire
  have hl : (escTilde body ++ DELIM).length - 3 = (escTilde body).length := by simp [DELIM]
  rw [hl]
  simp [DELIM, h]

/-- the buffer never holds something that already is a packet: nothing is delayed, nothing
    can be processed a second time by a later read -/
theorem buffer_incomplete (proc : Bytes → POut) (buf data : Bytes) :
    (feed proc buf data).buf = [] ∨ proc (feed proc buf data).buf = .valueError := by
  unfold feed
  simp only
  split
  · exact Or.inl rfl
  · split
    · exact Or.inl rfl
    · rename_i h; exact Or.inr h
    · exact Or.inl rfl

/-- an event the local code can build and JSON can carry -/
def WellFormed (e : Ev) : Prop :=
  e.name.toList.contains (Char.ofNat 0) = false ∧ e.kwargs.any (fun kv => kwClash kv.1) = false ∧
  e.channels.all J.hashable = true

/-- what `load_event` makes of `dump_event(e, id)`: the same event, attributes filtered -/
def decoded (excl : List String) (e : Ev) : Ev :=
  ⟨e.name, e.args, e.kwargs, e.success, e.failure, e.notify, e.channels,
   applyMeta excl [] (e.attrs.filter (fun kv => !excl.contains kv.1))⟩

/-- **codec_roundtrip**: `load_event(dump_event(e, id))` returns `id` and an event with the same
    name, args, kwargs, channels and success / failure / notify flags -/
theorem codec_roundtrip (excl : List String) (e : Ev) (id : J) (hw : WellFormed e) :
    loadEvent excl (dumpEvent excl e id) = .ok (decoded excl e, id) ∧
      (decoded excl e).name = e.name ∧ (decoded excl e).args = e.args ∧ (decoded excl e).kwargs = e.kwargs ∧
      (decoded excl e).channels = e.channels ∧ (decoded excl e).success = e.success ∧
      (decoded excl e).failure = e.failure ∧ (decoded excl e).notify = e.notify := by
  obtain ⟨h1, h2, h3⟩ := hw
  refine ⟨?_, rfl, rfl, rfl, rfl, rfl, rfl, rfl⟩
  simp [loadEvent, dumpEvent, decoded, J.lookup, J.iter, pyDict, strKeys_map, J.truthy, h2, h3]
  simpa using h1

example : WellFormed ⟨"foo", [.str "x~~~y"], [("value", .null)], true, false, false, [.str "app"], []⟩ := by
  refine ⟨by decide, by decide, by decide⟩

/-- **meta_safe**: whatever JSON a peer sends, if `load_event` accepts it then no attribute named
    in the exclusion set was set from `meta`, and the channels are hashable.  With
    `criticalOk excl critical` (evaluated on the live `META_EXCLUDE` at every run) this covers
    every attribute the dispatcher reads. -/
theorem meta_safe (excl critical : List String) (hc : criticalOk excl critical = true) (j : J) (e : Ev) (id : J)
    (h : loadEvent excl j = .ok (e, id)) :
    (∀ k ∈ critical, e.attr k = none) ∧ e.channels.all J.hashable = true := by
  obtain ⟨h1, h2⟩ := loadEvent_ok h
  refine ⟨?_, h2⟩
  intro k hk
  apply h1
  simp only [criticalOk, List.all_eq_true] at hc
  simpa using hc k hk

example : criticalOk ["cause", "effects", "value"] ["cause", "value"] = true := by decide

/-- **firewall (send)**: a rejected event produces no effect at all: nothing is written, no id is
    used, nothing waits -/
theorem firewall_send (c : Cfg) (s : Proto) (e : Ev) (nr : Bool) (h : c.sendOk e = false) :
    send c s e nr = (s, []) := by
  simp [send, h]

/-- **firewall (receive)**: a packet whose event the receive firewall rejects is never fired;
    the only effect is the (empty) answer to the sender -/
theorem firewall_recv (c : Cfg) (s : Proto) (j : J) (e : Ev) (id : J)
    (hv : isValuePacket j = false) (hl : loadEvent c.excl j = .ok (e, id)) (h : c.recvOk e = false) :
    processJ c s j = (s, [.write (dumpValue c.excl id (.bool false) .null e.attrs)]) := by
  simp [processJ, hv, hl, h]

/-- **once (per packet)**: a call packet written by `send` is, on the receiving side, one `fire`
    of the decoded event with the sender's id - not a result packet, whatever its arguments
    contain (a keyword argument named `value` included) -/
theorem call_fired_once (c : Cfg) (s : Proto) (e : Ev) (id : J) (hw : WellFormed e)
    (hr : c.recvOk (decoded c.excl e) = true) :
    processJ c s (dumpEvent c.excl e id) = (s, [.fire (decoded c.excl e) id]) := by
  have hl := (codec_roundtrip c.excl e id hw).1
  have hv : isValuePacket (dumpEvent c.excl e id) = false := by
    simp [isValuePacket, dumpEvent, J.lookup]
  simp [processJ, hv, hl, hr]

/-- **once**: the calls `(e₁,id₁) … (eₙ,idₙ)` written by a peer (packet `i` parses to
    `dump_event(eᵢ, idᵢ)`; `Good`: what the oracle says about dumped, escaped JSON objects), accepted
    by the receive firewall, are fired exactly once each, in order, with their ids and nothing
    else happens - for every cut of the byte stream into reads. -/
theorem calls_exactly_once (c : Cfg) (parse : Bytes → PRes) (s : Proto) (hb : s.buf = [])
    (calls : List (Bytes × Ev × J))
    (hpk : ∀ t ∈ calls, parse t.1 = .parsed (dumpEvent c.excl t.2.1 t.2.2) ∧
              WellFormed t.2.1 ∧ c.recvOk (decoded c.excl t.2.1) = true)
    (hC : CodecOK (procOf c.excl parse)) (hG : ∀ t ∈ calls, Good (procOf c.excl parse) t.1)
    (segs : List Bytes) (h : segs.flatten = stream (calls.map (·.1))) :
    (recvAll c parse s segs).2 = calls.map (fun t => Eff.fire (decoded c.excl t.2.1) t.2.2) := by
  have hG' : ∀ p ∈ calls.map (·.1), Good (procOf c.excl parse) p := by
    intro p hp
    obtain ⟨t, ht, rfl⟩ := List.mem_map.mp hp
    exact hG t ht
  rw [recvAll_eq, hb, packets_exact _ hC _ hG' segs h]
  simp only
  clear hG hG' h hb hC
  induction calls with
  | nil => simp [processAll]
  | cons t ts ih =>
    obtain ⟨hp, hw, hr⟩ := hpk t (by simp)
    simp only [List.map_cons, processAll, hp, call_fired_once c s _ _ hw hr]
    rw [ih (fun t' ht' => hpk t' (by simp [ht']))]
    simp

/-- **and back (per packet)**: the result packet for call `n` resolves exactly the waiting call
    `n` with the value and error flag it carries -/
theorem answer_routed (c : Cfg) (s : Proto) (n : Nat) (r : String) (z : Bool) (v er : J)
    (attrs : List (String × J)) (hp : s.pending.any (·.id = n) = true) :
    processJ c s (dumpValue c.excl (.num r (some n) z) er v attrs) =
      ({ s with pending := resolvePending s.pending n v er
                  ((attrs.filter (fun kv => !c.excl.contains kv.1 && !kv.1.startsWith "__")).filter
                    (fun kv => metaOk c.excl kv.1)) },
       [.resolve n v er]) := by
  have hv : isValuePacket (dumpValue c.excl (.num r (some n) z) er v attrs) = true := by
    simp [isValuePacket, dumpValue, J.lookup]
  unfold processJ
  rw [if_pos hv]
  simp [loadValue, dumpValue, J.lookup, J.natKey, hp]

/-- other waiting calls are not touched by the answer to call `n` -/
theorem answer_isolated (ps : List Pending) (n : Nat) (v er : J) (m : List (String × J)) (p : Pending)
    (hp : p ∈ ps) (hn : p.id ≠ n) : p ∈ resolvePending ps n v er m := by
  unfold resolvePending
  apply List.mem_map.mpr
  exact ⟨p, hp, by simp [hn]⟩

/-- witness for the known finding `no-answer(remote-handler-raised)`: the only thing that ends
    the wait for call `n` is a result packet; a call packet (or anything that is not a result
    for `n`) leaves it waiting.  The real peer sends no result when its handler raises. -/
theorem unanswered_waits_witness (c : Cfg) (s : Proto) (j : J) (n : Nat) (hv : isValuePacket j = false) :
    poll (processJ c s j).1 n = poll s n := by
  unfold processJ
  rw [if_neg (by simp [hv])]
  split
  · split <;> rfl
  · rfl

/-- the hypotheses about the oracle are satisfiable: a toy codec in which `{}` is the only packet -/
def demoProc (p : Bytes) : POut := if p = [123, 125] then .done else .valueError

example : CodecOK demoProc := ⟨by decide, by decide, by decide⟩

example : Good demoProc [123, 125] := by
  refine ⟨by decide, by decide, ?_, by decide, by decide⟩
  intro q r h hr
  have hq : q ≠ [123, 125] := by
    intro hq; subst hq; simp at h; exact hr h
  simp [demoProc, hq]

example : feedAll demoProc [] [[123], [125, 126], [126, 126, 123, 125], [126, 126, 126]] =
    ([], [[123, 125], [123, 125]], false) := by
  apply packets_exact demoProc ⟨by decide, by decide, by decide⟩ [[123, 125], [123, 125]]
  · intro p hp
    have : p = [123, 125] := by simpa using hp
    subst this
    refine ⟨by decide, by decide, ?_, by decide, by decide⟩
    intro q r h hr
    have hq : q ≠ [123, 125] := by
      intro hq; subst hq; simp at h; exact hr h
    simp [demoProc, hq]
  · decide

end CV.C19

import CV.Proofs.Auth
import CV.Proofs.AuthLeavesCreds
import CV.Proofs.Session
import CV.Proofs.AuthTable
import CV.Proofs.SessionCookie
import CV.Model.VHost
/-
C20 - Authentication, session binding and gateway trust are sound.

Every theorem below is about the executable models in CV/Model/{Auth,Session,VHost}.lean as
they follow the code AFTER the three `fix:` commits (`Policy.current`), for ALL inputs:
every header text, user table, realm, method, `encrypt` variant, every instantiation of the
stdlib leaves (`H` = md5, base64, utf-8, the Digest tokeniser) and of `W` = sha1; every
history of requests; every gateway list.  The section "on the header text" instantiates the
leaves with the executable definitions of CV/Model/AuthLeaves.lean (`concreteLeaves`:
binascii.a2b_base64, strict UTF-8, parse_http_list / parse_keqv_list, md5 - each compared with
the real stdlib function on every run) and states soundness and completeness about the very
header a Basic / RFC 2617 Digest client sends.  The `legacy_*_witness` theorems show that the same
statements are FALSE of the code as it was found (`Policy.legacy`).
-/
namespace CV.C20
open CV.Auth

/-! ## Authentication -/

/-- Soundness of `check_auth` (the documented `if check_auth(..): return secret` idiom):
    whenever it returns something truthy, the Authorization value carries credentials that
    verify against an entry of the user table for the configured realm. -/
theorem auth_sound (L : Leaves) (enc : Enc) (realm method : Str) (users : List (Str × Str))
    (hdr : Option Str)
    (h : (checkAuth Policy.current L enc realm method users hdr).truthy = some true) :
    ∃ cred c u p, hdr = some cred ∧ credsOf L cred = some c ∧ (u, p) ∈ users ∧
      Verifies L.H enc c u p realm method = true := by
  obtain ⟨u, hu⟩ := truthy_ok h
  obtain ⟨cred, c, p, h1, h2, _, h4, h5⟩ := checkAuth_ok hu
  exact ⟨cred, c, u, p, h1, h2, lookup_mem h4, h5⟩

/-- `request.login` is the verified user: `check_auth` returns True with login `u` only if the
    credentials name `u` and verify against `u`'s own table entry. -/
theorem auth_login_sound (L : Leaves) (enc : Enc) (realm method : Str) (users : List (Str × Str))
    (hdr : Option Str) (u : Str)
    (h : checkAuth Policy.current L enc realm method users hdr = .ok u) :
    ∃ cred c p, hdr = some cred ∧ credsOf L cred = some c ∧ c.username = u ∧
      users.lookup u = some p ∧ Verifies L.H enc c u p realm method = true :=
  checkAuth_ok h

/-- `basic_auth` lets a request through only with verifying credentials. -/
theorem basic_auth_sound (L : Leaves) (enc : Enc) (realm method : Str) (users : List (Str × Str))
    (hdr : Option Str) (h : basicAuth Policy.current L enc realm method users hdr = .letThrough) :
    ∃ cred c u p, hdr = some cred ∧ credsOf L cred = some c ∧ (u, p) ∈ users ∧
      Verifies L.H enc c u p realm method = true := by
  apply auth_sound
  unfold basicAuth at h
  split at h
  · cases h
  · assumption
  · split at h <;> cases h

/-- `digest_auth` lets a request through only with verifying credentials. -/
theorem digest_auth_sound (L : Leaves) (realm method : Str) (users : List (Str × Str))
    (hdr : Option Str) (h : digestAuth Policy.current L realm method users hdr = .letThrough) :
    ∃ cred c u p, hdr = some cred ∧ credsOf L cred = some c ∧ (u, p) ∈ users ∧
      Verifies L.H .dflt c u p realm method = true := by
  apply auth_sound
  unfold digestAuth at h
  split at h
  · cases h
  · assumption
  · cases h

/-- The decidable form the driver evaluates on the implementation (`soundOn`) holds of every
    decision of the model: this is the same predicate, proved here, checked there. -/
theorem auth_soundOn (L : Leaves) (enc : Enc) (realm method : Str) (users : List (Str × Str))
    (hdr : Option Str) :
    soundOn L enc realm method users hdr
      ((checkAuth Policy.current L enc realm method users hdr).truthy == some true) = true := by
  unfold soundOn
  cases ht : (checkAuth Policy.current L enc realm method users hdr).truthy == some true
  · rfl
  · have ht' : (checkAuth Policy.current L enc realm method users hdr).truthy = some true := by
      simpa using ht
    obtain ⟨cred, c, u, p, h1, h2, h3, h4⟩ := auth_sound L enc realm method users hdr ht'
    subst h1
    simp only [Bool.not_true, Bool.false_or, verifiedBy, h2]
    exact List.any_eq_true.mpr ⟨(u, p), h3, h4⟩

/-- Completeness: well-formed credentials that verify against the table entry of their own
    user name are accepted, with that user as login (so refusal is never arbitrary). -/
theorem auth_complete (L : Leaves) (enc : Enc) (realm method : Str) (users : List (Str × Str))
    (hdr : Option Str) (u : Str) (h : mustAccept L enc realm method users hdr = some u) :
    checkAuth Policy.current L enc realm method users hdr = .ok u ∧
    basicAuth Policy.current L enc realm method users hdr = .letThrough := by
  have := mustAccept_ok h
  exact ⟨this, by simp [basicAuth, this, Out.truthy]⟩

/-- ... and `digest_auth` lets them through as well (it always runs with the default `encrypt`). -/
theorem digest_auth_complete (L : Leaves) (realm method : Str) (users : List (Str × Str))
    (hdr : Option Str) (u : Str) (h : mustAccept L .dflt realm method users hdr = some u) :
    digestAuth Policy.current L realm method users hdr = .letThrough := by
  simp [digestAuth, mustAccept_ok h, Out.truthy]

/-- The decidable form the driver evaluates on the implementation (`completeOn`) holds of the
    model's own login decision. -/
theorem auth_completeOn (L : Leaves) (enc : Enc) (realm method : Str) (users : List (Str × Str))
    (hdr : Option Str) :
    completeOn L enc realm method users hdr
      (match checkAuth Policy.current L enc realm method users hdr with
       | .ok u => some u
       | _ => none) = true := by
  unfold completeOn
  cases hm : mustAccept L enc realm method users hdr with
  | none => rfl
  | some u => simp [mustAccept_ok hm]

/-- non-vacuity of `auth_sound` / `auth_complete`: a Basic header that is accepted -/
example :
    let L : Leaves := ⟨id, fun _ => some [97, 58, 98], fun b => some (b.map (fun x => Char.ofNat x.toNat)), fun _ => none⟩
    checkAuth Policy.current L .ident "R".toList "GET".toList [("a".toList, "b".toList)]
      (some "Basic YTpi".toList) = .ok "a".toList := by decide

/-- non-vacuity: a Digest header (no qop) whose response is the RFC digest is accepted -/
example :
    let kv : KV := [("username".toList, "a".toList), ("realm".toList, "R".toList), ("nonce".toList, "n".toList),
                    ("uri".toList, "/".toList),
                    ("response".toList, rfcResponse id [("nonce".toList, "n".toList), ("uri".toList, "/".toList)]
                      "a".toList "b".toList "R".toList "GET".toList)]
    let L : Leaves := ⟨id, fun _ => none, fun _ => none, fun _ => some kv⟩
    digestAuth Policy.current L "R".toList "GET".toList [("a".toList, "b".toList)]
      (some "Digest x".toList) = .letThrough := by decide

/-- The code as found: a Digest header without the required fields is let through
    (`check_auth` returned a truthy error object) although the table is empty. -/
theorem legacy_missing_field_witness :
    let L : Leaves := ⟨id, fun _ => none, fun _ => none, fun _ => some [("username".toList, "alice".toList)]⟩
    digestAuth Policy.legacy L "R".toList "GET".toList [] (some "Digest username=\"alice\"".toList)
      = .letThrough := by decide

/-- The code as found: a user absent from the table verifies with the password text `None`. -/
theorem legacy_none_password_witness :
    let kv0 : KV := [("username".toList, "mallory".toList), ("realm".toList, "R".toList),
                     ("nonce".toList, "n".toList), ("uri".toList, "/".toList)]
    let kv : KV := kv0 ++ [("response".toList,
                      rfcResponse id kv0 "mallory".toList "None".toList "R".toList "GET".toList)]
    let L : Leaves := ⟨id, fun _ => none, fun _ => none, fun _ => some kv⟩
    checkAuth Policy.legacy L .dflt "R".toList "GET".toList [("bob".toList, "pw".toList)]
      (some "Digest x".toList) = .ok "mallory".toList := by decide

/-! ## Authentication on the header text: the stdlib leaves inside the model -/

/-- `base64.decodebytes` (binascii.a2b_base64, non-strict) inverts the RFC 4648 encoder. -/
theorem b64_roundtrip (bs : Bytes) : a2bBase64 (b64Encode bs) = some bs := a2b_encode bs

/-- strict UTF-8 decoding inverts encoding, for every text (all code points, no surrogates:
    `Char`). -/
theorem utf8_roundtrip (s : Str) : utf8Decode (utf8Encode s) = some s := decode_encode s

/-- `parse_keqv_list(parse_http_list(·))` reads back every well-formed parameter list
    (names: token characters without '='; unquoted values: non-empty tokens; quoted values:
    ANY text, `"` and `\` sent as quoted-pairs) rendered as `k=v, k="v", …`: the result is
    the dict of the pairs (a repeated name keeps its first position and its last value). -/
theorem kv_roundtrip (items : List Item) (hok : ∀ i ∈ items, i.ok = true) :
    kvLeaf (renderItems items) = some (dictOf (itemsKV items)) := kvLeaf_render items hok

/-- ... and with distinct names it is the list itself. -/
theorem kv_roundtrip_distinct (items : List Item) (hok : ∀ i ∈ items, i.ok = true)
    (hnd : (items.map (·.k)).Nodup) :
    kvLeaf (renderItems items) = some (itemsKV items) := by
  rw [kvLeaf_render items hok, dictOf_nodup]
  simpa [itemsKV, List.map_map, Function.comp_def] using hnd

/-- non-vacuity of `kv_roundtrip`: a quoted comma, an escaped quote, an unquoted token -/
example :
    let items : List Item := [⟨"a".toList, "x, \"y\"\\".toList, true⟩, ⟨"qop".toList, "auth".toList, false⟩]
    (∀ i ∈ items, i.ok = true) ∧ renderItems items = "a=\"x, \\\"y\\\"\\\\\", qop=auth".toList ∧
    kvLeaf (renderItems items) = some [("a".toList, "x, \"y\"\\".toList), ("qop".toList, "auth".toList)] := by decide

/-- **Basic, on the header text.**  The request carrying the header a Basic client builds for
    `user` / `pass` (`'Basic ' + b64encode((user + ':' + pass).encode())`; the user name has no
    ':' - the code splits at the first one) is accepted, as `user`, exactly when the table has
    an entry for `user` equal to the encrypted password.  Both directions are `auth_login_sound` /
    `auth_complete` at `concreteLeaves`. -/
theorem basic_concrete (enc : Enc) (realm method : Str) (users : List (Str × Str)) (user pass : Str)
    (hu : ':' ∉ user) :
    checkAuth Policy.current concreteLeaves enc realm method users (some (basicHeader user pass)) = .ok user
      ↔ ∃ stored, users.lookup user = some stored ∧ encApply md5Hex enc pass user = some stored := by
  have hc := creds_basicHeader user pass hu
  constructor
  · intro h
    obtain ⟨cred, c, p, h1, h2, _, h4, h5⟩ := auth_login_sound concreteLeaves enc realm method users _ user h
    cases h1
    rw [hc] at h2
    cases h2
    refine ⟨p, h4, ?_⟩
    simp only [Verifies, beq_self_eq_true, Bool.true_and, beq_iff_eq] at h5
    exact h5
  · rintro ⟨stored, hl, he⟩
    apply (auth_complete concreteLeaves enc realm method users _ user _).1
    have hd : enc ≠ .dflt := by
      intro e; subst e; simp [encApply] at he
    have hv : Verifies concreteLeaves.H enc (.basic user pass) user stored realm method = true := by
      simp only [Verifies, beq_self_eq_true, Bool.true_and, beq_iff_eq]
      exact he
    simp [mustAccept, hc, AuthMap.username, hl, wellFormed, hd, hv]

/-- ... with a plain-text table (`encrypt=str`): accepted iff the table maps `user` to `pass`. -/
theorem basic_concrete_plain (realm method : Str) (users : List (Str × Str)) (user pass : Str)
    (hu : ':' ∉ user) :
    checkAuth Policy.current concreteLeaves .ident realm method users (some (basicHeader user pass)) = .ok user
      ↔ users.lookup user = some pass := by
  rw [basic_concrete .ident realm method users user pass hu]
  simp [encApply]

/-- `basic_auth` lets the Basic client's request through exactly in that case. -/
theorem basic_auth_concrete (enc : Enc) (realm method : Str) (users : List (Str × Str)) (user pass : Str)
    (hu : ':' ∉ user) :
    basicAuth Policy.current concreteLeaves enc realm method users (some (basicHeader user pass)) = .letThrough
      ↔ ∃ stored, users.lookup user = some stored ∧ encApply md5Hex enc pass user = some stored := by
  rw [← basic_concrete enc realm method users user pass hu]
  constructor
  · intro h
    have ht : (checkAuth Policy.current concreteLeaves enc realm method users (some (basicHeader user pass))).truthy
        = some true := by
      unfold basicAuth at h
      split at h
      · cases h
      · assumption
      · split at h <;> cases h
    obtain ⟨u, hu'⟩ := truthy_ok ht
    obtain ⟨cred, c, p, h1, h2, h3, _, _⟩ := auth_login_sound concreteLeaves enc realm method users _ u hu'
    cases h1
    rw [creds_basicHeader user pass hu] at h2
    cases h2
    rw [hu']; exact congrArg _ h3.symm
  · intro h
    simp [basicAuth, h, Out.truthy]

/-- non-vacuity / the ':' caveat: the header of user `a:b` with password `c` IS the header of
    user `a` with password `b:c` -/
example : basicHeader "a:b".toList "c".toList = basicHeader "a".toList "b:c".toList
    ∧ basicHeader "a".toList "b".toList = "Basic YTpi".toList
    ∧ checkAuth Policy.current concreteLeaves .ident "R".toList "GET".toList [("ü".toList, "pä:€".toList)]
        (some (basicHeader "ü".toList "pä:€".toList)) = .ok "ü".toList :=
  ⟨by decide, by decide, (basic_concrete_plain _ _ _ _ _ (by decide)).2 (by decide)⟩

/-- **Digest, on the header text.**  For every well-formed parameter list (distinct names)
    that makes up a complete Digest credential, the request carrying
    `'Digest ' + 'k="v", …'` is accepted as `u` exactly when the username parameter is `u`, the
    realm parameter is the configured realm, the table has a password for `u`, and the
    response parameter equals the model's `_computeDigestResponse` for THAT password.
    Both directions are `auth_login_sound` / `auth_complete` at `concreteLeaves`. -/
theorem digest_concrete (items : List Item) (hok : ∀ i ∈ items, i.ok = true)
    (hnd : (items.map (·.k)).Nodup) (hw : wellFormedKV (itemsKV items) = true)
    (enc : Enc) (realm method : Str) (users : List (Str × Str)) (u : Str) :
    checkAuth Policy.current concreteLeaves enc realm method users (some (digestHeader items)) = .ok u
      ↔ get (itemsKV items) "username" = some u ∧ get (itemsKV items) "realm" = some realm ∧
        ∃ p r, users.lookup u = some p ∧ get (itemsKV items) "response" = some r ∧
          computeResponse md5Hex (itemsKV items) p method = .val r := by
  have hc := creds_digestHeader items hok hnd
  constructor
  · intro h
    obtain ⟨cred, c, p, h1, h2, _, h4, h5⟩ := auth_login_sound concreteLeaves enc realm method users _ u h
    cases h1
    rw [hc] at h2
    cases h2
    simp only [Verifies, Bool.and_eq_true, beq_iff_eq] at h5
    obtain ⟨⟨⟨hu, hr⟩, _⟩, hresp⟩ := h5
    exact ⟨hu, hr, p, _, h4, hresp, rfc_compute hw hu hr⟩
  · rintro ⟨hu, hr, p, r, hl, hresp, hcomp⟩
    apply (auth_complete concreteLeaves enc realm method users _ u _).1
    have hrr : r = rfcResponse md5Hex (itemsKV items) u p realm method := by
      have := rfc_compute (H := md5Hex) (pw := p) (method := method) hw hu hr
      rw [hcomp] at this
      cases this; rfl
    have hsup : supported (itemsKV items) = true := by
      simp only [wellFormedKV, Bool.and_eq_true] at hw
      exact hw.1.1.1.1.2
    have hv : Verifies concreteLeaves.H enc (.digest (itemsKV items)) u p realm method = true := by
      simp only [Verifies, hu, hr, hsup, hresp, hrr, beq_self_eq_true, Bool.and_self, concreteLeaves]
    simp [mustAccept, hc, AuthMap.username, hu, hl, wellFormed, hw, hv]

/-- **The RFC 2617 client, any response text.**  The header with the client's parameters (RFC
    order and quoting) and response parameter `resp` is accepted as the client's user exactly
    when the realm is the configured one, the table has a password for the user, and `resp`
    is the RFC 2617 3.2.2.1 request-digest (= the model's `_computeDigestResponse`) for the
    TABLE's password. -/
theorem digest_client_response_concrete (c : Client) (hc : c.ok = true) (resp : Str)
    (enc : Enc) (realm method : Str) (users : List (Str × Str)) :
    checkAuth Policy.current concreteLeaves enc realm method users (some (digestHeader (c.items resp))) = .ok c.user
      ↔ c.realm = realm ∧ ∃ p, users.lookup c.user = some p ∧ c.response md5Hex p method = resp := by
  have hg := client_fields c resp
  have hwf := client_wellFormed c hc resp
  rw [digest_concrete _ (client_items_ok c hc _) (client_items_nodup c _) hwf]
  constructor
  · rintro ⟨_, hr, p, r, hl, hresp, hcomp⟩
    rw [hg.2.1] at hr
    rw [hg.2.2] at hresp
    rw [rfc_compute hwf hg.1 hg.2.1, client_rfcResponse] at hcomp
    have e1 : c.realm = realm := Option.some.inj hr
    have e2 : resp = r := Option.some.inj hresp
    have e3 := Res.val.inj hcomp
    exact ⟨e1, p, hl, e3.trans e2.symm⟩
  · rintro ⟨hr, p, hl, hresp⟩
    refine ⟨hg.1, hr ▸ hg.2.1, p, resp, hl, hg.2.2, ?_⟩
    rw [rfc_compute hwf hg.1 hg.2.1, client_rfcResponse]
    exact congrArg _ hresp

/-- **The RFC 2617 client.**  The header the client model sends for password `pw`
    (request-digest per 3.2.2.1 with `H` = md5) is accepted as the client's user exactly when
    the realm is the configured one and the table holds, for that user, a password with the
    same request-digest (the same password, md5 collisions aside). -/
theorem digest_client_concrete (c : Client) (hc : c.ok = true) (pw : Str)
    (enc : Enc) (realm method : Str) (users : List (Str × Str)) :
    checkAuth Policy.current concreteLeaves enc realm method users (some (c.header md5Hex pw method)) = .ok c.user
      ↔ c.realm = realm ∧ ∃ p, users.lookup c.user = some p ∧
          c.response md5Hex p method = c.response md5Hex pw method :=
  digest_client_response_concrete c hc (c.response md5Hex pw method) enc realm method users

/-- Completeness for the client: with the table's password the client is accepted ... -/
theorem digest_client_accepted (c : Client) (hc : c.ok = true) (pw : Str)
    (enc : Enc) (method : Str) (users : List (Str × Str)) (hl : users.lookup c.user = some pw) :
    checkAuth Policy.current concreteLeaves enc c.realm method users (some (c.header md5Hex pw method)) = .ok c.user
    ∧ digestAuth Policy.current concreteLeaves c.realm method users (some (c.header md5Hex pw method)) = .letThrough := by
  have h1 := (digest_client_concrete c hc pw enc c.realm method users).2 ⟨rfl, pw, hl, rfl⟩
  have h2 := (digest_client_concrete c hc pw .dflt c.realm method users).2 ⟨rfl, pw, hl, rfl⟩
  exact ⟨h1, by simp [digestAuth, h2, Out.truthy]⟩

/-- ... and a user without a table entry is never accepted, whatever password it used. -/
theorem digest_client_unknown_refused (c : Client) (hc : c.ok = true) (pw : Str)
    (enc : Enc) (realm method : Str) (users : List (Str × Str)) (hl : users.lookup c.user = none) :
    checkAuth Policy.current concreteLeaves enc realm method users (some (c.header md5Hex pw method)) ≠ .ok c.user := by
  intro h
  obtain ⟨_, p, hp, _⟩ := (digest_client_concrete c hc pw enc realm method users).1 h
  rw [hl] at hp
  cases hp

/-- non-vacuity of `digest_concrete` / `digest_client_*`: a qop=auth MD5-sess client whose
    user, realm and cnonce need quoted-pairs is accepted; the parameters are well-formed -/
example :
    let c : Client := ⟨"al\"ice".toList, "my, realm".toList, "n0".toList, "/a?b=\"c\"".toList, some true,
                       some ("00000001".toList, "c\\n".toList)⟩
    c.ok = true ∧ (∀ i ∈ c.items [], i.ok = true) ∧ ((c.items []).map (·.k)).Nodup
      ∧ wellFormedKV (itemsKV (c.items [])) = true := by decide

/-- non-vacuity of `digest_client_accepted` / `digest_client_unknown_refused`: the header text of
    that client is accepted with the table's password, and not when the table lacks the user -/
example :
    let c : Client := ⟨"al\"ice".toList, "my, realm".toList, "n0".toList, "/".toList, none, none⟩
    checkAuth Policy.current concreteLeaves .dflt c.realm "GET".toList [(c.user, "pw".toList)]
        (some (c.header md5Hex "pw".toList "GET".toList)) = .ok c.user
    ∧ checkAuth Policy.current concreteLeaves .dflt c.realm "GET".toList [("bob".toList, "pw".toList)]
        (some (c.header md5Hex "pw".toList "GET".toList)) ≠ .ok c.user :=
  ⟨(digest_client_accepted _ (by decide) _ _ _ _ (by decide)).1,
   digest_client_unknown_refused _ (by decide) _ _ _ _ _ (by decide)⟩

/-! ## Every shape of user table, evaluated per call (CV/Model/AuthTable.lean)

`users` may be a dict (mutable), a callable returning a dict, a callable taking the user name, a
callable returning something else, a callable that raises, or a callable that changes its
behaviour from call to call; `Table.at k` is what evaluating it yields during call number `k`.
`runCalls` runs a sequence of `check_auth` / `basic_auth` / `digest_auth` calls (each with its own
realm / encrypt / table) on ONE request object, threading `request.login`. -/

/-- The dict-only model of the theorems above is the special case of a dict answer. -/
theorem any_table_extends_dict (pol : Policy) (L : Leaves) (enc : Enc) (realm method : Str)
    (users : List (Str × Str)) (hdr : Option Str) :
    checkAuthA pol L enc realm method (.dict users) hdr = checkAuth pol L enc realm method users hdr
    ∧ basicAuthA pol L enc realm method (.dict users) hdr = basicAuth pol L enc realm method users hdr
    ∧ digestAuthA pol L realm method (.dict users) hdr = digestAuth pol L realm method users hdr := by
  refine ⟨checkAuthA_dict .., ?_, ?_⟩
  · simp only [basicAuthA, basicAuth, checkAuthA_dict]; rfl
  · simp only [digestAuthA, digestAuth, checkAuthA_dict]; rfl

/-- **The verdict of a call depends only on the table's answer at that call.**  Two runs - other
    request history, other `request.login`, other earlier calls, other earlier answers of the table,
    even another table object - agree at a call whenever the configuration of that call (front end,
    encrypt, realm) and what the table answers DURING that call agree. -/
theorem auth_call_local (L : Leaves) (method : Str) (hdr : Option Str) (lg₁ lg₂ : Login)
    (calls₁ calls₂ : List Call) (k₁ k₂ i j : Nat) (c₁ c₂ : Call)
    (h1 : calls₁[i]? = some c₁) (h2 : calls₂[j]? = some c₂)
    (hf : c₁.front = c₂.front) (he : c₁.enc = c₂.enc) (hr : c₁.realm = c₂.realm)
    (ha : c₁.table.at (k₁ + i) = c₂.table.at (k₂ + j)) :
    ((runCalls Policy.current L method hdr lg₁ k₁ calls₁)[i]?).map (·.1)
      = ((runCalls Policy.current L method hdr lg₂ k₂ calls₂)[j]?).map (·.1) := by
  obtain ⟨_, e1⟩ := runCalls_get Policy.current L method hdr calls₁ lg₁ k₁ i c₁ h1
  obtain ⟨_, e2⟩ := runCalls_get Policy.current L method hdr calls₂ lg₂ k₂ j c₂ h2
  rw [e1, e2, ha]
  simp [callObs, hf, he, hr]

/-- **Soundness for every table, at every position of a sequence.**  If call `i` on a request
    (whatever happened to that request before) grants - `check_auth` truthy, `basic_auth` /
    `digest_auth` returning None - then the Authorization value carries credentials for a user `u`
    for whom the table's answer AT CALL `i` holds a password `p` against which they verify, for the
    realm / encrypt of call `i`; and `request.login` is `u` afterwards. -/
theorem auth_sound_any_table (L : Leaves) (method : Str) (hdr : Option Str) (lg : Login)
    (calls : List Call) (i : Nat) (c : Call) (obs : CallObs) (lg' : Login)
    (hc : calls[i]? = some c)
    (ho : (runCalls Policy.current L method hdr lg 0 calls)[i]? = some (obs, lg'))
    (hg : obs.granted = true) :
    ∃ cred cr u p, hdr = some cred ∧ credsOf L cred = some cr ∧ cr.username = u ∧
      (c.table.at i).password u = .val (some p) ∧
      Verifies L.H c.encUsed cr u p c.realm method = true ∧ lg' = .user u := by
  obtain ⟨lgi, e⟩ := runCalls_get Policy.current L method hdr calls lg 0 i c hc
  rw [Nat.zero_add] at e
  rw [e] at ho
  cases ho
  obtain ⟨u, hu⟩ := truthyA_ok (callObs_granted hg)
  obtain ⟨cred, cr, p, h1, h2, h3, h4, h5⟩ := checkAuthA_ok hu
  refine ⟨cred, cr, u, p, h1, h2, h3, h4, h5, ?_⟩
  unfold callOut
  rw [hu]
  rfl

/-- ... on a single call, for the three front ends (Basic and Digest credentials alike). -/
theorem auth_sound_any_answer (L : Leaves) (enc : Enc) (realm method : Str) (ans : Ans) (hdr : Option Str)
    (h : (checkAuthA Policy.current L enc realm method ans hdr).truthy = some true
       ∨ basicAuthA Policy.current L enc realm method ans hdr = .letThrough) :
    ∃ cred c u p, hdr = some cred ∧ credsOf L cred = some c ∧ c.username = u ∧
      ans.password u = .val (some p) ∧ Verifies L.H enc c u p realm method = true := by
  have ht : (checkAuthA Policy.current L enc realm method ans hdr).truthy = some true := by
    rcases h with h | h
    · exact h
    · unfold basicAuthA at h
      split at h
      · cases h
      · assumption
      · split at h <;> cases h
  obtain ⟨u, hu⟩ := truthyA_ok ht
  obtain ⟨cred, c, p, h1, h2, h3, h4, h5⟩ := checkAuthA_ok hu
  exact ⟨cred, c, u, p, h1, h2, h3, h4, h5⟩

/-- **Completeness for every table, at every position of a sequence.**  Well-formed credentials
    that verify against the password the table's answer AT CALL `i` holds for their own user name
    are accepted by call `i` as that user - whatever the table answered earlier, whatever earlier
    calls decided, whatever `request.login` was. -/
theorem auth_complete_any_table (L : Leaves) (method : Str) (hdr : Option Str) (lg : Login)
    (calls : List Call) (i : Nat) (c : Call) (u : Str)
    (hc : calls[i]? = some c)
    (hm : mustAcceptA L c.encUsed c.realm method (c.table.at i) hdr = some u) :
    ∃ obs, (runCalls Policy.current L method hdr lg 0 calls)[i]? = some (obs, .user u) ∧
      obs.granted = true ∧ (c.front = .check → obs = .check (.ok u)) := by
  obtain ⟨lgi, e⟩ := runCalls_get Policy.current L method hdr calls lg 0 i c hc
  rw [Nat.zero_add] at e
  have hu : callOut Policy.current L method hdr c (c.table.at i) = .ok u := mustAcceptA_ok hm
  obtain ⟨g1, g2⟩ := callObs_of_ok hu
  refine ⟨_, ?_, g1, g2⟩
  rw [e, hu]
  rfl

/-- **A table that fails never authenticates.**  If what the table does at call `i` is an error for
    every user name - it is not a dict, the callable returned a non-dict (ValueError), it raised -
    call `i` grants nothing, whatever earlier calls (with the table still intact) decided. -/
theorem table_error_refuses (L : Leaves) (method : Str) (hdr : Option Str) (lg : Login)
    (calls : List Call) (i : Nat) (c : Call) (obs : CallObs) (lg' : Login)
    (hc : calls[i]? = some c)
    (ho : (runCalls Policy.current L method hdr lg 0 calls)[i]? = some (obs, lg'))
    (he : ∀ u, (c.table.at i).password u = .raised) :
    obs.granted = false := by
  cases hg : obs.granted with
  | false => rfl
  | true =>
    obtain ⟨_, _, u, p, _, _, _, h4, _⟩ := auth_sound_any_table L method hdr lg calls i c obs lg' hc ho hg
    rw [he u] at h4
    cases h4

/-- the failing shapes: for every call index and user name -/
theorem table_error_shapes (k : Nat) (u : Str) :
    (Table.notDict.at k).password u = .raised ∧ (Table.callOther.at k).password u = .raised ∧
    (Table.callRaises.at k).password u = .raised ∧
    ((Table.callName fun _ _ => .raises).at k).password u = .raised :=
  ⟨rfl, rfl, rfl, rfl⟩

/-- The decidable forms the driver evaluates on the implementation's calls (`soundOnA`,
    `completeOnA`) hold of every decision of the model. -/
theorem auth_soundOnA (L : Leaves) (enc : Enc) (realm method : Str) (ans : Ans) (hdr : Option Str) :
    soundOnA L enc realm method ans hdr
      ((checkAuthA Policy.current L enc realm method ans hdr).truthy == some true) = true := by
  unfold soundOnA
  cases ht : (checkAuthA Policy.current L enc realm method ans hdr).truthy == some true
  · rfl
  · have ht' : (checkAuthA Policy.current L enc realm method ans hdr).truthy = some true := by
      simpa using ht
    obtain ⟨cred, c, u, p, h1, h2, h3, h4, h5⟩ := auth_sound_any_answer L enc realm method ans hdr (.inl ht')
    subst h1 h3
    simp [verifiedByA, h2, h4, h5]

theorem auth_completeOnA (L : Leaves) (enc : Enc) (realm method : Str) (ans : Ans) (hdr : Option Str) :
    completeOnA L enc realm method ans hdr
      (match checkAuthA Policy.current L enc realm method ans hdr with
       | .ok u => some u
       | _ => none) = true := by
  unfold completeOnA
  cases hm : mustAcceptA L enc realm method ans hdr with
  | none => rfl
  | some u => simp [mustAcceptA_ok hm]

/-- non-vacuity of `auth_sound_any_table` / `auth_complete_any_table` / `table_error_refuses` /
    `auth_call_local`: one request, three `check_auth` calls with ONE callable table whose answer
    changes: the password is right at call 0, was changed at call 1, and at call 2 the callable
    returns a non-dict.  Granted, refused, raised - and the same with a by-name callable. -/
example :
    let L : Leaves := ⟨id, fun _ => some [97, 58, 98], fun b => some (b.map (fun x => Char.ofNat x.toNat)), fun _ => none⟩
    let t : Table := .callAny fun k =>
      if k = 0 then .dict [("a".toList, "b".toList)] else if k = 1 then .dict [("a".toList, "c".toList)] else .nonDict
    let g : Table := .callName fun k u => if k = 0 ∧ u = "a".toList then .pw "b".toList else if k = 1 then .absent else .raises
    let c : Call := ⟨.check, .ident, "R".toList, t⟩
    let d : Call := ⟨.basic, .ident, "R".toList, g⟩
    runCalls Policy.current L "GET".toList (some "Basic YTpi".toList) .unset 0 [c, c, c]
      = [(.check (.ok "a".toList), .user "a".toList), (.check .refused, .no), (.check .raised, .no)]
    ∧ runCalls Policy.current L "GET".toList (some "Basic YTpi".toList) .unset 0 [d, d, d]
      = [(.front .letThrough, .user "a".toList), (.front .unauthorized, .no), (.front .raised, .no)]
    ∧ mustAcceptA L .ident "R".toList "GET".toList (t.at 0) (some "Basic YTpi".toList) = some "a".toList := by
  decide

/-! ## Session binding -/
open CV.Session in
/-- For every history of requests (any cookies, addresses, agents, actions; `W` = sha1
    arbitrary; uuid hex strings contain no '/'):  each request is either honoured - it
    presented exactly the id it ends up with and that id ends in its own fingerprint - or
    gets an id freshly made from its uuid; and every datum it is shown was written under that
    same id by a request with the same fingerprint. -/
theorem session_binding (W : Session.Str → Session.Str) (steps : List Step)
    (hu : ∀ s ∈ steps, '/' ∉ s.u) :
    (run W [] steps).2.length = steps.length ∧
    ∀ p ∈ steps.zip (run W [] steps).2,
      ((p.1.req.cookie = some p.2.sid ∧ afterSlash p.2.sid = some (who W p.1.req)) ∨
        p.2.sid = createSession W p.1.u p.1.req) ∧
      ∀ e ∈ p.2.contents, e.wsid = p.2.sid ∧ e.wfp = who W p.1.req :=
  ⟨run_length W steps [], run_bound W steps [] inv_nil hu⟩

open CV.Session in
/-- "All others get a fresh, unique id": a request that is not honoured, whose uuid was not
    drawn before and does not occur as the id part of any cookie presented before, gets an id
    nobody had before and an empty session. -/
theorem session_fresh_unique (W : Session.Str → Session.Str) (before : List Step) (s : Step)
    (hu : ∀ t ∈ before, '/' ∉ t.u) (hs : '/' ∉ s.u)
    (hnew : ∀ t ∈ before, t.u ≠ s.u ∧ t.req.cookie.map pre ≠ some s.u)
    (hfresh : chooseSid W s.u s.req = createSession W s.u s.req) :
    (step W (run W [] before).1 s).2.contents = [] ∧
    ∀ o ∈ (run W [] before).2, o.sid ≠ (step W (run W [] before).1 s).2.sid := by
  have hk := run_keys W (fun k => pre k ≠ s.u) before [] (by intro k d h; simp at h)
    (fun t ht => pre_chooseSid_ne W (hu t ht) (hnew t ht).1 (hnew t ht).2)
  have hp : pre (createSession W s.u s.req) = s.u := by
    rw [createSession, pre_append hs]
  constructor
  · unfold step
    simp only []
    cases hl : (run W [] before).1.lookup (chooseSid W s.u s.req) with
    | none => rfl
    | some d =>
      exfalso
      apply hk.1 _ d hl
      rw [hfresh, hp]
  · intro o ho e
    apply hk.2 o ho
    rw [e, step_sid, hfresh, hp]

open CV.Session in
/-- non-vacuity: the owner gets its data back, a different address with the same cookie does not -/
example :
    let W : Session.Str → Session.Str := fun x => 'h' :: x
    let a : Req := ⟨"1".toList, "ua".toList, none⟩
    let sid := createSession W "u1".toList a
    (run W [] [⟨a, "u1".toList, .put "k".toList "v".toList⟩,
               ⟨{ a with cookie := some sid }, "u2".toList, .get⟩,
               ⟨⟨"2".toList, "ua".toList, some sid⟩, "u3".toList, .get⟩]).2.map (fun o => o.contents.map (·.val))
      = [[], ["v".toList], []] := by decide

/-! ## How the session id travels: the configured cookie name, Set-Cookie (CV/Model/SessionCookie.lean) -/
open CV.Session in
/-- **A session id is only taken from the configured cookie name.**  Two requests from the same
    address and agent whose cookie jars agree on the CONFIGURED name (both lack it, or both carry
    the same value under it) are treated alike by `Sessions(name)` - same id, same contents shown,
    same store afterwards - whatever else the jars hold (e.g. somebody's valid session id under
    another name, a name differing in case, a longer name). -/
theorem session_id_only_from_configured_cookie (W : Session.Str → Session.Str) (name : Session.Str)
    (st : Store) (s t : StepJ)
    (hip : s.req.ip = t.req.ip) (hag : s.req.agent = t.req.agent) (hu : s.u = t.u) (hact : s.act = t.act)
    (hc : s.req.jar.lookup name = t.req.jar.lookup name) :
    (stepJ W name st s).1 = (stepJ W name st t).1 ∧ (stepJ W name st s).2.sid = (stepJ W name st t).2.sid ∧
    (stepJ W name st s).2.contents = (stepJ W name st t).2.contents := by
  have e : s.toStep name = t.toStep name := by
    simp [StepJ.toStep, ReqJ.toReq, hip, hag, hu, hact, hc]
  simp [stepJ, e]

open CV.Session in
/-- ... in particular a request without a cookie of the configured name gets a freshly made id,
    whatever its other cookies say. -/
theorem session_no_configured_cookie_fresh (W : Session.Str → Session.Str) (name : Session.Str)
    (st : Store) (s : StepJ) (h : s.req.jar.lookup name = none) :
    (stepJ W name st s).2.sid = createSession W s.u (s.req.toReq name) := by
  simp [stepJ, step, StepJ.toStep, chooseSid, ReqJ.toReq, h]

open CV.Session in
/-- **Set-Cookie.**  The response's jar carries the chosen id under the configured name and leaves
    every other name as the request sent it (the jar is shared: request cookies are echoed). -/
theorem session_set_cookie (W : Session.Str → Session.Str) (name : Session.Str) (st : Store) (s : StepJ) :
    (stepJ W name st s).2.setCookie.lookup name = some (stepJ W name st s).2.sid ∧
    ∀ n, n ≠ name → (stepJ W name st s).2.setCookie.lookup n = s.req.jar.lookup n :=
  ⟨lookup_jarSet_self _ _ _, fun n hn => lookup_jarSet_other _ _ _ n hn⟩

open CV.Session in
/-- **Session binding for every cookie name and every jar.**  `session_binding` holds of histories of
    requests with arbitrary cookie jars under any configured name: a request is honoured only if it
    presented the id it ends up with UNDER THE CONFIGURED NAME and the id ends in its own fingerprint;
    otherwise it gets an id made from its own uuid; and all it is shown was written under that id
    by a request with the same fingerprint. -/
theorem session_binding_any_cookie_name (W : Session.Str → Session.Str) (name : Session.Str)
    (steps : List StepJ) (hu : ∀ s ∈ steps, '/' ∉ s.u) :
    (runJ W name [] steps).2.length = steps.length ∧
    ∀ p ∈ steps.zip (runJ W name [] steps).2,
      ((p.1.req.jar.lookup name = some p.2.sid ∧ afterSlash p.2.sid = some (who W (p.1.req.toReq name))) ∨
        p.2.sid = createSession W p.1.u (p.1.req.toReq name)) ∧
      (∀ e ∈ p.2.contents, e.wsid = p.2.sid ∧ e.wfp = who W (p.1.req.toReq name)) ∧
      p.2.setCookie.lookup name = some p.2.sid := by
  have hu' : ∀ s ∈ steps.map (StepJ.toStep name), '/' ∉ s.u := by
    intro s hs
    obtain ⟨t, ht, rfl⟩ := List.mem_map.mp hs
    exact hu t ht
  obtain ⟨hl, hb⟩ := session_binding W (steps.map (StepJ.toStep name)) hu'
  obtain ⟨_, e2⟩ := runJ_eq W name steps []
  constructor
  · have := congrArg List.length e2
    rw [List.length_map, hl, List.length_map] at this
    exact this
  · intro p hp
    have hm : (p.1.toStep name, p.2.toObs) ∈
        (steps.map (StepJ.toStep name)).zip (run W [] (steps.map (StepJ.toStep name))).2 := by
      rw [← e2, List.zip_map]
      exact List.mem_map_of_mem (f := Prod.map (StepJ.toStep name) ObsJ.toObs) hp
    have h := hb _ hm
    refine ⟨h.1, h.2, ?_⟩
    -- the Set-Cookie clause: every observation of `runJ` is a `stepJ` observation
    have hs : ∀ (ss : List StepJ) (st : Store) (q : StepJ × ObsJ), q ∈ ss.zip (runJ W name st ss).2 →
        q.2.setCookie.lookup name = some q.2.sid := by
      intro ss
      induction ss with
      | nil => intro st q hq; simp at hq
      | cons a as ih =>
        intro st q hq
        simp only [runJ, List.zip_cons_cons, List.mem_cons] at hq
        rcases hq with rfl | hq
        · exact (session_set_cookie W name st a).1
        · exact ih _ q hq
    exact hs steps [] p hp

open CV.Session in
/-- non-vacuity: configured name `sid`; the owner's id sent under ANOTHER name (and under a name
    differing in case) is ignored - a fresh id, an empty session - while under `sid` it is honoured;
    the other cookies are echoed unchanged. -/
example :
    let W : Session.Str → Session.Str := fun x => 'h' :: x
    let a : ReqJ := ⟨"1".toList, "ua".toList, []⟩
    let id1 := createSession W "u1".toList (a.toReq "sid".toList)
    let r := runJ W "sid".toList [] [⟨a, "u1".toList, .put "k".toList "v".toList⟩,
               ⟨{ a with jar := [("circuits".toList, id1), ("SID".toList, id1)] }, "u2".toList, .get⟩,
               ⟨{ a with jar := [("x".toList, "y".toList), ("sid".toList, id1)] }, "u3".toList, .get⟩]
    r.2.map (fun o => (o.sid == id1, o.contents.map (·.val))) = [(true, []), (false, []), (true, ["v".toList])]
    ∧ r.2.map (fun o => o.setCookie.map (·.1)) =
        [["sid".toList], ["circuits".toList, "SID".toList, "sid".toList], ["x".toList, "sid".toList]] := by decide

/-! ## Gateway trust -/
open CV.VHost in
/-- Constructed with a gateway list `G` (any list, also the empty one), a request from an
    address outside `G` is routed the same whatever its `X-Forwarded-Host` says. -/
theorem gateway_trust (G : List VHost.Str) (domains : List (VHost.Str × VHost.Str)) (ip : VHost.Str)
    (host x y : Option VHost.Str) (h : ip ∉ G) :
    handle VHost.Policy.current (some G) domains ip host x = handle VHost.Policy.current (some G) domains ip host y := by
  simp [handle, construct, VHost.Policy.current, route, chooseDomain, trusts, h]

open CV.VHost in
/-- From a trusted gateway (or when no list was configured: the documented "no restriction")
    the first forwarded host, stripped and lower-cased, is the routing key when non-empty. -/
theorem gateway_honoured (arg : Option (List VHost.Str)) (domains : List (VHost.Str × VHost.Str))
    (ip : VHost.Str) (host : Option VHost.Str) (x : VHost.Str)
    (h : arg = none ∨ ∃ G, arg = some G ∧ ip ∈ G) (hx : normFwd x ≠ []) :
    handle VHost.Policy.current arg domains ip host (some x) =
      (if (domains.lookup (normFwd x)).getD [] = [] then none else some ((domains.lookup (normFwd x)).getD [])) := by
  have ht : trusts arg ip = true := by
    rcases h with rfl | ⟨G, rfl, hG⟩
    · rfl
    · simpa [trusts] using hG
  simp [handle, construct, VHost.Policy.current, route, chooseDomain, ht, hx]

open CV.VHost in
/-- non-vacuity of `gateway_trust` / `gateway_honoured` -/
example :
    handle VHost.Policy.current (some ["a".toList]) [("two".toList, "p".toList)] "c".toList none (some "two".toList) = none
    ∧ handle VHost.Policy.current (some ["a".toList]) [("two".toList, "p".toList)] "a".toList none (some " Two ,x".toList)
        = some "p".toList := by decide

open CV.VHost in
/-- The code as found discards the list: an untrusted address steers the routing. -/
theorem legacy_gateway_witness :
    handle VHost.Policy.legacy (some ["a".toList]) [("two".toList, "p".toList)] "c".toList none (some "two".toList)
      ≠ handle VHost.Policy.legacy (some ["a".toList]) [("two".toList, "p".toList)] "c".toList none none := by decide

end CV.C20

import CV.Proofs.Auth
import CV.Proofs.Session
import CV.Model.VHost
/-
C20 - Authentication, session binding and gateway trust are sound.

Every theorem below is about the executable models in CV/Model/{Auth,Session,VHost}.lean as
they follow the code AFTER the three `fix:` commits (`Policy.current`), for ALL inputs:
every header text, user table, realm, method, `encrypt` variant, every instantiation of the
stdlib leaves (`H` = md5, base64, utf-8, the Digest tokeniser) and of `W` = sha1; every
history of requests; every gateway list.  The `legacy_*_witness` theorems show that the same
statements are FALSE of the code as it was found (`Policy.legacy`).
-/
namespace CV.C20
open CV.Auth

/-! ## Authentication -/

/-- Soundness of `check_auth` (the documented `if check_auth(..): return secret` idiom):
    whenever it returns something truthy, the Authorization value carries credentials that
    verify against an entry of the user table for the configured realm. -/
theorem auth_sound (L : Leaves) (enc : Enc) (realm method : Str) (users : List (Str × Str))
    (hdr : Option Str)
    (h : (checkAuth Policy.current L enc realm method users hdr).truthy = some true) :
    ∃ cred c u p, hdr = some cred ∧ credsOf L cred = some c ∧ (u, p) ∈ users ∧
      Verifies L.H enc c u p realm method = true := by
  obtain ⟨u, hu⟩ := truthy_ok h
  obtain ⟨cred, c, p, h1, h2, _, h4, h5⟩ := checkAuth_ok hu
  exact ⟨cred, c, u, p, h1, h2, lookup_mem h4, h5⟩

/-- `request.login` is the verified user: `check_auth` returns True with login `u` only if the
    credentials name `u` and verify against `u`'s own table entry. -/
theorem auth_login_sound (L : Leaves) (enc : Enc) (realm method : Str) (users : List (Str × Str))
    (hdr : Option Str) (u : Str)
    (h : checkAuth Policy.current L enc realm method users hdr = .ok u) :
    ∃ cred c p, hdr = some cred ∧ credsOf L cred = some c ∧ c.username = u ∧
      users.lookup u = some p ∧ Verifies L.H enc c u p realm method = true :=
  checkAuth_ok h

/-- `basic_auth` lets a request through only with verifying credentials. -/
theorem basic_auth_sound (L : Leaves) (enc : Enc) (realm method : Str) (users : List (Str × Str))
    (hdr : Option Str) (h : basicAuth Policy.current L enc realm method users hdr = .letThrough) :
    ∃ cred c u p, hdr = some cred ∧ credsOf L cred = some c ∧ (u, p) ∈ users ∧
      Verifies L.H enc c u p realm method = true := by
  apply auth_sound
  unfold basicAuth at h
  split at h
  · cases h
  · assumption
  · split at h <;> cases h

/-- `digest_auth` lets a request through only with verifying credentials. -/
theorem digest_auth_sound (L : Leaves) (realm method : Str) (users : List (Str × Str))
    (hdr : Option Str) (h : digestAuth Policy.current L realm method users hdr = .letThrough) :
    ∃ cred c u p, hdr = some cred ∧ credsOf L cred = some c ∧ (u, p) ∈ users ∧
      Verifies L.H .dflt c u p realm method = true := by
  apply auth_sound
  unfold digestAuth at h
  split at h
  · cases h
  · assumption
  · cases h

/-- The decidable form the driver evaluates on the implementation (`soundOn`) holds of every
    decision of the model: this is the same predicate, proved here, checked there. -/
theorem auth_soundOn (L : Leaves) (enc : Enc) (realm method : Str) (users : List (Str × Str))
    (hdr : Option Str) :
    soundOn L enc realm method users hdr
      ((checkAuth Policy.current L enc realm method users hdr).truthy == some true) = true := by
  unfold soundOn
  cases ht : (checkAuth Policy.current L enc realm method users hdr).truthy == some true
  · rfl
  · have ht' : (checkAuth Policy.current L enc realm method users hdr).truthy = some true := by
      simpa using ht
    obtain ⟨cred, c, u, p, h1, h2, h3, h4⟩ := auth_sound L enc realm method users hdr ht'
    subst h1
    simp only [Bool.not_true, Bool.false_or, verifiedBy, h2]
    exact List.any_eq_true.mpr ⟨(u, p), h3, h4⟩

/-- Completeness: well-formed credentials that verify against the table entry of their own
    user name are accepted, with that user as login (so refusal is never arbitrary). -/
theorem auth_complete (L : Leaves) (enc : Enc) (realm method : Str) (users : List (Str × Str))
    (hdr : Option Str) (u : Str) (h : mustAccept L enc realm method users hdr = some u) :
    checkAuth Policy.current L enc realm method users hdr = .ok u ∧
    basicAuth Policy.current L enc realm method users hdr = .letThrough := by
  have := mustAccept_ok h
  exact ⟨this, by simp [basicAuth, this, Out.truthy]⟩

/-- ... and `digest_auth` lets them through as well (it always runs with the default `encrypt`). -/
theorem digest_auth_complete (L : Leaves) (realm method : Str) (users : List (Str × Str))
    (hdr : Option Str) (u : Str) (h : mustAccept L .dflt realm method users hdr = some u) :
    digestAuth Policy.current L realm method users hdr = .letThrough := by
  simp [digestAuth, mustAccept_ok h, Out.truthy]

/-- The decidable form the driver evaluates on the implementation (`completeOn`) holds of the
    model's own login decision. -/
theorem auth_completeOn (L : Leaves) (enc : Enc) (realm method : Str) (users : List (Str × Str))
    (hdr : Option Str) :
    completeOn L enc realm method users hdr
      (match checkAuth Policy.current L enc realm method users hdr with
       | .ok u => some u
       | _ => none) = true := by
  unfold completeOn
  cases hm : mustAccept L enc realm method users hdr with
  | none => rfl
  | some u => simp [mustAccept_ok hm]

/-- non-vacuity of `auth_sound` / `auth_complete`: a Basic header that is accepted -/
example :
    let L : Leaves := ⟨id, fun _ => some [97, 58, 98], fun b => some (b.map (fun x => Char.ofNat x.toNat)), fun _ => none⟩
    checkAuth Policy.current L .ident "R".toList "GET".toList [("a".toList, "b".toList)]
      (some "Basic YTpi".toList) = .ok "a".toList := by decide

/-- non-vacuity: a Digest header (no qop) whose response is the RFC digest is accepted -/
example :
    let kv : KV := [("username".toList, "a".toList), ("realm".toList, "R".toList), ("nonce".toList, "n".toList),
                    ("uri".toList, "/".toList),
                    ("response".toList, rfcResponse id [("nonce".toList, "n".toList), ("uri".toList, "/".toList)]
                      "a".toList "b".toList "R".toList "GET".toList)]
    let L : Leaves := ⟨id, fun _ => none, fun _ => none, fun _ => some kv⟩
    digestAuth Policy.current L "R".toList "GET".toList [("a".toList, "b".toList)]
      (some "Digest x".toList) = .letThrough := by decide

/-- The code as found: a Digest header without the required fields is let through
    (`check_auth` returned a truthy error object) although the table is empty. -/
theorem legacy_missing_field_witness :
    let L : Leaves := ⟨id, fun _ => none, fun _ => none, fun _ => some [("username".toList, "alice".toList)]⟩
    digestAuth Policy.legacy L "R".toList "GET".toList [] (some "Digest username=\"alice\"".toList)
      = .letThrough := by decide

/-- The code as found: a user absent from the table verifies with the password text `None`. -/
theorem legacy_none_password_witness :
    let kv0 : KV := [("username".toList, "mallory".toList), ("realm".toList, "R".toList),
                     ("nonce".toList, "n".toList), ("uri".toList, "/".toList)]
    let kv : KV := kv0 ++ [("response".toList,
                      rfcResponse id kv0 "mallory".toList "None".toList "R".toList "GET".toList)]
    let L : Leaves := ⟨id, fun _ => none, fun _ => none, fun _ => some kv⟩
    checkAuth Policy.legacy L .dflt "R".toList "GET".toList [("bob".toList, "pw".toList)]
      (some "Digest x".toList) = .ok "mallory".toList := by decide

/-! ## Session binding -/
open CV.Session in
/-- For every history of requests (any cookies, addresses, agents, actions; `W` = sha1
    arbitrary; uuid hex strings contain no '/'):  each request is either honoured - it
    presented exactly the id it ends up with and that id ends in its own fingerprint - or
    gets an id freshly made from its uuid; and every datum it is shown was written under that
    same id by a request with the same fingerprint. -/
theorem session_binding (W : Session.Str → Session.Str) (steps : List Step)
    (hu : ∀ s ∈ steps, '/' ∉ s.u) :
    (run W [] steps).2.length = steps.length ∧
    ∀ p ∈ steps.zip (run W [] steps).2,
      ((p.1.req.cookie = some p.2.sid ∧ afterSlash p.2.sid = some (who W p.1.req)) ∨
        p.2.sid = createSession W p.1.u p.1.req) ∧
      ∀ e ∈ p.2.contents, e.wsid = p.2.sid ∧ e.wfp = who W p.1.req :=
  ⟨run_length W steps [], run_bound W steps [] inv_nil hu⟩

open CV.Session in
/-- "All others get a fresh, unique id": a request that is not honoured, whose uuid was not
    drawn before and does not occur as the id part of any cookie presented before, gets an id
    nobody had before and an empty session. -/
theorem session_fresh_unique (W : Session.Str → Session.Str) (before : List Step) (s : Step)
    (hu : ∀ t ∈ before, '/' ∉ t.u) (hs : '/' ∉ s.u)
    (hnew : ∀ t ∈ before, t.u ≠ s.u ∧ t.req.cookie.map pre ≠ some s.u)
    (hfresh : chooseSid W s.u s.req = createSession W s.u s.req) :
    (step W (run W [] before).1 s).2.contents = [] ∧
    ∀ o ∈ (run W [] before).2, o.sid ≠ (step W (run W [] before).1 s).2.sid := by
  have hk := run_keys W (fun k => pre k ≠ s.u) before [] (by intro k d h; simp at h)
    (fun t ht => pre_chooseSid_ne W (hu t ht) (hnew t ht).1 (hnew t ht).2)
  have hp : pre (createSession W s.u s.req) = s.u := by
    rw [createSession, pre_append hs]
  constructor
  · unfold step
    simp only []
    cases hl : (run W [] before).1.lookup (chooseSid W s.u s.req) with
    | none => rfl
    | some d =>
      exfalso
      apply hk.1 _ d hl
      rw [hfresh, hp]
  · intro o ho e
    apply hk.2 o ho
    rw [e, step_sid, hfresh, hp]

open CV.Session in
/-- non-vacuity: the owner gets its data back, a different address with the same cookie does not -/
example :
    let W : Session.Str → Session.Str := fun x => 'h' :: x
    let a : Req := ⟨"1".toList, "ua".toList, none⟩
    let sid := createSession W "u1".toList a
    (run W [] [⟨a, "u1".toList, .put "k".toList "v".toList⟩,
               ⟨{ a with cookie := some sid }, "u2".toList, .get⟩,
               ⟨⟨"2".toList, "ua".toList, some sid⟩, "u3".toList, .get⟩]).2.map (fun o => o.contents.map (·.val))
      = [[], ["v".toList], []] := by decide

/-! ## Gateway trust -/
open CV.VHost in
/-- Constructed with a gateway list `G` (any list, also the empty one), a request from an
    address outside `G` is routed the same whatever its `X-Forwarded-Host` says. -/
theorem gateway_trust (G : List VHost.Str) (domains : List (VHost.Str × VHost.Str)) (ip : VHost.Str)
    (host x y : Option VHost.Str) (h : ip ∉ G) :
    handle VHost.Policy.current (some G) domains ip host x = handle VHost.Policy.current (some G) domains ip host y := by
  simp [handle, construct, VHost.Policy.current, route, chooseDomain, trusts, h]

open CV.VHost in
/-- From a trusted gateway (or when no list was configured: the documented "no restriction")
    the first forwarded host, stripped and lower-cased, is the routing key when non-empty. -/
theorem gateway_honoured (arg : Option (List VHost.Str)) (domains : List (VHost.Str × VHost.Str))
    (ip : VHost.Str) (host : Option VHost.Str) (x : VHost.Str)
    (h : arg = none ∨ ∃ G, arg = some G ∧ ip ∈ G) (hx : normFwd x ≠ []) :
    handle VHost.Policy.current arg domains ip host (some x) =
      (if (domains.lookup (normFwd x)).getD [] = [] then none else some ((domains.lookup (normFwd x)).getD [])) := by
  have ht : trusts arg ip = true := by
    rcases h with rfl | ⟨G, rfl, hG⟩
    · rfl
    · simpa [trusts] using hG
  simp [handle, construct, VHost.Policy.current, route, chooseDomain, ht, hx]

open CV.VHost in
/-- non-vacuity of `gateway_trust` / `gateway_honoured` -/
example :
    handle VHost.Policy.current (some ["a".toList]) [("two".toList, "p".toList)] "c".toList none (some "two".toList) = none
    ∧ handle VHost.Policy.current (some ["a".toList]) [("two".toList, "p".toList)] "a".toList none (some " Two ,x".toList)
        = some "p".toList := by decide

open CV.VHost in
/-- The code as found discards the list: an untrusted address steers the routing. -/
theorem legacy_gateway_witness :
    handle VHost.Policy.legacy (some ["a".toList]) [("two".toList, "p".toList)] "c".toList none (some "two".toList)
      ≠ handle VHost.Policy.legacy (some ["a".toList]) [("two".toList, "p".toList)] "c".toList none none := by decide

end CV.C20

import CV.Model.Core.Machine
namespace CV.C01
theorem placeholder : True := trivial
end CV.C01

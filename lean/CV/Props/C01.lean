import CV.Proofs.CoreMatch
import CV.Proofs.InvCacheMain
import CV.Proofs.InvForest
import CV.Proofs.ClassTable
import CV.Proofs.ClassTableC3
import CV.Proofs.ClassTableAdd
/-
C01 - matching layer.  `collect` is the model of `Manager.getHandlers`; the dispatcher calls
it with fuel `comps.length + 1` whenever it rebuilds a cache entry.  These theorems say that
its result is exactly the handler set of the property statement, each handler once.
(The cache-liveness invariant - the set *used* at dispatch is this set, also after
detaching - is a machine-level invariant; see DESIGN.md section 0.4.)
-/
namespace CV.C01
open CV.Core CV.Core.Live

/-- a handler is collected for `(name, target)` from `root` **iff** it belongs to a component
    reachable from `root` through at most `n` child links and either is installed for `name`
    (or for all events) with a matching channel - equal, either side `'*'`, or the target is the
    component itself - or is a global handler of that component -/
theorem collect_iff (s : St) (n root : Nat) (name : Name) (target : Chan) (h : Nat) :
    h ∈ collect s (n + 1) root name target ↔
      ∃ d, ReachIn s n root d ∧ matchesAt s d name target h :=
  mem_collect s name target h n root

/-- ... and exactly once -/
theorem collect_once (s : St) (fuel root : Nat) (name : Name) (target : Chan) :
    (collect s fuel root name target).Nodup :=
  collect_nodup s fuel root name target

/-- the channel rule of the statement, spelled out -/
theorem chanOk_iff (compChan : Chan) (c : Nat) (hd : Handler) (target : Chan) :
    chanOk compChan c hd target = true ↔
      target = .star ∨ hd.chan.getD compChan = .star ∨ hd.chan.getD compChan = target ∨ target = .inst c := by
  simp [chanOk, or_assoc]

/-- non-vacuity: a two-level tree where the grandchild's handler is found through the child -/
example :
    let s : St := { comps := [{ parent := 0, root := 0, children := [1] },
                              { parent := 0, root := 0, children := [2] },
                              { parent := 1, root := 0, htab := [(some ⟨1, []⟩, 0)] }],
                    hs := [{ owner := 2, names := [⟨1, []⟩], chan := none, kind := .user 0 }] }
    collect s 4 0 ⟨1, []⟩ (.named 7) = [0] := by decide

/-! ### cache layer: the dispatcher never uses a stale handler set

`_dispatcher` memoises the sorted handler list per `(event name, channels)` in the `_cache` of
the component that dispatches and rebuilds it when that component's `_cache_needs_refresh` is
set.  `freshHandlers s r name chans` (CV/Proofs/InvCacheBase.lean) is what a rebuild computes
before the framework's fallback handler is appended: `collect` for every channel, concatenated
and sorted by priority; by `collect_iff` that is the handler set of the property statement.

Hypotheses on the initial state: `InitForest s0` (every component a detached root; it gives the
forest invariant of C07 - `FInv.reach` in CV/Proofs/InvForest.lean, i.e. `CV.C07.forest_inv` -, from which the proof uses: all components below a root carry
that root in their `root` field, so `x.root._cache_needs_refresh = True` flags the component that
will dispatch for `x`); further (CV/Proofs/InvCacheMain.lean): `InitHandlers s0` - whatever is
installed in a handler table is a declared handler record and not one of the two framework
fallback records; `InitCache s0` - nothing has been dispatched yet (all caches empty).

Machine-level theorems, for every configuration of every driver session (`Reach`): cached lists
are live (`cache_live_partial`, `cache_live_settled`), hence the list the dispatcher hands to the
handler loop is `freshHandlers` of the state at that very moment (`dispatch_uses_live_set`), i.e.
exactly the statement's set, by priority (`dispatch_exact_set`). -/

/-- every component that is its own parent (a root) and is not exempted by `E` either has
    `_cache_needs_refresh` set or caches only live lists -/
def CacheInvBut (E : Nat → Prop) (s : St) : Prop :=
  ∀ c, c < s.comps.length → (s.comp c).parent = c → ¬ E c →
    (s.comp c).dirty = true ∨
    ∀ key hs, (key, hs) ∈ (s.comp c).cache → nonFallback s hs = freshHandlers s c key.1 key.2

def CacheInv (s : St) : Prop := CacheInvBut (fun _ => False) s

/-- **Cache liveness.**  In every reachable configuration every root component has its refresh
    flag set or caches exactly what a rebuild would compute now - except the one component `x`
    that is in the middle of `_do_prepare_unregister_complete` (`detaching c x`: it has been made
    its own root by `_updateRoot(self)` and `self._cache_needs_refresh = True` is the very next
    step).

    Full statement wanted: `∀ c, Reach s0 c → CacheInv c.st`.  It is false in exactly that one
    kind of configuration (`cache_live_window_witness`): between the two steps `invoke
    prepUnregComplete` (detach + `_updateRoot`) and `prepUnregFin` (set the flag) the detached
    component is a root with a possibly stale cache and no flag.  The same holds between the two
    Python statements; no dispatch can happen there (the flag is set by the next step), so the
    exemption is invisible to `dispatch_uses_live_set`, which is proved at full strength. -/
theorem cache_live_partial (s0 : St) (h0 : InitForest s0) (hH : InitHandlers s0) (hC : InitCache s0) :
    ∀ c, Reach s0 c → CacheInvBut (detaching c) c.st := by
  have hF : ∀ c, Reach s0 c → ForestInv c.st := fun c hc => (FInv.reach h0 c hc).forest
  intro c hc x hx hpar hE
  have hlive := reach_live (K.init s0 hH hC) (fun c hc => (hF c hc).cacheFacts) c hc
  have hroot : (c.st.comp x).root = x := by
    rw [(hF c hc).rootOk x hx, if_pos hpar]
  exact hlive x hroot hE

/-- ... in particular, at full strength, whenever no component is in the middle of being
    detached (every configuration whose top frame is not `prepUnregFin`) -/
theorem cache_live_settled (s0 : St) (h0 : InitForest s0) (hH : InitHandlers s0) (hC : InitCache s0) :
    ∀ c, Reach s0 c → (∀ x, ¬ detaching c x) → CacheInv c.st := by
  intro c hc hno x hx hpar _
  exact cache_live_partial s0 h0 hH hC c hc x hx hpar (hno x)

/-- **Never a stale set.**  When `_dispatcher(e)` runs on a component `r` that is the top of its
    tree (`r.root = r`; by the forest invariant this is the same as `r.parent = r`, and every `r`
    that `flush`/`tick` dispatch on is `x.root` for some `x`) and `e` is not cancelled, the
    handler list `hs` the step puts into the handler loop satisfies: `hs` minus fallback records
    = `freshHandlers` of the state the loop starts in.  This holds however `r` got there - also
    for a component that was a root, became a child, and was detached again. -/
theorem dispatch_uses_live_set (s0 : St) (h0 : InitForest s0) (hH : InitHandlers s0) (hC : InitCache s0)
    (c : Cfg) (hc : Reach s0 c) (r e remaining : Nat) (k : List Frame)
    (hst : c.stack = .dispatcher r e remaining :: k) (hx : c.exn = none)
    (hr : (c.st.comp r).root = r) (hcan : (c.st.ev e).cancelled = false) :
    ∃ hs, (step c).stack = .hLoop r e hs false .none :: k ∧
      nonFallback (step c).st hs = freshHandlers (step c).st r (c.st.ev e).name (c.st.ev e).chans :=
  dispatcher_step_live (K.init s0 hH hC) (fun c hc => (FInv.reach h0 c hc).forest.cacheFacts)
    c hc r e remaining k hst hx hr hcan

/-- **Exactly the statement's set.**  In the situation of `dispatch_uses_live_set`: a non-fallback
    handler is in the list handed to the handler loop **iff** it belongs to a component reachable
    from `r` through child links and is installed for the event's name (or for all events) with a
    matching channel, or is a global handler there - for one of the event's channels; and the
    list is sorted by descending priority.  Handlers added or removed and components registered
    or unregistered before this moment are therefore always reflected. -/
theorem dispatch_exact_set (s0 : St) (h0 : InitForest s0) (hH : InitHandlers s0) (hC : InitCache s0)
    (c : Cfg) (hc : Reach s0 c) (r e remaining : Nat) (k : List Frame)
    (hst : c.stack = .dispatcher r e remaining :: k) (hx : c.exn = none)
    (hr : (c.st.comp r).root = r) (hcan : (c.st.ev e).cancelled = false) :
    ∃ hs, (step c).stack = .hLoop r e hs false .none :: k ∧
      (∀ h, h ∈ nonFallback (step c).st hs ↔
        ∃ ch, ch ∈ (c.st.ev e).chans ∧ ∃ d, ReachIn (step c).st (step c).st.comps.length r d ∧
          matchesAt (step c).st d (c.st.ev e).name ch h) ∧
      (nonFallback (step c).st hs).Pairwise
        (fun a b => ((step c).st.hs.getD a dfltHandler).prio ≥ ((step c).st.hs.getD b dfltHandler).prio) := by
  obtain ⟨hs, h1, h2⟩ := dispatch_uses_live_set s0 h0 hH hC c hc r e remaining k hst hx hr hcan
  refine ⟨hs, h1, ?_, ?_⟩
  · intro h; rw [h2]; exact mem_freshHandlers _ _ _ _ _
  · rw [h2]; exact freshHandlers_sorted _ _ _ _

/-- non-vacuity of the `Init…` hypotheses: one component with one installed user handler -/
example :
    let s : St := { comps := [{ parent := 0, root := 0, htab := [(some ⟨1, []⟩, 0)] }],
                    hs := [{ owner := 0, names := [⟨1, []⟩], chan := none, kind := .user 0 }] }
    InitHandlers s ∧ InitCache s ∧ InitForest s :=
  ⟨plain_tables_of_bounded _ (by decide +kernel), caches_empty_of_bounded _ (by decide +kernel),
   by unfold InitForest; decide +kernel⟩

/-! ### the exempted configuration really fails (witness) -/

/-- one run of the driver: start `op` in state `s` and take `n` steps -/
abbrev runOp (s : St) (op : ExtOp) (n : Nat) : Cfg := runN n (startOf (envChange s 0 []) op)

/-- witness state: two components with their built-in `prepare_unregister_complete` handlers,
    a declared user handler 2 of component 1 for event name 1 -/
def v0 : St :=
  { comps := [{ parent := 0, root := 0, htab := [(some (Name.prepareUnregister.child sfxComplete), 0)] },
              { parent := 1, root := 1, htab := [(some (Name.prepareUnregister.child sfxComplete), 1)] }],
    hs := [{ owner := 0, names := [Name.prepareUnregister.child sfxComplete], chan := some (.inst 0), kind := .prepUnregComplete },
           { owner := 1, names := [Name.prepareUnregister.child sfxComplete], chan := some (.inst 1), kind := .prepUnregComplete },
           { owner := 1, names := [⟨1, []⟩], chan := none, kind := .user 0 }],
    progs := [[]],
    tmpls := [{ name := ⟨1, []⟩ }] }
/-- component 1 dispatches event 1 as a root (cache entry `[]`) ... -/
abbrev vc1 : Cfg := runOp v0 (.doAct 1 (.fire 0 none 0 false)) 20
abbrev vc2 : Cfg := runOp vc1.st (.flush 1) 40
/-- ... is registered under 0, gets handler 2 (the flag goes to root 0) ... -/
abbrev vc3 : Cfg := runOp vc2.st (.doAct 1 (.reg 1 0)) 20
abbrev vc4 : Cfg := runOp vc3.st (.doAct 1 (.addH 2)) 20
/-- ... and is unregistered; the second flush reaches `_do_prepare_unregister_complete` -/
abbrev vc5 : Cfg := runOp vc4.st (.doAct 1 (.unreg 1)) 20
abbrev vc6 : Cfg := runOp vc5.st (.flush 0) 200
abbrev vc7 : Cfg := runOp vc6.st (.flush 0) 5

/-- why `cache_live_partial` carries the exemption: in the configuration between the detach step
    and `self._cache_needs_refresh = True` the detached component 1 is a root whose cache still
    holds the list of its first life (`[]`, a rebuild gives `[2]`) and its flag is not yet set.
    The flag is set by the very next step, so no dispatch can see this. -/
theorem cache_live_window_witness :
    InitHandlers v0 ∧ InitCache v0 ∧ InitForest v0 ∧ Reach v0 vc7 ∧ detaching vc7 1 ∧ ¬ CacheInv vc7.st := by
  refine ⟨plain_tables_of_bounded v0 (by decide +kernel), caches_empty_of_bounded v0 (by decide +kernel),
    by unfold InitForest; decide +kernel, ?_, detaching_of_B _ _ (by decide +kernel), ?_⟩
  · have h1 : Reach v0 vc1 := Reach.runN (Reach.init 0 [] _) 20
    have h2 : Reach v0 vc2 := Reach.runN (Reach.next 0 [] _ h1 (by decide +kernel)) 40
    have h3 : Reach v0 vc3 := Reach.runN (Reach.next 0 [] _ h2 (by decide +kernel)) 20
    have h4 : Reach v0 vc4 := Reach.runN (Reach.next 0 [] _ h3 (by decide +kernel)) 20
    have h5 : Reach v0 vc5 := Reach.runN (Reach.next 0 [] _ h4 (by decide +kernel)) 20
    have h6 : Reach v0 vc6 := Reach.runN (Reach.next 0 [] _ h5 (by decide +kernel)) 200
    exact Reach.runN (Reach.next 0 [] _ h6 (by decide +kernel)) 5
  · intro h
    rcases h 1 (by decide +kernel) (by decide +kernel) (fun f => f) with hd | he
    · revert hd; decide +kernel
    · have := he (⟨1, []⟩, [.star]) [] (by decide +kernel)
      revert this; decide +kernel

/-! ### class layer: the handler table of an instance, derived from the class statements

`CV/Model/ClassTable.lean` models `handler()`, `HandlerMetaClass`, the C3 linearisation of the `class`
statement, `BaseComponent.__new__` (copies of the direct bases' own handlers as instance attributes
`<Base>_<name>`) and `BaseComponent.__init__` (`getmembers(self)` + `addHandler`).
`effectiveHandlers cs c` is the set of handlers an instance of `c` installs when the class statements `cs`
have been executed.  The theorems below characterise it declaratively and connect it to `collect`. -/

open CV.ClassTable

/-- **Implicit method handlers.**  After the class statement an entry of `C.__dict__` is a handler with data
    `i` iff it was declared with `@handler(...)` carrying exactly `i`, or it is an undecorated callable
    (`plain`; not `handler(False)`, not data) of a class with `Component` among its ancestors whose name does
    not start with `_` - then it listens to its own name, priority 0, the component's channel, no override. -/
theorem class_dict_handler_iff (cs : Classes) (c k : Str) (i : HInfo) :
    (k, Attr.handler i) ∈ ownDict cs c ↔
      ∃ d m, decl? cs c = some d ∧ m ∈ d.members ∧ m.name = k ∧
        (m.kind = .handler i ∨
         (m.kind = .plain ∧ isMeta cs c = true ∧ underscore k = false ∧ i = implicitInfo k)) := by
  unfold ownDict
  cases hd : decl? cs c with
  | none => simp
  | some d =>
    simp only [List.mem_map, Prod.mk.injEq, Option.some.injEq]
    constructor
    · rintro ⟨m, hm, rfl, ha⟩
      refine ⟨d, m, rfl, hm, rfl, ?_⟩
      unfold attrOf at ha
      cases hk : m.kind with
      | handler j => rw [hk] at ha; simp only [Attr.handler.injEq] at ha; left; rw [ha]
      | plain =>
        rw [hk] at ha
        simp only at ha
        split at ha
        · rename_i hc
          simp only [Bool.and_eq_true, Bool.not_eq_eq_eq_not, Bool.not_true] at hc
          simp only [Attr.handler.injEq] at ha
          right; exact ⟨rfl, hc.1, hc.2, ha.symm⟩
        · cases ha
      | noHandler => rw [hk] at ha; cases ha
      | data => rw [hk] at ha; cases ha
    · rintro ⟨d', m, hd', hm, rfl, h⟩
      subst hd'
      refine ⟨m, hm, rfl, ?_⟩
      unfold attrOf
      rcases h with h | ⟨h, hmeta, hu, rfl⟩
      · rw [h]
      · rw [h]; simp [hmeta, hu]

/-- non-vacuity: `class K(Component): def go(self): ...; def _p(self): ...` - `go` is a handler, `_p` is not -/
example :
    let cs : Classes := [{ name := "K".toList, bases := [compName],
                           members := [⟨"go".toList, .plain⟩, ⟨"_p".toList, .plain⟩] }]
    effectiveHandlers cs "K".toList = [mkRecord "K".toList "go".toList (implicitInfo "go".toList)] := by decide

/-- **The effective handler set, declaratively** (full strength, no hypothesis).  A record is installed on an
    instance of `c` iff it is
    * a handler *visible through the MRO*: `b` is the first class of `c.__mro__` whose own dict has the name
      `k`, that entry is a handler, and no `<Base>_<name>` copy made by `__new__` carries the name `k` (an
      instance attribute would shadow it); or
    * a *copy*: the own handler `k` of a direct base `b`, not overridden by an own handler `k` of `c` with
      `override=True`, and no later copy has the same attribute name `<b>_<k>`.
    Consequences that can be read off: a handler of a grand-base that is shadowed by a non-handler (or by any
    redefinition) in between is not visible and - not being in a *direct* base - not copied: it disappears;
    a direct base's handler stays next to the subclass's own handler of the same name unless `override=True`. -/
theorem effective_iff (cs : Classes) (c : Str) (r : HandlerRecord) :
    r ∈ effectiveHandlers cs c ↔
      (∃ b k i, VisibleIn cs (mro cs c) b k (.handler i) ∧ (∀ p ∈ copies cs c, p.1 ≠ k) ∧ r = mkRecord b k i) ∨
      (∃ b k i, CopiedFrom cs c b k i ∧ LastWrite (copies cs c) (copyName b k) ⟨b, k, .handler i⟩ ∧
        r = mkRecord b k i) := by
  rw [mem_effective]
  constructor
  · rintro ⟨n, f, hg, hr⟩
    obtain ⟨i, hi, rfl⟩ := (record?_eq_some_iff f r).mp hr
    rcases (getAttr_eq_some_iff cs c n f).mp hg with hl | ⟨hno, b, a, hv, rfl⟩
    · right
      obtain ⟨b, k, j, hc, rfl, rfl⟩ := (mem_copies_iff cs c n f).mp hl.mem
      simp only [Attr.handler.injEq] at hi
      subst hi
      exact ⟨b, k, j, hc, hl, rfl⟩
    · left
      simp only at hi
      subst hi
      exact ⟨b, n, i, hv, hno, rfl⟩
  · rintro (⟨b, k, i, hv, hno, rfl⟩ | ⟨b, k, i, _, hl, rfl⟩)
    · exact ⟨k, ⟨b, k, .handler i⟩, (getAttr_eq_some_iff cs c k _).mpr (Or.inr ⟨hno, b, _, hv, rfl⟩),
        (record?_eq_some_iff _ _).mpr ⟨i, rfl, rfl⟩⟩
    · exact ⟨copyName b k, ⟨b, k, .handler i⟩, (getAttr_eq_some_iff cs c _ _).mpr (Or.inl hl),
        (record?_eq_some_iff _ _).mpr ⟨i, rfl, rfl⟩⟩

/-- the attribute names `<Base>_<name>` that `__new__` creates are pairwise different and none of them is an
    attribute of a class of the MRO (true of every hierarchy whose member names do not imitate the pattern) -/
def NoClash (cs : Classes) (c : Str) : Prop :=
  ((copies cs c).map (·.1)).Nodup ∧ ∀ p ∈ copies cs c, ∀ b ∈ mro cs c, ownLookup cs b p.1 = none

/-- **... in the usual case**: visible through the MRO, or own handler of a direct base not overridden.

    `_partial`: carries `NoClash`.  The statement without it is false (`copy_shadows_own_handler_witness`); the
    full-strength characterisation, with the two shadowing clauses spelled out, is `effective_iff`. -/
theorem effective_iff_noclash_partial (cs : Classes) (c : Str) (hc : NoClash cs c) (r : HandlerRecord) :
    r ∈ effectiveHandlers cs c ↔
      (∃ b k i, VisibleIn cs (mro cs c) b k (.handler i) ∧ r = mkRecord b k i) ∨
      (∃ b k i, CopiedFrom cs c b k i ∧ r = mkRecord b k i) := by
  rw [effective_iff]
  constructor
  · rintro (⟨b, k, i, hv, _, hr⟩ | ⟨b, k, i, hcp, _, hr⟩)
    · exact Or.inl ⟨b, k, i, hv, hr⟩
    · exact Or.inr ⟨b, k, i, hcp, hr⟩
  · rintro (⟨b, k, i, hv, hr⟩ | ⟨b, k, i, hcp, hr⟩)
    · refine Or.inl ⟨b, k, i, hv, ?_, hr⟩
      intro p hp hk
      have := hc.2 p hp b hv.mem.1
      obtain ⟨_, _, _, _, hb⟩ := hv
      rw [hk, hb] at this
      cases this
    · refine Or.inr ⟨b, k, i, hcp, ?_, hr⟩
      exact lastWrite_of_nodup hc.1 ((mem_copies_iff cs c _ _).mpr ⟨b, k, i, hcp, rfl, rfl⟩)

/-- hierarchy used for non-vacuity: `G` (foo, bar handlers) <- `M` (redefines `foo` undecorated, own handler
    `bar` without override) <- `C` (own handler `bar` with override) -/
def demo : Classes :=
  [{ name := "G".toList, bases := [bcName],
     members := [⟨"foo".toList, .handler { names := ["foo".toList] }⟩, ⟨"bar".toList, .handler { names := ["x".toList] }⟩] },
   { name := "M".toList, bases := ["G".toList],
     members := [⟨"foo".toList, .plain⟩, ⟨"bar".toList, .handler { names := ["y".toList] }⟩] },
   { name := "C".toList, bases := ["M".toList],
     members := [⟨"bar".toList, .handler { names := ["z".toList], override := true }⟩] }]

example : NoClash demo "M".toList ∧ NoClash demo "C".toList := by
  unfold NoClash; decide

/-- the quirks, computed: an instance of `M` runs `G.foo` (copy), `G.bar` (copy) and `M.bar`; an instance of
    `C` runs only `C.bar` - `M.bar` is overridden, `G.foo` is shadowed by `M`'s undecorated `foo` and `G` is not
    a direct base, `G.bar` likewise -/
example :
    effectiveHandlers demo "M".toList =
      [mkRecord "G".toList "foo".toList { names := ["foo".toList] }, mkRecord "G".toList "bar".toList { names := ["x".toList] },
       mkRecord "M".toList "bar".toList { names := ["y".toList] }] ∧
    effectiveHandlers demo "C".toList = [mkRecord "C".toList "bar".toList { names := ["z".toList], override := true }] := by
  decide

/-- why `effective_iff` needs the two shadowing clauses: with `class B: @handler('e') def foo`, and
    `class C(B): @handler('e') def B_foo`, the copy of `B.foo` is stored on the instance under the name `B_foo`
    and hides `C`'s own handler `B_foo`, which is visible through the MRO but never installed -/
theorem copy_shadows_own_handler_witness :
    let cs : Classes :=
      [{ name := "B".toList, bases := [bcName], members := [⟨"foo".toList, .handler { names := ["e".toList] }⟩] },
       { name := "C".toList, bases := ["B".toList], members := [⟨"B_foo".toList, .handler { names := ["e".toList] }⟩] }]
    VisibleIn cs (mro cs "C".toList) "C".toList "B_foo".toList (.handler { names := ["e".toList] }) ∧
    mkRecord "C".toList "B_foo".toList { names := ["e".toList] } ∉ effectiveHandlers cs "C".toList ∧
    ¬ NoClash cs "C".toList := by
  refine ⟨⟨[], ["B".toList, bcName], by decide, by decide, by decide⟩, by decide, ?_⟩
  intro h
  exact absurd (h.2 _ (by decide : ("B_foo".toList, (⟨"B".toList, "foo".toList, .handler { names := ["e".toList] }⟩ : Fn)) ∈ _)
    "C".toList (by decide)) (by decide)

/-- **No duplicates**: a handler record is installed once (the same function reached under two attribute
    names - as `foo` through the MRO and as the copy `G_foo` - is one bound method in the `_handlers` sets) -/
theorem effective_nodup (cs : Classes) (c : Str) : (effectiveHandlers cs c).Nodup :=
  nodup_eraseDups' _ _ (Nat.le_refl _)

/-- every installed record is a handler entry of the class body it names (nothing is invented) -/
theorem effective_sound (cs : Classes) (c : Str) (r : HandlerRecord) (h : r ∈ effectiveHandlers cs c) :
    ∃ i, (r.meth, Attr.handler i) ∈ ownDict cs r.cls ∧ r = mkRecord r.cls r.meth i ∧
      (r.cls ∈ mro cs c ∨ r.cls ∈ basesOf cs c) := by
  rcases (effective_iff cs c r).mp h with ⟨b, k, i, hv, _, rfl⟩ | ⟨b, k, i, hcp, _, rfl⟩
  · exact ⟨i, hv.mem.2, rfl, Or.inl hv.mem.1⟩
  · exact ⟨i, hcp.2.1, rfl, Or.inr hcp.1⟩

/-- **`override=True` removes the base's handler of that name**: if `c` (a successfully created class) has an
    own handler `k` with `override=True`, no function named `k` of any *other* class is installed on an
    instance of `c` - neither through the MRO nor as a copy. -/
theorem override_removes (cs : Classes) (c k : Str) (i : HInfo) (hm : mro cs c ≠ [])
    (hown : ownLookup cs c k = some (.handler i)) (hov : i.override = true)
    (r : HandlerRecord) (hr : r ∈ effectiveHandlers cs c) (hk : r.meth = k) : r.cls = c := by
  obtain ⟨rest, hmro⟩ := mro_head cs c hm
  rcases (effective_iff cs c r).mp hr with ⟨b, k', j, hv, _, rfl⟩ | ⟨b, k', j, hcp, _, rfl⟩
  · simp only [mkRecord] at hk ⊢
    subst hk
    obtain ⟨pre, post, heq, hpre, _⟩ := hv
    rw [hmro] at heq
    cases pre with
    | nil => simp only [List.nil_append, List.cons.injEq] at heq; exact heq.1.symm
    | cons q pre =>
      simp only [List.cons_append, List.cons.injEq] at heq
      have := hpre q (by simp)
      rw [← heq.1, hown] at this
      cases this
  · simp only [mkRecord] at hk
    subst hk
    have : overridden cs c k' = true := by unfold overridden; rw [hown]; exact hov
    rw [hcp.2.2] at this
    cases this

/-- **... and exactly that one**: for a direct base `b ≠ c` of a successfully created class `c` without
    copy-name clashes, the own handler `k` of `b` is installed on an instance of `c` iff `c` has no own handler
    `k` with `override=True`.  (So without `override` both run; other handlers of the base are untouched by an
    override of `k`.)

    `_partial`: `NoClash` is needed for the direction "not overridden -> installed" only (a later copy with the
    same attribute name would replace this one; same witness); "overridden -> not installed" is
    `override_removes`, at full strength. -/
theorem base_handler_iff_not_overridden_partial (cs : Classes) (c b k : Str) (i : HInfo) (hm : mro cs c ≠ [])
    (hc : NoClash cs c) (hb : b ∈ basesOf cs c) (hne : b ≠ c) (hk : (k, Attr.handler i) ∈ ownDict cs b) :
    mkRecord b k i ∈ effectiveHandlers cs c ↔ overridden cs c k = false := by
  constructor
  · intro hr
    cases ho : overridden cs c k with
    | false => rfl
    | true =>
      unfold overridden at ho
      cases hl : ownLookup cs c k with
      | none => rw [hl] at ho; cases ho
      | some a =>
        rw [hl] at ho
        cases a with
        | handler j => exact absurd (override_removes cs c k j hm hl ho _ hr rfl) hne
        | callable => cases ho
        | data => cases ho
  · intro ho
    exact (effective_iff_noclash_partial cs c hc _).mpr (Or.inr ⟨b, k, i, ⟨hb, hk, ho⟩, rfl⟩)

/-- non-vacuity of the two override theorems on `demo` (`C` overrides `bar` of its direct base `M`; `M` does
    not override `bar` of `G`) -/
example :
    mro demo "C".toList ≠ [] ∧ ownLookup demo "C".toList "bar".toList = some (.handler { names := ["z".toList], override := true }) ∧
    NoClash demo "M".toList ∧ "G".toList ∈ basesOf demo "M".toList ∧
    ("bar".toList, Attr.handler { names := ["x".toList] }) ∈ ownDict demo "G".toList ∧ overridden demo "M".toList "bar".toList = false := by
  unfold NoClash; decide

/-- a created class heads its own MRO (what `override_removes` uses of the linearisation) -/
theorem class_mro_head (cs : Classes) (c : Str) (h : mro cs c ≠ []) : ∃ rest, mro cs c = c :: rest :=
  mro_head cs c h

/-- **C3 guarantees** for every class statement that was executed (all statements of `cs` accepted): the class
    heads its MRO, its direct bases appear behind it in the order written (local precedence), and the MRO of
    every direct base is a subsequence of it (monotonicity) - so "first class of the MRO that defines `k`"
    respects every base's own lookup order. -/
theorem mro_c3 (cs : Classes) (hl : (linearize cs).isSome = true) (d : ClassDecl) (hd : d ∈ cs) :
    ∃ rest, mro cs d.name = d.name :: rest ∧ d.bases.Sublist rest ∧
      ∀ b ∈ d.bases, mro cs b ≠ [] ∧ (mro cs b).Sublist rest := by
  obtain ⟨t, ht⟩ := Option.isSome_iff_exists.mp hl
  obtain ⟨rest, h1, h2, h3⟩ := linearizeFrom_spec cs builtinMros t ht d hd
  refine ⟨rest, by simp [mro, ht, h1], h2, ?_⟩
  intro b hb
  obtain ⟨m, hm, hs⟩ := h3 b hb
  have hmb : mro cs b = m := by simp [mro, ht, hm]
  have hne : m ≠ [] := by
    intro h0
    subst h0
    have := linearizeFrom_inv (fun p => ∃ r, p.2 = p.1 :: r) (fun acc d l h => mroFor_head acc d l h) cs builtinMros t ht
      (by intro p hp; simp only [builtinMros, List.mem_cons, List.not_mem_nil, or_false] at hp
          rcases hp with rfl | rfl
          · exact ⟨[], rfl⟩
          · exact ⟨[bcName], rfl⟩) (b, []) (lookup_mem b [] t hm)
    obtain ⟨r, hr⟩ := this
    cases hr
  rw [hmb]
  exact ⟨hne, hs⟩

/-- non-vacuity: `demo` is accepted -/
example : (linearize demo).isSome = true := by decide

/-- C3 on a diamond and on an inconsistent order (`class X(BaseComponent, Component)` raises TypeError) -/
example :
    let cs : Classes :=
      [{ name := "A".toList, bases := [compName], members := [] }, { name := "B".toList, bases := ["A".toList], members := [] },
       { name := "D".toList, bases := ["A".toList], members := [] }, { name := "E".toList, bases := ["B".toList, "D".toList], members := [] }]
    mro cs "E".toList = ["E".toList, "B".toList, "D".toList, "A".toList, compName, bcName] ∧
    linearize [{ name := "X".toList, bases := [bcName, compName], members := [] }] = none := by decide

/-! ### link to the matching layer -/

/-- the statement's rule for one class-derived record of component `x` listening on `compChan` -/
def Receives (E : Enc) (compChan : Str) (x : Nat) (r : HandlerRecord) (name : Name) (target : Chan) : Prop :=
  (r.names = [] ∨ name ∈ r.names.map E.name) ∧
  (target = .star ∨ (r.chan.map E.toChan).getD (E.toChan compChan) = .star ∨
   (r.chan.map E.toChan).getD (E.toChan compChan) = target ∨ target = .inst x)

/-- **Which class-derived handlers receive an event.**  `newComponent E cs c s` is `c()` in state `s`: a new
    component whose `_handlers` / `_globals` hold the `addHandler` rows of `effectiveHandlers cs c`.  `collect`
    (= `getHandlers`, cf. `collect_iff`) on it returns handler id `s.hs.length + i` iff the `i`-th effective
    record is declared for the name (or for all events) and its channel - its own, else the class-derived
    channel of the instance - matches the target by the statement's rule. -/
theorem class_receives_iff (E : Enc) (cs : Classes) (c : Str) (s : St) (n : Nat) (name : Name) (target : Chan) (h : Nat) :
    h ∈ collect (newComponent E cs c s) (n + 1) s.comps.length name target ↔
      ∃ i r, (effectiveHandlers cs c)[i]? = some r ∧ h = s.hs.length + i ∧
        Receives E (instChannel cs c) s.comps.length r name target := by
  rw [collect_iff]
  have hcomp : (newComponent E cs c s).comps.getD s.comps.length dfltComp =
      { parent := s.comps.length, root := s.comps.length, chan := E.toChan (instChannel cs c), dirty := true,
        htab := tableOf E s.hs.length 0 (effectiveHandlers cs c),
        globals := globalsOf s.hs.length 0 (effectiveHandlers cs c) } := by
    simp [newComponent, List.getD_eq_getElem?_getD]
  have hh : ∀ i r, (effectiveHandlers cs c)[i]? = some r →
      (newComponent E cs c s).hs.getD (s.hs.length + i) dfltHandler = toHandler E s.comps.length r := by
    intro i r hi
    simp only [newComponent, List.getD_eq_getElem?_getD]
    rw [List.getElem?_append_right (by omega)]
    simp [hi]
  have hreach : ∀ d, ReachIn (newComponent E cs c s) n s.comps.length d → d = s.comps.length := by
    intro d hd
    cases hd with
    | here => rfl
    | step _ _ e _ he _ => rw [hcomp] at he; simp at he
  constructor
  · rintro ⟨d, hd, hm⟩
    have := hreach d hd
    subst this
    unfold matchesAt at hm
    rw [hcomp] at hm
    simp only [installedFor] at hm
    rcases hm with ⟨hin, hch⟩ | hg
    · have key : ∀ key, (key, h) ∈ tableOf E s.hs.length 0 (effectiveHandlers cs c) → (key = none ∨ key = some name) →
          ∃ i r, (effectiveHandlers cs c)[i]? = some r ∧ h = s.hs.length + i ∧
            Receives E (instChannel cs c) s.comps.length r name target := by
        intro key hrow hkey
        obtain ⟨i, r, hi, rfl, hrows⟩ := (mem_tableOf E _ key h _ 0).mp hrow
        simp only [Nat.zero_add] at hrows hch ⊢
        refine ⟨i, r, hi, rfl, ?_, ?_⟩
        · unfold htabRows at hrows
          split at hrows
          · rename_i hemp; left; simpa using hemp
          · right
            simp only [List.mem_map, Prod.mk.injEq, and_true] at hrows
            obtain ⟨nm, hnm, hk⟩ := hrows
            rcases hkey with rfl | rfl
            · cases hk
            · simp only [Option.some.injEq] at hk
              exact List.mem_map.mpr ⟨nm, hnm, hk⟩
        · rw [hh i r hi] at hch
          simpa [chanOk, toHandler, or_assoc] using hch
      rcases hin with hin | hin
      · exact key none hin (Or.inl rfl)
      · exact key (some name) hin (Or.inr rfl)
    · obtain ⟨i, r, hi, rfl, hn, hc⟩ := (mem_globalsOf _ h _ 0).mp hg
      simp only [Nat.zero_add]
      refine ⟨i, r, hi, rfl, Or.inl hn, Or.inr (Or.inl ?_)⟩
      rw [hc]; simp [Enc.toChan]
  · rintro ⟨i, r, hi, rfl, hnm, hch⟩
    refine ⟨s.comps.length, ReachIn.here _ _, ?_⟩
    unfold matchesAt
    rw [hcomp]
    simp only [installedFor]
    by_cases hg : r.names = [] ∧ r.chan = some star
    · right
      exact (mem_globalsOf _ _ _ 0).mpr ⟨i, r, hi, by simp, hg.1, hg.2⟩
    · left
      constructor
      · rcases hnm with hn | hn
        · left
          refine (mem_tableOf E _ none _ _ 0).mpr ⟨i, r, hi, by simp, ?_⟩
          unfold htabRows
          have : ¬ r.chan = some star := fun hc => hg ⟨hn, hc⟩
          simp [hn, this]
        · right
          refine (mem_tableOf E _ (some name) _ _ 0).mpr ⟨i, r, hi, by simp, ?_⟩
          unfold htabRows
          have hne : r.names ≠ [] := by intro h0; rw [h0] at hn; simp at hn
          obtain ⟨nm, hnm, hk⟩ := List.mem_map.mp hn
          simp only [List.isEmpty_iff, hne, ↓reduceIte, List.mem_map, Prod.mk.injEq, and_true]
          exact ⟨nm, hnm, by rw [hk]⟩
      · rw [hh i r hi]
        simpa [chanOk, toHandler, or_assoc] using hch

/-- **Corollary: which handlers of which classes receive an event.**  For an instance of a class without
    copy-name clashes: handler id `s.hs.length + i` is collected for `(name, target)` iff the `i`-th effective
    record is the function `b.k` with declaration `info`, where `b.k` is a handler visible through `c`'s MRO or
    an own handler of a direct base of `c` that `c` does not override, and it is declared for the name (or for
    all events) on a matching channel.  `_partial`: `NoClash` as in `effective_iff_noclash_partial`; the statement
    without it is `class_receives_iff` + `effective_iff`. -/
theorem class_delivery_partial (E : Enc) (cs : Classes) (c : Str) (hc : NoClash cs c) (s : St) (n : Nat)
    (name : Name) (target : Chan) (h : Nat) :
    h ∈ collect (newComponent E cs c s) (n + 1) s.comps.length name target ↔
      ∃ i b k info, (effectiveHandlers cs c)[i]? = some (mkRecord b k info) ∧ h = s.hs.length + i ∧
        (VisibleIn cs (mro cs c) b k (.handler info) ∨ CopiedFrom cs c b k info) ∧
        Receives E (instChannel cs c) s.comps.length (mkRecord b k info) name target := by
  rw [class_receives_iff]
  constructor
  · rintro ⟨i, r, hi, rfl, hrec⟩
    have hmem : r ∈ effectiveHandlers cs c := List.mem_of_getElem? hi
    rcases (effective_iff_noclash_partial cs c hc r).mp hmem with ⟨b, k, info, hv, rfl⟩ | ⟨b, k, info, hcp, rfl⟩
    · exact ⟨i, b, k, info, hi, rfl, Or.inl hv, hrec⟩
    · exact ⟨i, b, k, info, hi, rfl, Or.inr hcp, hrec⟩
  · rintro ⟨i, b, k, info, hi, rfl, _, hrec⟩
    exact ⟨i, _, hi, rfl, hrec⟩

/-- non-vacuity / sanity: an instance of `M` (see `demo`) in the empty state, event `foo` on any channel:
    exactly the copy of `G.foo` (record 0) is collected; event `x`: `G.bar` (record 1) -/
example :
    let E : Enc := { name := fun s => ⟨s.length, []⟩, chan := fun s => s.length }
    collect (newComponent E demo "M".toList {}) 2 0 ⟨3, []⟩ .star = [0] ∧
    collect (newComponent E demo "M".toList {}) 2 0 ⟨1, []⟩ (.named 5) = [1, 2] := by decide

/-! ### C3 exactly: the merge rule as a relation, determinism, refusal

`C3Merge seqs l` / `C3Stuck seqs` (CV/Proofs/ClassTableC3.lean) state CPython's `pmerge` rule without the
executable `merge`: repeatedly take the head of the first sequence whose head is in no tail (`FirstGood`), remove it
from the front of every sequence; finished when all sequences are empty; stuck when sequences are left and no head is
good (CPython: TypeError "Cannot create a consistent method resolution order (MRO)"). -/

/-- the executable merge computes exactly the lists the C3 merge rule allows -/
theorem c3_merge_exact (seqs : List (List Str)) (l : List Str) :
    merge (totalLen seqs) seqs = some l ↔ C3Merge seqs l :=
  merge_some_iff _ seqs (Nat.le_refl _) l

/-- **determinism**: the merge rule allows at most one list -/
theorem c3_merge_deterministic (seqs : List (List Str)) (l l' : List Str) (a : C3Merge seqs l) (b : C3Merge seqs l') :
    l = l' := a.unique b

example : C3Merge [[compName, bcName], [compName]] [compName, bcName] := (c3_merge_exact _ _).mp (by decide)

/-- **refusal**: the executable merge answers `none` exactly when, after some legal steps, sequences are left and no
    head is a good head -/
theorem c3_refusal_iff (seqs : List (List Str)) : merge (totalLen seqs) seqs = none ↔ C3Stuck seqs :=
  merge_none_iff _ seqs (Nat.le_refl _)

/-- stuck = there is no linearisation at all (so `merge = none → ¬ ∃ l, C3Merge seqs l`, and conversely) -/
theorem c3_stuck_iff_no_linearisation (seqs : List (List Str)) : C3Stuck seqs ↔ ¬ ∃ l, C3Merge seqs l := by
  constructor
  · exact C3Stuck.no_merge
  · intro h
    apply (c3_refusal_iff seqs).mp
    cases hm : merge (totalLen seqs) seqs with
    | none => rfl
    | some l => exact absurd ⟨l, (c3_merge_exact seqs l).mp hm⟩ h

/-- non-vacuity: `class X(BaseComponent, Component)` is stuck at the first step -/
example : C3Stuck [[bcName], [compName, bcName], [bcName, compName]] := (c3_refusal_iff _).mp (by decide)

/-- **the MRO is THE C3 linearisation**: for every executed class statement the MRO is the class followed by the one
    and only list the merge rule allows for the MROs of the direct bases and the list of direct bases -/
theorem mro_is_c3 (cs : Classes) (hl : (linearize cs).isSome = true) (d : ClassDecl) (hd : d ∈ cs) :
    ∃ rest, mro cs d.name = d.name :: rest ∧ C3Merge (d.bases.map (mro cs) ++ [d.bases]) rest ∧
      ∀ l, C3Merge (d.bases.map (mro cs) ++ [d.bases]) l → l = rest := by
  obtain ⟨t, ht⟩ := Option.isSome_iff_exists.mp hl
  obtain ⟨ms, rest, hms, hlk, hmerge⟩ := linearizeFrom_c3 cs builtinMros t ht d hd
  have hmap : ms = d.bases.map (mro cs) := by
    rw [mapM_lookup_eq_map d.bases ms hms]
    apply List.map_congr_left
    intro b _
    simp [mro, ht]
  subst hmap
  exact ⟨rest, by simp [mro, ht, hlk], hmerge, fun l h => h.unique hmerge⟩

example : (linearize demo).isSome = true := by decide

/-- **a class statement is refused exactly when** its name is bound, it has no base, a base is unknown, or the C3
    merge of the bases' MROs gets stuck; it is accepted with exactly the C3 list otherwise -/
theorem class_statement_refused_iff (acc : MroTable) (d : ClassDecl) :
    mroFor acc d = none ↔ (acc.lookup d.name).isSome = true ∨ d.bases = [] ∨ d.bases.mapM (acc.lookup ·) = none ∨
      ∃ ms, d.bases.mapM (acc.lookup ·) = some ms ∧ C3Stuck (ms ++ [d.bases]) :=
  mroFor_none_iff acc d

theorem class_statement_accepted_iff (acc : MroTable) (d : ClassDecl) (l : List Str) :
    mroFor acc d = some l ↔ acc.lookup d.name = none ∧ d.bases ≠ [] ∧
      ∃ ms rest, d.bases.mapM (acc.lookup ·) = some ms ∧ l = d.name :: rest ∧ C3Merge (ms ++ [d.bases]) rest :=
  mroFor_some_iff acc d l

/-- the refusal direction as asked for: well-formed statement (name free, bases known) refused → no list satisfies
    the merge rule -/
theorem mro_refused_no_c3 (acc : MroTable) (d : ClassDecl) (ms : List (List Str)) (hn : acc.lookup d.name = none)
    (hb : d.bases ≠ []) (hms : d.bases.mapM (acc.lookup ·) = some ms) (h : mroFor acc d = none) :
    ¬ ∃ l, C3Merge (ms ++ [d.bases]) l := by
  rcases (mroFor_none_iff acc d).mp h with h | h | h | ⟨ms', hm, hs⟩
  · rw [hn] at h; cases h
  · exact absurd h hb
  · rw [hms] at h; cases h
  · rw [hms] at hm; cases hm; exact hs.no_merge

/-- non-vacuity: `class X(BaseComponent, Component)` meets the hypotheses -/
example :
    let d : ClassDecl := { name := "X".toList, bases := [bcName, compName], members := [] }
    builtinMros.lookup d.name = none ∧ d.bases ≠ [] ∧
      d.bases.mapM (builtinMros.lookup ·) = some [[bcName], [compName, bcName]] ∧ mroFor builtinMros d = none := by decide

/-- **the sequence of class statements is refused exactly when** some statement is refused in the table built by the
    statements before it (which were all accepted) -/
theorem classes_refused_iff (cs : Classes) :
    linearize cs = none ↔ ∃ pre d post t, cs = pre ++ d :: post ∧ linearize pre = some t ∧ mroFor t d = none :=
  linearizeFrom_none_iff cs builtinMros

/-! ### `newComponent` = what `BaseComponent.__init__` builds with `addHandler`

`blankComponent`: the handler objects of the instance exist, its component record is as `Manager.__init__` leaves
it (empty `_handlers` / `_globals`, `_cache_needs_refresh = False`); `installAll`: the core model's `St.addHandler`
(the function both interpreters use for `Manager.addHandler`) for the handler ids `s.hs.length + i` in the order of
`effectiveHandlers`; `markDirty`: the flag set by the closing `addHandler(_on_prepare_unregister_complete)`.
`dedupTables` collapses repeated rows of the new component's tables (the buckets are Python sets; `tableOf` repeats a
row when a record names an event twice or two of its names have the same code under `E`). -/

/-- for every class table, class, encoding and state: installing the effective handlers one by one with the core
    model's `addHandler` gives `newComponent` - same handler objects, same component record incl. `_globals` and the
    cache-invalidation flag - with repeated rows collapsed -/
theorem newComponent_eq_addHandlers (E : Enc) (cs : Classes) (c : Str) (s : St) :
    markDirty (installAll (blankComponent E cs c s) s.hs.length (effectiveHandlers cs c).length) s.comps.length =
      dedupTables (newComponent E cs c s) s.comps.length :=
  init_eq_newComponent E cs c s

/-- collapsing changes no membership: the same rows are in the tables -/
theorem dedup_same_rows {α} [BEq α] [LawfulBEq α] (l : List α) (y : α) : y ∈ dedup l ↔ y ∈ l := mem_dedup l y

/-- exact equality when no record names an event twice (after encoding).  `_partial`: without the hypothesis the two
    states differ in the number of equal rows (`newComponent_repeated_row_witness`); the statement for all inputs is
    `newComponent_eq_addHandlers`.  (Rows of different records never coincide, `_globals` never repeats: proved.) -/
theorem newComponent_eq_addHandlers_partial (E : Enc) (cs : Classes) (c : Str) (s : St)
    (hn : ∀ r ∈ effectiveHandlers cs c, (r.names.map E.name).Nodup) :
    markDirty (installAll (blankComponent E cs c s) s.hs.length (effectiveHandlers cs c).length) s.comps.length =
      newComponent E cs c s := by
  rw [init_eq_newComponent, dedupTables_of_nodup E cs c s (tableOf_nodup E _ _ hn 0) (globalsOf_nodup _ _ 0)]

/-- non-vacuity: no record of `demo`'s class `M` names an event twice -/
example :
    let E : Enc := { name := fun s => ⟨s.length, []⟩, chan := fun s => s.length }
    ∀ r ∈ effectiveHandlers demo "M".toList, (r.names.map E.name).Nodup := by
  decide

/-- `@handler("a", "a")`: one row in the set, two equal rows in `tableOf` -/
theorem newComponent_repeated_row_witness :
    let E : Enc := { name := fun s => ⟨s.length, []⟩, chan := fun s => s.length }
    let cs : Classes := [{ name := "A".toList, bases := [compName],
                           members := [⟨"f".toList, .handler { names := ["a".toList, "a".toList] }⟩] }]
    ((newComponent E cs "A".toList {}).comp 0).htab = [(some ⟨1, []⟩, 0), (some ⟨1, []⟩, 0)] ∧
    ((markDirty (installAll (blankComponent E cs "A".toList {}) 0 1) 0).comp 0).htab = [(some ⟨1, []⟩, 0)] := by
  decide

end CV.C01

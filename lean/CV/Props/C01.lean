import CV.Proofs.CoreMatch
/-
C01 - matching layer.  `collect` is the model of `Manager.getHandlers`; the dispatcher calls
it with fuel `comps.length + 1` whenever it rebuilds a cache entry.  These theorems say that
its result is exactly the handler set of the property statement, each handler once.
(The cache-liveness invariant - the set *used* at dispatch is this set, also after
detaching - is a machine-level invariant; see DESIGN.md section 0.4.)
-/
namespace CV.C01
open CV.Core

/-- a handler is collected for `(name, target)` from `root` **iff** it belongs to a component
    reachable from `root` through at most `n` child links and either is installed for `name`
    (or for all events) with a matching channel - equal, either side `'*'`, or the target is the
    component itself - or is a global handler of that component -/
theorem collect_iff (s : St) (n root : Nat) (name : Name) (target : Chan) (h : Nat) :
    h ∈ collect s (n + 1) root name target ↔
      ∃ d, ReachIn s n root d ∧ matchesAt s d name target h :=
  mem_collect s name target h n root

/-- ... and exactly once -/
theorem collect_once (s : St) (fuel root : Nat) (name : Name) (target : Chan) :
    (collect s fuel root name target).Nodup :=
  collect_nodup s fuel root name target

/-- the channel rule of the statement, spelled out -/
theorem chanOk_iff (compChan : Chan) (c : Nat) (hd : Handler) (target : Chan) :
    chanOk compChan c hd target = true ↔
      target = .star ∨ hd.chan.getD compChan = .star ∨ hd.chan.getD compChan = target ∨ target = .inst c := by
  simp [chanOk, or_assoc]

/-- non-vacuity: a two-level tree where the grandchild's handler is found through the child -/
example :
    let s : St := { comps := [{ parent := 0, root := 0, children := [1] },
                              { parent := 0, root := 0, children := [2] },
                              { parent := 1, root := 0, htab := [(some ⟨1, []⟩, 0)] }],
                    hs := [{ owner := 2, names := [⟨1, []⟩], chan := none, kind := .user 0 }] }
    collect s 4 0 ⟨1, []⟩ (.named 7) = [0] := by decide

end CV.C01

import CV.Proofs.CoreMatch
import CV.Proofs.InvCacheMain
import CV.Proofs.InvForest
/-
C01 - matching layer.  `collect` is the model of `Manager.getHandlers`; the dispatcher calls
it with fuel `comps.length + 1` whenever it rebuilds a cache entry.  These theorems say that
its result is exactly the handler set of the property statement, each handler once.
(The cache-liveness invariant - the set *used* at dispatch is this set, also after
detaching - is a machine-level invariant; see DESIGN.md section 0.4.)
-/
namespace CV.C01
open CV.Core CV.Core.Live

/-- a handler is collected for `(name, target)` from `root` **iff** it belongs to a component
    reachable from `root` through at most `n` child links and either is installed for `name`
    (or for all events) with a matching channel - equal, either side `'*'`, or the target is the
    component itself - or is a global handler of that component -/
theorem collect_iff (s : St) (n root : Nat) (name : Name) (target : Chan) (h : Nat) :
    h ∈ collect s (n + 1) root name target ↔
      ∃ d, ReachIn s n root d ∧ matchesAt s d name target h :=
  mem_collect s name target h n root

/-- ... and exactly once -/
theorem collect_once (s : St) (fuel root : Nat) (name : Name) (target : Chan) :
    (collect s fuel root name target).Nodup :=
  collect_nodup s fuel root name target

/-- the channel rule of the statement, spelled out -/
theorem chanOk_iff (compChan : Chan) (c : Nat) (hd : Handler) (target : Chan) :
    chanOk compChan c hd target = true ↔
      target = .star ∨ hd.chan.getD compChan = .star ∨ hd.chan.getD compChan = target ∨ target = .inst c := by
  simp [chanOk, or_assoc]

/-- non-vacuity: a two-level tree where the grandchild's handler is found through the child -/
example :
    let s : St := { comps := [{ parent := 0, root := 0, children := [1] },
                              { parent := 0, root := 0, children := [2] },
                              { parent := 1, root := 0, htab := [(some ⟨1, []⟩, 0)] }],
                    hs := [{ owner := 2, names := [⟨1, []⟩], chan := none, kind := .user 0 }] }
    collect s 4 0 ⟨1, []⟩ (.named 7) = [0] := by decide

/-! ### cache layer: the dispatcher never uses a stale handler set

`_dispatcher` memoises the sorted handler list per `(event name, channels)` in the `_cache` of
the component that dispatches and rebuilds it when that component's `_cache_needs_refresh` is
set.  `freshHandlers s r name chans` (CV/Proofs/InvCacheBase.lean) is what a rebuild computes
before the framework's fallback handler is appended: `collect` for every channel, concatenated
and sorted by priority; by `collect_iff` that is the handler set of the property statement.

Hypotheses on the initial state: `InitForest s0` (every component a detached root; it gives the
forest invariant of C07 - `FInv.reach` in CV/Proofs/InvForest.lean, i.e. `CV.C07.forest_inv` -, from which the proof uses: all components below a root carry
that root in their `root` field, so `x.root._cache_needs_refresh = True` flags the component that
will dispatch for `x`); further (CV/Proofs/InvCacheMain.lean): `InitHandlers s0` - whatever is
installed in a handler table is a declared handler record and not one of the two framework
fallback records; `InitCache s0` - nothing has been dispatched yet (all caches empty).

Machine-level theorems, for every configuration of every driver session (`Reach`): cached lists
are live (`cache_live_partial`, `cache_live_settled`), hence the list the dispatcher hands to the
handler loop is `freshHandlers` of the state at that very moment (`dispatch_uses_live_set`), i.e.
exactly the statement's set, by priority (`dispatch_exact_set`). -/

/-- every component that is its own parent (a root) and is not exempted by `E` either has
    `_cache_needs_refresh` set or caches only live lists -/
def CacheInvBut (E : Nat → Prop) (s : St) : Prop :=
  ∀ c, c < s.comps.length → (s.comp c).parent = c → ¬ E c →
    (s.comp c).dirty = true ∨
    ∀ key hs, (key, hs) ∈ (s.comp c).cache → nonFallback s hs = freshHandlers s c key.1 key.2

def CacheInv (s : St) : Prop := CacheInvBut (fun _ => False) s

/-- **Cache liveness.**  In every reachable configuration every root component has its refresh
    flag set or caches exactly what a rebuild would compute now - except the one component `x`
    that is in the middle of `_do_prepare_unregister_complete` (`detaching c x`: it has been made
    its own root by `_updateRoot(self)` and `self._cache_needs_refresh = True` is the very next
    step).

    Full statement wanted: `∀ c, Reach s0 c → CacheInv c.st`.  It is false in exactly that one
    kind of configuration (`cache_live_window_witness`): between the two steps `invoke
    prepUnregComplete` (detach + `_updateRoot`) and `prepUnregFin` (set the flag) the detached
    component is a root with a possibly stale cache and no flag.  The same holds between the two
    Python statements; no dispatch can happen there (the flag is set by the next step), so the
    exemption is invisible to `dispatch_uses_live_set`, which is proved at full strength. -/
theorem cache_live_partial (s0 : St) (h0 : InitForest s0) (hH : InitHandlers s0) (hC : InitCache s0) :
    ∀ c, Reach s0 c → CacheInvBut (detaching c) c.st := by
  have hF : ∀ c, Reach s0 c → ForestInv c.st := fun c hc => (FInv.reach h0 c hc).forest
  intro c hc x hx hpar hE
  have hlive := reach_live (K.init s0 hH hC) (fun c hc => (hF c hc).cacheFacts) c hc
  have hroot : (c.st.comp x).root = x := by
    rw [(hF c hc).rootOk x hx, if_pos hpar]
  exact hlive x hroot hE

/-- ... in particular, at full strength, whenever no component is in the middle of being
    detached (every configuration whose top frame is not `prepUnregFin`) -/
theorem cache_live_settled (s0 : St) (h0 : InitForest s0) (hH : InitHandlers s0) (hC : InitCache s0) :
    ∀ c, Reach s0 c → (∀ x, ¬ detaching c x) → CacheInv c.st := by
  intro c hc hno x hx hpar _
  exact cache_live_partial s0 h0 hH hC c hc x hx hpar (hno x)

/-- **Never a stale set.**  When `_dispatcher(e)` runs on a component `r` that is the top of its
    tree (`r.root = r`; by the forest invariant this is the same as `r.parent = r`, and every `r`
    that `flush`/`tick` dispatch on is `x.root` for some `x`) and `e` is not cancelled, the
    handler list `hs` the step puts into the handler loop satisfies: `hs` minus fallback records
    = `freshHandlers` of the state the loop starts in.  This holds however `r` got there - also
    for a component that was a root, became a child, and was detached again. -/
theorem dispatch_uses_live_set (s0 : St) (h0 : InitForest s0) (hH : InitHandlers s0) (hC : InitCache s0)
    (c : Cfg) (hc : Reach s0 c) (r e remaining : Nat) (k : List Frame)
    (hst : c.stack = .dispatcher r e remaining :: k) (hx : c.exn = none)
    (hr : (c.st.comp r).root = r) (hcan : (c.st.ev e).cancelled = false) :
    ∃ hs, (step c).stack = .hLoop r e hs false .none :: k ∧
      nonFallback (step c).st hs = freshHandlers (step c).st r (c.st.ev e).name (c.st.ev e).chans :=
  dispatcher_step_live (K.init s0 hH hC) (fun c hc => (FInv.reach h0 c hc).forest.cacheFacts)
    c hc r e remaining k hst hx hr hcan

/-- **Exactly the statement's set.**  In the situation of `dispatch_uses_live_set`: a non-fallback
    handler is in the list handed to the handler loop **iff** it belongs to a component reachable
    from `r` through child links and is installed for the event's name (or for all events) with a
    matching channel, or is a global handler there - for one of the event's channels; and the
    list is sorted by descending priority.  Handlers added or removed and components registered
    or unregistered before this moment are therefore always reflected. -/
theorem dispatch_exact_set (s0 : St) (h0 : InitForest s0) (hH : InitHandlers s0) (hC : InitCache s0)
    (c : Cfg) (hc : Reach s0 c) (r e remaining : Nat) (k : List Frame)
    (hst : c.stack = .dispatcher r e remaining :: k) (hx : c.exn = none)
    (hr : (c.st.comp r).root = r) (hcan : (c.st.ev e).cancelled = false) :
    ∃ hs, (step c).stack = .hLoop r e hs false .none :: k ∧
      (∀ h, h ∈ nonFallback (step c).st hs ↔
        ∃ ch, ch ∈ (c.st.ev e).chans ∧ ∃ d, ReachIn (step c).st (step c).st.comps.length r d ∧
          matchesAt (step c).st d (c.st.ev e).name ch h) ∧
      (nonFallback (step c).st hs).Pairwise
        (fun a b => ((step c).st.hs.getD a dfltHandler).prio ≥ ((step c).st.hs.getD b dfltHandler).prio) := by
  obtain ⟨hs, h1, h2⟩ := dispatch_uses_live_set s0 h0 hH hC c hc r e remaining k hst hx hr hcan
  refine ⟨hs, h1, ?_, ?_⟩
  · intro h; rw [h2]; exact mem_freshHandlers _ _ _ _ _
  · rw [h2]; exact freshHandlers_sorted _ _ _ _

/-- non-vacuity of the `Init…` hypotheses: one component with one installed user handler -/
example :
    let s : St := { comps := [{ parent := 0, root := 0, htab := [(some ⟨1, []⟩, 0)] }],
                    hs := [{ owner := 0, names := [⟨1, []⟩], chan := none, kind := .user 0 }] }
    InitHandlers s ∧ InitCache s ∧ InitForest s :=
  ⟨plain_tables_of_bounded _ (by decide +kernel), caches_empty_of_bounded _ (by decide +kernel),
   by unfold InitForest; decide +kernel⟩

/-! ### the exempted configuration really fails (witness) -/

/-- one run of the driver: start `op` in state `s` and take `n` steps -/
abbrev runOp (s : St) (op : ExtOp) (n : Nat) : Cfg := runN n (startOf (envChange s 0 []) op)

/-- witness state: two components with their built-in `prepare_unregister_complete` handlers,
    a declared user handler 2 of component 1 for event name 1 -/
def v0 : St :=
  { comps := [{ parent := 0, root := 0, htab := [(some (Name.prepareUnregister.child sfxComplete), 0)] },
              { parent := 1, root := 1, htab := [(some (Name.prepareUnregister.child sfxComplete), 1)] }],
    hs := [{ owner := 0, names := [Name.prepareUnregister.child sfxComplete], chan := some (.inst 0), kind := .prepUnregComplete },
           { owner := 1, names := [Name.prepareUnregister.child sfxComplete], chan := some (.inst 1), kind := .prepUnregComplete },
           { owner := 1, names := [⟨1, []⟩], chan := none, kind := .user 0 }],
    progs := [[]],
    tmpls := [{ name := ⟨1, []⟩ }] }
/-- component 1 dispatches event 1 as a root (cache entry `[]`) ... -/
abbrev vc1 : Cfg := runOp v0 (.doAct 1 (.fire 0 none 0 false)) 20
abbrev vc2 : Cfg := runOp vc1.st (.flush 1) 40
/-- ... is registered under 0, gets handler 2 (the flag goes to root 0) ... -/
abbrev vc3 : Cfg := runOp vc2.st (.doAct 1 (.reg 1 0)) 20
abbrev vc4 : Cfg := runOp vc3.st (.doAct 1 (.addH 2)) 20
/-- ... and is unregistered; the second flush reaches `_do_prepare_unregister_complete` -/
abbrev vc5 : Cfg := runOp vc4.st (.doAct 1 (.unreg 1)) 20
abbrev vc6 : Cfg := runOp vc5.st (.flush 0) 200
abbrev vc7 : Cfg := runOp vc6.st (.flush 0) 5

/-- why `cache_live_partial` carries the exemption: in the configuration between the detach step
    and `self._cache_needs_refresh = True` the detached component 1 is a root whose cache still
    holds the list of its first life (`[]`, a rebuild gives `[2]`) and its flag is not yet set.
    The flag is set by the very next step, so no dispatch can see this. -/
theorem cache_live_window_witness :
    InitHandlers v0 ∧ InitCache v0 ∧ InitForest v0 ∧ Reach v0 vc7 ∧ detaching vc7 1 ∧ ¬ CacheInv vc7.st := by
  refine ⟨plain_tables_of_bounded v0 (by decide +kernel), caches_empty_of_bounded v0 (by decide +kernel),
    by unfold InitForest; decide +kernel, ?_, detaching_of_B _ _ (by decide +kernel), ?_⟩
  · have h1 : Reach v0 vc1 := Reach.runN (Reach.init 0 [] _) 20
    have h2 : Reach v0 vc2 := Reach.runN (Reach.next 0 [] _ h1 (by decide +kernel)) 40
    have h3 : Reach v0 vc3 := Reach.runN (Reach.next 0 [] _ h2 (by decide +kernel)) 20
    have h4 : Reach v0 vc4 := Reach.runN (Reach.next 0 [] _ h3 (by decide +kernel)) 20
    have h5 : Reach v0 vc5 := Reach.runN (Reach.next 0 [] _ h4 (by decide +kernel)) 20
    have h6 : Reach v0 vc6 := Reach.runN (Reach.next 0 [] _ h5 (by decide +kernel)) 200
    exact Reach.runN (Reach.next 0 [] _ h6 (by decide +kernel)) 5
  · intro h
    rcases h 1 (by decide +kernel) (by decide +kernel) (fun f => f) with hd | he
    · revert hd; decide +kernel
    · have := he (⟨1, []⟩, [.star]) [] (by decide +kernel)
      revert this; decide +kernel

end CV.C01

import CV.Proofs.CoreValue
import CV.Proofs.InvValue
import CV.Proofs.InvValueErr
import CV.Proofs.InvValueLoop
import CV.Proofs.InvTasksThm
import CV.Proofs.InvTasksOnce
import CV.Proofs.InvTasksWait
import CV.Proofs.InvTasksRange
import CV.Proofs.InvTasksOwn2
import CV.Proofs.ValueTree
/-
C04 - value layer.  `Val.set` is the function the machine calls for every non-None handler
result (`setValue` in CV.Model.Core.Machine); these theorems say that whatever sequence of
results the handlers of an event produce, the stored value is exactly the collapsed list of
the property statement.  (Machine-level statements - which results are produced, feedback
events - are in the sections below / still open, see DESIGN.md C04.)
-/
namespace CV.C04
open CV.Core

/-- after the results `xs` have been stored, in order, into a fresh Value: unset for none,
    the value itself for one, the list in production order for several -/
theorem value_exact_layer (xs : List VItem) : (setAll {} xs).view = collapse xs := by
  have hwf := setAll_wf {} xs Val.wf_init
  rw [view_of_wf _ hwf, setAll_items {} xs Val.wf_init]
  rfl

/-- the same from any reachable Value: further results are appended, nothing is lost or reordered -/
theorem value_accumulates (v : Val) (xs : List VItem) (h : v.WF) :
    (setAll v xs).view = collapse (v.items ++ xs) := by
  rw [view_of_wf _ (setAll_wf v xs h), setAll_items v xs h]

/-- storing a result never touches the errors flag (it is set only where a handler raised) -/
theorem set_keeps_errors (v : Val) (x : VItem) : (v.set x).errors = v.errors := Val.set_errors v x

/-- a stored result marks the Value as having a result -/
theorem set_marks_result (v : Val) (x : VItem) : (v.set x).result = true := Val.set_result v x

example : (setAll {} [.val 3, .err, .val 5]).view = .many [.val 3, .err, .val 5] := by decide
example : (setAll {} [.val 3]).view = .single (.val 3) := by decide
example : (setAll {} []).view = .unset := by decide


/-! ## Machine level (small-step core machine, `CV.Model.Core.Step`)

Hypothesis on the initial state of a session: every event that already exists has a
well-formed Value (`VWF`; in a driver session the event table starts empty).  All statements
quantify over every program table, every tape, every reachable configuration (`Reach s0 c`)
or - where no invariant is needed - over *every* configuration. -/

/-- non-vacuity of the Init hypothesis: the empty state, and a state with one fresh event -/
example : VWF {} := fun e => by
  rw [St.v4ev_dflt _ e (Nat.zero_le _)]; exact Val.wf_init
example : VWF { evs := [{ name := ⟨1, []⟩ }] } := fun e => by
  cases e with
  | zero => exact Val.wf_init
  | succ n => rw [St.v4ev_dflt _ _ (by simp)]; exact Val.wf_init

/-- **ValInv**: in every reachable configuration every event's Value is in one of the three
    shapes unset / single / list of ≥ 2 - the Value is only ever written by `Val.set` (append
    one item), the `errors`/`promise` flag writes, and the reset in `fireRaw` -/
theorem values_wf (s0 : St) (h0 : VWF s0) (c : Cfg) (hr : Reach s0 c) : VWF c.st := by
  have hstart : ∀ (s : St) d tape op, VWF s → VWF (startOf (envChange s d tape) op).st := by
    intro s d tape op hs
    have : (startOf (envChange s d tape) op).st = envChange s d tape := by cases op <;> rfl
    rw [this]; exact hs
  exact Reach.inv (fun c => VWF c.st) (fun d tape op => hstart s0 d tape op h0)
    (fun c hc => (step_vg 0 c).wf hc) (fun c d tape op hc _ => hstart c.st d tape op hc) c hr

/-- … hence what an observer reads (`Value.value`) is exactly the collapsed list of the items
    stored so far, for every event, at every moment -/
theorem value_view_exact (s0 : St) (h0 : VWF s0) (c : Cfg) (hr : Reach s0 c) (e : Nat) :
    (c.st.ev e).val.view = collapse (c.st.ev e).val.items :=
  view_of_wf _ (values_wf s0 h0 c hr e)

/-- **value_only_grows**: along any step of any reachable configuration, for an event that is
    not fired (again) by that step - no `fire e` entry is logged - the stored items only grow by
    appending at the end (nothing dropped, nothing reordered), the flags `errors`, `result`,
    `promise` never go back to false, and the observable value is the collapsed longer list -/
theorem value_only_grows (s0 : St) (h0 : VWF s0) (c : Cfg) (hr : Reach s0 c) (e : Nat) :
    ∃ es, (step c).st.log = es ++ c.st.log ∧
      ((∀ n ch p, Entry.fire e n ch p ∉ es) →
        ∃ xs, ((step c).st.ev e).val.items = (c.st.ev e).val.items ++ xs ∧
          ((step c).st.ev e).val.view = collapse ((c.st.ev e).val.items ++ xs) ∧
          ((c.st.ev e).val.errors = true → ((step c).st.ev e).val.errors = true) ∧
          ((c.st.ev e).val.result = true → ((step c).st.ev e).val.result = true) ∧
          ((c.st.ev e).val.promise = true → ((step c).st.ev e).val.promise = true)) := by
  have hw := values_wf s0 h0 c hr
  obtain ⟨es, hlog, hext⟩ := (step_vg e c).hist
  refine ⟨es, hlog, fun hn => ?_⟩
  have hx := hext hw hn
  obtain ⟨xs, hxs⟩ := hx.items
  refine ⟨xs, hxs, ?_, hx.errors, hx.result, hx.promise⟩
  rw [view_of_wf _ ((step_vg e c).wf hw e), hxs]

/-- the same over whole runs (`runN n` = iterate `step`, any `n`): as long as the event is not
    fired again, the items present at any moment stay a prefix of the items later on, and a set
    `errors` flag stays set -/
theorem value_only_grows_run (s0 : St) (h0 : VWF s0) (c : Cfg) (hr : Reach s0 c) (e n : Nat) :
    ∃ es, (runN n c).st.log = es ++ c.st.log ∧
      ((∀ m ch p, Entry.fire e m ch p ∉ es) →
        ∃ xs, ((runN n c).st.ev e).val.items = (c.st.ev e).val.items ++ xs ∧
          ((runN n c).st.ev e).val.view = collapse ((c.st.ev e).val.items ++ xs) ∧
          ((c.st.ev e).val.errors = true → ((runN n c).st.ev e).val.errors = true)) := by
  have hw := values_wf s0 h0 c hr
  obtain ⟨es, hlog, hext⟩ := (runN_vg e n c).hist
  refine ⟨es, hlog, fun hn => ?_⟩
  have hx := hext hw hn
  obtain ⟨xs, hxs⟩ := hx.items
  refine ⟨xs, hxs, ?_, hx.errors⟩
  rw [view_of_wf _ ((runN_vg e n c).wf hw e), hxs]

/-- `setValue` on an existing event is exactly one `Val.set` on it (one more item at the end) and
    leaves every other existing event alone (`_partial`: existing event, well-formed Values - both
    hold in reachable configurations, the first is not proved here) -/
theorem setValue_appends_partial (s : St) (hw : VWF s) (e : Nat) (x : VItem) (he : e < s.evs.length) :
    ((s.setValue e x).ev e).val.items = (s.ev e).val.items ++ [x] ∧
    ((s.setValue e x).ev e).val.errors = (s.ev e).val.errors ∧
    ∀ y, y < s.evs.length → y ≠ e → ((s.setValue e x).ev y).val = (s.ev y).val := by
  rw [St.v4_setValue_val s e x he]
  exact ⟨Val.set_items _ _ (hw e), Val.set_errors _ _, fun y hy hne => (St.v4_setValue_other s e x y hy hne).val⟩

/-- **errors_iff_raised** (only-if): the `errors` flag of an event goes from false to true only in
    a raise-handling step for that event - the `except BaseException` of the handler loop
    (`.hAfter` reading `.raised`) or of `processTask` (`.ptOwn`/`.ptParent` reading `.raised`,
    `.ptBody` of a framework generator).  Holds for every configuration. -/
theorem errors_iff_raised (c : Cfg) (e : Nat) (h0 : (c.st.ev e).val.errors = false)
    (h1 : ((step c).st.ev e).val.errors = true) : RaiseStep e c := by
  apply Classical.byContradiction
  intro hn
  have := (step_ne e c hn).imp h1
  rw [h0] at this
  cases this

/-- (if): a handler of `e` raised ⇒ the flag is set by that very step …
    (`_partial`: for an existing event, see `task_raised_sets_errors_partial`) -/
theorem raised_sets_errors_partial (c : Cfg) (r e : Nat) (rest : List Nat) (err : Bool) (stale : Outcome) (k : List Frame)
    (h : c.stack = .hAfter r e rest err stale :: k) (hx : c.exn = none) (hr : c.ret.outcome = .raised)
    (he : e < c.st.evs.length) : ((step c).st.ev e).val.errors = true := by
  rw [step_hAfter_raised c r e rest err stale k h hx hr]
  exact St.v4_handlerRaised_errors c.st r e he

/-- … and likewise when a generator handler (task) of `e` raised, in every reachable
    configuration; the error triple is stored as one more result.
    `_partial`: the hypothesis `t.e < c.st.evs.length` (the task's event exists) holds in every
    reachable configuration, but the invariant "event ids in frames / tasks / queues are in range"
    is not proved here; `raised_needs_event_witness` shows it cannot simply be dropped. -/
theorem task_raised_sets_errors_partial (s0 : St) (h0 : VWF s0) (c : Cfg) (hreach : Reach s0 c)
    (r : Nat) (t : Task) (k : List Frame)
    (h : c.stack = .ptOwn r t :: k) (hx : c.exn = none) (hr : c.ret.yield = .raised)
    (he : t.e < c.st.evs.length) :
    ((step c).st.ev t.e).val.errors = true ∧
    ((step c).st.ev t.e).val.items = (c.st.ev t.e).val.items ++ [.err] := by
  rw [(step_ptOwn_raised c r t k h hx hr).1, St.v4_errorBranch_val c.st r t false he]
  exact ⟨rfl, Val.set_items _ _ (values_wf s0 h0 c hreach t.e)⟩

/-- for an event id that does not exist the model's `handlerRaised` has nothing to set the flag
    on: the `_partial` statements above need their hypothesis -/
theorem raised_needs_event_witness :
    ((step { st := {}, stack := [.hAfter 0 0 [] false .none], ret := .out .raised }).st.ev 0).val.errors = false := by
  decide

/-- non-vacuity of `RaiseStep` -/
example : RaiseStep 0 { st := {}, stack := [.hAfter 0 0 [] false .none], ret := .out .raised } :=
  ⟨rfl, _, _, rfl, rfl, rfl⟩

/-- **raise_isolated**: when a handler of `e` raised, the step
    * performs `handlerRaised`: exactly one `exception` event is fired, preceded by exactly one
      `<name>_failure` event iff the event requested failure feedback, nothing else is logged;
    * continues with `.hApply … rest …` on the *same* remaining handlers `rest`, the stack below is
      untouched, no exception is pending;
    * and the step after it is back at the head of the loop with `rest` (or leaves the loop
      because a handler had called `event.stop()`).
    One handler's exception never drops the loop. -/
theorem raise_isolated (c : Cfg) (r e : Nat) (rest : List Nat) (err : Bool) (stale : Outcome) (k : List Frame)
    (h : c.stack = .hAfter r e rest err stale :: k) (hx : c.exn = none) (hr : c.ret.outcome = .raised) :
    (step c).stack = .hApply r e rest true .raised :: k ∧ (step c).exn = none ∧
    (∃ ch, (step c).st.log =
      if (c.st.ev e).failure then
        .fire (c.st.evs.length + 1) Name.exception ch 0 ::
          .fire c.st.evs.length ((c.st.ev e).name.child sfxFailure) (c.st.ev e).chans 0 :: c.st.log
      else .fire c.st.evs.length Name.exception ch 0 :: c.st.log) ∧
    (step c).st.evs.length = c.st.evs.length + (if (c.st.ev e).failure then 2 else 1) ∧
    (step (step c)).exn = none ∧
    ((step (step c)).stack = .hLoop r e rest true .raised :: k ∨
     (step (step c)).stack = .dispFin r e true :: k) := by
  have hs := step_hAfter_raised c r e rest err stale k h hx hr
  have h2 := step_hApply (step c) r e rest true .raised k (by rw [hs]) (by rw [hs]; exact hx)
  refine ⟨by rw [hs], by rw [hs]; exact hx, ?_, ?_, h2.2.1, ?_⟩
  · rw [hs]; exact St.v4_handlerRaised_log c.st r e
  · rw [hs]; exact St.v4_handlerRaised_evs_length c.st r e
  · rw [h2.2.2]; split
    · exact Or.inr rfl
    · exact Or.inl rfl

/-- the same for a generator handler (task): the error branch of `processTask` fires exactly one
    `exception` event and one `<name>_failure` event iff requested, and returns to the task loop
    (or goes on to `_eventDone`): the frames below are untouched, no exception is pending -/
theorem raise_isolated_task_partial (c : Cfg) (r : Nat) (t : Task) (k : List Frame)
    (h : c.stack = .ptOwn r t :: k) (hx : c.exn = none) (hr : c.ret.yield = .raised)
    (he : t.e < c.st.evs.length) :
    (step c).exn = none ∧ ((step c).stack = k ∨ (step c).stack = .eventDone r t.e true :: k) ∧
    ∃ es, (step c).st.log = es ++ c.st.log ∧ fires Name.exception es = 1 ∧
      fires ((c.st.ev t.e).name.child sfxFailure) es = if (c.st.ev t.e).failure then 1 else 0 := by
  obtain ⟨h1, h2, h3⟩ := step_ptOwn_raised c r t k h hx hr
  refine ⟨h2, ?_, ?_⟩
  · rw [h3]; split
    · exact Or.inr rfl
    · exact Or.inl rfl
  · rw [h1]; exact St.v4_errorBranch_log c.st r t false he

/-- the same when the exception came out of the caller resumed after `call`/`wait` -/
theorem raise_isolated_task_resumed_partial (c : Cfg) (r : Nat) (t : Task) (p : Nat) (viaThrow : Bool) (k : List Frame)
    (h : c.stack = .ptParent r t p viaThrow :: k) (hx : c.exn = none) (hr : c.ret.yield = .raised)
    (he : t.e < c.st.evs.length) :
    (step c).exn = none ∧ ((step c).stack = k ∨ (step c).stack = .eventDone r t.e true :: k) ∧
    ∃ es, (step c).st.log = es ++ c.st.log ∧ fires Name.exception es = 1 ∧
      fires ((c.st.ev t.e).name.child sfxFailure) es = if (c.st.ev t.e).failure then 1 else 0 := by
  obtain ⟨h1, h2, h3⟩ := step_ptParent_raised c r t p viaThrow k h hx hr
  refine ⟨h2, ?_, ?_⟩
  · rw [h3]; split
    · exact Or.inr rfl
    · exact Or.inl rfl
  · rw [h1]; exact St.v4_errorBranch_log c.st r t true he

/-- no step ever touches the frames below the top frame (normal execution and unwinding alike):
    whatever runs above a loop frame - a raising handler, nested dispatches - the loop frame and
    everything below it are still there when it is done -/
theorem frames_below_untouched (c : Cfg) (fs k : List Frame) (h : c.stack = fs ++ k) (hne : fs ≠ []) :
    ∃ fs', (step c).stack = fs' ++ k := step_keeps_below c fs k h hne

/-- **success_rule**: the `_eventDone` step.  While handlers (suspended generator handlers) are
    still waiting it does nothing at all; otherwise it logs `<name>_done` iff a waiter asked for it
    and `<name>_success` exactly once, on the success channels, iff the dispatcher saw no error
    (`err`), the Value carries no error and the event requested success feedback. -/
theorem success_rule (c : Cfg) (r e : Nat) (err : Bool) (k : List Frame)
    (h : c.stack = .eventDone r e err :: k) (hx : c.exn = none) :
    ((c.st.ev e).waiting ≠ 0 → (step c).st = c.st ∧ (step c).stack = k) ∧
    ((c.st.ev e).waiting = 0 →
      (step c).stack = .effectDone r e true :: k ∧
      (step c).st.log =
        (if c.st.successCond e err then
          [Entry.fire (c.st.evs.length + (if (c.st.ev e).alertDone then 1 else 0)) ((c.st.ev e).name.child sfxSuccess)
            ((c.st.ev e).successChans.getD (c.st.ev e).chans) 0] else []) ++
        (if (c.st.ev e).alertDone then
          [Entry.fire c.st.evs.length ((c.st.ev e).name.child sfxDone) (c.st.ev e).chans 0] else []) ++
        c.st.log) := by
  obtain ⟨h1, h2⟩ := step_eventDone c r e err k h hx
  constructor
  · intro hw
    rw [h1, h2, St.v4_eventDonePre_waiting c.st r e err hw]
    exact ⟨rfl, rfl⟩
  · intro hw
    have hf := (St.v4_eventDonePre_fst c.st r e err).2 hw
    rw [h1, h2, hf, St.v4_eventDonePre_log c.st r e err hw]
    exact ⟨rfl, rfl⟩

/-- with `errors_iff_raised`/`value_only_grows`: once a handler of the event raised (the flag
    stays set until the event is fired again) `_eventDone` fires no `<name>_success` -/
theorem no_success_after_error (s : St) (e : Nat) (err : Bool) (h : (s.ev e).val.errors = true) :
    s.successCond e err = false := by
  simp [St.successCond, h]

/-- **no success after a raise**, over whole runs: from a reachable configuration in which the
    `errors` flag of `e` is set (by `errors_iff_raised`: a handler or task of `e` raised), for
    every number of further steps during which `e` is not fired again, the success condition
    `_eventDone` evaluates for `e` is false - whatever `err` it is called with, in particular
    when the last suspended generator handler finishes (`err = false`) -/
theorem no_success_after_raise_run (s0 : St) (h0 : VWF s0) (c : Cfg) (hr : Reach s0 c) (e n : Nat)
    (herr : (c.st.ev e).val.errors = true) :
    ∃ es, (runN n c).st.log = es ++ c.st.log ∧
      ((∀ m ch p, Entry.fire e m ch p ∉ es) → ∀ err, (runN n c).st.successCond e err = false) := by
  obtain ⟨es, hlog, hx⟩ := value_only_grows_run s0 h0 c hr e n
  refine ⟨es, hlog, fun hn err => ?_⟩
  obtain ⟨_, _, _, he⟩ := hx hn
  exact no_success_after_error _ e err (he herr)

/-- … nor when the dispatcher itself saw the exception -/
theorem no_success_when_err (s : St) (e : Nat) : s.successCond e true = false := by
  simp [St.successCond]

/-- **all_handlers_visited**: one step of a configuration inside the handler loop of `e` with the
    handlers `hs` still pending (`InLoop`: the loop frame `.hLoop/.hAfter/.hApply r e hs` sits
    directly above `k`, anything may run above it) either
      1. stays in the loop with the same pending list,
      2. invokes some `x ∈ hs` and removes exactly `x` from the pending list (`hs` is a permutation
         of `x :: hs.erase x`; the list shrinks by one),
      3. leaves the loop normally - only when nothing is pending or the event was stopped, or
      4. is dropped by an exception unwinding through the loop frame (in the model: `SystemExit`
         from `stop(code)` outside an executing thread, `blocked`, API misuse).
    So along any execution every handler of the list is invoked exactly once, in some order,
    until one of (3), (4) happens; a handler that raises is case (1). -/
theorem all_handlers_visited (r e : Nat) (k : List Frame) (hs : List Nat) (c : Cfg) (h : InLoop r e k hs c) :
    InLoop r e k hs (step c)
    ∨ (∃ x, x ∈ hs ∧ hs.Perm (x :: hs.erase x) ∧ (hs.erase x).length + 1 = hs.length ∧
        ∃ err stale, (step c).stack = .invoke r x e :: .hAfter r e (hs.erase x) err stale :: k)
    ∨ (∃ err, (step c).stack = .dispFin r e err :: k ∧
        (hs = [] ∨ ∃ v, c.stack = .hApply r e hs err v :: k ∧ ((c.st.applyValue r e v).ev e).stopped = true))
    ∨ (c.exn ≠ none ∧ (step c).stack = k) := loop_step r e k hs c h

/-- non-vacuity: the dispatcher enters the loop -/
example : InLoop 0 0 [] [1, 2] { st := {}, stack := [.hLoop 0 0 [1, 2] false .none] } :=
  ⟨[], _, rfl, rfl, rfl, rfl⟩


/-! ## waitingHandlers accounting (CV/Proofs/InvTasks*.lean)

`event.waitingHandlers` (model: `Ev.waiting`) is the counter that decides whether `_eventDone` goes through.  The
OBLIGATIONS of an event `e` are
  * every task-set entry `(e, g, parent)` of any component: weight 1, plus 1 when it has a parent (the resumption task of a
    `waitEvent` generator, the `TimeoutError` carrier, the one-shot value generator: it stands for itself and for the
    suspended caller)                                                                    - `St.t46_WT s e`;
  * every wait state that is started, has not seen `_on_done` and has not timed out, with `task_event = e`: weight 2 (the
    `call`/`wait` and the suspended caller)                                             - `St.t46_WW s e`;
  * every `.ptParent r t p v` frame with `t.e = e` on the stack: weight 2 (the resumption task is unregistered, the caller
    is running)                                                                          - `t46_WF e stack`.
INVARIANT `T46Inv` (over guarded sessions):  obligations(e) ≤ waiting(e)  for every event, task sets are duplicate-free,
at most one task is in flight and it sits directly on the task loop of its (root) component, nothing but driver-level
frames is below a task loop.  It is preserved by EVERY arm of `step` (`t46_step_inv`, all 38 frames, unwinding included).

EQUALITY IS FALSE (model and code): the counter leaks upwards - `SystemExit`/`KeyboardInterrupt` out of a caller resumed after
`call`/`wait` leaves `waitingHandlers` at 2 for ever; the stale `value` re-applied by `_dispatcher` after a handler raised
`SystemExit` counts a generator twice; a `waitEvent` generator whose `_done` handler is gone drops its caller without
decrementing.  Such an event never fires `_success`/`_complete`.  Only `≥` is an invariant.

RUN HYPOTHESIS `T46Guard` (the theorems below are `_partial` because of it; `T46Reach` = `Reach` restricted to runs on which it
holds at every step taken, like `ReachG` of C05).  Clauses that are REAL restrictions:
  (tick) `tick()` with pending tasks is entered only while no task is being processed and no handler is in progress, and on
         a root component - i.e. no handler / generator re-enters the task loop (in the model: `stop()` called from a handler
         while `running ∧ ¬executing`, which runs three inline ticks; a handler calling `self.tick()` in the code).  Without
         it a task in flight is processed a second time by the inner loop and `_eventDone(e)` goes through twice
         (`eventDone_once_witness`, the run of C05's `guard_witness`);
  (root) no step changes the root of a component whose task loop is active (the code does not migrate `_tasks` when a root
         component is registered under another one: its tasks are orphaned and re-processed by `tick()` of the old root).
Clauses that are sanity conditions:
  (tickh), (done, first half) `_on_tick` / `_on_done` of a wait state run on a STARTED wait state: PROVED from the wait-protocol
         invariant of C06 for admissible sessions (`guard_core_suffices_partial`: `T46GuardCore` + `W6CInv` ⇒ `T46Guard`);
  (done, second half) [REMOVED] it used to demand that, when `_on_done` finds the flag already set (a second `_done` event of
         the awaited event - an event object fired twice, as `Timer` does - or a stale invocation after the resumption), the
         resumption task is still registered.  It was a real restriction: such a run re-registered the consumed callEvent
         generator, the caller was resumed again at an unrelated `yield` and its event ended with `waitingHandlers = -1`.
         Since the fix "waitEvent's _on_done does nothing once the awaited event is known to be done" (`if state.flag or
         state.timed_out: return`, mirrored in `St.onWaitDone`) the clause is not needed: `T46Guard.done` is its first half only;
  (gen)  the event whose handler returned a generator exists: PROVED for all sessions (`Reach`, no guard) from the range
         invariant `T46RQ` - ids in queues, in `Timer.event` and in the frames `.dispatcher/.hLoop/.hAfter/.hApply` are ids of
         existing events - under the Init hypothesis `T46InitQ` (the ids in the initial queues / timers exist, e.g. empty
         queues): `event_ids_in_range`, `guard_min_suffices_partial`;
  (own)  a task whose user generator yields a `call`/`wait` is an ordinary task `(e, g, None)` of an existing event: PROVED
         (`tasks_well_formed_partial`, CV/Proofs/InvTasksOwn*.lean) from the invariant `T46TP`: every registered task has an
         existing event, a task with a parent is never a user generator (its generator is a waitEvent / TimeoutError / one-shot
         value generator), started wait states have an existing `task_event`.
So the guard consists of the two real restrictions only: `T46GuardMin2` = (tick) + (root), `two_restrictions_suffice_partial`.

RUN LEVEL: `eventDone_once_partial` (passes ≤ dispatches, CV/Proofs/InvTasksOnce.lean).  OPEN: the ownership counts for user generators and
the upgrade of C06 `caller_completes_partial`. -/

/-- non-vacuity of the hypotheses -/
example : T46Init {} := ⟨fun x => by cases x <;> rfl, rfl, fun e => by
  have : ({} : St).ev e = dfltEv := by cases e <;> rfl
  rw [this]; decide⟩
example : T46Init C05.s0w := t46_s0w_init
example (s0 : St) : T46Reach s0 (startOf (envChange s0 0 []) (.tick 0)) := T46Reach.init 0 [] (.tick 0)
example : T46Guard { st := {} } :=
  ⟨fun _ _ h => (by cases h), fun _ _ h => (by cases h), fun _ _ _ _ _ _ h => (by cases h),
   fun _ _ _ _ h => (by cases h), fun _ _ _ _ _ h => (by cases h), fun _ _ _ _ _ h => (by cases h)⟩

/-- guarded sessions are sessions; if the guard holds in every reachable configuration, every session is guarded -/
theorem guarded_sessions_are_sessions (s0 : St) (c : Cfg) (h : T46Reach s0 c) : Reach s0 c := h.reach

/-- **the guard without the wait-closure clauses** (admissible sessions of C06).  `T46GuardCore` has the two real restrictions
    (tick), (root) and the two range clauses (gen), (own); that the closures `_on_done` / `_on_tick`
    run on started wait states follows from C06's `wait_inv`.  So every admissible session on which the core guard holds at
    every step is a guarded session, and all `_partial` theorems of this section apply to it. -/
theorem guard_core_suffices_partial (s0 : St) (hi : W6InitWait s0) (c : Cfg) (h : T46ReachC s0 c) : T46Reach s0 c :=
  h.guarded hi

/-- … configuration-wise -/
theorem guard_of_core (n0 : Nat) (c : Cfg) (hc : T46GuardCore c) (hw : W6CInv n0 c) : T46Guard c := T46Guard.of_core hc hw

example (s0 : St) : T46ReachC s0 (startOf (envChange s0 0 []) (.tick 0)) := T46ReachC.init 0 [] (.tick 0) trivial
example : T46GuardCore { st := {} } :=
  ⟨fun _ _ h => (by cases h), fun _ _ h => (by cases h), fun _ _ _ _ _ _ h => (by cases h),
   fun _ _ _ _ h => (by cases h)⟩

/-- non-vacuity of `T46InitQ`: empty queues, timers that have not fired -/
example : T46InitQ {} := T46InitQ.of_empty {} (fun x => by cases x <;> exact ⟨rfl, rfl⟩) (fun i tm h => by simp at h)
example : T46InitQ C05.s0w := T46InitQ.of_empty _ (fun x => by cases x <;> exact ⟨rfl, rfl⟩) (fun i tm h => by
  have : C05.s0w.timers = [] := rfl
  rw [this] at h; simp at h)

/-- **event ids are in range** (FULL: every session, no guard).  From an initial state whose queued / timer event ids exist, in
    every reachable configuration every id in a queue (deque and heap) of any component, every `Timer.event`, and the event of
    every `.dispatcher / .hLoop / .hAfter / .hApply` frame is the id of an existing event.  In particular the event of a
    handler loop exists when a handler's generator is registered (clause (gen) of `T46Guard`). -/
theorem event_ids_in_range (s0 : St) (h0 : T46InitQ s0) (c : Cfg) (hr : Reach s0 c) :
    (∀ x it, (it ∈ (c.st.comp x).eq.queue ∨ it ∈ (c.st.comp x).eq.heap) → it.ev < c.st.evs.length) ∧
    (∀ (i : Nat) (tm : TimerSt) (te : Nat), c.st.timers[i]? = some tm → tm.ev = some te → te < c.st.evs.length) ∧
    (∀ f ∈ c.stack, ∀ e, f.t46_dEv = some e → e < c.st.evs.length) ∧
    (∀ r e rest err v k, c.stack = .hApply r e rest err v :: k → e < c.st.evs.length) :=
  ⟨(t46_reach_rq h0 c hr).ok.1, (t46_reach_rq h0 c hr).ok.2, (t46_reach_rq h0 c hr).fr,
   fun r e rest err v k hs => (t46_reach_rq h0 c hr).gen r e rest err v k hs⟩

/-- **the minimal guard**: `T46GuardMin` = (tick), (root), (own).  An admissible session (C06) from
    an initial state satisfying `W6InitWait` and `T46InitQ` on which it holds at every step is a guarded session: all
    `_partial` theorems of this section apply to it. -/
theorem guard_min_suffices_partial (s0 : St) (hi : W6InitWait s0) (hq : T46InitQ s0) (c : Cfg) (h : T46ReachM s0 c) :
    T46Reach s0 c := h.guarded hi hq

example (s0 : St) : T46ReachM s0 (startOf (envChange s0 0 []) (.tick 0)) := T46ReachM.init 0 [] (.tick 0) trivial
example : T46GuardMin { st := {} } :=
  ⟨fun _ _ h => (by cases h), fun _ _ h => (by cases h), fun _ _ _ _ h => (by cases h)⟩

/-- **only the two real restrictions remain.**  `T46GuardMin2` = (tick) no handler / task re-enters the task loop with pending
    tasks + (root) no step changes the root of a component whose task loop is active.  An admissible session (C06) from an initial
    state satisfying `T46Init`, `W6InitWait`, `T46InitQ` on which these two hold at every step taken is a guarded session, so all
    `_partial` theorems of this section apply to it; and in each of its configurations the accounting invariant holds. -/
theorem two_restrictions_suffice_partial (s0 : St) (h0 : T46Init s0) (hi : W6InitWait s0) (hq : T46InitQ s0) (c : Cfg)
    (h : T46ReachM2 s0 c) : T46Reach s0 c ∧ T46Inv c := ⟨(h.all h0 hi hq).1, (h.all h0 hi hq).2.1⟩

/-- **tasks are well formed** (PARTIAL: sessions guarded by (tick) + (root)).  Every registered task belongs to an existing event;
    a task with a parent is never a user generator: its generator is a waitEvent generator, a `TimeoutError` carrier or a one-shot
    value generator; the parent of a task, the caller of a started wait state and a generator returned by a handler are never
    carriers (carrier status never changes); a started wait state has an existing `task_event`; and the task of a `.ptOwn` frame (the task's own user
    generator has just been advanced) is an ordinary task `(e, g, None)` of an existing event - clause (own). -/
theorem tasks_well_formed_partial (s0 : St) (h0 : T46Init s0) (hi : W6InitWait s0) (hq : T46InitQ s0) (c : Cfg)
    (h : T46ReachM2 s0 c) :
    (∀ x t, t ∈ (c.st.comp x).tasks → t.e < c.st.evs.length ∧
      (t.parent.isSome = true → t.g < c.st.gens.length ∧ (c.st.gen t.g).t46_carrier = true) ∧
      (∀ p, t.parent = some p → p < c.st.gens.length ∧ (c.st.gen p).t46_carrier = false)) ∧
    (∀ w, (c.st.wait w).started = true → (c.st.wait w).taskEvent < c.st.evs.length ∧
      (c.st.wait w).parentGen < c.st.gens.length ∧ (c.st.gen (c.st.wait w).parentGen).t46_carrier = false) ∧
    (∀ r t k, c.stack = .ptOwn r t :: k → t.parent = none ∧ t.e < c.st.evs.length) ∧
    (∀ r e rest err g k, c.stack = .hApply r e rest err (.gen g) :: k →
      g < c.st.gens.length ∧ (c.st.gen g).t46_carrier = false) :=
  ⟨(h.all h0 hi hq).2.2.tasks, (h.all h0 hi hq).2.2.waits, fun r t k hs => (h.all h0 hi hq).2.2.own r t k hs,
   fun r e rest err g k hs => (h.all h0 hi hq).2.2.frames (.hApply r e rest err (.gen g)) (by rw [hs]; simp) g rfl⟩

example (s0 : St) : T46ReachM2 s0 (startOf (envChange s0 0 []) (.tick 0)) := T46ReachM2.init 0 [] (.tick 0) trivial
example : T46GuardMin2 { st := {} } := ⟨fun _ _ h => (by cases h), fun _ _ h => (by cases h)⟩
/-- the three Init hypotheses hold together for the empty state -/
example : T46Init {} ∧ W6InitWait {} ∧ T46InitQ {} := by
  refine ⟨⟨fun x => by cases x <;> rfl, rfl, fun e => ?_⟩, ⟨rfl, rfl, fun h hh => absurd hh (Nat.not_lt_zero _), fun c k h hm => ?_,
    fun c => ?_, fun c => ?_, fun p hp => ?_⟩, T46InitQ.of_empty {} (fun x => by cases x <;> exact ⟨rfl, rfl⟩) (fun i tm h => by simp at h)⟩
  · have : ({} : St).ev e = dfltEv := by cases e <;> rfl
    rw [this]; decide
  · simp [St.comp, dfltComp] at hm
  · simp [St.comp, dfltComp]
  · simp [St.comp, dfltComp]
  · simp at hp

/-- **waiting_accounting** (PARTIAL: guarded sessions).  In every configuration, for every event:
    task weights + pending-wait weights + frame weights ≤ `waitingHandlers`; in particular the counter is never negative. -/
theorem waiting_accounting_partial (s0 : St) (h0 : T46Init s0) (c : Cfg) (hr : T46Reach s0 c) (e : Nat) :
    c.st.t46_WT e + c.st.t46_WW e + t46_WF e c.stack ≤ (c.st.ev e).waiting ∧
    0 ≤ c.st.t46_WT e ∧ 0 ≤ c.st.t46_WW e ∧ 0 ≤ t46_WF e c.stack ∧ 0 ≤ (c.st.ev e).waiting :=
  ⟨(t46_reach_inv h0 c hr).bound e, St.t46_WT_nonneg _ _, St.t46_WW_nonneg _ _, t46_WF_nonneg _ _,
   (t46_reach_inv h0 c hr).waiting_nonneg e⟩

/-- … the same when the guard is known to hold on all of `Reach` -/
theorem waiting_accounting_of_guard (s0 : St) (h0 : T46Init s0) (hG : ∀ c, Reach s0 c → T46Guard c) (c : Cfg)
    (hr : Reach s0 c) (e : Nat) : c.st.t46_WT e + c.st.t46_WW e + t46_WF e c.stack ≤ (c.st.ev e).waiting :=
  (t46_reach_inv h0 c (T46Reach.of_reach hG hr)).bound e

/-- every registered task of `e` is paid for: `waitingHandlers(e) ≥ 1`, `≥ 2` when the task carries a suspended caller
    (PARTIAL: guarded sessions) -/
theorem registered_task_counts_partial (s0 : St) (h0 : T46Init s0) (c : Cfg) (hr : T46Reach s0 c) (x : Nat) (t : Task)
    (ht : t ∈ (c.st.comp x).tasks) : (if t.parent.isSome then 2 else 1) ≤ (c.st.ev t.e).waiting :=
  (t46_reach_inv h0 c hr).task_bound x t ht

/-- **one task in flight** (the ownership part that is proved; PARTIAL: guarded sessions).  Task sets are duplicate-free; below
    every `.taskLoop x ts` frame there is no task frame, no other task loop and no handler in progress; `x` is its own root
    and the tasks still to be processed are registered; the task frame on top of the stack belongs to a task that is still
    registered (`.ptBody`/`.ptOwn`) and whose event therefore has `waitingHandlers ≥ 1` - also after the unregistration
    (`.ptParent`, which weighs 2 itself). -/
theorem one_task_in_flight_partial (s0 : St) (h0 : T46Init s0) (c : Cfg) (hr : T46Reach s0 c) :
    (∀ x, (c.st.comp x).tasks.Nodup) ∧
    (∀ a x ts b, c.stack = a ++ Frame.taskLoop x ts :: b →
      (∀ f ∈ b, f.t46_noisy = false) ∧ c.st.rootOf x = x ∧ ∀ t ∈ ts, t ∈ (c.st.comp x).tasks) ∧
    (∀ r t k, (c.stack = .ptBody r t :: k ∨ c.stack = .ptOwn r t :: k ∨ ∃ p v, c.stack = .ptParent r t p v :: k) →
      1 ≤ (c.st.ev t.e).waiting) := by
  have hi := t46_reach_inv h0 c hr
  refine ⟨hi.nd, fun a x ts b hs => ?_, fun r t k hs => hi.inflight_bound r t k hs⟩
  have hsh := hi.shape
  rw [hs] at hsh
  obtain ⟨h1, h2, h3⟩ := T46Shape.loop_quiet hsh
  refine ⟨fun f hf => ?_, h2, h3⟩
  simp only [t46_quiet, List.all_eq_true, Bool.not_eq_true'] at h1
  exact h1 f hf

/-- **success_after_last_step** (PARTIAL: guarded sessions).  When the end-of-event step of `e` goes through - `_eventDone(e)`
    entered with `waitingHandlers = 0`: the step that fires `<name>_done`, `<name>_success` and calls `_effectDone`
    (`success_rule`) - no obligation of `e` is left: no task of `e` is registered in any component, no `call`/`wait` made by
    a handler of `e` is pending, no caller of `e` is being resumed.  Every generator handler of the event has made its last
    step.  (The converse is not an invariant: see EQUALITY IS FALSE above.) -/
theorem success_after_last_step_partial (s0 : St) (h0 : T46Init s0) (c : Cfg) (hr : T46Reach s0 c) (e : Nat)
    (hp : T46Pass c e) :
    (∀ x t, t ∈ (c.st.comp x).tasks → t.e ≠ e) ∧
    (∀ w, w < c.st.waits.length → (c.st.wait w).t46_pending = true → (c.st.wait w).taskEvent ≠ e) ∧
    (∀ r t p v, Frame.ptParent r t p v ∈ c.stack → t.e ≠ e) := by
  obtain ⟨_, _, _, _, _, hw⟩ := hp
  exact (t46_reach_inv h0 c hr).no_obligations e hw

/-- **what a pass leaves behind** (PARTIAL: guarded sessions).  When the end-of-event step of `e` goes through: (1) no obligation of
    `e` exists; (2) nothing but driver-level frames is below any task loop - no handler loop is suspended there, so no
    `_dispatcher` will run its own `_eventDone` after a pass made from the task loop; (3) in every configuration of the session
    a task frame of `e` in flight forces `waitingHandlers(e) ≥ 1`, so it is not a pass.  These are the local facts behind the
    run-level theorem `eventDone_once_partial` below. -/
theorem pass_leaves_nothing_partial (s0 : St) (h0 : T46Init s0) (c : Cfg) (hr : T46Reach s0 c) (e : Nat) (hp : T46Pass c e) :
    ((∀ x t, t ∈ (c.st.comp x).tasks → t.e ≠ e) ∧
     (∀ w, w < c.st.waits.length → (c.st.wait w).t46_pending = true → (c.st.wait w).taskEvent ≠ e)) ∧
    (∀ a x ts b, c.stack = a ++ Frame.taskLoop x ts :: b → ∀ f ∈ b, f.t46_noisy = false) ∧
    (∀ c', T46Reach s0 c' → ∀ r t k,
      (c'.stack = .ptBody r t :: k ∨ c'.stack = .ptOwn r t :: k ∨ ∃ p v, c'.stack = .ptParent r t p v :: k) →
      t.e = e → ¬ T46Pass c' e ∧ 1 ≤ (c'.st.ev e).waiting) := by
  obtain ⟨a1, a2, _⟩ := success_after_last_step_partial s0 h0 c hr e hp
  refine ⟨⟨a1, a2⟩, fun a x ts b hs => ((one_task_in_flight_partial s0 h0 c hr).2.1 a x ts b hs).1, ?_⟩
  intro c' hr' r t k hs he
  have h1 := (t46_reach_inv h0 c' hr').inflight_bound r t k hs
  rw [he] at h1
  refine ⟨?_, h1⟩
  rintro ⟨_, _, _, _, _, hw⟩
  omega

/-- **eventDone_once**, RUN LEVEL (PARTIAL only in that it is stated over guarded sessions: without `T46Guard` it is false, see
    `eventDone_once_witness`; the clause needed is (tick): no handler / task re-enters the task loop).
    `T46Trace s0 e c p`: `c` is a configuration of a guarded session from `s0` in which the end-of-event step of `e`
    (`_eventDone(e)` entered with `waitingHandlers = 0`) has gone through `p` times so far.  Then, at every moment,

        p  +  (dispatches of e in progress: `.hLoop/.hAfter/.hApply/.dispFin/.eventDone r e` frames on the stack)
           ≤  number of `.disp e` entries logged since the start of the session.

    Every pass is paid for by a dispatch of its own: for each dispatch of an event the end-of-event step happens at most once,
    whether it is made by `_dispatcher` itself or later by the task of the last generator handler; and while a generator
    handler of `e` is still pending (`waitingHandlers ≥ 1`) one dispatch is still unpaid.
    (The form "between two passes a `.disp e` is logged" is the special case below for events dispatched once; for an event
    object that is dispatched again while a handler of its previous dispatch is running - a re-fired `Timer` event and a
    handler that flushes - the passes of the inner and the outer dispatch follow each other without a `.disp` in between, which
    is why the statement counts.)  Hypothesis `(s0.ev e).waiting = 0`: the event is not half-handled when the session starts. -/
theorem eventDone_once_partial (s0 : St) (h0 : T46Init s0) (e : Nat) (hw0 : (s0.ev e).waiting = 0) (c : Cfg) (p : Nat)
    (ht : T46Trace s0 e c p) :
    p + t46_ctx e c.stack + s0.log.count (Entry.disp e) ≤ c.st.log.count (Entry.disp e) ∧
    (1 ≤ (c.st.ev e).waiting → p + 1 + s0.log.count (Entry.disp e) ≤ c.st.log.count (Entry.disp e)) :=
  ⟨(t46_trace_once h0 e hw0 c p ht).k, (t46_trace_once h0 e hw0 c p ht).j⟩

/-- … in particular: an event that has been dispatched (at most) once during the session has had its end-of-event step at most
    once - `<name>_done`, `<name>_success`, the value notification and `_effectDone` happen at most once for it. -/
theorem eventDone_at_most_once_partial (s0 : St) (h0 : T46Init s0) (e : Nat) (hw0 : (s0.ev e).waiting = 0) (c : Cfg) (p : Nat)
    (ht : T46Trace s0 e c p)
    (h1 : c.st.log.count (Entry.disp e) ≤ s0.log.count (Entry.disp e) + 1) : p ≤ 1 := by
  have := (eventDone_once_partial s0 h0 e hw0 c p ht).1
  omega

/-- the counter of a trace counts exactly the configurations in which `T46Pass` holds; every guarded session has a trace -/
theorem pass_counter_spec (c : Cfg) (e : Nat) : t46_passB c e = true ↔ T46Pass c e := t46_passB_iff c e
theorem guarded_sessions_have_traces (s0 : St) (e : Nat) (c : Cfg) (h : T46Reach s0 c) : ∃ p, T46Trace s0 e c p := h.trace e

example (s0 : St) : T46Trace s0 0 (startOf (envChange s0 0 []) (.tick 0)) 0 := T46Trace.init 0 [] (.tick 0)

/-- the excluded case is real: on the run `cw2` of C05 (a handler of `foo` calls `stop()` while the manager is running but not
    executing; the inline ticks run the task loop inside the handler) the end-of-event step of event 0 goes through in
    configuration 55 (from `processTask`) and again in configuration 86 (at the end of `_dispatcher`), with no `.disp 0`
    logged in between; configuration 19 of the run violates the guard (`tick()` with a pending task inside a handler). -/
theorem eventDone_once_witness :
    T46Init C05.s0w ∧ Reach C05.s0w (C05.cw2 55) ∧ Reach C05.s0w (C05.cw2 86) ∧
    T46Pass (C05.cw2 55) 0 ∧ T46Pass (C05.cw2 86) 0 ∧
    (∃ es, (C05.cw2 86).st.log = es ++ (C05.cw2 55).st.log ∧ Entry.disp 0 ∉ es) ∧
    Reach C05.s0w (C05.cw2 19) ∧ ¬ T46Guard (C05.cw2 19) :=
  ⟨t46_s0w_init, C05.cw2_reach 55, C05.cw2_reach 86, t46_passB_spec _ _ t46_cw2_pass1, t46_passB_spec _ _ t46_cw2_pass2,
   t46_noDispB_spec _ _ _ t46_cw2_nodisp, C05.cw2_reach 19, t46_badTickB_spec _ t46_cw2_badtick⟩

/-- non-vacuity of `T46Pass` -/
example : T46Pass { st := {}, stack := [.eventDone 0 0 false] } 0 := ⟨0, false, [], rfl, rfl, rfl⟩

end CV.C04


/-!
## Nested Values (a handler that returns `self.fire(e)`): the value layer `CV.VT` (`CV/Model/ValueTree.lean`)

`circuits/core/values.py` as a store of cells; `setValue` with its `Value` branch, the walk of `update` up the parent
chain, `getValue(recursive)`, `inform`.  The statements hold for every store (every forest - or non-forest - of cells, every
setting of the flags) and every finite session of operations; the machine of the sections above does not contain
nested values (its programs return atoms), this layer is tied to the code by its own correspondence (`harness/c04_values.py`).
-/
namespace CV.C04
open CV.VT

/-- whatever else happens in the session (sets on other cells, flag writes, informs, new cells): what a cell holds is, apart
    from `None` entries, exactly what it held before followed by the non-None results set on it, in order - a nested Value
    stands in the sequence as itself (`Arg.ref`), nothing is dropped or replaced (before fix d96e696 a result arriving after a
    still unresolved nested Value replaced it) -/
theorem resolved_value_exact (s : St) (ops : List Op) (c : Nat) :
    nn (items ((runOps s ops).cells c).value) = nn (items (s.cells c).value) ++ nn (setsOn c ops) := runOps_nn ops s c

/-- from the initial store: exactly the non-None results set on the cell -/
theorem resolved_value_exact_init (ops : List Op) (c : Nat) :
    nn (items ((runOps {} ops).cells c).value) = nn (setsOn c ops) := by
  rw [resolved_value_exact]; rfl

/-- `getValue(True)`: a cell holding a single nested Value resolves to what that Value resolves to … -/
theorem resolved_nested (s : St) (c d : Nat) (r : Stored) (h : (s.cells c).value = .one (.ref d))
    (hr : getValue s c true = some r) : getValue s d true = some r := by
  simp only [getValue, if_true, h, getRec] at hr ⊢
  exact getRec_mono _ _ _ _ hr

example : getValue (runOps {} [.new .off .off true, .new .off .off true, .set 0 (.ref 1), .set 1 (.lit 5)]) 0 true
    = some (.one (.lit 5)) := by decide

/-- … and any other content (nothing, an atom, a list) is returned as it is -/
theorem resolved_plain (s : St) (c : Nat) (h : ∀ d, (s.cells c).value ≠ .one (.ref d)) :
    getValue s c true = some (s.cells c).value := by
  simp only [getValue, if_true]
  cases hv : (s.cells c).value with
  | many l => rfl
  | one a =>
    cases a with
    | none => rfl
    | lit n => rfl
    | ref d => exact (h d hv).elim

example : ∀ d, (({} : St).cells 0).value ≠ .one (.ref d) := by intro d h; cases h

/-- the first result of a cell that holds nothing is stored as such … -/
theorem single_first (s : St) (c : Nat) (a : Arg) (h : held (s.cells c) = false) :
    ((setValue s c a).cells c).value = .one a := by
  rw [setValue_value, if_pos rfl]; exact storeArg_fresh _ _ h

example : held (({} : St).cells 0) = false := by decide

/-- … and from then on, through every session: it stays alone as long as nothing else is set on the cell, and becomes the
    Python list of everything set, in order, as soon as something is -/
theorem single_vs_list (s : St) (ops : List Op) (c : Nat) (h : (s.cells c).value ≠ .one .none) :
    ((runOps s ops).cells c).value =
      if setsOn c ops = [] then (s.cells c).value else .many (items (s.cells c).value ++ setsOn c ops) :=
  runOps_items ops s c h

/-- both together: a first non-None result `a` and then a session -/
theorem single_vs_list_fresh (s : St) (c : Nat) (a : Arg) (ops : List Op) (h : held (s.cells c) = false) (ha : a ≠ .none) :
    ((runOps (setValue s c a) ops).cells c).value = if setsOn c ops = [] then .one a else .many (a :: setsOn c ops) := by
  have h1 := single_first s c a h
  rw [single_vs_list _ _ _ (by rw [h1]; intro e; cases e; exact ha rfl), h1]; rfl

example : ((runOps (setValue {} 0 (.lit 1)) [.set 0 (.lit 2), .set 1 (.lit 9), .set 0 (.ref 1)]).cells 0).value
    = .many [.lit 1, .lit 2, .ref 1] := by decide

/-- `setValue` never takes a flag back (before fix d96e696 storing a nested Value copied its flags over the holder's:
    `[raise, return self.fire(e)]` ended with errors = False) -/
theorem flags_monotone (s : St) (c : Nat) (a : Arg) (j : Nat) :
    ((s.cells j).errors = true → ((setValue s c a).cells j).errors = true) ∧
    ((s.cells j).result = true → ((setValue s c a).cells j).result = true) := setValue_flags_mono s c a j

/-- errors travel upwards at every `setValue` that returns: an error known on the cell set, or on the Value being nested into
    it, is afterwards known on the cell and on every ancestor of it -/
theorem errors_propagate (s : St) (c : Nat) (a : Arg) (q : Nat) (hq : Anc (setValue s c a) c q)
    (hc : (setValue s c a).crashed = false)
    (he : (s.cells c).errors = true ∨ ∃ d, a = .ref d ∧ (s.cells d).errors = true) :
    ((setValue s c a).cells q).errors = true := by
  unfold setValue at hq hc ⊢
  refine update_anc_errors _ _ _ _ _ (hq.congr (fun j => (update_parent ..).symm)) hc ?_
  rcases he with he | ⟨d, rfl, he⟩
  · refine (touch_rel flagsMono_step _ _ _ _).1 ?_
    simp [setParent_errors, he]
  · apply touch_ref_errors
    simp only [upd_cells]; split <;> simp [setParent_errors, he]

/-- non-vacuity, and the shape the manager produces: the nested event's handler raised (`errors = True`, then the error
    triple is set): the holder and the holder's holder learn it -/
example : let s := runOps {} [.new .off .off true, .new .off .off true, .new .off .off true, .set 0 (.ref 1), .set 1 (.ref 2),
      .errors 2 true]
    Anc (setValue s 2 (.lit 7)) 2 0 ∧ (setValue s 2 (.lit 7)).crashed = false ∧ ((setValue s 2 (.lit 7)).cells 0).errors = true := by
  refine ⟨.step (by decide) (.step (by decide) ?_), by decide, by decide⟩
  exact .refl _

/-- … and no error is invented -/
theorem errors_not_invented (s : St) (c : Nat) (a : Arg) (h : ∀ j, (s.cells j).errors = false) (j : Nat) :
    ((setValue s c a).cells j).errors = false := by
  unfold setValue
  refine update_noErr _ _ _ _ ?_ j
  intro i
  simp only [upd_cells]; split <;> simp [setParent_errors, h]

example : ∀ j, (({} : St).cells j).errors = false := fun _ => rfl

/-- the naive reading "errors is set iff an error was set on the cell or on a cell nested under it" fails in one direction:
    flags travel only inside `setValue`; an `errors = True` written on a nested Value after the nesting, with no later
    `setValue` on it, is not seen by the holder (the manager always sets the error triple right after the flag) -/
theorem errors_propagate_naive_witness :
    let s := runOps {} [.new .off .off true, .new .off .off true, .set 0 (.ref 1), .errors 1 true]
    (s.cells 1).errors = true ∧ (s.cells 1).parent = 0 ∧ (s.cells 0).errors = false := by decide

/-- parent chains stay acyclic: storing an atom or None changes no parent; nesting a Value that is nobody's parent yet (a
    value just returned by `fire`) under another cell keeps the chains acyclic -/
theorem parent_chain_acyclic (s : St) (c : Nat) (a : Arg) (h : Acyclic s)
    (hfresh : ∀ d, a = .ref d → d ≠ c ∧ ∀ j, j ≠ d → (s.cells j).parent ≠ d) : Acyclic (setValue s c a) := by
  obtain ⟨rank, hr⟩ := h
  cases a with
  | none => exact ⟨rank, fun j hj => by rw [setValue_parent] at hj ⊢; simpa using hr j (by simpa using hj)⟩
  | lit n => exact ⟨rank, fun j hj => by rw [setValue_parent] at hj ⊢; simpa using hr j (by simpa using hj)⟩
  | ref d =>
    obtain ⟨hdc, hf⟩ := hfresh d rfl
    refine ⟨fun j => if j = d then rank c + 1 else rank j, fun j hj => ?_⟩
    rw [setValue_parent] at hj ⊢
    by_cases hjd : j = d
    · subst hjd
      have hcj : ¬ c = j := fun e => hdc e.symm
      simp [hcj]
    · have hne : ¬ (Arg.ref d = Arg.ref j) := by intro e; cases e; exact hjd rfl
      rw [if_neg hne] at hj ⊢
      have := hr j hj
      have hpd : ¬ (s.cells j).parent = d := hf j hjd
      simp [hjd, hpd, this]

example : Acyclic ({} : St) := ⟨fun _ => 0, fun _ hj => (hj rfl).elim⟩
example : ∀ d, Arg.ref 1 = .ref d → d ≠ 0 ∧ ∀ j, j ≠ d → (({} : St).cells j).parent ≠ d := by
  intro d h; cases h; exact ⟨by decide, fun j hj => hj⟩

/-- without the freshness condition a cycle can be made, and the next `setValue` on it does not return (RecursionError in
    `update`; the model's `crashed`) -/
theorem parent_chain_acyclic_witness :
    let s := runOps {} [.new .off .off true, .new .off .off true, .set 0 (.ref 1)]
    (s.cells 0).parent = 0 ∧ (s.cells 1).parent = 0 ∧ s.crashed = false ∧ (setValue s 1 (.ref 0)).crashed = true := by decide

/-- one change, at most one notification per Value: on acyclic chains the notes fired by one `setValue` of an atom are
    about pairwise different cells (the cell set and ancestors of it: `rank` does not increase) -/
theorem notify_once_per_change (s : St) (c n : Nat) (rank : Nat → Nat)
    (hr : ∀ j, (s.cells j).parent ≠ j → rank (s.cells j).parent < rank j) :
    ∃ new : List Note, (setValue s c (.lit n)).log = new ++ s.log ∧ (∀ x ∈ new, rank x.cell ≤ rank c) ∧
      (new.map Note.cell).Nodup := by
  unfold setValue
  exact update_log_lit rank n _ _ c (fun j hj => by
    have hp : ∀ i, (((setParent s c (.lit n)).upd c (fun x => { x with value := storeArg x (.lit n) })).cells i).parent
        = (s.cells i).parent := by
      intro i; simp only [upd_cells, setParent]; split <;> rfl
    rw [hp] at hj ⊢; exact hr j hj)

example : ∀ j, ((({} : St).cells j).parent ≠ j → (fun _ : Nat => 0) (({} : St).cells j).parent < (fun _ : Nat => 0) j) :=
  fun _ hj => (hj rfl).elim

/-- … and at least once: a Value that is to notify (its event's or its own `notify` is True, it has a manager, it is not
    a promise waiting for coroutine handlers) announces the result stored in it, before its ancestors announce theirs -/
theorem notify_cell_itself (s : St) (c n : Nat) (hp : (s.cells c).promise = false) (hm : (s.cells c).hasMgr = true)
    (hn : (s.cells c).evNotify.orElse (s.cells c).notify = .on) :
    ∃ new : List Note, (setValue s c (.lit n)).log = new ++ .changed c :: s.log := by
  unfold setValue
  obtain ⟨new, h⟩ := update_succ_log s.n ((setParent s c (.lit n)).upd c (fun x => { x with value := storeArg x (.lit n) })) c (.lit n)
  refine ⟨new, ?_⟩
  rw [h]
  congr 1
  exact inform_on _ c (by simp [setParent, hp]) (by simp [setParent, hm]) (by simpa [setParent] using hn)

example : ((newCell {} .on .off true).cells 0).evNotify.orElse ((newCell {} .on .off true).cells 0).notify = .on := by decide

/-- storing `None` or a Value (no result yet known for sure) notifies nobody -/
theorem notify_only_for_results (s : St) (c : Nat) (a : Arg) (h : ∀ n, a ≠ .lit n) : (setValue s c a).log = s.log := by
  unfold setValue
  rw [update_log_quiet _ _ _ _ h]
  cases a <;> rfl

example : ∀ n, Arg.ref 3 ≠ .lit n := by intro n h; cases h

/-- the notifications of a result arriving in a nested Value, concretely: the nested Value's own event and the holder's
    event are notified once each, innermost first (log is newest first) -/
theorem notify_chain_witness :
    let s := runOps {} [.new .on .off true, .new .off .on true, .set 0 (.ref 1)]
    s.log = [] ∧ (setValue s 1 (.lit 5)).log = [.changed 0, .changed 1] := by decide

end CV.C04

import CV.Model.Core.Machine
namespace CV.C04
theorem placeholder : True := trivial
end CV.C04

import CV.Proofs.CoreValue
/-
C04 - value layer.  `Val.set` is the function the machine calls for every non-None handler
result (`setValue` in CV.Model.Core.Machine); these theorems say that whatever sequence of
results the handlers of an event produce, the stored value is exactly the collapsed list of
the property statement.  (Machine-level statements - which results are produced, feedback
events - are in the sections below / still open, see DESIGN.md C04.)
-/
namespace CV.C04
open CV.Core

/-- after the results `xs` have been stored, in order, into a fresh Value: unset for none,
    the value itself for one, the list in production order for several -/
theorem value_exact_layer (xs : List VItem) : (setAll {} xs).view = collapse xs := by
  have hwf := setAll_wf {} xs Val.wf_init
  rw [view_of_wf _ hwf, setAll_items {} xs Val.wf_init]
  rfl

/-- the same from any reachable Value: further results are appended, nothing is lost or reordered -/
theorem value_accumulates (v : Val) (xs : List VItem) (h : v.WF) :
    (setAll v xs).view = collapse (v.items ++ xs) := by
  rw [view_of_wf _ (setAll_wf v xs h), setAll_items v xs h]

/-- storing a result never touches the errors flag (it is set only where a handler raised) -/
theorem set_keeps_errors (v : Val) (x : VItem) : (v.set x).errors = v.errors := Val.set_errors v x

/-- a stored result marks the Value as having a result -/
theorem set_marks_result (v : Val) (x : VItem) : (v.set x).result = true := Val.set_result v x

example : (setAll {} [.val 3, .err, .val 5]).view = .many [.val 3, .err, .val 5] := by decide
example : (setAll {} [.val 3]).view = .single (.val 3) := by decide
example : (setAll {} []).view = .unset := by decide

end CV.C04

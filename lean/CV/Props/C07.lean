import CV.Proofs.InvForest
import CV.Proofs.InvAnnounce
/-
C07 — the component tree stays a consistent forest under register / unregister.

Machine-level theorems about the small-step core machine (`CV.Model.Core.Step`), over every
configuration a driver session can reach (`CV.Core.Reach`, CV/Proofs/CoreReach.lean) from a state
in which every component is a detached root (`InitForest`).  Proofs: CV/Proofs/InvForest.lean.

  forest_inv            parent and child links agree, one parent each, no cycles, `root` correct:
                        `ForestInv` in EVERY reachable configuration (not only between operations)
  root_is_top           the root is reached by parent links, is its own parent, and is the only such
  subtree_connected     all members of a subtree have the root of its top
  register_moves_subtree / detach_moves_subtree
                        the registering / detaching step moves the subtree as a whole
  announced_registered / announced_unregistered / register_silent
                        the local step facts behind "announced by exactly one event"
  announced_only_partial  no other step fires `registered` / `unregistered` (sessions without timers)
  queued_not_lost       the child's queued events are appended to the new root's queue
  nothing_after_detach  the former root's `getHandlers` sees nothing of the detached subtree
-/
namespace CV.C07
open CV.Core

/-- **Forest invariant.**  In every reachable configuration parent and child links agree, every
    component has exactly one parent (itself for a root), there are no cycles, and `root` is
    the root of the parent (or the component itself for a root). -/
theorem forest_inv (s0 : St) (h0 : InitForest s0) (c : Cfg) (hr : Reach s0 c) : ForestInv c.st :=
  (FInv.reach h0 c hr).forest

/-- **Root is the top of the tree.**  `x.root` is `x` or an ancestor of `x` (reached by parent
    links), it is its own parent, and it is the only ancestor-or-self of `x` that is its own parent. -/
theorem root_is_top (s0 : St) (h0 : InitForest s0) (c : Cfg) (hr : Reach s0 c) (x : Nat)
    (hx : x < c.st.comps.length) :
    Anc c.st (c.st.comp x).root x ∧
    (c.st.comp (c.st.comp x).root).parent = (c.st.comp x).root ∧
    ∀ a, Anc c.st a x → (c.st.comp a).parent = a → a = (c.st.comp x).root := by
  have hF := forest_inv s0 h0 c hr
  exact ⟨(hF.root_is_top x hx).1, (hF.root_is_top x hx).2, fun a ha hp => hF.root_unique a x hx ha hp⟩

/-- **Subtrees are connected.**  Every component reachable from `a` through `children` links has
    the same root as `a`. -/
theorem subtree_connected (s0 : St) (h0 : InitForest s0) (c : Cfg) (hr : Reach s0 c) (a d : Nat)
    (ha : a < c.st.comps.length) (hs : Sub c.st a d) : (c.st.comp d).root = (c.st.comp a).root :=
  (forest_inv s0 h0 c hr).subtree_root a d ha hs

/-- **A registered subtree moves as a whole.**  The step that executes an admissible
    `x.register(p)` (`p ≠ x`) in a configuration whose tree is a forest (every reachable one, by
    `forest_inv`) hangs `x` under `p` and gives every member of `x`'s subtree the root of `p`. -/
theorem register_moves_subtree (c : Cfg) (hF : ForestInv c.st) (x p : Nat) (k : List Frame)
    (hst : c.stack = .register x p :: k) (hx : c.exn = none) (hadm : c.st.admissible x p = true) (hpx : p ≠ x) :
    ((step c).st.comp x).parent = p ∧ x ∈ ((step c).st.comp p).children ∧
    ((step c).st.comp p).root = (c.st.comp p).root ∧
    ∀ d, Sub (step c).st x d → ((step c).st.comp d).root = (c.st.comp p).root := by
  rw [step_register c x p k hst hx hadm]
  exact (register_step_tree hF x p hadm hpx).2

/-- **A detached subtree stays connected.**  The step that runs `_on_prepare_unregister_complete`
    of an attached component `o` removes `o` from its parent's children, makes it its own parent
    and gives every member of `o`'s subtree the root `o`; the tree is a forest again at once. -/
theorem detach_moves_subtree (c : Cfg) (hF : ForestInv c.st) (r h e : Nat) (k : List Frame)
    (hst : c.stack = .invoke r h e :: k) (hx : c.exn = none)
    (hk : (c.st.handler h).kind = HKind.prepUnregComplete)
    (ho : (c.st.handler h).owner < c.st.comps.length)
    (hne : (c.st.comp (c.st.handler h).owner).parent ≠ (c.st.handler h).owner) :
    let o := (c.st.handler h).owner
    ForestInv (step c).st ∧ ((step c).st.comp o).parent = o ∧
    o ∉ ((step c).st.comp (c.st.comp o).parent).children ∧
    ∀ d, Sub (step c).st o d → ((step c).st.comp d).root = o := by
  intro o
  rw [step_detach c r h e k hst hx hk]
  obtain ⟨h1, _, h3, h4, h5⟩ := detach_step_tree (s := c.st.logE (Entry.hinv e 4 o))
    (hF.of_treeEq (TreeEq.logE (TreeEq.refl _) _)) o ho hne
  refine ⟨h1, ?_, ?_, h5⟩
  · rw [h3, if_pos rfl]
  · rw [h4]
    split
    · intro hm
      exact ((hF.childrenNodup _ (hF.parentLt o ho)).mem_erase_iff.mp hm).1 rfl
    · rename_i hh; exact absurd rfl hh

/-- **Announced once (registered).**  The step of frame `.registerFin x` appends exactly one log
    entry: the `fire` of a fresh event named `registered`, on `x`'s channel. -/
theorem announced_registered (c : Cfg) (x : Nat) (k : List Frame)
    (hst : c.stack = .registerFin x :: k) (hx : c.exn = none) :
    (step c).st.log = Entry.fire c.st.evs.length Name.registered [(c.st.comp x).chan] 0 :: c.st.log := by
  rw [step_cons c _ k hst hx]
  exact Cfg.registerFin_log c k x

/-- … and the registering step itself (frame `.register x p`, whatever its outcome) logs nothing:
    one `register` operation contributes exactly the one `registered` of its `.registerFin` step. -/
theorem register_silent (c : Cfg) (x p : Nat) (k : List Frame)
    (hst : c.stack = .register x p :: k) (hx : c.exn = none) : (step c).st.log = c.st.log := by
  rw [step_cons c _ k hst hx]
  exact Cfg.register_log c k x p

/-- **Announced once (unregistered).**  The detaching step appends the handler-invocation entry and
    exactly one `fire`, of a fresh event named `unregistered`. -/
theorem announced_unregistered (c : Cfg) (r h e : Nat) (k : List Frame)
    (hst : c.stack = .invoke r h e :: k) (hx : c.exn = none)
    (hk : (c.st.handler h).kind = HKind.prepUnregComplete) :
    ∃ chans, (step c).st.log =
      Entry.fire c.st.evs.length Name.unregistered chans 0 ::
        Entry.hinv e 4 (c.st.handler h).owner :: c.st.log := by
  rw [step_cons c _ k hst hx]
  exact Cfg.invoke_detach_log c k r h e hk

/-- hypothesis of `announced_only_partial`: no user template is named `registered` / `unregistered`,
    and the session has no timers -/
def InitQuiet (s0 : St) : Prop := TmplOk s0.tmpls ∧ s0.timers = []

/-- **No other source of announcements** (partial).  In a session without timers whose user
    templates do not use the names `registered` / `unregistered`, every step whose top frame is not
    `.registerFin x` or the `.invoke` of an `_on_prepare_unregister_complete` handler appends only
    log entries that are not the `fire` of an event named `registered` / `unregistered`.  With
    `announced_registered`, `register_silent` and `announced_unregistered`: the `fire registered`
    entries of a log are in one-to-one correspondence with the completed registrations (their
    `.registerFin` steps), the `fire unregistered` entries with the detach steps.

    FULL statement: the same with `InitQuiet s0 := TmplOk s0.tmpls ∧ ∀ tm ∈ s0.timers, tm.ev = none`
    (timers allowed).  Obstacle: `Timer._on_generate_events` (`St.timerTick`) fires a STORED event
    object (`tm.ev`), so its name is read from the event table; one needs the additional invariant
    "every stored timer event is in range and carries its template's name, and no `modEv` of the
    model changes a name" - a second pass over all arms with side conditions on `modEv`/`modTimer`,
    not done here.  It is a proof gap, not a counter-example: the harness agrees with the model on
    timer scenarios. -/
theorem announced_only_partial (s0 : St) (hq : InitQuiet s0) (c : Cfg) (hr : Reach s0 c)
    (hf : ∀ f k, c.stack = f :: k → c.exn = none → ¬ f.announces c.st) :
    ∃ es, (step c).st.log = es ++ c.st.log ∧ ∀ x, x ∈ es → ¬ RegFire x := by
  obtain ⟨h1, h2⟩ := reach_tmpls_timers c hr
  refine step_quiet c (h1 ▸ hq.1) ?_ hf
  rw [hq.2] at h2
  exact List.length_eq_zero_iff.mp h2

/-- **Queued events are not lost.**  The registering step appends the deque of the registered
    component to the deque of its new root (as lists: old root queue ++ old child queue) and leaves
    the child's deque empty. -/
theorem queued_not_lost (c : Cfg) (hF : ForestInv c.st) (x p : Nat) (k : List Frame)
    (hst : c.stack = .register x p :: k) (hx : c.exn = none) (hadm : c.st.admissible x p = true) (hpx : p ≠ x) :
    ((step c).st.comp (c.st.comp p).root).eq.queue =
        (c.st.comp (c.st.comp p).root).eq.queue ++ (c.st.comp x).eq.queue ∧
    ((step c).st.comp x).eq.queue = [] := by
  rw [step_register c x p k hst hx hadm]
  rw [St.updateRootAll_eq, St.updateRootAll_eq]
  exact St.registerPre_queue hF x p hadm hpx

/-- **Nothing further from the former tree.**  After the detaching step no member of the detached
    subtree is reachable from the former root through `children` links, … -/
theorem nothing_after_detach (c : Cfg) (hF : ForestInv c.st) (r h e : Nat) (k : List Frame)
    (hst : c.stack = .invoke r h e :: k) (hx : c.exn = none)
    (hk : (c.st.handler h).kind = HKind.prepUnregComplete)
    (ho : (c.st.handler h).owner < c.st.comps.length)
    (hne : (c.st.comp (c.st.handler h).owner).parent ≠ (c.st.handler h).owner) :
    let o := (c.st.handler h).owner
    ∀ d, Sub (step c).st o d → ¬ Sub (step c).st (c.st.comp o).root d := by
  intro o
  rw [step_detach c r h e k hst hx hk]
  exact detach_unreachable (s := c.st.logE (Entry.hinv e 4 o))
    (hF.of_treeEq (TreeEq.logE (TreeEq.refl _) _)) o ho hne

/-- … so `getHandlers` (`collect`) of the former root returns only handlers that match at a
    component outside the detached subtree: whatever the former root dispatches from now on, no
    handler of the detached subtree is among the handlers it computes. -/
theorem nothing_after_detach_handlers (c : Cfg) (hF : ForestInv c.st) (r h e : Nat) (k : List Frame)
    (hst : c.stack = .invoke r h e :: k) (hx : c.exn = none)
    (hk : (c.st.handler h).kind = HKind.prepUnregComplete)
    (ho : (c.st.handler h).owner < c.st.comps.length)
    (hne : (c.st.comp (c.st.handler h).owner).parent ≠ (c.st.handler h).owner)
    (fuel : Nat) (name : Name) (target : Chan) (g : Nat) :
    let o := (c.st.handler h).owner
    g ∈ collect (step c).st fuel (c.st.comp o).root name target →
      ∃ d, matchesAt (step c).st d name target g ∧ ¬ Sub (step c).st o d := by
  intro o
  rw [step_detach c r h e k hst hx hk]
  exact detach_collect (s := c.st.logE (Entry.hinv e 4 o))
    (hF.of_treeEq (TreeEq.logE (TreeEq.refl _) _)) o ho hne fuel name target g

/-! ### non-vacuity of the hypotheses -/

/-- two detached components -/
def exInit : St := { comps := [{ parent := 0, root := 0 }, { parent := 1, root := 1 }] }

example : InitForest exInit := by unfold InitForest; decide

/-- the hypotheses of `register_moves_subtree` / `queued_not_lost` / `register_silent` hold in a
    reachable configuration: one step into `do 0 (reg 1 0)` -/
example : ∃ c, Reach exInit c ∧ ∃ k, c.stack = .register 1 0 :: k ∧ c.exn = none ∧
    c.st.admissible 1 0 = true ∧ (0 : Nat) ≠ 1 :=
  ⟨_, Reach.step (Reach.init 0 [] (.doAct 0 (.reg 1 0))), _, rfl, rfl, by decide, by decide⟩

/-- … and two steps later the hypothesis of `announced_registered` -/
example : ∃ c, Reach exInit c ∧ ∃ k, c.stack = .registerFin 1 :: k ∧ c.exn = none :=
  ⟨_, Reach.step (Reach.step (Reach.init 0 [] (.doAct 0 (.reg 1 0)))), _, rfl, rfl⟩

example : InitQuiet exInit := ⟨fun t ht => (by cases ht), rfl⟩

/-- the frame hypothesis of `announced_only_partial` holds e.g. at the start of every operation -/
example : ∀ f k, (startOf (envChange exInit 0 []) (.tick 0)).stack = f :: k →
    (startOf (envChange exInit 0 []) (.tick 0)).exn = none →
    ¬ f.announces (startOf (envChange exInit 0 []) (.tick 0)).st := by
  intro f k h _
  have : f = .tick 0 := by
    have h' : [Frame.tick 0] = f :: k := h
    injection h' with h1 _
    exact h1.symm
  subst this
  exact fun h => h

/-- component 1 attached under 0, about to run its `_on_prepare_unregister_complete` (handler 0) -/
def exDetach : Cfg :=
  { st := { comps := [{ parent := 0, root := 0, children := [1] }, { parent := 0, root := 0 }],
            hs := [{ owner := 1, names := [], chan := none, kind := .prepUnregComplete }] },
    stack := [.invoke 0 0 0] }

/-- the hypotheses of `detach_moves_subtree` / `announced_unregistered` / `nothing_after_detach` -/
example : ForestInv exDetach.st ∧ exDetach.stack = .invoke 0 0 0 :: [] ∧ exDetach.exn = none ∧
    (exDetach.st.handler 0).kind = HKind.prepUnregComplete ∧
    (exDetach.st.handler 0).owner < exDetach.st.comps.length ∧
    (exDetach.st.comp (exDetach.st.handler 0).owner).parent ≠ (exDetach.st.handler 0).owner := by
  refine ⟨⟨by decide, by decide, ?_, by decide, by decide, ⟨fun c => c, by decide⟩, by decide⟩,
    rfl, rfl, rfl, by decide, by decide⟩
  intro c d hc hd
  have hc' : c = 0 ∨ c = 1 := by change c < 2 at hc; omega
  rcases hc' with rfl | rfl
  · have : d = 1 := by simpa [exDetach, St.comp] using hd
    subst this; decide
  · simp [exDetach, St.comp] at hd

end CV.C07

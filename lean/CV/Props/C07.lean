import CV.Proofs.InvForest
import CV.Proofs.InvAnnounce
import CV.Proofs.InvPending
import CV.Proofs.InvLoop
import CV.Proofs.InvCacheMain
/-
C07 — the component tree stays a consistent forest under register / unregister.

Machine-level theorems about the small-step core machine (`CV.Model.Core.Step`), over every
configuration a driver session can reach (`CV.Core.Reach`, CV/Proofs/CoreReach.lean) from a state
in which every component is a detached root (`InitForest`).  Proofs: CV/Proofs/InvForest.lean.

  forest_inv            parent and child links agree, one parent each, no cycles, `root` correct:
                        `ForestInv` in EVERY reachable configuration (not only between operations)
  root_is_top           the root is reached by parent links, is its own parent, and is the only such
  subtree_connected     all members of a subtree have the root of its top
  register_moves_subtree / detach_moves_subtree
                        the registering / detaching step moves the subtree as a whole
  announced_registered / announced_unregistered / register_silent
                        the local step facts behind "announced by exactly one event"
  announced_only_partial  no other step fires `registered` / `unregistered` (sessions without timers)
  queued_not_lost       the child's queued events are appended to the new root's queue
  nothing_after_detach  the former root's `getHandlers` sees nothing of the detached subtree
  pending_resolves_partial / complete_dispatch_detaches
                        a draining unregistration fires `prepare_unregister_complete` (guarded runs of
                        C05), whose dispatch calls the detach handler while the component is in the tree
-/
namespace CV.C07
open CV.Core

/-- **Forest invariant.**  In every reachable configuration parent and child links agree, every
    component has exactly one parent (itself for a root), there are no cycles, and `root` is
    the root of the parent (or the component itself for a root). -/
theorem forest_inv (s0 : St) (h0 : InitForest s0) (c : Cfg) (hr : Reach s0 c) : ForestInv c.st :=
  (FInv.reach h0 c hr).forest

/-- **Root is the top of the tree.**  `x.root` is `x` or an ancestor of `x` (reached by parent
    links), it is its own parent, and it is the only ancestor-or-self of `x` that is its own parent. -/
theorem root_is_top (s0 : St) (h0 : InitForest s0) (c : Cfg) (hr : Reach s0 c) (x : Nat)
    (hx : x < c.st.comps.length) :
    Anc c.st (c.st.comp x).root x ∧
    (c.st.comp (c.st.comp x).root).parent = (c.st.comp x).root ∧
    ∀ a, Anc c.st a x → (c.st.comp a).parent = a → a = (c.st.comp x).root := by
  have hF := forest_inv s0 h0 c hr
  exact ⟨(hF.root_is_top x hx).1, (hF.root_is_top x hx).2, fun a ha hp => hF.root_unique a x hx ha hp⟩

/-- **Subtrees are connected.**  Every component reachable from `a` through `children` links has
    the same root as `a`. -/
theorem subtree_connected (s0 : St) (h0 : InitForest s0) (c : Cfg) (hr : Reach s0 c) (a d : Nat)
    (ha : a < c.st.comps.length) (hs : Sub c.st a d) : (c.st.comp d).root = (c.st.comp a).root :=
  (forest_inv s0 h0 c hr).subtree_root a d ha hs

/-- **A registered subtree moves as a whole.**  The step that executes an admissible
    `x.register(p)` (`p ≠ x`) in a configuration whose tree is a forest (every reachable one, by
    `forest_inv`) hangs `x` under `p` and gives every member of `x`'s subtree the root of `p`. -/
theorem register_moves_subtree (c : Cfg) (hF : ForestInv c.st) (x p : Nat) (k : List Frame)
    (hst : c.stack = .register x p :: k) (hx : c.exn = none) (hadm : c.st.admissible x p = true) (hpx : p ≠ x) :
    ((step c).st.comp x).parent = p ∧ x ∈ ((step c).st.comp p).children ∧
    ((step c).st.comp p).root = (c.st.comp p).root ∧
    ∀ d, Sub (step c).st x d → ((step c).st.comp d).root = (c.st.comp p).root := by
  rw [step_register c x p k hst hx hadm]
  exact (register_step_tree hF x p hadm hpx).2

/-- **A detached subtree stays connected.**  The step that runs `_on_prepare_unregister_complete`
    of an attached component `o` removes `o` from its parent's children, makes it its own parent
    and gives every member of `o`'s subtree the root `o`; the tree is a forest again at once. -/
theorem detach_moves_subtree (c : Cfg) (hF : ForestInv c.st) (r h e : Nat) (k : List Frame)
    (hst : c.stack = .invoke r h e :: k) (hx : c.exn = none)
    (hk : (c.st.handler h).kind = HKind.prepUnregComplete)
    (ho : (c.st.handler h).owner < c.st.comps.length)
    (hne : (c.st.comp (c.st.handler h).owner).parent ≠ (c.st.handler h).owner) :
    let o := (c.st.handler h).owner
    ForestInv (step c).st ∧ ((step c).st.comp o).parent = o ∧
    o ∉ ((step c).st.comp (c.st.comp o).parent).children ∧
    ∀ d, Sub (step c).st o d → ((step c).st.comp d).root = o := by
  intro o
  rw [step_detach c r h e k hst hx hk]
  obtain ⟨h1, _, h3, h4, h5⟩ := detach_step_tree (s := c.st.logE (Entry.hinv e 4 o))
    (hF.of_treeEq (TreeEq.logE (TreeEq.refl _) _)) o ho hne
  refine ⟨h1, ?_, ?_, h5⟩
  · rw [h3, if_pos rfl]
  · rw [h4]
    split
    · intro hm
      exact ((hF.childrenNodup _ (hF.parentLt o ho)).mem_erase_iff.mp hm).1 rfl
    · rename_i hh; exact absurd rfl hh

/-- **Announced once (registered).**  The step of frame `.registerFin x` appends exactly one log
    entry: the `fire` of a fresh event named `registered`, on `x`'s channel. -/
theorem announced_registered (c : Cfg) (x : Nat) (k : List Frame)
    (hst : c.stack = .registerFin x :: k) (hx : c.exn = none) :
    (step c).st.log = Entry.fire c.st.evs.length Name.registered [(c.st.comp x).chan] 0 :: c.st.log := by
  rw [step_cons c _ k hst hx]
  exact Cfg.registerFin_log c k x

/-- … and the registering step itself (frame `.register x p`, whatever its outcome) logs nothing:
    one `register` operation contributes exactly the one `registered` of its `.registerFin` step. -/
theorem register_silent (c : Cfg) (x p : Nat) (k : List Frame)
    (hst : c.stack = .register x p :: k) (hx : c.exn = none) : (step c).st.log = c.st.log := by
  rw [step_cons c _ k hst hx]
  exact Cfg.register_log c k x p

/-- **Announced once (unregistered).**  The detaching step appends the handler-invocation entry and
    exactly one `fire`, of a fresh event named `unregistered`. -/
theorem announced_unregistered (c : Cfg) (r h e : Nat) (k : List Frame)
    (hst : c.stack = .invoke r h e :: k) (hx : c.exn = none)
    (hk : (c.st.handler h).kind = HKind.prepUnregComplete) :
    ∃ chans, (step c).st.log =
      Entry.fire c.st.evs.length Name.unregistered chans 0 ::
        Entry.hinv e 4 (c.st.handler h).owner :: c.st.log := by
  rw [step_cons c _ k hst hx]
  exact Cfg.invoke_detach_log c k r h e hk

/-- hypothesis of `announced_only_partial`: no user template is named `registered` / `unregistered`,
    and the session has no timers -/
def InitQuiet (s0 : St) : Prop := TmplOk s0.tmpls ∧ s0.timers = []

/-- **No other source of announcements** (partial).  In a session without timers whose user
    templates do not use the names `registered` / `unregistered`, every step whose top frame is not
    `.registerFin x` or the `.invoke` of an `_on_prepare_unregister_complete` handler appends only
    log entries that are not the `fire` of an event named `registered` / `unregistered`.  With
    `announced_registered`, `register_silent` and `announced_unregistered`: the `fire registered`
    entries of a log are in one-to-one correspondence with the completed registrations (their
    `.registerFin` steps), the `fire unregistered` entries with the detach steps.

    FULL statement: the same with `InitQuiet s0 := TmplOk s0.tmpls ∧ ∀ tm ∈ s0.timers, tm.ev = none`
    (timers allowed).  Obstacle: `Timer._on_generate_events` (`St.timerTick`) fires a STORED event
    object (`tm.ev`), so its name is read from the event table; one needs the additional invariant
    "every stored timer event is in range and carries its template's name, and no `modEv` of the
    model changes a name" - a second pass over all arms with side conditions on `modEv`/`modTimer`,
    not done here.  It is a proof gap, not a counter-example: the harness agrees with the model on
    timer scenarios. -/
theorem announced_only_partial (s0 : St) (hq : InitQuiet s0) (c : Cfg) (hr : Reach s0 c)
    (hf : ∀ f k, c.stack = f :: k → c.exn = none → ¬ f.announces c.st) :
    ∃ es, (step c).st.log = es ++ c.st.log ∧ ∀ x, x ∈ es → ¬ RegFire x := by
  obtain ⟨h1, h2⟩ := reach_tmpls_timers c hr
  refine step_quiet c (h1 ▸ hq.1) ?_ hf
  rw [hq.2] at h2
  exact List.length_eq_zero_iff.mp h2

/-- **Queued events are not lost.**  The registering step appends the deque of the registered
    component to the deque of its new root (as lists: old root queue ++ old child queue) and leaves
    the child's deque empty. -/
theorem queued_not_lost (c : Cfg) (hF : ForestInv c.st) (x p : Nat) (k : List Frame)
    (hst : c.stack = .register x p :: k) (hx : c.exn = none) (hadm : c.st.admissible x p = true) (hpx : p ≠ x) :
    ((step c).st.comp (c.st.comp p).root).eq.queue =
        (c.st.comp (c.st.comp p).root).eq.queue ++ (c.st.comp x).eq.queue ∧
    ((step c).st.comp x).eq.queue = [] := by
  rw [step_register c x p k hst hx hadm]
  rw [St.updateRootAll_eq, St.updateRootAll_eq]
  exact St.registerPre_queue hF x p hadm hpx

/-- **Nothing further from the former tree.**  After the detaching step no member of the detached
    subtree is reachable from the former root through `children` links, … -/
theorem nothing_after_detach (c : Cfg) (hF : ForestInv c.st) (r h e : Nat) (k : List Frame)
    (hst : c.stack = .invoke r h e :: k) (hx : c.exn = none)
    (hk : (c.st.handler h).kind = HKind.prepUnregComplete)
    (ho : (c.st.handler h).owner < c.st.comps.length)
    (hne : (c.st.comp (c.st.handler h).owner).parent ≠ (c.st.handler h).owner) :
    let o := (c.st.handler h).owner
    ∀ d, Sub (step c).st o d → ¬ Sub (step c).st (c.st.comp o).root d := by
  intro o
  rw [step_detach c r h e k hst hx hk]
  exact detach_unreachable (s := c.st.logE (Entry.hinv e 4 o))
    (hF.of_treeEq (TreeEq.logE (TreeEq.refl _) _)) o ho hne

/-- … so `getHandlers` (`collect`) of the former root returns only handlers that match at a
    component outside the detached subtree: whatever the former root dispatches from now on, no
    handler of the detached subtree is among the handlers it computes. -/
theorem nothing_after_detach_handlers (c : Cfg) (hF : ForestInv c.st) (r h e : Nat) (k : List Frame)
    (hst : c.stack = .invoke r h e :: k) (hx : c.exn = none)
    (hk : (c.st.handler h).kind = HKind.prepUnregComplete)
    (ho : (c.st.handler h).owner < c.st.comps.length)
    (hne : (c.st.comp (c.st.handler h).owner).parent ≠ (c.st.handler h).owner)
    (fuel : Nat) (name : Name) (target : Chan) (g : Nat) :
    let o := (c.st.handler h).owner
    g ∈ collect (step c).st fuel (c.st.comp o).root name target →
      ∃ d, matchesAt (step c).st d name target g ∧ ¬ Sub (step c).st o d := by
  intro o
  rw [step_detach c r h e k hst hx hk]
  exact detach_collect (s := c.st.logE (Entry.hinv e 4 o))
    (hF.of_treeEq (TreeEq.logE (TreeEq.refl _) _)) o ho hne fuel name target g

/-! ### non-vacuity of the hypotheses -/

/-- two detached components -/
def exInit : St := { comps := [{ parent := 0, root := 0 }, { parent := 1, root := 1 }] }

example : InitForest exInit := by unfold InitForest; decide

/-- the hypotheses of `register_moves_subtree` / `queued_not_lost` / `register_silent` hold in a
    reachable configuration: one step into `do 0 (reg 1 0)` -/
example : ∃ c, Reach exInit c ∧ ∃ k, c.stack = .register 1 0 :: k ∧ c.exn = none ∧
    c.st.admissible 1 0 = true ∧ (0 : Nat) ≠ 1 :=
  ⟨_, Reach.step (Reach.init 0 [] (.doAct 0 (.reg 1 0))), _, rfl, rfl, by decide, by decide⟩

/-- … and two steps later the hypothesis of `announced_registered` -/
example : ∃ c, Reach exInit c ∧ ∃ k, c.stack = .registerFin 1 :: k ∧ c.exn = none :=
  ⟨_, Reach.step (Reach.step (Reach.init 0 [] (.doAct 0 (.reg 1 0)))), _, rfl, rfl⟩

example : InitQuiet exInit := ⟨fun t ht => (by cases ht), rfl⟩

/-- the frame hypothesis of `announced_only_partial` holds e.g. at the start of every operation -/
example : ∀ f k, (startOf (envChange exInit 0 []) (.tick 0)).stack = f :: k →
    (startOf (envChange exInit 0 []) (.tick 0)).exn = none →
    ¬ f.announces (startOf (envChange exInit 0 []) (.tick 0)).st := by
  intro f k h _
  have : f = .tick 0 := by
    have h' : [Frame.tick 0] = f :: k := h
    injection h' with h1 _
    exact h1.symm
  subst this
  exact fun h => h

/-- component 1 attached under 0, about to run its `_on_prepare_unregister_complete` (handler 0) -/
def exDetach : Cfg :=
  { st := { comps := [{ parent := 0, root := 0, children := [1] }, { parent := 0, root := 0 }],
            hs := [{ owner := 1, names := [], chan := none, kind := .prepUnregComplete }] },
    stack := [.invoke 0 0 0] }

/-- the hypotheses of `detach_moves_subtree` / `announced_unregistered` / `nothing_after_detach` -/
example : ForestInv exDetach.st ∧ exDetach.stack = .invoke 0 0 0 :: [] ∧ exDetach.exn = none ∧
    (exDetach.st.handler 0).kind = HKind.prepUnregComplete ∧
    (exDetach.st.handler 0).owner < exDetach.st.comps.length ∧
    (exDetach.st.comp (exDetach.st.handler 0).owner).parent ≠ (exDetach.st.handler 0).owner := by
  refine ⟨⟨by decide, by decide, ?_, by decide, by decide, ⟨fun c => c, by decide⟩, by decide⟩,
    rfl, rfl, rfl, by decide, by decide⟩
  intro c d hc hd
  have hc' : c = 0 ∨ c = 1 := by change c < 2 at hc; omega
  rcases hc' with rfl | rfl
  · have : d = 1 := by simpa [exDetach, St.comp] using hd
    subst this; decide
  · simp [exDetach, St.comp] at hd

section pending
open CV.Core.C05 CV.Core.Live

/-! ### an unregistration whose closure drains does complete (`pending_resolves`)

`unregister()` sets `_unregister_pending` and fires `prepare_unregister(self)` with
`complete = True`, `complete_channels = (self,)` (`St.unregister`).  C05 counts the event's closure
in `event.effects`; the `_effectDone` iteration that takes the count to 0 fires
`prepare_unregister_complete` to the component; the dispatch of THAT event calls the component's
`_on_prepare_unregister_complete`, whose step is the detach step of `detach_moves_subtree`
(it clears the flag). -/

/-- **A draining unregistration completes** (partial: guarded runs of C05).  `e` is the
    `prepare_unregister` event of component `x` (name, `complete`, `complete_channels = (x,)` as
    `unregister()` builds it), tracked, and this `_effectDone` iteration takes its count to 0.
    Then (a) its closure HAS drained - its own handlers are done and no event is linked under it
    (C05 `complete_only_when_drained_partial`); (b) the step fires exactly one fresh event
    `prepare_unregister_complete` on channel `x`; (c) `e` is untracked afterwards, so this happens
    once.  With C05 `complete_when_quiescent_partial` (a tracked event is never stuck at count 0
    between runs) and `complete_dispatch_detaches` below: once the closure has drained the
    completion event is on its way to the component.

    FULL statement: the same over `Reach`.  (b) and (c) hold from every configuration; (a) is false
    without C05's `Guard` (`pending_resolves_witness`: a handler of the event that runs the task loop
    while a generator handler of the same event is pending makes `_eventDone` go through twice, and
    the `_complete` event - here `prepare_unregister_complete`, hence the detach - comes while an
    event fired by one of its handlers is still being handled).  Known finding of C05. -/
theorem pending_resolves_partial {s0 : St} (h0 : InitEff s0) (c : Cfg) (hr : ReachG s0 c)
    (r e x : Nat) (k : List Frame) (hs : c.stack = .effectDone r e true :: k) (hx : c.exn = none)
    (hname : (c.st.ev e).name = Name.prepareUnregister) (hcomp : (c.st.ev e).complete = true)
    (hch : (c.st.ev e).completeChans = some [.inst x])
    (htr : (c.st.ev e).cause ≠ none) (hz : ¬ ((c.st.ev e).effects - 1 > 0)) :
    ((c.st.ev e).selfDone = true ∧ ∀ y, y ≠ e → (c.st.ev y).cause ≠ some e) ∧
    (step c).st.log =
      Entry.fire c.st.evs.length (Name.prepareUnregister.child sfxComplete) [.inst x] 0 :: c.st.log ∧
    ((step c).st.ev e).cause = none ∧ ((step c).st.ev e).effects = 0 := by
  obtain ⟨P, hP⟩ : ∃ P, (c.st.ev e).cause = some P := by
    cases hh : (c.st.ev e).cause with
    | none => exact absurd hh htr
    | some P => exact ⟨P, rfl⟩
  refine ⟨(reachG_cinv h0 c hr).drained hs htr hz, ?_, ?_⟩
  · rw [step_cons c _ k hs hx]
    show (c.effectDone k r e true).st.log = _
    rw [Cfg.effectDone_st, effectDone1_complete_log c.st r e P hP hz hcomp, hname, hch]
    rfl
  · rw [step_cons c _ k hs hx]
    show ((c.effectDone k r e true).st.ev e).cause = none ∧ ((c.effectDone k r e true).st.ev e).effects = 0
    rw [Cfg.effectDone_st]
    exact St.e5_effectDone1_cleared c.st r e P true hP hz

/-- **The completion event detaches the component.**  `_dispatcher(e)` on a root `r` (reachable
    configuration, `e` not cancelled - in particular the `prepare_unregister_complete` event of
    `pending_resolves_partial`) where `h`, the `_on_prepare_unregister_complete` handler of `x`,
    is registered (it matches `e` at a component of `r`'s tree, C01): if the dispatcher call runs
    to its end then `h` was called on the way - and that call is the detach step: afterwards
    `_unregister_pending` of `x` is cleared - or the event was stopped by a handler of at least
    `h`'s priority (`CutAt`).  The stuck case of DESIGN §6 C07 (the parent was detached first, `x`
    is no longer in the tree of the root that dispatches the event) is exactly the failure of the
    hypothesis `hreg`. -/
theorem complete_dispatch_detaches (s0 : St) (h0 : InitForest s0) (hH : InitHandlers s0)
    (hC : InitCache s0) (c : Cfg) (hc : Reach s0 c) (r e remaining : Nat) (k : List Frame)
    (hst : c.stack = .dispatcher r e remaining :: k) (hx : c.exn = none)
    (hr : (c.st.comp r).root = r) (hcan : (c.st.ev e).cancelled = false)
    (h : Nat) (hk : ((step c).st.handler h).kind = .prepUnregComplete)
    (hreg : ∃ ch, ch ∈ (c.st.ev e).chans ∧ ∃ d, ReachIn (step c).st (step c).st.comps.length r d ∧
      matchesAt (step c).st d (c.st.ev e).name ch h)
    (c' : Cfg) (err' : Bool) (hrun : RunAbove k (step c) c') (hfin : c'.stack = .dispFin r e err' :: k) :
    (∃ c1 k1, RunAbove k (step c) c1 ∧ RunAbove k c1 c' ∧ c1.stack = .invoke r h e :: k1 ∧ c1.exn = none ∧
      (c1.st.handler h).kind = .prepUnregComplete ∧
      ((c1.st.handler h).owner < c1.st.comps.length →
        ((step c1).st.comp (c1.st.handler h).owner).pending = false)) ∨
    CutAt k r e (step c) c' := by
  obtain ⟨hs, h1, h2⟩ := dispatcher_step_live (K.init s0 hH hC)
    (fun c hc => (FInv.reach h0 c hc).forest.cacheFacts) c hc r e remaining k hst hx hr hcan
  have hmem : h ∈ hs := by
    have : h ∈ nonFallback (step c).st hs := by
      rw [h2]; exact (mem_freshHandlers _ _ _ _ _).mpr hreg
    exact (List.mem_filter.mp this).1
  rcases loop_invokes_all h1 hrun hfin h hmem with hcall | hcut
  · obtain ⟨c1, rest, err, stale, r1, r2, hs1, hx1⟩ := hcall
    have hlt : h < (step c).st.hs.length := handler_lt_of_kind (by rw [hk]; intro hh; cases hh)
    have hk1 : (c1.st.handler h).kind = .prepUnregComplete := by rw [(r1.handler_eq hlt).1]; exact hk
    refine .inl ⟨c1, _, r1, r2, hs1, hx1, hk1, ?_⟩
    intro ho
    rw [step_detach c1 r h e _ hs1 hx1 hk1, updateRootAll_pending]
    exact prepUnregPre_pending _ _ ho
  · exact .inr hcut

/-! ### the excluded case of `pending_resolves_partial` is real (model; C05's known finding) -/

/-- Clause (a) with `Reach` in place of `ReachG` is false.  This is C05's witness run (`s0w`,
    `cw2 87`: a handler of the complete-requesting event `foo` fires `bar`, a second one is a
    generator, a third one calls `stop()`, whose inline ticks make `_eventDone(foo)` go through
    twice): the top frame is the `_effectDone` iteration that takes the tracked event `e` to 0
    and fires `e_complete`, while an event `y` is still linked under `e`.  `_eventDone` /
    `_effectDone` never look at the event's name, and `unregister()` builds its
    `prepare_unregister` event as an ordinary complete-requesting event; the same three handlers
    installed for `prepare_unregister` of a child component give the same configuration after the
    same 87 steps of `flush()` (evaluated with `#eval` on the model; the kernel cannot replay THAT
    run, because `unregister()` invalidates the handler cache and the rebuild sorts three handlers
    with `List.mergeSort`, which `decide +kernel` does not unfold - the reason why the witness is
    stated with the name `foo`). -/
theorem pending_resolves_witness : InitEff s0w ∧ ∃ c, Reach s0w c ∧
    ∃ r e a k y, c.stack = .effectDone r e a :: k ∧ c.exn = none ∧ (c.st.ev e).cause ≠ none ∧
      (c.st.ev e).complete = true ∧ a = true ∧ ¬ ((c.st.ev e).effects - 1 > 0) ∧
      y ≠ e ∧ (c.st.ev y).cause = some e :=
  ⟨s0w_init, cw2 87, cw2_reach 87, earlyComplete_spec _ cw2_early⟩

/-! ### non-vacuity of `pending_resolves_partial` / `complete_dispatch_detaches` -/

/-- two detached components; component 1 carries its `_on_prepare_unregister_complete` handler 0 -/
def sQ : St :=
  { comps := [{ parent := 0, root := 0 },
              { parent := 1, root := 1, htab := [(some (Name.prepareUnregister.child sfxComplete), 0)] }],
    hs := [{ owner := 1, names := [Name.prepareUnregister.child sfxComplete], chan := some (.inst 1),
             kind := .prepUnregComplete }] }
abbrev qRun (s : St) (op : ExtOp) (n : Nat) : Cfg := runN n (startOf (envChange s 0 []) op)
/-- `c1.register(c0)`, `flush()`, `c1.unregister()`, `flush()` -/
def q1 : Cfg := qRun sQ (.doAct 0 (.reg 1 0)) 20
def q2 : Cfg := qRun q1.st (.flush 0) 40
def q3 : Cfg := qRun q2.st (.doAct 0 (.unreg 1)) 20
def q4 : Cfg := qRun q3.st (.flush 0) 40
/-- six steps into the flush after `unregister()`: `_effectDone` of the `prepare_unregister` event 1 -/
def qP : Cfg := qRun q3.st (.flush 0) 6
/-- two steps into the next flush: `_dispatcher` of the `prepare_unregister_complete` event 2 -/
def qD : Cfg := qRun q4.st (.flush 0) 2
def qK : List Frame := [.dispatchLoop 0, .flushFin 0 false]

theorem sQ_init : InitEff sQ ∧ InitForest sQ ∧ InitHandlers sQ ∧ InitCache sQ :=
  ⟨⟨rfl, fun _ => rfl⟩, by unfold InitForest; decide +kernel,
   plain_tables_of_bounded _ (by decide +kernel), caches_empty_of_bounded _ (by decide +kernel)⟩

theorem q3_reachG : ReachG sQ q3 := by
  have g1 : ReachG sQ q1 := ReachG.runN 20 (.init 0 [] _) (by decide +kernel)
  have g2 : ReachG sQ q2 := ReachG.runN 40 (.next 0 [] _ g1 (by decide +kernel)) (by decide +kernel)
  exact ReachG.runN 20 (.next 0 [] _ g2 (by decide +kernel)) (by decide +kernel)

/-- all hypotheses of `pending_resolves_partial` hold on a guarded run -/
example : InitEff sQ ∧ ReachG sQ qP ∧ qP.stack = .effectDone 0 1 true :: qK ∧ qP.exn = none ∧
    (qP.st.ev 1).name = Name.prepareUnregister ∧ (qP.st.ev 1).complete = true ∧
    (qP.st.ev 1).completeChans = some [.inst 1] ∧ (qP.st.ev 1).cause ≠ none ∧
    ¬ ((qP.st.ev 1).effects - 1 > 0) :=
  ⟨sQ_init.1, ReachG.runN 6 (.next 0 [] _ q3_reachG (by decide +kernel)) (by decide +kernel),
   by decide +kernel, by decide +kernel, by decide +kernel, by decide +kernel, by decide +kernel,
   by decide +kernel, by decide +kernel⟩

theorem qD_reach : Reach sQ qD := by
  have h4 : Reach sQ q4 := Reach.runN (.next 0 [] _ q3_reachG.reach (by decide +kernel)) 40
  exact Reach.runN (.next 0 [] _ h4 (by decide +kernel)) 2

/-- all hypotheses of `complete_dispatch_detaches` hold in a reachable configuration -/
example : Reach sQ qD ∧ qD.stack = .dispatcher 0 2 0 :: qK ∧ qD.exn = none ∧
    (qD.st.comp 0).root = 0 ∧ (qD.st.ev 2).cancelled = false ∧
    ((step qD).st.handler 0).kind = .prepUnregComplete ∧
    (∃ ch, ch ∈ (qD.st.ev 2).chans ∧ ∃ d, ReachIn (step qD).st (step qD).st.comps.length 0 d ∧
      matchesAt (step qD).st d (qD.st.ev 2).name ch 0) ∧
    RunAbove qK (step qD) (runN 6 (step qD)) ∧ (runN 6 (step qD)).stack = .dispFin 0 2 false :: qK := by
  refine ⟨qD_reach, by decide +kernel, by decide +kernel, by decide +kernel, by decide +kernel,
    by decide +kernel, ⟨.inst 1, by decide +kernel, 1, ?_, ?_⟩, ?_, by decide +kernel⟩
  · have hl : (step qD).st.comps.length = 1 + 1 := by decide +kernel
    rw [hl]
    exact .step 1 0 1 1 (by decide +kernel) (.here 1 1)
  · unfold matchesAt installedFor; decide +kernel
  · exact RunAbove.ofRunN 6 (.refl (above_of_B (by decide +kernel))) (by decide +kernel)

end pending

end CV.C07

import CV.Model.Core.Machine
namespace CV.C07
theorem placeholder : True := trivial
end CV.C07

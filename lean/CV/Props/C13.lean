import CV.Proofs.HttpServer
import CV.Model.HttpSpec
/-
C13 - HTTP requests are parsed identically however the stream is segmented.

All theorems are for every instantiation `lex` of the lexical leaf functions, every parser
state / message / list of read segments (no size bounds).  "Clean" = the one-piece run
raises neither the ghost flag `over` (a byte beyond the end of the message was read: the
stream is not a single message - pipelining, excess body) nor a parser error nor a Python
exception; the driver evaluates this hypothesis on every generated message.

OPEN (stated, not proved; evaluated by the driver on every generated message, histograms
`model_clean`, `reading_model`, `reading_impl`):
    wellformed_clean : isReading lex k msg fl hb body = true →
        (∀ l n, rfcChunkSize l = some n → lex.chunk l = some n) →
        let p := exec lex (init k) msg
        p.core.bad = false ∧ p.core.complete = true ∧
        p.core.firstLine = some fl ∧ p.core.hdrBlock = hb ∧ p.core.body = body
i.e. every message that the RFC-derived decomposition `isReading` (CV/Model/HttpSpec.lean)
accepts satisfies the cleanliness hypothesis of the theorems below and is read as that
decomposition.  Until it is proved, the link "grammar-well-formed => clean" rests on the run.
-/
namespace CV.C13
open CV.Http

/-- a toy instantiation of the lexers for the non-vacuity examples: every first line is an
    HTTP/1.1 request line, header block `[72]` ("H") = no framing headers + Host,
    `[67]` ("C") = Content-Length: 2 + Host, `[84]` ("T") = chunked + Host -/
def toyLex : Lex where
  first _ _ := some ⟨1, 1, none⟩
  hdrs b := if b = [72] then some ⟨.absent, false, true, false⟩
            else if b = [67] then some ⟨.val 2, false, true, false⟩
            else if b = [84] then some ⟨.absent, true, true, false⟩
            else none
  chunk l := if l = [50] then some 2 else if l = [48] then some 0 else none
  pathOk _ _ := true

/-- `G CRLF C CRLF CRLF a b` : a request with Content-Length: 2 -/
def toyMsg : Bytes := [71, 13, 10, 67, 13, 10, 13, 10, 97, 98]
/-- cut between CR and LF of the first line, inside CRLF CRLF, inside the body -/
def toySegs : List Bytes := [[71, 13], [10, 67, 13, 10, 13], [10, 97], [98]]
/-- `G CRLF T CRLF CRLF 2 CRLF a b CRLF 0 CRLF CRLF` : a chunked request -/
def toyChunked : Bytes := [71, 13, 10, 84, 13, 10, 13, 10, 50, 13, 10, 97, 98, 13, 10, 48, 13, 10, 13, 10]

/-- **Framing homomorphism.**  Delivering `a` and then `b` leaves the parser in exactly the state
    (phase flags, errno, lexed first line and header block, framing, body so far, carry-over
    buffer) that delivering `a ++ b` does - whenever the one-piece run is clean. -/
theorem exec_hom (lex : Lex) (s : PState) (a b : Bytes) (hwf : WF s.core) (ha : a ≠ []) (hb : b ≠ [])
    (hclean : (exec lex s (a ++ b)).core.bad = false) :
    exec lex (exec lex s a) b = exec lex s (a ++ b) :=
  Http.exec_hom lex s a b hwf ha hb hclean

example : WF (init .request).core ∧
    (exec toyLex (init .request) ([71, 13] ++ [10, 67, 13, 10, 13, 10, 97, 98])).core.bad = false :=
  ⟨by unfold WF; simp [init], by decide⟩

/-- **Segmentation invariance of the parser** (requests and responses): every way of cutting a
    clean stream into non-empty reads - including byte-at-a-time - ends in the state of
    one-piece delivery. -/
theorem segmentation_invariant (lex : Lex) (k : Kind) (segs : List Bytes)
    (hne : ∀ d ∈ segs, d ≠ []) (hs : segs ≠ [])
    (hclean : (exec lex (init k) segs.flatten).core.bad = false) :
    execAll lex (init k) segs = exec lex (init k) segs.flatten :=
  execAll_eq lex (init k) segs (by unfold WF; simp [init]) hne hs hclean

example : (∀ d ∈ toySegs, d ≠ []) ∧ toySegs ≠ [] ∧
    (exec toyLex (init .request) toySegs.flatten).core.bad = false ∧
    (exec toyLex (init .request) toySegs.flatten).core.complete = true ∧
    (exec toyLex (init .request) toySegs.flatten).core.body = [97, 98] := by
  decide

/-- **One request, at the read that delivers the last byte.**  On a fresh connection, if
    one-piece delivery of a clean request stream makes `_on_read` fire the `request` event
    (first line `fl`, header block `hb`, body `body`), then every segmentation makes every read
    but the last do nothing and the last read fire exactly that event, leaving the same table
    entries (`_buffers[sock]` deleted, `_clients[sock]` = the request). -/
theorem one_request (lex : Lex) (secure : Bool) (segs : List Bytes)
    (hne : ∀ d ∈ segs, d ≠ []) (hs : segs ≠ [])
    (hclean : (exec lex (init .request) segs.flatten).core.bad = false)
    (hst : (exec lex (init .request) segs.flatten).core.status = none)
    (cn1 : Conn) (fl : Bytes) (hb : Option Bytes) (body : Bytes)
    (hone : connRead lex secure {} segs.flatten = (cn1, .request fl hb body)) :
    connReadAll lex secure {} segs =
      (cn1, List.replicate (segs.length - 1) .wait ++ [.request fl hb body]) := by
  cases segs with
  | nil => exact absurd rfl hs
  | cons a rest =>
    have ha : a ≠ [] := hne a (by simp)
    -- the one-piece read was not taken for a TLS handshake, so neither is the first segment
    have hssl : (sslHandshake (a :: rest).flatten && !secure) = false := by
      cases h : (sslHandshake (a :: rest).flatten && !secure) with
      | false => rfl
      | true =>
        have e : connRead lex secure {} (a :: rest).flatten = ({}, .closeSsl) := by
          show (if (sslHandshake (a :: rest).flatten && !secure) = true then _ else _) = _
          rw [if_pos h]
        rw [e] at hone; cases hone
    have hssl' : (sslHandshake a && !secure) = false := by
      cases hsec : secure with
      | true => simp
      | false =>
        simp only [hsec, Bool.not_false, Bool.and_true] at hssl ⊢
        rw [List.flatten_cons] at hssl
        exact ssl_prefix a _ ha hssl
    have hone' : afterExec lex ⟨some (init .request), none⟩ (exec lex (init .request) (a :: rest).flatten) =
        (cn1, .request fl hb body) := by
      have e : connRead lex secure {} (a :: rest).flatten =
          afterExec lex {} (exec lex (init .request) (a :: rest).flatten) := by
        show (if (sslHandshake (a :: rest).flatten && !secure) = true then _ else _) = _
        rw [hssl]; rfl
      rw [e] at hone
      exact hone
    have key := conn_segments lex secure (a :: rest) (init .request) none (by unfold WF; simp [init])
      ⟨fun _ => ⟨rfl, rfl⟩, fun h => by (simp [init] at h)⟩ (fun r h => by cases h) hne hs hclean hst
      cn1 fl hb body hone'
    have first : connRead lex secure {} a = connRead lex secure ⟨some (init .request), none⟩ a := by
      show (if (sslHandshake a && !secure) = true then _ else _) = _
      rw [hssl']; rfl
    rw [connReadAll] at key ⊢
    rw [first]
    exact key

example : (exec toyLex (init .request) toySegs.flatten).core.status = none ∧
    connRead toyLex false {} toySegs.flatten =
      (⟨none, some ⟨[71], ⟨1, 1, none⟩, some [67], ⟨.val 2, false, true, false⟩⟩⟩,
       .request [71] (some [67]) [97, 98]) := by
  decide

/-- serve successive messages on one connection: all reads of a message, then its response -/
def serveAll (lex : Lex) (secure : Bool) (cn : Conn) : List (List Bytes) → Conn × List (List Out)
  | [] => (cn, [])
  | segs :: more =>
    let (c1, os) := connReadAll lex secure cn segs
    let (c2, oss) := serveAll lex secure (connResponded c1) more
    (c2, os :: oss)

/-- what `one_request` assumes of one message and its segmentation -/
def CleanRequest (lex : Lex) (secure : Bool) (segs : List Bytes) (fl : Bytes) (hb : Option Bytes)
    (body : Bytes) : Prop :=
  (∀ d ∈ segs, d ≠ []) ∧ segs ≠ [] ∧
  (exec lex (init .request) segs.flatten).core.bad = false ∧
  (exec lex (init .request) segs.flatten).core.status = none ∧
  ∃ cn1, connRead lex secure {} segs.flatten = (cn1, .request fl hb body)

/-- **Keep-alive sequences.**  Successive requests on one connection, each following the previous
    response (no pipelining), each cut into reads in any way: every request is seen exactly once,
    at its last read, exactly as in one-piece delivery, and the connection's table entries are
    empty again after each response. -/
theorem keepalive_sequence (lex : Lex) (secure : Bool)
    (msgs : List (List Bytes × Bytes × Option Bytes × Bytes))
    (h : ∀ m ∈ msgs, CleanRequest lex secure m.1 m.2.1 m.2.2.1 m.2.2.2) :
    serveAll lex secure {} (msgs.map (·.1)) =
      ({}, msgs.map fun m => List.replicate (m.1.length - 1) .wait ++ [.request m.2.1 m.2.2.1 m.2.2.2]) := by
  induction msgs with
  | nil => rfl
  | cons m more ih =>
    obtain ⟨hne, hs, hclean, hst, cn1, hone⟩ := h m (by simp)
    have h1 := one_request lex secure m.1 hne hs hclean hst cn1 _ _ _ hone
    obtain ⟨_, _, req, _, _, hcn, _⟩ := afterExec_fire (cn := {}) (p := exec lex (init .request) m.1.flatten)
      (by
        have hh : (sslHandshake m.1.flatten && !secure) = false := by
          cases hh : (sslHandshake m.1.flatten && !secure) with
          | false => rfl
          | true =>
            have e : connRead lex secure {} m.1.flatten = ({}, .closeSsl) := by
              show (if (sslHandshake m.1.flatten && !secure) = true then _ else _) = _
              rw [if_pos hh]
            rw [e] at hone; cases hone
        have e : connRead lex secure {} m.1.flatten =
            afterExec lex {} (exec lex (init .request) m.1.flatten) := by
          show (if (sslHandshake m.1.flatten && !secure) = true then _ else _) = _
          rw [hh]; rfl
        rw [e] at hone
        exact hone)
    have hresp : connResponded cn1 = {} := by rw [hcn]; rfl
    simp only [List.map_cons, serveAll, h1, hresp]
    rw [ih (fun m' hm' => h m' (List.mem_cons_of_mem _ hm'))]

example : CleanRequest toyLex false toySegs [71] (some [67]) [97, 98] :=
  ⟨by decide, by decide, by decide, by decide,
   ⟨none, some ⟨[71], ⟨1, 1, none⟩, some [67], ⟨.val 2, false, true, false⟩⟩⟩, by decide⟩

/-- the `response` event `_on_client_read` fires for parser state `q`, if any -/
def clientOut (q : PState) : PState × Option Resp :=
  if clientFires q.core then (init .response, some ⟨q.core.firstLine, q.core.hdrBlock, q.core.body⟩) else (q, none)

/-- no read before the last one makes the client component fire -/
def QuietPrefixes (lex : Lex) (p : PState) (segs : List Bytes) : Prop :=
  ∀ k, 0 < k → k < segs.length → clientFires (execAll lex p (segs.take k)).core = false

/-- **Client side (partial).**  For a clean response stream, every segmentation in which no read
    before the last one triggers the `response` event yields exactly the `response` event (or the
    silence) of one-piece delivery, at the last read, and the same parser afterwards.

    OPEN (not proved; validated by the correspondence on every generated response): the hypothesis
    `QuietPrefixes` follows from cleanliness for responses without `Connection: upgrade` - it needs
    the client-side analogue of the server invariant `Http.Inv` (headers complete, not complete =>
    `_clen != 0` and no upgrade).  `client_upgrade_witness` shows that the hypothesis cannot simply
    be dropped: an Upgrade response with a body is delivered differently when cut after the headers. -/
theorem client_response_partial (lex : Lex) (segs : List Bytes)
    (hne : ∀ d ∈ segs, d ≠ []) (hs : segs ≠ [])
    (hclean : (exec lex (init .response) segs.flatten).core.bad = false)
    (hq : QuietPrefixes lex (init .response) segs) :
    clientAll lex (init .response) segs =
      ((clientRead lex (init .response) segs.flatten).1,
       List.replicate (segs.length - 1) none ++ [(clientRead lex (init .response) segs.flatten).2]) := by
  have gen : ∀ (segs : List Bytes) (p : PState), segs ≠ [] → QuietPrefixes lex p segs →
      clientAll lex p segs =
        ((clientOut (execAll lex p segs)).1,
         List.replicate (segs.length - 1) none ++ [(clientOut (execAll lex p segs)).2]) := by
    intro segs
    induction segs with
    | nil => intro p h; exact absurd rfl h
    | cons a rest ih =>
      intro p _ hq
      cases rest with
      | nil =>
        simp [clientAll, clientRead, execAll, clientOut]
        exact ⟨rfl, rfl⟩
      | cons b rest' =>
        have h1 : clientFires (exec lex p a).core = false := by
          have := hq 1 (by omega) (by simp)
          simpa [execAll] using this
        have hq' : QuietPrefixes lex (exec lex p a) (b :: rest') := by
          intro k hk0 hk
          have := hq (k + 1) (by omega) (by simp at hk ⊢; omega)
          simpa [execAll] using this
        have e1 : clientRead lex p a = (exec lex p a, none) := by
          simp [clientRead, h1]
        rw [clientAll, e1]
        dsimp only
        rw [ih (exec lex p a) (by simp) hq']
        simp [execAll, List.replicate_succ]
  rw [gen segs _ hs hq, segmentation_invariant lex .response segs hne hs hclean]
  simp only [clientRead, clientOut]

/-- an Upgrade response with Content-Length 2 (toy lexer: every header block announces it) -/
def upgLex : Lex where
  first _ _ := some ⟨1, 1, some 101⟩
  hdrs _ := some ⟨.val 2, false, false, true⟩
  chunk _ := none
  pathOk _ _ := true

/-- one-piece delivery fires the response with body `ab`; cut after the headers it is fired with an
    empty body and the two body bytes start a new (never completed) message -/
theorem client_upgrade_witness :
    (clientAll upgLex (init .response) [[83, 13, 10, 85, 13, 10, 13, 10, 97, 98]]).2 =
      [some ⟨some [83], some [85], [97, 98]⟩] ∧
    (clientAll upgLex (init .response) [[83, 13, 10, 85, 13, 10, 13, 10], [97, 98]]).2 =
      [some ⟨some [83], some [85], []⟩, none] := by
  decide

example : (∀ d ∈ toySegs, d ≠ []) ∧ QuietPrefixes toyLex (init .response) toySegs ∧
    (exec toyLex (init .response) toySegs.flatten).core.bad = false := by
  refine ⟨by decide, ?_, by decide⟩
  intro k h0 hk
  have : k = 1 ∨ k = 2 ∨ k = 3 := by simp [toySegs] at hk; omega
  rcases this with rfl | rfl | rfl <;> decide

end CV.C13

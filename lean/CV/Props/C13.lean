import CV.Proofs.HttpServer
import CV.Model.HttpSpec
import CV.Proofs.HttpWf4
import CV.Proofs.HttpLex
import CV.Proofs.HttpLexRound
import CV.Proofs.HttpClient
import CV.Proofs.HttpPipe
/-
C13 - HTTP requests are parsed identically however the stream is segmented.

All theorems are for every instantiation `lex` of the lexical leaf functions, every parser
state / message / list of read segments (no size bounds).  "Clean" = the one-piece run
raises neither the ghost flag `over` (a byte beyond the end of the message was read: the
stream is not a single message - pipelining, excess body) nor a parser error nor a Python
exception; the driver evaluates this hypothesis on every generated message.

`wellformed_clean_partial` (formerly OPEN) links the RFC-derived decomposition `isReading`
(CV/Model/HttpSpec.lean) to the cleanliness hypothesis of the segmentation theorems: every message
it accepts is read by `exec lex (init k) msg` as exactly that decomposition, complete and clean.
It needs one constraint on the lexer parameter that the OPEN statement did not have - a request
line carries no status code (`_parse_request_line` never sets `_status`) - see
`wellformed_clean_witness`.  `wellformed_one_request` / `wellformed_one_response` are the
property-level corollaries (every RFC-well-formed message, every segmentation, one event with the
fields of the decomposition at the last read); `client_early_iff` says exactly when the client
component fires before the end of a clean stream (Upgrade headers complete), and
`client_response_no_upgrade` is the client statement without the `QuietPrefixes` hypothesis.
-/
namespace CV.C13
open CV.Http

/-- a toy instantiation of the lexers for the non-vacuity examples: every first line is an
    HTTP/1.1 request line, header block `[72]` ("H") = no framing headers + Host,
    `[67]` ("C") = Content-Length: 2 + Host, `[84]` ("T") = chunked + Host -/
def toyLex : Lex where
  first _ _ := some ⟨1, 1, none⟩
  hdrs b := if b = [72] then some ⟨.absent, false, true, false⟩
            else if b = [67] then some ⟨.val 2, false, true, false⟩
            else if b = [84] then some ⟨.absent, true, true, false⟩
            else none
  chunk l := if l = [50] then some 2 else if l = [48] then some 0 else none
  pathOk _ _ := true

/-- `G CRLF C CRLF CRLF a b` : a request with Content-Length: 2 -/
def toyMsg : Bytes := [71, 13, 10, 67, 13, 10, 13, 10, 97, 98]
/-- cut between CR and LF of the first line, inside CRLF CRLF, inside the body -/
def toySegs : List Bytes := [[71, 13], [10, 67, 13, 10, 13], [10, 97], [98]]
/-- `G CRLF T CRLF CRLF 2 CRLF a b CRLF 0 CRLF CRLF` : a chunked request -/
def toyChunked : Bytes := [71, 13, 10, 84, 13, 10, 13, 10, 50, 13, 10, 97, 98, 13, 10, 48, 13, 10, 13, 10]

/-- **Framing homomorphism.**  Delivering `a` and then `b` leaves the parser in exactly the state
    (phase flags, errno, lexed first line and header block, framing, body so far, carry-over
    buffer) that delivering `a ++ b` does - whenever the one-piece run is clean. -/
theorem exec_hom (lex : Lex) (s : PState) (a b : Bytes) (hwf : WF s.core) (ha : a ≠ []) (hb : b ≠ [])
    (hclean : (exec lex s (a ++ b)).core.bad = false) :
    exec lex (exec lex s a) b = exec lex s (a ++ b) :=
  Http.exec_hom lex s a b hwf ha hb hclean

example : WF (init .request).core ∧
    (exec toyLex (init .request) ([71, 13] ++ [10, 67, 13, 10, 13, 10, 97, 98])).core.bad = false :=
  ⟨by unfold WF; simp [init], by decide⟩

/-- **Segmentation invariance of the parser** (requests and responses): every way of cutting a
    clean stream into non-empty reads - including byte-at-a-time - ends in the state of
    one-piece delivery. -/
theorem segmentation_invariant (lex : Lex) (k : Kind) (segs : List Bytes)
    (hne : ∀ d ∈ segs, d ≠ []) (hs : segs ≠ [])
    (hclean : (exec lex (init k) segs.flatten).core.bad = false) :
    execAll lex (init k) segs = exec lex (init k) segs.flatten :=
  execAll_eq lex (init k) segs (by unfold WF; simp [init]) hne hs hclean

example : (∀ d ∈ toySegs, d ≠ []) ∧ toySegs ≠ [] ∧
    (exec toyLex (init .request) toySegs.flatten).core.bad = false ∧
    (exec toyLex (init .request) toySegs.flatten).core.complete = true ∧
    (exec toyLex (init .request) toySegs.flatten).core.body = [97, 98] := by
  decide

/-- **One request, at the read that delivers the last byte.**  On a fresh connection, if
    one-piece delivery of a clean request stream makes `_on_read` fire the `request` event
    (first line `fl`, header block `hb`, body `body`), then every segmentation makes every read
    but the last do nothing and the last read fire exactly that event, leaving the same table
    entries (`_buffers[sock]` deleted, `_clients[sock]` = the request). -/
theorem one_request (lex : Lex) (secure : Bool) (segs : List Bytes)
    (hne : ∀ d ∈ segs, d ≠ []) (hs : segs ≠ [])
    (hclean : (exec lex (init .request) segs.flatten).core.bad = false)
    (hst : (exec lex (init .request) segs.flatten).core.status = none)
    (cn1 : Conn) (fl : Bytes) (hb : Option Bytes) (body : Bytes)
    (hone : connRead lex secure {} segs.flatten = (cn1, .request fl hb body)) :
    connReadAll lex secure {} segs =
      (cn1, List.replicate (segs.length - 1) .wait ++ [.request fl hb body]) := by
  cases segs with
  | nil => exact absurd rfl hs
  | cons a rest =>
    have ha : a ≠ [] := hne a (by simp)
    -- the one-piece read was not taken for a TLS handshake, so neither is the first segment
    have hssl : (sslHandshake (a :: rest).flatten && !secure) = false := by
      cases h : (sslHandshake (a :: rest).flatten && !secure) with
      | false => rfl
      | true =>
        have e : connRead lex secure {} (a :: rest).flatten = ({}, .closeSsl) := by
          show (if (sslHandshake (a :: rest).flatten && !secure) = true then _ else _) = _
          rw [if_pos h]
        rw [e] at hone; cases hone
    have hssl' : (sslHandshake a && !secure) = false := by
      cases hsec : secure with
      | true => simp
      | false =>
        simp only [hsec, Bool.not_false, Bool.and_true] at hssl ⊢
        rw [List.flatten_cons] at hssl
        exact ssl_prefix a _ ha hssl
    have hone' : afterExec lex ⟨some (init .request), none⟩ (exec lex (init .request) (a :: rest).flatten) =
        (cn1, .request fl hb body) := by
      have e : connRead lex secure {} (a :: rest).flatten =
          afterExec lex {} (exec lex (init .request) (a :: rest).flatten) := by
        show (if (sslHandshake (a :: rest).flatten && !secure) = true then _ else _) = _
        rw [hssl]; rfl
      rw [e] at hone
      exact hone
    have key := conn_segments lex secure (a :: rest) (init .request) none (by unfold WF; simp [init])
      ⟨fun _ => ⟨rfl, rfl⟩, fun h => by (simp [init] at h)⟩ (fun r h => by cases h) hne hs hclean hst
      cn1 fl hb body hone'
    have first : connRead lex secure {} a = connRead lex secure ⟨some (init .request), none⟩ a := by
      show (if (sslHandshake a && !secure) = true then _ else _) = _
      rw [hssl']; rfl
    rw [connReadAll] at key ⊢
    rw [first]
    exact key

example : (exec toyLex (init .request) toySegs.flatten).core.status = none ∧
    connRead toyLex false {} toySegs.flatten =
      (⟨none, some ⟨[71], ⟨1, 1, none⟩, some [67], ⟨.val 2, false, true, false⟩⟩⟩,
       .request [71] (some [67]) [97, 98]) := by
  decide

/-- serve successive messages on one connection: all reads of a message, then its response -/
def serveAll (lex : Lex) (secure : Bool) (cn : Conn) : List (List Bytes) → Conn × List (List Out)
  | [] => (cn, [])
  | segs :: more =>
    let (c1, os) := connReadAll lex secure cn segs
    let (c2, oss) := serveAll lex secure (connResponded c1) more
    (c2, os :: oss)

/-- what `one_request` assumes of one message and its segmentation -/
def CleanRequest (lex : Lex) (secure : Bool) (segs : List Bytes) (fl : Bytes) (hb : Option Bytes)
    (body : Bytes) : Prop :=
  (∀ d ∈ segs, d ≠ []) ∧ segs ≠ [] ∧
  (exec lex (init .request) segs.flatten).core.bad = false ∧
  (exec lex (init .request) segs.flatten).core.status = none ∧
  ∃ cn1, connRead lex secure {} segs.flatten = (cn1, .request fl hb body)

/-- **Keep-alive sequences.**  Successive requests on one connection, each following the previous
    response (no pipelining), each cut into reads in any way: every request is seen exactly once,
    at its last read, exactly as in one-piece delivery, and the connection's table entries are
    empty again after each response. -/
theorem keepalive_sequence (lex : Lex) (secure : Bool)
    (msgs : List (List Bytes × Bytes × Option Bytes × Bytes))
    (h : ∀ m ∈ msgs, CleanRequest lex secure m.1 m.2.1 m.2.2.1 m.2.2.2) :
    serveAll lex secure {} (msgs.map (·.1)) =
      ({}, msgs.map fun m => List.replicate (m.1.length - 1) .wait ++ [.request m.2.1 m.2.2.1 m.2.2.2]) := by
  induction msgs with
  | nil => rfl
  | cons m more ih =>
    obtain ⟨hne, hs, hclean, hst, cn1, hone⟩ := h m (by simp)
    have h1 := one_request lex secure m.1 hne hs hclean hst cn1 _ _ _ hone
    obtain ⟨_, _, req, _, _, hcn, _⟩ := afterExec_fire (cn := {}) (p := exec lex (init .request) m.1.flatten)
      (by
        have hh : (sslHandshake m.1.flatten && !secure) = false := by
          cases hh : (sslHandshake m.1.flatten && !secure) with
          | false => rfl
          | true =>
            have e : connRead lex secure {} m.1.flatten = ({}, .closeSsl) := by
              show (if (sslHandshake m.1.flatten && !secure) = true then _ else _) = _
              rw [if_pos hh]
            rw [e] at hone; cases hone
        have e : connRead lex secure {} m.1.flatten =
            afterExec lex {} (exec lex (init .request) m.1.flatten) := by
          show (if (sslHandshake m.1.flatten && !secure) = true then _ else _) = _
          rw [hh]; rfl
        rw [e] at hone
        exact hone)
    have hresp : connResponded cn1 = {} := by rw [hcn]; rfl
    simp only [List.map_cons, serveAll, h1, hresp]
    rw [ih (fun m' hm' => h m' (List.mem_cons_of_mem _ hm'))]

example : CleanRequest toyLex false toySegs [71] (some [67]) [97, 98] :=
  ⟨by decide, by decide, by decide, by decide,
   ⟨none, some ⟨[71], ⟨1, 1, none⟩, some [67], ⟨.val 2, false, true, false⟩⟩⟩, by decide⟩

/-- the `response` event `_on_client_read` fires for parser state `q`, if any -/
def clientOut (q : PState) : PState × Option Resp :=
  if clientFires q.core then (init .response, some ⟨q.core.firstLine, q.core.hdrBlock, q.core.body⟩) else (q, none)

/-- no read before the last one makes the client component fire -/
def QuietPrefixes (lex : Lex) (p : PState) (segs : List Bytes) : Prop :=
  ∀ k, 0 < k → k < segs.length → clientFires (execAll lex p (segs.take k)).core = false

/-- **Client side (partial).**  For a clean response stream, every segmentation in which no read
    before the last one triggers the `response` event yields exactly the `response` event (or the
    silence) of one-piece delivery, at the last read, and the same parser afterwards.

    The hypothesis `QuietPrefixes` follows from cleanliness for responses that are not an Upgrade:
    `client_response_no_upgrade` below (`client_early_iff` characterises the early firing).
    `client_upgrade_witness` shows that the hypothesis cannot simply be dropped: an Upgrade
    response with a body is delivered differently when cut after the headers. -/
theorem client_response_partial (lex : Lex) (segs : List Bytes)
    (hne : ∀ d ∈ segs, d ≠ []) (hs : segs ≠ [])
    (hclean : (exec lex (init .response) segs.flatten).core.bad = false)
    (hq : QuietPrefixes lex (init .response) segs) :
    clientAll lex (init .response) segs =
      ((clientRead lex (init .response) segs.flatten).1,
       List.replicate (segs.length - 1) none ++ [(clientRead lex (init .response) segs.flatten).2]) := by
  have gen : ∀ (segs : List Bytes) (p : PState), segs ≠ [] → QuietPrefixes lex p segs →
      clientAll lex p segs =
        ((clientOut (execAll lex p segs)).1,
         List.replicate (segs.length - 1) none ++ [(clientOut (execAll lex p segs)).2]) := by
    intro segs
    induction segs with
    | nil => intro p h; exact absurd rfl h
    | cons a rest ih =>
      intro p _ hq
      cases rest with
      | nil =>
        simp [clientAll, clientRead, execAll, clientOut]
        exact ⟨rfl, rfl⟩
      | cons b rest' =>
        have h1 : clientFires (exec lex p a).core = false := by
          have := hq 1 (by omega) (by simp)
          simpa [execAll] using this
        have hq' : QuietPrefixes lex (exec lex p a) (b :: rest') := by
          intro k hk0 hk
          have := hq (k + 1) (by omega) (by simp at hk ⊢; omega)
          simpa [execAll] using this
        have e1 : clientRead lex p a = (exec lex p a, none) := by
          simp [clientRead, h1]
        rw [clientAll, e1]
        dsimp only
        rw [ih (exec lex p a) (by simp) hq']
        simp [execAll, List.replicate_succ]
  rw [gen segs _ hs hq, segmentation_invariant lex .response segs hne hs hclean]
  simp only [clientRead, clientOut]

/-- an Upgrade response with Content-Length 2 (toy lexer: every header block announces it) -/
def upgLex : Lex where
  first _ _ := some ⟨1, 1, some 101⟩
  hdrs _ := some ⟨.val 2, false, false, true⟩
  chunk _ := none
  pathOk _ _ := true

/-- one-piece delivery fires the response with body `ab`; cut after the headers it is fired with an
    empty body and the two body bytes start a new (never completed) message -/
theorem client_upgrade_witness :
    (clientAll upgLex (init .response) [[83, 13, 10, 85, 13, 10, 13, 10, 97, 98]]).2 =
      [some ⟨some [83], some [85], [97, 98]⟩] ∧
    (clientAll upgLex (init .response) [[83, 13, 10, 85, 13, 10, 13, 10], [97, 98]]).2 =
      [some ⟨some [83], some [85], []⟩, none] := by
  decide

example : (∀ d ∈ toySegs, d ≠ []) ∧ QuietPrefixes toyLex (init .response) toySegs ∧
    (exec toyLex (init .response) toySegs.flatten).core.bad = false := by
  refine ⟨by decide, ?_, by decide⟩
  intro k h0 hk
  have : k = 1 ∨ k = 2 ∨ k = 3 := by simp [toySegs] at hk; omega
  rcases this with rfl | rfl | rfl <;> decide

/-! ### RFC-well-formed messages are clean, and what follows from it -/

/-- a lexer instantiation for the non-vacuity examples below whose chunk-size reader is the RFC
    one (`toyLex` otherwise) -/
def rfcLex : Lex := { toyLex with chunk := rfcChunkSize }

/-- **Well-formed => clean (partial: one constraint on the lexer parameter).**  Every message that
    the RFC-derived decomposition `isReading` accepts as (first line `fl`, header block `hb`,
    body `body`) is read by the parser model, delivered in one piece, as exactly that: complete,
    no parser error, no Python exception, no byte beyond the message read (`over`), and the byte
    strings handed to the lexers are `fl` and `hb`, the body delivered is `body`.

    Hypotheses on the lexer parameter: `hchunk` - the chunk-size reader accepts what RFC 7230 4.1
    accepts, with the same value (as in the OPEN statement); `hreq` - extra: the request-line lexer
    yields no status code.  Full statement = without `hreq`; it is false for a (nonsensical)
    lexer whose request lines carry a status, see `wellformed_clean_witness`.  The real
    `_parse_request_line` never sets `_status`/`_status_code`, so `hreq` holds of the code by
    construction; it is not a restriction on messages. -/
theorem wellformed_clean_partial (lex : Lex) (k : Kind) (msg fl : Bytes) (hb : Option Bytes) (body : Bytes)
    (hr : isReading lex k msg fl hb body = true)
    (hchunk : ∀ l n, rfcChunkSize l = some n → lex.chunk l = some n)
    (hreq : k = .request → ∀ f, lex.first .request fl = some f → f.status = none) :
    let p := exec lex (init k) msg
    p.core.bad = false ∧ p.core.complete = true ∧
    p.core.firstLine = some fl ∧ p.core.hdrBlock = hb ∧ p.core.body = body := by
  obtain ⟨f, h, _, _, hp⟩ := wf13_exec lex k msg fl hb body hr hchunk
    (fun hk f hf => hreq hk f (by rw [← hk]; exact hf))
  exact ⟨hp.bad, hp.complete, hp.firstLine, hp.hdrBlock, hp.body⟩

example : isReading rfcLex .request toyMsg [71] (some [67]) [97, 98] = true ∧
    (∀ l n, rfcChunkSize l = some n → rfcLex.chunk l = some n) ∧
    (Kind.request = .request → ∀ f, rfcLex.first .request [71] = some f → f.status = none) :=
  ⟨by decide, fun _ _ h => h, fun _ f hf => by cases hf; rfl⟩

/-- a chunked request is covered as well: `toyChunked` is `G CRLF T CRLF CRLF 2 CRLF a b CRLF 0 CRLF CRLF` -/
example : isReading rfcLex .request toyChunked [71] (some [84]) [97, 98] = true := by
  have hd : decodeChunked [50, 13, 10, 97, 98, 13, 10, 48, 13, 10, 13, 10] = some [97, 98] := by
    rw [decodeChunked]; simp [splitLine, rfcChunkSize, hexVal, hexNum, CRLF]
    rw [decodeChunked]; simp [splitLine, rfcChunkSize, hexVal, hexNum, CRLF, trailerExact]
  simp [isReading, rfcLex, toyLex, toyChunked, bodyOk, CRLF, CRLF2, hd]
  exact ⟨by decide, by decide⟩

/-- a lexer whose request lines carry status 200 (chunk-size reader: the RFC one) -/
def statusLex : Lex := { rfcLex with first := fun _ _ => some ⟨1, 1, some 200⟩ }

/-- without `hreq`: `G CRLF CRLF` is a well-formed request without header fields, but a parser
    whose request-line lexer reports a status code treats it like a response to be read until
    close, and never completes it -/
theorem wellformed_clean_witness :
    isReading statusLex .request [71, 13, 10, 13, 10] [71] none [] = true ∧
    (∀ l n, rfcChunkSize l = some n → statusLex.chunk l = some n) ∧
    (exec statusLex (init .request) [71, 13, 10, 13, 10]).core.complete = false :=
  ⟨by decide, fun _ _ h => h, by decide⟩

/-- the header info the parser ends with for header block `hb` (`none`: no header fields) -/
def hdrInfoOf (lex : Lex) : Option Bytes → Option HdrInfo
  | none => some noHdrs
  | some b => lex.hdrs b

/-- the server's acceptance tests on a completely read request (`_on_read`): the first bytes are
    not taken for a TLS hello on a plain socket, HTTP major version 1 (else 505), a Host header
    unless HTTP/1.0 (else 400), canonical path (else 301) -/
def Servable (lex : Lex) (secure : Bool) (msg fl : Bytes) (hb : Option Bytes) (f : FirstLine) (h : HdrInfo) : Bool :=
  (!sslHandshake msg || secure) && f.vmajor == 1 && (f.vminor == 0 || h.host) && lex.pathOk fl hb

/-- `segs` is a segmentation (into non-empty reads) of bytes that are, by the RFC-derived
    decomposition, one request - request line `fl` lexed as `f` (method / target / version),
    header block `hb` lexed as `h`, body `body` by Content-Length or chunked - that passes the
    server's acceptance tests -/
def WellFormedRequest (lex : Lex) (secure : Bool) (segs : List Bytes) (fl : Bytes) (hb : Option Bytes)
    (body : Bytes) (f : FirstLine) (h : HdrInfo) : Prop :=
  (∀ d ∈ segs, d ≠ []) ∧
  isReading lex .request segs.flatten fl hb body = true ∧
  lex.first .request fl = some f ∧ f.status = none ∧ hdrInfoOf lex hb = some h ∧
  Servable lex secure segs.flatten fl hb f h = true

/-- **Well-formed => the hypotheses of `one_request` / `keepalive_sequence`.**  A segmentation of
    an RFC-well-formed, servable request is a `CleanRequest`: the one-piece run is clean, it is a
    request (no status), and one-piece delivery on a fresh connection fires the `request` event with
    the fields of the decomposition, deleting the parser entry and keeping that request. -/
theorem wellformed_request_clean (lex : Lex) (secure : Bool) (segs : List Bytes) (fl : Bytes)
    (hb : Option Bytes) (body : Bytes) (f : FirstLine) (h : HdrInfo)
    (hchunk : ∀ l n, rfcChunkSize l = some n → lex.chunk l = some n)
    (hw : WellFormedRequest lex secure segs fl hb body f h) :
    CleanRequest lex secure segs fl hb body ∧
    connRead lex secure {} segs.flatten = (⟨none, some ⟨fl, f, hb, h⟩⟩, .request fl hb body) := by
  obtain ⟨hne, hr, hf, hst, hh, hsrv⟩ := hw
  simp only [Servable, Bool.and_eq_true, Bool.or_eq_true, Bool.not_eq_true', beq_iff_eq] at hsrv
  obtain ⟨⟨⟨hssl, hv⟩, hhost⟩, hpath⟩ := hsrv
  have hh' : wf13_hi lex hb = some h := by
    have : hdrInfoOf lex hb = wf13_hi lex hb := by cases hb <;> rfl
    rw [← this]; exact hh
  have hssl' : (sslHandshake segs.flatten && !secure) = false := by
    rcases hssl with h | h <;> simp [h]
  obtain ⟨hm, hbad, hstat, hone⟩ := wf13_request_facts lex secure segs.flatten fl hb body f h hr hchunk
    hf hst hh' hssl' hv hhost hpath
  exact ⟨⟨hne, fun e => hm (by rw [e]; rfl), hbad, hstat, _, hone⟩, hone⟩

example : WellFormedRequest rfcLex false toySegs [71] (some [67]) [97, 98] ⟨1, 1, none⟩
    ⟨.val 2, false, true, false⟩ ∧ (∀ l n, rfcChunkSize l = some n → rfcLex.chunk l = some n) :=
  ⟨⟨by decide, by decide, by decide, by decide, by decide, by decide⟩, fun _ _ h => h⟩

/-- **Every RFC-well-formed request, every segmentation: one request, at the last read.**
    If the bytes `segs.flatten` are, by the RFC-derived decomposition, one request (request line
    `fl` lexed as `f`: method / target / version; header block `hb` lexed as `h`; body `body` by
    Content-Length or chunked) that passes the server's acceptance tests, then on a fresh
    connection every way of cutting them into non-empty reads makes every read but the last do
    nothing and the last one fire exactly the `request` event with these fields; afterwards
    `_buffers[sock]` is deleted and `_clients[sock]` is that request.
    (`hchunk`: the chunk-size reader accepts what RFC 7230 4.1 accepts, with the same value.) -/
theorem wellformed_one_request (lex : Lex) (secure : Bool) (segs : List Bytes) (fl : Bytes)
    (hb : Option Bytes) (body : Bytes) (f : FirstLine) (h : HdrInfo)
    (hchunk : ∀ l n, rfcChunkSize l = some n → lex.chunk l = some n)
    (hw : WellFormedRequest lex secure segs fl hb body f h) :
    connReadAll lex secure {} segs =
      (⟨none, some ⟨fl, f, hb, h⟩⟩,
       List.replicate (segs.length - 1) .wait ++ [.request fl hb body]) := by
  obtain ⟨⟨hne, hs, hbad, hstat, _⟩, hone⟩ := wellformed_request_clean lex secure segs fl hb body f h hchunk hw
  exact one_request lex secure segs hne hs hbad hstat _ fl hb body hone

example : WellFormedRequest rfcLex false toySegs [71] (some [67]) [97, 98] ⟨1, 1, none⟩
    ⟨.val 2, false, true, false⟩ :=
  ⟨by decide, by decide, by decide, by decide, by decide, by decide⟩

/-- **Keep-alive sequences of RFC-well-formed requests.**  Successive well-formed, servable
    requests on one connection, each following the previous response (no pipelining), each cut
    into reads in any way: every request is seen exactly once, at its last read, with the fields
    of its decomposition, and the connection's table entries are empty again after each response. -/
theorem wellformed_keepalive (lex : Lex) (secure : Bool)
    (msgs : List (List Bytes × Bytes × Option Bytes × Bytes))
    (hchunk : ∀ l n, rfcChunkSize l = some n → lex.chunk l = some n)
    (hw : ∀ m ∈ msgs, ∃ f h, WellFormedRequest lex secure m.1 m.2.1 m.2.2.1 m.2.2.2 f h) :
    serveAll lex secure {} (msgs.map (·.1)) =
      ({}, msgs.map fun m => List.replicate (m.1.length - 1) .wait ++ [.request m.2.1 m.2.2.1 m.2.2.2]) := by
  apply keepalive_sequence
  intro m hm
  obtain ⟨f, h, hwm⟩ := hw m hm
  exact (wellformed_request_clean lex secure m.1 m.2.1 m.2.2.1 m.2.2.2 f h hchunk hwm).1

example : ∀ m ∈ [(toySegs, ([71] : Bytes), some ([67] : Bytes), ([97, 98] : Bytes)),
                 ([toyMsg], [71], some [67], [97, 98])],
    ∃ f h, WellFormedRequest rfcLex false m.1 m.2.1 m.2.2.1 m.2.2.2 f h := by
  intro m hm
  refine ⟨⟨1, 1, none⟩, ⟨.val 2, false, true, false⟩, ?_⟩
  simp only [List.mem_cons, List.not_mem_nil, or_false] at hm
  rcases hm with rfl | rfl <;>
    exact ⟨by decide, by decide, by decide, by decide, by decide, by decide⟩

/-- **When the client fires early.**  On a clean response stream cut into non-empty reads, a read
    before the last one makes `_on_client_read` fire the `response` event if and only if the header
    block is complete by then and the headers are an Upgrade (`is_upgrade()`); the other two
    disjuncts of its test (message complete, `_clen == 0`) cannot hold before the last read. -/
theorem client_early_iff (lex : Lex) (segs : List Bytes)
    (hne : ∀ d ∈ segs, d ≠ [])
    (hclean : (exec lex (init .response) segs.flatten).core.bad = false)
    (k : Nat) (hk0 : 0 < k) (hk : k < segs.length) :
    clientFires (execAll lex (init .response) (segs.take k)).core = true ↔
      ((execAll lex (init .response) (segs.take k)).core.hdrDone = true ∧
       isUpgrade (exec lex (init .response) segs.flatten).core = true) := by
  have hwf0 : WF (init .response).core := by unfold WF; simp [init]
  obtain ⟨hR, hsplit⟩ := wf13_execAll_split lex segs (init .response) k hwf0 hne hk0 hk hclean
  obtain ⟨hwf, hci⟩ := wf13_execAll_wf lex (segs.take k) (init .response)
    (fun d hd => hne d (List.mem_of_mem_take hd)) hwf0 (wf13_cinv_init _)
  have := wf13_client_mid lex _ _ hR hwf hci (by rw [hsplit]; exact hclean)
  rw [this, hsplit, Bool.and_eq_true]

example : (∀ d ∈ [[83, 13, 10, 85, 13, 10, 13, 10], [97, 98]], d ≠ ([] : Bytes)) ∧
    (exec upgLex (init .response) [[83, 13, 10, 85, 13, 10, 13, 10], [97, 98]].flatten).core.bad = false ∧
    clientFires (execAll upgLex (init .response) ([[83, 13, 10, 85, 13, 10, 13, 10], [97, 98]].take 1)).core = true := by
  decide

/-- **Client side, responses that are not an Upgrade.**  For a clean response stream whose headers
    are not an Upgrade (`is_upgrade()` false after one-piece delivery; decidable on the response),
    every segmentation yields exactly the `response` event (or the silence) of one-piece delivery,
    at the last read, and the same parser afterwards.  (`client_upgrade_witness`: for Upgrade
    responses with a body this is false - the code hands the connection over at the end of the
    header block, whatever has arrived by then.) -/
theorem client_response_no_upgrade (lex : Lex) (segs : List Bytes)
    (hne : ∀ d ∈ segs, d ≠ []) (hs : segs ≠ [])
    (hclean : (exec lex (init .response) segs.flatten).core.bad = false)
    (hup : isUpgrade (exec lex (init .response) segs.flatten).core = false) :
    clientAll lex (init .response) segs =
      ((clientRead lex (init .response) segs.flatten).1,
       List.replicate (segs.length - 1) none ++ [(clientRead lex (init .response) segs.flatten).2]) := by
  apply client_response_partial lex segs hne hs hclean
  intro k hk0 hk
  cases hfire : clientFires (execAll lex (init .response) (segs.take k)).core with
  | false => rfl
  | true =>
    have := ((client_early_iff lex segs hne hclean k hk0 hk).mp hfire).2
    rw [hup] at this; cases this

example : (∀ d ∈ toySegs, d ≠ []) ∧ toySegs ≠ [] ∧
    (exec toyLex (init .response) toySegs.flatten).core.bad = false ∧
    isUpgrade (exec toyLex (init .response) toySegs.flatten).core = false := by
  decide

/-- **Every RFC-well-formed response, every segmentation: one response, at the last read.**
    If the bytes `segs.flatten` are, by the RFC-derived decomposition, one response (status line
    `fl`, header block `hb`, body `body` by Content-Length or chunked, or a 204 without header
    fields; not an Upgrade), then every way of cutting them into non-empty reads makes every read
    but the last do nothing and the last one fire exactly the `response` event with these fields,
    leaving a fresh parser. -/
theorem wellformed_one_response (lex : Lex) (segs : List Bytes) (fl : Bytes) (hb : Option Bytes)
    (body : Bytes) (hne : ∀ d ∈ segs, d ≠ [])
    (hr : isReading lex .response segs.flatten fl hb body = true)
    (hchunk : ∀ l n, rfcChunkSize l = some n → lex.chunk l = some n) :
    clientAll lex (init .response) segs =
      (init .response, List.replicate (segs.length - 1) none ++ [some ⟨some fl, hb, body⟩]) := by
  obtain ⟨f, h, _, hh, hp⟩ := wf13_exec lex .response segs.flatten fl hb body hr hchunk
    (fun hk => by cases hk)
  have hs : segs ≠ [] := by
    intro e
    subst e
    have := hp.firstLine
    simp [exec, init] at this
  have hup : isUpgrade (exec lex (init .response) segs.flatten).core = false := by
    simp [isUpgrade, hp.hi, (wf13_hdr_ok hr hh).2]
  rw [client_response_no_upgrade lex segs hne hs hp.bad hup]
  have hfire : clientFires (exec lex (init .response) segs.flatten).core = true := by
    simp [clientFires, hp.complete]
  simp only [clientRead, hfire, if_true, hp.firstLine, hp.hdrBlock, hp.body]

example : (∀ d ∈ toySegs, d ≠ []) ∧
    isReading { rfcLex with first := fun _ _ => some ⟨1, 1, some 200⟩ } .response toySegs.flatten
      [71] (some [67]) [97, 98] = true ∧
    (∀ l n, rfcChunkSize l = some n →
      ({ rfcLex with first := fun _ _ => some ⟨1, 1, some 200⟩ } : Lex).chunk l = some n) :=
  ⟨by decide, by decide, fun _ _ h => h⟩

/-! ### The lexers themselves (CV/Model/HttpLex.lean): `concreteLex`

`concreteLex pathOk` instantiates the parameter `Lex` with executable models of the code's own
leaf functions (`_parse_request_line`, `_parse_response_line`, the header-block loop of
`_parse_headers` + `Headers`, `_parse_chunk_size`).  Only the canonical-path guard of the server
(`pathOk`: `Request`, `urlsplit`, `quote`) stays a parameter.  Strings the lexer models refuse
(`Lx.unsupported`: a backslash, a first line / Content-Length value over 4000 characters, a network
location with brackets or non-ASCII, a non-ASCII header name) count as "not accepted" in
`concreteLex`; every hypothesis below of the form "the lexer accepts ..." therefore excludes them. -/

/-- `GET / HTTP/1.1` -/
def cFl : Bytes := [71, 69, 84, 32, 47, 32, 72, 84, 84, 80, 47, 49, 46, 49]
/-- `Host: h CRLF Content-Length: 2` -/
def cHb : Bytes := [72, 111, 115, 116, 58, 32, 104, 13, 10, 67, 111, 110, 116, 101, 110, 116, 45, 76, 101, 110, 103, 116, 104, 58, 32, 50]
/-- `GET / HTTP/1.1 CRLF Host: h CRLF Content-Length: 2 CRLF CRLF ab` -/
def cMsg : Bytes := cFl ++ CRLF ++ cHb ++ CRLF2 ++ [97, 98]
/-- cut inside the request line, between CR and LF, inside the header block, inside CRLF CRLF, inside the body -/
def cSegs : List Bytes := [cFl.take 5, cFl.drop 5 ++ [13], [10] ++ cHb.take 9, cHb.drop 9 ++ [13, 10, 13], [10, 97], [98]]
/-- `Host: h CRLF Transfer-Encoding: chunked` -/
def cHbT : Bytes := [72, 111, 115, 116, 58, 32, 104, 13, 10, 84, 114, 97, 110, 115, 102, 101, 114, 45, 69, 110, 99, 111, 100, 105, 110, 103, 58, 32, 99, 104, 117, 110, 107, 101, 100]
/-- the same request, chunked: `2;x CRLF ab CRLF 0 CRLF CRLF` -/
def cMsgT : Bytes := cFl ++ CRLF ++ cHbT ++ CRLF2 ++ [50, 59, 120, 13, 10, 97, 98, 13, 10, 48, 13, 10, 13, 10]
def okPath : Bytes → Option Bytes → Bool := fun _ _ => true

/-- **A request line carries no status**: the hypothesis `hreq` of `wellformed_clean_partial`
    holds of the code's request-line lexer (`_parse_request_line` never sets `_status_code`). -/
theorem concrete_request_no_status (pathOk : Bytes → Option Bytes → Bool) (l : Bytes) (f : FirstLine)
    (h : (concreteLex pathOk).first .request l = some f) : f.status = none :=
  lx_request_no_status l f h

example : (concreteLex okPath).first .request cFl = some ⟨1, 1, none⟩ := by decide

/-- **Chunk sizes, positive part.**  For every non-empty string `ds` of HEXDIG, optionally followed by
    blanks `w` (what `bytes.strip()` removes) and by nothing or a `;`-extension `ext`, the code's
    chunk-size lexer (`int(line.split(b';', 1)[0].strip(), 16)`) returns the number written: the value
    `hexNum 0 ds` of the RFC 7230 reader.  No length bound: `int(.., 16)` has no digit limit. -/
theorem lexChunk_hex (ds w ext : Bytes) (hne : ds ≠ []) (h : ∀ b ∈ ds, (hexVal b).isSome = true)
    (hw : ∀ b ∈ w, isASpace b = true) (he : ext = [] ∨ ext.head? = some 59) :
    ∃ n, hexNum 0 ds = some n ∧ lexChunk (ds ++ w ++ ext) = .ok n :=
  lx_lexChunk_hex ds w ext hne h hw he

/-- `1a SP ;x` = 26 -/
example : ([49, 97] : Bytes) ≠ [] ∧ (∀ b ∈ ([49, 97] : Bytes), (hexVal b).isSome = true) ∧
    (∀ b ∈ ([32] : Bytes), isASpace b = true) ∧ (([59, 120] : Bytes) = [] ∨ ([59, 120] : Bytes).head? = some 59) ∧
    lexChunk ([49, 97] ++ [32] ++ [59, 120]) = .ok 26 := by decide

/-- **Chunk sizes, negative part**: the shapes RFC 7230 forbids and `int` refuses - the empty line, a
    lone sign, a lone `0x`, an extension without a size - are InvalidChunkSize; so is every negative
    number (the repaired defect C14-b: `-5`), while `+5` and `-0` are read as 5 and 0 (`int` accepts a sign). -/
theorem lexChunk_refuses :
    lexChunk [] = .invalid ∧ lexChunk [43] = .invalid ∧ lexChunk [45] = .invalid ∧
    lexChunk [48, 120] = .invalid ∧ lexChunk [59, 120] = .invalid ∧ lexChunk [45, 53] = .invalid ∧
    lexChunk [43, 53] = .ok 5 ∧ lexChunk [45, 48] = .ok 0 := by decide

/-- **The hypothesis `hchunk` of the `wellformed_*` theorems holds of the code's lexer**: what the
    RFC 7230 chunk-size reader accepts, `_parse_chunk_size` accepts with the same value. -/
theorem concrete_chunk_rfc (pathOk : Bytes → Option Bytes → Bool) (l : Bytes) (n : Nat)
    (hr : rfcChunkSize l = some n) : (concreteLex pathOk).chunk l = some n := by
  show (lexChunk l).toOption = some n
  rw [lx_lexChunk_rfc l n hr]; rfl

example : rfcChunkSize [50, 59, 120] = some 2 := by decide

/-- **Well-formed => clean, for the code's lexers: no hypothesis on the lexer left.**  Every message
    that the RFC-derived decomposition `isReading` accepts as (first line `fl`, header block `hb`,
    body `body`) - first line and header block accepted by the *modelled* `_parse_firstline` /
    `_parse_headers`, framing read off the header block by the modelled `Headers` - is read by the
    parser model, in one piece, as exactly that: complete, no parser error, no Python exception, no
    byte beyond the message.  (`wellformed_clean_partial` with `hchunk` and `hreq` discharged.) -/
theorem wellformed_clean_concrete (pathOk : Bytes → Option Bytes → Bool) (k : Kind) (msg fl : Bytes)
    (hb : Option Bytes) (body : Bytes)
    (hr : isReading (concreteLex pathOk) k msg fl hb body = true) :
    let p := exec (concreteLex pathOk) (init k) msg
    p.core.bad = false ∧ p.core.complete = true ∧
    p.core.firstLine = some fl ∧ p.core.hdrBlock = hb ∧ p.core.body = body :=
  wellformed_clean_partial (concreteLex pathOk) k msg fl hb body hr (concrete_chunk_rfc pathOk)
    (fun _ f hf => concrete_request_no_status pathOk fl f hf)

example : isReading (concreteLex okPath) .request cMsg cFl (some cHb) [97, 98] = true := by decide

/-- **Segmentation invariance with the code's lexers** (corollary of `segmentation_invariant`). -/
theorem segmentation_invariant_concrete (pathOk : Bytes → Option Bytes → Bool) (k : Kind) (segs : List Bytes)
    (hne : ∀ d ∈ segs, d ≠ []) (hs : segs ≠ [])
    (hclean : (exec (concreteLex pathOk) (init k) segs.flatten).core.bad = false) :
    execAll (concreteLex pathOk) (init k) segs = exec (concreteLex pathOk) (init k) segs.flatten :=
  segmentation_invariant (concreteLex pathOk) k segs hne hs hclean

example : (∀ d ∈ cSegs, d ≠ []) ∧ cSegs ≠ [] ∧ cSegs.flatten = cMsg ∧
    (exec (concreteLex okPath) (init .request) cSegs.flatten).core.bad = false := by decide

/-- **Every RFC-well-formed request, every segmentation, the code's lexers: one request at the last
    read** (`wellformed_one_request` without its lexer hypothesis). -/
theorem wellformed_one_request_concrete (pathOk : Bytes → Option Bytes → Bool) (secure : Bool)
    (segs : List Bytes) (fl : Bytes) (hb : Option Bytes) (body : Bytes) (f : FirstLine) (h : HdrInfo)
    (hw : WellFormedRequest (concreteLex pathOk) secure segs fl hb body f h) :
    connReadAll (concreteLex pathOk) secure {} segs =
      (⟨none, some ⟨fl, f, hb, h⟩⟩,
       List.replicate (segs.length - 1) .wait ++ [.request fl hb body]) :=
  wellformed_one_request (concreteLex pathOk) secure segs fl hb body f h (concrete_chunk_rfc pathOk) hw

example : WellFormedRequest (concreteLex okPath) false cSegs cFl (some cHb) [97, 98] ⟨1, 1, none⟩
    ⟨.val 2, false, true, false⟩ :=
  ⟨by decide, by decide, by decide, by decide, by decide, by decide⟩

/-- **Every RFC-well-formed response, every segmentation, the code's lexers: one response at the
    last read** (`wellformed_one_response` without its lexer hypothesis). -/
theorem wellformed_one_response_concrete (pathOk : Bytes → Option Bytes → Bool) (segs : List Bytes)
    (fl : Bytes) (hb : Option Bytes) (body : Bytes) (hne : ∀ d ∈ segs, d ≠ [])
    (hr : isReading (concreteLex pathOk) .response segs.flatten fl hb body = true) :
    clientAll (concreteLex pathOk) (init .response) segs =
      (init .response, List.replicate (segs.length - 1) none ++ [some ⟨some fl, hb, body⟩]) :=
  wellformed_one_response (concreteLex pathOk) segs fl hb body hne hr (concrete_chunk_rfc pathOk)

/-- `HTTP/1.1 200 OK CRLF Content-Length: 2 CRLF CRLF ab`, cut after the status line's CR -/
example : (∀ d ∈ ([[72, 84, 84, 80, 47, 49, 46, 49, 32, 50, 48, 48, 32, 79, 75, 13],
      [10, 67, 111, 110, 116, 101, 110, 116, 45, 76, 101, 110, 103, 116, 104, 58, 32, 50, 13, 10, 13, 10, 97], [98]] : List Bytes), d ≠ []) ∧
    isReading (concreteLex okPath) .response
      ([[72, 84, 84, 80, 47, 49, 46, 49, 32, 50, 48, 48, 32, 79, 75, 13],
        [10, 67, 111, 110, 116, 101, 110, 116, 45, 76, 101, 110, 103, 116, 104, 58, 32, 50, 13, 10, 13, 10, 97], [98]] : List Bytes).flatten
      [72, 84, 84, 80, 47, 49, 46, 49, 32, 50, 48, 48, 32, 79, 75]
      (some [67, 111, 110, 116, 101, 110, 116, 45, 76, 101, 110, 103, 116, 104, 58, 32, 50]) [97, 98] = true := by
  decide

/-! ### Round trips through the lexers -/

/-- **Request line round trip.**  For every method of METHOD_RE's class (1-20 characters of
    `[A-Z0-9$-_.]`), every non-empty target without whitespace whose `urlsplit` has no fragment (and
    is not refused by the model: no `//` together with brackets / non-ASCII), every version written as
    `HTTP/` 1*DIGIT `.` 1*DIGIT, the line `METHOD SP target SP version` - without a backslash and at
    most 4000 characters long (`lineRefused`, the model's explicit domain limit) - is lexed by
    `_parse_request_line` as exactly (method, target, major, minor). -/
theorem lexFirst_request_roundtrip (m t d1 d2 : Bytes)
    (hm : methodOk m = true) (ht : t ≠ []) (hts : ∀ b ∈ t, isUSpace b = false)
    (hfrag : hasFragment t = false) (hurl : urlRefused t = false)
    (h1 : d1 ≠ []) (h2 : d2 ≠ []) (hd1 : ∀ b ∈ d1, isDigit b = true) (hd2 : ∀ b ∈ d2, isDigit b = true)
    (href : lineRefused (reqLineOf m t d1 d2) = false) :
    lexRequestLine (reqLineOf m t d1 d2) = .ok ⟨m, t, decVal d1, decVal d2⟩ ∧
    lexFirst .request (reqLineOf m t d1 d2) = .ok ⟨decVal d1, decVal d2, none⟩ := by
  have h := lx_request_roundtrip m t d1 d2 hm ht hts hfrag hurl h1 h2 hd1 hd2 href
  exact ⟨h, by simp [lexFirst, h, Lx.map]⟩

/-- `PUT /a?x=1 HTTP/1.0` -/
example : methodOk [80, 85, 84] = true ∧ ([47, 97, 63, 120, 61, 49] : Bytes) ≠ [] ∧
    (∀ b ∈ ([47, 97, 63, 120, 61, 49] : Bytes), isUSpace b = false) ∧
    hasFragment [47, 97, 63, 120, 61, 49] = false ∧ urlRefused [47, 97, 63, 120, 61, 49] = false ∧
    (∀ b ∈ ([49] : Bytes), isDigit b = true) ∧ (∀ b ∈ ([48] : Bytes), isDigit b = true) ∧
    lineRefused (reqLineOf [80, 85, 84] [47, 97, 63, 120, 61, 49] [49] [48]) = false ∧
    reqLineOf [80, 85, 84] [47, 97, 63, 120, 61, 49] [49] [48] =
      [80, 85, 84, 32, 47, 97, 63, 120, 61, 49, 32, 72, 84, 84, 80, 47, 49, 46, 48] := by decide

/-- **Status line round trip.**  For every version written as `HTTP/` 1*DIGIT `.` 1*DIGIT, every
    three-digit status code and every reason phrase of word characters and blanks (`[\s\w]*`) that does
    not start with a blank, the line `version SP code SP reason` (no backslash, at most 4000 characters)
    is lexed by `_parse_response_line` as exactly (major, minor, code, reason); the parser keeps
    (major, minor, status code). -/
theorem lexFirst_response_roundtrip (d1 d2 code reason : Bytes)
    (h1 : d1 ≠ []) (h2 : d2 ≠ []) (hd1 : ∀ b ∈ d1, isDigit b = true) (hd2 : ∀ b ∈ d2, isDigit b = true)
    (hc3 : code.length = 3) (hc : ∀ b ∈ code, isDigit b = true)
    (hr : ∀ b ∈ reason, (isUSpace b || isWord b) = true)
    (hrh : ∀ b, reason.head? = some b → isUSpace b = false)
    (href : lineRefused (statusLineOf d1 d2 code reason) = false) :
    lexStatusLine (statusLineOf d1 d2 code reason) = .ok ⟨decVal d1, decVal d2, decVal code, reason⟩ ∧
    lexFirst .response (statusLineOf d1 d2 code reason) = .ok ⟨decVal d1, decVal d2, some (decVal code)⟩ := by
  have h := lx_status_roundtrip d1 d2 code reason h1 h2 hd1 hd2 hc3 hc hr hrh href
  exact ⟨h, by simp [lexFirst, h, Lx.map]⟩

/-- `HTTP/1.1 404 Not Found` -/
example : (∀ b ∈ ([49] : Bytes), isDigit b = true) ∧ ([52, 48, 52] : Bytes).length = 3 ∧
    (∀ b ∈ ([52, 48, 52] : Bytes), isDigit b = true) ∧
    (∀ b ∈ ([78, 111, 116, 32, 70, 111, 117, 110, 100] : Bytes), (isUSpace b || isWord b) = true) ∧
    (∀ b, ([78, 111, 116, 32, 70, 111, 117, 110, 100] : Bytes).head? = some b → isUSpace b = false) ∧
    lineRefused (statusLineOf [49] [49] [52, 48, 52] [78, 111, 116, 32, 70, 111, 117, 110, 100]) = false ∧
    statusLineOf [49] [49] [52, 48, 52] [78, 111, 116, 32, 70, 111, 117, 110, 100] =
      [72, 84, 84, 80, 47, 49, 46, 49, 32, 52, 48, 52, 32, 78, 111, 116, 32, 70, 111, 117, 110, 100] := by
  refine ⟨by decide, by decide, by decide, by decide, ?_, by decide, by decide⟩
  intro b hb
  simp only [List.head?_cons, Option.some.injEq] at hb
  subst hb; decide

/-- **Header block round trip.**  For every non-empty list of fields whose names are RFC 7230 tokens
    and whose values contain no CR / LF / backslash and neither start nor end with whitespace,
    `_parse_headers` on the serialised block (`name: value` lines joined by CRLF) makes exactly the
    `add_header(NAME, value)` calls of these fields, in order, names upper-cased as the code does;
    and the framing facts it reads are those the modelled `Headers` yields for that list. -/
theorem lexHdrs_roundtrip (fs : List Field) (hne : fs ≠ []) (hok : ∀ f ∈ fs, FieldOk f) :
    lexFieldList (serFields fs) = .ok (fs.map normField) ∧
    lexHdrs (serFields fs) = infoOfFields (fs.map normField) := by
  have h := lx_hdrs_roundtrip fs hne hok
  exact ⟨h, by simp [lexHdrs, h, Lx.bind]⟩

/-- `Host: h CRLF Content-Length: 2` (= `cHb`) -/
example : ([([72, 111, 115, 116], [104]), ([67, 111, 110, 116, 101, 110, 116, 45, 76, 101, 110, 103, 116, 104], [50])] : List Field) ≠ [] ∧
    serFields [([72, 111, 115, 116], [104]), ([67, 111, 110, 116, 101, 110, 116, 45, 76, 101, 110, 103, 116, 104], [50])] = cHb ∧
    lexHdrs cHb = .ok ⟨.val 2, false, true, false⟩ := by decide

example : ∀ f ∈ ([([72, 111, 115, 116], [104]), ([67, 111, 110, 116, 101, 110, 116, 45, 76, 101, 110, 103, 116, 104], [50])] : List Field),
    FieldOk f := by
  intro f hf
  simp only [List.mem_cons, List.not_mem_nil, or_false] at hf
  rcases hf with rfl | rfl <;> exact ⟨⟨by decide, by decide, by decide, by decide⟩, by decide⟩

/-- **Continuation lines fold as the code folds them.**  A block in which fields (names tokens, first
    value line without leading whitespace) are followed by any number of continuation lines (starting
    with SP / HT; no CR / LF / backslash): each field's value is its first value line followed by the
    continuation lines *as they are* (leading blank kept), the whole stripped on the right. -/
theorem lexHdrs_fold (cfs : List CField) (hne : cfs ≠ []) (hok : ∀ cf ∈ cfs, CFieldOk cf) :
    lexFieldList (joinCRLF (cfs.flatMap cfieldLines)) = .ok (cfs.map foldedField) :=
  lx_hdrs_fold cfs hne hok

/-- `X-A: a CRLF SP b` is the field (`X-A`, `a b`) -/
example : CFieldOk (([88, 45, 65], [97]), [[32, 98]]) ∧
    joinCRLF (([(([88, 45, 65], [97]), [[32, 98]])] : List CField).flatMap cfieldLines) = [88, 45, 65, 58, 32, 97, 13, 10, 32, 98] ∧
    foldedField (([88, 45, 65], [97]), [[32, 98]]) = ([88, 45, 65], [97, 32, 98]) :=
  ⟨⟨⟨by decide, by decide, by decide, by decide⟩, by decide⟩, by decide, by decide⟩

/-- **Framing facts the block states.**  If the `add_header` calls `gs` of a block give `Content-Length`
    a (combined) value of at most 4000 ASCII digits, the parser's Content-Length is that number; if
    they give no `Content-Length` and a `Transfer-Encoding` that is `chunked` in any letter case, the
    body is chunked.  (With `lexHdrs_roundtrip`: `gs = fs.map normField`.) -/
theorem lexHdrs_framing (gs : List Field) :
    (∀ ds, hdrGet gs nContentLength = some ds → ds ≠ [] → (∀ b ∈ ds, isDigit b = true) → ds.length ≤ 4000 →
      ∃ hi, infoOfFields gs = .ok hi ∧ hi.clen = .val (decVal ds)) ∧
    (∀ v, hdrGet gs nContentLength = none → hdrGet gs nTransferEncoding = some v → v.map lowerA = sChunked →
      ∃ hi, infoOfFields gs = .ok hi ∧ hi.clen = .absent ∧ hi.te = true) :=
  ⟨fun ds hg hne h hlen => lx_clen_digits gs ds hg hne h hlen, fun v hc ht hv => lx_te_chunked gs v hc ht hv⟩

/-- `CONTENT-LENGTH: 42` / `TRANSFER-ENCODING: Chunked` -/
example : hdrGet [(nContentLength, [52, 50])] nContentLength = some [52, 50] ∧ decVal [52, 50] = 42 ∧
    hdrGet [(nTransferEncoding, [67, 104, 117, 110, 107, 101, 100])] nContentLength = none ∧
    hdrGet [(nTransferEncoding, [67, 104, 117, 110, 107, 101, 100])] nTransferEncoding = some [67, 104, 117, 110, 107, 101, 100] ∧
    ([67, 104, 117, 110, 107, 101, 100] : Bytes).map lowerA = sChunked := by decide

/-! ### The client component (`circuits.web.client.Client`, CV/Model/HttpClient.lean) -/

open CV.Http.Client in
/-- what an observer must see of a session, computed from the requests and the *responses* alone (no
    read boundaries): per exchange the events of the request (a `connect` first iff the client is not
    connected: at the start, or after a `Connection: close` response), then the one `response` event,
    then `close` iff the response says `Connection: close` -/
def expectedSession : Bool → List (Request × Resp) → List (List Ev)
  | _, [] => []
  | c, (q, r) :: xs =>
    ((onRequest ⟨c, init .response⟩ q).2 ++ respEvents (some r)) :: expectedSession (!connClose r) xs

open CV.Http.Client in
/-- is the client connected after the session -/
def endConnected : Bool → List (Request × Resp) → Bool
  | c, [] => c
  | _, (_, r) :: xs => endConnected (!connClose r) xs

open CV.Http.Client in
/-- one exchange of a session: a request the model covers whose URL `parse_url` accepts, and a
    segmentation (into non-empty reads) of bytes that are, by the RFC-derived decomposition, one
    response (status line `fl`, header block `hb`, body `body`; not an Upgrade) -/
def GoodExchange (pathOk : Bytes → Option Bytes → Bool)
    (x : Request × List Bytes × Bytes × Option Bytes × Bytes) : Prop :=
  requestInDomain x.1 = true ∧ (∃ u, parseUrl x.1.url = .ok u) ∧ (∀ d ∈ x.2.1, d ≠ []) ∧
  isReading (concreteLex pathOk) .response x.2.1.flatten x.2.2.1 x.2.2.2.1 x.2.2.2.2 = true

open CV.Http.Client in
/-- **Sessions of the client component: k requests, k responses, paired up, whatever the cuts.**
    Successive exchanges on one `Client` (each request follows the previous response), every response
    RFC-well-formed and cut into non-empty reads in any way: the events of the k-th exchange are those
    of the k-th request followed by exactly one `response` event carrying the k-th response (status
    line, header block, body of the decomposition) - nothing at the reads before the last one -, then
    `close` iff that response says `Connection: close`; the next request then reconnects first.  The
    right-hand side does not mention the read boundaries.  Afterwards the response parser is fresh. -/
theorem client_sequence (pathOk : Bytes → Option Bytes → Bool)
    (xs : List (Request × List Bytes × Bytes × Option Bytes × Bytes)) (c0 : Bool)
    (h : ∀ x ∈ xs, GoodExchange pathOk x) :
    (session (concreteLex pathOk) ⟨c0, init .response⟩ (xs.map fun x => (x.1, x.2.1))).2 =
      expectedSession c0 (xs.map fun x => (x.1, ⟨some x.2.2.1, x.2.2.2.1, x.2.2.2.2⟩)) ∧
    (session (concreteLex pathOk) ⟨c0, init .response⟩ (xs.map fun x => (x.1, x.2.1))).1.connected =
      endConnected c0 (xs.map fun x => (x.1, ⟨some x.2.2.1, x.2.2.2.1, x.2.2.2.2⟩)) ∧
    (session (concreteLex pathOk) ⟨c0, init .response⟩ (xs.map fun x => (x.1, x.2.1))).1.parser = init .response := by
  induction xs generalizing c0 with
  | nil => exact ⟨rfl, rfl, rfl⟩
  | cons x xs ih =>
    obtain ⟨hdom, ⟨u, hu⟩, hne, hr⟩ := h x (by simp)
    have hall := wellformed_one_response_concrete pathOk x.2.1 x.2.2.1 x.2.2.2.1 x.2.2.2.2 hne hr
    have hreq : onRequest ⟨c0, init .response⟩ x.1 =
        (⟨true, init .response⟩, (onRequest ⟨c0, init .response⟩ x.1).2) := by
      simp [onRequest, hdom, hu]
    have hex : exchange (concreteLex pathOk) ⟨c0, init .response⟩ (x.1, x.2.1) =
        (⟨!connClose ⟨some x.2.2.1, x.2.2.2.1, x.2.2.2.2⟩, init .response⟩,
         (onRequest ⟨c0, init .response⟩ x.1).2 ++ respEvents (some ⟨some x.2.2.1, x.2.2.2.1, x.2.2.2.2⟩)) := by
      unfold exchange
      rw [hreq]
      simp only [readAll_eq, hall, flatMap_replicate_none, any_replicate_none, closes, Bool.true_and]
    obtain ⟨i1, i2, i3⟩ := ih (!connClose ⟨some x.2.2.1, x.2.2.2.1, x.2.2.2.2⟩)
      (fun y hy => h y (List.mem_cons_of_mem _ hy))
    simp only [List.map_cons, session, hex, expectedSession, endConnected]
    exact ⟨by rw [i1], i2, i3⟩

/-- `GET http://h/a` answered by `HTTP/1.1 200 OK CRLF Content-Length: 2 CRLF CRLF ab`, cut after the status
    line's CR and inside the body -/
def cExchange : CV.Http.Client.Request × List Bytes × Bytes × Option Bytes × Bytes :=
  (⟨[71, 69, 84], [104, 116, 116, 112, 58, 47, 47, 104, 47, 97], none, []⟩,
   [[72, 84, 84, 80, 47, 49, 46, 49, 32, 50, 48, 48, 32, 79, 75, 13],
    [10, 67, 111, 110, 116, 101, 110, 116, 45, 76, 101, 110, 103, 116, 104, 58, 32, 50, 13, 10, 13, 10, 97], [98]],
   [72, 84, 84, 80, 47, 49, 46, 49, 32, 50, 48, 48, 32, 79, 75],
   some [67, 111, 110, 116, 101, 110, 116, 45, 76, 101, 110, 103, 116, 104, 58, 32, 50], [97, 98])

/-- the same request answered by `HTTP/1.1 200 OK CRLF Connection: Close CRLF Content-Length: 0 CRLF CRLF` in two reads -/
def cExchangeClose : CV.Http.Client.Request × List Bytes × Bytes × Option Bytes × Bytes :=
  (cExchange.1,
   [[72, 84, 84, 80, 47, 49, 46, 49, 32, 50, 48, 48, 32, 79, 75, 13, 10, 67, 111, 110, 110, 101, 99, 116, 105, 111, 110, 58, 32, 67, 108, 111, 115, 101, 13],
    [10, 67, 111, 110, 116, 101, 110, 116, 45, 76, 101, 110, 103, 116, 104, 58, 32, 48, 13, 10, 13, 10]],
   [72, 84, 84, 80, 47, 49, 46, 49, 32, 50, 48, 48, 32, 79, 75],
   some [67, 111, 110, 110, 101, 99, 116, 105, 111, 110, 58, 32, 67, 108, 111, 115, 101, 13, 10, 67, 111, 110, 116, 101, 110, 116, 45, 76, 101, 110, 103, 116, 104, 58, 32, 48], [])

example : ∀ x ∈ [cExchangeClose, cExchange], GoodExchange okPath x := by
  intro x hx
  simp only [List.mem_cons, List.not_mem_nil, or_false] at hx
  rcases hx with rfl | rfl
  · exact ⟨by decide, ⟨⟨[104], 80, [47, 97], false⟩, by decide⟩, by decide, by decide⟩
  · exact ⟨by decide, ⟨⟨[104], 80, [47, 97], false⟩, by decide⟩, by decide, by decide⟩

/-- what the theorem then says of that session: connect + write, response, close; connect again + write, response -/
example : expectedSession false ([cExchangeClose, cExchange].map fun x => (x.1, ⟨some x.2.2.1, x.2.2.2.1, x.2.2.2.2⟩)) =
    [[.connect [104] 80 false,
      .write [71, 69, 84, 32, 47, 97, 32, 72, 84, 84, 80, 47, 49, 46, 49, 13, 10, 72, 111, 115, 116, 58, 32, 104, 13, 10, 13, 10],
      .response ⟨some cExchangeClose.2.2.1, cExchangeClose.2.2.2.1, []⟩, .close],
     [.connect [104] 80 false,
      .write [71, 69, 84, 32, 47, 97, 32, 72, 84, 84, 80, 47, 49, 46, 49, 13, 10, 72, 111, 115, 116, 58, 32, 104, 13, 10, 13, 10],
      .response ⟨some cExchange.2.2.1, cExchange.2.2.2.1, [97, 98]⟩]] := by decide

open CV.Http.Client in
/-- **The request the client writes parses back to the request the application asked for.**
    For a request (`method`, `body`, `headers`) to a parsed URL `u` (host, port, path + query, secure):
    the bytes of the `write` events of `Client.request` - request line `METHOD SP path SP HTTP/1.1`,
    the header fields of `requestFields` (the application's, then `Host` unless given, then
    `Content-Length` = the length of the body iff a body is given), the empty line, the body - are,
    read by the server side with the code's own lexers (`concreteLex`):
    the request line lexes as exactly (method, path, 1, 1); the header block makes exactly the
    `add_header` calls of these fields (names upper-cased); by the RFC-derived decomposition the bytes are
    one request with that line, that block and that body; and the server's parser, given the bytes in
    one piece, ends complete, without error, with nothing left over.  (By `wellformed_one_request_concrete`
    the same then holds for every segmentation, when the request passes the server's acceptance tests.)

    Hypotheses: the domain of the lexer round trips (`lexFirst_request_roundtrip`, `lexHdrs_roundtrip`:
    method of METHOD_RE's class, path without whitespace / fragment, fields RFC 7230 tokens and values)
    and `hinfo`/`hup`/`hbody`: the framing the final fields announce is the body written - which
    `client_content_length` derives from the model when the application sets no framing header itself. -/
theorem client_request_parses_back (pathOk : Bytes → Option Bytes → Bool) (q : Request) (u : Url) (h : HdrInfo)
    (hm : methodOk q.method = true) (htne : u.path ≠ []) (ht : ∀ b ∈ u.path, isUSpace b = false)
    (hfrag : hasFragment u.path = false) (hurl : urlRefused u.path = false)
    (href : lineRefused (reqLineOf q.method u.path [49] [49]) = false)
    (hok : ∀ f ∈ requestFields u q.headers q.body, FieldOk f)
    (hinfo : infoOfFields ((requestFields u q.headers q.body).map normField) = .ok h)
    (hup : h.upgrade = false)
    (hbody : bodyOk .request h (q.body.getD []) (q.body.getD []) = true) :
    lexRequestLine (reqLineOf q.method u.path [49] [49]) = .ok ⟨q.method, u.path, 1, 1⟩ ∧
    lexFieldList (serFields (requestFields u q.headers q.body)) =
      .ok ((requestFields u q.headers q.body).map normField) ∧
    isReading (concreteLex pathOk) .request (wireBytes (requestWrites q u))
      (reqLineOf q.method u.path [49] [49]) (some (serFields (requestFields u q.headers q.body)))
      (q.body.getD []) = true ∧
    (exec (concreteLex pathOk) (init .request) (wireBytes (requestWrites q u))).core.bad = false ∧
    (exec (concreteLex pathOk) (init .request) (wireBytes (requestWrites q u))).core.complete = true ∧
    (exec (concreteLex pathOk) (init .request) (wireBytes (requestWrites q u))).core.body = q.body.getD [] := by
  have hne := requestFields_ne_nil u q.headers q.body
  have hfl := lexFirst_request_roundtrip q.method u.path [49] [49] hm htne ht hfrag hurl (by simp) (by simp)
    (by decide) (by decide) href
  have hhd := lexHdrs_roundtrip _ hne hok
  have hread : isReading (concreteLex pathOk) .request (wireBytes (requestWrites q u))
      (reqLineOf q.method u.path [49] [49]) (some (serFields (requestFields u q.headers q.body)))
      (q.body.getD []) = true := by
    obtain ⟨c, r, e, hc⟩ := serFields_head _ hne hok
    have h1 : (concreteLex pathOk).first .request (reqLineOf q.method u.path [49] [49]) = some ⟨1, 1, none⟩ := by
      show (lexFirst .request _).toOption = _
      rw [hfl.2]; rfl
    have h2 : (concreteLex pathOk).hdrs (serFields (requestFields u q.headers q.body)) = some h := by
      show (lexHdrs _).toOption = _
      rw [hhd.2, hinfo]; rfl
    have hpre : wireBytes (requestWrites q u) =
        (reqLineOf q.method u.path [49] [49] ++ CRLF ++ serFields (requestFields u q.headers q.body) ++ CRLF2) ++
          q.body.getD [] := by
      rw [wire_eq, serHead_eq _ _ _ hne]
    unfold isReading
    rw [occurs_crlf_no_lf _ (reqLine_no_lf _ _ hm ht), h1]
    simp only [Bool.not_false, Bool.true_and, h2, occurs_crlf2_ser _ hne hok, hup]
    rw [hpre, List.drop_left, hbody]
    have hp : ((reqLineOf q.method u.path [49] [49] ++ CRLF ++ serFields (requestFields u q.headers q.body) ++ CRLF2).isPrefixOf
        ((reqLineOf q.method u.path [49] [49] ++ CRLF ++ serFields (requestFields u q.headers q.body) ++ CRLF2) ++
          q.body.getD [])) = true := by
      rw [List.isPrefixOf_iff_prefix]; exact List.prefix_append _ _
    rw [hp, e]
    simp [CRLF, hc]
  have hc := wellformed_clean_concrete pathOk .request _ _ _ _ hread
  have hd : decVal [49] = 1 := by decide
  exact ⟨by rw [hfl.1, hd], hhd.1, hread, hc.1, hc.2.1, hc.2.2.2.2⟩

/-- `POST http://h:8080/a?x=1` with header `x-a: v` and body `ab`:
    `POST /a?x=1 HTTP/1.1 CRLF X-A: v CRLF Host: h:8080 CRLF Content-Length: 2 CRLF CRLF ab` -/
def cReq : CV.Http.Client.Request :=
  ⟨[80, 79, 83, 84], [104, 116, 116, 112, 58, 47, 47, 104, 58, 56, 48, 56, 48, 47, 97, 63, 120, 61, 49], some [97, 98], [([120, 45, 97], [118])]⟩
def cUrl : CV.Http.Client.Url := ⟨[104], 8080, [47, 97, 63, 120, 61, 49], false⟩

example : CV.Http.Client.parseUrl cReq.url = .ok cUrl ∧
    CV.Http.Client.requestFields cUrl cReq.headers cReq.body =
      [([88, 45, 65], [118]), ([72, 111, 115, 116], [104, 58, 56, 48, 56, 48]),
       ([67, 111, 110, 116, 101, 110, 116, 45, 76, 101, 110, 103, 116, 104], [50])] ∧
    methodOk cReq.method = true ∧ cUrl.path ≠ [] ∧ (∀ b ∈ cUrl.path, isUSpace b = false) ∧
    hasFragment cUrl.path = false ∧ urlRefused cUrl.path = false ∧
    lineRefused (reqLineOf cReq.method cUrl.path [49] [49]) = false ∧
    infoOfFields ((CV.Http.Client.requestFields cUrl cReq.headers cReq.body).map normField) = .ok ⟨.val 2, false, true, false⟩ ∧
    bodyOk .request ⟨.val 2, false, true, false⟩ (cReq.body.getD []) (cReq.body.getD []) = true := by decide

example : ∀ f ∈ CV.Http.Client.requestFields cUrl cReq.headers cReq.body, FieldOk f := by
  have e : CV.Http.Client.requestFields cUrl cReq.headers cReq.body =
      [([88, 45, 65], [118]), ([72, 111, 115, 116], [104, 58, 56, 48, 56, 48]),
       ([67, 111, 110, 116, 101, 110, 116, 45, 76, 101, 110, 103, 116, 104], [50])] := by decide
  rw [e]
  intro f hf
  simp only [List.mem_cons, List.not_mem_nil, or_false] at hf
  rcases hf with rfl | rfl | rfl <;> exact ⟨⟨by decide, by decide, by decide, by decide⟩, by decide⟩

open CV.Http.Client in
/-- **The framing the client announces is the body it writes.**  If the application sets no
    `Content-Length`, `Transfer-Encoding` or `Connection` header itself (in any letter case), the fields
    `Client.request` sends announce exactly the body it writes: with a body, `Content-Length` is the one
    the client adds, its value reads back (through `Headers.get` + `int`) as the length of the body; without
    one, no framing header at all (a request without body); never an Upgrade.  (`hlen`: the decimal
    length has at most 4000 digits - the explicit limit of the lexer model, `int()`'s digit limit.) -/
theorem client_framing (u : Url) (user : List Field) (body : Option Bytes) (hno : NoFraming user)
    (hlen : ∀ b, body = some b → (decStr b.length).length ≤ 4000) :
    ∃ h, infoOfFields ((requestFields u user body).map normField) = .ok h ∧ h.upgrade = false ∧
      bodyOk .request h (body.getD []) (body.getD []) = true :=
  framing_facts u user body hno hlen

example : CV.Http.Client.NoFraming cReq.headers ∧
    (∀ b, cReq.body = some b → (CV.Http.Client.decStr b.length).length ≤ 4000) := by
  refine ⟨⟨?_, ?_, ?_⟩, ?_⟩
  · intro f hf; simp only [cReq, List.mem_singleton] at hf; subst hf; decide
  · intro f hf; simp only [cReq, List.mem_singleton] at hf; subst hf; decide
  · intro f hf; simp only [cReq, List.mem_singleton] at hf; subst hf; decide
  · intro b hb; simp only [cReq, Option.some.injEq] at hb; subst hb; decide

open CV.Http.Client in
/-- **`client_request_parses_back` without hypotheses on the framing**: for an application that leaves
    the framing headers to the client, the written bytes are one well-formed request with the method,
    path, fields and body asked for, and the server's parser reads them complete, clean, with that body. -/
theorem client_request_parses_back_noframing (pathOk : Bytes → Option Bytes → Bool) (q : Request) (u : Url)
    (hm : methodOk q.method = true) (htne : u.path ≠ []) (ht : ∀ b ∈ u.path, isUSpace b = false)
    (hfrag : hasFragment u.path = false) (hurl : urlRefused u.path = false)
    (href : lineRefused (reqLineOf q.method u.path [49] [49]) = false)
    (hok : ∀ f ∈ requestFields u q.headers q.body, FieldOk f)
    (hno : NoFraming q.headers)
    (hlen : ∀ b, q.body = some b → (decStr b.length).length ≤ 4000) :
    lexRequestLine (reqLineOf q.method u.path [49] [49]) = .ok ⟨q.method, u.path, 1, 1⟩ ∧
    lexFieldList (serFields (requestFields u q.headers q.body)) =
      .ok ((requestFields u q.headers q.body).map normField) ∧
    isReading (concreteLex pathOk) .request (wireBytes (requestWrites q u))
      (reqLineOf q.method u.path [49] [49]) (some (serFields (requestFields u q.headers q.body)))
      (q.body.getD []) = true ∧
    (exec (concreteLex pathOk) (init .request) (wireBytes (requestWrites q u))).core.bad = false ∧
    (exec (concreteLex pathOk) (init .request) (wireBytes (requestWrites q u))).core.complete = true ∧
    (exec (concreteLex pathOk) (init .request) (wireBytes (requestWrites q u))).core.body = q.body.getD [] := by
  obtain ⟨h, hi, hu, hb⟩ := client_framing u q.headers q.body hno hlen
  exact client_request_parses_back pathOk q u h hm htne ht hfrag hurl href hok hi hu hb

/-- non-vacuity: `cReq` / `cUrl` above satisfy every hypothesis (the two examples before `client_framing`) -/
example : methodOk cReq.method = true ∧ cUrl.path ≠ [] ∧ hasFragment cUrl.path = false ∧
    urlRefused cUrl.path = false ∧ lineRefused (reqLineOf cReq.method cUrl.path [49] [49]) = false := by decide

open CV.Http.Client in
/-- **The request target `parse_url` yields is one the request-line lexer takes**: for every URL
    `parse_url` accepts (within the model's URL domain), the path-plus-query it returns is non-empty,
    free of whitespace, has no fragment and is not refused by `urlsplit` - the hypotheses of
    `lexFirst_request_roundtrip` on the target. -/
theorem client_target (url : Bytes) (u : Url) (h : parseUrl url = .ok u) :
    u.path ≠ [] ∧ (∀ b ∈ u.path, isUSpace b = false) ∧ hasFragment u.path = false ∧ urlRefused u.path = false :=
  parseUrl_target url u h

example : CV.Http.Client.parseUrl cReq.url = .ok cUrl := by decide

open CV.Http.Client in
/-- **From the `request` event to the server's parser.**  An application request whose URL `parse_url`
    accepts as `u`, with a method of METHOD_RE's class, header fields that are RFC 7230 fields and none of
    the framing headers set by the application: the bytes `Client.request` writes are, for the server side
    with the code's own lexers, exactly one well-formed request - request line (method, `u.path`, HTTP/1.1),
    the application's fields + Host + Content-Length, the body - and the server's parser reads them
    complete and clean.  (`href`: the request line has no backslash and at most 4000 characters; `hlen`:
    at most 4000 digits of Content-Length - the explicit limits of the lexer model.) -/
theorem client_request_wellformed (pathOk : Bytes → Option Bytes → Bool) (q : Request) (u : Url)
    (hu : parseUrl q.url = .ok u) (hm : methodOk q.method = true)
    (href : lineRefused (reqLineOf q.method u.path [49] [49]) = false)
    (hok : ∀ f ∈ requestFields u q.headers q.body, FieldOk f)
    (hno : NoFraming q.headers)
    (hlen : ∀ b, q.body = some b → (decStr b.length).length ≤ 4000) :
    lexRequestLine (reqLineOf q.method u.path [49] [49]) = .ok ⟨q.method, u.path, 1, 1⟩ ∧
    lexFieldList (serFields (requestFields u q.headers q.body)) =
      .ok ((requestFields u q.headers q.body).map normField) ∧
    isReading (concreteLex pathOk) .request (wireBytes (requestWrites q u))
      (reqLineOf q.method u.path [49] [49]) (some (serFields (requestFields u q.headers q.body)))
      (q.body.getD []) = true ∧
    (exec (concreteLex pathOk) (init .request) (wireBytes (requestWrites q u))).core.bad = false ∧
    (exec (concreteLex pathOk) (init .request) (wireBytes (requestWrites q u))).core.complete = true ∧
    (exec (concreteLex pathOk) (init .request) (wireBytes (requestWrites q u))).core.body = q.body.getD [] := by
  obtain ⟨a, b, c, d⟩ := client_target q.url u hu
  exact client_request_parses_back_noframing pathOk q u hm a b c d href hok hno hlen

/-- non-vacuity: `cReq`, `cUrl` (hypotheses `hok`, `hno`, `hlen`: the examples above) -/
example : CV.Http.Client.parseUrl cReq.url = .ok cUrl ∧ methodOk cReq.method = true ∧
    lineRefused (reqLineOf cReq.method cUrl.path [49] [49]) = false := by decide

/-! ## Requests back to back on one connection (CV/Model/HttpServerPipe.lean) -/

/-- **Request sequences on one byte stream, every cutting that respects the request boundaries.**  The reads of a
    connection are given as ONE list (no marker between the requests): when no read holds bytes of two requests -
    the cuts inside each request being arbitrary, byte-at-a-time included - every request is dispatched exactly once,
    in order, at the read that delivers its last byte, exactly as in one-piece-per-request delivery, and nothing stays
    buffered at the end.  This is `keepalive_sequence` restated on the flat read sequence through `pipeAll` (the response
    follows its request at once).  The hypothesis "no read straddles a boundary" cannot be dropped:
    `pipe_sequence_witness`.  Full statement (false for the code): for every cutting `reads` of
    `(msgs.map (·.1.flatten)).flatten`, `dispatched (pipeAll lex secure {} reads).2 = msgs.map (fl, hb, body)`. -/
theorem pipe_sequence_partial (lex : Lex) (secure : Bool)
    (msgs : List (List Bytes × Bytes × Option Bytes × Bytes))
    (h : ∀ m ∈ msgs, CleanRequest lex secure m.1 m.2.1 m.2.2.1 m.2.2.2) :
    pipeAll lex secure {} (msgs.map (·.1)).flatten =
      ({}, (msgs.map fun m => List.replicate (m.1.length - 1) .wait ++ [.request m.2.1 m.2.2.1 m.2.2.2]).flatten) ∧
    dispatched (pipeAll lex secure {} (msgs.map (·.1)).flatten).2 = msgs.map (fun m => (m.2.1, m.2.2.1, m.2.2.2)) ∧
    (pipeAll lex secure {} (msgs.map (·.1)).flatten).1.buffered = [] := by
  induction msgs with
  | nil => exact ⟨rfl, rfl, rfl⟩
  | cons m more ih =>
    obtain ⟨hne, hs, hclean, hst, cn1, hone⟩ := h m (by simp)
    have h1 := one_request lex secure m.1 hne hs hclean hst cn1 _ _ _ hone
    have h2 := pipeAll_of_connReadAll lex secure m.2.1 m.2.2.1 m.2.2.2 (more.map (·.1)).flatten m.1 {} cn1 hs h1
    obtain ⟨i1, i2, i3⟩ := ih (fun m' hm' => h m' (List.mem_cons_of_mem _ hm'))
    simp only [List.map_cons, List.flatten_cons]
    rw [h2]
    refine ⟨?_, ?_, ?_⟩
    · rw [i1]
    · simp only [dispatched_waits, i2]
    · exact i3

example : ∀ m ∈ [(toySegs, ([71] : Bytes), some ([67] : Bytes), ([97, 98] : Bytes)),
                 ([toyMsg], [71], some [67], [97, 98])],
    CleanRequest toyLex false m.1 m.2.1 m.2.2.1 m.2.2.2 := by
  intro m hm
  simp only [List.mem_cons, List.mem_nil_iff, or_false] at hm
  rcases hm with rfl | rfl
  · exact ⟨by decide, by decide, by decide, by decide,
      ⟨none, some ⟨[71], ⟨1, 1, none⟩, some [67], ⟨.val 2, false, true, false⟩⟩⟩, by decide⟩
  · exact ⟨by decide, by decide, by decide, by decide,
      ⟨none, some ⟨[71], ⟨1, 1, none⟩, some [67], ⟨.val 2, false, true, false⟩⟩⟩, by decide⟩

/-- `G CRLF H CRLF CRLF` : a request without body -/
def toyGet : Bytes := [71, 13, 10, 72, 13, 10, 13, 10]

/-- **A read that holds the end of request k and the start of request k+1 breaks it** (the code is not a pipelining
    server): (1) two bodyless requests in one read - ONE request is dispatched, with the bytes of the second as its
    body; (2) a Content-Length request followed by the next one in the same read - its body is extended by them;
    (3) a chunked request followed by the next one - the chunked request is right, the next one is lost with the
    parser; while one-piece-per-request delivery dispatches two requests in each case. -/
theorem pipe_sequence_witness :
    dispatched (pipeAll toyLex false {} [toyGet ++ toyGet]).2 = [([71], some [72], toyGet)] ∧
    dispatched (pipeAll toyLex false {} [toyGet, toyGet]).2 = [([71], some [72], []), ([71], some [72], [])] ∧
    dispatched (pipeAll toyLex false {} [toyMsg ++ toyGet]).2 = [([71], some [67], [97, 98] ++ toyGet)] ∧
    dispatched (pipeAll toyLex false {} [toyMsg, toyGet]).2 = [([71], some [67], [97, 98]), ([71], some [72], [])] ∧
    dispatched (pipeAll toyLex false {} [toyChunked ++ toyGet]).2 = [([71], some [84], [97, 98])] ∧
    dispatched (pipeAll toyLex false {} [toyChunked, toyGet]).2 = [([71], some [84], [97, 98]), ([71], some [72], [])] := by
  refine ⟨by decide, by decide, by decide, by decide, by decide +kernel, by decide +kernel⟩

/-- **What is kept after a dispatch: nothing.**  Whatever the tables held and whatever the read brought, a read that
    fires a `request` event leaves no parser for the socket - no byte is buffered for a following request - and,
    once the response is written, the entries of the socket are those of a fresh connection.  So every byte that
    followed the end of the dispatched request in that read is either inside its `body` or gone. -/
theorem pipe_dispatch_discards (lex : Lex) (secure : Bool) (cn cn' : Conn) (d fl : Bytes) (hb : Option Bytes)
    (body : Bytes) (h : connRead lex secure cn d = (cn', .request fl hb body)) :
    cn'.parser = none ∧ cn'.buffered = [] ∧ pipeRead lex secure cn d = ({}, .request fl hb body) := by
  obtain ⟨req, hcn⟩ := connRead_request_drops h
  refine ⟨by rw [hcn], by rw [hcn]; rfl, pipeRead_request h⟩

example : connRead toyLex false {} (toyGet ++ toyGet) =
    (⟨none, some ⟨[71], ⟨1, 1, none⟩, some [72], ⟨.absent, false, true, false⟩⟩⟩, .request [71] (some [72]) toyGet) := by
  decide

/-- **Where the next request starts: at the next READ, not at the next request boundary.**  For arbitrary reads
    (any cutting of any stream): after a read that dispatches, the remaining reads are served exactly as on a fresh
    connection.  Together with `pipe_dispatch_discards` this determines the dispatched list of every cutting of a
    pipelined stream, and shows why it depends on the cutting. -/
theorem pipe_restart (lex : Lex) (secure : Bool) (cn cn' : Conn) (d fl : Bytes) (hb : Option Bytes) (body : Bytes)
    (ds : List Bytes) (h : connRead lex secure cn d = (cn', .request fl hb body)) :
    pipeAll lex secure cn (d :: ds) =
      ((pipeAll lex secure {} ds).1, .request fl hb body :: (pipeAll lex secure {} ds).2) := by
  simp only [pipeAll, pipeRead_request h]

example : pipeAll toyLex false {} [toyGet ++ [71, 13], [10, 72, 13, 10, 13, 10]] =
    ({}, [.request [71] (some [72]) [71, 13], .err400NoHost]) := by
  decide

end CV.C13

import CV.Model.Core.Machine
namespace CV.C02
theorem placeholder : True := trivial
end CV.C02

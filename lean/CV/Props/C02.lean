import CV.Proofs.CoreQueue
/-
C02 — dispatch order.

  "Events queued before a flush pass are dispatched in ascending priority value and, for
   equal priority, in the order they were fired; an event fired from a handler is never
   dispatched before events that were already queued when the current pass began, and fire()
   never runs a handler re-entrantly.  For each event, handlers with different priorities run
   in descending priority order, and once a handler calls stop() on the event no handler of
   lower priority runs for it."

Part 1 (queue layer) is about `CV.Core.EQ` (CV/Model/Core/Queue.lean), the very functions
`fireRaw` / `flush` / `dispatchLoop` of the machine call, under the op language of
CV/Model/Core/QueueSpec.lean (`app` = `EQ.append`, `flushBegin` = `EQ.begin`, `pop` =
`EQ.pop`).  Everything is universally quantified: any queue satisfying the reachability
invariant `QInv`, any `Int` priorities, any interleaving of ops, any choice function `pick`.
`EQ.drainFrom` is not part of the op language: it merges items stamped by two counters, can
create equal `(prio, seq)` keys, and is C07's business.

Part 2 (handler order) is about `CV.Core.chooseNext` / `chooseIter`
(CV/Model/Core/Choose.lean), the restatement of the `group` / `h` / `rest` lines of
`handlerLoop`, for any priority function, any hints, any handler list that is sorted
descending — which `mergeSort` with `≥` (the model of `sorted(..., reverse=True)` in
`dispatcher`) guarantees (`sorted_of_mergeSort`).
-/
namespace CV.C02
open CV.Core

/-! ## 1. the invariant -/

theorem qinv_init : QInv {} := qinv_empty

theorem qinv_step {q : EQ} (h : QInv q) (op : QOp) : QInv (op.apply q).1 :=
  CV.Core.qinv_step h op

theorem qinv_run {q : EQ} (h : QInv q) (ops : List QOp) : QInv (runOps q ops).1 :=
  CV.Core.qinv_run ops h

/-- every queue reachable from the empty one satisfies the invariant -/
theorem qinv_reachable (ops : List QOp) : QInv (runOps {} ops).1 :=
  CV.Core.qinv_run ops qinv_empty

/-- `_flush_batch == 0` exactly when the heap is empty -/
theorem batch_zero_iff_heap_empty {q : EQ} (h : QInv q) : q.batch = 0 ↔ q.heap = [] := by
  rw [h.batch_eq]
  exact List.length_eq_zero_iff

/-- `fire()` at the queue layer: nothing is dispatched, the heap and the batch counter are
    untouched, the deque gains exactly the new item at its end. -/
theorem fire_inert (q : EQ) (ev : Nat) (prio : Int) :
    ((QOp.app ev prio).apply q).2 = none ∧
    ((QOp.app ev prio).apply q).1.heap = q.heap ∧
    ((QOp.app ev prio).apply q).1.batch = q.batch ∧
    ((QOp.app ev prio).apply q).1.queue = q.queue ++ [⟨prio, q.counter, ev⟩] :=
  ⟨rfl, rfl, rfl, rfl⟩

/-! ## 2. one pop -/

/-- The popped item is a minimum of the heap by `(prio, seq)`; the heap loses exactly it, the
    batch counter is decremented, the deque is untouched.  (Holds for every queue; `QInv` is
    not even needed.) -/
theorem pop_is_min {q q' : EQ} {pick : List QItem → Option QItem} {it : QItem}
    (hp : q.pop pick = some (it, q')) :
    (∀ x ∈ q.heap, it.le x = true) ∧ it ∈ q.heap ∧ q'.heap = q.heap.erase it ∧
      q'.batch + 1 = q.batch ∧ q'.queue = q.queue ∧ q'.counter = q.counter := by
  obtain ⟨hb, hit, rfl⟩ := pop_spec hp
  refine ⟨minCands_le hit, (mem_minCands hit).1, rfl, ?_, rfl, rfl⟩
  simp only; omega

/-- under `QInv` sequence numbers are unique, so the choice function is irrelevant:
    `heappop` is deterministic -/
theorem pop_pick_irrelevant {q : EQ} (h : QInv q) (pick₁ pick₂ : List QItem → Option QItem) :
    q.pop pick₁ = q.pop pick₂ := by
  by_cases hb : q.batch = 0
  · rw [pop_none_of_batch_zero pick₁ hb, pop_none_of_batch_zero pick₂ hb]
  · have hh : q.heap ≠ [] := fun e => hb ((batch_zero_iff_heap_empty h).mpr e)
    obtain ⟨i₁, q₁, h₁⟩ := pop_isSome pick₁ hb hh
    obtain ⟨i₂, q₂, h₂⟩ := pop_isSome pick₂ hb hh
    obtain ⟨_, hc₁, e₁⟩ := pop_spec h₁
    obtain ⟨_, hc₂, e₂⟩ := pop_spec h₂
    have hi : i₁ = i₂ := by
      refine eq_of_seq_eq h.heap_seq_ne (mem_minCands hc₁).1 (mem_minCands hc₂).1 ?_
      exact (QItem.le_antisymm_key (minCands_le hc₁ _ (mem_minCands hc₂).1)
        (minCands_le hc₂ _ (mem_minCands hc₁).1)).2
    rw [h₁, h₂, e₁, e₂, hi]

/-- a pop never fails while a batch is in progress (the heap cannot be empty then) -/
theorem pop_succeeds {q : EQ} (h : QInv q) (hb : q.batch ≠ 0)
    (pick : List QItem → Option QItem) : ∃ it q', q.pop pick = some (it, q') :=
  pop_isSome pick hb (fun e => hb ((batch_zero_iff_heap_empty h).mpr e))

/-! ## 3. one pass: priority order, FIFO among equals -/

/-- `flushBegin` followed by exactly `|queue|` pops (any picks) dispatches a permutation of
    the snapshot, sorted by `(prio, seq)`, and ends the batch. -/
theorem pass_sorted {q : EQ} (h : QInv q) (hb : q.batch = 0)
    (picks : List (List QItem → Option QItem)) (hn : picks.length = q.queue.length) :
    (runOps q (.flushBegin :: picks.map .pop)).2.Perm q.queue ∧
    (runOps q (.flushBegin :: picks.map .pop)).2.Pairwise (fun a b => a.le b = true) ∧
    (runOps q (.flushBegin :: picks.map .pop)).1.batch = 0 ∧
    (runOps q (.flushBegin :: picks.map .pop)).1.heap = [] ∧
    (runOps q (.flushBegin :: picks.map .pop)).1.queue = [] := by
  have := pass_full h hb (picks.map .pop) (hn ▸ midPass_pops picks)
  rw [appItems_pops] at this
  exact ⟨this.1, this.2.1, this.2.2.2.1, this.2.2.1, this.2.2.2.2⟩

/-- the dispatched list IS the `(prio, seq)`-sort of the snapshot -/
theorem pass_order_spec {q : EQ} (h : QInv q) (hb : q.batch = 0)
    (picks : List (List QItem → Option QItem)) (hn : picks.length = q.queue.length) :
    (runOps q (.flushBegin :: picks.map .pop)).2 = q.queue.mergeSort (fun a b => a.le b) := by
  have := pass_sorted h hb picks hn
  exact sorted_eq_mergeSort this.1 h.queue_seq_ne this.2.1

/-- ascending priority value: if `a` is dispatched before `b` then `a.prio ≤ b.prio` -/
theorem ascending_priority {q : EQ} (h : QInv q) (hb : q.batch = 0)
    (picks : List (List QItem → Option QItem)) (hn : picks.length = q.queue.length)
    {a b : QItem} (hab : [a, b].Sublist (runOps q (.flushBegin :: picks.map .pop)).2) :
    a.prio ≤ b.prio := by
  have := ((pass_sorted h hb picks hn).2.1.sublist hab)
  simp only [List.pairwise_cons, List.mem_singleton, forall_eq] at this
  exact QItem.prio_le_of_le this.1

/-- lower priority value first, wherever the two were fired -/
theorem lower_priority_first {q : EQ} (h : QInv q) (hb : q.batch = 0)
    (picks : List (List QItem → Option QItem)) (hn : picks.length = q.queue.length)
    {a b : QItem} (ha : a ∈ q.queue) (hbq : b ∈ q.queue) (hlt : a.prio < b.prio) :
    [a, b].Sublist (runOps q (.flushBegin :: picks.map .pop)).2 := by
  have hs := pass_sorted h hb picks hn
  have hne : a ≠ b := fun e => by rw [e] at hlt; omega
  rcases sublist_pair_of_mem (hs.1.symm.subset ha) (hs.1.symm.subset hbq) hne with h1 | h2
  · exact h1
  · have := hs.2.1.sublist h2
    simp only [List.pairwise_cons, List.mem_singleton, forall_eq] at this
    have := QItem.prio_le_of_le this.1
    omega

/-- FIFO among equal priorities: `a` fired before `b` (earlier in the deque), same priority
    ⇒ `a` dispatched before `b`.  (The dispatched list has no duplicates, so "`[a, b]` is a
    sublist" means "`a` strictly before `b`".) -/
theorem fifo_equal {q : EQ} (h : QInv q) (hb : q.batch = 0)
    (picks : List (List QItem → Option QItem)) (hn : picks.length = q.queue.length)
    {a b : QItem} (hab : [a, b].Sublist q.queue) (hp : a.prio = b.prio) :
    [a, b].Sublist (runOps q (.flushBegin :: picks.map .pop)).2 ∧
    (runOps q (.flushBegin :: picks.map .pop)).2.Nodup := by
  have hs := pass_sorted h hb picks hn
  have hseq : a.seq < b.seq := by
    have := h.queue_inc.sublist hab
    simp only [List.pairwise_cons, List.mem_singleton, forall_eq] at this
    exact this.1
  have ha : a ∈ q.queue := hab.subset (by simp)
  have hbq : b ∈ q.queue := hab.subset (by simp)
  have hne : a ≠ b := fun e => by rw [e] at hseq; omega
  refine ⟨?_, hs.1.nodup_iff.mpr (nodup_of_seq_ne h.queue_seq_ne)⟩
  rcases sublist_pair_of_mem (hs.1.symm.subset ha) (hs.1.symm.subset hbq) hne with h1 | h2
  · exact h1
  · have := hs.2.1.sublist h2
    simp only [List.pairwise_cons, List.mem_singleton, forall_eq] at this
    have hf := QItem.not_le_of_seq_lt hp hseq
    rw [this.1] at hf
    exact absurd hf (by simp)

/-! ## 4. events fired during a pass do not overtake -/

/-- General form: during the pass, appends, pops (any picks) and nested `flushBegin`s (while
    the batch is in progress: `midPass`) may interleave arbitrarily.  The pass dispatches
    exactly the sorted snapshot; every appended item is still in the deque (not the heap)
    when the pass ends, in append order, with its sequence number stamped from the counter. -/
theorem no_overtake_nested {q : EQ} (h : QInv q) (hb : q.batch = 0) (ops : List QOp)
    (hm : midPass q.queue.length ops = true) :
    (runOps q (.flushBegin :: ops)).2 = q.queue.mergeSort (fun a b => a.le b) ∧
    (runOps q (.flushBegin :: ops)).1.queue = appItems q.counter ops ∧
    (runOps q (.flushBegin :: ops)).1.heap = [] ∧
    (runOps q (.flushBegin :: ops)).1.batch = 0 ∧
    (∀ x ∈ appItems q.counter ops, x ∉ (runOps q (.flushBegin :: ops)).2) := by
  have hf := pass_full h hb ops hm
  refine ⟨sorted_eq_mergeSort hf.1 h.queue_seq_ne hf.2.1, hf.2.2.2.2, hf.2.2.1, hf.2.2.2.1, ?_⟩
  intro x hx hx'
  have h1 := appItems_seq_ge ops q.counter x hx
  have h2 := h.seq_lt x (List.mem_append_right _ (hf.1.subset hx'))
  omega

/-- The shape asked for: `flushBegin ::` a mix of `app` and `pop` ops containing exactly
    `n = |queue|` pops.  The dispatched items are the same list as without the appends. -/
theorem no_overtake {q : EQ} (h : QInv q) (hb : q.batch = 0) (ops : List QOp)
    (hnf : ∀ o ∈ ops, o.isFlush = false) (hn : ops.countP QOp.isPop = q.queue.length) :
    (runOps q (.flushBegin :: ops)).2 = q.queue.mergeSort (fun a b => a.le b) ∧
    (runOps q (.flushBegin :: ops)).1.queue = appItems q.counter ops ∧
    (runOps q (.flushBegin :: ops)).1.heap = [] ∧
    (runOps q (.flushBegin :: ops)).1.batch = 0 ∧
    (∀ x ∈ appItems q.counter ops, x ∉ (runOps q (.flushBegin :: ops)).2) :=
  no_overtake_nested h hb ops (midPass_of_noFlush ops _ hnf hn)

/-- ... and the events fired during pass k are exactly what pass k+1 dispatches. -/
theorem fired_during_pass_dispatched_next {q : EQ} (h : QInv q) (hb : q.batch = 0)
    (ops : List QOp) (hm : midPass q.queue.length ops = true)
    (picks : List (List QItem → Option QItem))
    (hn : picks.length = (appItems q.counter ops).length) :
    (runOps (runOps q (.flushBegin :: ops)).1 (.flushBegin :: picks.map .pop)).2
      = (appItems q.counter ops).mergeSort (fun a b => a.le b) := by
  have h1 := no_overtake_nested h hb ops hm
  have hi := qinv_run h (.flushBegin :: ops)
  have := pass_order_spec hi h1.2.2.2.1 picks (by rw [h1.2.1]; exact hn)
  rw [this, h1.2.1]

/-! ## 5. nested flush -/

/-- a `flushBegin` while a batch is in progress is the identity: a nested `flush()` from a
    handler continues the current pass and never starts a new one early -/
theorem nested_flush_continues {q : EQ} (hb : q.batch ≠ 0) :
    (QOp.flushBegin.apply q) = (q, none) := by
  simp [QOp.apply, begin_of_batch_ne hb]

/-- conversely, with no batch in progress `flushBegin` snapshots exactly the deque -/
theorem flush_begin_snapshots {q : EQ} (h : QInv q) (hb : q.batch = 0) :
    (QOp.flushBegin.apply q).1 = { q with batch := q.queue.length, heap := q.queue, queue := [] } := by
  simp [QOp.apply, begin_of_batch_zero h hb]

/-- Decrement-FIRST matters.  The mutant that pops first and decrements after the dispatcher
    returns (`popLate` … `decLate`) reaches, through a nested flush in the last handler of a
    batch, a state with `batch ≠ 0` and an empty heap — Python's `heappop` would raise
    IndexError there; `QInv` (a) is broken. -/
def popLate (q : EQ) : EQ := { q with heap := q.heap.erase ((minItem q.heap).getD ⟨0, 0, 0⟩) }
def decLate (q : EQ) : EQ := { q with batch := q.batch - 1 }

theorem decrement_after_witness :
    let q0 : EQ := (EQ.append {} 7 0).begin     -- one event queued, pass started
    let q1 := popLate q0                         -- mutant: popped, not yet decremented
    let q2 := q1.begin                           -- nested flush() from the handler
    q2.batch ≠ 0 ∧ q2.heap = [] ∧ ¬ QInv q2 := by
  refine ⟨by decide, by decide, ?_⟩
  intro h
  exact absurd h.batch_eq (by decide)

/-! ## 6. handler order -/

/-- the list `dispatcher` builds with `mergeSort (prio a ≥ prio b)` is sorted descending -/
theorem sorted_of_mergeSort (prioOf : Nat → Int) (l : List Nat) :
    (l.mergeSort (fun a b => decide (prioOf a ≥ prioOf b))).Pairwise
      (fun a b => prioOf a ≥ prioOf b) :=
  desc_of_mergeSort prioOf l

/-- (a) the chosen handler has the maximal priority of the remaining handlers -/
theorem choose_max {prioOf : Nat → Int} {hint : Option Nat} {hs rest : List Nat} {h : Nat}
    (hd : hs.Pairwise (fun a b => prioOf a ≥ prioOf b))
    (hc : chooseNext prioOf hint hs = some (h, rest)) :
    h ∈ hs ∧ ∀ x ∈ hs, prioOf h ≥ prioOf x :=
  ⟨(chooseNext_spec hc).1, chooseNext_max hd hc⟩

/-- (b) the rest is still sorted descending and is `hs` minus the chosen handler -/
theorem choose_rest {prioOf : Nat → Int} {hint : Option Nat} {hs rest : List Nat} {h : Nat}
    (hd : hs.Pairwise (fun a b => prioOf a ≥ prioOf b))
    (hc : chooseNext prioOf hint hs = some (h, rest)) :
    rest.Pairwise (fun a b => prioOf a ≥ prioOf b) ∧ rest = hs.erase h ∧ hs.Perm (h :: rest) :=
  ⟨(chooseNext_rest hd hc).1, (chooseNext_spec hc).2.1, (chooseNext_rest hd hc).2.1⟩

/-- iterating the choice to the end, for ANY hints: every handler runs exactly once and the
    priorities of the handlers run are non-increasing -/
theorem handlers_desc (prioOf : Nat → Int) (hints : Nat → Option Nat) {hs : List Nat}
    (hd : hs.Pairwise (fun a b => prioOf a ≥ prioOf b)) :
    (chooseIter prioOf hs.length hints hs).Perm hs ∧
    (chooseIter prioOf hs.length hints hs).Pairwise (fun a b => prioOf a ≥ prioOf b) :=
  ⟨chooseIter_perm prioOf _ hints hs hd (Nat.le_refl _), (chooseIter_desc prioOf _ hints hs hd).1⟩

/-- `stop()`: the loop is cut after the `k`-th choice (0-based), `s` being that handler.  What
    ran is the first `k+1` choices of the full iteration; no handler with a priority lower
    than `s`'s has run (before it — and trivially none runs after). -/
theorem stop_cuts (prioOf : Nat → Int) (hints : Nat → Option Nat) {hs : List Nat}
    (hd : hs.Pairwise (fun a b => prioOf a ≥ prioOf b)) (k : Nat) (hk : k < hs.length) {s : Nat}
    (hs' : (chooseIter prioOf (k + 1) hints hs).getLast? = some s) :
    chooseIter prioOf (k + 1) hints hs = (chooseIter prioOf hs.length hints hs).take (k + 1) ∧
    (chooseIter prioOf (k + 1) hints hs).length = k + 1 ∧
    ∀ h ∈ hs, prioOf h < prioOf s → h ∉ chooseIter prioOf (k + 1) hints hs := by
  refine ⟨chooseIter_take prioOf _ _ hints hs (by omega), ?_, ?_⟩
  · rw [chooseIter_length]; omega
  · intro h _ hlt hmem
    have := desc_last_min (chooseIter_desc prioOf (k + 1) hints hs hd).1 hs' h hmem
    omega

/-- ... and every handler with a priority higher than the stopper's HAS run -/
theorem stop_cuts_complete (prioOf : Nat → Int) (hints : Nat → Option Nat) {hs : List Nat}
    (hd : hs.Pairwise (fun a b => prioOf a ≥ prioOf b)) (k : Nat) (hk : k < hs.length) {s : Nat}
    (hs' : (chooseIter prioOf (k + 1) hints hs).getLast? = some s) :
    ∀ h ∈ hs, prioOf h > prioOf s → h ∈ chooseIter prioOf (k + 1) hints hs := by
  intro h hh hgt
  have hfull := handlers_desc prioOf hints hd
  have htk := chooseIter_take prioOf (k + 1) hs.length hints hs (by omega)
  have hsm : s ∈ (chooseIter prioOf hs.length hints hs).take (k + 1) := by
    rw [← htk]; exact List.mem_of_getLast? hs'
  have hmem : h ∈ (chooseIter prioOf hs.length hints hs).take (k + 1) ++
      (chooseIter prioOf hs.length hints hs).drop (k + 1) := by
    rw [List.take_append_drop]; exact hfull.1.symm.subset hh
  rw [htk]
  rcases List.mem_append.mp hmem with h1 | h2
  · exact h1
  · have hp := hfull.2
    rw [← List.take_append_drop (k + 1) (chooseIter prioOf hs.length hints hs)] at hp
    have := (List.pairwise_append.mp hp).2.2 s hsm h h2
    omega

/-- The fallback handler `dispatcher` appends AFTER sorting (`sorted ++ [h]`, for
    `generate_events`: priority -100) keeps the list sorted iff no collected handler has a
    lower priority than the fallback. -/
theorem sorted_append_fallback {prioOf : Nat → Int} {hs : List Nat} {f : Nat}
    (hd : hs.Pairwise (fun a b => prioOf a ≥ prioOf b)) :
    (hs ++ [f]).Pairwise (fun a b => prioOf a ≥ prioOf b) ↔ ∀ h ∈ hs, prioOf h ≥ prioOf f := by
  rw [List.pairwise_append]
  constructor
  · intro h x hx; exact h.2.2 x hx f (List.mem_singleton.mpr rfl)
  · intro h
    refine ⟨hd, by simp, ?_⟩
    intro a ha b hb
    rw [List.mem_singleton.mp hb]; exact h a ha

/-! ## 7. non-vacuity -/

/-- a reachable queue with mixed priorities (negative, equal, positive), left by an earlier
    pass that was itself interleaved with appends: seqs 3..8 in the deque, counter 9 -/
def exQ : EQ :=
  (runOps {} [.app 10 5, .app 11 (-3), .app 12 5, .flushBegin, .pop (fun _ => none),
    .app 13 2, .app 14 (-1), .pop (fun c => c.head?), .flushBegin, .app 15 2, .pop (fun _ => none),
    .app 16 (-1), .app 17 0, .app 18 2]).1

theorem exQ_inv : QInv exQ := qinv_reachable _

example : exQ.batch = 0 ∧ exQ.heap = [] ∧ exQ.counter = 9 ∧
    exQ.queue = [⟨2, 3, 13⟩, ⟨-1, 4, 14⟩, ⟨2, 5, 15⟩, ⟨-1, 6, 16⟩, ⟨0, 7, 17⟩, ⟨2, 8, 18⟩] := by
  decide

def exPicks : List (List QItem → Option QItem) :=
  [fun _ => none, fun c => c.head?, fun c => c.getLast?, fun _ => some ⟨0, 0, 0⟩, fun _ => none,
   fun c => c.head?]

/-- `pop_is_min`, `pop_succeeds`: a pop that succeeds, on a heap with mixed priorities -/
example : ∃ it q', exQ.begin.pop (fun _ => none) = some (it, q') ∧ it = ⟨-1, 4, 14⟩ :=
  ⟨_, _, rfl, rfl⟩
example : QInv exQ.begin ∧ exQ.begin.batch ≠ 0 := ⟨qinv_begin exQ_inv, by decide⟩

/-- `pass_sorted` / `pass_order_spec` / `ascending_priority` / `lower_priority_first`:
    hypotheses hold for `exQ`, `exPicks`, and the pass dispatches by priority, FIFO among equals -/
example : QInv exQ ∧ exQ.batch = 0 ∧ exPicks.length = exQ.queue.length ∧
    (runOps exQ (.flushBegin :: exPicks.map .pop)).2 =
      [⟨-1, 4, 14⟩, ⟨-1, 6, 16⟩, ⟨0, 7, 17⟩, ⟨2, 3, 13⟩, ⟨2, 5, 15⟩, ⟨2, 8, 18⟩] :=
  ⟨exQ_inv, by decide, by decide, by decide⟩

/-- `fifo_equal`: two items of equal priority, in deque order -/
example : [(⟨2, 3, 13⟩ : QItem), ⟨2, 8, 18⟩].Sublist exQ.queue ∧
    (⟨2, 3, 13⟩ : QItem).prio = (⟨2, 8, 18⟩ : QItem).prio := by decide
example : (⟨-1, 6, 16⟩ : QItem) ∈ exQ.queue ∧ (⟨2, 3, 13⟩ : QItem) ∈ exQ.queue ∧
    (⟨-1, 6, 16⟩ : QItem).prio < (⟨2, 3, 13⟩ : QItem).prio := by decide

/-- `no_overtake`: appends (incl. one with a priority lower than everything queued) between the
    pops; `no_overtake_nested`: additionally nested flushes mid-pass -/
def exMix : List QOp :=
  [.pop (fun _ => none), .app 20 (-7), .pop (fun _ => none), .pop (fun _ => none), .app 21 2,
   .app 22 (-7), .pop (fun _ => none), .pop (fun _ => none), .pop (fun _ => none), .app 23 0]
def exMixNested : List QOp :=
  [.pop (fun _ => none), .app 20 (-7), .flushBegin, .pop (fun _ => none), .pop (fun _ => none),
   .app 21 2, .flushBegin, .app 22 (-7), .pop (fun _ => none), .pop (fun _ => none), .flushBegin,
   .pop (fun _ => none), .app 23 0]

example : (∀ o ∈ exMix, o.isFlush = false) ∧ exMix.countP QOp.isPop = exQ.queue.length ∧
    (runOps exQ (.flushBegin :: exMix)).2 =
      [⟨-1, 4, 14⟩, ⟨-1, 6, 16⟩, ⟨0, 7, 17⟩, ⟨2, 3, 13⟩, ⟨2, 5, 15⟩, ⟨2, 8, 18⟩] ∧
    (runOps exQ (.flushBegin :: exMix)).1.queue =
      [⟨-7, 9, 20⟩, ⟨2, 10, 21⟩, ⟨-7, 11, 22⟩, ⟨0, 12, 23⟩] := by
  refine ⟨?_, by decide, by decide, by decide⟩
  intro o ho
  simp only [exMix, List.mem_cons, List.not_mem_nil, or_false] at ho
  rcases ho with rfl | rfl | rfl | rfl | rfl | rfl | rfl | rfl | rfl | rfl <;> rfl

example : midPass exQ.queue.length exMixNested = true ∧
    (runOps exQ (.flushBegin :: exMixNested)).2 = (runOps exQ (.flushBegin :: exMix)).2 ∧
    (runOps exQ (.flushBegin :: exMixNested)).1.queue = (runOps exQ (.flushBegin :: exMix)).1.queue := by
  decide

/-- `fired_during_pass_dispatched_next` -/
example : (runOps (runOps exQ (.flushBegin :: exMix)).1
      (.flushBegin :: (List.replicate 4 (fun _ => none)).map .pop)).2 =
    [⟨-7, 9, 20⟩, ⟨-7, 11, 22⟩, ⟨0, 12, 23⟩, ⟨2, 10, 21⟩] := by decide

/-- a nested flush during the LAST event of a batch (batch = 0 again) is outside `midPass`:
    it legitimately starts the next pass -/
example : midPass 1 [.pop (fun _ => none), .flushBegin] = false := by decide

/-- `nested_flush_continues`: a state with a batch in progress -/
example : exQ.begin.batch ≠ 0 := by decide

/-- handler order: priorities 1, -2, 1, 0, 1, -2 for handlers 0..5 -/
def exPrio : Nat → Int
  | 0 => 1 | 1 => -2 | 2 => 1 | 3 => 0 | 4 => 1 | _ => -2
def exHs : List Nat := [0, 2, 4, 3, 1, 5]
def exHints : Nat → Option Nat
  | 0 => some 4      -- in the tie group: honoured
  | 1 => some 3      -- not in the tie group {0, 2}: head is taken
  | 2 => some 2
  | 4 => some 5
  | _ => none

example : exHs.Pairwise (fun a b => exPrio a ≥ exPrio b) := by decide
example : chooseNext exPrio (some 4) exHs = some (4, [0, 2, 3, 1, 5]) := by decide
example : chooseIter exPrio exHs.length exHints exHs = [4, 0, 2, 3, 5, 1] := by decide
/-- `stop_cuts`, `stop_cuts_complete`: handler 3 (priority 0) stops the event at step k = 3 -/
example : (3 : Nat) < exHs.length ∧ (chooseIter exPrio (3 + 1) exHints exHs).getLast? = some 3 ∧
    chooseIter exPrio (3 + 1) exHints exHs = [4, 0, 2, 3] := by decide
/-- `sorted_append_fallback`: with a handler below the fallback's priority the appended list
    is NOT sorted — the fallback then runs after a lower-priority handler -/
example : ¬ ([0, 1] ++ [2]).Pairwise (fun a b => (fun | 0 => (0:Int) | 1 => -200 | _ => -100) a ≥
    (fun | 0 => (0:Int) | 1 => -200 | _ => -100) b) := by decide

end CV.C02

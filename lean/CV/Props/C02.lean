import CV.Proofs.InvQueue
import CV.Proofs.InvOrderLog
import CV.Proofs.InvOrderPass
/-
C02 — dispatch order.

  "Events queued before a flush pass are dispatched in ascending priority value and, for
   equal priority, in the order they were fired; an event fired from a handler is never
   dispatched before events that were already queued when the current pass began, and fire()
   never runs a handler re-entrantly.  For each event, handlers with different priorities run
   in descending priority order, and once a handler calls stop() on the event no handler of
   lower priority runs for it."

Part 1 (queue layer) is about `CV.Core.EQ` (CV/Model/Core/Queue.lean), the very functions
`fireRaw` / `flush` / `dispatchLoop` of the machine call, under the op language of
CV/Model/Core/QueueSpec.lean (`app` = `EQ.append`, `flushBegin` = `EQ.begin`, `pop` =
`EQ.pop`).  Everything is universally quantified: any queue satisfying the reachability
invariant `QInv`, any `Int` priorities, any interleaving of ops, any choice function `pick`.
`EQ.drainFrom` is not part of the op language: it merges items stamped by two counters, can
create equal `(prio, seq)` keys, and is C07's business.

Part 2 (handler order) is about `CV.Core.chooseNext` / `chooseIter`
(CV/Model/Core/Choose.lean), the restatement of the `group` / `h` / `rest` lines of
`handlerLoop`, for any priority function, any hints, any handler list that is sorted
descending — which `mergeSort` with `≥` (the model of `sorted(..., reverse=True)` in
`dispatcher`) guarantees (`sorted_of_mergeSort`).
-/
namespace CV.C02
open CV.Core

/-! ## 1. the invariant -/

theorem qinv_init : QInv {} := qinv_empty

theorem qinv_step {q : EQ} (h : QInv q) (op : QOp) : QInv (op.apply q).1 :=
  CV.Core.qinv_step h op

theorem qinv_run {q : EQ} (h : QInv q) (ops : List QOp) : QInv (runOps q ops).1 :=
  CV.Core.qinv_run ops h

/-- every queue reachable from the empty one satisfies the invariant -/
theorem qinv_reachable (ops : List QOp) : QInv (runOps {} ops).1 :=
  CV.Core.qinv_run ops qinv_empty

/-- `_flush_batch == 0` exactly when the heap is empty -/
theorem batch_zero_iff_heap_empty {q : EQ} (h : QInv q) : q.batch = 0 ↔ q.heap = [] := by
  rw [h.batch_eq]
  exact List.length_eq_zero_iff

/-- `fire()` at the queue layer: nothing is dispatched, the heap and the batch counter are
    untouched, the deque gains exactly the new item at its end. -/
theorem fire_inert (q : EQ) (ev : Nat) (prio : Int) :
    ((QOp.app ev prio).apply q).2 = none ∧
    ((QOp.app ev prio).apply q).1.heap = q.heap ∧
    ((QOp.app ev prio).apply q).1.batch = q.batch ∧
    ((QOp.app ev prio).apply q).1.queue = q.queue ++ [⟨prio, q.counter, ev⟩] :=
  ⟨rfl, rfl, rfl, rfl⟩

/-! ## 2. one pop -/

/-- The popped item is a minimum of the heap by `(prio, seq)`; the heap loses exactly it, the
    batch counter is decremented, the deque is untouched.  (Holds for every queue; `QInv` is
    not even needed.) -/
theorem pop_is_min {q q' : EQ} {pick : List QItem → Option QItem} {it : QItem}
    (hp : q.pop pick = some (it, q')) :
    (∀ x ∈ q.heap, it.le x = true) ∧ it ∈ q.heap ∧ q'.heap = q.heap.erase it ∧
      q'.batch + 1 = q.batch ∧ q'.queue = q.queue ∧ q'.counter = q.counter := by
  obtain ⟨hb, hit, rfl⟩ := pop_spec hp
  refine ⟨minCands_le hit, (mem_minCands hit).1, rfl, ?_, rfl, rfl⟩
  simp only; omega

/-- under `QInv` sequence numbers are unique, so the choice function is irrelevant:
    `heappop` is deterministic -/
theorem pop_pick_irrelevant {q : EQ} (h : QInv q) (pick₁ pick₂ : List QItem → Option QItem) :
    q.pop pick₁ = q.pop pick₂ := by
  by_cases hb : q.batch = 0
  · rw [pop_none_of_batch_zero pick₁ hb, pop_none_of_batch_zero pick₂ hb]
  · have hh : q.heap ≠ [] := fun e => hb ((batch_zero_iff_heap_empty h).mpr e)
    obtain ⟨i₁, q₁, h₁⟩ := pop_isSome pick₁ hb hh
    obtain ⟨i₂, q₂, h₂⟩ := pop_isSome pick₂ hb hh
    obtain ⟨_, hc₁, e₁⟩ := pop_spec h₁
    obtain ⟨_, hc₂, e₂⟩ := pop_spec h₂
    have hi : i₁ = i₂ := by
      refine eq_of_seq_eq h.heap_seq_ne (mem_minCands hc₁).1 (mem_minCands hc₂).1 ?_
      exact (QItem.le_antisymm_key (minCands_le hc₁ _ (mem_minCands hc₂).1)
        (minCands_le hc₂ _ (mem_minCands hc₁).1)).2
    rw [h₁, h₂, e₁, e₂, hi]

/-- a pop never fails while a batch is in progress (the heap cannot be empty then) -/
theorem pop_succeeds {q : EQ} (h : QInv q) (hb : q.batch ≠ 0)
    (pick : List QItem → Option QItem) : ∃ it q', q.pop pick = some (it, q') :=
  pop_isSome pick hb (fun e => hb ((batch_zero_iff_heap_empty h).mpr e))

/-! ## 3. one pass: priority order, FIFO among equals -/

/-- `flushBegin` followed by exactly `|queue|` pops (any picks) dispatches a permutation of
    the snapshot, sorted by `(prio, seq)`, and ends the batch. -/
theorem pass_sorted {q : EQ} (h : QInv q) (hb : q.batch = 0)
    (picks : List (List QItem → Option QItem)) (hn : picks.length = q.queue.length) :
    (runOps q (.flushBegin :: picks.map .pop)).2.Perm q.queue ∧
    (runOps q (.flushBegin :: picks.map .pop)).2.Pairwise (fun a b => a.le b = true) ∧
    (runOps q (.flushBegin :: picks.map .pop)).1.batch = 0 ∧
    (runOps q (.flushBegin :: picks.map .pop)).1.heap = [] ∧
    (runOps q (.flushBegin :: picks.map .pop)).1.queue = [] := by
  have := pass_full h hb (picks.map .pop) (hn ▸ midPass_pops picks)
  rw [appItems_pops] at this
  exact ⟨this.1, this.2.1, this.2.2.2.1, this.2.2.1, this.2.2.2.2⟩

/-- the dispatched list IS the `(prio, seq)`-sort of the snapshot -/
theorem pass_order_spec {q : EQ} (h : QInv q) (hb : q.batch = 0)
    (picks : List (List QItem → Option QItem)) (hn : picks.length = q.queue.length) :
    (runOps q (.flushBegin :: picks.map .pop)).2 = q.queue.mergeSort (fun a b => a.le b) := by
  have := pass_sorted h hb picks hn
  exact sorted_eq_mergeSort this.1 h.queue_seq_ne this.2.1

/-- ascending priority value: if `a` is dispatched before `b` then `a.prio ≤ b.prio` -/
theorem ascending_priority {q : EQ} (h : QInv q) (hb : q.batch = 0)
    (picks : List (List QItem → Option QItem)) (hn : picks.length = q.queue.length)
    {a b : QItem} (hab : [a, b].Sublist (runOps q (.flushBegin :: picks.map .pop)).2) :
    a.prio ≤ b.prio := by
  have := ((pass_sorted h hb picks hn).2.1.sublist hab)
  simp only [List.pairwise_cons, List.mem_singleton, forall_eq] at this
  exact QItem.prio_le_of_le this.1

/-- lower priority value first, wherever the two were fired -/
theorem lower_priority_first {q : EQ} (h : QInv q) (hb : q.batch = 0)
    (picks : List (List QItem → Option QItem)) (hn : picks.length = q.queue.length)
    {a b : QItem} (ha : a ∈ q.queue) (hbq : b ∈ q.queue) (hlt : a.prio < b.prio) :
    [a, b].Sublist (runOps q (.flushBegin :: picks.map .pop)).2 := by
  have hs := pass_sorted h hb picks hn
  have hne : a ≠ b := fun e => by rw [e] at hlt; omega
  rcases sublist_pair_of_mem (hs.1.symm.subset ha) (hs.1.symm.subset hbq) hne with h1 | h2
  · exact h1
  · have := hs.2.1.sublist h2
    simp only [List.pairwise_cons, List.mem_singleton, forall_eq] at this
    have := QItem.prio_le_of_le this.1
    omega

/-- FIFO among equal priorities: `a` fired before `b` (earlier in the deque), same priority
    ⇒ `a` dispatched before `b`.  (The dispatched list has no duplicates, so "`[a, b]` is a
    sublist" means "`a` strictly before `b`".) -/
theorem fifo_equal {q : EQ} (h : QInv q) (hb : q.batch = 0)
    (picks : List (List QItem → Option QItem)) (hn : picks.length = q.queue.length)
    {a b : QItem} (hab : [a, b].Sublist q.queue) (hp : a.prio = b.prio) :
    [a, b].Sublist (runOps q (.flushBegin :: picks.map .pop)).2 ∧
    (runOps q (.flushBegin :: picks.map .pop)).2.Nodup := by
  have hs := pass_sorted h hb picks hn
  have hseq : a.seq < b.seq := by
    have := h.queue_inc.sublist hab
    simp only [List.pairwise_cons, List.mem_singleton, forall_eq] at this
    exact this.1
  have ha : a ∈ q.queue := hab.subset (by simp)
  have hbq : b ∈ q.queue := hab.subset (by simp)
  have hne : a ≠ b := fun e => by rw [e] at hseq; omega
  refine ⟨?_, hs.1.nodup_iff.mpr (nodup_of_seq_ne h.queue_seq_ne)⟩
  rcases sublist_pair_of_mem (hs.1.symm.subset ha) (hs.1.symm.subset hbq) hne with h1 | h2
  · exact h1
  · have := hs.2.1.sublist h2
    simp only [List.pairwise_cons, List.mem_singleton, forall_eq] at this
    have hf := QItem.not_le_of_seq_lt hp hseq
    rw [this.1] at hf
    exact absurd hf (by simp)

/-! ## 4. events fired during a pass do not overtake -/

/-- General form: during the pass, appends, pops (any picks) and nested `flushBegin`s (while
    the batch is in progress: `midPass`) may interleave arbitrarily.  The pass dispatches
    exactly the sorted snapshot; every appended item is still in the deque (not the heap)
    when the pass ends, in append order, with its sequence number stamped from the counter. -/
theorem no_overtake_nested {q : EQ} (h : QInv q) (hb : q.batch = 0) (ops : List QOp)
    (hm : midPass q.queue.length ops = true) :
    (runOps q (.flushBegin :: ops)).2 = q.queue.mergeSort (fun a b => a.le b) ∧
    (runOps q (.flushBegin :: ops)).1.queue = appItems q.counter ops ∧
    (runOps q (.flushBegin :: ops)).1.heap = [] ∧
    (runOps q (.flushBegin :: ops)).1.batch = 0 ∧
    (∀ x ∈ appItems q.counter ops, x ∉ (runOps q (.flushBegin :: ops)).2) := by
  have hf := pass_full h hb ops hm
  refine ⟨sorted_eq_mergeSort hf.1 h.queue_seq_ne hf.2.1, hf.2.2.2.2, hf.2.2.1, hf.2.2.2.1, ?_⟩
  intro x hx hx'
  have h1 := appItems_seq_ge ops q.counter x hx
  have h2 := h.seq_lt x (List.mem_append_right _ (hf.1.subset hx'))
  omega

/-- The shape asked for: `flushBegin ::` a mix of `app` and `pop` ops containing exactly
    `n = |queue|` pops.  The dispatched items are the same list as without the appends. -/
theorem no_overtake {q : EQ} (h : QInv q) (hb : q.batch = 0) (ops : List QOp)
    (hnf : ∀ o ∈ ops, o.isFlush = false) (hn : ops.countP QOp.isPop = q.queue.length) :
    (runOps q (.flushBegin :: ops)).2 = q.queue.mergeSort (fun a b => a.le b) ∧
    (runOps q (.flushBegin :: ops)).1.queue = appItems q.counter ops ∧
    (runOps q (.flushBegin :: ops)).1.heap = [] ∧
    (runOps q (.flushBegin :: ops)).1.batch = 0 ∧
    (∀ x ∈ appItems q.counter ops, x ∉ (runOps q (.flushBegin :: ops)).2) :=
  no_overtake_nested h hb ops (midPass_of_noFlush ops _ hnf hn)

/-- ... and the events fired during pass k are exactly what pass k+1 dispatches. -/
theorem fired_during_pass_dispatched_next {q : EQ} (h : QInv q) (hb : q.batch = 0)
    (ops : List QOp) (hm : midPass q.queue.length ops = true)
    (picks : List (List QItem → Option QItem))
    (hn : picks.length = (appItems q.counter ops).length) :
    (runOps (runOps q (.flushBegin :: ops)).1 (.flushBegin :: picks.map .pop)).2
      = (appItems q.counter ops).mergeSort (fun a b => a.le b) := by
  have h1 := no_overtake_nested h hb ops hm
  have hi := qinv_run h (.flushBegin :: ops)
  have := pass_order_spec hi h1.2.2.2.1 picks (by rw [h1.2.1]; exact hn)
  rw [this, h1.2.1]

/-! ## 5. nested flush -/

/-- a `flushBegin` while a batch is in progress is the identity: a nested `flush()` from a
    handler continues the current pass and never starts a new one early -/
theorem nested_flush_continues {q : EQ} (hb : q.batch ≠ 0) :
    (QOp.flushBegin.apply q) = (q, none) := by
  simp [QOp.apply, begin_of_batch_ne hb]

/-- conversely, with no batch in progress `flushBegin` snapshots exactly the deque -/
theorem flush_begin_snapshots {q : EQ} (h : QInv q) (hb : q.batch = 0) :
    (QOp.flushBegin.apply q).1 = { q with batch := q.queue.length, heap := q.queue, queue := [] } := by
  simp [QOp.apply, begin_of_batch_zero h hb]

/-- Decrement-FIRST matters.  The mutant that pops first and decrements after the dispatcher
    returns (`popLate` … `decLate`) reaches, through a nested flush in the last handler of a
    batch, a state with `batch ≠ 0` and an empty heap — Python's `heappop` would raise
    IndexError there; `QInv` (a) is broken. -/
def popLate (q : EQ) : EQ := { q with heap := q.heap.erase ((minItem q.heap).getD ⟨0, 0, 0⟩) }
def decLate (q : EQ) : EQ := { q with batch := q.batch - 1 }

theorem decrement_after_witness :
    let q0 : EQ := (EQ.append {} 7 0).begin     -- one event queued, pass started
    let q1 := popLate q0                         -- mutant: popped, not yet decremented
    let q2 := q1.begin                           -- nested flush() from the handler
    q2.batch ≠ 0 ∧ q2.heap = [] ∧ ¬ QInv q2 := by
  refine ⟨by decide, by decide, ?_⟩
  intro h
  exact absurd h.batch_eq (by decide)

/-! ## 6. handler order -/

/-- the list `dispatcher` builds with `mergeSort (prio a ≥ prio b)` is sorted descending -/
theorem sorted_of_mergeSort (prioOf : Nat → Int) (l : List Nat) :
    (l.mergeSort (fun a b => decide (prioOf a ≥ prioOf b))).Pairwise
      (fun a b => prioOf a ≥ prioOf b) :=
  desc_of_mergeSort prioOf l

/-- (a) the chosen handler has the maximal priority of the remaining handlers -/
theorem choose_max {prioOf : Nat → Int} {hint : Option Nat} {hs rest : List Nat} {h : Nat}
    (hd : hs.Pairwise (fun a b => prioOf a ≥ prioOf b))
    (hc : chooseNext prioOf hint hs = some (h, rest)) :
    h ∈ hs ∧ ∀ x ∈ hs, prioOf h ≥ prioOf x :=
  ⟨(chooseNext_spec hc).1, chooseNext_max hd hc⟩

/-- (b) the rest is still sorted descending and is `hs` minus the chosen handler -/
theorem choose_rest {prioOf : Nat → Int} {hint : Option Nat} {hs rest : List Nat} {h : Nat}
    (hd : hs.Pairwise (fun a b => prioOf a ≥ prioOf b))
    (hc : chooseNext prioOf hint hs = some (h, rest)) :
    rest.Pairwise (fun a b => prioOf a ≥ prioOf b) ∧ rest = hs.erase h ∧ hs.Perm (h :: rest) :=
  ⟨(chooseNext_rest hd hc).1, (chooseNext_spec hc).2.1, (chooseNext_rest hd hc).2.1⟩

/-- iterating the choice to the end, for ANY hints: every handler runs exactly once and the
    priorities of the handlers run are non-increasing -/
theorem handlers_desc (prioOf : Nat → Int) (hints : Nat → Option Nat) {hs : List Nat}
    (hd : hs.Pairwise (fun a b => prioOf a ≥ prioOf b)) :
    (chooseIter prioOf hs.length hints hs).Perm hs ∧
    (chooseIter prioOf hs.length hints hs).Pairwise (fun a b => prioOf a ≥ prioOf b) :=
  ⟨chooseIter_perm prioOf _ hints hs hd (Nat.le_refl _), (chooseIter_desc prioOf _ hints hs hd).1⟩

/-- `stop()`: the loop is cut after the `k`-th choice (0-based), `s` being that handler.  What
    ran is the first `k+1` choices of the full iteration; no handler with a priority lower
    than `s`'s has run (before it — and trivially none runs after). -/
theorem stop_cuts (prioOf : Nat → Int) (hints : Nat → Option Nat) {hs : List Nat}
    (hd : hs.Pairwise (fun a b => prioOf a ≥ prioOf b)) (k : Nat) (hk : k < hs.length) {s : Nat}
    (hs' : (chooseIter prioOf (k + 1) hints hs).getLast? = some s) :
    chooseIter prioOf (k + 1) hints hs = (chooseIter prioOf hs.length hints hs).take (k + 1) ∧
    (chooseIter prioOf (k + 1) hints hs).length = k + 1 ∧
    ∀ h ∈ hs, prioOf h < prioOf s → h ∉ chooseIter prioOf (k + 1) hints hs := by
  refine ⟨chooseIter_take prioOf _ _ hints hs (by omega), ?_, ?_⟩
  · rw [chooseIter_length]; omega
  · intro h _ hlt hmem
    have := desc_last_min (chooseIter_desc prioOf (k + 1) hints hs hd).1 hs' h hmem
    omega

/-- ... and every handler with a priority higher than the stopper's HAS run -/
theorem stop_cuts_complete (prioOf : Nat → Int) (hints : Nat → Option Nat) {hs : List Nat}
    (hd : hs.Pairwise (fun a b => prioOf a ≥ prioOf b)) (k : Nat) (hk : k < hs.length) {s : Nat}
    (hs' : (chooseIter prioOf (k + 1) hints hs).getLast? = some s) :
    ∀ h ∈ hs, prioOf h > prioOf s → h ∈ chooseIter prioOf (k + 1) hints hs := by
  intro h hh hgt
  have hfull := handlers_desc prioOf hints hd
  have htk := chooseIter_take prioOf (k + 1) hs.length hints hs (by omega)
  have hsm : s ∈ (chooseIter prioOf hs.length hints hs).take (k + 1) := by
    rw [← htk]; exact List.mem_of_getLast? hs'
  have hmem : h ∈ (chooseIter prioOf hs.length hints hs).take (k + 1) ++
      (chooseIter prioOf hs.length hints hs).drop (k + 1) := by
    rw [List.take_append_drop]; exact hfull.1.symm.subset hh
  rw [htk]
  rcases List.mem_append.mp hmem with h1 | h2
  · exact h1
  · have hp := hfull.2
    rw [← List.take_append_drop (k + 1) (chooseIter prioOf hs.length hints hs)] at hp
    have := (List.pairwise_append.mp hp).2.2 s hsm h h2
    omega

/-- The fallback handler `dispatcher` appends AFTER sorting (`sorted ++ [h]`, for
    `generate_events`: priority -100) keeps the list sorted iff no collected handler has a
    lower priority than the fallback. -/
theorem sorted_append_fallback {prioOf : Nat → Int} {hs : List Nat} {f : Nat}
    (hd : hs.Pairwise (fun a b => prioOf a ≥ prioOf b)) :
    (hs ++ [f]).Pairwise (fun a b => prioOf a ≥ prioOf b) ↔ ∀ h ∈ hs, prioOf h ≥ prioOf f := by
  rw [List.pairwise_append]
  constructor
  · intro h x hx; exact h.2.2 x hx f (List.mem_singleton.mpr rfl)
  · intro h
    refine ⟨hd, by simp, ?_⟩
    intro a ha b hb
    rw [List.mem_singleton.mp hb]; exact h a ha

/-! ## 7. non-vacuity -/

/-- a reachable queue with mixed priorities (negative, equal, positive), left by an earlier
    pass that was itself interleaved with appends: seqs 3..8 in the deque, counter 9 -/
def exQ : EQ :=
  (runOps {} [.app 10 5, .app 11 (-3), .app 12 5, .flushBegin, .pop (fun _ => none),
    .app 13 2, .app 14 (-1), .pop (fun c => c.head?), .flushBegin, .app 15 2, .pop (fun _ => none),
    .app 16 (-1), .app 17 0, .app 18 2]).1

theorem exQ_inv : QInv exQ := qinv_reachable _

example : exQ.batch = 0 ∧ exQ.heap = [] ∧ exQ.counter = 9 ∧
    exQ.queue = [⟨2, 3, 13⟩, ⟨-1, 4, 14⟩, ⟨2, 5, 15⟩, ⟨-1, 6, 16⟩, ⟨0, 7, 17⟩, ⟨2, 8, 18⟩] := by
  decide

def exPicks : List (List QItem → Option QItem) :=
  [fun _ => none, fun c => c.head?, fun c => c.getLast?, fun _ => some ⟨0, 0, 0⟩, fun _ => none,
   fun c => c.head?]

/-- `pop_is_min`, `pop_succeeds`: a pop that succeeds, on a heap with mixed priorities -/
example : ∃ it q', exQ.begin.pop (fun _ => none) = some (it, q') ∧ it = ⟨-1, 4, 14⟩ :=
  ⟨_, _, rfl, rfl⟩
example : QInv exQ.begin ∧ exQ.begin.batch ≠ 0 := ⟨qinv_begin exQ_inv, by decide⟩

/-- `pass_sorted` / `pass_order_spec` / `ascending_priority` / `lower_priority_first`:
    hypotheses hold for `exQ`, `exPicks`, and the pass dispatches by priority, FIFO among equals -/
example : QInv exQ ∧ exQ.batch = 0 ∧ exPicks.length = exQ.queue.length ∧
    (runOps exQ (.flushBegin :: exPicks.map .pop)).2 =
      [⟨-1, 4, 14⟩, ⟨-1, 6, 16⟩, ⟨0, 7, 17⟩, ⟨2, 3, 13⟩, ⟨2, 5, 15⟩, ⟨2, 8, 18⟩] :=
  ⟨exQ_inv, by decide, by decide, by decide⟩

/-- `fifo_equal`: two items of equal priority, in deque order -/
example : [(⟨2, 3, 13⟩ : QItem), ⟨2, 8, 18⟩].Sublist exQ.queue ∧
    (⟨2, 3, 13⟩ : QItem).prio = (⟨2, 8, 18⟩ : QItem).prio := by decide
example : (⟨-1, 6, 16⟩ : QItem) ∈ exQ.queue ∧ (⟨2, 3, 13⟩ : QItem) ∈ exQ.queue ∧
    (⟨-1, 6, 16⟩ : QItem).prio < (⟨2, 3, 13⟩ : QItem).prio := by decide

/-- `no_overtake`: appends (incl. one with a priority lower than everything queued) between the
    pops; `no_overtake_nested`: additionally nested flushes mid-pass -/
def exMix : List QOp :=
  [.pop (fun _ => none), .app 20 (-7), .pop (fun _ => none), .pop (fun _ => none), .app 21 2,
   .app 22 (-7), .pop (fun _ => none), .pop (fun _ => none), .pop (fun _ => none), .app 23 0]
def exMixNested : List QOp :=
  [.pop (fun _ => none), .app 20 (-7), .flushBegin, .pop (fun _ => none), .pop (fun _ => none),
   .app 21 2, .flushBegin, .app 22 (-7), .pop (fun _ => none), .pop (fun _ => none), .flushBegin,
   .pop (fun _ => none), .app 23 0]

example : (∀ o ∈ exMix, o.isFlush = false) ∧ exMix.countP QOp.isPop = exQ.queue.length ∧
    (runOps exQ (.flushBegin :: exMix)).2 =
      [⟨-1, 4, 14⟩, ⟨-1, 6, 16⟩, ⟨0, 7, 17⟩, ⟨2, 3, 13⟩, ⟨2, 5, 15⟩, ⟨2, 8, 18⟩] ∧
    (runOps exQ (.flushBegin :: exMix)).1.queue =
      [⟨-7, 9, 20⟩, ⟨2, 10, 21⟩, ⟨-7, 11, 22⟩, ⟨0, 12, 23⟩] := by
  refine ⟨?_, by decide, by decide, by decide⟩
  intro o ho
  simp only [exMix, List.mem_cons, List.not_mem_nil, or_false] at ho
  rcases ho with rfl | rfl | rfl | rfl | rfl | rfl | rfl | rfl | rfl | rfl <;> rfl

example : midPass exQ.queue.length exMixNested = true ∧
    (runOps exQ (.flushBegin :: exMixNested)).2 = (runOps exQ (.flushBegin :: exMix)).2 ∧
    (runOps exQ (.flushBegin :: exMixNested)).1.queue = (runOps exQ (.flushBegin :: exMix)).1.queue := by
  decide

/-- `fired_during_pass_dispatched_next` -/
example : (runOps (runOps exQ (.flushBegin :: exMix)).1
      (.flushBegin :: (List.replicate 4 (fun _ => none)).map .pop)).2 =
    [⟨-7, 9, 20⟩, ⟨-7, 11, 22⟩, ⟨0, 12, 23⟩, ⟨2, 10, 21⟩] := by decide

/-- a nested flush during the LAST event of a batch (batch = 0 again) is outside `midPass`:
    it legitimately starts the next pass -/
example : midPass 1 [.pop (fun _ => none), .flushBegin] = false := by decide

/-- `nested_flush_continues`: a state with a batch in progress -/
example : exQ.begin.batch ≠ 0 := by decide

/-- handler order: priorities 1, -2, 1, 0, 1, -2 for handlers 0..5 -/
def exPrio : Nat → Int
  | 0 => 1 | 1 => -2 | 2 => 1 | 3 => 0 | 4 => 1 | _ => -2
def exHs : List Nat := [0, 2, 4, 3, 1, 5]
def exHints : Nat → Option Nat
  | 0 => some 4      -- in the tie group: honoured
  | 1 => some 3      -- not in the tie group {0, 2}: head is taken
  | 2 => some 2
  | 4 => some 5
  | _ => none

example : exHs.Pairwise (fun a b => exPrio a ≥ exPrio b) := by decide
example : chooseNext exPrio (some 4) exHs = some (4, [0, 2, 3, 1, 5]) := by decide
example : chooseIter exPrio exHs.length exHints exHs = [4, 0, 2, 3, 5, 1] := by decide
/-- `stop_cuts`, `stop_cuts_complete`: handler 3 (priority 0) stops the event at step k = 3 -/
example : (3 : Nat) < exHs.length ∧ (chooseIter exPrio (3 + 1) exHints exHs).getLast? = some 3 ∧
    chooseIter exPrio (3 + 1) exHints exHs = [4, 0, 2, 3] := by decide
/-- `sorted_append_fallback`: with a handler below the fallback's priority the appended list
    is NOT sorted — the fallback then runs after a lower-priority handler -/
example : ¬ ([0, 1] ++ [2]).Pairwise (fun a b => (fun | 0 => (0:Int) | 1 => -200 | _ => -100) a ≥
    (fun | 0 => (0:Int) | 1 => -200 | _ => -100) b) := by decide


/-! ## 8. the link to the machine

Parts 1-7 are about the queue LAYER (`EQ` under `QOp`) and the handler-choice layer
(`chooseNext`).  The theorems below are about the small-step core machine
(CV/Model/Core/Step.lean): every configuration (`step_queue_ops`, `fire_is_inert`, …: no
hypothesis at all, hence in particular every reachable one) resp. every configuration of every
driver session (`Reach s0 c`, CV/Proofs/CoreReach.lean: arbitrary external operations, clock
advances, tapes, programs) from an initial state whose queues satisfy the layer invariant.
They say that the machine touches a component's `_EventQueue` only through the layer
operations, so that parts 1-7 apply to it.  Proofs: CV/Proofs/InvQueueBase.lean (the relation
`QRel` through all primitives / helpers / arms of `step`), CV/Proofs/InvQueue.lean. -/

/-- **Classification.**  What one step of the machine - any configuration `c`, any component `x`
    - does to `x`'s queue `q = (c.st.comp x).eq`; `q'` is the queue after the step:
    1. `q' = runOps q ops` for a finite list of `QOp.app` ops (`[]` = unchanged; two for e.g.
       `handlerRaised` = failure + exception, `eventDonePre` = done + success);
    2. `q' = flushBegin q` - only when the top frame is `.flush y` and `x` is `y`'s root;
    3. `(q', it) = pop pick q` with a successful pop - only when the top frame is
       `.dispatchLoop x`; the popped event goes to `.dispatcher x it.ev q'.batch`;
    4. `q' = (q.drainFrom child.eq).1` (deque := deque ++ child's deque) - only when the top frame
       is `.register ch p` and `x ≠ ch` is `p`'s root;
    5. `q' = (root.eq.drainFrom q).2` (deque := []) - only when the top frame is `.register x p`.
    Counter, heap and batch change only as those operations change them. -/
theorem step_queue_ops (c : Cfg) (x : Nat) :
    (∃ ops : List QOp, (∀ o ∈ ops, ∃ e p, o = QOp.app e p) ∧
        ((step c).st.comp x).eq = (runOps (c.st.comp x).eq ops).1)
    ∨ (∃ y k, c.stack = .flush y :: k ∧ c.exn = none ∧ c.st.rootOf y = x ∧
        ((step c).st.comp x).eq = (QOp.flushBegin.apply (c.st.comp x).eq).1)
    ∨ (∃ k pick it, c.stack = .dispatchLoop x :: k ∧ c.exn = none ∧
        (QOp.pop pick).apply (c.st.comp x).eq = (((step c).st.comp x).eq, some it) ∧
        (step c).stack = .dispatcher x it.ev ((step c).st.comp x).eq.batch :: .dispatchLoop x :: k)
    ∨ (∃ ch p k, c.stack = .register ch p :: k ∧ c.exn = none ∧ p ≠ ch ∧ x = (c.st.comp p).root ∧ x ≠ ch ∧
        ((step c).st.comp x).eq = ((c.st.comp x).eq.drainFrom (c.st.comp ch).eq).1)
    ∨ (∃ p k, c.stack = .register x p :: k ∧ c.exn = none ∧ p ≠ x ∧ (c.st.comp p).root ≠ x ∧
        ((step c).st.comp x).eq = ((c.st.comp (c.st.comp p).root).eq.drainFrom (c.st.comp x).eq).2) := by
  rcases q2_step_class c x with h | ⟨y, k, h1, h2, h3, h4⟩ | ⟨k, it, q', h1, h2, h3, h4, h5⟩ | h | h
  · exact .inl h
  · exact .inr (.inl ⟨y, k, h1, h2, h3, h4⟩)
  · refine .inr (.inr (.inl ⟨k, c.st.q2pick, it, h1, h2, ?_, ?_⟩))
    · simp only [QOp.apply, h3, h4]
    · rw [h4]; exact h5
  · exact .inr (.inr (.inr (.inl h)))
  · exact .inr (.inr (.inr (.inr h)))

/-- the same, for readers of the layer: a step that is not a `register` step applies a list of
    layer ops to every queue -/
theorem step_queue_runOps (c : Cfg) (x : Nat)
    (hreg : ∀ ch p k, c.stack ≠ .register ch p :: k) :
    ∃ ops : List QOp, ((step c).st.comp x).eq = (runOps (c.st.comp x).eq ops).1 := by
  rcases step_queue_ops c x with ⟨ops, _, h⟩ | ⟨_, _, _, _, _, h⟩ | ⟨_, pick, _, _, _, h, _⟩ |
      ⟨ch, p, k, hs, _⟩ | ⟨p, k, hs, _⟩
  · exact ⟨ops, h⟩
  · exact ⟨[.flushBegin], h⟩
  · exact ⟨[.pop pick], by simp only [runOps, h]⟩
  · exact absurd hs (hreg ch p k)
  · exact absurd hs (hreg x p k)

/-- hypothesis on the initial state: `_flush_batch` = heap size in every component (true of
    freshly constructed managers: both 0) -/
def InitBatch (s : St) : Prop := ∀ x, (s.comp x).eq.batch = (s.comp x).eq.heap.length

/-- hypothesis on the initial state: every component's queue satisfies the layer invariant (true
    of freshly constructed managers: `qinv_init`) -/
def InitQueues (s : St) : Prop := ∀ x, QInv (s.comp x).eq

/-- two fresh managers; one manager in the middle of a pass with a mixed queue -/
def exSt : St := { comps := [{ parent := 0, root := 0 }, { parent := 1, root := 1 }] }
def exStBusy : St := { comps := [{ parent := 0, root := 0, eq := exQ.begin }] }

example : InitQueues exSt ∧ InitBatch exSt := ⟨q2_two_fresh_init, fun x => (q2_two_fresh_init x).batch_eq⟩
example : InitQueues exStBusy ∧ InitBatch exStBusy ∧ (exStBusy.comp 0).eq.batch = 6 := by
  have h : InitQueues exStBusy := by
    intro x
    match x with
    | 0 => exact qinv_begin exQ_inv
    | n + 1 => exact qinv_init
  exact ⟨h, fun x => (h x).batch_eq, by decide⟩

/-- **`_flush_batch` = heap size, always.**  Part (a) of `QInv` for every component of every
    reachable configuration - including across `register` (`drainFrom` moves deques only).
    Hence `heappop` never meets an empty heap and the `remaining` argument of `_dispatcher` is the
    number of events of the pass still to be dispatched. -/
theorem batch_eq_heap (s0 : St) (h0 : InitBatch s0) (c : Cfg) (hr : Reach s0 c) (x : Nat) :
    (c.st.comp x).eq.batch = (c.st.comp x).eq.heap.length :=
  q2_batch_reach s0 h0 c hr x

/-- guard for `qinv_reach_partial`: a pending `register ch p` step finds `ch`'s deque empty -/
def NoDrain (c : Cfg) : Prop :=
  ∀ ch p k, c.stack = .register ch p :: k → c.exn = none → (c.st.comp ch).eq.queue = []

/-- (`ReachND`, defined in CV/Proofs/InvQueue.lean, uses literally this guard) -/
example : NoDrain = Q2NoDrain := rfl

/-- The full layer invariant `QInv` (batch = heap size, sequence numbers below the counter,
    pairwise different, increasing along the deque) holds for every component of every
    configuration reached by a session in which no `register` step drains a non-empty deque
    (`ReachND`: `Reach` with the guard `NoDrain` on every configuration a step is taken from).
    FULL statement (over `Reach`): FALSE, see `qinv_reach_witness`: `drainFrom` keeps the
    child's sequence numbers, which were stamped by another counter.  Consequence for the
    property: `pass_sorted` / `fifo_equal` / `no_overtake` apply to the machine's passes as long
    as components are registered before events are fired at them; after a drain of a non-empty
    deque the priority order still holds (`dispatch_pops_min` needs no invariant) but FIFO among
    equal priorities is only guaranteed within each of the two merged sequences. -/
theorem qinv_reach_partial (s0 : St) (h0 : InitQueues s0) (c : Cfg) (hr : ReachND s0 c) (x : Nat) :
    QInv (c.st.comp x).eq :=
  q2_qinv_reachND s0 h0 c hr x

/-- guarded runs are runs -/
theorem reachND_reach {s0 : St} {c : Cfg} (h : ReachND s0 c) : Reach s0 c := h.reach

/-- … and under `QInv` the tape-derived pick of the machine is irrelevant: the dispatch order of
    guarded runs is fully determined by `(prio, seq)` -/
theorem machine_pop_deterministic (s0 : St) (h0 : InitQueues s0) (c : Cfg) (hr : ReachND s0 c) (r : Nat)
    (pick : List QItem → Option QItem) :
    c.st.popEvent r = (c.st.comp r).eq.pop pick :=
  pop_pick_irrelevant (qinv_reach_partial s0 h0 c hr r) _ _

/-- **Runs of the machine are runs of the layer.**  For every configuration `c`, component `x`
    and number of steps `n` such that no `register` step among them drains a non-empty deque:
    there is a list of layer ops `ops` with
      * queue of `x` after the `n` steps = `(runOps q ops).1`, and
      * the items the layer run dispatches, `(runOps q ops).2`, = the items the `.dispatchLoop x`
        steps of the machine run popped, in order (`q2poppedRun`) - each of which was handed to
        `_dispatcher` by the very step that popped it (`popped_is_dispatched`).
    So `pass_sorted`, `fifo_equal`, `no_overtake_nested`, … - statements about `runOps` - are
    statements about what the machine dispatches, and in which order. -/
theorem run_is_layer_run (c : Cfg) (x n : Nat) (hg : ∀ i, i < n → NoDrain (runN i c)) :
    ∃ ops : List QOp, ((runN n c).st.comp x).eq = (runOps (c.st.comp x).eq ops).1 ∧
      (runOps (c.st.comp x).eq ops).2 = q2poppedRun x n c :=
  q2_run_trace x n c hg

theorem popped_is_dispatched (c : Cfg) (x : Nat) (it : QItem) (h : q2popped c x = some it) :
    ∃ k, c.stack = .dispatchLoop x :: k ∧ c.exn = none ∧
      (step c).stack = .dispatcher x it.ev ((step c).st.comp x).eq.batch :: .dispatchLoop x :: k :=
  q2_popped_dispatched c x it h

/-- a whole `flush` of the busy manager (6 events in the heap): the machine dispatches them in
    `(prio, seq)` order - the machine run, not the layer run, is evaluated here -/
example : q2poppedRun 0 60 (startOf (envChange exStBusy 0 []) (.flush 0)) =
    [⟨-1, 4, 14⟩, ⟨-1, 6, 16⟩, ⟨0, 7, 17⟩, ⟨2, 3, 13⟩, ⟨2, 5, 15⟩, ⟨2, 8, 18⟩] := by decide +kernel

/-- `fire` on manager 1, `fire` on manager 0, then `1.register(0)`: both events carry sequence
    number 0 of their own manager's counter -/
def exW1 : Cfg := runN 3 (startOf (envChange exSt 0 []) (.doAct 1 (.fire 0 none 0 false)))
def exW2 : Cfg := runN 3 (startOf (envChange exW1.st 0 []) (.doAct 0 (.fire 0 none 0 false)))
def exW3 : Cfg := runN 2 (startOf (envChange exW2.st 0 []) (.doAct 1 (.reg 1 0)))

/-- the excluded case really fails: a reachable configuration (from two fresh managers) whose
    root queue holds two items with the same `(prio, seq)` key, fired in the order 0-then-1 but
    queued in the order 1-then-0 -/
theorem qinv_reach_witness :
    InitQueues exSt ∧ Reach exSt exW3 ∧ ¬ NoDrain (runN 1 (startOf (envChange exW2.st 0 []) (.doAct 1 (.reg 1 0)))) ∧
    (exW3.st.comp 0).eq.queue = [⟨0, 0, 1⟩, ⟨0, 0, 0⟩] ∧ ¬ QInv (exW3.st.comp 0).eq := by
  refine ⟨q2_two_fresh_init,
    Reach.runN (.next 0 [] _ (Reach.runN (.next 0 [] _ (Reach.runN (.init 0 [] _) 3) (by decide)) 3) (by decide)) 2,
    ?_, by decide, ?_⟩
  · intro h
    have := h 1 0 _ rfl rfl
    exact absurd this (by decide)
  · intro h
    have h1 := h.queue_inc
    have h2 : (exW3.st.comp 0).eq.queue = [⟨0, 0, 1⟩, ⟨0, 0, 0⟩] := by decide
    rw [h2] at h1
    simp at h1

/-- non-vacuity of `ReachND`: a guarded run with a `register` step (of a component whose deque
    is empty) and a fire + flush afterwards -/
example : ReachND exSt (runN 2 (startOf (envChange exSt 0 []) (.doAct 1 (.reg 1 0)))) := by
  have h0 : ReachND exSt (startOf (envChange exSt 0 []) (.doAct 1 (.reg 1 0))) := .init 0 [] _
  have h1 : ReachND exSt (runN 1 (startOf (envChange exSt 0 []) (.doAct 1 (.reg 1 0)))) := by
    refine ReachND.step h0 ?_
    intro ch p k hs _
    simp [startOf, startDo, Cfg.start] at hs
  refine ReachND.step h1 ?_
  intro ch p k hs _
  have : ch = 1 := by
    have h2 : (runN 1 (startOf (envChange exSt 0 []) (.doAct 1 (.reg 1 0)))).stack =
        [.register 1 0, .acts ⟨1, none⟩ [], .doFin 1] := rfl
    rw [h2] at hs
    injection hs with hs _
    injection hs with h _
    exact h.symm
  subst this
  decide

/-- **One iteration of `dispatchEvents`' loop** in a reachable configuration whose top frame is
    `.dispatchLoop r`: if `_flush_batch` is 0 the loop ends and nothing changes; otherwise the
    step pops an item `it` that is a minimum by `(prio, seq)` of `r`'s heap, removes exactly it
    (deque and counter untouched), decrements `_flush_batch` FIRST and calls
    `_dispatcher(it.ev, …, remaining)` with `remaining` = the new `_flush_batch` = the number of
    events left in the heap; no other component's queue changes. -/
theorem dispatch_pops_min (s0 : St) (h0 : InitBatch s0) (c : Cfg) (hr : Reach s0 c) (r : Nat) (k : List Frame)
    (hs : c.stack = .dispatchLoop r :: k) (hx : c.exn = none) :
    ((c.st.comp r).eq.batch = 0 ∧ step c = { c with stack := k }) ∨
    ((c.st.comp r).eq.batch ≠ 0 ∧
      ∃ it q', (∀ y ∈ (c.st.comp r).eq.heap, it.le y = true) ∧ it ∈ (c.st.comp r).eq.heap ∧
        q'.heap = (c.st.comp r).eq.heap.erase it ∧ q'.batch + 1 = (c.st.comp r).eq.batch ∧
        q'.batch = q'.heap.length ∧ q'.queue = (c.st.comp r).eq.queue ∧ q'.counter = (c.st.comp r).eq.counter ∧
        (step c).stack = .dispatcher r it.ev q'.batch :: .dispatchLoop r :: k ∧ (step c).exn = none ∧
        ∀ y, ((step c).st.comp y).eq = if y = r then q' else (c.st.comp y).eq) := by
  have hb := q2_batch_reach s0 h0 c hr
  have hp := q2_dispatch_progress c r hb
  rcases q2_dispatch_pops_min c r k hs hx with ⟨h1, h2⟩ | ⟨it, q', h1, h2, h3, h4, h5, h6, h7, h8, h9, _, h11⟩
  · exact .inl ⟨hp.1.mp h1, h2⟩
  · refine .inr ⟨?_, it, q', h2, h3, h4, h5, hp.2 it q' h1, h6, h7, h8, h9, h11⟩
    intro hz
    rw [hp.1.mpr hz] at h1; cases h1

example : InitBatch exStBusy ∧ Reach exStBusy (startOf (envChange exStBusy 0 []) (.flush 0)) :=
  ⟨fun x => by
    match x with
    | 0 => exact (qinv_begin exQ_inv).batch_eq
    | n + 1 => rfl, .init 0 [] _⟩
/-- the nested flush continues the batch: after the `.flush` step the loop frame is on top, and
    its step dispatches the minimum `⟨-1, 4, 14⟩` with `remaining = 5` -/
example : (step (step (startOf (envChange exStBusy 0 []) (.flush 0)))).stack =
    [.dispatcher 0 14 5, .dispatchLoop 0, .flushFin 0 false] := rfl

/-- **`fire()` is inert** (plain handler body / external code).  The step that executes a
    `fire` act of a `.acts` frame: (`Q2Fire`) appends the new event `e = |evs|` with the given
    priority to the queue of the firing component's root and to no other queue, changes no other
    field of any component, creates the event object, logs one `F` entry, leaves the handler,
    generator, wait and timer tables and the clock alone - and continues with the SAME frame on
    the remaining acts: no `.dispatcher` / `.invoke` / `.hLoop` frame is pushed, the frames below
    are untouched, nothing is returned or raised. -/
theorem fire_is_inert (c : Cfg) (ctx : HCtx) (i : Nat) (target : Option Chan) (prio : Int) (cancel : Bool)
    (rest : Prog) (k : List Frame)
    (hs : c.stack = .acts ctx (.fire i target prio cancel :: rest) :: k) (hx : c.exn = none) :
    (step c).stack = .acts ctx rest :: k ∧ (step c).exn = none ∧ (step c).ret = c.ret ∧
    Q2Fire c.st (step c).st (c.st.rootOf ctx.self) c.st.evs.length prio ∧
    (step c).st.evs.length = c.st.evs.length + 1 :=
  q2_acts_fire c ctx i target prio cancel rest k hs hx

/-- **`fire()` is inert** (generator handler body): the same for a `fire` act executed by a
    `.stepGen g` frame; the generator record only advances past the act. -/
theorem fire_is_inert_gen (c : Cfg) (g e h owner i : Nat) (target : Option Chan) (prio : Int) (cancel : Bool)
    (rest : Prog) (n : Nat) (pc : Option Bool) (sd : Bool) (k : List Frame)
    (hs : c.stack = .stepGen g :: k) (hx : c.exn = none)
    (hg : c.st.gen g = .user e h owner (.fire i target prio cancel :: rest) n pc sd) :
    (step c).stack = .stepGen g :: k ∧ (step c).exn = none ∧ (step c).ret = c.ret ∧
    Q2Fire (c.st.setGen g (.user e h owner rest n none sd)) (step c).st (c.st.rootOf owner) c.st.evs.length prio ∧
    (step c).st.evs.length = c.st.evs.length + 1 :=
  q2_stepGen_fire c g e h owner i target prio cancel rest n pc sd k hs hx hg

/-- what `Q2Fire` says about the queues, in layer terms: one `QOp.app` on the root, nothing else -/
theorem fire_appends_once {s s' : St} {r e : Nat} {prio : Int} (h : Q2Fire s s' r e prio) (x : Nat) :
    (s'.comp x).eq = if x = r ∧ x < s.comps.length then ((QOp.app e prio).apply (s.comp x).eq).1
      else (s.comp x).eq := by
  rw [h.comp x]
  split <;> rfl

/-- **No re-entrant dispatch through `fire()`.**  Whenever the next step executes a `fire` act of
    user code (`Q2FiresNext`: in a plain body or in a generator body - these are the only two
    places where the machine runs a user `fire`), the step replaces the top frame by a frame
    that is not a dispatching frame (`.dispatcher`, `.hLoop`, `.invoke`, `.dispatchLoop`,
    `.flush`, `.tick`), leaves all frames below untouched (cf. `C04.frames_below_untouched`),
    logs exactly one entry, an `F`, (no `D`/`I`/`H` entry: no handler ran) and does not touch
    the handler table.  The handler that called `fire()` simply goes on. -/
theorem no_reentrant_dispatch_by_fire (c : Cfg) (h : Q2FiresNext c) :
    ∃ f f' k, c.stack = f :: k ∧ (step c).stack = f' :: k ∧ f'.q2dispatching = false ∧
      (step c).exn = none ∧ (step c).ret = c.ret ∧
      (∃ e nm ch p, (step c).st.log = .fire e nm ch p :: c.st.log) ∧ (step c).st.hs = c.st.hs :=
  q2_no_reentrant c h

/-- a handler body about to fire, inside a dispatch (frames below: the handler loop) -/
def exFiring : Cfg :=
  { st := exSt, stack := [.acts ⟨1, some 0⟩ [.fire 0 none (-1) false, .ret 7], .invokeFin 0 0,
      .hAfter 1 0 [] false .none, .dispatchLoop 1] }
example : Q2FiresNext exFiring := ⟨rfl, .inl ⟨_, _, _, _, _, _, _, rfl⟩⟩
example : (step exFiring).stack = [.acts ⟨1, some 0⟩ [.ret 7], .invokeFin 0 0, .hAfter 1 0 [] false .none,
    .dispatchLoop 1] ∧ ((step exFiring).st.comp 1).eq.queue = [⟨-1, 0, 0⟩] ∧
    ((step exFiring).st.comp 0).eq.queue = [] := ⟨rfl, by decide, by decide⟩

/-- **The machine's handler loop IS `chooseNext`.**  `St.chooseHandler` (the choice the `.hLoop`
    arm makes, following the tape) is `chooseNext` of the layer with the priority table of the
    current state and the hint read off the tape (`St.q2hint`); the arm keeps exactly the other
    handlers.  So `choose_max`, `choose_rest`, `handlers_desc`, `stop_cuts` are statements about
    the machine's loop. -/
theorem handler_loop_uses_chooseNext (s : St) (e h0 : Nat) (rest0 : List Nat) :
    chooseNext s.q2prio (s.q2hint e h0 rest0) (h0 :: rest0) =
      some (s.chooseHandler e h0 rest0, (h0 :: rest0).erase (s.chooseHandler e h0 rest0)) :=
  q2_chooseHandler s e h0 rest0

/-- … as a statement about the step of a `.hLoop` frame; with a descending pending list the
    invoked handler has maximal priority and the kept list is again descending. -/
theorem handler_loop_step (c : Cfg) (r e h0 : Nat) (rest0 : List Nat) (err : Bool) (stale : Outcome) (k : List Frame)
    (hs : c.stack = .hLoop r e (h0 :: rest0) err stale :: k) (hx : c.exn = none) :
    ∃ h rest, chooseNext c.st.q2prio (c.st.q2hint e h0 rest0) (h0 :: rest0) = some (h, rest) ∧
      (step c).stack = .invoke r h e :: .hAfter r e rest err stale :: k ∧ (step c).exn = none ∧
      (step c).st.q2prio = c.st.q2prio ∧
      ((h0 :: rest0).Pairwise (fun a b => c.st.q2prio a ≥ c.st.q2prio b) →
        (∀ x ∈ h0 :: rest0, c.st.q2prio h ≥ c.st.q2prio x) ∧
        rest.Pairwise (fun a b => c.st.q2prio a ≥ c.st.q2prio b)) := by
  obtain ⟨h, rest, h1, h2, h3, h4⟩ := q2_hLoop_step c r e h0 rest0 err stale k hs hx
  exact ⟨h, rest, h1, h2, h3, St.q2prio_of_hs h4, fun hd => ⟨(choose_max hd h1).2, (choose_rest hd h1).1⟩⟩

/-- **`stop()` cuts the loop.**  After a handler returned, the `.hApply` step looks at
    `event.stopped`: if set, the loop frame is replaced by `.dispFin` and the pending handlers
    `rest` (all of priority ≤ the stopper's, by `handler_loop_step`) disappear with it - no
    frame, no state field refers to them any more; otherwise the loop goes on with the same
    `rest`. -/
theorem stop_breaks_loop (c : Cfg) (r e : Nat) (rest : List Nat) (err : Bool) (v : Outcome) (k : List Frame)
    (hs : c.stack = .hApply r e rest err v :: k) (hx : c.exn = none) :
    (step c).stack = (if ((c.st.applyValue r e v).ev e).stopped = true then Frame.dispFin r e err
                      else Frame.hLoop r e rest err v) :: k :=
  q2_hApply_step c r e rest err v k hs hx

/-- **What `_dispatcher` builds on a cache miss.**  `computeHandlers` returns
    `sorted = mergeSort (prio a ≥ prio b) (collected handlers)` (`St.q2sorted`, descending), and
    appends a freshly allocated fallback handler exactly for `generate_events` (priority -100) and
    for an unhandled `exception` event. -/
theorem dispatcher_sorts (s : St) (r : Nat) (name : Name) (chans : List Chan) :
    (s.q2sorted r name chans).Pairwise (fun a b => s.q2prio a ≥ s.q2prio b) ∧
    (∀ h, h ∈ s.q2sorted r name chans ↔ ∃ ch ∈ chans, h ∈ collect s (s.comps.length + 1) r name ch) ∧
    (((s.computeHandlers r name chans).1 = s.q2sorted r name chans ∧ (s.computeHandlers r name chans).2.hs = s.hs ∧
        name ≠ Name.generateEvents ∧ ¬ (name = Name.exception ∧ s.q2sorted r name chans = []))
    ∨ ((s.computeHandlers r name chans).1 = s.q2sorted r name chans ++ [s.hs.length] ∧
        ∃ hd, (s.computeHandlers r name chans).2.hs = s.hs ++ [hd] ∧
          ((name = Name.generateEvents ∧ hd.prio = -100 ∧ hd.kind = .fallbackGE) ∨
           (name = Name.exception ∧ s.q2sorted r name chans = [] ∧ hd.prio = 0 ∧ hd.kind = .fallbackExc)))) := by
  refine ⟨q2_sorted_desc s r name chans, ?_, q2_computeHandlers s r name chans⟩
  intro h
  unfold St.q2sorted
  rw [List.mem_mergeSort, List.mem_flatMap]

/-- … hence the list handed to the handler loop satisfies the `Desc` hypothesis of
    `handlers_desc` / `stop_cuts` (w.r.t. the priority table of the state the loop starts in)
    whenever the collected handlers are declared records (`hin`; C01's invariant `K.hid/gid`)
    and - for `generate_events` - none of them has a priority below the fallback's -100 (`hlow`).
    FULL statement (without `hlow`): false, see `dispatcher_sorts_desc_witness` and
    `sorted_append_fallback`: the fallback is appended AFTER sorting, so a user `generate_events`
    handler with a priority below -100 runs before the (higher-priority) fallback. -/
theorem dispatcher_sorts_desc_partial (s : St) (r : Nat) (name : Name) (chans : List Chan)
    (hin : ∀ h ∈ s.q2sorted r name chans, h < s.hs.length)
    (hlow : name = Name.generateEvents → ∀ h ∈ s.q2sorted r name chans, s.q2prio h ≥ -100) :
    (s.computeHandlers r name chans).1.Pairwise
      (fun a b => (s.computeHandlers r name chans).2.q2prio a ≥ (s.computeHandlers r name chans).2.q2prio b) :=
  q2_computeHandlers_desc s r name chans hin hlow

/-- one component with a user handler of priority 3 for `generate_events`: hypotheses hold, the
    fallback (id 1) is appended last -/
def exStGE : St :=
  { comps := [{ parent := 0, root := 0, htab := [(some Name.generateEvents, 0)] }],
    hs := [{ owner := 0, names := [Name.generateEvents], chan := none, prio := 3, kind := .user 0 }] }
example : (exStGE.computeHandlers 0 Name.generateEvents [.star]).1 = [0, 1] ∧
    (∀ h ∈ exStGE.q2sorted 0 Name.generateEvents [.star], h < exStGE.hs.length) ∧
    (∀ h ∈ exStGE.q2sorted 0 Name.generateEvents [.star], exStGE.q2prio h ≥ -100) := by decide +kernel

/-- the excluded case: a user `generate_events` handler with priority -200 - the list is not
    descending, the fallback (priority -100) runs after it -/
def exStGELow : St :=
  { comps := [{ parent := 0, root := 0, htab := [(some Name.generateEvents, 0)] }],
    hs := [{ owner := 0, names := [Name.generateEvents], chan := none, prio := -200, kind := .user 0 }] }
theorem dispatcher_sorts_desc_witness :
    (exStGELow.computeHandlers 0 Name.generateEvents [.star]).1 = [0, 1] ∧
    ¬ (exStGELow.computeHandlers 0 Name.generateEvents [.star]).1.Pairwise
      (fun a b => (exStGELow.computeHandlers 0 Name.generateEvents [.star]).2.q2prio a ≥
        (exStGELow.computeHandlers 0 Name.generateEvents [.star]).2.q2prio b) := by
  decide +kernel

/-- the tape names handler 4 of the tie group {0, 2, 4}: hint honoured by machine and layer alike -/
def exStTape : St :=
  { hs := [{ owner := 0, names := [], chan := none, prio := 1, kind := .user 0 },
           { owner := 0, names := [], chan := none, prio := -2, kind := .user 0 },
           { owner := 0, names := [], chan := none, prio := 1, kind := .user 0 },
           { owner := 0, names := [], chan := none, prio := 0, kind := .user 0 },
           { owner := 0, names := [], chan := none, prio := 1, kind := .user 0 }],
    tape := [.inv 9 4 0] }
example : exStTape.chooseHandler 9 0 [2, 4, 3, 1] = 4 ∧ exStTape.q2hint 9 0 [2, 4, 3, 1] = some 4 ∧
    chooseNext exStTape.q2prio (some 4) [0, 2, 4, 3, 1] = some (4, [0, 2, 3, 1]) := by decide


/-! ## 9. handler order on the machine (second round)

Sections 6 and 8 left a gap: `handlers_desc` / `stop_cuts` are about the layer function
`chooseIter`, `handler_loop_step` needs the `Desc` hypothesis for the pending list, and
`dispatcher_sorts_desc_partial` needs "ids declared, priorities ≥ -100" for the collected
handlers.  The theorems below close it with a Reach-level invariant (CV/Proofs/InvOrderBase.lean,
InvOrder.lean, InvOrderMain.lean: `O2I`, proved by one case analysis of `step`; InvOrderLog.lean for
the statements about the log):

  * handler records never change once declared (the table is only appended to), every id in a
    handler table / global list / cached list / pending list is declared, every declared
    priority is ≥ -100 - so every cached list and every pending list of a `.hLoop` / `.hAfter` /
    `.hApply` frame on the stack is descending (`order_state_inv`, `pending_desc`,
    `dispatcher_list_desc`);
  * consequently, in the machine's own LOG, the user handlers invoked for one event are invoked
    in non-increasing priority order (`handlers_desc_log_partial`; as the spec predicate the
    harness evaluates on the implementation's log: `handlerOrderOk_machine_partial`), and after
    the `.hApply` step that saw `event.stopped` no handler is invoked for that event any more
    (`stop_cuts_machine_partial`).
    "One dispatch" is identified in the log by the event id, so these three carry the hypothesis
    `DispatchedOnce log` (the `D` entries of the log are pairwise different).  It is a decidable
    property of the log itself and holds whenever no `Timer` is used: a persistent `Timer` fires
    ONE event object again and again (`handlerOrderOk_timer_witness`). -/

/-- hypothesis on the initial state of a driver session: every declared handler has a priority
    ≥ -100 (the fallback `generate_events` handler, appended AFTER sorting, has -100; see
    `dispatcher_sorts_desc_witness`), whatever is installed in a handler table is a declared
    record, cached handler lists (none in a fresh manager) are descending and declared, nothing
    has been logged yet -/
structure InitOrder (s : St) : Prop where
  low : ∀ hd ∈ s.hs, -100 ≤ hd.prio
  hid : ∀ c k h, (k, h) ∈ (s.comp c).htab → h < s.hs.length
  gid : ∀ c h, h ∈ (s.comp c).globals → h < s.hs.length
  cache : ∀ c key l, (key, l) ∈ (s.comp c).cache →
    l.Pairwise (fun a b => s.q2prio a ≥ s.q2prio b) ∧ ∀ h ∈ l, h < s.hs.length
  log : s.log = []

theorem InitOrder.o2 {s : St} (h : InitOrder s) : O2Init s := ⟨⟨h.low, h.hid, h.gid, h.cache⟩, h.log⟩

/-- `exStGE` (one component, a user `generate_events` handler of priority 3) and `exStTape` qualify -/
example : InitOrder exStGE := by
  refine ⟨by decide, ?_, ?_, ?_, rfl⟩
  · intro c k h hm
    have : (exStGE.comp c).htab = [(some Name.generateEvents, 0)] ∨ (exStGE.comp c).htab = [] := by
      match c with
      | 0 => exact .inl rfl
      | n + 1 => exact .inr rfl
    rcases this with e | e <;> rw [e] at hm
    · simp only [List.mem_singleton, Prod.mk.injEq] at hm
      rw [hm.2]; decide
    · cases hm
  · intro c h hm
    have : (exStGE.comp c).globals = [] := by
      match c with
      | 0 => rfl
      | n + 1 => rfl
    rw [this] at hm; cases hm
  · intro c key l hm
    have : (exStGE.comp c).cache = [] := by
      match c with
      | 0 => rfl
      | n + 1 => rfl
    rw [this] at hm; cases hm

/-- **State invariant.**  In every reachable configuration: all declared priorities are ≥ -100,
    every id in a handler table or global list is declared, and every cached handler list is
    sorted by descending priority and consists of declared handlers. -/
theorem order_state_inv (s0 : St) (h0 : InitOrder s0) (c : Cfg) (hr : Reach s0 c) :
    (∀ hd ∈ c.st.hs, -100 ≤ hd.prio) ∧
    (∀ x k h, (k, h) ∈ (c.st.comp x).htab → h < c.st.hs.length) ∧
    (∀ x h, h ∈ (c.st.comp x).globals → h < c.st.hs.length) ∧
    (∀ x key l, (key, l) ∈ (c.st.comp x).cache →
      l.Pairwise (fun a b => c.st.q2prio a ≥ c.st.q2prio b) ∧ ∀ h ∈ l, h < c.st.hs.length) :=
  let h := (O2I.reach h0.o2 c hr).st
  ⟨h.low, h.hid, h.gid, h.cache⟩

/-- **Handler records never change**: one step only appends to the handler table. -/
theorem handler_table_append_only (c : Cfg) : ∃ ext, (step c).st.hs = c.st.hs ++ ext := by
  cases hst : c.stack with
  | nil => rw [step_nil c hst]; exact ⟨[], by simp⟩
  | cons f k =>
    cases hx : c.exn with
    | some ex =>
      rw [step_cons_exn c f k ex hst hx]
      have : O2G k c.st (unwind c k ex f) := by cases f <;> ((try dsimp only [unwind]); o2t)
      exact this.rel.hs
    | none =>
      rw [step_cons c f k hst hx]
      cases f
      case dispatcher r e rem =>
        have h : (stepFrame c k (.dispatcher r e rem)).st = (c.st.dispatchPre r e rem).2 := by
          dsimp only [stepFrame]; unfold Cfg.dispatcher; split <;> rfl
        rw [h]; exact (o2_dispatchPre_rel c.st r e rem).logged.1
      case hLoop r e l err stale =>
        cases l with
        | nil => exact ⟨[], by simp; rfl⟩
        | cons h0 rest0 => exact ⟨[], by simp; rfl⟩
      case invoke r h e =>
        rcases o2_invoke_cases c k r h e with hg | ⟨s, hs, hr, _⟩
        · exact hg.rel.hs
        · obtain ⟨x1, e1⟩ := hs.hs
          obtain ⟨x2, e2⟩ := hr.logged.1
          exact ⟨x1 ++ x2, by dsimp only [stepFrame]; rw [e2, e1, List.append_assoc]⟩
      case hAfter r e l err stale => exact (o2_hAfter_shape c k r e l err stale).1.hs
      case hApply r e l err v =>
        rcases o2_hApply_shape c k r e l err v with h | h
        · exact h.rel.hs
        · exact h.1.hs
      all_goals
        (refine O2R.hs (O2G.rel (k := k) ?_); (try dsimp only [stepFrame]); o2t)

/-- **Pending lists are descending.**  In every reachable configuration the list of handlers still
    to run carried by any `.hLoop` / `.hAfter` / `.hApply` frame on the stack - at any depth, i.e.
    also of dispatches suspended by a nested `flush()` - is sorted by descending priority
    (priority table of the current state) and consists of declared handlers.  This is the `Desc`
    hypothesis of `handler_loop_step`, `choose_max`, `choose_rest`. -/
theorem pending_desc (s0 : St) (h0 : InitOrder s0) (c : Cfg) (hr : Reach s0 c)
    (r e : Nat) (l : List Nat) (err : Bool) (o : Outcome)
    (hf : Frame.hLoop r e l err o ∈ c.stack ∨ Frame.hAfter r e l err o ∈ c.stack ∨ Frame.hApply r e l err o ∈ c.stack) :
    l.Pairwise (fun a b => c.st.q2prio a ≥ c.st.q2prio b) ∧ ∀ h ∈ l, h < c.st.hs.length := by
  have hi := O2I.reach h0.o2 c hr
  rcases hf with h | h | h
  · exact (hi.ok _ h).desc e l rfl
  · exact (hi.ok _ h).desc e l rfl
  · exact (hi.ok _ h).desc e l rfl

/-- **What `_dispatcher` hands to the handler loop** in a reachable configuration (cache hit or
    miss, any event incl. `generate_events` with its fallback handler): a cancelled event goes to
    `_effectDone`; otherwise the loop starts with a list that is descending and declared.
    (Full-strength version of `dispatcher_sorts_desc_partial`: its hypotheses `hin`, `hlow` are
    consequences of the invariant.) -/
theorem dispatcher_list_desc (s0 : St) (h0 : InitOrder s0) (c : Cfg) (hr : Reach s0 c)
    (r e rem : Nat) (k : List Frame) (hst : c.stack = .dispatcher r e rem :: k) (hx : c.exn = none) :
    (step c).stack = .effectDone r e false :: k ∨
    ∃ hs, (step c).stack = .hLoop r e hs false .none :: k ∧
      hs.Pairwise (fun a b => (step c).st.q2prio a ≥ (step c).st.q2prio b) ∧ ∀ h ∈ hs, h < (step c).st.hs.length := by
  have hs : step c = c.dispatcher k r e rem := step_cons c _ k hst hx
  have hshape : (step c).stack = .effectDone r e false :: k ∨ ∃ l, (step c).stack = .hLoop r e l false .none :: k := by
    rw [hs]; unfold Cfg.dispatcher
    split
    · exact .inl rfl
    · exact .inr ⟨_, rfl⟩
  rcases hshape with h | ⟨l, h⟩
  · exact .inl h
  · exact .inr ⟨l, h, pending_desc s0 h0 (step c) (.step hr) r e l false .none (.inl (by rw [h]; exact List.mem_cons_self))⟩

/-- every event object was dispatched at most once: the `D` entries of the log are pairwise different -/
def DispatchedOnce (log : List Entry) : Prop :=
  (log.filterMap fun x => match x with | .disp e => some e | _ => none).Nodup

example : DispatchedOnce = O2Once := rfl

/-- **The handler chosen next.**  In a reachable configuration whose top frame is the handler loop
    of event `e` with handlers pending, the step calls a handler `h` and keeps `rest` such that:
    every handler invoked so far for `e` (`I` entries of the log) has a priority ≥ `h`'s, and `h`'s
    priority is ≥ that of every handler kept.  (`DispatchedOnce`: see the section header.) -/
theorem handler_step_order_partial (s0 : St) (h0 : InitOrder s0) (c : Cfg) (hr : Reach s0 c)
    (honce : DispatchedOnce c.st.log)
    (r e h0' : Nat) (rest0 : List Nat) (err : Bool) (stale : Outcome) (k : List Frame)
    (hst : c.stack = .hLoop r e (h0' :: rest0) err stale :: k) (hx : c.exn = none) :
    ∃ h rest, (step c).stack = .invoke r h e :: .hAfter r e rest err stale :: k ∧
      (step c).st.log = c.st.log ∧ (step c).st.hs = c.st.hs ∧ h ∈ h0' :: rest0 ∧ rest = (h0' :: rest0).erase h ∧
      (∀ h' ∈ invokedFor c.st.log e, c.st.q2prio h' ≥ c.st.q2prio h) ∧
      (∀ x ∈ rest, c.st.q2prio h ≥ c.st.q2prio x) := by
  have hi := O2I.reach h0.o2 (step c) (.step hr)
  have hs : step c = c.goto k (c.st.modEv e fun x => { x with geHandler := some (c.st.chooseHandler e h0' rest0) })
      [.invoke r (c.st.chooseHandler e h0' rest0) e,
       .hAfter r e ((h0' :: rest0).erase (c.st.chooseHandler e h0' rest0)) err stale] := step_cons c _ k hst hx
  have hlog : (step c).st.log = c.st.log := by rw [hs]; rfl
  have hhs : (step c).st.hs = c.st.hs := by rw [hs]; rfl
  have hprio : (step c).st.q2prio = c.st.q2prio := St.q2prio_of_hs hhs
  have hstk := (hi.once (by rw [hlog]; exact honce)).1
  have hstack : (step c).stack = .invoke r (c.st.chooseHandler e h0' rest0) e ::
      .hAfter r e ((h0' :: rest0).erase (c.st.chooseHandler e h0' rest0)) err stale :: k := by rw [hs]; rfl
  rw [hstack] at hstk
  obtain ⟨h1, r', rest, err', stale', k', hk, h2⟩ := hstk.1.call _ e rfl
  cases hk
  rw [hlog, hprio] at h1
  rw [hprio] at h2
  exact ⟨_, _, hstack, hlog, hhs, (chooseNext_spec (q2_chooseHandler c.st e h0' rest0)).1, rfl, h1, h2⟩

/-- **Handlers of one event run in non-increasing priority order - on the machine's log.**  For
    every reachable configuration whose log dispatches every event at most once and every event
    `e`: the user handlers invoked for `e` (`I` entries `(e, h, step 0)`, in chronological order)
    have non-increasing priorities.
    FULL statement (without `DispatchedOnce`): false when one event OBJECT is dispatched several
    times (`handlerOrderOk_timer_witness`); per dispatch it is what `handler_step_order_partial`
    says step by step. -/
theorem handlers_desc_log_partial (s0 : St) (h0 : InitOrder s0) (c : Cfg) (hr : Reach s0 c)
    (honce : DispatchedOnce c.st.log) (e : Nat) :
    (invokedFor c.st.log.reverse e).Pairwise (fun a b => c.st.q2prio a ≥ c.st.q2prio b) :=
  (O2I.reach h0.o2 c hr).chron honce e

/-- ... as the spec predicate of CV/Model/Core/LogSpec.lean, which the harness evaluates on the
    IMPLEMENTATION's log (`spec handlerorder impl`): it holds of the model's own log
    (`spec handlerorder model` evaluates exactly this expression). -/
theorem handlerOrderOk_machine_partial (s0 : St) (h0 : InitOrder s0) (c : Cfg) (hr : Reach s0 c)
    (honce : DispatchedOnce c.st.log) :
    handlerOrderOk (fun h => (c.st.hs.getD h dfltHandler).prio) c.st.log.reverse = true :=
  o2_handlerOrderOk (O2I.reach h0.o2 c hr) honce

/-- every `I` entry of the log belongs to an event that has a `D` entry, and names a declared handler -/
theorem invoked_is_dispatched (s0 : St) (h0 : InitOrder s0) (c : Cfg) (hr : Reach s0 c) (e h : Nat)
    (hm : Entry.inv e h 0 ∈ c.st.log) : Entry.disp e ∈ c.st.log ∧ h < c.st.hs.length :=
  (O2I.reach h0.o2 c hr).dispd e h hm

/-- **Who logs what, who pushes what.**  One step from any configuration with top frame `f`:
    a `D` entry for `e` is logged only (and always) by the step of `.dispatcher _ e _`; an `I` entry
    `(e, h)` only by the step of the call frame `.invoke _ h e`; a loop frame or call frame of an
    event `e` is pushed only by the step of `_dispatcher(e)` or of a loop frame of `e` itself - in
    particular never by `fire()`, never by a frame of another event. -/
theorem step_classification (c : Cfg) (f : Frame) (k : List Frame) (hst : c.stack = f :: k) :
    (∃ fs, (step c).stack = fs ++ k ∧ ∀ g ∈ fs, ∀ e, g.o2ev = some e → f.o2dev = some e ∧ c.exn = none) ∧
    (∃ es, (step c).st.log = es ++ c.st.log ∧
      (∀ e, Entry.disp e ∈ es → c.exn = none ∧ ∃ r rem, f = .dispatcher r e rem) ∧
      (∀ e h, Entry.inv e h 0 ∈ es → c.exn = none ∧ ∃ r, f = .invoke r h e) ∧
      (∀ r e rem, f = .dispatcher r e rem → c.exn = none → Entry.disp e ∈ es)) :=
  let h := o2_step_class c f k hst
  ⟨h.push, h.log⟩

/-- **`stop()` on the machine's log.**  A reachable configuration whose top frame is `.hApply` for
    event `e` (the handler just returned) and `event.stopped` is set: the step replaces the loop
    by `.dispFin` (dropping the pending handlers `rest`, all of priority ≤ every handler that ran);
    and in every later configuration `c'` of the session (any number of steps, any further
    external operations) whose log dispatches every event at most once, the handlers invoked for
    `e` are exactly those invoked before the step: no further handler runs for `e`. -/
theorem stop_cuts_machine_partial (s0 : St) (h0 : InitOrder s0) (c : Cfg) (hr : Reach s0 c)
    (r e : Nat) (rest : List Nat) (err : Bool) (v : Outcome) (k : List Frame)
    (hst : c.stack = .hApply r e rest err v :: k) (hx : c.exn = none)
    (hstop : ((c.st.applyValue r e v).ev e).stopped = true)
    (c' : Cfg) (hl : O2Later (step c) c') (honce : DispatchedOnce c'.st.log) :
    (step c).stack = .dispFin r e err :: k ∧
    (∀ h' ∈ invokedFor c.st.log e, ∀ x ∈ rest, c.st.q2prio h' ≥ c.st.q2prio x) ∧
    invokedFor c'.st.log e = invokedFor c.st.log e := by
  have hi := O2I.reach h0.o2 c hr
  have hstack : (step c).stack = .dispFin r e err :: k := by
    rw [q2_hApply_step c r e rest err v k hst hx, if_pos hstop]
  -- the log of the later configuration extends the log of `c`
  have hext : ∀ c'', O2Later (step c) c'' → ∃ es, c''.st.log = es ++ c.st.log := by
    intro c'' h
    induction h with
    | refl => exact step_log c
    | step _ ih => obtain ⟨es, he⟩ := ih; obtain ⟨es', he'⟩ := step_log _; exact ⟨es' ++ es, by rw [he', he, List.append_assoc]⟩
    | next d tape op _ _ ih =>
      obtain ⟨es, he⟩ := ih
      exact ⟨es, by rw [o2_startOf_st]; exact he⟩
  obtain ⟨es, he⟩ := hext c' hl
  have honce0 : O2Once c.st.log := o2_once_of_append (he ▸ honce)
  have hstk := (hi.once honce0).1
  rw [hst] at hstk
  obtain ⟨h1, h2⟩ := hstk.1.loop e rest rfl
  have hfok := hi.ok _ (hst ▸ List.mem_cons_self)
  -- the step itself is quiet
  obtain ⟨⟨_, _, _⟩, es1, he1, hd1, hi1, _⟩ := o2_step_class c _ k hst
  have hclosed : O2Closed e (step c) := by
    refine ⟨by rw [he1]; exact List.mem_append_right _ (hfok.disp e rfl), ?_⟩
    intro g hg hev
    rw [hstack] at hg
    rcases List.mem_cons.mp hg with h3 | h3
    · rw [h3] at hev; cases hev
    · exact h2 g h3 hev
  have hsame : invokedFor (step c).st.log e = invokedFor c.st.log e := by
    rw [he1, o2_invoked_append, o2_invoked_nil_of, List.nil_append]
    intro x hm
    obtain ⟨_, r1, hf⟩ := hi1 e x hm
    cases hf
  exact ⟨hstack, h1, ((o2_closed_later hclosed hl) honce).2.trans hsame⟩

/-- `O2Later` contains whole runs: `runN n (step c)` for every `n` -/
example (c : Cfg) (n : Nat) : O2Later (step c) (runN n (step c)) := O2Later.runN _ n

/-- the excluded case: a running manager 0 with a persistent `Timer` (component 1, interval 0) for
    event name 1, and two handlers for it with priorities 1 and 0 (their sorted list already
    cached, so that the kernel can evaluate the run without unfolding `mergeSort`) -/
def exStTimer : St :=
  { comps := [{ parent := 0, root := 0, children := [1], running := true,
                htab := [(some ⟨1, []⟩, 0), (some ⟨1, []⟩, 1)],
                cache := [((⟨1, []⟩, [.star]), [0, 1])] },
              { parent := 0, root := 0, htab := [(some Name.generateEvents, 2)] }],
    hs := [{ owner := 0, names := [⟨1, []⟩], chan := none, prio := 1, kind := .user 0 },
           { owner := 0, names := [⟨1, []⟩], chan := none, prio := 0, kind := .user 0 },
           { owner := 1, names := [Name.generateEvents], chan := none, kind := .timer 0 }],
    progs := [[]], tmpls := [{ name := ⟨1, []⟩ }],
    timers := [{ interval := 0, persist := true, tmpl := 0, target := none, comp := 1, parent := 0, created := true }] }

/-- three `tick()`s -/
def exT1 : Cfg := runN 60 (startOf (envChange exStTimer 0 []) (.tick 0))
def exT2 : Cfg := runN 60 (startOf (envChange exT1.st 0 []) (.tick 0))
def exT3 : Cfg := runN 60 (startOf (envChange exT2.st 0 []) (.tick 0))

example : InitOrder exStTimer := by
  refine ⟨by decide, ?_, ?_, ?_, rfl⟩
  · intro c k h hm
    have : ∀ p ∈ (exStTimer.comp c).htab, p.2 < 3 := by
      match c with
      | 0 => decide
      | 1 => decide
      | n + 2 => intro p hp; cases hp
    exact this _ hm
  · intro c h hm
    have : (exStTimer.comp c).globals = [] := by
      match c with
      | 0 => rfl
      | 1 => rfl
      | n + 2 => rfl
    rw [this] at hm; cases hm
  · intro c key l hm
    have : ∀ p ∈ (exStTimer.comp c).cache, p.2 = [0, 1] := by
      match c with
      | 0 => decide
      | 1 => intro p hp; cases hp
      | n + 2 => intro p hp; cases hp
    have hl : l = [0, 1] := this _ hm
    subst hl
    decide

/-- why the log statements carry `DispatchedOnce`: the `Timer` fires the SAME event object (id 1)
    at every tick; it is dispatched twice, its two handlers run in the order 0, 1, 0, 1 -
    descending within each dispatch, but the log identifies a dispatch only by the event id, and
    `handlerOrderOk` (which groups `I` entries by event id) fails.  The real `Timer` does the same
    (`self.fire(self.event, …)` with one `self.event`); the harness evaluates `handlerOrderOk` only
    on scenarios without timers. -/
theorem handlerOrderOk_timer_witness :
    Reach exStTimer exT3 ∧ ¬ DispatchedOnce exT3.st.log ∧
    invokedFor exT3.st.log.reverse 1 = [0, 1, 0, 1] ∧
    handlerOrderOk (fun h => (exT3.st.hs.getD h dfltHandler).prio) exT3.st.log.reverse = false := by
  refine ⟨?_, ?_, by decide +kernel, by decide +kernel⟩
  · have h1 : Reach exStTimer exT1 := Reach.runN (.init 0 [] _) 60
    have h2 : Reach exStTimer exT2 := Reach.runN (.next 0 [] _ h1 (by decide +kernel)) 60
    exact Reach.runN (.next 0 [] _ h2 (by decide +kernel)) 60
  · unfold DispatchedOnce; decide +kernel


/-! ## 10. pass order on the machine's own log (second round)

`passOrderOk` (CV/Model/Core/LogSpec.lean) is the spec predicate the harness evaluates on the
IMPLEMENTATION's log: it replays the `F` / `B` / `D` entries with one abstract queue - events
fired are pending, a pass takes exactly the pending events and must dispatch them in ascending
priority, fire order among equals, nothing fired meanwhile overtakes.  It is written from the
property statement, for ONE manager tree ("single root").  The theorem below proves it of the
MODEL's log (what `spec passorder model` evaluates), for every guarded run - which closes the
triangle statement / model / implementation for the pass-order clauses.  Proof:
CV/Proofs/InvOrderPassBase.lean (the relation `O2PR`: queue of the root and replay state move
together, through all primitives / helpers / arms) and InvOrderPass.lean (invariant `O2PI`: the
replay state's `pending` IS the root's deque, `expected` IS the root's heap in `(prio, seq)`
order; `pop_is_min` and `QInv` make the `D` entries come out in that order). -/

/-- single root: component 0 exists and is every component's root (one manager tree) -/
def SingleRoot (s : St) : Prop := 0 < s.comps.length ∧ ∀ x, (s.comp x).root = 0

/-- hypothesis on the initial state: freshly constructed queues, nothing logged -/
structure InitPass (s : St) : Prop where
  eq : ∀ x, (s.comp x).eq = {}
  log : s.log = []

/-- runs in which every step is taken from a configuration with a single root that does not
    drain a non-empty deque (`ReachSR`, CV/Proofs/InvOrderPass.lean, uses literally these guards) -/
example (s0 : St) (c : Cfg) (h : ReachSR s0 c) (hg : NoDrain c) (hs : SingleRoot c.st) : ReachSR s0 (step c) :=
  .step h hg ⟨hs.1, hs.2⟩

/-- guarded runs are guarded runs of section 8, hence runs -/
theorem reachSR_reachND {s0 : St} {c : Cfg} (h : ReachSR s0 c) : ReachND s0 c := h.reachND

/-- **Pass order on the machine's log.**  For every session from fresh queues in which every step
    is taken under a single root and without draining a non-empty deque: the spec predicate
    `passOrderOk` holds of the machine's own log - every `B` entry announces exactly the events
    fired and not yet taken, the `D` entries of a pass are the snapshot sorted by priority, then
    fire order, a new pass starts only when the previous one is exhausted, and nothing is
    dispatched that was not taken by the current pass (no overtaking, nested flushes included).
    FULL statement (over `Reach`): false, `passOrderOk_two_roots_witness`: the predicate replays
    ONE queue, two manager trees have two. -/
theorem pass_order_machine_partial (s0 : St) (h0 : InitPass s0) (c : Cfg) (hr : ReachSR s0 c) :
    passOrderOk c.st.log.reverse = true :=
  o2_passOrderOk ⟨h0.eq, h0.log⟩ c hr

/-- the invariant behind it, for readers: in every such configuration the replay state of the
    log IS the root's queue - `pending` = deque (with `ord` = sequence number), `count` = counter,
    `expected` = the heap in `(prio, seq)` order (preceded by the event just popped while its
    `_dispatcher` frame is on top) -/
theorem pass_replay_is_queue (s0 : St) (h0 : InitPass s0) (c : Cfg) (hr : ReachSR s0 c) :
    (o2pass c.st).ok = true ∧
    (o2pass c.st).pending = (c.st.comp 0).eq.queue.map QItem.toP ∧
    (o2pass c.st).count = (c.st.comp 0).eq.counter ∧
    (o2pass c.st).expected = o2exp c :=
  let h := (O2PI.reach ⟨h0.eq, h0.log⟩ c hr).corr
  ⟨h.ok, h.pending, h.count, h.expected⟩

/-- a decidable sufficient check for the two guards -/
def guardOk (c : Cfg) : Bool :=
  (0 < c.st.comps.length && c.st.comps.all (fun x => x.root == 0)) &&
  (match c.stack with | .register .. :: _ => false | _ => true)

theorem guardOk_sound {c : Cfg} (h : guardOk c = true) : NoDrain c ∧ SingleRoot c.st := by
  unfold guardOk at h
  rw [Bool.and_eq_true, Bool.and_eq_true] at h
  obtain ⟨⟨h1, h2⟩, h3⟩ := h
  refine ⟨?_, by simpa using h1, ?_⟩
  · intro ch p k hs _
    rw [hs] at h3; cases h3
  · intro x
    unfold St.comp
    rw [List.getD_eq_getElem?_getD]
    cases hx : c.st.comps[x]? with
    | none => rfl
    | some y =>
      rw [List.all_eq_true] at h2
      have := h2 y (List.mem_of_getElem? hx)
      simpa using this

theorem reachSR_runN {s0 : St} {c : Cfg} (h : ReachSR s0 c) : ∀ n, (∀ i, i < n → guardOk (runN i c) = true) →
    ReachSR s0 (runN n c) := by
  intro n
  induction n generalizing c with
  | zero => intro _; exact h
  | succ n ih =>
    intro hg
    rw [runN_succ]
    have h0 := guardOk_sound (hg 0 (Nat.succ_pos _))
    refine ih (.step h h0.1 ⟨h0.2.1, h0.2.2⟩) ?_
    intro i hi
    rw [← runN_succ]; exact hg (i + 1) (Nat.succ_lt_succ hi)

/-- one fresh manager; three fires with priorities 2, -1, 2, then a flush: a complete guarded session -/
def exStOne : St := { comps := [{ parent := 0, root := 0 }], tmpls := [{ name := ⟨1, []⟩ }] }
def exP1 : Cfg := runN 5 (startOf (envChange exStOne 0 []) (.doAct 0 (.fire 0 none 2 false)))
def exP2 : Cfg := runN 5 (startOf (envChange exP1.st 0 []) (.doAct 0 (.fire 0 none (-1) false)))
def exP3 : Cfg := runN 5 (startOf (envChange exP2.st 0 []) (.doAct 0 (.fire 0 none 2 false)))
def exP4 : Cfg := runN 60 (startOf (envChange exP3.st 0 []) (.flush 0))

example : InitPass exStOne := ⟨fun x => by
  match x with
  | 0 => rfl
  | n + 1 => rfl, rfl⟩

theorem exP4_reachSR : ReachSR exStOne exP4 := by
  have h1 : ReachSR exStOne exP1 := reachSR_runN (.init 0 [] _) 5 (by decide +kernel)
  have h2 : ReachSR exStOne exP2 := reachSR_runN (.next 0 [] _ h1 (by decide +kernel)) 5 (by decide +kernel)
  have h3 : ReachSR exStOne exP3 := reachSR_runN (.next 0 [] _ h2 (by decide +kernel)) 5 (by decide +kernel)
  exact reachSR_runN (.next 0 [] _ h3 (by decide +kernel)) 60 (by decide +kernel)

/-- the session is complete, dispatched all three events - the one with priority -1 first, then
    the two with priority 2 in fire order - and (by the theorem, not by evaluation) its log
    satisfies the spec predicate -/
example : done exP4 = true ∧
    (exP4.st.log.reverse.filterMap fun x => match x with | .disp e => some e | _ => none) = [1, 0, 2] ∧
    passOrderOk exP4.st.log.reverse = true :=
  ⟨by decide +kernel, by decide +kernel, pass_order_machine_partial exStOne ⟨fun x => by
    match x with
    | 0 => rfl
    | n + 1 => rfl, rfl⟩ exP4 exP4_reachSR⟩

/-- the excluded case: two managers (`exSt`), one fire on each, then `0.flush()`: the log reads
    `F F B(1) …` - the pass took one event while the single abstract queue holds two -/
def exR1 : Cfg := runN 5 (startOf (envChange exSt 0 []) (.doAct 1 (.fire 0 none 0 false)))
def exR2 : Cfg := runN 5 (startOf (envChange exR1.st 0 []) (.doAct 0 (.fire 0 none 0 false)))
def exR3 : Cfg := runN 60 (startOf (envChange exR2.st 0 []) (.flush 0))

theorem passOrderOk_two_roots_witness :
    InitPass exSt ∧ Reach exSt exR3 ∧ ¬ SingleRoot exSt ∧ passOrderOk exR3.st.log.reverse = false := by
  refine ⟨⟨fun x => by
      match x with
      | 0 => rfl
      | 1 => rfl
      | n + 2 => rfl, rfl⟩, ?_, ?_, by decide +kernel⟩
  · have h1 : Reach exSt exR1 := Reach.runN (.init 0 [] _) 5
    have h2 : Reach exSt exR2 := Reach.runN (.next 0 [] _ h1 (by decide +kernel)) 5
    exact Reach.runN (.next 0 [] _ h2 (by decide +kernel)) 60
  · intro h
    have := h.2 1
    revert this
    decide

/-! ## 11. non-vacuity of the hypotheses of section 9 on real runs -/

/-- `handler_step_order_partial` / `handlers_desc_log_partial` / `handlerOrderOk_machine_partial`:
    the timer session after two ticks (`exT2`) is reachable from an `InitOrder` state, has
    dispatched every event once, and has invoked both handlers of event 1 (priorities 1, 0) -/
example : Reach exStTimer exT2 ∧ DispatchedOnce exT2.st.log ∧ invokedFor exT2.st.log.reverse 1 = [0, 1] := by
  refine ⟨Reach.runN (.next 0 [] _ (Reach.runN (.init 0 [] _) 60) (by decide +kernel)) 60, ?_, by decide +kernel⟩
  unfold DispatchedOnce; decide +kernel

/-- `stop_cuts_machine_partial`: one manager, two handlers for event name 1 with priorities 1 and 0,
    the first one calls `event.stop()` -/
def exStStop : St :=
  { comps := [{ parent := 0, root := 0, htab := [(some ⟨1, []⟩, 0), (some ⟨1, []⟩, 1)],
                cache := [((⟨1, []⟩, [.star]), [0, 1])] }],
    hs := [{ owner := 0, names := [⟨1, []⟩], chan := none, prio := 1, kind := .user 0 },
           { owner := 0, names := [⟨1, []⟩], chan := none, prio := 0, kind := .user 1 }],
    progs := [[.stopEv], []], tmpls := [{ name := ⟨1, []⟩ }] }
def exS1 : Cfg := runN 5 (startOf (envChange exStStop 0 []) (.doAct 0 (.fire 0 none 0 false)))
/-- nine steps into the flush: handler 0 has returned, the `.hApply` frame is on top -/
def exS2 : Cfg := runN 9 (startOf (envChange exS1.st 0 []) (.flush 0))
/-- the rest of the flush -/
def exS3 : Cfg := runN 40 (step exS2)

example : Reach exStStop exS2 ∧
    (match exS2.stack, exS2.exn with
      | .hApply 0 0 [1] false .none :: _, none => ((exS2.st.applyValue 0 0 .none).ev 0).stopped
      | _, _ => false) = true ∧
    O2Later (step exS2) exS3 ∧ DispatchedOnce exS3.st.log ∧ done exS3 = true ∧
    invokedFor exS3.st.log.reverse 0 = [0] := by
  refine ⟨Reach.runN (.next 0 [] _ (Reach.runN (.init 0 [] _) 5) (by decide +kernel)) 9, by decide +kernel,
    O2Later.runN _ 40, ?_, by decide +kernel, by decide +kernel⟩
  unfold DispatchedOnce; decide +kernel

example : InitOrder exStStop := by
  refine ⟨by decide, ?_, ?_, ?_, rfl⟩
  · intro c k h hm
    have : ∀ p ∈ (exStStop.comp c).htab, p.2 < 2 := by
      match c with
      | 0 => decide
      | n + 1 => intro p hp; cases hp
    exact this _ hm
  · intro c h hm
    have : (exStStop.comp c).globals = [] := by
      match c with
      | 0 => rfl
      | n + 1 => rfl
    rw [this] at hm; cases hm
  · intro c key l hm
    have : ∀ p ∈ (exStStop.comp c).cache, p.2 = [0, 1] := by
      match c with
      | 0 => decide
      | n + 1 => intro p hp; cases hp
    have hl : l = [0, 1] := this _ hm
    subst hl
    decide

end CV.C02
